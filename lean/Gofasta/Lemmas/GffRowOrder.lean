import Gofasta.Model.Regions
import Gofasta.Lemmas.TopK
import Gofasta.Lemmas.SortSpec
/-
The GFF3 rows of one coding feature may be listed in any order (fix a19382f: CDSRegion2fromGFF first orders
the rows by genomic start with a stable sort).

Part 1: `sortRows` is the stable sort of the models for the order "smaller start"; it does nothing to rows already
listed by non-decreasing start (`sortRows_of_sorted`), which is what the theorems of C14 about the model's own rows
(`Gene.rows`) need.
Part 2: the point of the repair. Rows with pairwise distinct starts give the same region in whatever order they are
listed (`sortRows_perm`, `regionFromGFF_any_order`, `regionFromGFF_reverse`), for a whole annotation
`regionsFromGFF_any_order`; and the record of the defect: without the sort the two orders of a minus-strand feature
give different regions (`old_order_dependent`).
-/
namespace Gofasta.Lemmas.GffRowOrder
open Gofasta Model

/-! ### `sortRows` is `sortStable` -/

/-- the order of the rows of a feature: smaller genomic start first -/
def rowLt (a b : GffRow) : Bool := decide (a.start < b.start)

theorem rowLt_swo : SWO rowLt where
  asymm := by
    intro a b h
    simp only [rowLt, decide_eq_true_eq, decide_eq_false_iff_not] at *
    omega
  negtrans := by
    intro a b c h
    simp only [rowLt, decide_eq_true_eq] at *
    omega

theorem insertRow_eq (r : GffRow) (l : List GffRow) : insertRow r l = insSorted rowLt r l := by
  induction l with
  | nil => rfl
  | cons x xs ih =>
    simp only [insertRow, insSorted, rowLt]
    by_cases h : r.start < x.start
    · simp [h]
    · simp [h, ih]

theorem sortRows_eq (rows : List GffRow) : sortRows rows = sortStable rowLt rows := by
  unfold sortRows sortStable
  congr 1
  funext acc r
  exact insertRow_eq r acc

/-- listed by non-decreasing genomic start -/
def Ascending (rows : List GffRow) : Prop := rows.Pairwise (fun a b => a.start ≤ b.start)

theorem ascending_iff_sorted (rows : List GffRow) : Ascending rows ↔ Sorted rowLt rows := by
  unfold Ascending Sorted
  constructor <;> intro h <;> refine List.Pairwise.imp ?_ h <;> intro a b hab
  · simp only [rowLt, decide_eq_false_iff_not]; omega
  · simp only [rowLt, decide_eq_false_iff_not] at hab; omega

/-- **sortRows_of_sorted** - rows already listed by non-decreasing start are left as they are (rows of equal start keep
their file order: the insertion is stable) -/
theorem sortRows_of_sorted (rows : List GffRow) (h : Ascending rows) : sortRows rows = rows := by
  rw [sortRows_eq]
  exact sortStable_of_sorted rows ((ascending_iff_sorted rows).1 h)

theorem sortRows_perm_self (rows : List GffRow) : (sortRows rows).Perm rows := by
  rw [sortRows_eq]
  exact sortStable_perm rows

theorem sortRows_ascending (rows : List GffRow) : Ascending (sortRows rows) := by
  rw [sortRows_eq, ascending_iff_sorted]
  exact sorted_sortStable rowLt_swo rows

theorem sortRows_idem (rows : List GffRow) : sortRows (sortRows rows) = sortRows rows :=
  sortRows_of_sorted _ (sortRows_ascending rows)

theorem mem_sortRows (r : GffRow) (rows : List GffRow) : r ∈ sortRows rows ↔ r ∈ rows :=
  (sortRows_perm_self rows).mem_iff

theorem sortRows_length (rows : List GffRow) : (sortRows rows).length = rows.length :=
  (sortRows_perm_self rows).length_eq

theorem sortRows_eq_nil (rows : List GffRow) : sortRows rows = [] ↔ rows = [] := by
  constructor
  · intro h
    have := sortRows_length rows
    rw [h] at this
    exact List.length_eq_zero_iff.1 this.symm
  · intro h; subst h; rfl

/-! ### the region, in terms of the sorted rows -/

/-- what CDSRegion2fromGFF does with the ordered rows and the name -/
def regionOfSorted (name : String) (rows : List GffRow) (refDegapped : List Nat) : Option Region :=
  match rows with
  | [] => none
  | r0 :: _ =>
    match r0.strand with
    | "+" =>
      if rows.any (fun r => r.strand != "+") then none else
      let pos := (rows.zip (List.range rows.length)).flatMap fun (r, j) =>
        rangeUp (if j = 0 then r.start + r.phase else r.start) r.stop
      match translateGo true (refBasesAt refDegapped pos) with
      | some t => some { name := name, strand := 1, positions := pos, translation := t }
      | none => none
    | "-" =>
      if rows.any (fun r => r.strand != "-") then none else
      let n := rows.length
      let pos := ((rows.zip (List.range n)).reverse).flatMap fun (r, j) =>
        (rangeUp r.start (if j = n - 1 then r.stop - r.phase else r.stop)).reverse
      match translateGo true (complement (refBasesAt refDegapped pos)) with
      | some t => some { name := name, strand := -1, positions := pos, translation := t }
      | none => none
    | _ => none

/-- **regionFromGFF_eq** - the name comes from the first row in file order, everything else from the sorted rows -/
theorem regionFromGFF_eq (rows : List GffRow) (ref : List Nat) :
    regionFromGFF rows ref =
      match rows.head? with
      | none => none
      | some f0 => regionOfSorted (f0.name.getD "") (sortRows rows) ref := by
  cases rows with
  | nil => rfl
  | cons f0 t =>
    unfold regionFromGFF
    simp only [List.head?_cons]
    cases hs : sortRows (f0 :: t) with
    | nil => rfl
    | cons r0 rest => rfl

/-! ### the order of the rows of a feature does not matter -/

/-- no two rows of the feature start at the same base -/
def DistinctStarts (rows : List GffRow) : Prop := rows.Pairwise (fun a b => a.start ≠ b.start)

theorem eq_of_start_eq : ∀ (rows : List GffRow), DistinctStarts rows → ∀ a ∈ rows, ∀ b ∈ rows, a.start = b.start → a = b := by
  intro rows
  induction rows with
  | nil => intro _ a ha; cases ha
  | cons x t ih =>
    intro hd a ha b hb hab
    have hx : ∀ {y}, y ∈ t → x.start ≠ y.start := fun hy => List.rel_of_pairwise_cons hd hy
    have ht : DistinctStarts t := (List.pairwise_cons.1 hd).2
    rcases List.mem_cons.1 ha with ha1 | ha1 <;> rcases List.mem_cons.1 hb with hb1 | hb1
    · rw [ha1, hb1]
    · rw [ha1] at hab; exact absurd hab (hx hb1)
    · rw [hb1] at hab; exact absurd hab.symm (hx ha1)
    · exact ih ht a ha1 b hb1 hab

theorem DistinctStarts.perm {rows1 rows2 : List GffRow} (h : DistinctStarts rows1) (hp : rows1.Perm rows2) :
    DistinctStarts rows2 :=
  (hp.pairwise_iff (fun h e => h e.symm)).1 h

/-- **sortRows_perm** - the same rows in another order, no two starting at the same base, are sorted into the same
list -/
theorem sortRows_perm (rows1 rows2 : List GffRow) (hp : rows1.Perm rows2) (hd : DistinctStarts rows1) :
    sortRows rows1 = sortRows rows2 := by
  have h1 : (sortRows rows1).Pairwise (fun a b => a.start ≤ b.start) := sortRows_ascending rows1
  have h2 : (sortRows rows2).Pairwise (fun a b => a.start ≤ b.start) := sortRows_ascending rows2
  refine List.Perm.eq_of_pairwise (le := fun (a b : GffRow) => a.start ≤ b.start) ?_ h1 h2
    ((sortRows_perm_self rows1).trans (hp.trans (sortRows_perm_self rows2).symm))
  intro a b ha hb h1 h2
  have ha' : a ∈ rows1 := (mem_sortRows a rows1).1 ha
  have hb' : b ∈ rows1 := hp.mem_iff.2 ((mem_sortRows b rows2).1 hb)
  exact eq_of_start_eq rows1 hd a ha' b hb' (by omega)

/-- **regionFromGFF_any_order** - the rows of one feature listed in two orders (no two rows starting at the same base,
the same Name on the row listed first) give the same region, or the same refusal -/
theorem regionFromGFF_any_order (rows1 rows2 : List GffRow) (ref : List Nat) (hp : rows1.Perm rows2)
    (hd : DistinctStarts rows1) (hn : rows1.head?.map (·.name) = rows2.head?.map (·.name)) :
    regionFromGFF rows1 ref = regionFromGFF rows2 ref := by
  rw [regionFromGFF_eq, regionFromGFF_eq, sortRows_perm rows1 rows2 hp hd]
  cases rows1 with
  | nil =>
    have := hp.nil_eq
    subst this
    rfl
  | cons a t =>
    cases rows2 with
    | nil => simp at hn
    | cons b u =>
      simp only [List.head?_cons, Option.map_some, Option.some.injEq] at hn
      simp only [List.head?_cons, hn]

/-- the same when every row of the feature carries the same Name (whichever row is listed first) -/
theorem regionFromGFF_any_order_of_names (rows1 rows2 : List GffRow) (ref : List Nat) (hp : rows1.Perm rows2)
    (hd : DistinctStarts rows1) (hn : ∀ a ∈ rows1, ∀ b ∈ rows1, a.name = b.name) :
    regionFromGFF rows1 ref = regionFromGFF rows2 ref := by
  apply regionFromGFF_any_order rows1 rows2 ref hp hd
  cases rows1 with
  | nil =>
    have := hp.nil_eq
    subst this
    rfl
  | cons a t =>
    cases rows2 with
    | nil => exact absurd hp.length_eq (by simp)
    | cons b u =>
      simp only [List.head?_cons, Option.map_some, Option.some.injEq]
      exact hn a List.mem_cons_self b (hp.mem_iff.2 List.mem_cons_self)

/-- **regionFromGFF_reverse** - the two orders that occur in real files: ascending by start, and transcription order,
which on the minus strand is the reverse. Both give the same region -/
theorem regionFromGFF_reverse (rows : List GffRow) (ref : List Nat) (hd : DistinctStarts rows)
    (hn : ∀ a ∈ rows, ∀ b ∈ rows, a.name = b.name) :
    regionFromGFF rows.reverse ref = regionFromGFF rows ref :=
  (regionFromGFF_any_order_of_names rows rows.reverse ref (List.reverse_perm rows).symm hd hn).symm

/-- rows listed by DEcreasing start (transcription order of a minus-strand feature) are read as their reverse -/
theorem sortRows_reverse_of_sorted (rows : List GffRow) (h : Ascending rows) (hd : DistinctStarts rows) :
    sortRows rows.reverse = rows := by
  rw [← sortRows_perm rows rows.reverse (List.reverse_perm rows).symm hd]
  exact sortRows_of_sorted rows h

/-! ### a whole annotation -/

/-- the rows RegionsFromGFF keeps -/
def cds (rows : List GffRow) : List GffRow :=
  rows.filter fun r => r.type == "CDS" || r.type == "mature_protein_region_of_CDS"

/-- the rows of the feature with ID `i` -/
def group (rows : List GffRow) (i : String) : List GffRow := (cds rows).filter fun r => r.id == some i

/-- the coding rows without ID (each is a feature of its own) -/
def orphans (rows : List GffRow) : List GffRow := (cds rows).filter fun r => r.id.isNone

theorem regionsFromGFF_eq (rows : List GffRow) (ref : List Nat) :
    regionsFromGFF rows ref =
      match ((idOrder (cds rows)).map (group rows) ++ (orphans rows).map fun r => [r]).mapM
          (fun g => regionFromGFF g ref) with
      | none => none
      | some temp =>
        some (sortStable regionStartLt (temp.filter fun r => r.name != ""),
          codes (sortStable regionStartLt (temp.filter fun r => r.name != "")) ref.length) := rfl

theorem mapM_congr_map {α β : Type} (f : α → Option β) : ∀ (l1 l2 : List α), l1.map f = l2.map f →
    l1.mapM f = l2.mapM f := by
  intro l1
  induction l1 with
  | nil =>
    intro l2 h
    cases l2 with
    | nil => rfl
    | cons b u => simp at h
  | cons a t ih =>
    intro l2 h
    cases l2 with
    | nil => simp at h
    | cons b u =>
      simp only [List.map_cons, List.cons.injEq] at h
      rw [List.mapM_cons, List.mapM_cons, h.1, ih u h.2]

/-- **regionsFromGFF_any_order** - two GFF3 files with the same rows in different orders give the same regions and the
same intergenic positions, provided the IDs appear for the first time in the same order, the rows without ID are
listed in the same order, inside a feature no two rows start at the same base and all rows carry the same Name.
In particular the rows of each feature may be permuted among themselves (ascending, transcription order, ...). -/
theorem regionsFromGFF_any_order (rows1 rows2 : List GffRow) (ref : List Nat) (hp : rows1.Perm rows2)
    (hid : idOrder (cds rows1) = idOrder (cds rows2)) (horph : orphans rows1 = orphans rows2)
    (hd : ∀ i, DistinctStarts (group rows1 i))
    (hn : ∀ i, ∀ a ∈ group rows1 i, ∀ b ∈ group rows1 i, a.name = b.name) :
    regionsFromGFF rows1 ref = regionsFromGFF rows2 ref := by
  rw [regionsFromGFF_eq, regionsFromGFF_eq, ← hid, ← horph]
  have hm : ((idOrder (cds rows1)).map (group rows1) ++ (orphans rows1).map fun r => [r]).mapM
        (fun g => regionFromGFF g ref) =
      ((idOrder (cds rows1)).map (group rows2) ++ (orphans rows1).map fun r => [r]).mapM
        (fun g => regionFromGFF g ref) := by
    apply mapM_congr_map
    simp only [List.map_append, List.map_map]
    congr 1
    apply List.map_congr_left
    intro i _
    have hpg : (group rows1 i).Perm (group rows2 i) := (hp.filter _).filter _
    exact regionFromGFF_any_order_of_names (group rows1 i) (group rows2 i) ref hpg (hd i) (hn i)
  rw [hm]

/-! #### files written feature by feature -/

def idStep (acc : List String) (r : GffRow) : List String :=
  match r.id with
  | some i => if acc.contains i then acc else acc ++ [i]
  | none => acc

theorem idOrder_eq (rows : List GffRow) : idOrder rows = rows.foldl idStep [] := rfl

/-- what a block of rows with the same ID does to the list of IDs seen: only the ID and whether the block is empty
matter -/
theorem fold_block (i : String) : ∀ (l : List GffRow) (acc : List String), (∀ r ∈ l, r.id = some i) →
    l.foldl idStep acc = if l.isEmpty then acc else if acc.contains i then acc else acc ++ [i] := by
  intro l
  induction l with
  | nil => intro acc _; rfl
  | cons r t ih =>
    intro acc hl
    have hr := hl r List.mem_cons_self
    have ht : ∀ r ∈ t, r.id = some i := fun r hr => hl r (List.mem_cons_of_mem _ hr)
    rw [List.foldl_cons, ih _ ht]
    have hs : idStep acc r = if acc.contains i then acc else acc ++ [i] := by simp only [idStep, hr]
    rw [hs]
    by_cases hc : i ∈ acc
    · cases t <;> simp [hc]
    · cases t <;> simp [hc]

/-- one block per feature: every row of a block carries the block's ID -/
def Blocks (gs : List (List GffRow)) : Prop := ∀ g ∈ gs, ∃ i, ∀ r ∈ g, r.id = some i

/-- the same blocks in the same order, the rows permuted inside each block -/
inductive SameBlocks : List (List GffRow) → List (List GffRow) → Prop where
  | nil : SameBlocks [] []
  | cons {g1 g2 t1 t2} : g1.Perm g2 → SameBlocks t1 t2 → SameBlocks (g1 :: t1) (g2 :: t2)

theorem fold_blocks : ∀ (gs1 gs2 : List (List GffRow)), SameBlocks gs1 gs2 → Blocks gs1 → ∀ acc,
    gs1.flatten.foldl idStep acc = gs2.flatten.foldl idStep acc := by
  intro gs1 gs2 h
  induction h with
  | nil => intro _ _; rfl
  | @cons g1 g2 t1 t2 hg _ ih =>
    intro hb acc
    obtain ⟨i, hi⟩ := hb g1 List.mem_cons_self
    have hi2 : ∀ r ∈ g2, r.id = some i := fun r hr => hi r (hg.mem_iff.2 hr)
    have he : g1.isEmpty = g2.isEmpty := by
      cases g1 <;> cases g2
      · rfl
      · exact absurd hg.length_eq (by simp)
      · exact absurd hg.length_eq (by simp)
      · rfl
    rw [List.flatten_cons, List.flatten_cons, List.foldl_append, List.foldl_append, fold_block i g1 acc hi,
      fold_block i g2 acc hi2, he]
    exact ih (fun g hg' => hb g (List.mem_cons_of_mem _ hg')) _

theorem sameBlocks_flatten : ∀ (gs1 gs2 : List (List GffRow)), SameBlocks gs1 gs2 →
    gs1.flatten.Perm gs2.flatten := by
  intro gs1 gs2 h
  induction h with
  | nil => exact List.Perm.refl _
  | cons hg _ ih =>
    rw [List.flatten_cons, List.flatten_cons]
    exact List.Perm.append hg ih

theorem sameBlocks_filter (p : GffRow → Bool) : ∀ (gs1 gs2 : List (List GffRow)), SameBlocks gs1 gs2 →
    SameBlocks (gs1.map (List.filter p)) (gs2.map (List.filter p)) := by
  intro gs1 gs2 h
  induction h with
  | nil => exact SameBlocks.nil
  | cons hg _ ih => exact SameBlocks.cons (hg.filter p) ih

theorem sameBlocks_blocks : ∀ (gs1 gs2 : List (List GffRow)), SameBlocks gs1 gs2 → Blocks gs1 → Blocks gs2 := by
  intro gs1 gs2 h
  induction h with
  | nil => intro hb; exact hb
  | @cons g1 g2 t1 t2 hg _ ih =>
    intro hb g hg'
    rcases List.mem_cons.1 hg' with rfl | hg'
    · obtain ⟨i, hi⟩ := hb g1 List.mem_cons_self
      exact ⟨i, fun r hr => hi r (hg.mem_iff.2 hr)⟩
    · exact ih (fun g hg'' => hb g (List.mem_cons_of_mem _ hg'')) g hg'

/-- **regionsFromGFF_blocks_any_order** - a file written feature by feature (`gs1`: one block of rows per feature, all
rows of a block with the block's ID) and the same file with the rows permuted INSIDE each block (`gs2`, e.g. every
minus-strand feature in transcription order instead of ascending) give the same regions and intergenic positions -/
theorem regionsFromGFF_blocks_any_order (gs1 gs2 : List (List GffRow)) (ref : List Nat)
    (hperm : SameBlocks gs1 gs2) (hb : Blocks gs1)
    (hd : ∀ i, DistinctStarts (group gs1.flatten i))
    (hn : ∀ i, ∀ a ∈ group gs1.flatten i, ∀ b ∈ group gs1.flatten i, a.name = b.name) :
    regionsFromGFF gs1.flatten ref = regionsFromGFF gs2.flatten ref := by
  have hp := sameBlocks_flatten gs1 gs2 hperm
  have hnone : ∀ (gs : List (List GffRow)), Blocks gs → orphans gs.flatten = [] := by
    intro gs hbs
    unfold orphans cds
    rw [List.filter_filter, List.filter_eq_nil_iff]
    intro r hr
    obtain ⟨g, hg, hrg⟩ := List.mem_flatten.1 hr
    obtain ⟨i, hi⟩ := hbs g hg
    simp [hi r hrg]
  have hb2 : Blocks gs2 := sameBlocks_blocks gs1 gs2 hperm hb
  apply regionsFromGFF_any_order _ _ ref hp ?_ ?_ hd hn
  · -- the IDs appear in the same order
    have hc : ∀ (gs : List (List GffRow)), cds gs.flatten = (gs.map (List.filter fun r =>
        r.type == "CDS" || r.type == "mature_protein_region_of_CDS")).flatten := by
      intro gs; unfold cds; rw [List.filter_flatten]
    rw [hc, hc, idOrder_eq, idOrder_eq]
    apply fold_blocks _ _ (sameBlocks_filter _ gs1 gs2 hperm)
    intro g hg
    obtain ⟨g0, hg0, rfl⟩ := List.mem_map.1 hg
    obtain ⟨i, hi⟩ := hb g0 hg0
    exact ⟨i, fun r hr => hi r (List.mem_filter.1 hr).1⟩
  · rw [hnone gs1 hb, hnone gs2 hb2]

/-! ### the record of the defect -/

/-- CDSRegion2fromGFF BEFORE fix a19382f: the rows are read in file order -/
def regionFromGFFOld (rows : List GffRow) (refDegapped : List Nat) : Option Region :=
  match rows with
  | [] => none
  | r0 :: _ =>
    let name := r0.name.getD ""
    match r0.strand with
    | "+" =>
      if rows.any (fun r => r.strand != "+") then none else
      let pos := (rows.zip (List.range rows.length)).flatMap fun (r, j) =>
        rangeUp (if j = 0 then r.start + r.phase else r.start) r.stop
      match translateGo true (refBasesAt refDegapped pos) with
      | some t => some { name := name, strand := 1, positions := pos, translation := t }
      | none => none
    | "-" =>
      if rows.any (fun r => r.strand != "-") then none else
      let n := rows.length
      let pos := ((rows.zip (List.range n)).reverse).flatMap fun (r, j) =>
        (rangeUp r.start (if j = n - 1 then r.stop - r.phase else r.stop)).reverse
      match translateGo true (complement (refBasesAt refDegapped pos)) with
      | some t => some { name := name, strand := -1, positions := pos, translation := t }
      | none => none
    | _ => none

theorem regionFromGFFOld_eq (rows : List GffRow) (ref : List Nat) :
    regionFromGFFOld rows ref =
      match rows.head? with
      | none => none
      | some r0 => regionOfSorted (r0.name.getD "") rows ref := by
  cases rows <;> rfl

/-- the repaired reader is the old reader applied to the sorted rows (when the rows of the feature carry one Name) -/
theorem regionFromGFF_eq_old_sorted (rows : List GffRow) (ref : List Nat) (hn : ∀ a ∈ rows, ∀ b ∈ rows, a.name = b.name) :
    regionFromGFF rows ref = regionFromGFFOld (sortRows rows) ref := by
  rw [regionFromGFF_eq, regionFromGFFOld_eq]
  cases rows with
  | nil => rfl
  | cons f0 t =>
    cases hs : sortRows (f0 :: t) with
    | nil => exact absurd ((sortRows_eq_nil _).1 hs) (by simp)
    | cons r0 rest =>
      have hr0 : r0 ∈ f0 :: t := (mem_sortRows r0 _).1 (by rw [hs]; exact List.mem_cons_self)
      simp only [List.head?_cons, hn f0 List.mem_cons_self r0 hr0]

/-- on rows listed by ascending start nothing has changed -/
theorem regionFromGFF_eq_old_of_sorted (rows : List GffRow) (ref : List Nat) (h : Ascending rows) :
    regionFromGFF rows ref = regionFromGFFOld rows ref := by
  rw [regionFromGFF_eq, regionFromGFFOld_eq, sortRows_of_sorted rows h]

/-- a minus-strand gene complement(join(3..8,12..14)): the coding strand reads ATG AAA TAA -/
def exRef : List Nat := stringToBytes "CCTTATTTGGGCATCC"
def exRowA : GffRow := ⟨"CDS", 3, 8, "-", 0, some "cds-g", some "g"⟩
def exRowB : GffRow := ⟨"CDS", 12, 14, "-", 0, some "cds-g", some "g"⟩

/-- the old reader on the two orders: ascending gives MK*, transcription order (5'-most row first) gives the codons of
the second exon first -/
theorem old_two_orders :
    (regionFromGFFOld [exRowA, exRowB] exRef).map (fun r => (r.positions, bytesToString r.translation)) =
      some ([14, 13, 12, 8, 7, 6, 5, 4, 3], "MK*") ∧
    (regionFromGFFOld [exRowB, exRowA] exRef).map (fun r => (r.positions, bytesToString r.translation)) =
      some ([8, 7, 6, 5, 4, 3, 14, 13, 12], "K*M") := by
  decide +kernel

/-- **old_order_dependent** - before the fix the region depended on the order in which the file lists the rows of a
minus-strand feature -/
theorem old_order_dependent : regionFromGFFOld [exRowB, exRowA] exRef ≠ regionFromGFFOld [exRowA, exRowB] exRef := by
  intro h
  have h1 := old_two_orders.1
  have h2 := old_two_orders.2
  rw [h, h1] at h2
  revert h2
  decide

/-- the repaired reader gives the same (right) region for both orders -/
theorem new_two_orders :
    regionFromGFF [exRowB, exRowA] exRef = regionFromGFF [exRowA, exRowB] exRef ∧
    (regionFromGFF [exRowB, exRowA] exRef).map (fun r => (r.positions, bytesToString r.translation)) =
      some ([14, 13, 12, 8, 7, 6, 5, 4, 3], "MK*") := by
  refine ⟨regionFromGFF_reverse [exRowA, exRowB] exRef (by simp [DistinctStarts, exRowA, exRowB]) ?_, by decide +kernel⟩
  intro a ha b hb
  simp only [List.mem_cons, List.not_mem_nil, or_false] at ha hb
  rcases ha with rfl | rfl <;> rcases hb with rfl | rfl <;> rfl

theorem group_sublist (rows : List GffRow) (i : String) : (group rows i).Sublist rows :=
  List.Sublist.trans List.filter_sublist List.filter_sublist

/-- non-vacuity of the whole-file theorem: the file with this one feature, in the two orders -/
example : regionsFromGFF [exRowB, exRowA] exRef = regionsFromGFF [exRowA, exRowB] exRef := by
  have hl : ∀ r ∈ [exRowA, exRowB], r = exRowA ∨ r = exRowB := by
    intro r hr; simpa using hr
  have h := regionsFromGFF_blocks_any_order [[exRowA, exRowB]] [[exRowB, exRowA]] exRef
    (.cons (List.Perm.swap exRowB exRowA []) .nil)
    (by intro g hg
        rw [List.mem_singleton] at hg
        subst hg
        exact ⟨"cds-g", fun r hr => by rcases hl r hr with rfl | rfl <;> rfl⟩)
    (fun i => List.Pairwise.sublist (group_sublist _ i) (by simp [exRowA, exRowB]))
    (fun i a ha b hb => by
      rcases hl a ((group_sublist _ i).subset ha) with rfl | rfl <;>
        rcases hl b ((group_sublist _ i).subset hb) with rfl | rfl <;> rfl)
  exact h.symm

/-- and this is what both give: one region, the right codons -/
example : (regionsFromGFF [exRowB, exRowA] exRef).map (fun x => x.1.map (fun r => (r.name, r.strand))) =
      some [("g", (-1 : Int))] ∧
    (regionsFromGFF [exRowB, exRowA] exRef).map (fun x => x.1.map (fun r => (r.positions, bytesToString r.translation))) =
      some [([14, 13, 12, 8, 7, 6, 5, 4, 3], "MK*")] ∧
    (regionsFromGFF [exRowB, exRowA] exRef).map (·.2) = some [1, 2, 9, 10, 11, 15, 16] := by
  decide +kernel

/-- distinct starts are needed: two rows starting at the same base keep their file order (the sort is stable), so the
two orders of such a feature are still read differently -/
theorem same_start_order_dependent :
    sortRows [⟨"CDS", 3, 8, "+", 0, none, some "a"⟩, ⟨"CDS", 3, 5, "+", 0, none, some "a"⟩] ≠
      sortRows [⟨"CDS", 3, 5, "+", 0, none, some "a"⟩, ⟨"CDS", 3, 8, "+", 0, none, some "a"⟩] := by
  intro h
  have := congrArg (fun l => l.map (·.stop)) h
  revert this
  decide

end Gofasta.Lemmas.GffRowOrder
