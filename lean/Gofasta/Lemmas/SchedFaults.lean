import Gofasta.Lemmas.SchedCommands
/-
C19 ("a failed output write is never reported as success") at the level of the goroutines: the re-ordering text
writer of the concurrency models (Model/Sched, one worker pool; Model/SchedChain, any number of pools) writing to a
DESTINATION THAT FAILS.  Props/C19 has the call-list model `Model.Writer.run`, which knows nothing about goroutines;
SchedCommands has the goroutines with a destination that cannot fail.  Here: both.

Modelling decisions
  * `Dest` = `failFrom k` (every write call from the k-th on fails) | `failOnce k` (only the k-th) | `ok`; calls are
    numbered from 1.  `Sink` = text accepted so far, number of calls made (the failed one included), `failed`.
  * every call is CHECKED (`Sink.put`): after a failed call no further call is made.  A failing call leaves nothing
    at the destination (a short write would add a prefix of that one chunk and nothing else).
  * the writer `FW` = the pending map and counter of `TextW` + the sink.  ONE call for the header, made in `init`
    (`FW.start`).  `Model.Sched.Cfg.init` cannot fail, so a failed header write sets `failed` and is reported by the
    first loop body (`FW.absorb`) or, when no record arrives, by `FW.finish`: the report is delayed, never lost (main
    may therefore return another goroutine's error first; that is an error too).
  * per flushed record y one call per element of `chunks y` (snps, updown list: one; variants: `name,` then
    `mutations\n`, and no call at all for the record named like the reference).  W = `nCalls chunks ys` =
    1 + the number of chunks of the results ys; = 1 + w * n when every record has w chunks (`nCalls_uniform`).
  * `FW.absorb` returns `.error e` exactly when a call of this loop body failed (or an earlier failure is pending):
    the writer sends e on cErr and returns, as Model/Sched treats a writer that fails in absorb.

Contents
  0.  `Dest`, `Sink`, `SinkInv` (closed form of the sink after any call sequence), `sink_eq_reportsFailure` (the sink
      under `failFrom` IS `Model.Writer.reportsFailure` on all-checked sites), `FW`, `callSeq`, `nCalls`, `fwAfter`,
      `fwAfter_complete` / `fwAfter_partial_out` / `fwAfter_text_prefix` (pure: any arrival order), `goodPrefix`
      `writer_frame`, `main_err_frame`, `Hist`, `reach_hist` (one pool, ANY writer: how the writer got to `cErr <- err`
      and whose error main returns); `chain_writer_frame`, `ChainHist`, `chain_reach_hist`
  1.  `fault_reported'`, `fault_reported`, `fault_reported_uniform`, `fault_maximal_run`, `fault_runSchedule`,
      `fault_maximal_run_write_error`                                            (and `chain_*`)
  2.  `fault_beyond_run_harmless` (any destination), `no_write_error`, `fault_beyond_run_no_error`,
      `fault_beyond_run_maximal`                                                 (and `chain_*`)
  3.  `accepted`, `written_is_prefix`, `written_is_prefix_ok`, `accepted_eq_wst`, `accepted_failing`  (and `chain*`)
  4.  namespace `Unchecked`: a loop body with one unchecked call site, `unchecked_loses` (by decide), `checked_reports`
  5.  snps, updown list (w = 1), variants (w = 2), sam variants (two pools): `*_fault_reported`,
      `*_fault_maximal_run`, `*_fault_maximal_run_write_error`, `*_fault_beyond_run_harmless`,
      `*_fault_beyond_run_maximal`, `*_written_is_prefix`
  namespace `Examples`: two schedules per family, a fault at a middle call, both return the write error (by decide).
-/
set_option autoImplicit false

namespace Gofasta.Lemmas.SchedFaults
open Gofasta Gofasta.Model
open Gofasta.Model.Sched (absorbAll)
open Gofasta.Lemmas.SchedCommands

variable {α β ε : Type}

/-! ## 0. the failing destination and the writer -/

/-- the output destination: which write calls (numbered from 1) it refuses -/
inductive Dest where
  | failFrom (k : Nat)    -- every call from the k-th on fails (disk full, closed pipe)
  | failOnce (k : Nat)    -- only the k-th call fails (a transient fault)
  | ok
  deriving DecidableEq, Repr

/-- does the i-th write call (i = 1, 2, ...) fail? -/
def Dest.fails : Dest → Nat → Bool
  | .failFrom k, i => decide (k ≤ i)
  | .failOnce k, i => decide (i = k)
  | .ok, _ => false

/-- what the writer goroutine knows about its destination: the text accepted so far, the number of write calls
made so far (the failed one included), whether a (checked) call has failed -/
structure Sink where
  text : String
  calls : Nat
  failed : Bool
  deriving DecidableEq, Repr

def Sink.empty : Sink := ⟨"", 0, false⟩

/-- one CHECKED write call `_, err := w.Write(c); if err != nil { cErr <- err; return }`: after a failure no
further call is made; a failing call leaves nothing at the destination -/
def Sink.put (d : Dest) (s : Sink) (c : String) : Sink :=
  if s.failed then s
  else if d.fails (s.calls + 1) then ⟨s.text, s.calls + 1, true⟩
  else ⟨s.text ++ c, s.calls + 1, false⟩

def Sink.putAll (d : Dest) (s : Sink) (cs : List String) : Sink := cs.foldl (Sink.put d) s

theorem Sink.putAll_append (d : Dest) (s : Sink) (a b : List String) :
    Sink.putAll d s (a ++ b) = Sink.putAll d (Sink.putAll d s a) b := by
  simp only [Sink.putAll, List.foldl_append]

/-- the sink after the calls `cs` have been issued (as far as the checks let the writer go) -/
structure SinkInv (d : Dest) (s : Sink) (cs : List String) : Prop where
  good : s.failed = false → s.text = String.join cs ∧ s.calls = cs.length ∧
    ∀ i, 1 ≤ i → i ≤ cs.length → d.fails i = false
  bad : s.failed = true → 1 ≤ s.calls ∧ s.calls ≤ cs.length ∧ d.fails s.calls = true ∧
    s.text = String.join (cs.take (s.calls - 1)) ∧ ∀ i, 1 ≤ i → i < s.calls → d.fails i = false

theorem sinkInv_empty (d : Dest) : SinkInv d Sink.empty [] :=
  ⟨fun _ => ⟨rfl, rfl, fun i h1 h2 => (by simp at h2; omega)⟩, fun h => (by simp [Sink.empty] at h)⟩

theorem sinkInv_put {d : Dest} {s : Sink} {cs : List String} (h : SinkInv d s cs) (c : String) :
    SinkInv d (Sink.put d s c) (cs ++ [c]) := by
  unfold Sink.put
  by_cases hf : s.failed = true
  · simp only [hf, if_true]
    obtain ⟨h1, h2, h3, h4, h5⟩ := h.bad hf
    refine ⟨fun hc => (by rw [hf] at hc; cases hc), fun _ => ⟨h1, ?_, h3, ?_, h5⟩⟩
    · simp only [List.length_append, List.length_singleton]; omega
    · rw [List.take_append_of_le_length (by omega)]; exact h4
  · have hf' : s.failed = false := by cases hs : s.failed <;> simp_all
    obtain ⟨h1, h2, h3⟩ := h.good hf'
    simp only [hf', Bool.false_eq_true, if_false]
    by_cases hd : d.fails (s.calls + 1) = true
    · simp only [hd, if_true]
      refine ⟨fun hc => (by cases hc), fun _ => ⟨?_, ?_, hd, ?_, ?_⟩⟩
      · dsimp only; omega
      · dsimp only; simp only [List.length_append, List.length_singleton]; omega
      · dsimp only; simp only [Nat.add_sub_cancel]
        rw [List.take_left' h2.symm]; exact h1
      · dsimp only; intro i hi1 hi2; exact h3 i hi1 (by omega)
    · have hd' : d.fails (s.calls + 1) = false := by cases hs : d.fails (s.calls + 1) <;> simp_all
      simp only [hd', Bool.false_eq_true, if_false]
      refine ⟨fun _ => ⟨?_, ?_, ?_⟩, fun hc => by cases hc⟩
      · rw [String.join_append, h1]; simp [String.join_cons]
      · simp only [List.length_append, List.length_singleton, h2]
      · intro i hi1 hi2
        simp only [List.length_append, List.length_singleton] at hi2
        by_cases hi : i ≤ cs.length
        · exact h3 i hi1 hi
        · have : i = s.calls + 1 := by omega
          rw [this]; exact hd'

theorem sinkInv_putAll {d : Dest} : ∀ (cs' : List String) {s : Sink} {cs : List String}, SinkInv d s cs →
    SinkInv d (Sink.putAll d s cs') (cs ++ cs') := by
  intro cs'
  induction cs' with
  | nil => intro s cs h; simpa [Sink.putAll] using h
  | cons c t ih =>
    intro s cs h
    have := ih (sinkInv_put h c)
    simpa [Sink.putAll, List.append_assoc] using this

/-- the sink after the whole call sequence `cs` from the empty sink -/
theorem sinkInv_all (d : Dest) (cs : List String) : SinkInv d (Sink.putAll d Sink.empty cs) cs := by
  simpa using sinkInv_putAll cs (sinkInv_empty d)

/-- whatever happened, the accepted text is the call sequence cut at a call boundary -/
theorem sink_text_take (d : Dest) (cs : List String) :
    ∃ j, j ≤ cs.length ∧ (Sink.putAll d Sink.empty cs).text = String.join (cs.take j) := by
  have h := sinkInv_all d cs
  cases hf : (Sink.putAll d Sink.empty cs).failed with
  | false =>
    obtain ⟨h1, _, _⟩ := h.good hf
    exact ⟨cs.length, Nat.le_refl _, by rw [List.take_length]; exact h1⟩
  | true =>
    obtain ⟨_, h2, _, h4, _⟩ := h.bad hf
    exact ⟨(Sink.putAll d Sink.empty cs).calls - 1, by omega, h4⟩

/-- a fault at one of the calls of the sequence is hit -/
theorem sink_fails (d : Dest) (cs : List String) (k : Nat) (hk1 : 1 ≤ k) (hk : k ≤ cs.length)
    (hd : d.fails k = true) : (Sink.putAll d Sink.empty cs).failed = true := by
  have h := sinkInv_all d cs
  cases hf : (Sink.putAll d Sink.empty cs).failed with
  | true => rfl
  | false =>
    have := (h.good hf).2.2 k hk1 hk
    rw [this] at hd; cases hd

/-! ### the sink against the call-list model `Model.Writer.run` of Props/C19 -/

theorem Sink.putAll_failed (d : Dest) : ∀ (cs : List String) (s : Sink), s.failed = true →
    (Sink.putAll d s cs).failed = true := by
  intro cs
  induction cs with
  | nil => intro s h; exact h
  | cons c t ih =>
    intro s h
    have : Sink.put d s c = s := by simp [Sink.put, h]
    simp only [Sink.putAll, List.foldl_cons, this]
    exact ih s h

theorem sink_eq_writer_run (k : Nat) : ∀ (cs : List String) (s : Sink), s.failed = false →
    (Sink.putAll (.failFrom k) s cs).failed = Writer.run (cs.map fun _ => true) k s.calls := by
  intro cs
  induction cs with
  | nil => intro s h; simpa [Sink.putAll, Writer.run] using h
  | cons c t ih =>
    intro s h
    simp only [Sink.putAll, List.foldl_cons, List.map_cons, Writer.run, and_true]
    by_cases hk : s.calls + 1 ≥ k
    · have hp : (Sink.put (.failFrom k) s c).failed = true := by
        simp [Sink.put, h, Dest.fails, hk]
      simp only [hk, if_true]
      exact Sink.putAll_failed _ t _ hp
    · have hf : (Dest.failFrom k).fails (s.calls + 1) = false := by simp [Dest.fails]; omega
      have hp : Sink.put (.failFrom k) s c = ⟨s.text ++ c, s.calls + 1, false⟩ := by
        simp [Sink.put, h, hf]
      simp only [hk, if_false, hp]
      exact ih _ rfl

/-- a run of checked calls to a destination that fails from call k on: the sink's `failed` flag is
`Model.Writer.reportsFailure` of Model/Pipeline (so `Props.C19.reports_every_fault` is `sink_fails` for `failFrom`) -/
theorem sink_eq_reportsFailure (k : Nat) (cs : List String) :
    (Sink.putAll (.failFrom k) Sink.empty cs).failed = Writer.reportsFailure (cs.map fun _ => true) k :=
  sink_eq_writer_run k cs Sink.empty rfl

/-! ### the writer goroutine: re-ordering state and sink -/

/-- state of a writer goroutine of the shape of snps.writeOutput, updown/list.writeOutput, variants.WriteVariants
whose destination may fail: the pending map with its counter (`ro`, as in `TextW`) and the sink -/
structure FW (β : Type) where
  ro : Reorder.St β
  sink : Sink

/-- before the loop: ONE write call for the header; the counter starts at k. The call may fail: then `failed` is
set and the first `absorb` (or `finish`) reports the error (Model/Sched has no failing `init`) -/
def FW.start (d : Dest) (header : String) (k : Nat) : FW β := ⟨⟨[], k, []⟩, Sink.put d Sink.empty header⟩

/-- the loop body as a total function: store the record under its index, flush, and for every flushed record make
one write call per chunk (`chunks y`: the strings passed to the write calls for the record y, in order) -/
def FW.step (d : Dest) (chunks : β → List String) (k : Nat) (st : FW β) (r : Nat × β) : FW β :=
  let ro' := Reorder.recv st.ro (shiftIdx k r)
  ⟨ro', Sink.putAll d st.sink ((ro'.out.drop st.ro.out.length).flatMap chunks)⟩

/-- the loop body of the concurrency model: every call is checked, a failed call sends `e` on cErr -/
def FW.absorb (d : Dest) (chunks : β → List String) (k : Nat) (e : ε) (st : FW β) (r : Nat × β) : Except ε (FW β) :=
  if (FW.step d chunks k st r).sink.failed then .error e else .ok (FW.step d chunks k st r)

/-- after the loop: nothing more is written; a header failure not yet reported (no record arrived) is reported now -/
def FW.finish (e : ε) (st : FW β) : Except ε (FW β) := if st.sink.failed then .error e else .ok st

/-- the write calls of the fault-free run on the results ys: the header, then the chunks of each record in order -/
def callSeq (header : String) (chunks : β → List String) (ys : List β) : List String := header :: ys.flatMap chunks

/-- W: the number of write calls of the fault-free run -/
def nCalls (chunks : β → List String) (ys : List β) : Nat := 1 + (ys.flatMap chunks).length

theorem callSeq_length (header : String) (chunks : β → List String) (ys : List β) :
    (callSeq header chunks ys).length = nCalls chunks ys := by
  simp [callSeq, nCalls]; omega

theorem flatMap_length_uniform (chunks : β → List String) (w : Nat) (hw : ∀ y, (chunks y).length = w) (ys : List β) :
    (ys.flatMap chunks).length = w * ys.length := by
  induction ys with
  | nil => simp
  | cons y t ih => simp only [List.flatMap_cons, List.length_append, hw, ih, List.length_cons, Nat.mul_succ]; omega

/-- w write calls per record: W = 1 + w * n -/
theorem nCalls_uniform (chunks : β → List String) (w : Nat) (hw : ∀ y, (chunks y).length = w) (ys : List β) :
    nCalls chunks ys = 1 + w * ys.length := by
  rw [nCalls, flatMap_length_uniform chunks w hw]

/-- the text of the fault-free run: header, then every record rendered as the concatenation of its chunks -/
theorem join_callSeq (header : String) (chunks : β → List String) (ys : List β) :
    String.join (callSeq header chunks ys) = header ++ String.join (ys.map fun y => String.join (chunks y)) := by
  simp only [callSeq, String.join_cons]
  congr 1
  induction ys with
  | nil => rfl
  | cons y t ih => simp only [List.flatMap_cons, List.map_cons, String.join_append, String.join_cons, ih]

/-- the sink holds what the call sequence of the records emitted so far leaves there -/
def FW.Good (d : Dest) (chunks : β → List String) (header : String) (st : FW β) : Prop :=
  st.sink = Sink.putAll d Sink.empty (callSeq header chunks st.ro.out)

theorem FW.start_good (d : Dest) (chunks : β → List String) (header : String) (k : Nat) :
    FW.Good d chunks header (FW.start d header k : FW β) := rfl

theorem FW.step_good (d : Dest) (chunks : β → List String) (header : String) (k : Nat) (st : FW β) (r : Nat × β)
    (h : FW.Good d chunks header st) : FW.Good d chunks header (FW.step d chunks k st r) := by
  obtain ⟨l, hl⟩ := recv_out_prefix st.ro (shiftIdx k r)
  unfold FW.Good at h ⊢
  simp only [FW.step, hl, List.drop_left, callSeq, List.flatMap_append]
  rw [h, ← List.cons_append, Sink.putAll_append]
  rfl

theorem FW.step_ro (d : Dest) (chunks : β → List String) (k : Nat) (st : FW β) (r : Nat × β) :
    (FW.step d chunks k st r).ro = Reorder.recv st.ro (shiftIdx k r) := rfl

theorem FW.foldl_ro (d : Dest) (chunks : β → List String) (k : Nat) : ∀ (recs : List (Nat × β)) (st : FW β),
    (recs.foldl (FW.step d chunks k) st).ro = (recs.map (shiftIdx k)).foldl Reorder.recv st.ro := by
  intro recs
  induction recs with
  | nil => intro st; rfl
  | cons r t ih => intro st; simp only [List.foldl_cons, List.map_cons, ih, FW.step_ro]

theorem FW.foldl_good (d : Dest) (chunks : β → List String) (header : String) (k : Nat) :
    ∀ (recs : List (Nat × β)) (st : FW β), FW.Good d chunks header st →
      FW.Good d chunks header (recs.foldl (FW.step d chunks k) st) := by
  intro recs
  induction recs with
  | nil => intro st h; exact h
  | cons r t ih => intro st h; simp only [List.foldl_cons]; exact ih _ (FW.step_good d chunks header k st r h)

/-- the writer's state after the arrival sequence `recs` (whether or not a call failed on the way) -/
def fwAfter (d : Dest) (chunks : β → List String) (header : String) (k : Nat) (recs : List (Nat × β)) : FW β :=
  recs.foldl (FW.step d chunks k) (FW.start d header k)

theorem fwAfter_sink (d : Dest) (chunks : β → List String) (header : String) (k : Nat) (recs : List (Nat × β)) :
    (fwAfter d chunks header k recs).sink =
      Sink.putAll d Sink.empty (callSeq header chunks (fwAfter d chunks header k recs).ro.out) :=
  FW.foldl_good d chunks header k recs _ (FW.start_good d chunks header k)

theorem fwAfter_out (d : Dest) (chunks : β → List String) (header : String) (k : Nat) (recs : List (Nat × β)) :
    (fwAfter d chunks header k recs).ro.out = Reorder.run recs := by
  unfold fwAfter
  rw [FW.foldl_ro]
  have : ((recs.map (shiftIdx k)).foldl Reorder.recv (FW.start d header k : FW β).ro).out =
      Reorder.runFrom k (recs.map (shiftIdx k)) := rfl
  rw [this, runFrom_shift]

/-- a loop that ran to its end without reporting has computed the fold of the total loop body -/
theorem absorbAll_fw {absorb : FW β → Nat × β → Except ε (FW β)} {d : Dest} {chunks : β → List String} {k : Nat} {e : ε}
    (habs : ∀ st r, absorb st r = FW.absorb d chunks k e st r) :
    ∀ (recs : List (Nat × β)) (st st' : FW β), absorbAll absorb st recs = .ok st' →
      st' = recs.foldl (FW.step d chunks k) st := by
  intro recs
  induction recs with
  | nil => intro st st' h; simp only [absorbAll] at h; injection h with h; exact h.symm
  | cons r t ih =>
    intro st st' h
    simp only [absorbAll, habs, FW.absorb] at h
    by_cases hf : (FW.step d chunks k st r).sink.failed = true
    · simp only [hf, if_true] at h; cases h
    · simp only [hf, Bool.false_eq_true, if_false] at h
      exact ih _ _ h

/-! ### what a complete arrival sequence leaves in the sink -/

/-- any arrival order of the records of a complete run: the writer has emitted ys -/
theorem fwAfter_complete {items : List α} {F : α → Except ε β} {recs : List (Nat × β)} {ys : List β}
    (d : Dest) (chunks : β → List String) (header : String) (k : Nat)
    (hys : items.map F = ys.map Except.ok)
    (hperm : (recs.map Prod.fst).Perm (List.range items.length))
    (hgood : ∀ r ∈ recs, ∃ x, items[r.1]? = some x ∧ F x = .ok r.2) :
    (fwAfter d chunks header k recs).sink = Sink.putAll d Sink.empty (callSeq header chunks ys) := by
  have hgood' : ∀ r ∈ recs, ys[r.1]? = some r.2 := by
    intro r hr
    obtain ⟨x, hx, hf⟩ := hgood r hr
    exact good_index hys hx hf
  rw [← map_ok_length hys] at hperm
  rw [fwAfter_sink, fwAfter_out, run_eq_of_indexed hperm hgood']

/-! ### what a partial arrival sequence leaves in the sink -/

/-- the results of the longest prefix of the items that the workers accept -/
def goodPrefix (F : α → Except ε β) : List α → List β
  | [] => []
  | x :: t =>
    match F x with
    | .ok y => y :: goodPrefix F t
    | .error _ => []

theorem goodPrefix_all_ok {F : α → Except ε β} : ∀ {items : List α} {ys : List β},
    items.map F = ys.map Except.ok → goodPrefix F items = ys := by
  intro items
  induction items with
  | nil => intro ys h; cases ys with
    | nil => rfl
    | cons _ _ => simp at h
  | cons a t ih =>
    intro ys h
    cases ys with
    | nil => simp at h
    | cons y ys' =>
      simp only [List.map_cons, List.cons.injEq] at h
      simp only [goodPrefix, h.1, ih h.2]

theorem range_map_goodPrefix {F : α → Except ε β} : ∀ (items : List α) (c : Nat) (g : Nat → β),
    (∀ i, i < c → ∃ x, items[i]? = some x ∧ F x = .ok (g i)) → (List.range c).map g = (goodPrefix F items).take c := by
  intro items
  induction items with
  | nil =>
    intro c g h
    cases c with
    | zero => rfl
    | succ c => obtain ⟨x, hx, _⟩ := h 0 (by omega); simp at hx
  | cons a t ih =>
    intro c g h
    cases c with
    | zero => simp
    | succ c =>
      obtain ⟨x, hx, hf⟩ := h 0 (by omega)
      simp only [List.getElem?_cons_zero, Option.some.injEq] at hx
      subst hx
      have := ih c (fun i => g (i + 1)) (fun i hi => by
        obtain ⟨x, hx, hf⟩ := h (i + 1) (by omega)
        simp only [List.getElem?_cons_succ] at hx
        exact ⟨x, hx, hf⟩)
      simp only [goodPrefix, hf, List.take_succ_cons]
      rw [← this, List.range_succ_eq_map, List.map_cons, List.map_map]
      rfl

/-- any arrival sequence with distinct indices: the writer has emitted a prefix of the results in input order -/
theorem fwAfter_partial_out {items : List α} {F : α → Except ε β} {recs : List (Nat × β)}
    (d : Dest) (chunks : β → List String) (header : String) (k : Nat)
    (hnd : (recs.map Prod.fst).Nodup)
    (hgood : ∀ r ∈ recs, ∃ x, items[r.1]? = some x ∧ F x = .ok r.2) :
    ∃ c, (fwAfter d chunks header k recs).ro.out = (goodPrefix F items).take c := by
  rw [fwAfter_out]
  cases hrecs : recs with
  | nil => exact ⟨0, by simp [Reorder.run, Reorder.runFrom]⟩
  | cons r0 t =>
    rw [← hrecs]
    let g : Nat → β := fun i =>
      match items[i]? with
      | some x => match F x with
        | .ok y => y
        | .error _ => r0.2
      | none => r0.2
    have hg : ∀ r ∈ recs, r.2 = g r.1 := by
      intro r hr
      obtain ⟨x, hx, hf⟩ := hgood r hr
      simp only [g, hx, hf]
    have hrecs' : recs = (recs.map Prod.fst).map (fun i => (i, g i)) := by
      rw [List.map_map]
      have : ∀ r ∈ recs, ((fun i => (i, g i)) ∘ Prod.fst) r = id r := by
        intro r hr
        simp only [Function.comp, ← hg r hr, id]
      rw [List.map_congr_left this, List.map_id]
    have h0 : Reorder.Inv g [] (⟨[], 0, []⟩ : Reorder.St β) :=
      ⟨by simp, by intro k; simp [Reorder.lookup], by intro k hk; simp at hk⟩
    obtain ⟨hI, _⟩ := Reorder.foldl_inv g (recs.map Prod.fst) [] ⟨[], 0, []⟩ h0 (by simpa using hnd)
      (by simp [Reorder.lookup])
    rw [← hrecs'] at hI
    simp only [List.append_nil] at hI
    refine ⟨(recs.foldl Reorder.recv ⟨[], 0, []⟩).counter, ?_⟩
    unfold Reorder.run Reorder.runFrom
    rw [hI.out_eq]
    apply range_map_goodPrefix
    intro i hi
    have hmem := hI.below i hi
    rw [List.mem_reverse] at hmem
    obtain ⟨r, hr, rfl⟩ := List.mem_map.mp hmem
    obtain ⟨x, hx, hf⟩ := hgood r hr
    exact ⟨x, hx, by rw [← hg r hr]; exact hf⟩

theorem flatMap_take_prefix (chunks : β → List String) (l : List β) (c : Nat) :
    ∃ m, (l.take c).flatMap chunks = (l.flatMap chunks).take m := by
  refine ⟨((l.take c).flatMap chunks).length, ?_⟩
  have h : l.flatMap chunks = (l.take c).flatMap chunks ++ (l.drop c).flatMap chunks := by
    rw [← List.flatMap_append, List.take_append_drop]
  rw [h, List.take_left' rfl]

/-- **the accepted text is the fault-free call sequence cut at a call boundary**, for any arrival sequence with
distinct indices, any destination: header, then the records 0, 1, 2, ... that the workers accept, whole or cut
between two calls -/
theorem fwAfter_text_prefix {items : List α} {F : α → Except ε β} {recs : List (Nat × β)}
    (d : Dest) (chunks : β → List String) (header : String) (k : Nat)
    (hnd : (recs.map Prod.fst).Nodup)
    (hgood : ∀ r ∈ recs, ∃ x, items[r.1]? = some x ∧ F x = .ok r.2) :
    ∃ j, (fwAfter d chunks header k recs).sink.text =
      String.join ((callSeq header chunks (goodPrefix F items)).take j) := by
  obtain ⟨c, hc⟩ := fwAfter_partial_out d chunks header k hnd hgood
  rw [fwAfter_sink, hc]
  obtain ⟨j, _, hj⟩ := sink_text_take d (callSeq header chunks ((goodPrefix F items).take c))
  obtain ⟨m, hm⟩ := flatMap_take_prefix chunks (goodPrefix F items) c
  rw [hj]
  refine ⟨min j (m + 1), ?_⟩
  simp only [callSeq, hm]
  rw [← List.take_succ_cons, List.take_take]

theorem Dest.fails_failFrom (k : Nat) : (Dest.failFrom k).fails k = true := by simp [Dest.fails]
theorem Dest.fails_failOnce (k : Nat) : (Dest.failOnce k).fails k = true := by simp [Dest.fails]
theorem Dest.fails_ok (i : Nat) : Dest.ok.fails i = false := rfl
theorem Dest.fails_failFrom_lt {k i : Nat} (h : i < k) : (Dest.failFrom k).fails i = false := by
  simp [Dest.fails]; omega
theorem Dest.fails_failOnce_ne {k i : Nat} (h : i ≠ k) : (Dest.failOnce k).fails i = false := by
  simp [Dest.fails, h]

theorem Dest.fails_of_at {d : Dest} {k : Nat} (hd : d = .failFrom k ∨ d = .failOnce k) : d.fails k = true := by
  rcases hd with rfl | rfl
  · exact Dest.fails_failFrom k
  · exact Dest.fails_failOnce k

/-- the records of a complete run exist only if every item was accepted -/
theorem all_ok_of_complete {items : List α} {F : α → Except ε β} {recs : List (Nat × β)}
    (hperm : (recs.map Prod.fst).Perm (List.range items.length))
    (hgood : ∀ r ∈ recs, ∃ x, items[r.1]? = some x ∧ F x = .ok r.2) : ∀ x ∈ items, ∃ y, F x = .ok y := by
  intro x hx
  obtain ⟨i, hi, rfl⟩ := List.getElem_of_mem hx
  have hmem : i ∈ recs.map Prod.fst := hperm.mem_iff.mpr (List.mem_range.mpr hi)
  obtain ⟨r, hr, rfl⟩ := List.mem_map.mp hmem
  obtain ⟨x', hx', hf⟩ := hgood r hr
  rw [List.getElem?_eq_getElem hi] at hx'
  cases hx'
  exact ⟨_, hf⟩

/-- **the pure core of (1)**: whatever the arrival order of a complete run, the k-th write call is made before the
writer can finish; if the destination fails it, the loop or `finish` reports -/
theorem fw_fault_hit {items : List α} {F : α → Except ε β}
    {absorb : FW β → Nat × β → Except ε (FW β)} {d : Dest} {chunks : β → List String} {header : String} {k0 : Nat}
    {e : ε} (habs : ∀ st r, absorb st r = FW.absorb d chunks k0 e st r)
    (k : Nat) (hk1 : 1 ≤ k) (hd : d.fails k = true)
    (hkW : ∀ ys, items.map F = ys.map Except.ok → k ≤ nCalls chunks ys)
    (recs : List (Nat × β)) (hperm : (recs.map Prod.fst).Perm (List.range items.length))
    (hgood : ∀ r ∈ recs, ∃ x, items[r.1]? = some x ∧ F x = .ok r.2)
    (st st' : FW β) (hfold : absorbAll absorb (FW.start d header k0) recs = .ok st) : FW.finish e st ≠ .ok st' := by
  obtain ⟨ys, hys⟩ := outputs_exist (all_ok_of_complete hperm hgood)
  have hst : st = fwAfter d chunks header k0 recs := absorbAll_fw habs recs _ _ hfold
  have hfail : st.sink.failed = true := by
    rw [hst, fwAfter_complete d chunks header k0 hys hperm hgood]
    exact sink_fails d _ k hk1 (by rw [callSeq_length]; exact hkW ys hys) hd
  simp [FW.finish, hfail]

/-- **the pure core of (2)**: a loop and a `finish` that did not report have seen every call of the run succeed -/
theorem fw_success_text {items : List α} {F : α → Except ε β}
    {absorb : FW β → Nat × β → Except ε (FW β)} {d : Dest} {chunks : β → List String} {header : String} {k0 : Nat}
    {e : ε} (habs : ∀ st r, absorb st r = FW.absorb d chunks k0 e st r)
    (recs : List (Nat × β)) (hperm : (recs.map Prod.fst).Perm (List.range items.length))
    (hgood : ∀ r ∈ recs, ∃ x, items[r.1]? = some x ∧ F x = .ok r.2)
    (st st' : FW β) (hfold : absorbAll absorb (FW.start d header k0) recs = .ok st) (hfin : FW.finish e st = .ok st') :
    ∃ ys : List β, items.map F = ys.map Except.ok ∧
      st'.sink.text = header ++ String.join (ys.map fun y => String.join (chunks y)) ∧
      st'.sink.failed = false ∧ st'.sink.calls = nCalls chunks ys ∧
      ∀ i, 1 ≤ i → i ≤ nCalls chunks ys → d.fails i = false := by
  obtain ⟨ys, hys⟩ := outputs_exist (all_ok_of_complete hperm hgood)
  have hst : st = fwAfter d chunks header k0 recs := absorbAll_fw habs recs _ _ hfold
  have hsink : st.sink = Sink.putAll d Sink.empty (callSeq header chunks ys) := by
    rw [hst, fwAfter_complete d chunks header k0 hys hperm hgood]
  unfold FW.finish at hfin
  by_cases hf : st.sink.failed = true
  · simp [hf] at hfin
  · have hf' : st.sink.failed = false := by cases h : st.sink.failed <;> simp_all
    simp only [hf', Bool.false_eq_true, if_false] at hfin
    injection hfin with hfin
    subst hfin
    have hinv := sinkInv_all d (callSeq header chunks ys)
    rw [← hsink] at hinv
    obtain ⟨h1, h2, h3⟩ := hinv.good hf'
    rw [callSeq_length] at h2 h3
    exact ⟨ys, hys, by rw [h1, join_callSeq], hf', h2, h3⟩


theorem callSeq_take_length_le (header : String) (chunks : β → List String) (l : List β) (c : Nat) :
    (callSeq header chunks (l.take c)).length ≤ nCalls chunks l := by
  obtain ⟨m, hm⟩ := flatMap_take_prefix chunks l c
  simp only [callSeq, nCalls, List.length_cons, hm, List.length_take]
  omega

/-- no call of the records the workers accept fails: no arrival sequence makes the writer fail -/
theorem fwAfter_not_failed {items : List α} {F : α → Except ε β} {recs : List (Nat × β)}
    (d : Dest) (chunks : β → List String) (header : String) (k : Nat)
    (hnd : (recs.map Prod.fst).Nodup)
    (hgood : ∀ r ∈ recs, ∃ x, items[r.1]? = some x ∧ F x = .ok r.2)
    (hd : ∀ i, 1 ≤ i → i ≤ nCalls chunks (goodPrefix F items) → d.fails i = false) :
    (fwAfter d chunks header k recs).sink.failed = false := by
  obtain ⟨c, hc⟩ := fwAfter_partial_out d chunks header k hnd hgood
  cases hf : (fwAfter d chunks header k recs).sink.failed with
  | false => rfl
  | true =>
    have hinv := sinkInv_all d (callSeq header chunks ((goodPrefix F items).take c))
    rw [← hc, ← fwAfter_sink] at hinv
    obtain ⟨h1, h2, h3, _, _⟩ := hinv.bad hf
    rw [hc] at h2
    have := hd _ h1 (Nat.le_trans h2 (callSeq_take_length_le header chunks _ c))
    rw [this] at h3; cases h3

theorem fwAfter_snoc (d : Dest) (chunks : β → List String) (header : String) (k : Nat) (l : List (Nat × β))
    (r : Nat × β) : fwAfter d chunks header k (l ++ [r]) = FW.step d chunks k (fwAfter d chunks header k l) r := by
  simp [fwAfter, List.foldl_append]

/-! ### how a writer came to sit at `cErr <- err`; whose error main returns (one pool, any writer) -/

section history
open Gofasta.Model.Sched Gofasta.Lemmas.Sched
variable {σ : Type}

/-- what one step does to the writer goroutine -/
theorem writer_frame {cfg : Cfg α β ε σ} {s s' : State α β ε σ} {l : Label} (hs : step? cfg s l = some s') :
    (s'.writer = s.writer ∧ s'.wst = s.wst ∧ s'.arrival = s.arrival) ∨
    (s.writer = .recv ∧ ∃ r, s'.arrival = s.arrival ++ [r] ∧
       ((∃ st, cfg.absorb s.wst r = .ok st ∧ s'.wst = st ∧ s'.writer = .recv) ∨
        (∃ e, cfg.absorb s.wst r = .error e ∧ s'.wst = s.wst ∧ s'.writer = .errS e))) ∨
    (s.writer = .recv ∧ s'.arrival = s.arrival ∧
       ((∃ st, cfg.finish s.wst = .ok st ∧ s'.wst = st ∧ s'.writer = .doneS) ∨
        (∃ e, cfg.finish s.wst = .error e ∧ s'.wst = s.wst ∧ s'.writer = .errS e))) ∨
    (s.writer = .doneS ∧ s'.writer = .exited ∧ s'.wst = s.wst ∧ s'.arrival = s.arrival) := by
  unfold step? at hs
  split at hs
  · cases hs
  · cases l <;> simp only [] at hs
    case writerRecv =>
      unfold stepWriterRecv at hs
      split at hs
      · rename_i r rest hw hq
        unfold absorbInto at hs
        split at hs
        · rename_i st hab
          cases hs
          exact Or.inr (Or.inl ⟨hw, r, rfl, Or.inl ⟨st, hab, rfl, hw⟩⟩)
        · rename_i e hab
          cases hs
          exact Or.inr (Or.inl ⟨hw, r, rfl, Or.inr ⟨e, hab, rfl, rfl⟩⟩)
      · cases hs
    case handOut w =>
      unfold stepHandOut at hs
      split at hs
      · rename_i i y hwk hw hc hcap
        unfold absorbInto at hs
        split at hs
        · rename_i st hab
          cases hs
          exact Or.inr (Or.inl ⟨hw, (i, y), rfl, Or.inl ⟨st, hab, rfl, hw⟩⟩)
        · rename_i e hab
          cases hs
          exact Or.inr (Or.inl ⟨hw, (i, y), rfl, Or.inr ⟨e, hab, rfl, rfl⟩⟩)
      · cases hs
    case writerClosed =>
      unfold stepWriterClosed at hs
      split at hs
      · rename_i hw hc hq
        split at hs
        · rename_i st hfin
          cases hs
          exact Or.inr (Or.inr (Or.inl ⟨hw, rfl, Or.inl ⟨st, hfin, rfl, rfl⟩⟩))
        · rename_i e hfin
          cases hs
          exact Or.inr (Or.inr (Or.inl ⟨hw, rfl, Or.inr ⟨e, hfin, rfl, rfl⟩⟩))
      · cases hs
    case mainWriteDone =>
      unfold stepMainWriteDone at hs
      split at hs
      · rename_i hm hw
        cases hs
        exact Or.inr (Or.inr (Or.inr ⟨hw, rfl, rfl, rfl⟩))
      · cases hs
    all_goals
      simp only [stepReaderSend, stepWorkerRecv, stepHandIn, stepWorkerClosed, stepWorkerSend, stepWait,
        stepMainErrReader, stepMainErrWorker, stepMainErrWriter, stepMainReadDone, stepMainWgDone] at hs
      repeat' split at hs
      all_goals first | (cases hs; exact Or.inl ⟨rfl, rfl, rfl⟩) | cases hs

/-- a step after which main has returned an error took it from a goroutine sitting at `cErr <- err` -/
theorem main_err_frame {cfg : Cfg α β ε σ} {s s' : State α β ε σ} {l : Label} {e : ε}
    (hs : step? cfg s l = some s') (hm : s'.main = .ret (some e)) :
    s.reader = .errS e ∨ (∃ (w i : Nat), s.workers[w]? = some (WPc.errS i e)) ∨ s.writer = .errS e := by
  unfold step? at hs
  split at hs
  · cases hs
  · rename_i hnf
    have hne : ∀ r, s.main ≠ .ret r := not_ret_of_not_final (by simpa using hnf)
    cases l <;> simp only [] at hs
    case mainErrReader =>
      unfold stepMainErrReader at hs
      split at hs
      · rename_i e0 hrd
        cases hs
        simp only [MPc.ret.injEq, Option.some.injEq] at hm
        subst hm; exact Or.inl hrd
      · cases hs
    case mainErrWorker w =>
      unfold stepMainErrWorker at hs
      split at hs
      · rename_i i e0 hwk
        cases hs
        simp only [MPc.ret.injEq, Option.some.injEq] at hm
        subst hm; exact Or.inr (Or.inl ⟨w, i, hwk⟩)
      · cases hs
    case mainErrWriter =>
      unfold stepMainErrWriter at hs
      split at hs
      · rename_i e0 hwr
        cases hs
        simp only [MPc.ret.injEq, Option.some.injEq] at hm
        subst hm; exact Or.inr (Or.inr hwr)
      · cases hs
    all_goals
      simp only [stepReaderSend, stepWorkerRecv, stepHandIn, stepWorkerClosed, stepWorkerSend, stepWait,
        stepWriterRecv, stepHandOut, stepWriterClosed, stepMainWriteDone, absorbInto,
        stepMainReadDone, stepMainWgDone] at hs
      repeat' split at hs
      all_goals first | (cases hs; first | exact absurd hm (hne _) | cases hm) | cases hs

/-- how a writer came to sit at `cErr <- err`, and whose error main has returned -/
structure Hist (cfg : Cfg α β ε σ) (s : State α β ε σ) : Prop where
  wErr : ∀ e, s.writer = .errS e →
    (∃ l r, s.arrival = l ++ [r] ∧ absorbAll cfg.absorb cfg.init l = .ok s.wst ∧ cfg.absorb s.wst r = .error e) ∨
    (absorbAll cfg.absorb cfg.init s.arrival = .ok s.wst ∧ cfg.finish s.wst = .error e)
  mErr : ∀ e, s.main = .ret (some e) →
    (∃ k, cfg.readFail = some (k, e)) ∨ (∃ x ∈ cfg.items, cfg.f x = .error e) ∨ s.writer = .errS e

theorem hist_step {cfg : Cfg α β ε σ} {s s' : State α β ε σ} {l : Label} (hi : Inv cfg s) (hh : Hist cfg s)
    (hs : step? cfg s l = some s') : Hist cfg s' := by
  have hnf : ∀ r, s.main ≠ .ret r := by
    unfold step? at hs
    split at hs
    · cases hs
    · rename_i hnf; exact not_ret_of_not_final (by simpa using hnf)
  constructor
  · intro e he
    rcases writer_frame hs with ⟨h1, h2, h3⟩ | ⟨hw, r, ha, h⟩ | ⟨hw, ha, h⟩ | ⟨_, h, _⟩
    · rw [h1] at he; rw [h2, h3]; exact hh.wErr e he
    · rcases h with ⟨st, _, _, h⟩ | ⟨e', hab, hst, h⟩
      · rw [h] at he; cases he
      · rw [h] at he; cases he
        exact Or.inl ⟨s.arrival, r, ha, by rw [hst]; exact hi.oRecv hw, by rw [hst]; exact hab⟩
    · rcases h with ⟨st, _, _, h⟩ | ⟨e', hfin, hst, h⟩
      · rw [h] at he; cases he
      · rw [h] at he; cases he
        exact Or.inr ⟨by rw [ha, hst]; exact hi.oRecv hw, by rw [hst]; exact hfin⟩
    · rw [h] at he; cases he
  · intro e he
    rcases main_err_frame hs he with h | ⟨w, i, h⟩ | h
    · exact Or.inl (hi.rinv.rErr e h)
    · obtain ⟨x, hx, hf⟩ := hi.wOk _ (List.mem_of_getElem? h)
      exact Or.inr (Or.inl ⟨x, List.mem_of_getElem? hx, hf⟩)
    · rcases writer_frame hs with ⟨h1, _, _⟩ | ⟨hw, _⟩ | ⟨hw, _⟩ | ⟨hw, _⟩
      · exact Or.inr (Or.inr (by rw [h1]; exact h))
      · rw [hw] at h; cases h
      · rw [hw] at h; cases h
      · rw [hw] at h; cases h

theorem reach_hist {cfg : Cfg α β ε σ} {s : State α β ε σ} (hr : Reach cfg s) : Hist cfg s := by
  induction hr with
  | init => exact ⟨fun e h => by simp [init] at h, fun e h => by simp [init] at h⟩
  | step l hr hs ih => exact hist_step (reach_inv hr) ih hs

end history

/-! ## 1-3. one worker pool (Model/Sched) -/

section onePool
open Gofasta.Model.Sched Gofasta.Lemmas.Sched

/-- the configuration's writer is the failing text writer: destination d, one call for `header`, one call per
chunk of a flushed record, counter from k0, the error e sent on cErr when a call fails -/
structure IsFW (cfg : Cfg α β ε (FW β)) (d : Dest) (chunks : β → List String) (header : String) (k0 : Nat) (e : ε) :
    Prop where
  habs : ∀ st r, cfg.absorb st r = FW.absorb d chunks k0 e st r
  hfin : ∀ st, cfg.finish st = FW.finish e st
  hinit : cfg.init = FW.start d header k0

variable {cfg : Cfg α β ε (FW β)} {s : State α β ε (FW β)} {d : Dest} {chunks : β → List String}
  {header : String} {k0 : Nat} {e : ε}

theorem fw_hfail (h : IsFW cfg d chunks header k0 e) (k : Nat) (hk1 : 1 ≤ k) (hd : d.fails k = true)
    (hkW : ∀ ys, cfg.items.map cfg.f = ys.map Except.ok → k ≤ nCalls chunks ys) :
    ∀ recs : List (Nat × β), (recs.map Prod.fst).Perm (List.range cfg.items.length) →
      (∀ r ∈ recs, ∃ x, cfg.items[r.1]? = some x ∧ cfg.f x = .ok r.2) →
      ∀ st st', absorbAll cfg.absorb cfg.init recs = .ok st → cfg.finish st ≠ .ok st' := by
  intro recs hperm hgood st st' hfold
  rw [h.hinit] at hfold
  rw [h.hfin]
  exact fw_fault_hit h.habs k hk1 hd hkW recs hperm hgood st st' hfold

/-- **(1) fault_reported, general form**: the destination fails some call k of the fault-free run
(1 ≤ k ≤ W = the number of calls when every item is accepted): on no schedule does main return nil -/
theorem fault_reported' (h : IsFW cfg d chunks header k0 e) (hN : 1 ≤ cfg.N) (k : Nat) (hk1 : 1 ≤ k)
    (hd : d.fails k = true) (hkW : ∀ ys, cfg.items.map cfg.f = ys.map Except.ok → k ≤ nCalls chunks ys)
    (hr : Reach cfg s) : s.main ≠ .ret none :=
  error_reported hN (Or.inr (Or.inr (fw_hfail h k hk1 hd hkW))) hr

/-- **(1) fault_reported**: `failFrom k` or `failOnce k` with 1 ≤ k ≤ W: no reachable state has main = ret none -/
theorem fault_reported (h : IsFW cfg d chunks header k0 e) (hN : 1 ≤ cfg.N) (k : Nat)
    (hd : d = .failFrom k ∨ d = .failOnce k) (hk1 : 1 ≤ k)
    (hkW : ∀ ys, cfg.items.map cfg.f = ys.map Except.ok → k ≤ nCalls chunks ys)
    (hr : Reach cfg s) : s.main ≠ .ret none :=
  fault_reported' h hN k hk1 (Dest.fails_of_at hd) hkW hr

/-- (1) with w write calls per record: W = 1 + w * n, no mention of the results -/
theorem fault_reported_uniform (h : IsFW cfg d chunks header k0 e) (hN : 1 ≤ cfg.N) (w : Nat)
    (hw : ∀ y, (chunks y).length = w) (k : Nat) (hd : d = .failFrom k ∨ d = .failOnce k) (hk1 : 1 ≤ k)
    (hkW : k ≤ 1 + w * cfg.items.length) (hr : Reach cfg s) : s.main ≠ .ret none := by
  apply fault_reported h hN k hd hk1 _ hr
  intro ys hys
  rw [nCalls_uniform chunks w hw, map_ok_length hys]
  exact hkW

/-- **(1) whole runs**: every run that cannot be extended has returned an error -/
theorem fault_maximal_run (h : IsFW cfg d chunks header k0 e) (hN : 1 ≤ cfg.N) (k : Nat)
    (hd : d = .failFrom k ∨ d = .failOnce k) (hk1 : 1 ≤ k)
    (hkW : ∀ ys, cfg.items.map cfg.f = ys.map Except.ok → k ≤ nCalls chunks ys)
    (hr : Reach cfg s) (hstuck : enabled cfg s = []) : ∃ e', s.main = .ret (some e') ∧ ErrSource cfg e' :=
  maximal_run_error hN (Or.inr (Or.inr (fw_hfail h k hk1 (Dest.fails_of_at hd) hkW))) hr hstuck

/-- (1) executed schedules: every schedule of at least μ(init) numbers ends with main returning an error -/
theorem fault_runSchedule (h : IsFW cfg d chunks header k0 e) (hN : 1 ≤ cfg.N) (k : Nat)
    (hd : d = .failFrom k ∨ d = .failOnce k) (hk1 : 1 ≤ k)
    (hkW : ∀ ys, cfg.items.map cfg.f = ys.map Except.ok → k ≤ nCalls chunks ys)
    (sched : List Nat) (hlen : μ cfg (init cfg) ≤ sched.length) :
    ∃ e', (runSchedule cfg sched).main = .ret (some e') := by
  obtain ⟨r, hret⟩ := runSchedule_returns hN sched hlen
  cases r with
  | none => exact absurd hret (fault_reported h hN k hd hk1 hkW (runSchedule_reach cfg sched))
  | some e' => exact ⟨e', hret⟩

/-- **(2) fault_beyond_run_harmless**: whatever the destination, in every reachable state in which main has returned
nil every item was accepted, every one of the W calls of the run succeeded, and the text accepted is the sequential
text: header, then the rendered results in input order -/
theorem fault_beyond_run_harmless (h : IsFW cfg d chunks header k0 e) (hN : 1 ≤ cfg.N)
    (hr : Reach cfg s) (hm : s.main = .ret none) :
    ∃ ys : List β, cfg.items.map cfg.f = ys.map Except.ok ∧
      s.wst.sink.text = header ++ String.join (ys.map fun y => String.join (chunks y)) ∧
      s.wst.sink.failed = false ∧ s.wst.sink.calls = nCalls chunks ys ∧
      ∀ i, 1 ≤ i → i ≤ nCalls chunks ys → d.fails i = false := by
  obtain ⟨_, _, recs, hperm, hgood, st, hfold, hfin'⟩ := success_means_complete hN hr hm
  rw [h.hinit] at hfold
  rw [h.hfin] at hfin'
  exact fw_success_text h.habs recs hperm hgood st s.wst hfold hfin'

/-- the text the destination has accepted so far, in ANY state (also when the writer sits at `cErr <- err`, where
`wst` is still the state before the failing loop body): what the loop bodies executed so far have left there -/
def accepted (d : Dest) (chunks : β → List String) (header : String) (k0 : Nat) (s : State α β ε (FW β)) : String :=
  (fwAfter d chunks header k0 s.arrival).sink.text

theorem arrival_nodup {σ : Type} {cfg : Cfg α β ε σ} {s : State α β ε σ} (h : Inv cfg s) :
    (s.arrival.map Prod.fst).Nodup := by
  have hnd : (places s).Nodup := h.cons.nodup_iff.mpr List.nodup_range
  unfold places at hnd
  exact (List.nodup_append.mp hnd).2.1

/-- **(3) written_is_prefix**: in EVERY reachable state (whoever failed, wherever main is) the text accepted by the
destination is the fault-free call sequence - the header, then the chunks of the records 0, 1, 2, ... that the
workers accept - cut at a call boundary: nothing out of order, nothing twice -/
theorem written_is_prefix (d : Dest) (chunks : β → List String) (header : String) (k0 : Nat) (hr : Reach cfg s) :
    ∃ j, accepted d chunks header k0 s =
      String.join ((callSeq header chunks (goodPrefix cfg.f cfg.items)).take j) := by
  have h := reach_inv hr
  exact fwAfter_text_prefix d chunks header k0 (arrival_nodup h) h.arrOk

/-- (3) when every item is accepted: a prefix, at a call boundary, of the call sequence of the sequential text -/
theorem written_is_prefix_ok (d : Dest) (chunks : β → List String) (header : String) (k0 : Nat) {ys : List β}
    (hys : cfg.items.map cfg.f = ys.map Except.ok) (hr : Reach cfg s) :
    ∃ j, accepted d chunks header k0 s = String.join ((callSeq header chunks ys).take j) ∧
      String.join (callSeq header chunks ys) = header ++ String.join (ys.map fun y => String.join (chunks y)) := by
  obtain ⟨j, hj⟩ := written_is_prefix d chunks header k0 hr
  rw [goodPrefix_all_ok hys] at hj
  exact ⟨j, hj, join_callSeq header chunks ys⟩

/-- as long as the writer has not failed, `accepted` is the text field of its state -/
theorem accepted_eq_wst (h : IsFW cfg d chunks header k0 e) (hr : Reach cfg s) (hw : ∀ e', s.writer ≠ .errS e') :
    accepted d chunks header k0 s = s.wst.sink.text := by
  have hi := reach_inv hr
  unfold accepted
  cases hwr : s.writer with
  | errS e' => exact absurd hwr (hw e')
  | recv =>
    have := hi.oRecv hwr
    rw [h.hinit] at this
    rw [absorbAll_fw h.habs _ _ _ this]; rfl
  | doneS =>
    obtain ⟨_, _, st, hfold, hfin⟩ := hi.oDone (Or.inl hwr)
    rw [h.hinit] at hfold
    rw [h.hfin] at hfin
    have hst := absorbAll_fw h.habs _ _ _ hfold
    unfold FW.finish at hfin
    split at hfin
    · cases hfin
    · injection hfin with hfin; rw [← hfin, hst]; rfl
  | exited =>
    obtain ⟨_, _, st, hfold, hfin⟩ := hi.oDone (Or.inr hwr)
    rw [h.hinit] at hfold
    rw [h.hfin] at hfin
    have hst := absorbAll_fw h.habs _ _ _ hfold
    unfold FW.finish at hfin
    split at hfin
    · cases hfin
    · injection hfin with hfin; rw [← hfin, hst]; rfl

end onePool

/-- the pure core of `accepted_failing`: the two ways a writer gets to `cErr <- err` -/
theorem fw_failing_pure {absorb : FW β → Nat × β → Except ε (FW β)} {finish : FW β → Except ε (FW β)} {init : FW β}
    {d : Dest} {chunks : β → List String} {header : String} {k0 : Nat} {e : ε}
    (habs : ∀ st r, absorb st r = FW.absorb d chunks k0 e st r) (hfin : ∀ st, finish st = FW.finish e st)
    (hinit : init = FW.start d header k0) {arrival : List (Nat × β)} {wst : FW β} {e' : ε}
    (hh : (∃ l r, arrival = l ++ [r] ∧ absorbAll absorb init l = .ok wst ∧ absorb wst r = .error e') ∨
      (absorbAll absorb init arrival = .ok wst ∧ finish wst = .error e')) :
    (∃ l r, arrival = l ++ [r] ∧ fwAfter d chunks header k0 arrival = FW.step d chunks k0 wst r ∧
      (FW.step d chunks k0 wst r).sink.failed = true) ∨
    (fwAfter d chunks header k0 arrival = wst ∧ wst.sink.failed = true) := by
  rcases hh with ⟨l, r, harr, hfold, hab⟩ | ⟨hfold, hfin'⟩
  · left
    rw [hinit] at hfold
    have hst : wst = fwAfter d chunks header k0 l := absorbAll_fw habs _ _ _ hfold
    refine ⟨l, r, harr, by rw [harr, fwAfter_snoc, hst], ?_⟩
    rw [habs] at hab
    unfold FW.absorb at hab
    split at hab
    · assumption
    · cases hab
  · right
    rw [hinit] at hfold
    have hst : wst = fwAfter d chunks header k0 arrival := absorbAll_fw habs _ _ _ hfold
    refine ⟨hst.symm, ?_⟩
    rw [hfin] at hfin'
    unfold FW.finish at hfin'
    split at hfin'
    · assumption
    · cases hfin'

/-- the pure core of `no_write_error` -/
theorem fw_no_error_pure {items : List α} {F : α → Except ε β}
    {absorb : FW β → Nat × β → Except ε (FW β)} {finish : FW β → Except ε (FW β)} {init : FW β}
    {d : Dest} {chunks : β → List String} {header : String} {k0 : Nat} {e : ε}
    (habs : ∀ st r, absorb st r = FW.absorb d chunks k0 e st r) (hfin : ∀ st, finish st = FW.finish e st)
    (hinit : init = FW.start d header k0) {arrival : List (Nat × β)} {wst : FW β} {e' : ε}
    (hnd : (arrival.map Prod.fst).Nodup)
    (hgood : ∀ r ∈ arrival, ∃ x, items[r.1]? = some x ∧ F x = .ok r.2)
    (hd : ∀ i, 1 ≤ i → i ≤ nCalls chunks (goodPrefix F items) → d.fails i = false)
    (hh : (∃ l r, arrival = l ++ [r] ∧ absorbAll absorb init l = .ok wst ∧ absorb wst r = .error e') ∨
      (absorbAll absorb init arrival = .ok wst ∧ finish wst = .error e')) : False := by
  have hnf := fwAfter_not_failed d chunks header k0 hnd hgood hd
  rcases fw_failing_pure habs hfin hinit hh with ⟨l, r, _, h1, h2⟩ | ⟨h1, h2⟩
  · rw [← h1, hnf] at h2; cases h2
  · rw [← h1, hnf] at h2; cases h2


/-- the only error the writer sends on cErr is e -/
theorem fw_error_is_e {absorb : FW β → Nat × β → Except ε (FW β)} {finish : FW β → Except ε (FW β)}
    {d : Dest} {chunks : β → List String} {k0 : Nat} {e : ε}
    (habs : ∀ st r, absorb st r = FW.absorb d chunks k0 e st r) (hfin : ∀ st, finish st = FW.finish e st)
    {wst : FW β} {e' : ε} (h : (∃ r, absorb wst r = .error e') ∨ finish wst = .error e') : e' = e := by
  rcases h with ⟨r, h⟩ | h
  · rw [habs] at h
    unfold FW.absorb at h
    split at h
    · injection h with h; exact h.symm
    · cases h
  · rw [hfin] at h
    unfold FW.finish at h
    split at h
    · injection h with h; exact h.symm
    · cases h

section onePoolNoFault
open Gofasta.Model.Sched Gofasta.Lemmas.Sched
variable {cfg : Cfg α β ε (FW β)} {s : State α β ε (FW β)} {d : Dest} {chunks : β → List String}
  {header : String} {k0 : Nat} {e : ε}

/-- the writer at `cErr <- err`: the failing loop body ran on the last arrival (its partial effect is what
`accepted` shows; `wst` is the state before it), or the header write had failed and no record ever arrived -/
theorem accepted_failing (h : IsFW cfg d chunks header k0 e) (hr : Reach cfg s) {e' : ε}
    (hw : s.writer = .errS e') :
    (∃ l r, s.arrival = l ++ [r] ∧ accepted d chunks header k0 s = (FW.step d chunks k0 s.wst r).sink.text ∧
      (FW.step d chunks k0 s.wst r).sink.failed = true) ∨
    (accepted d chunks header k0 s = s.wst.sink.text ∧ s.wst.sink.failed = true) := by
  rcases fw_failing_pure h.habs h.hfin h.hinit ((reach_hist hr).wErr e' hw) with ⟨l, r, h1, h2, h3⟩ | ⟨h1, h2⟩
  · exact Or.inl ⟨l, r, h1, by unfold accepted; rw [h2], h3⟩
  · exact Or.inr ⟨by unfold accepted; rw [h1], h2⟩

/-- no call of the run fails (`ok`, or a fault beyond the last call): the writer never sits at `cErr <- err` -/
theorem no_write_error (h : IsFW cfg d chunks header k0 e) (hr : Reach cfg s)
    (hd : ∀ i, 1 ≤ i → i ≤ nCalls chunks (goodPrefix cfg.f cfg.items) → d.fails i = false) (e' : ε) :
    s.writer ≠ .errS e' := by
  intro hw
  have hi := reach_inv hr
  exact fw_no_error_pure h.habs h.hfin h.hinit (arrival_nodup hi) hi.arrOk hd ((reach_hist hr).wErr e' hw)

/-- **(2), the other half**: reader and workers do not fail and no call of the run fails (`ok`, or k > W): on no
schedule does main return an error -/
theorem fault_beyond_run_no_error (h : IsFW cfg d chunks header k0 e) (hrf : cfg.readFail = none)
    {ys : List β} (hys : cfg.items.map cfg.f = ys.map Except.ok)
    (hd : ∀ i, 1 ≤ i → i ≤ nCalls chunks ys → d.fails i = false)
    (hr : Reach cfg s) (e' : ε) : s.main ≠ .ret (some e') := by
  intro hm
  rcases (reach_hist hr).mErr e' hm with ⟨k, hk⟩ | ⟨x, hx, hf⟩ | hw
  · rw [hrf] at hk; cases hk
  · obtain ⟨y, hy⟩ := all_ok_of_map hys x hx
    rw [hy] at hf; cases hf
  · exact no_write_error h hr (by rw [goodPrefix_all_ok hys]; exact hd) e' hw

/-- **(2), whole runs**: then every run that cannot be extended has returned nil with the sequential text accepted -/
theorem fault_beyond_run_maximal (h : IsFW cfg d chunks header k0 e) (hN : 1 ≤ cfg.N) (hrf : cfg.readFail = none)
    {ys : List β} (hys : cfg.items.map cfg.f = ys.map Except.ok)
    (hd : ∀ i, 1 ≤ i → i ≤ nCalls chunks ys → d.fails i = false)
    (hr : Reach cfg s) (hstuck : enabled cfg s = []) :
    s.main = .ret none ∧ s.wst.sink.text = header ++ String.join (ys.map fun y => String.join (chunks y)) := by
  obtain ⟨r, hm⟩ := maximal_run_returned hN hr hstuck
  cases r with
  | some e' => exact absurd hm (fault_beyond_run_no_error h hrf hys hd hr e')
  | none =>
    obtain ⟨ys', hys', htext, _⟩ := fault_beyond_run_harmless h hN hr hm
    have : ys' = ys := by
      have := hys'.symm.trans hys
      exact (List.map_inj_right (fun a b hab => Except.ok.inj hab)).mp this
    rw [← this]
    exact ⟨hm, htext⟩

/-- **(1), which error**: reader and workers do not fail, the destination fails a call of the run: every run that
cannot be extended has returned THE WRITE ERROR e -/
theorem fault_maximal_run_write_error (h : IsFW cfg d chunks header k0 e) (hN : 1 ≤ cfg.N) (hrf : cfg.readFail = none)
    {ys : List β} (hys : cfg.items.map cfg.f = ys.map Except.ok) (k : Nat)
    (hd : d = .failFrom k ∨ d = .failOnce k) (hk1 : 1 ≤ k) (hkW : k ≤ nCalls chunks ys)
    (hr : Reach cfg s) (hstuck : enabled cfg s = []) : s.main = .ret (some e) := by
  have hkW' : ∀ ys', cfg.items.map cfg.f = ys'.map Except.ok → k ≤ nCalls chunks ys' := by
    intro ys' hys'
    have : ys' = ys := (List.map_inj_right (fun a b hab => Except.ok.inj hab)).mp (hys'.symm.trans hys)
    rw [this]; exact hkW
  obtain ⟨e', hm, _⟩ := fault_maximal_run h hN k hd hk1 hkW' hr hstuck
  rcases (reach_hist hr).mErr e' hm with ⟨j, hj⟩ | ⟨x, hx, hf⟩ | hw
  · rw [hrf] at hj; cases hj
  · obtain ⟨y, hy⟩ := all_ok_of_map hys x hx
    rw [hy] at hf; cases hf
  · have : e' = e := by
      rcases (reach_hist hr).wErr e' hw with ⟨_, r, _, _, hab⟩ | ⟨_, hfin⟩
      · exact fw_error_is_e h.habs h.hfin (Or.inl ⟨r, hab⟩)
      · exact fw_error_is_e h.habs h.hfin (Or.inr hfin)
    rw [hm, this]

end onePoolNoFault

/-! ## 5. the commands -/

/-- what main can return: an error of the command itself (reader, worker) or the error of a failed write -/
inductive RunErr where
  | cmd (e : CmdErr)
  | write
  deriving DecidableEq, Repr

/-- a worker of SchedCommands with its error in `RunErr` -/
def liftW (F : α → Except CmdErr β) (x : α) : Except RunErr β :=
  match F x with
  | .ok y => .ok y
  | .error e => .error (.cmd e)

theorem liftW_ok {F : α → Except CmdErr β} {x : α} {y : β} : liftW F x = .ok y ↔ F x = .ok y := by
  unfold liftW
  cases F x with
  | ok y' => simp
  | error e => simp

theorem liftW_of_ok {F : α → Except CmdErr β} {x : α} {y : β} (h : F x = .ok y) : liftW F x = .ok y :=
  liftW_ok.mpr h

theorem map_liftW_ok {F : α → Except CmdErr β} : ∀ {items : List α} {ys : List β},
    items.map (liftW F) = ys.map Except.ok ↔ items.map F = ys.map Except.ok := by
  intro items
  induction items with
  | nil => intro ys; cases ys <;> simp
  | cons a t ih =>
    intro ys
    cases ys with
    | nil => simp
    | cons y ys' =>
      simp only [List.map_cons, List.cons.injEq, liftW_ok, ih]

theorem join_singleton (x : String) : String.join [x] = x := by simp [String.join_cons]
theorem join_pair (a b : String) : String.join [a, b] = a ++ b := by simp [String.join_cons]

/-! ### A. `gofasta snps`, per-sequence output: one write call per record -/

section snps
open Gofasta.Model.Sched Gofasta.Lemmas.Sched

/-- snps.writeOutput: one write call per line -/
def snpsChunks (y : String × List Snp) : List String := [snpsRender y]

/-- `gofasta snps` writing to the destination d -/
def snpsFCfg (d : Dest) (hard : Bool) (ref : List Nat) (recs : List (String × List Nat)) (N capIn capOut : Nat)
    (rf : Option (Nat × RunErr)) :
    Cfg (String × List Nat) (String × List Snp) RunErr (FW (String × List Snp)) where
  items := encItems hard recs
  f := liftW (snpsWorker (ref.map (enc hard)))
  N := N
  capIn := capIn
  capOut := capOut
  readFail := rf
  absorb := FW.absorb d snpsChunks 0 .write
  finish := FW.finish .write
  init := FW.start d "query,SNPs\n" 0

theorem snpsF_isFW (d : Dest) (hard : Bool) (ref : List Nat) (recs : List (String × List Nat)) (N capIn capOut : Nat)
    (rf : Option (Nat × RunErr)) :
    IsFW (snpsFCfg d hard ref recs N capIn capOut rf) d snpsChunks "query,SNPs\n" 0 .write :=
  ⟨fun _ _ => rfl, fun _ => rfl, rfl⟩

/-- the lines of the sequential text -/
def snpsLines (hard : Bool) (ref : List Nat) (recs : List (String × List Nat)) : List String :=
  recs.map fun r => snpsLine r.1 (snpsRow hard ref r.2)

theorem snpsOutput_eq_join (hard : Bool) (ref : List Nat) (recs : List (String × List Nat)) :
    snpsOutput hard ref recs = String.join ("query,SNPs\n" :: snpsLines hard ref recs) := by
  simp only [String.join_cons]; rfl

/-- the results, when every row is accepted -/
theorem snpsF_results {d : Dest} {hard : Bool} {ref : List Nat} {recs : List (String × List Nat)} {N capIn capOut : Nat}
    {rf : Option (Nat × RunErr)} {ys : List (String × List Snp)}
    (hys : (snpsFCfg d hard ref recs N capIn capOut rf).items.map (snpsFCfg d hard ref recs N capIn capOut rf).f =
      ys.map Except.ok) :
    ys = recs.map fun r => (r.1, snpsRow hard ref r.2) := by
  have := map_ok_eq (snpsWorker_ok (ref.map (enc hard))) (map_liftW_ok.mp hys)
  rw [this]
  simp only [snpsFCfg, encItems, List.map_map]
  rfl

theorem snpsF_all_ok (d : Dest) (hard : Bool) (ref : List Nat) (recs : List (String × List Nat)) (N capIn capOut : Nat)
    (rf : Option (Nat × RunErr)) (hw : ∀ r ∈ recs, r.2.length = ref.length) :
    ∃ ys : List (String × List Snp),
      (snpsFCfg d hard ref recs N capIn capOut rf).items.map (snpsFCfg d hard ref recs N capIn capOut rf).f =
        ys.map Except.ok := by
  apply outputs_exist
  intro x hx
  obtain ⟨r, hr, rfl⟩ := List.mem_map.mp hx
  refine ⟨(r.1, snpsRowEnc 0 (ref.map (enc hard)) (r.2.map (enc hard))), ?_⟩
  apply liftW_of_ok
  simp [snpsWorker, hw r hr]

theorem snps_callSeq (hard : Bool) (ref : List Nat) (recs : List (String × List Nat)) :
    callSeq "query,SNPs\n" snpsChunks (recs.map fun r => (r.1, snpsRow hard ref r.2)) =
      "query,SNPs\n" :: snpsLines hard ref recs := by
  simp only [callSeq, snpsLines, List.cons.injEq, true_and]
  induction recs with
  | nil => rfl
  | cons r t ih => simp only [List.map_cons, List.flatMap_cons, ih]; rfl

/-- **A (1)**: the destination fails at call k, 1 ≤ k ≤ 1 + n (header and n lines): no schedule returns nil -/
theorem snps_fault_reported (d : Dest) (hard : Bool) (ref : List Nat) (recs : List (String × List Nat))
    (N capIn capOut : Nat) (rf : Option (Nat × RunErr)) (hN : 1 ≤ N) (k : Nat)
    (hd : d = .failFrom k ∨ d = .failOnce k) (hk1 : 1 ≤ k) (hkW : k ≤ 1 + recs.length) {s : State _ _ _ _}
    (hr : Reach (snpsFCfg d hard ref recs N capIn capOut rf) s) : s.main ≠ .ret none :=
  fault_reported_uniform (snpsF_isFW d hard ref recs N capIn capOut rf) hN 1 (fun _ => rfl) k hd hk1
    (by simpa [snpsFCfg, encItems] using hkW) hr

/-- **A (1), whole runs**: every run that cannot be extended has returned an error -/
theorem snps_fault_maximal_run (d : Dest) (hard : Bool) (ref : List Nat) (recs : List (String × List Nat))
    (N capIn capOut : Nat) (rf : Option (Nat × RunErr)) (hN : 1 ≤ N) (k : Nat)
    (hd : d = .failFrom k ∨ d = .failOnce k) (hk1 : 1 ≤ k) (hkW : k ≤ 1 + recs.length) {s : State _ _ _ _}
    (hr : Reach (snpsFCfg d hard ref recs N capIn capOut rf) s)
    (hstuck : enabled (snpsFCfg d hard ref recs N capIn capOut rf) s = []) : ∃ e', s.main = .ret (some e') := by
  obtain ⟨r, hm⟩ := maximal_run_returned (cfg := snpsFCfg d hard ref recs N capIn capOut rf) hN hr hstuck
  cases r with
  | none => exact absurd hm (snps_fault_reported d hard ref recs N capIn capOut rf hN k hd hk1 hkW hr)
  | some e' => exact ⟨e', hm⟩

/-- **A (2)**: whatever the destination, whenever the driver returns nil the text accepted is `snpsOutput hard ref recs` -/
theorem snps_fault_beyond_run_harmless (d : Dest) (hard : Bool) (ref : List Nat) (recs : List (String × List Nat))
    (N capIn capOut : Nat) (rf : Option (Nat × RunErr)) (hN : 1 ≤ N) {s : State _ _ _ _}
    (hr : Reach (snpsFCfg d hard ref recs N capIn capOut rf) s) (hm : s.main = .ret none) :
    s.wst.sink.text = snpsOutput hard ref recs ∧ s.wst.sink.calls = 1 + recs.length ∧
      ∀ i, 1 ≤ i → i ≤ 1 + recs.length → d.fails i = false := by
  obtain ⟨ys, hys, htext, _, hcalls, hok⟩ :=
    fault_beyond_run_harmless (snpsF_isFW d hard ref recs N capIn capOut rf) hN hr hm
  have hy := snpsF_results hys
  have hn : nCalls snpsChunks ys = 1 + recs.length := by
    rw [nCalls_uniform snpsChunks 1 (fun _ => rfl), hy]; simp
  rw [hn] at hcalls hok
  refine ⟨?_, hcalls, hok⟩
  rw [htext, hy, List.map_map]
  simp only [snpsChunks, join_singleton]
  rfl

/-- **A (2), whole runs**: rows as wide as the reference, a reader that does not fail, no call among the 1 + n of the
run fails (`ok`, or k > 1 + n): every run that cannot be extended has returned nil with `snpsOutput hard ref recs` accepted -/
theorem snps_fault_beyond_run_maximal (d : Dest) (hard : Bool) (ref : List Nat) (recs : List (String × List Nat))
    (N capIn capOut : Nat) (hN : 1 ≤ N) (hw : ∀ r ∈ recs, r.2.length = ref.length)
    (hd : ∀ i, 1 ≤ i → i ≤ 1 + recs.length → d.fails i = false) {s : State _ _ _ _}
    (hr : Reach (snpsFCfg d hard ref recs N capIn capOut none) s)
    (hstuck : enabled (snpsFCfg d hard ref recs N capIn capOut none) s = []) :
    s.main = .ret none ∧ s.wst.sink.text = snpsOutput hard ref recs := by
  obtain ⟨ys, hys⟩ := snpsF_all_ok d hard ref recs N capIn capOut none hw
  have hy := snpsF_results hys
  have hn : nCalls snpsChunks ys = 1 + recs.length := by
    rw [nCalls_uniform snpsChunks 1 (fun _ => rfl), hy]; simp
  have hm := (fault_beyond_run_maximal (snpsF_isFW d hard ref recs N capIn capOut none) hN rfl hys
    (by rw [hn]; exact hd) hr hstuck).1
  exact ⟨hm, (snps_fault_beyond_run_harmless d hard ref recs N capIn capOut none hN hr hm).1⟩

/-- **A (3)**: rows as wide as the reference: in every reachable state the text accepted is the header and the first
lines of `snpsOutput hard ref recs`, whole, in input order (`snpsOutput_eq_join`) -/
theorem snps_written_is_prefix (d : Dest) (hard : Bool) (ref : List Nat) (recs : List (String × List Nat))
    (N capIn capOut : Nat) (rf : Option (Nat × RunErr)) (hw : ∀ r ∈ recs, r.2.length = ref.length) {s : State _ _ _ _}
    (hr : Reach (snpsFCfg d hard ref recs N capIn capOut rf) s) :
    ∃ j, accepted d snpsChunks "query,SNPs\n" 0 s =
      String.join (("query,SNPs\n" :: snpsLines hard ref recs).take j) := by
  obtain ⟨ys, hys⟩ := snpsF_all_ok d hard ref recs N capIn capOut rf hw
  obtain ⟨j, hj, _⟩ := written_is_prefix_ok d snpsChunks "query,SNPs\n" 0 hys hr
  rw [snpsF_results hys, snps_callSeq] at hj
  exact ⟨j, hj⟩

/-- **A (1), which error**: rows as wide as the reference, a reader that does not fail: every run that cannot be
extended has returned the write error -/
theorem snps_fault_maximal_run_write_error (d : Dest) (hard : Bool) (ref : List Nat) (recs : List (String × List Nat))
    (N capIn capOut : Nat) (hN : 1 ≤ N) (hw : ∀ r ∈ recs, r.2.length = ref.length) (k : Nat)
    (hd : d = .failFrom k ∨ d = .failOnce k) (hk1 : 1 ≤ k) (hkW : k ≤ 1 + recs.length) {s : State _ _ _ _}
    (hr : Reach (snpsFCfg d hard ref recs N capIn capOut none) s)
    (hstuck : enabled (snpsFCfg d hard ref recs N capIn capOut none) s = []) : s.main = .ret (some .write) := by
  obtain ⟨ys, hys⟩ := snpsF_all_ok d hard ref recs N capIn capOut none hw
  have hn : nCalls snpsChunks ys = 1 + recs.length := by
    rw [nCalls_uniform snpsChunks 1 (fun _ => rfl), snpsF_results hys]; simp
  exact fault_maximal_run_write_error (snpsF_isFW d hard ref recs N capIn capOut none) hN rfl hys k hd hk1
    (by rw [hn]; exact hkW) hr hstuck

end snps

/-! ### B. `gofasta updown list`: one write call per record -/

section updownList
open Gofasta.Model.Sched Gofasta.Lemmas.Sched

def udChunks (y : UDLine) : List String := [udRow y]

def udListFCfg (d : Dest) (ref : List Nat) (recs : List (String × List Nat)) (N capIn capOut : Nat)
    (rf : Option (Nat × RunErr)) : Cfg (String × List Nat) UDLine RunErr (FW UDLine) where
  items := encItems false recs
  f := liftW (udWorker (ref.map (enc false)))
  N := N
  capIn := capIn
  capOut := capOut
  readFail := rf
  absorb := FW.absorb d udChunks 0 .write
  finish := FW.finish .write
  init := FW.start d udHeaderText 0

theorem udListF_isFW (d : Dest) (ref : List Nat) (recs : List (String × List Nat)) (N capIn capOut : Nat)
    (rf : Option (Nat × RunErr)) : IsFW (udListFCfg d ref recs N capIn capOut rf) d udChunks udHeaderText 0 .write :=
  ⟨fun _ _ => rfl, fun _ => rfl, rfl⟩

def udLines (ref : List Nat) (recs : List (String × List Nat)) : List String :=
  recs.map fun r => udRow (getLine r.1 (ref.map (enc false)) (r.2.map (enc false)))

theorem udListOutput_eq_join (ref : List Nat) (recs : List (String × List Nat)) :
    udListOutput ref recs = String.join (udHeaderText :: udLines ref recs) := by
  simp only [String.join_cons]; rfl

theorem udListF_results {d : Dest} {ref : List Nat} {recs : List (String × List Nat)} {N capIn capOut : Nat}
    {rf : Option (Nat × RunErr)} {ys : List UDLine}
    (hys : (udListFCfg d ref recs N capIn capOut rf).items.map (udListFCfg d ref recs N capIn capOut rf).f =
      ys.map Except.ok) :
    ys = recs.map fun r => getLine r.1 (ref.map (enc false)) (r.2.map (enc false)) := by
  have := map_ok_eq (udWorker_ok (ref.map (enc false))) (map_liftW_ok.mp hys)
  rw [this]
  simp only [udListFCfg, encItems, List.map_map]
  rfl

theorem udListF_all_ok (d : Dest) (ref : List Nat) (recs : List (String × List Nat)) (N capIn capOut : Nat)
    (rf : Option (Nat × RunErr)) (hw : ∀ r ∈ recs, r.2.length = ref.length) :
    ∃ ys : List UDLine,
      (udListFCfg d ref recs N capIn capOut rf).items.map (udListFCfg d ref recs N capIn capOut rf).f =
        ys.map Except.ok := by
  apply outputs_exist
  intro x hx
  obtain ⟨r, hr, rfl⟩ := List.mem_map.mp hx
  refine ⟨getLine r.1 (ref.map (enc false)) (r.2.map (enc false)), ?_⟩
  apply liftW_of_ok
  simp [udWorker, hw r hr]

theorem ud_callSeq (ref : List Nat) (recs : List (String × List Nat)) :
    callSeq udHeaderText udChunks (recs.map fun r => getLine r.1 (ref.map (enc false)) (r.2.map (enc false))) =
      udHeaderText :: udLines ref recs := by
  simp only [callSeq, udLines, List.cons.injEq, true_and]
  induction recs with
  | nil => rfl
  | cons r t ih => simp only [List.map_cons, List.flatMap_cons, ih]; rfl

/-- **B (1)** -/
theorem updown_list_fault_reported (d : Dest) (ref : List Nat) (recs : List (String × List Nat))
    (N capIn capOut : Nat) (rf : Option (Nat × RunErr)) (hN : 1 ≤ N) (k : Nat)
    (hd : d = .failFrom k ∨ d = .failOnce k) (hk1 : 1 ≤ k) (hkW : k ≤ 1 + recs.length) {s : State _ _ _ _}
    (hr : Reach (udListFCfg d ref recs N capIn capOut rf) s) : s.main ≠ .ret none :=
  fault_reported_uniform (udListF_isFW d ref recs N capIn capOut rf) hN 1 (fun _ => rfl) k hd hk1
    (by simpa [udListFCfg, encItems] using hkW) hr

/-- **B (1), whole runs** -/
theorem updown_list_fault_maximal_run (d : Dest) (ref : List Nat) (recs : List (String × List Nat))
    (N capIn capOut : Nat) (rf : Option (Nat × RunErr)) (hN : 1 ≤ N) (k : Nat)
    (hd : d = .failFrom k ∨ d = .failOnce k) (hk1 : 1 ≤ k) (hkW : k ≤ 1 + recs.length) {s : State _ _ _ _}
    (hr : Reach (udListFCfg d ref recs N capIn capOut rf) s)
    (hstuck : enabled (udListFCfg d ref recs N capIn capOut rf) s = []) : ∃ e', s.main = .ret (some e') := by
  obtain ⟨r, hm⟩ := maximal_run_returned (cfg := udListFCfg d ref recs N capIn capOut rf) hN hr hstuck
  cases r with
  | none => exact absurd hm (updown_list_fault_reported d ref recs N capIn capOut rf hN k hd hk1 hkW hr)
  | some e' => exact ⟨e', hm⟩

/-- **B (2)** -/
theorem updown_list_fault_beyond_run_harmless (d : Dest) (ref : List Nat) (recs : List (String × List Nat))
    (N capIn capOut : Nat) (rf : Option (Nat × RunErr)) (hN : 1 ≤ N) {s : State _ _ _ _}
    (hr : Reach (udListFCfg d ref recs N capIn capOut rf) s) (hm : s.main = .ret none) :
    s.wst.sink.text = udListOutput ref recs ∧ s.wst.sink.calls = 1 + recs.length ∧
      ∀ i, 1 ≤ i → i ≤ 1 + recs.length → d.fails i = false := by
  obtain ⟨ys, hys, htext, _, hcalls, hok⟩ :=
    fault_beyond_run_harmless (udListF_isFW d ref recs N capIn capOut rf) hN hr hm
  have hy := udListF_results hys
  have hn : nCalls udChunks ys = 1 + recs.length := by
    rw [nCalls_uniform udChunks 1 (fun _ => rfl), hy]; simp
  rw [hn] at hcalls hok
  refine ⟨?_, hcalls, hok⟩
  rw [htext, hy, List.map_map]
  simp only [udChunks, join_singleton]
  rfl

/-- **B (2), whole runs** -/
theorem updown_list_fault_beyond_run_maximal (d : Dest) (ref : List Nat) (recs : List (String × List Nat))
    (N capIn capOut : Nat) (hN : 1 ≤ N) (hw : ∀ r ∈ recs, r.2.length = ref.length)
    (hd : ∀ i, 1 ≤ i → i ≤ 1 + recs.length → d.fails i = false) {s : State _ _ _ _}
    (hr : Reach (udListFCfg d ref recs N capIn capOut none) s)
    (hstuck : enabled (udListFCfg d ref recs N capIn capOut none) s = []) :
    s.main = .ret none ∧ s.wst.sink.text = udListOutput ref recs := by
  obtain ⟨ys, hys⟩ := udListF_all_ok d ref recs N capIn capOut none hw
  have hy := udListF_results hys
  have hn : nCalls udChunks ys = 1 + recs.length := by
    rw [nCalls_uniform udChunks 1 (fun _ => rfl), hy]; simp
  have hm := (fault_beyond_run_maximal (udListF_isFW d ref recs N capIn capOut none) hN rfl hys
    (by rw [hn]; exact hd) hr hstuck).1
  exact ⟨hm, (updown_list_fault_beyond_run_harmless d ref recs N capIn capOut none hN hr hm).1⟩

/-- **B (3)** -/
theorem updown_list_written_is_prefix (d : Dest) (ref : List Nat) (recs : List (String × List Nat))
    (N capIn capOut : Nat) (rf : Option (Nat × RunErr)) (hw : ∀ r ∈ recs, r.2.length = ref.length) {s : State _ _ _ _}
    (hr : Reach (udListFCfg d ref recs N capIn capOut rf) s) :
    ∃ j, accepted d udChunks udHeaderText 0 s = String.join ((udHeaderText :: udLines ref recs).take j) := by
  obtain ⟨ys, hys⟩ := udListF_all_ok d ref recs N capIn capOut rf hw
  obtain ⟨j, hj, _⟩ := written_is_prefix_ok d udChunks udHeaderText 0 hys hr
  rw [udListF_results hys, ud_callSeq] at hj
  exact ⟨j, hj⟩

/-- **B (1), which error** -/
theorem updown_list_fault_maximal_run_write_error (d : Dest) (ref : List Nat) (recs : List (String × List Nat))
    (N capIn capOut : Nat) (hN : 1 ≤ N) (hw : ∀ r ∈ recs, r.2.length = ref.length) (k : Nat)
    (hd : d = .failFrom k ∨ d = .failOnce k) (hk1 : 1 ≤ k) (hkW : k ≤ 1 + recs.length) {s : State _ _ _ _}
    (hr : Reach (udListFCfg d ref recs N capIn capOut none) s)
    (hstuck : enabled (udListFCfg d ref recs N capIn capOut none) s = []) : s.main = .ret (some .write) := by
  obtain ⟨ys, hys⟩ := udListF_all_ok d ref recs N capIn capOut none hw
  have hn : nCalls udChunks ys = 1 + recs.length := by
    rw [nCalls_uniform udChunks 1 (fun _ => rfl), udListF_results hys]; simp
  exact fault_maximal_run_write_error (udListF_isFW d ref recs N capIn capOut none) hN rfl hys k hd hk1
    (by rw [hn]; exact hkW) hr hstuck

end updownList

/-! ### E. `gofasta variants`, per-sequence output: two write calls per record (the name, then the joined
mutations), none for the record named like the reference -/

section variants
open Gofasta.Model.Sched Gofasta.Lemmas.Sched Gofasta.Driver Gofasta.Lemmas.SamVarPipeline

/-- variants.WriteVariants: `name,` then `mutations\n`; nothing for the record named like the reference -/
def varChunks (vi : VarIn) (refID : String) (y : String × List Variant) : List String :=
  if y.1 != refID then
    [y.1 ++ ",", joinWith "|" ((y.2.filter (inWindow vi.start vi.stop)).map (formatVariant vi.append)) ++ "\n"]
  else []

theorem join_varChunks (vi : VarIn) (refID : String) (y : String × List Variant) :
    String.join (varChunks vi refID y) = varRender vi refID y := by
  unfold varChunks varRender
  by_cases h : (y.1 != refID) = true
  · simp only [h, if_true, join_pair, variantsLine, String.append_assoc]
  · simp only [h, Bool.false_eq_true, if_false, String.join_nil]

/-- the number of write calls for the records: two for each record not named like the reference -/
theorem varChunks_count (vi : VarIn) (refID : String) (ys : List (String × List Variant)) :
    (ys.flatMap (varChunks vi refID)).length = 2 * (ys.filter fun y => y.1 != refID).length := by
  induction ys with
  | nil => rfl
  | cons y t ih =>
    simp only [List.flatMap_cons, List.length_append, ih, List.filter_cons, varChunks]
    by_cases h : (y.1 != refID) = true
    · simp only [h, if_true, List.length_cons, List.length_nil]; omega
    · simp only [h, Bool.false_eq_true, if_false, List.length_nil]; omega

def varFCfg (d : Dest) (vi : VarIn) (pairFn : List Nat → List Nat → List Region → List Nat → List Variant)
    (refRow : List Nat) (rows : List (String × List Nat)) (refID : String) (regions : List Region) (inter : List Nat)
    (first N capIn capOut : Nat) (rf : Option (Nat × RunErr)) :
    Cfg (String × List Nat) (String × List Variant) RunErr (FW (String × List Variant)) where
  items := rows
  f := liftW (varWorker pairFn refRow regions inter)
  N := N
  capIn := capIn
  capOut := capOut
  readFail := rf
  absorb := FW.absorb d (varChunks vi refID) first .write
  finish := FW.finish .write
  init := FW.start d "query,mutations\n" first

theorem varF_isFW (d : Dest) (vi : VarIn) (pairFn : List Nat → List Nat → List Region → List Nat → List Variant)
    (refRow : List Nat) (rows : List (String × List Nat)) (refID : String) (regions : List Region) (inter : List Nat)
    (first N capIn capOut : Nat) (rf : Option (Nat × RunErr)) :
    IsFW (varFCfg d vi pairFn refRow rows refID regions inter first N capIn capOut rf) d (varChunks vi refID)
      "query,mutations\n" first .write :=
  ⟨fun _ _ => rfl, fun _ => rfl, rfl⟩

/-- W for variants: the header and two calls for every row not named like the reference -/
def varW (refID : String) (rows : List (String × List Nat)) : Nat :=
  1 + 2 * (rows.filter fun r => r.1 != refID).length

theorem varF_results {d : Dest} {vi : VarIn} {pairFn : List Nat → List Nat → List Region → List Nat → List Variant}
    {refRow : List Nat} {rows : List (String × List Nat)} {refID : String} {regions : List Region} {inter : List Nat}
    {first N capIn capOut : Nat} {rf : Option (Nat × RunErr)} {ys : List (String × List Variant)}
    (hys : (varFCfg d vi pairFn refRow rows refID regions inter first N capIn capOut rf).items.map
      (varFCfg d vi pairFn refRow rows refID regions inter first N capIn capOut rf).f = ys.map Except.ok) :
    ys = rows.map fun r => (r.1, pairFn refRow r.2 regions inter) :=
  map_ok_eq (varWorker_ok pairFn refRow regions inter) (map_liftW_ok.mp hys)

theorem varF_nCalls (vi : VarIn) (pairFn : List Nat → List Nat → List Region → List Nat → List Variant)
    (refRow : List Nat) (rows : List (String × List Nat)) (refID : String) (regions : List Region) (inter : List Nat) :
    nCalls (varChunks vi refID) (rows.map fun r => (r.1, pairFn refRow r.2 regions inter)) = varW refID rows := by
  rw [nCalls, varChunks_count, varW, List.filter_map, List.length_map]
  rfl

/-- **E (1)**: the destination fails at call k, 1 ≤ k ≤ W = 1 + 2 * (rows not named like the reference): no schedule
returns nil -/
theorem variants_fault_reported (d : Dest) (vi : VarIn)
    (pairFn : List Nat → List Nat → List Region → List Nat → List Variant)
    (refRow : List Nat) (rows : List (String × List Nat)) (refID : String) (regions : List Region) (inter : List Nat)
    (first N capIn capOut : Nat) (rf : Option (Nat × RunErr)) (hN : 1 ≤ N) (k : Nat)
    (hd : d = .failFrom k ∨ d = .failOnce k) (hk1 : 1 ≤ k) (hkW : k ≤ varW refID rows) {s : State _ _ _ _}
    (hr : Reach (varFCfg d vi pairFn refRow rows refID regions inter first N capIn capOut rf) s) :
    s.main ≠ .ret none := by
  apply fault_reported (varF_isFW d vi pairFn refRow rows refID regions inter first N capIn capOut rf) hN k hd hk1 _ hr
  intro ys hys
  rw [varF_results hys, varF_nCalls]
  exact hkW

/-- **E (1), whole runs** -/
theorem variants_fault_maximal_run (d : Dest) (vi : VarIn)
    (pairFn : List Nat → List Nat → List Region → List Nat → List Variant)
    (refRow : List Nat) (rows : List (String × List Nat)) (refID : String) (regions : List Region) (inter : List Nat)
    (first N capIn capOut : Nat) (rf : Option (Nat × RunErr)) (hN : 1 ≤ N) (k : Nat)
    (hd : d = .failFrom k ∨ d = .failOnce k) (hk1 : 1 ≤ k) (hkW : k ≤ varW refID rows) {s : State _ _ _ _}
    (hr : Reach (varFCfg d vi pairFn refRow rows refID regions inter first N capIn capOut rf) s)
    (hstuck : enabled (varFCfg d vi pairFn refRow rows refID regions inter first N capIn capOut rf) s = []) :
    ∃ e', s.main = .ret (some e') := by
  obtain ⟨r, hm⟩ := maximal_run_returned
    (cfg := varFCfg d vi pairFn refRow rows refID regions inter first N capIn capOut rf) hN hr hstuck
  cases r with
  | none =>
    have := variants_fault_reported d vi pairFn refRow rows refID regions inter first N capIn capOut rf hN k hd hk1 hkW hr
    exact absurd hm this
  | some e' => exact ⟨e', hm⟩

/-- the text of a complete fault-free run is `varCommand vi pairFn` -/
theorem var_text_eq (vi : VarIn) (pairFn : List Nat → List Nat → List Region → List Nat → List Variant)
    (refRow : List Nat) (rows : List (String × List Nat)) (refID : String) (regions : List Region) (inter : List Nat)
    (hra : refAndRows vi = some (refRow, rows, refID)) (hregs : varRegions vi refRow = some (regions, inter))
    (hagg : vi.agg = false) (hwid : ∀ r ∈ rows, r.2.length = refRow.length) :
    "query,mutations\n" ++ String.join ((rows.map fun r => (r.1, pairFn refRow r.2 regions inter)).map
      fun y => String.join (varChunks vi refID y)) = varCommand vi pairFn := by
  have hwid' : rows.any (fun r => r.2.length != refRow.length) = false := by
    rw [List.any_eq_false]
    intro x hx
    simp [hwid x hx]
  rw [varCommand_unfold vi pairFn refRow rows refID regions inter hra hregs, hwid']
  simp only [hagg, Bool.false_eq_true, if_false, join_varChunks]
  unfold variantsOutput
  rw [join_filter_map]
  rfl

/-- **E (2)**: whatever the destination, whenever the driver returns nil the text accepted is `varCommand vi pairFn` -/
theorem variants_fault_beyond_run_harmless (d : Dest) (vi : VarIn)
    (pairFn : List Nat → List Nat → List Region → List Nat → List Variant)
    (refRow : List Nat) (rows : List (String × List Nat)) (refID : String) (regions : List Region) (inter : List Nat)
    (hra : refAndRows vi = some (refRow, rows, refID)) (hregs : varRegions vi refRow = some (regions, inter))
    (hagg : vi.agg = false) (first N capIn capOut : Nat) (rf : Option (Nat × RunErr)) (hN : 1 ≤ N)
    {s : State _ _ _ _}
    (hr : Reach (varFCfg d vi pairFn refRow rows refID regions inter first N capIn capOut rf) s)
    (hm : s.main = .ret none) :
    s.wst.sink.text = varCommand vi pairFn ∧ s.wst.sink.calls = varW refID rows ∧
      ∀ i, 1 ≤ i → i ≤ varW refID rows → d.fails i = false := by
  obtain ⟨ys, hys, htext, _, hcalls, hok⟩ := fault_beyond_run_harmless
    (varF_isFW d vi pairFn refRow rows refID regions inter first N capIn capOut rf) hN hr hm
  have hy := varF_results hys
  rw [hy, varF_nCalls] at hcalls hok
  refine ⟨?_, hcalls, hok⟩
  have hwid : ∀ r ∈ rows, r.2.length = refRow.length := by
    intro x hx
    obtain ⟨y, hy⟩ := all_ok_of_map (map_liftW_ok.mp hys) x hx
    exact varWorker_width pairFn refRow regions inter x y hy
  rw [htext, hy]
  exact var_text_eq vi pairFn refRow rows refID regions inter hra hregs hagg hwid

theorem varF_all_ok (d : Dest) (vi : VarIn) (pairFn : List Nat → List Nat → List Region → List Nat → List Variant)
    (refRow : List Nat) (rows : List (String × List Nat)) (refID : String) (regions : List Region) (inter : List Nat)
    (first N capIn capOut : Nat) (rf : Option (Nat × RunErr)) (hw : ∀ r ∈ rows, r.2.length = refRow.length) :
    (varFCfg d vi pairFn refRow rows refID regions inter first N capIn capOut rf).items.map
      (varFCfg d vi pairFn refRow rows refID regions inter first N capIn capOut rf).f =
      (rows.map fun r => (r.1, pairFn refRow r.2 regions inter)).map Except.ok := by
  simp only [varFCfg, List.map_map]
  apply List.map_congr_left
  intro x hx
  apply liftW_of_ok
  simp [varWorker, hw x hx]

/-- **E (2), whole runs**: rows as wide as the reference row, a reader that does not fail, no call among the W of the
run fails: every run that cannot be extended has returned nil with `varCommand vi pairFn` accepted -/
theorem variants_fault_beyond_run_maximal (d : Dest) (vi : VarIn)
    (pairFn : List Nat → List Nat → List Region → List Nat → List Variant)
    (refRow : List Nat) (rows : List (String × List Nat)) (refID : String) (regions : List Region) (inter : List Nat)
    (hra : refAndRows vi = some (refRow, rows, refID)) (hregs : varRegions vi refRow = some (regions, inter))
    (hagg : vi.agg = false) (first N capIn capOut : Nat) (hN : 1 ≤ N)
    (hw : ∀ r ∈ rows, r.2.length = refRow.length)
    (hd : ∀ i, 1 ≤ i → i ≤ varW refID rows → d.fails i = false) {s : State _ _ _ _}
    (hr : Reach (varFCfg d vi pairFn refRow rows refID regions inter first N capIn capOut none) s)
    (hstuck : enabled (varFCfg d vi pairFn refRow rows refID regions inter first N capIn capOut none) s = []) :
    s.main = .ret none ∧ s.wst.sink.text = varCommand vi pairFn := by
  have hys := varF_all_ok d vi pairFn refRow rows refID regions inter first N capIn capOut none hw
  have hm := (fault_beyond_run_maximal
    (varF_isFW d vi pairFn refRow rows refID regions inter first N capIn capOut none) hN rfl hys
    (by rw [varF_nCalls]; exact hd) hr hstuck).1
  exact ⟨hm, (variants_fault_beyond_run_harmless d vi pairFn refRow rows refID regions inter hra hregs hagg
    first N capIn capOut none hN hr hm).1⟩

/-- **E (3)**: rows as wide as the reference row: in every reachable state the text accepted is the call sequence of
`varCommand vi pairFn` (header; for every row not named like the reference `name,` then `mutations\n`) cut at a call
boundary: whole rows in input order, possibly followed by the name and comma of the next one -/
theorem variants_written_is_prefix (d : Dest) (vi : VarIn)
    (pairFn : List Nat → List Nat → List Region → List Nat → List Variant)
    (refRow : List Nat) (rows : List (String × List Nat)) (refID : String) (regions : List Region) (inter : List Nat)
    (hra : refAndRows vi = some (refRow, rows, refID)) (hregs : varRegions vi refRow = some (regions, inter))
    (hagg : vi.agg = false) (first N capIn capOut : Nat) (rf : Option (Nat × RunErr))
    (hw : ∀ r ∈ rows, r.2.length = refRow.length) {s : State _ _ _ _}
    (hr : Reach (varFCfg d vi pairFn refRow rows refID regions inter first N capIn capOut rf) s) :
    ∃ j, accepted d (varChunks vi refID) "query,mutations\n" first s =
        String.join ((callSeq "query,mutations\n" (varChunks vi refID)
          (rows.map fun r => (r.1, pairFn refRow r.2 regions inter))).take j) ∧
      String.join (callSeq "query,mutations\n" (varChunks vi refID)
          (rows.map fun r => (r.1, pairFn refRow r.2 regions inter))) = varCommand vi pairFn := by
  have hys := varF_all_ok d vi pairFn refRow rows refID regions inter first N capIn capOut rf hw
  obtain ⟨j, hj, hall⟩ := written_is_prefix_ok d (varChunks vi refID) "query,mutations\n" first hys hr
  refine ⟨j, hj, ?_⟩
  rw [hall]
  exact var_text_eq vi pairFn refRow rows refID regions inter hra hregs hagg hw

/-- **E (1), which error**: rows as wide as the reference row, a reader that does not fail: every run that cannot be
extended has returned the write error -/
theorem variants_fault_maximal_run_write_error (d : Dest) (vi : VarIn)
    (pairFn : List Nat → List Nat → List Region → List Nat → List Variant)
    (refRow : List Nat) (rows : List (String × List Nat)) (refID : String) (regions : List Region) (inter : List Nat)
    (first N capIn capOut : Nat) (hN : 1 ≤ N) (hw : ∀ r ∈ rows, r.2.length = refRow.length) (k : Nat)
    (hd : d = .failFrom k ∨ d = .failOnce k) (hk1 : 1 ≤ k) (hkW : k ≤ varW refID rows) {s : State _ _ _ _}
    (hr : Reach (varFCfg d vi pairFn refRow rows refID regions inter first N capIn capOut none) s)
    (hstuck : enabled (varFCfg d vi pairFn refRow rows refID regions inter first N capIn capOut none) s = []) :
    s.main = .ret (some .write) := by
  have hys := varF_all_ok d vi pairFn refRow rows refID regions inter first N capIn capOut none hw
  exact fault_maximal_run_write_error
    (varF_isFW d vi pairFn refRow rows refID regions inter first N capIn capOut none) hN rfl hys k hd hk1
    (by rw [varF_nCalls]; exact hkW) hr hstuck

end variants

/-! ## 1-3 for any number of worker pools (Model/SchedChain) -/

section chain
open Gofasta.Model.SchedChain Gofasta.Lemmas.SchedChain

variable {γ : Type}

/-- the chain's writer is the failing text writer -/
structure IsFWc (cfg : Cfg γ ε (FW γ)) (d : Dest) (chunks : γ → List String) (header : String) (k0 : Nat) (e : ε) :
    Prop where
  habs : ∀ st r, cfg.absorb st r = FW.absorb d chunks k0 e st r
  hfin : ∀ st, cfg.finish st = FW.finish e st
  hinit : cfg.init = FW.start d header k0

variable {cfg : Cfg γ ε (FW γ)} {s : State γ ε (FW γ)} {d : Dest} {chunks : γ → List String}
  {header : String} {k0 : Nat} {e : ε}

theorem chain_fw_hfail (h : IsFWc cfg d chunks header k0 e) (k : Nat) (hk1 : 1 ≤ k) (hd : d.fails k = true)
    (hkW : ∀ ys, cfg.items.map (pass cfg.pools) = ys.map Except.ok → k ≤ nCalls chunks ys) :
    ∀ recs : List (Nat × γ), (recs.map Prod.fst).Perm (List.range cfg.items.length) →
      (∀ r ∈ recs, ∃ x, cfg.items[r.1]? = some x ∧ pass cfg.pools x = .ok r.2) →
      ∀ st st', absorbAll cfg.absorb cfg.init recs = .ok st → cfg.finish st ≠ .ok st' := by
  intro recs hperm hgood st st' hfold
  rw [h.hinit] at hfold
  rw [h.hfin]
  exact fw_fault_hit h.habs k hk1 hd hkW recs hperm hgood st st' hfold

/-- **(1) for the chain, general form** -/
theorem chain_fault_reported' (h : IsFWc cfg d chunks header k0 e) (hN : ∀ P ∈ cfg.pools, 1 ≤ P.N) (k : Nat)
    (hk1 : 1 ≤ k) (hd : d.fails k = true)
    (hkW : ∀ ys, cfg.items.map (pass cfg.pools) = ys.map Except.ok → k ≤ nCalls chunks ys)
    (hr : Reach cfg s) : s.main ≠ .ret none :=
  chain_error_reported hN (Or.inr (Or.inr (chain_fw_hfail h k hk1 hd hkW))) hr

/-- **(1) chain_fault_reported**: any pools, any capacities; `failFrom k` or `failOnce k` with 1 ≤ k ≤ W: no
reachable state has main = ret none -/
theorem chain_fault_reported (h : IsFWc cfg d chunks header k0 e) (hN : ∀ P ∈ cfg.pools, 1 ≤ P.N) (k : Nat)
    (hd : d = .failFrom k ∨ d = .failOnce k) (hk1 : 1 ≤ k)
    (hkW : ∀ ys, cfg.items.map (pass cfg.pools) = ys.map Except.ok → k ≤ nCalls chunks ys)
    (hr : Reach cfg s) : s.main ≠ .ret none :=
  chain_fault_reported' h hN k hk1 (Dest.fails_of_at hd) hkW hr

theorem chain_fault_reported_uniform (h : IsFWc cfg d chunks header k0 e) (hN : ∀ P ∈ cfg.pools, 1 ≤ P.N) (w : Nat)
    (hw : ∀ y, (chunks y).length = w) (k : Nat) (hd : d = .failFrom k ∨ d = .failOnce k) (hk1 : 1 ≤ k)
    (hkW : k ≤ 1 + w * cfg.items.length) (hr : Reach cfg s) : s.main ≠ .ret none := by
  apply chain_fault_reported h hN k hd hk1 _ hr
  intro ys hys
  rw [nCalls_uniform chunks w hw, map_ok_length hys]
  exact hkW

/-- **(1) for the chain, whole runs** -/
theorem chain_fault_maximal_run (h : IsFWc cfg d chunks header k0 e) (hN : ∀ P ∈ cfg.pools, 1 ≤ P.N) (k : Nat)
    (hd : d = .failFrom k ∨ d = .failOnce k) (hk1 : 1 ≤ k)
    (hkW : ∀ ys, cfg.items.map (pass cfg.pools) = ys.map Except.ok → k ≤ nCalls chunks ys)
    (hr : Reach cfg s) (hstuck : enabled cfg s = []) : ∃ e', s.main = .ret (some e') ∧ ErrSource cfg e' :=
  chain_maximal_run_error hN (Or.inr (Or.inr (chain_fw_hfail h k hk1 (Dest.fails_of_at hd) hkW))) hr hstuck

/-- **(2) for the chain** -/
theorem chain_fault_beyond_run_harmless (h : IsFWc cfg d chunks header k0 e) (hN : ∀ P ∈ cfg.pools, 1 ≤ P.N)
    (hr : Reach cfg s) (hm : s.main = .ret none) :
    ∃ ys : List γ, cfg.items.map (pass cfg.pools) = ys.map Except.ok ∧
      s.wst.sink.text = header ++ String.join (ys.map fun y => String.join (chunks y)) ∧
      s.wst.sink.failed = false ∧ s.wst.sink.calls = nCalls chunks ys ∧
      ∀ i, 1 ≤ i → i ≤ nCalls chunks ys → d.fails i = false := by
  obtain ⟨_, _, recs, hperm, hgood, st, hfold, hfin'⟩ := chain_success_means_complete hN hr hm
  rw [h.hinit] at hfold
  rw [h.hfin] at hfin'
  exact fw_success_text h.habs recs hperm hgood st s.wst hfold hfin'

/-- the text the destination has accepted so far, in any state of the chain -/
def chainAccepted (d : Dest) (chunks : γ → List String) (header : String) (k0 : Nat) (s : State γ ε (FW γ)) : String :=
  (fwAfter d chunks header k0 s.arrival).sink.text

theorem chain_arrival_nodup {σ : Type} {cfg : Cfg γ ε σ} {s : State γ ε σ} (h : Inv cfg s) :
    (s.arrival.map Prod.fst).Nodup := by
  have hnd : (places s ++ tIdx (none : Transit γ)).Nodup := h.cons.nodup_iff.mpr List.nodup_range
  simp only [tIdx, List.append_nil] at hnd
  unfold places at hnd
  exact (List.nodup_append.mp hnd).2.1

theorem chain_arrival_good {σ : Type} {cfg : Cfg γ ε σ} {s : State γ ε σ} (h : Inv cfg s) :
    ∀ r ∈ s.arrival, ∃ x, cfg.items[r.1]? = some x ∧ pass cfg.pools x = .ok r.2 := by
  intro r hr
  obtain ⟨x, hx, hp⟩ := h.arrOk r hr
  rw [show cfg.m = cfg.pools.length from rfl, List.take_length] at hp
  exact ⟨x, hx, hp⟩

/-- **(3) for the chain** -/
theorem chain_written_is_prefix (d : Dest) (chunks : γ → List String) (header : String) (k0 : Nat)
    (hr : Reach cfg s) :
    ∃ j, chainAccepted d chunks header k0 s =
      String.join ((callSeq header chunks (goodPrefix (pass cfg.pools) cfg.items)).take j) := by
  have h := reach_inv hr
  exact fwAfter_text_prefix d chunks header k0 (chain_arrival_nodup h) (chain_arrival_good h)

theorem chain_written_is_prefix_ok (d : Dest) (chunks : γ → List String) (header : String) (k0 : Nat) {ys : List γ}
    (hys : cfg.items.map (pass cfg.pools) = ys.map Except.ok) (hr : Reach cfg s) :
    ∃ j, chainAccepted d chunks header k0 s = String.join ((callSeq header chunks ys).take j) ∧
      String.join (callSeq header chunks ys) = header ++ String.join (ys.map fun y => String.join (chunks y)) := by
  obtain ⟨j, hj⟩ := chain_written_is_prefix d chunks header k0 hr
  rw [goodPrefix_all_ok hys] at hj
  exact ⟨j, hj, join_callSeq header chunks ys⟩

/-- as long as the writer has not failed, `chainAccepted` is the text field of its state -/
theorem chainAccepted_eq_wst (h : IsFWc cfg d chunks header k0 e) (hr : Reach cfg s)
    (hw : ∀ e', s.writer ≠ .errS e') : chainAccepted d chunks header k0 s = s.wst.sink.text := by
  have hi := reach_inv hr
  unfold chainAccepted
  have fin : ∀ st, absorbAll cfg.absorb cfg.init s.arrival = .ok st → cfg.finish st = .ok s.wst →
      (fwAfter d chunks header k0 s.arrival).sink.text = s.wst.sink.text := by
    intro st hfold hfin
    rw [h.hinit] at hfold
    rw [h.hfin] at hfin
    have hst := absorbAll_fw h.habs _ _ _ hfold
    unfold FW.finish at hfin
    split at hfin
    · cases hfin
    · injection hfin with hfin; rw [← hfin, hst]; rfl
  cases hwr : s.writer with
  | errS e' => exact absurd hwr (hw e')
  | recv =>
    have := hi.oRecv hwr
    rw [h.hinit] at this
    rw [absorbAll_fw h.habs _ _ _ this]; rfl
  | doneS =>
    obtain ⟨st, hfold, hfin⟩ := hi.oFold (Or.inl hwr)
    exact fin st hfold hfin
  | exited =>
    obtain ⟨st, hfold, hfin⟩ := hi.oFold (Or.inr hwr)
    exact fin st hfold hfin

end chain

/-! ### history for the chain -/

section chainHistory
open Gofasta.Model.SchedChain Gofasta.Lemmas.SchedChain
open Gofasta.Model.Sched (RPc WPc TPc OPc Chan)
variable {γ σ : Type}

/-- the parts of the state that concern the writer goroutine and main -/
def wview (s : State γ ε σ) : OPc ε × σ × List (Nat × γ) × MPc ε := (s.writer, s.wst, s.arrival, s.main)

theorem wview_setW (s : State γ ε σ) (j w : Nat) (p : WPc γ ε) : wview (setW s j w p) = wview s := by
  unfold setW; split <;> rfl

theorem wview_putChan (s : State γ ε σ) (k : Nat) (ch : Chan (Nat × γ)) : wview (putChan s k ch) = wview s := rfl

theorem wview_sndAdvance (cfg : Cfg γ ε σ) (s : State γ ε σ) (a : Snd) : wview (sndAdvance cfg s a) = wview s := by
  cases a with
  | reader => simp only [sndAdvance]; split <;> rfl
  | worker j w => exact wview_setW s j w _

theorem rcvReady_writer {cfg : Cfg γ ε σ} {s : State γ ε σ} (h : rcvReady cfg s .writer = true) : s.writer = .recv := by
  simp only [rcvReady] at h
  split at h
  · assumption
  · cases h

/-- what one step of the chain does to the writer goroutine (and to main, when the writer moves) -/
def WFrame (cfg : Cfg γ ε σ) (s s' : State γ ε σ) : Prop :=
    (s'.writer = s.writer ∧ s'.wst = s.wst ∧ s'.arrival = s.arrival ∧
      (s'.main = s.main ∨ (∃ who e, errOf s who = some e ∧ s'.main = .ret (some e)) ∨ ∃ j, s'.main = .stage j)) ∨
    (s.writer = .recv ∧ ∃ r, s'.arrival = s.arrival ++ [r] ∧ s'.main = s.main ∧
       ((∃ st, cfg.absorb s.wst r = .ok st ∧ s'.wst = st ∧ s'.writer = .recv) ∨
        (∃ e, cfg.absorb s.wst r = .error e ∧ s'.wst = s.wst ∧ s'.writer = .errS e))) ∨
    (s.writer = .recv ∧ s'.arrival = s.arrival ∧ s'.main = s.main ∧
       ((∃ st, cfg.finish s.wst = .ok st ∧ s'.wst = st ∧ s'.writer = .doneS) ∨
        (∃ e, cfg.finish s.wst = .error e ∧ s'.wst = s.wst ∧ s'.writer = .errS e))) ∨
    (s.writer = .doneS ∧ s'.writer = .exited ∧ s'.wst = s.wst ∧ s'.arrival = s.arrival ∧ s'.main = .ret none)

theorem wframe_same {cfg : Cfg γ ε σ} {s s' : State γ ε σ} (h : wview s' = wview s) : WFrame cfg s s' := by
  simp only [wview, Prod.mk.injEq] at h
  exact Or.inl ⟨h.1, h.2.1, h.2.2.1, Or.inl h.2.2.2⟩

theorem wframe_absorb {cfg : Cfg γ ε σ} {s s0 : State γ ε σ} (r : Nat × γ) (h0 : wview s0 = wview s)
    (hw : s.writer = .recv) : WFrame cfg s (absorbInto cfg s0 r) := by
  simp only [wview, Prod.mk.injEq] at h0
  obtain ⟨h1, h2, h3, h4⟩ := h0
  unfold absorbInto
  split
  · rename_i st hab
    rw [h2] at hab
    exact Or.inr (Or.inl ⟨hw, r, by simp [h3], h4, Or.inl ⟨st, hab, rfl, by simp [h1, hw]⟩⟩)
  · rename_i e hab
    rw [h2] at hab
    exact Or.inr (Or.inl ⟨hw, r, by simp [h3], h4, Or.inr ⟨e, hab, h2, rfl⟩⟩)

theorem wframe_finish {cfg : Cfg γ ε σ} {s : State γ ε σ} (hw : s.writer = .recv) :
    WFrame cfg s (rcvEnd cfg s .writer) := by
  simp only [rcvEnd]
  split
  · rename_i st hfin
    exact Or.inr (Or.inr (Or.inl ⟨hw, rfl, rfl, Or.inl ⟨st, hfin, rfl, rfl⟩⟩))
  · rename_i e hfin
    exact Or.inr (Or.inr (Or.inl ⟨hw, rfl, rfl, Or.inr ⟨e, hfin, rfl, rfl⟩⟩))

theorem wframe_deliver {cfg : Cfg γ ε σ} {s s0 : State γ ε σ} (b : Rcv) (r : Nat × γ) (h0 : wview s0 = wview s)
    (hb : rcvReady cfg s b = true) : WFrame cfg s (rcvDeliver cfg s0 b r) := by
  cases b with
  | worker j w =>
    simp only [rcvDeliver]
    split
    · exact wframe_same ((wview_setW _ _ _ _).trans h0)
    · exact wframe_same h0
  | writer => exact wframe_absorb r h0 (rcvReady_writer hb)

theorem chain_writer_frame {cfg : Cfg γ ε σ} {s s' : State γ ε σ} {l : Label} (hs : step? cfg s l = some s') :
    WFrame cfg s s' := by
  unfold step? at hs
  split at hs
  · cases hs
  · cases l <;> simp only [] at hs
    case send a =>
      unfold stepSend at hs
      split at hs
      · split at hs
        · cases hs; exact wframe_same rfl
        · split at hs
          · cases hs; exact wframe_same ((wview_putChan _ _ _).trans (wview_sndAdvance cfg s a))
          · cases hs
      · cases hs
    case recv b =>
      unfold stepRecv at hs
      split at hs
      · rename_i ch hb hch
        split at hs
        · cases hs; exact wframe_deliver b _ (wview_putChan _ _ _) hb
        · cases hs
      · cases hs
    case hand a b =>
      unfold stepHand at hs
      split at hs
      · split at hs
        · rename_i v ch hv hb hch
          split at hs
          · cases hs
          · cases hs; exact wframe_deliver b _ (wview_sndAdvance cfg s a) hb
        · cases hs
      · cases hs
    case closed b =>
      unfold stepClosed at hs
      split at hs
      · rename_i ch hb hch
        split at hs
        · cases hs
          cases b with
          | worker j w => exact wframe_same (wview_setW _ _ _ _)
          | writer => exact wframe_finish (rcvReady_writer hb)
        · cases hs
      · cases hs
    case wait j =>
      unfold stepWait at hs
      split at hs
      · split at hs
        · cases hs; exact wframe_same rfl
        · cases hs
      · cases hs
    case mainErr who =>
      unfold stepMainErr at hs
      split at hs
      · rename_i e0 he; cases hs; exact Or.inl ⟨rfl, rfl, rfl, Or.inr (Or.inl ⟨who, e0, he, rfl⟩)⟩
      · cases hs
    case mainDone =>
      unfold stepMainDone at hs
      split at hs
      · cases hs
      · split at hs
        · unfold stepDoneWriter at hs
          split at hs
          · rename_i hw; cases hs; exact Or.inr (Or.inr (Or.inr ⟨hw, rfl, rfl, rfl, rfl⟩))
          · cases hs
        · split at hs
          · unfold stepDoneReader at hs
            split at hs
            · split at hs
              · cases hs; exact Or.inl ⟨rfl, rfl, rfl, Or.inl rfl⟩
              · cases hs; exact Or.inl ⟨rfl, rfl, rfl, Or.inr (Or.inr ⟨_, rfl⟩)⟩
            · cases hs
          · unfold stepDoneWaiter at hs
            split at hs
            · split at hs
              · cases hs; exact Or.inl ⟨rfl, rfl, rfl, Or.inl rfl⟩
              · cases hs; exact Or.inl ⟨rfl, rfl, rfl, Or.inr (Or.inr ⟨_, rfl⟩)⟩
            · cases hs

/-- a step after which main has returned an error took it from a goroutine sitting at `cErr <- err` -/
theorem chain_main_err_frame {cfg : Cfg γ ε σ} {s s' : State γ ε σ} {l : Label} {e : ε}
    (hs : step? cfg s l = some s') (hm : s'.main = .ret (some e)) : ∃ who, errOf s who = some e := by
  have hne : ∀ r, s.main ≠ .ret r := by
    unfold step? at hs
    split at hs
    · cases hs
    · rename_i hnf
      intro r hr
      simp [State.final, hr, MPc.isRet] at hnf
  rcases chain_writer_frame hs with ⟨_, _, _, h | ⟨who, e0, he, h⟩ | ⟨j, h⟩⟩ | ⟨_, r, _, h, _⟩ | ⟨_, _, h, _⟩ |
    ⟨_, _, _, _, h⟩
  · exact absurd (h.symm.trans hm) (hne _)
  · rw [hm] at h
    simp only [MPc.ret.injEq, Option.some.injEq] at h
    subst h; exact ⟨who, he⟩
  · rw [hm] at h; cases h
  · exact absurd (h.symm.trans hm) (hne _)
  · exact absurd (h.symm.trans hm) (hne _)
  · rw [hm] at h; cases h

/-- how the chain's writer came to sit at `cErr <- err`, and whose error main has returned -/
structure ChainHist (cfg : Cfg γ ε σ) (s : State γ ε σ) : Prop where
  wErr : ∀ e, s.writer = .errS e →
    (∃ l r, s.arrival = l ++ [r] ∧ absorbAll cfg.absorb cfg.init l = .ok s.wst ∧ cfg.absorb s.wst r = .error e) ∨
    (absorbAll cfg.absorb cfg.init s.arrival = .ok s.wst ∧ cfg.finish s.wst = .error e)
  mErr : ∀ e, s.main = .ret (some e) →
    (∃ k, cfg.readFail = some (k, e)) ∨ (∃ x ∈ cfg.items, pass cfg.pools x = .error e) ∨ s.writer = .errS e

theorem chain_hist_step {cfg : Cfg γ ε σ} {s s' : State γ ε σ} {l : Label} (hi : Inv cfg s) (hh : ChainHist cfg s)
    (hs : step? cfg s l = some s') : ChainHist cfg s' := by
  constructor
  · intro e he
    rcases chain_writer_frame hs with ⟨h1, h2, h3, _⟩ | ⟨hw, r, ha, _, h⟩ | ⟨hw, ha, _, h⟩ | ⟨_, h, _⟩
    · rw [h1] at he; rw [h2, h3]; exact hh.wErr e he
    · rcases h with ⟨st, _, _, h⟩ | ⟨e', hab, hst, h⟩
      · rw [h] at he; cases he
      · rw [h] at he; cases he
        exact Or.inl ⟨s.arrival, r, ha, by rw [hst]; exact hi.oRecv hw, by rw [hst]; exact hab⟩
    · rcases h with ⟨st, _, _, h⟩ | ⟨e', hfin, hst, h⟩
      · rw [h] at he; cases he
      · rw [h] at he; cases he
        exact Or.inr ⟨by rw [ha, hst]; exact hi.oRecv hw, by rw [hst]; exact hfin⟩
    · rw [h] at he; cases he
  · intro e he
    obtain ⟨who, hwho⟩ := chain_main_err_frame hs he
    cases who with
    | reader =>
      simp only [errOf] at hwho
      split at hwho
      · rename_i e' hrd; cases hwho; exact Or.inl (hi.rinv.rErr _ hrd)
      · cases hwho
    | worker j w =>
      simp only [errOf, getW] at hwho
      split at hwho
      · rename_i i e' hg
        cases hwho
        split at hg
        · rename_i ws hw
          obtain ⟨x, hx, hp⟩ := hi.wOk j _ (by rw [wsAt_of hw]; exact List.mem_of_getElem? hg)
          exact Or.inr (Or.inl ⟨x, List.mem_of_getElem? hx, pass_error_extends hp⟩)
        · cases hg
      · cases hwho
    | writer =>
      simp only [errOf] at hwho
      split at hwho
      · rename_i e' hwr
        cases hwho
        rcases chain_writer_frame hs with ⟨h1, _⟩ | ⟨hw, _⟩ | ⟨hw, _⟩ | ⟨hw, _⟩
        · exact Or.inr (Or.inr (by rw [h1]; exact hwr))
        · rw [hw] at hwr; cases hwr
        · rw [hw] at hwr; cases hwr
        · rw [hw] at hwr; cases hwr
      · cases hwho

theorem chain_reach_hist {cfg : Cfg γ ε σ} {s : State γ ε σ} (hr : Reach cfg s) : ChainHist cfg s := by
  induction hr with
  | init => exact ⟨fun e h => by simp [init] at h, fun e h => by simp [init] at h⟩
  | step l hr hs ih => exact chain_hist_step (reach_inv hr) ih hs

end chainHistory

section chainNoFault
open Gofasta.Model.SchedChain Gofasta.Lemmas.SchedChain
variable {γ : Type} {cfg : Cfg γ ε (FW γ)} {s : State γ ε (FW γ)} {d : Dest} {chunks : γ → List String}
  {header : String} {k0 : Nat} {e : ε}

theorem chainAccepted_failing (h : IsFWc cfg d chunks header k0 e) (hr : Reach cfg s) {e' : ε}
    (hw : s.writer = .errS e') :
    (∃ l r, s.arrival = l ++ [r] ∧ chainAccepted d chunks header k0 s = (FW.step d chunks k0 s.wst r).sink.text ∧
      (FW.step d chunks k0 s.wst r).sink.failed = true) ∨
    (chainAccepted d chunks header k0 s = s.wst.sink.text ∧ s.wst.sink.failed = true) := by
  rcases fw_failing_pure h.habs h.hfin h.hinit ((chain_reach_hist hr).wErr e' hw) with ⟨l, r, h1, h2, h3⟩ | ⟨h1, h2⟩
  · exact Or.inl ⟨l, r, h1, by unfold chainAccepted; rw [h2], h3⟩
  · exact Or.inr ⟨by unfold chainAccepted; rw [h1], h2⟩

theorem chain_no_write_error (h : IsFWc cfg d chunks header k0 e) (hr : Reach cfg s)
    (hd : ∀ i, 1 ≤ i → i ≤ nCalls chunks (goodPrefix (pass cfg.pools) cfg.items) → d.fails i = false) (e' : ε) :
    s.writer ≠ .errS e' := by
  intro hw
  have hi := reach_inv hr
  exact fw_no_error_pure h.habs h.hfin h.hinit (chain_arrival_nodup hi) (chain_arrival_good hi) hd
    ((chain_reach_hist hr).wErr e' hw)

/-- **(2) for the chain, the other half**: nothing upstream fails and no call of the run fails: no schedule returns
an error -/
theorem chain_fault_beyond_run_no_error (h : IsFWc cfg d chunks header k0 e) (hrf : cfg.readFail = none)
    {ys : List γ} (hys : cfg.items.map (pass cfg.pools) = ys.map Except.ok)
    (hd : ∀ i, 1 ≤ i → i ≤ nCalls chunks ys → d.fails i = false)
    (hr : Reach cfg s) (e' : ε) : s.main ≠ .ret (some e') := by
  intro hm
  rcases (chain_reach_hist hr).mErr e' hm with ⟨k, hk⟩ | ⟨x, hx, hf⟩ | hw
  · rw [hrf] at hk; cases hk
  · obtain ⟨y, hy⟩ := all_ok_of_map hys x hx
    rw [hy] at hf; cases hf
  · exact chain_no_write_error h hr (by rw [goodPrefix_all_ok hys]; exact hd) e' hw

/-- **(2) for the chain, whole runs** -/
theorem chain_fault_beyond_run_maximal (h : IsFWc cfg d chunks header k0 e) (hN : ∀ P ∈ cfg.pools, 1 ≤ P.N)
    (hrf : cfg.readFail = none) {ys : List γ} (hys : cfg.items.map (pass cfg.pools) = ys.map Except.ok)
    (hd : ∀ i, 1 ≤ i → i ≤ nCalls chunks ys → d.fails i = false)
    (hr : Reach cfg s) (hstuck : enabled cfg s = []) :
    s.main = .ret none ∧ s.wst.sink.text = header ++ String.join (ys.map fun y => String.join (chunks y)) := by
  obtain ⟨r, hm⟩ := chain_maximal_run_returned hN hr hstuck
  cases r with
  | some e' => exact absurd hm (chain_fault_beyond_run_no_error h hrf hys hd hr e')
  | none =>
    obtain ⟨ys', hys', htext, _⟩ := chain_fault_beyond_run_harmless h hN hr hm
    have : ys' = ys := by
      have := hys'.symm.trans hys
      exact (List.map_inj_right (fun a b hab => Except.ok.inj hab)).mp this
    rw [← this]
    exact ⟨hm, htext⟩

/-- **(1) for the chain, which error** -/
theorem chain_fault_maximal_run_write_error (h : IsFWc cfg d chunks header k0 e) (hN : ∀ P ∈ cfg.pools, 1 ≤ P.N)
    (hrf : cfg.readFail = none) {ys : List γ} (hys : cfg.items.map (pass cfg.pools) = ys.map Except.ok) (k : Nat)
    (hd : d = .failFrom k ∨ d = .failOnce k) (hk1 : 1 ≤ k) (hkW : k ≤ nCalls chunks ys)
    (hr : Reach cfg s) (hstuck : enabled cfg s = []) : s.main = .ret (some e) := by
  have hkW' : ∀ ys', cfg.items.map (pass cfg.pools) = ys'.map Except.ok → k ≤ nCalls chunks ys' := by
    intro ys' hys'
    have : ys' = ys := (List.map_inj_right (fun a b hab => Except.ok.inj hab)).mp (hys'.symm.trans hys)
    rw [this]; exact hkW
  obtain ⟨e', hm, _⟩ := chain_fault_maximal_run h hN k hd hk1 hkW' hr hstuck
  rcases (chain_reach_hist hr).mErr e' hm with ⟨j, hj⟩ | ⟨x, hx, hf⟩ | hw
  · rw [hrf] at hj; cases hj
  · obtain ⟨y, hy⟩ := all_ok_of_map hys x hx
    rw [hy] at hf; cases hf
  · have : e' = e := by
      rcases (chain_reach_hist hr).wErr e' hw with ⟨_, r, _, _, hab⟩ | ⟨_, hfin⟩
      · exact fw_error_is_e h.habs h.hfin (Or.inl ⟨r, hab⟩)
      · exact fw_error_is_e h.habs h.hfin (Or.inr hfin)
    rw [hm, this]

end chainNoFault

/-! ### F. `gofasta sam variants`: two worker pools, the writer of `variants` -/

section samVariants
open Gofasta.Model.SchedChain Gofasta.Lemmas.SchedChain Gofasta.Driver Gofasta.Lemmas.SamVarPipeline Gofasta.Base

def svChunks (vi : VarIn) (refID : String) : SV → List String
  | .vars n vs => varChunks vi refID (n, vs)
  | _ => []

theorem join_svChunks (vi : VarIn) (refID : String) (y : SV) :
    String.join (svChunks vi refID y) = svRender vi refID y := by
  cases y with
  | vars n vs => exact join_varChunks vi refID (n, vs)
  | block b => rfl
  | pair n p => rfl

def samVarFCfg (d : Dest) (vi : VarIn) (refID : String) (refRaw : List Nat) (blocks : List (List SamRec))
    (pairOf : List SamRec → List Nat → List Nat × List Nat)
    (caller : List Nat → List Nat → List Region → List Nat → List Variant)
    (regions : List Region) (inter : List Nat) (N1 N2 cap0 cap1 cap2 : Nat) (rf : Option (Nat × RunErr)) :
    Cfg SV RunErr (FW SV) where
  items := blocks.map .block
  pools := [⟨N1, liftW (svPair pairOf (refRaw.map upper)), cap1⟩, ⟨N2, liftW (svCall caller regions inter), cap2⟩]
  cap0 := cap0
  readFail := rf
  absorb := FW.absorb d (svChunks vi refID) 0 .write
  finish := FW.finish .write
  init := FW.start d "query,mutations\n" 0

theorem samVarF_isFW (d : Dest) (vi : VarIn) (refID : String) (refRaw : List Nat) (blocks : List (List SamRec))
    (pairOf : List SamRec → List Nat → List Nat × List Nat)
    (caller : List Nat → List Nat → List Region → List Nat → List Variant)
    (regions : List Region) (inter : List Nat) (N1 N2 cap0 cap1 cap2 : Nat) (rf : Option (Nat × RunErr)) :
    IsFWc (samVarFCfg d vi refID refRaw blocks pairOf caller regions inter N1 N2 cap0 cap1 cap2 rf) d
      (svChunks vi refID) "query,mutations\n" 0 .write :=
  ⟨fun _ _ => rfl, fun _ => rfl, rfl⟩

theorem samVarF_pools_pos {d : Dest} {vi : VarIn} {refID : String} {refRaw : List Nat} {blocks : List (List SamRec)}
    {pairOf : List SamRec → List Nat → List Nat × List Nat}
    {caller : List Nat → List Nat → List Region → List Nat → List Variant}
    {regions : List Region} {inter : List Nat} {N1 N2 cap0 cap1 cap2 : Nat} {rf : Option (Nat × RunErr)}
    (hN1 : 1 ≤ N1) (hN2 : 1 ≤ N2) :
    ∀ P ∈ (samVarFCfg d vi refID refRaw blocks pairOf caller regions inter N1 N2 cap0 cap1 cap2 rf).pools, 1 ≤ P.N := by
  intro P hP
  simp only [samVarFCfg, List.mem_cons, List.not_mem_nil, or_false] at hP
  rcases hP with rfl | rfl
  · exact hN1
  · exact hN2

/-- every block goes through both pools -/
theorem samVarF_items_pass (d : Dest) (vi : VarIn) (refID : String) (refRaw : List Nat) (blocks : List (List SamRec))
    (pairOf : List SamRec → List Nat → List Nat × List Nat)
    (caller : List Nat → List Nat → List Region → List Nat → List Variant)
    (regions : List Region) (inter : List Nat) (N1 N2 cap0 cap1 cap2 : Nat) (rf : Option (Nat × RunErr)) :
    (samVarFCfg d vi refID refRaw blocks pairOf caller regions inter N1 N2 cap0 cap1 cap2 rf).items.map
      (pass (samVarFCfg d vi refID refRaw blocks pairOf caller regions inter N1 N2 cap0 cap1 cap2 rf).pools) =
    (blocks.map (svBoth refRaw pairOf caller regions inter)).map Except.ok := by
  simp only [samVarFCfg, List.map_map]
  rfl

/-- W for sam variants: the header and two calls for every query not named like the reference -/
def samVarW (refID : String) (blocks : List (List SamRec)) : Nat :=
  1 + 2 * (blocks.filter fun b => qnameOf b != refID).length

theorem samVarF_nCalls (vi : VarIn) (refID : String) (refRaw : List Nat) (blocks : List (List SamRec))
    (pairOf : List SamRec → List Nat → List Nat × List Nat)
    (caller : List Nat → List Nat → List Region → List Nat → List Variant)
    (regions : List Region) (inter : List Nat) :
    nCalls (svChunks vi refID) (blocks.map (svBoth refRaw pairOf caller regions inter)) = samVarW refID blocks := by
  have : (blocks.map (svBoth refRaw pairOf caller regions inter)).flatMap (svChunks vi refID) =
      (blocks.map fun b => (qnameOf b,
        caller (pairOf b (refRaw.map upper)).1 (pairOf b (refRaw.map upper)).2 regions inter)).flatMap
        (varChunks vi refID) := by
    induction blocks with
    | nil => rfl
    | cons b t ih => simp only [List.map_cons, List.flatMap_cons, ih]; rfl
  rw [nCalls, this, varChunks_count, samVarW, List.filter_map, List.length_map]
  rfl

/-- **F (1)**: any numbers of workers in the two pools, any capacities: the destination fails at call k,
1 ≤ k ≤ W: no schedule returns nil -/
theorem sam_variants_fault_reported (d : Dest) (vi : VarIn) (refID : String) (refRaw : List Nat)
    (blocks : List (List SamRec)) (pairOf : List SamRec → List Nat → List Nat × List Nat)
    (caller : List Nat → List Nat → List Region → List Nat → List Variant)
    (regions : List Region) (inter : List Nat) (N1 N2 cap0 cap1 cap2 : Nat) (rf : Option (Nat × RunErr))
    (hN1 : 1 ≤ N1) (hN2 : 1 ≤ N2) (k : Nat) (hd : d = .failFrom k ∨ d = .failOnce k) (hk1 : 1 ≤ k)
    (hkW : k ≤ samVarW refID blocks) {s : State _ _ _}
    (hr : Reach (samVarFCfg d vi refID refRaw blocks pairOf caller regions inter N1 N2 cap0 cap1 cap2 rf) s) :
    s.main ≠ .ret none := by
  apply chain_fault_reported
    (samVarF_isFW d vi refID refRaw blocks pairOf caller regions inter N1 N2 cap0 cap1 cap2 rf)
    (samVarF_pools_pos hN1 hN2) k hd hk1 _ hr
  intro ys hys
  rw [samVarF_items_pass] at hys
  have hys' : ys = blocks.map (svBoth refRaw pairOf caller regions inter) :=
    ((List.map_inj_right (fun a b h => Except.ok.inj h)).mp hys).symm
  rw [hys', samVarF_nCalls]
  exact hkW

/-- **F (1), whole runs** -/
theorem sam_variants_fault_maximal_run (d : Dest) (vi : VarIn) (refID : String) (refRaw : List Nat)
    (blocks : List (List SamRec)) (pairOf : List SamRec → List Nat → List Nat × List Nat)
    (caller : List Nat → List Nat → List Region → List Nat → List Variant)
    (regions : List Region) (inter : List Nat) (N1 N2 cap0 cap1 cap2 : Nat) (rf : Option (Nat × RunErr))
    (hN1 : 1 ≤ N1) (hN2 : 1 ≤ N2) (k : Nat) (hd : d = .failFrom k ∨ d = .failOnce k) (hk1 : 1 ≤ k)
    (hkW : k ≤ samVarW refID blocks) {s : State _ _ _}
    (hr : Reach (samVarFCfg d vi refID refRaw blocks pairOf caller regions inter N1 N2 cap0 cap1 cap2 rf) s)
    (hstuck : enabled (samVarFCfg d vi refID refRaw blocks pairOf caller regions inter N1 N2 cap0 cap1 cap2 rf) s = []) :
    ∃ e', s.main = .ret (some e') := by
  obtain ⟨r, hm⟩ := chain_maximal_run_returned (samVarF_pools_pos hN1 hN2) hr hstuck
  cases r with
  | none =>
    have := sam_variants_fault_reported d vi refID refRaw blocks pairOf caller regions inter N1 N2 cap0 cap1 cap2 rf
      hN1 hN2 k hd hk1 hkW hr
    exact absurd hm this
  | some e' => exact ⟨e', hm⟩

theorem samVar_text_eq (vi : VarIn) (refID : String) (refRaw : List Nat) (blocks : List (List SamRec))
    (pairOf : List SamRec → List Nat → List Nat × List Nat)
    (caller : List Nat → List Nat → List Region → List Nat → List Variant)
    (regions : List Region) (inter : List Nat) (hregs : samRegions vi refRaw = some (regions, inter))
    (hagg : vi.agg = false) :
    "query,mutations\n" ++ String.join ((blocks.map (svBoth refRaw pairOf caller regions inter)).map
      fun y => String.join (svChunks vi refID y)) = samVarOn vi refID refRaw blocks pairOf caller := by
  simp only [join_svChunks]
  unfold samVarOn
  rw [hregs]
  simp only [hagg, Bool.false_eq_true, if_false]
  unfold variantsOutput
  rw [join_filter_map, List.map_map, List.map_map]
  rfl

/-- **F (2)**: whatever the destination, whenever the driver returns nil the text accepted is
`samVarOn vi refID refRaw blocks pairOf caller` -/
theorem sam_variants_fault_beyond_run_harmless (d : Dest) (vi : VarIn) (refID : String) (refRaw : List Nat)
    (blocks : List (List SamRec)) (pairOf : List SamRec → List Nat → List Nat × List Nat)
    (caller : List Nat → List Nat → List Region → List Nat → List Variant)
    (regions : List Region) (inter : List Nat) (hregs : samRegions vi refRaw = some (regions, inter))
    (hagg : vi.agg = false) (N1 N2 cap0 cap1 cap2 : Nat) (rf : Option (Nat × RunErr))
    (hN1 : 1 ≤ N1) (hN2 : 1 ≤ N2) {s : State _ _ _}
    (hr : Reach (samVarFCfg d vi refID refRaw blocks pairOf caller regions inter N1 N2 cap0 cap1 cap2 rf) s)
    (hm : s.main = .ret none) :
    s.wst.sink.text = samVarOn vi refID refRaw blocks pairOf caller ∧ s.wst.sink.calls = samVarW refID blocks ∧
      ∀ i, 1 ≤ i → i ≤ samVarW refID blocks → d.fails i = false := by
  obtain ⟨ys, hys, htext, _, hcalls, hok⟩ := chain_fault_beyond_run_harmless
    (samVarF_isFW d vi refID refRaw blocks pairOf caller regions inter N1 N2 cap0 cap1 cap2 rf)
    (samVarF_pools_pos hN1 hN2) hr hm
  rw [samVarF_items_pass] at hys
  have hys' : ys = blocks.map (svBoth refRaw pairOf caller regions inter) :=
    ((List.map_inj_right (fun a b h => Except.ok.inj h)).mp hys).symm
  rw [hys', samVarF_nCalls] at hcalls hok
  refine ⟨?_, hcalls, hok⟩
  rw [htext, hys']
  exact samVar_text_eq vi refID refRaw blocks pairOf caller regions inter hregs hagg

/-- **F (2), whole runs**: a reader that does not fail, no call among the W of the run fails: every run that cannot
be extended has returned nil with the sequential text accepted -/
theorem sam_variants_fault_beyond_run_maximal (d : Dest) (vi : VarIn) (refID : String) (refRaw : List Nat)
    (blocks : List (List SamRec)) (pairOf : List SamRec → List Nat → List Nat × List Nat)
    (caller : List Nat → List Nat → List Region → List Nat → List Variant)
    (regions : List Region) (inter : List Nat) (hregs : samRegions vi refRaw = some (regions, inter))
    (hagg : vi.agg = false) (N1 N2 cap0 cap1 cap2 : Nat) (hN1 : 1 ≤ N1) (hN2 : 1 ≤ N2)
    (hd : ∀ i, 1 ≤ i → i ≤ samVarW refID blocks → d.fails i = false) {s : State _ _ _}
    (hr : Reach (samVarFCfg d vi refID refRaw blocks pairOf caller regions inter N1 N2 cap0 cap1 cap2 none) s)
    (hstuck : enabled (samVarFCfg d vi refID refRaw blocks pairOf caller regions inter N1 N2 cap0 cap1 cap2 none) s = []) :
    s.main = .ret none ∧ s.wst.sink.text = samVarOn vi refID refRaw blocks pairOf caller := by
  have hys := samVarF_items_pass d vi refID refRaw blocks pairOf caller regions inter N1 N2 cap0 cap1 cap2 none
  have hm := (chain_fault_beyond_run_maximal
    (samVarF_isFW d vi refID refRaw blocks pairOf caller regions inter N1 N2 cap0 cap1 cap2 none)
    (samVarF_pools_pos hN1 hN2) rfl hys (by rw [samVarF_nCalls]; exact hd) hr hstuck).1
  exact ⟨hm, (sam_variants_fault_beyond_run_harmless d vi refID refRaw blocks pairOf caller regions inter hregs hagg
    N1 N2 cap0 cap1 cap2 none hN1 hN2 hr hm).1⟩

/-- **F (3)**: in every reachable state of the two-pool chain the text accepted is the call sequence of the
sequential text cut at a call boundary -/
theorem sam_variants_written_is_prefix (d : Dest) (vi : VarIn) (refID : String) (refRaw : List Nat)
    (blocks : List (List SamRec)) (pairOf : List SamRec → List Nat → List Nat × List Nat)
    (caller : List Nat → List Nat → List Region → List Nat → List Variant)
    (regions : List Region) (inter : List Nat) (hregs : samRegions vi refRaw = some (regions, inter))
    (hagg : vi.agg = false) (N1 N2 cap0 cap1 cap2 : Nat) (rf : Option (Nat × RunErr)) {s : State _ _ _}
    (hr : Reach (samVarFCfg d vi refID refRaw blocks pairOf caller regions inter N1 N2 cap0 cap1 cap2 rf) s) :
    ∃ j, chainAccepted d (svChunks vi refID) "query,mutations\n" 0 s =
        String.join ((callSeq "query,mutations\n" (svChunks vi refID)
          (blocks.map (svBoth refRaw pairOf caller regions inter))).take j) ∧
      String.join (callSeq "query,mutations\n" (svChunks vi refID)
          (blocks.map (svBoth refRaw pairOf caller regions inter))) = samVarOn vi refID refRaw blocks pairOf caller := by
  have hys := samVarF_items_pass d vi refID refRaw blocks pairOf caller regions inter N1 N2 cap0 cap1 cap2 rf
  obtain ⟨j, hj, hall⟩ := chain_written_is_prefix_ok d (svChunks vi refID) "query,mutations\n" 0 hys hr
  refine ⟨j, hj, ?_⟩
  rw [hall]
  exact samVar_text_eq vi refID refRaw blocks pairOf caller regions inter hregs hagg

/-- **F (1), which error**: a reader that does not fail: every run of the two-pool chain that cannot be extended has
returned the write error -/
theorem sam_variants_fault_maximal_run_write_error (d : Dest) (vi : VarIn) (refID : String) (refRaw : List Nat)
    (blocks : List (List SamRec)) (pairOf : List SamRec → List Nat → List Nat × List Nat)
    (caller : List Nat → List Nat → List Region → List Nat → List Variant)
    (regions : List Region) (inter : List Nat) (N1 N2 cap0 cap1 cap2 : Nat)
    (hN1 : 1 ≤ N1) (hN2 : 1 ≤ N2) (k : Nat) (hd : d = .failFrom k ∨ d = .failOnce k) (hk1 : 1 ≤ k)
    (hkW : k ≤ samVarW refID blocks) {s : State _ _ _}
    (hr : Reach (samVarFCfg d vi refID refRaw blocks pairOf caller regions inter N1 N2 cap0 cap1 cap2 none) s)
    (hstuck : enabled (samVarFCfg d vi refID refRaw blocks pairOf caller regions inter N1 N2 cap0 cap1 cap2 none) s = []) :
    s.main = .ret (some .write) := by
  have hys := samVarF_items_pass d vi refID refRaw blocks pairOf caller regions inter N1 N2 cap0 cap1 cap2 none
  exact chain_fault_maximal_run_write_error
    (samVarF_isFW d vi refID refRaw blocks pairOf caller regions inter N1 N2 cap0 cap1 cap2 none)
    (samVarF_pools_pos hN1 hN2) rfl hys k hd hk1 (by rw [samVarF_nCalls]; exact hkW) hr hstuck

end samVariants

/-! ## 4. the UNCHECKED variant: one call site of the loop body drops its error -/

namespace Unchecked
open Gofasta.Model.Sched

/-- a write call at a site that checks its error (`chk = true`: as `Sink.put`) or drops it (`chk = false`:
`w.Write(c)` with the result ignored - the call is made, fails, nothing reaches the destination, the writer goes on) -/
def putC (d : Dest) (chk : Bool) (s : Sink) (c : String) : Sink :=
  if s.failed then s
  else if d.fails (s.calls + 1) then ⟨s.text, s.calls + 1, chk⟩
  else ⟨s.text ++ c, s.calls + 1, false⟩

/-- the chunks of one record, written at the call sites j, j+1, ... of the loop body; `sites j`: site j checks -/
def putSites (d : Dest) (sites : Nat → Bool) : Nat → Sink → List String → Sink
  | _, s, [] => s
  | j, s, c :: cs => putSites d sites (j + 1) (putC d (sites j) s c) cs

/-- the loop body with the call sites 1, 2, ... (site 0, the header write, is checked) -/
def stepU (d : Dest) (chunks : β → List String) (sites : Nat → Bool) (k : Nat) (st : FW β) (r : Nat × β) : FW β :=
  let ro' := Reorder.recv st.ro (shiftIdx k r)
  ⟨ro', (ro'.out.drop st.ro.out.length).foldl (fun s y => putSites d sites 1 s (chunks y)) st.sink⟩

def absorbU (d : Dest) (chunks : β → List String) (sites : Nat → Bool) (k : Nat) (e : ε) (st : FW β) (r : Nat × β) :
    Except ε (FW β) :=
  if (stepU d chunks sites k st r).sink.failed then .error e else .ok (stepU d chunks sites k st r)

theorem putC_true (d : Dest) (s : Sink) (c : String) : putC d true s c = Sink.put d s c := rfl

theorem putSites_checked (d : Dest) : ∀ (cs : List String) (j : Nat) (s : Sink),
    putSites d (fun _ => true) j s cs = Sink.putAll d s cs := by
  intro cs
  induction cs with
  | nil => intro j s; rfl
  | cons c t ih => intro j s; simp only [putSites, ih, putC_true]; rfl

theorem foldl_putAll (d : Dest) (chunks : β → List String) : ∀ (ys : List β) (s : Sink),
    ys.foldl (fun s y => Sink.putAll d s (chunks y)) s = Sink.putAll d s (ys.flatMap chunks) := by
  intro ys
  induction ys with
  | nil => intro s; rfl
  | cons y t ih => intro s; simp only [List.foldl_cons, List.flatMap_cons, ih, Sink.putAll_append]

/-- with every site checked this is the writer of the theorems above -/
theorem absorbU_checked (d : Dest) (chunks : β → List String) (k : Nat) (e : ε) (st : FW β) (r : Nat × β) :
    absorbU d chunks (fun _ => true) k e st r = FW.absorb d chunks k e st r := by
  have : stepU d chunks (fun _ => true) k st r = FW.step d chunks k st r := by
    simp only [stepU, FW.step, putSites_checked, foldl_putAll]
  simp only [absorbU, FW.absorb, this]

/-- header "h\n"; per record two calls: the name with a comma, then the rest of the line -/
def demoChunks (y : String) : List String := [y ++ ",", "x\n"]

/-- two workers, cIn of capacity 1, cOut of capacity 2; `sites`: which sites of the loop body check -/
def demo (d : Dest) (sites : Nat → Bool) (items : List String) : Cfg String String RunErr (FW String) where
  items := items
  f := .ok
  N := 2
  capIn := 1
  capOut := 2
  readFail := none
  absorb := absorbU d demoChunks sites 0 .write
  finish := FW.finish .write
  init := FW.start d "h\n" 0

/-- the second write of the loop body (site 2) does not check -/
def site2Unchecked (j : Nat) : Bool := j != 2

def sched : List Nat := List.replicate 40 0

/-- **(4) the C19 violation**, mirroring `Props.C19.unchecked_loses` (`reportsFailure [true, true, false] 3 = false`):
header and one record = three calls, the third at the unchecked site; the destination fails from call 3 on.
Main returns nil, three calls were made, the third failed, the line is incomplete -/
theorem unchecked_loses :
    (runSchedule (demo (.failFrom 3) site2Unchecked ["a"]) sched).main = .ret none ∧
    (runSchedule (demo (.failFrom 3) site2Unchecked ["a"]) sched).wst.sink.calls = 3 ∧
    (Dest.failFrom 3).fails 3 = true ∧
    (runSchedule (demo (.failFrom 3) site2Unchecked ["a"]) sched).wst.sink.text = "h\na," ∧
    (runSchedule (demo .ok site2Unchecked ["a"]) sched).wst.sink.text = "h\na,x\n" := by
  decide

/-- the same with two records and a transient fault at call 3: the rest of the output is written, a line in the
middle has lost its second half, main returns nil -/
theorem unchecked_loses_middle :
    (runSchedule (demo (.failOnce 3) site2Unchecked ["a", "b"]) sched).main = .ret none ∧
    (runSchedule (demo (.failOnce 3) site2Unchecked ["a", "b"]) sched).wst.sink.calls = 5 ∧
    (runSchedule (demo (.failOnce 3) site2Unchecked ["a", "b"]) sched).wst.sink.text = "h\na,b,x\n" := by
  decide

/-- with every site checked the same schedules return the write error (and by `fault_reported` so does every
schedule) -/
theorem checked_reports :
    (runSchedule (demo (.failFrom 3) (fun _ => true) ["a"]) sched).main = .ret (some .write) ∧
    (runSchedule (demo (.failOnce 3) (fun _ => true) ["a", "b"]) sched).main = .ret (some .write) := by
  decide

theorem demo_checked_isFW (d : Dest) (items : List String) :
    IsFW (demo d (fun _ => true) items) d demoChunks "h\n" 0 .write :=
  ⟨fun st r => absorbU_checked d demoChunks 0 RunErr.write st r, fun _ => rfl, rfl⟩

/-- the general theorem on the checked demo: NO schedule returns nil -/
example (sch : List Nat) : (runSchedule (demo (.failFrom 3) (fun _ => true) ["a"]) sch).main ≠ .ret none :=
  fault_reported_uniform (demo_checked_isFW _ _) (by decide) 2 (fun _ => rfl) 3 (Or.inl rfl) (by decide) (by decide)
    (Gofasta.Lemmas.Sched.runSchedule_reach _ sch)

end Unchecked

/-! ## the statements are not vacuous: concrete inputs, two schedules each -/

namespace Examples
open Gofasta.Lemmas.SchedCommands.Examples Gofasta.Driver Gofasta.Lemmas.SamVarPipeline Gofasta.Base

/-! ### A. snps: reference ACGT, rows ACGA, TCNT, ACGA; two workers; W = 4 -/

def snpsFEx (d : Dest) := snpsFCfg d false exRef exRecs 2 1 2 none

/-- a fault at a middle call (the 3rd of 4: the line of q2), permanent: two schedules with different arrival orders,
both return the write error, both have the header and the line of q1 accepted -/
example :
    (Model.Sched.runSchedule (snpsFEx (.failFrom 3)) sched1).arrival.map (·.1) = [0, 1] ∧
    (Model.Sched.runSchedule (snpsFEx (.failFrom 3)) sched2).arrival.map (·.1) = [1, 0] ∧
    (Model.Sched.runSchedule (snpsFEx (.failFrom 3)) sched1).main = .ret (some .write) ∧
    (Model.Sched.runSchedule (snpsFEx (.failFrom 3)) sched2).main = .ret (some .write) ∧
    accepted (.failFrom 3) snpsChunks "query,SNPs\n" 0 (Model.Sched.runSchedule (snpsFEx (.failFrom 3)) sched1) =
      "query,SNPs\nq1,T4A\n" ∧
    accepted (.failFrom 3) snpsChunks "query,SNPs\n" 0 (Model.Sched.runSchedule (snpsFEx (.failFrom 3)) sched2) =
      "query,SNPs\nq1,T4A\n" := by
  decide

/-- the same fault, transient -/
example :
    (Model.Sched.runSchedule (snpsFEx (.failOnce 3)) sched1).main = .ret (some .write) ∧
    (Model.Sched.runSchedule (snpsFEx (.failOnce 3)) sched2).main = .ret (some .write) := by
  decide

/-- the header write fails: reported at the first record (or at `finish`) -/
example :
    (Model.Sched.runSchedule (snpsFEx (.failFrom 1)) sched1).main = .ret (some .write) ∧
    (Model.Sched.runSchedule (snpsFEx (.failFrom 1)) sched2).main = .ret (some .write) ∧
    accepted (.failFrom 1) snpsChunks "query,SNPs\n" 0 (Model.Sched.runSchedule (snpsFEx (.failFrom 1)) sched1) = "" ∧
    (Model.Sched.runSchedule (snpsFCfg (.failOnce 1) false exRef [] 2 1 2 none) sched1).main = .ret (some .write) := by
  decide

/-- the last call fails -/
example :
    (Model.Sched.runSchedule (snpsFEx (.failOnce 4)) sched1).main = .ret (some .write) ∧
    (Model.Sched.runSchedule (snpsFEx (.failOnce 4)) sched2).main = .ret (some .write) ∧
    accepted (.failOnce 4) snpsChunks "query,SNPs\n" 0 (Model.Sched.runSchedule (snpsFEx (.failOnce 4)) sched2) =
      "query,SNPs\nq1,T4A\nq2,A1T\n" := by
  decide

/-- a fault beyond the run (k = 5 > W = 4), and no fault: nil and the model's text on both schedules -/
example :
    (Model.Sched.runSchedule (snpsFEx (.failFrom 5)) sched1).main = .ret none ∧
    (Model.Sched.runSchedule (snpsFEx (.failFrom 5)) sched2).main = .ret none ∧
    (Model.Sched.runSchedule (snpsFEx .ok) sched2).main = .ret none ∧
    (Model.Sched.runSchedule (snpsFEx (.failFrom 5)) sched1).wst.sink.text = snpsOutput false exRef exRecs ∧
    (Model.Sched.runSchedule (snpsFEx (.failFrom 5)) sched2).wst.sink.text = snpsOutput false exRef exRecs ∧
    (Model.Sched.runSchedule (snpsFEx .ok) sched2).wst.sink.text = snpsOutput false exRef exRecs ∧
    (Model.Sched.runSchedule (snpsFEx .ok) sched2).wst.sink.calls = 4 := by
  decide

/-- and the general theorems say so about every schedule -/
example (sched : List Nat) : (Model.Sched.runSchedule (snpsFEx (.failFrom 3)) sched).main ≠ .ret none :=
  snps_fault_reported (.failFrom 3) false exRef exRecs 2 1 2 none (by decide) 3 (Or.inl rfl) (by decide) (by decide)
    (Lemmas.Sched.runSchedule_reach _ sched)

example (sched : List Nat) (h : (Model.Sched.runSchedule (snpsFEx (.failFrom 5)) sched).main = .ret none) :
    (Model.Sched.runSchedule (snpsFEx (.failFrom 5)) sched).wst.sink.text = "query,SNPs\nq1,T4A\nq2,A1T\nq3,T4A\n" :=
  (snps_fault_beyond_run_harmless (.failFrom 5) false exRef exRecs 2 1 2 none (by decide)
    (Lemmas.Sched.runSchedule_reach _ sched) h).1.trans (by decide)

/-! ### E. variants (two calls per record): the alignment of SchedCommands.Examples, reference from standard input;
W = 7; the destination fails from call 5 on - the mutations of q2, after its name was accepted -/

def varFEx (d : Dest) :=
  varFCfg d (exVi "stdin" false) modelPair pvRef exRows "ref" exRegs.1 exRegs.2 1 2 1 2 none

set_option maxRecDepth 100000 in
example :
    (Model.Sched.runSchedule (varFEx (.failFrom 5)) sched1).arrival.map (·.1) = [0, 1] ∧
    (Model.Sched.runSchedule (varFEx (.failFrom 5)) sched2).arrival.map (·.1) = [1, 0] ∧
    (Model.Sched.runSchedule (varFEx (.failFrom 5)) sched1).main = .ret (some .write) ∧
    (Model.Sched.runSchedule (varFEx (.failFrom 5)) sched2).main = .ret (some .write) ∧
    accepted (.failFrom 5) (varChunks (exVi "stdin" false) "ref") "query,mutations\n" 1
      (Model.Sched.runSchedule (varFEx (.failFrom 5)) sched1) = "query,mutations\nq1,\nq2," ∧
    accepted (.failFrom 5) (varChunks (exVi "stdin" false) "ref") "query,mutations\n" 1
      (Model.Sched.runSchedule (varFEx (.failFrom 5)) sched2) = "query,mutations\nq1,\nq2," ∧
    varW "ref" exRows = 7 := by
  decide

set_option maxRecDepth 100000 in
/-- no fault within the run: nil and `varCommand` on both schedules -/
example :
    (Model.Sched.runSchedule (varFEx (.failOnce 8)) sched1).main = .ret none ∧
    (Model.Sched.runSchedule (varFEx (.failOnce 8)) sched2).main = .ret none ∧
    (Model.Sched.runSchedule (varFEx (.failOnce 8)) sched1).wst.sink.text = varCommand (exVi "stdin" false) modelPair ∧
    (Model.Sched.runSchedule (varFEx (.failOnce 8)) sched2).wst.sink.text = varCommand (exVi "stdin" false) modelPair ∧
    (Model.Sched.runSchedule (varFEx (.failOnce 8)) sched2).wst.sink.calls = 7 := by
  decide

/-- the general theorem on this input: no schedule returns nil -/
example (sched : List Nat) : (Model.Sched.runSchedule (varFEx (.failFrom 5)) sched).main ≠ .ret none :=
  variants_fault_reported (.failFrom 5) (exVi "stdin" false) modelPair pvRef exRows "ref" exRegs.1 exRegs.2 1 2 1 2 none
    (by decide) 5 (Or.inl rfl) (by decide) (by decide) (Lemmas.Sched.runSchedule_reach _ sched)

/-! ### F. sam variants: two pools of two workers; W = 7; a transient fault at call 4 (the name of the second query) -/

def samVarFEx (d : Dest) := samVarFCfg d (pvVi "gff" false) "ref" pvRef (samBlocks [pvRec, pvRec2, pvRec3])
  (fun b r => blockToSeqPair b r) modelPair svRegs.1 svRegs.2 2 2 1 2 2 none

set_option maxRecDepth 100000 in
example :
    (Model.SchedChain.runSchedule (samVarFEx (.failOnce 4)) csched1).arrival.map (·.1) = [0, 1] ∧
    (Model.SchedChain.runSchedule (samVarFEx (.failOnce 4)) csched2).arrival.map (·.1) = [1, 0] ∧
    (Model.SchedChain.runSchedule (samVarFEx (.failOnce 4)) csched1).main = .ret (some .write) ∧
    (Model.SchedChain.runSchedule (samVarFEx (.failOnce 4)) csched2).main = .ret (some .write) ∧
    chainAccepted (.failOnce 4) (svChunks (pvVi "gff" false) "ref") "query,mutations\n" 0
      (Model.SchedChain.runSchedule (samVarFEx (.failOnce 4)) csched1) =
        "query,mutations\nq,aa:g:A2E(nuc:C5A)|ins:4:1|del:8:2\n" ∧
    chainAccepted (.failOnce 4) (svChunks (pvVi "gff" false) "ref") "query,mutations\n" 0
      (Model.SchedChain.runSchedule (samVarFEx (.failOnce 4)) csched2) =
        "query,mutations\nq,aa:g:A2E(nuc:C5A)|ins:4:1|del:8:2\n" := by
  decide

set_option maxRecDepth 100000 in
example :
    (Model.SchedChain.runSchedule (samVarFEx .ok) csched1).main = .ret none ∧
    (Model.SchedChain.runSchedule (samVarFEx .ok) csched2).main = .ret none ∧
    (Model.SchedChain.runSchedule (samVarFEx .ok) csched2).wst.sink.text =
      "query,mutations\nq,aa:g:A2E(nuc:C5A)|ins:4:1|del:8:2\nr,aa:g:A2V(nuc:C5T)\nt,\n" ∧
    (Model.SchedChain.runSchedule (samVarFEx .ok) csched2).wst.sink.calls = 7 := by
  decide

/-- the general theorem on this input: no schedule of the two-pool chain returns nil -/
example (sched : List Nat) : (Model.SchedChain.runSchedule (samVarFEx (.failOnce 4)) sched).main ≠ .ret none :=
  sam_variants_fault_reported (.failOnce 4) (pvVi "gff" false) "ref" pvRef (samBlocks [pvRec, pvRec2, pvRec3])
    (fun b r => blockToSeqPair b r) modelPair svRegs.1 svRegs.2 2 2 1 2 2 none (by decide) (by decide) 4 (Or.inr rfl)
    (by decide) (by decide) (Lemmas.SchedChain.runSchedule_reach _ sched)

end Examples

end Gofasta.Lemmas.SchedFaults
