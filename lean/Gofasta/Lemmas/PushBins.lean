import Gofasta.Lemmas.SortSpec
import Gofasta.Model.Updown
/-
PushBins: `updown topranking --dist-push k`.  The map built by folding `pushInsert k` over the hits of one bin
holds exactly the k smallest distinct distances that occur (all of them if fewer than k occur), each with its hits
in file order; the bin is the stable sort by (distance, ambiguities) of all hits at those distances.
-/
namespace Gofasta.Lemmas.PushBins
open Gofasta.Model

/-! ### the declarative side -/

/-- distance `d` occurs among the hits -/
def occurs (hs : List UDHit) (d : Nat) : Bool := hs.any fun h => h.dist == d

/-- how many distinct occurring distances are strictly smaller than `d` -/
def smallerCount (hs : List UDHit) (d : Nat) : Nat := ((List.range d).filter (occurs hs)).length

/-- `d` is among the `k` smallest distinct occurring distances: fewer than `k` distinct occurring distances are
strictly smaller -/
def kept (k : Nat) (hs : List UDHit) (d : Nat) : Bool := decide (smallerCount hs d < k)

/-- the keys of the association list -/
def keys (m : List (Nat × List UDHit)) : List Nat := m.map (·.1)

/-- the push map of a bin -/
def pushMap (k : Nat) (hs : List UDHit) : List (Nat × List UDHit) := hs.foldl (pushInsert k) []

/-- the bin as `topRankingQuery` computes it in push mode -/
def pushBin (k : Nat) (hs : List UDHit) : List UDHit := sortStable udLt ((pushMap k hs).flatMap (·.2))

theorem occurs_iff (hs : List UDHit) (d : Nat) : occurs hs d = true ↔ ∃ h ∈ hs, h.dist = d := by
  simp [occurs]

/-! ### `foldl max` -/

theorem foldl_max_ge_init (l : List Nat) (a : Nat) : a ≤ l.foldl max a := by
  induction l generalizing a with
  | nil => exact Nat.le_refl _
  | cons x t ih => exact Nat.le_trans (Nat.le_max_left a x) (ih (max a x))

theorem foldl_max_ge (l : List Nat) (a : Nat) : ∀ x ∈ l, x ≤ l.foldl max a := by
  induction l generalizing a with
  | nil => intro x hx; cases hx
  | cons y t ih =>
    intro x hx
    rcases List.mem_cons.1 hx with rfl | hx
    · exact Nat.le_trans (Nat.le_max_right a x) (foldl_max_ge_init t (max a x))
    · exact ih (max a y) x hx

theorem foldl_max_mem (l : List Nat) (a : Nat) : l.foldl max a = a ∨ l.foldl max a ∈ l := by
  induction l generalizing a with
  | nil => exact Or.inl rfl
  | cons y t ih =>
    simp only [List.foldl_cons]
    rcases ih (max a y) with h | h
    · rw [h]
      by_cases hay : a ≤ y
      · right; rw [Nat.max_eq_right hay]; exact List.mem_cons_self
      · left; exact Nat.max_eq_left (by omega)
    · right; exact List.mem_cons_of_mem _ h

/-! ### the invariant of the fold -/

/-- what the fold maintains; no counting is needed to carry it through one step -/
structure Inv (k : Nat) (hs : List UDHit) (m : List (Nat × List UDHit)) : Prop where
  nodup : (keys m).Nodup
  len : m.length ≤ k
  occ : ∀ d ∈ keys m, ∃ h ∈ hs, h.dist = d
  miss : ∀ h ∈ hs, h.dist ∉ keys m → m.length = k ∧ ∀ d ∈ keys m, d < h.dist
  entries : ∀ e ∈ m, e.2 = hs.filter fun h => h.dist == e.1

theorem filter_snoc_dist (hs : List UDHit) (h : UDHit) (d : Nat) :
    (hs ++ [h]).filter (fun x => x.dist == d) = hs.filter (fun x => x.dist == d) ++ (if h.dist = d then [h] else []) := by
  rw [List.filter_append]
  by_cases hd : h.dist = d <;> simp [hd]

theorem length_filter_ne_key (m : List (Nat × List UDHit)) (M : Nat) (hnd : (keys m).Nodup) (hM : M ∈ keys m) :
    (m.filter fun e => e.1 != M).length + 1 = m.length := by
  induction m with
  | nil => cases hM
  | cons e t ih =>
    simp only [keys, List.map_cons, List.nodup_cons] at hnd
    by_cases he : e.1 = M
    · have hnone : ∀ x ∈ t, (x.1 != M) = true := by
        intro x hx
        have : x.1 ∈ t.map (·.1) := List.mem_map_of_mem hx
        simp only [bne_iff_ne, ne_eq]
        intro hxM
        exact hnd.1 (by rw [he, ← hxM]; exact this)
      rw [List.filter_cons]
      have : (e.1 != M) = false := by simp [he]
      simp only [this]
      rw [List.filter_eq_self.2 hnone]
      simp
    · have hM' : M ∈ keys t := by
        simp only [keys, List.map_cons, List.mem_cons] at hM
        rcases hM with h | h
        · exact absurd h.symm he
        · exact h
      have := ih hnd.2 hM'
      rw [List.filter_cons]
      have hne : (e.1 != M) = true := by simp [he]
      simp only [hne, if_true, List.length_cons]
      omega

theorem inv_nil (k : Nat) : Inv k [] [] := by
  constructor
  · simp [keys]
  · simp
  · intro d hd; cases hd
  · intro h hh; cases hh
  · intro e he; cases he

theorem keys_map_update (m : List (Nat × List UDHit)) (h : UDHit) :
    keys (m.map fun e => if e.1 == h.dist then (e.1, e.2 ++ [h]) else e) = keys m := by
  simp only [keys, List.map_map]
  apply List.map_congr_left
  intro e _
  simp only [Function.comp]
  split <;> rfl

theorem inv_step (k : Nat) (hk : 0 < k) (hs : List UDHit) (m : List (Nat × List UDHit)) (h : UDHit)
    (I : Inv k hs m) : Inv k (hs ++ [h]) (pushInsert k m h) := by
  have hmaxge : ∀ d ∈ keys m, d ≤ (keys m).foldl max 0 := foldl_max_ge (keys m) 0
  unfold pushInsert
  simp only []
  change Inv k (hs ++ [h]) (if (!decide (h.dist ≤ (keys m).foldl max 0 ∨ m.length < k)) = true then m
    else if (m.any fun e => e.1 == h.dist) = true then m.map fun e => if e.1 == h.dist then (e.1, e.2 ++ [h]) else e
    else if m.length = k then (m.filter fun e => e.1 != (keys m).foldl max 0) ++ [(h.dist, [h])]
    else m ++ [(h.dist, [h])])
  by_cases hA : h.dist ≤ (keys m).foldl max 0 ∨ m.length < k
  · have hA' : ¬ ((!decide (h.dist ≤ (keys m).foldl max 0 ∨ m.length < k)) = true) := by simp [hA]
    rw [if_neg hA']
    by_cases hB : (m.any fun e => e.1 == h.dist) = true
    · -- the distance is already a key: the hit is appended to its entry
      rw [if_pos hB]
      have hkey : h.dist ∈ keys m := by
        simp only [List.any_eq_true, beq_iff_eq] at hB
        obtain ⟨e, he, hed⟩ := hB
        rw [← hed]; exact List.mem_map_of_mem he
      constructor
      · rw [keys_map_update]; exact I.nodup
      · simpa using I.len
      · rw [keys_map_update]
        intro d hd
        obtain ⟨x, hx, hxd⟩ := I.occ d hd
        exact ⟨x, List.mem_append_left _ hx, hxd⟩
      · rw [keys_map_update]
        intro x hx hxk
        rcases List.mem_append.1 hx with hx | hx
        · have := I.miss x hx hxk
          exact ⟨by simpa using this.1, this.2⟩
        · simp only [List.mem_singleton] at hx
          subst hx
          exact absurd hkey hxk
      · intro e' he'
        obtain ⟨e, he, rfl⟩ := List.mem_map.1 he'
        have hent := I.entries e he
        by_cases hed : e.1 = h.dist
        · simp only [hed, beq_self_eq_true, if_true]
          rw [filter_snoc_dist, if_pos rfl, hent, hed]
        · have : (e.1 == h.dist) = false := by simp [hed]
          simp only [this, Bool.false_eq_true, if_false]
          rw [filter_snoc_dist, if_neg (fun hh => hed hh.symm), hent]
          simp
    · rw [if_neg hB]
      have hnokey : h.dist ∉ keys m := by
        intro hk'
        apply hB
        obtain ⟨e, he, hed⟩ := List.mem_map.1 hk'
        simp only [List.any_eq_true, beq_iff_eq]
        exact ⟨e, he, hed⟩
      by_cases hC : m.length = k
      · -- the map is full: the largest key is replaced
        rw [if_pos hC]
        have hle : h.dist ≤ (keys m).foldl max 0 := by
          rcases hA with h1 | h1
          · exact h1
          · omega
        have hMmem : (keys m).foldl max 0 ∈ keys m := by
          rcases foldl_max_mem (keys m) 0 with h0 | h0
          · -- the maximum is 0, so h.dist = 0 ≤ every key; the map is not empty
            cases m with
            | nil => simp at hC; omega
            | cons e t =>
              have he : e.1 ≤ (keys (e :: t)).foldl max 0 := hmaxge e.1 (by simp [keys])
              rw [h0] at he
              have : e.1 = 0 := by omega
              rw [h0, ← this]; simp [keys]
          · exact h0
        have hlt : h.dist < (keys m).foldl max 0 := by
          have : h.dist ≠ (keys m).foldl max 0 := fun hh => hnokey (hh ▸ hMmem)
          omega
        have hlen := length_filter_ne_key m _ I.nodup hMmem
        have hkeys' : keys ((m.filter fun e => e.1 != (keys m).foldl max 0) ++ [(h.dist, [h])]) =
            (keys m).filter (fun d => d != (keys m).foldl max 0) ++ [h.dist] := by
          simp only [keys, List.map_append, List.map_cons, List.map_nil]
          congr 1
          rw [List.filter_map]
          rfl
        constructor
        · rw [hkeys']
          refine List.nodup_append.2 ⟨I.nodup.sublist List.filter_sublist, by simp, ?_⟩
          intro a ha b hb
          simp only [List.mem_singleton] at hb
          subst hb
          intro hab
          exact hnokey (hab ▸ (List.mem_filter.1 ha).1)
        · simp only [List.length_append, List.length_singleton]; omega
        · rw [hkeys']
          intro d hd
          rcases List.mem_append.1 hd with hd | hd
          · obtain ⟨x, hx, hxd⟩ := I.occ d (List.mem_filter.1 hd).1
            exact ⟨x, List.mem_append_left _ hx, hxd⟩
          · simp only [List.mem_singleton] at hd
            exact ⟨h, by simp, hd.symm⟩
        · rw [hkeys']
          intro x hx hxk
          refine ⟨by simp only [List.length_append, List.length_singleton]; omega, ?_⟩
          rcases List.mem_append.1 hx with hx | hx
          · have hxM : (keys m).foldl max 0 ≤ x.dist := by
              by_cases hxm : x.dist ∈ keys m
              · -- it was a key and is no longer: it is the evicted maximum
                have : ¬ ((x.dist != (keys m).foldl max 0) = true) := by
                  intro hne
                  exact hxk (List.mem_append_left _ (List.mem_filter.2 ⟨hxm, hne⟩))
                simp only [bne_iff_ne, ne_eq, Decidable.not_not] at this
                omega
              · exact Nat.le_of_lt ((I.miss x hx hxm).2 _ hMmem)
            intro d hd
            rcases List.mem_append.1 hd with hd | hd
            · have hd' := List.mem_filter.1 hd
              have h1 := hmaxge d hd'.1
              have h2 : d ≠ (keys m).foldl max 0 := by simpa using hd'.2
              omega
            · simp only [List.mem_singleton] at hd
              omega
          · simp only [List.mem_singleton] at hx
            subst hx
            exact absurd (List.mem_append_right _ (by simp)) hxk
        · intro e he
          rcases List.mem_append.1 he with he | he
          · have hem := (List.mem_filter.1 he).1
            have hne : h.dist ≠ e.1 := fun hh => hnokey (hh ▸ List.mem_map_of_mem hem)
            rw [filter_snoc_dist, if_neg hne, I.entries e hem]
            simp
          · simp only [List.mem_singleton] at he
            subst he
            rw [filter_snoc_dist, if_pos rfl]
            have : hs.filter (fun x => x.dist == h.dist) = [] := by
              rw [List.filter_eq_nil_iff]
              intro x hx hxd
              simp only [beq_iff_eq] at hxd
              have := (I.miss x hx (hxd ▸ hnokey)).2 _ hMmem
              omega
            simp [this]
      · -- the map is not full: a new entry
        rw [if_neg hC]
        have hlt : m.length < k := by have := I.len; omega
        have hkeys' : keys (m ++ [(h.dist, [h])]) = keys m ++ [h.dist] := by simp [keys]
        constructor
        · rw [hkeys']
          refine List.nodup_append.2 ⟨I.nodup, by simp, ?_⟩
          intro a ha b hb
          simp only [List.mem_singleton] at hb
          subst hb
          intro hab
          exact hnokey (hab ▸ ha)
        · simp only [List.length_append, List.length_singleton]; omega
        · rw [hkeys']
          intro d hd
          rcases List.mem_append.1 hd with hd | hd
          · obtain ⟨x, hx, hxd⟩ := I.occ d hd
            exact ⟨x, List.mem_append_left _ hx, hxd⟩
          · simp only [List.mem_singleton] at hd
            exact ⟨h, by simp, hd.symm⟩
        · rw [hkeys']
          intro x hx hxk
          rcases List.mem_append.1 hx with hx | hx
          · have := (I.miss x hx (fun hh => hxk (List.mem_append_left _ hh))).1
            omega
          · simp only [List.mem_singleton] at hx
            subst hx
            exact absurd (List.mem_append_right _ (by simp)) hxk
        · intro e he
          rcases List.mem_append.1 he with he | he
          · have hne : h.dist ≠ e.1 := fun hh => hnokey (hh ▸ List.mem_map_of_mem he)
            rw [filter_snoc_dist, if_neg hne, I.entries e he]
            simp
          · simp only [List.mem_singleton] at he
            subst he
            rw [filter_snoc_dist, if_pos rfl]
            have : hs.filter (fun x => x.dist == h.dist) = [] := by
              rw [List.filter_eq_nil_iff]
              intro x hx hxd
              simp only [beq_iff_eq] at hxd
              have := (I.miss x hx (hxd ▸ hnokey)).1
              omega
            simp [this]
  · -- farther than every key of a full map: skipped
    have hA' : ((!decide (h.dist ≤ (keys m).foldl max 0 ∨ m.length < k)) = true) := by simp [hA]
    rw [if_pos hA']
    have hgt : (keys m).foldl max 0 < h.dist := by omega
    have hfull : m.length = k := by have := I.len; omega
    have hall : ∀ d ∈ keys m, d < h.dist := fun d hd => Nat.lt_of_le_of_lt (hmaxge d hd) hgt
    constructor
    · exact I.nodup
    · exact I.len
    · intro d hd
      obtain ⟨x, hx, hxd⟩ := I.occ d hd
      exact ⟨x, List.mem_append_left _ hx, hxd⟩
    · intro x hx hxk
      rcases List.mem_append.1 hx with hx | hx
      · exact I.miss x hx hxk
      · simp only [List.mem_singleton] at hx
        subst hx
        exact ⟨hfull, hall⟩
    · intro e he
      have hne : h.dist ≠ e.1 := by
        have := hall e.1 (List.mem_map_of_mem he)
        omega
      rw [filter_snoc_dist, if_neg hne, I.entries e he]
      simp

theorem inv_pushMap (k : Nat) (hk : 0 < k) (hs : List UDHit) : Inv k hs (pushMap k hs) := by
  induction hs using rev_ind with
  | nil => exact inv_nil k
  | snoc l x ih =>
    have : pushMap k (l ++ [x]) = pushInsert k (pushMap k l) x := by simp [pushMap, List.foldl_append]
    rw [this]
    exact inv_step k hk l _ x ih

/-! ### (1) the characterisation of the map -/

theorem keys_length (m : List (Nat × List UDHit)) : (keys m).length = m.length := by simp [keys]

theorem Inv.mem_keys_iff {k : Nat} {hs : List UDHit} {m : List (Nat × List UDHit)} (I : Inv k hs m) (d : Nat) :
    d ∈ keys m ↔ occurs hs d = true ∧ kept k hs d = true := by
  have hLnd : ((List.range d).filter (occurs hs)).Nodup := List.nodup_range.sublist List.filter_sublist
  constructor
  · intro hd
    refine ⟨(occurs_iff hs d).2 (I.occ d hd), ?_⟩
    unfold kept smallerCount
    apply decide_eq_true
    have hnd : (d :: (List.range d).filter (occurs hs)).Nodup := by
      refine List.nodup_cons.2 ⟨?_, hLnd⟩
      intro hmem
      have := (List.mem_filter.1 hmem).1
      simp at this
    have hsub : (d :: (List.range d).filter (occurs hs)) ⊆ keys m := by
      intro x hx
      rcases List.mem_cons.1 hx with rfl | hx
      · exact hd
      · have hx' := List.mem_filter.1 hx
        have hxd : x < d := by simpa using hx'.1
        obtain ⟨h, hh, hhx⟩ := (occurs_iff hs x).1 hx'.2
        by_cases hxk : x ∈ keys m
        · exact hxk
        · have := (I.miss h hh (hhx ▸ hxk)).2 d hd
          omega
    have h1 := hnd.length_le_of_subset hsub
    have h2 := I.len
    rw [keys_length] at h1
    simp only [List.length_cons] at h1
    omega
  · intro ⟨hocc, hkept⟩
    unfold kept smallerCount at hkept
    have hkept := of_decide_eq_true hkept
    obtain ⟨h, hh, hhd⟩ := (occurs_iff hs d).1 hocc
    by_cases hdk : d ∈ keys m
    · exact hdk
    · obtain ⟨hfull, hall⟩ := I.miss h hh (hhd ▸ hdk)
      have hsub : keys m ⊆ (List.range d).filter (occurs hs) := by
        intro x hx
        refine List.mem_filter.2 ⟨?_, (occurs_iff hs x).2 (I.occ x hx)⟩
        have := hall x hx
        simp; omega
      have h1 := I.nodup.length_le_of_subset hsub
      rw [keys_length] at h1
      omega

/-- **(1a)** the keys of the push map are pairwise distinct -/
theorem pushMap_keys_nodup (k : Nat) (hk : 0 < k) (hs : List UDHit) : (keys (pushMap k hs)).Nodup :=
  (inv_pushMap k hk hs).nodup

/-- **(1b)** the keys are exactly the `k` smallest distinct occurring distances: `d` is a key iff it occurs and fewer
than `k` distinct occurring distances are strictly smaller than it -/
theorem pushMap_mem_keys_iff (k : Nat) (hk : 0 < k) (hs : List UDHit) (d : Nat) :
    d ∈ keys (pushMap k hs) ↔ occurs hs d = true ∧ kept k hs d = true :=
  (inv_pushMap k hk hs).mem_keys_iff d

/-- **(1c)** the hits stored under key `d` are exactly the hits at distance `d`, in file order -/
theorem pushMap_entry (k : Nat) (hk : 0 < k) (hs : List UDHit) (e : Nat × List UDHit) (he : e ∈ pushMap k hs) :
    e.2 = hs.filter fun h => h.dist == e.1 :=
  (inv_pushMap k hk hs).entries e he

/-- (1c) as a lookup: a kept occurring distance is mapped to its hits in file order, every other distance is absent -/
theorem pushMap_lookup (k : Nat) (hk : 0 < k) (hs : List UDHit) (d : Nat) :
    (pushMap k hs).lookup d =
      if occurs hs d = true ∧ kept k hs d = true then some (hs.filter fun h => h.dist == d) else none := by
  have I := inv_pushMap k hk hs
  split
  · rename_i hc
    have hd := (I.mem_keys_iff d).2 hc
    obtain ⟨e, he, hed⟩ := List.mem_map.1 hd
    have hent := I.entries e he
    have hl : ∀ (m : List (Nat × List UDHit)), (keys m).Nodup → e ∈ m → m.lookup e.1 = some e.2 := by
      intro m
      induction m with
      | nil => intro _ h; cases h
      | cons x t ih =>
        intro hnd hm
        simp only [keys, List.map_cons, List.nodup_cons] at hnd
        rcases List.mem_cons.1 hm with rfl | hm'
        · simp [List.lookup]
        · have hne : e.1 ≠ x.1 := fun hh => hnd.1 (hh ▸ List.mem_map_of_mem hm')
          have hb : (e.1 == x.1) = false := by simp [hne]
          obtain ⟨x1, x2⟩ := x
          simp only [List.lookup, hb]
          exact ih hnd.2 hm'
    have := hl _ I.nodup he
    rw [hed] at this
    rw [this, hent, hed]
  · rename_i hc
    have hd : d ∉ keys (pushMap k hs) := fun hh => hc ((I.mem_keys_iff d).1 hh)
    have hl : ∀ (m : List (Nat × List UDHit)), d ∉ keys m → m.lookup d = none := by
      intro m
      induction m with
      | nil => intro _; rfl
      | cons x t ih =>
        intro hn
        simp only [keys, List.map_cons, List.mem_cons, not_or] at hn
        obtain ⟨x1, x2⟩ := x
        have hb : (d == x1) = false := by simpa using hn.1
        simp only [List.lookup, hb]
        exact ih hn.2
    exact hl _ hd

/-- the map never holds more than `k` distances -/
theorem pushMap_length_le (k : Nat) (hk : 0 < k) (hs : List UDHit) : (pushMap k hs).length ≤ k :=
  (inv_pushMap k hk hs).len

/-- if fewer than `k` distances are held, every occurring distance is held -/
theorem pushMap_all_of_lt (k : Nat) (hk : 0 < k) (hs : List UDHit) (hlt : (pushMap k hs).length < k) :
    ∀ h ∈ hs, h.dist ∈ keys (pushMap k hs) := by
  intro h hh
  by_cases hd : h.dist ∈ keys (pushMap k hs)
  · exact hd
  · have := ((inv_pushMap k hk hs).miss h hh hd).1
    omega

/-! ### (2) the bin -/

/-- the (distance, ambiguity count) comparator is a strict weak order (as in Props.C08) -/
theorem udLt_swo : SWO udLt := by
  constructor
  · intro a b h
    simp [udLt] at h ⊢
    omega
  · intro a b c h
    simp [udLt] at h ⊢
    omega

/-- `udLt` does not separate two hits iff they agree on distance and ambiguity count -/
theorem tied_udLt_iff (z h : UDHit) : tied udLt z h = true ↔ h.dist = z.dist ∧ h.amb = z.amb := by
  rw [tied_iff]
  simp [udLt]
  omega

theorem filter_or_perm {α : Type} (p q : α → Bool) : ∀ (l : List α), (∀ x ∈ l, ¬ (p x = true ∧ q x = true)) →
    (l.filter p ++ l.filter q).Perm (l.filter fun x => p x || q x) := by
  intro l
  induction l with
  | nil => intro _; exact List.Perm.refl _
  | cons a t ih =>
    intro hdis
    have ih' := ih (fun x hx => hdis x (List.mem_cons_of_mem _ hx))
    have ha := hdis a List.mem_cons_self
    cases hp : p a <;> cases hq : q a
    · simpa [List.filter_cons, hp, hq] using ih'
    · simp only [List.filter_cons, hp, hq, Bool.false_eq_true, if_false, if_true, Bool.or_true]
      exact List.perm_middle.trans (List.Perm.cons a ih')
    · simp only [List.filter_cons, hp, hq, Bool.false_eq_true, if_false, if_true, Bool.or_false, List.cons_append]
      exact List.Perm.cons a ih'
    · exact absurd ⟨hp, hq⟩ ha

/-- the concatenated entries of a map with distinct keys, whose entries are the hits at the key in file order, are
a rearrangement of the hits whose distance is a key -/
theorem flat_perm (hs : List UDHit) : ∀ (m : List (Nat × List UDHit)), (keys m).Nodup →
    (∀ e ∈ m, e.2 = hs.filter fun h => h.dist == e.1) →
    (m.flatMap (·.2)).Perm (hs.filter fun h => (keys m).contains h.dist) := by
  intro m
  induction m with
  | nil => intro _ _; simp [keys]
  | cons e t ih =>
    intro hnd hent
    simp only [keys, List.map_cons, List.nodup_cons] at hnd
    have ih' := ih hnd.2 (fun x hx => hent x (List.mem_cons_of_mem _ hx))
    rw [List.flatMap_cons, hent e List.mem_cons_self]
    refine (List.Perm.append_left _ ih').trans ?_
    have hdis : ∀ x ∈ hs, ¬ ((x.dist == e.1) = true ∧ ((keys t).contains x.dist) = true) := by
      intro x _ ⟨h1, h2⟩
      simp only [beq_iff_eq] at h1
      simp only [List.contains_iff_mem] at h2
      exact hnd.1 (h1 ▸ h2)
    refine (filter_or_perm _ _ hs hdis).trans ?_
    apply List.Perm.of_eq
    apply List.filter_congr
    intro x _
    simp [keys]

/-- inside a class of `udLt`-tied hits the concatenated entries keep file order -/
theorem flat_filter_tied (hs : List UDHit) (z : UDHit) : ∀ (m : List (Nat × List UDHit)), (keys m).Nodup →
    (∀ e ∈ m, e.2 = hs.filter fun h => h.dist == e.1) →
    (m.flatMap (·.2)).filter (tied udLt z) = if z.dist ∈ keys m then hs.filter (tied udLt z) else [] := by
  intro m
  induction m with
  | nil => intro _ _; simp [keys]
  | cons e t ih =>
    intro hnd hent
    simp only [keys, List.map_cons, List.nodup_cons] at hnd
    have ih' := ih hnd.2 (fun x hx => hent x (List.mem_cons_of_mem _ hx))
    rw [List.flatMap_cons, List.filter_append, ih', hent e List.mem_cons_self, List.filter_filter]
    by_cases hez : e.1 = z.dist
    · have hnot : z.dist ∉ keys t := fun hh => hnd.1 (hez ▸ hh)
      have hin : z.dist ∈ keys (e :: t) := by simp [keys, hez]
      rw [if_neg hnot, if_pos hin, List.append_nil]
      apply List.filter_congr
      intro x _
      cases ht : tied udLt z x with
      | false => simp
      | true =>
        have := (tied_udLt_iff z x).1 ht
        simp [this.1, hez]
    · have hnil : hs.filter (fun a => tied udLt z a && a.dist == e.1) = [] := by
        rw [List.filter_eq_nil_iff]
        intro x _ hx
        simp only [Bool.and_eq_true, beq_iff_eq] at hx
        have := (tied_udLt_iff z x).1 hx.1
        exact hez (by omega)
      rw [hnil, List.nil_append]
      have hiff : z.dist ∈ keys (e :: t) ↔ z.dist ∈ keys t := by
        simp only [keys, List.map_cons, List.mem_cons]
        constructor
        · intro h
          rcases h with h | h
          · exact absurd h.symm hez
          · exact h
        · exact Or.inr
      by_cases hk : z.dist ∈ keys t
      · rw [if_pos hk, if_pos (hiff.2 hk)]
      · rw [if_neg hk, if_neg (fun hh => hk (hiff.1 hh))]

/-- **(2a)** what the push map holds, entry after entry, is a rearrangement of the hits at a kept distance -/
theorem pushMap_flat_perm (k : Nat) (hk : 0 < k) (hs : List UDHit) :
    ((pushMap k hs).flatMap (·.2)).Perm (hs.filter fun h => kept k hs h.dist) := by
  have I := inv_pushMap k hk hs
  refine (flat_perm hs _ I.nodup I.entries).trans (List.Perm.of_eq ?_)
  apply List.filter_congr
  intro x hx
  have hocc : occurs hs x.dist = true := (occurs_iff hs x.dist).2 ⟨x, hx, rfl⟩
  have := I.mem_keys_iff x.dist
  cases hkp : kept k hs x.dist with
  | true =>
    rw [List.contains_iff_mem]
    exact this.2 ⟨hocc, hkp⟩
  | false =>
    cases hc : (keys (pushMap k hs)).contains x.dist with
    | false => rfl
    | true =>
      rw [List.contains_iff_mem] at hc
      have := (this.1 hc).2
      rw [hkp] at this; cases this

/-- **(2b) the bin under dist-push k** is the stable sort by (distance, fewer ambiguities) — hence by (distance,
ambiguities, file order) — of exactly the hits at the `k` smallest distinct occurring distances -/
theorem pushBin_eq (k : Nat) (hk : 0 < k) (hs : List UDHit) :
    pushBin k hs = sortStable udLt (hs.filter fun h => kept k hs h.dist) := by
  have I := inv_pushMap k hk hs
  unfold pushBin
  apply sortStable_unique udLt_swo
  · exact (sortStable_perm _).trans (pushMap_flat_perm k hk hs)
  · exact sorted_sortStable udLt_swo _
  · intro z
    rw [sortStable_stable udLt_swo, flat_filter_tied hs z _ I.nodup I.entries, List.filter_filter]
    by_cases hz : z.dist ∈ keys (pushMap k hs)
    · rw [if_pos hz]
      have hkp := ((I.mem_keys_iff z.dist).1 hz).2
      apply List.filter_congr
      intro x _
      cases ht : tied udLt z x with
      | false => simp
      | true =>
        have := (tied_udLt_iff z x).1 ht
        simp [this.1, hkp]
    · rw [if_neg hz]
      symm
      rw [List.filter_eq_nil_iff]
      intro x hx hc
      simp only [Bool.and_eq_true] at hc
      have ht := (tied_udLt_iff z x).1 hc.1
      apply hz
      rw [← ht.1]
      exact (I.mem_keys_iff x.dist).2 ⟨(occurs_iff hs x.dist).2 ⟨x, hx, rfl⟩, hc.2⟩

/-- the members of the bin: the hits at a kept distance -/
theorem mem_pushBin (k : Nat) (hk : 0 < k) (hs : List UDHit) (h : UDHit) :
    h ∈ pushBin k hs ↔ h ∈ hs ∧ kept k hs h.dist = true := by
  rw [pushBin_eq k hk hs, (sortStable_perm _).mem_iff, List.mem_filter]

/-- the bin is a rearrangement of the hits at a kept distance -/
theorem pushBin_perm (k : Nat) (hk : 0 < k) (hs : List UDHit) :
    (pushBin k hs).Perm (hs.filter fun h => kept k hs h.dist) := by
  rw [pushBin_eq k hk hs]; exact sortStable_perm _

/-- nearest first, then fewer ambiguities -/
theorem pushBin_sorted (k : Nat) (hs : List UDHit) : Sorted udLt (pushBin k hs) :=
  sorted_sortStable udLt_swo _

/-- hits of equal distance and equal ambiguity count appear in file order -/
theorem pushBin_ties_in_file_order (k : Nat) (hk : 0 < k) (hs : List UDHit) (z : UDHit) :
    (pushBin k hs).filter (fun h => h.dist == z.dist && h.amb == z.amb) =
      (hs.filter fun h => kept k hs h.dist).filter (fun h => h.dist == z.dist && h.amb == z.amb) := by
  have hfun : (fun h : UDHit => h.dist == z.dist && h.amb == z.amb) = tied udLt z := by
    funext h
    cases ht : tied udLt z h with
    | true => have := (tied_udLt_iff z h).1 ht; simp [this.1, this.2]
    | false =>
      cases hc : (h.dist == z.dist && h.amb == z.amb) with
      | false => rfl
      | true =>
        simp only [Bool.and_eq_true, beq_iff_eq] at hc
        rw [(tied_udLt_iff z h).2 hc] at ht; cases ht
  rw [hfun, pushBin_eq k hk hs, sortStable_stable udLt_swo]

/-- any list that is a rearrangement of the hits at the kept distances, sorted by (distance, ambiguities), with tied
hits in file order, is the bin: the specification determines the bin completely -/
theorem pushBin_unique (k : Nat) (hk : 0 < k) (hs ranked : List UDHit)
    (hp : ranked.Perm (hs.filter fun h => kept k hs h.dist)) (hsrt : Sorted udLt ranked)
    (hst : ∀ z, ranked.filter (tied udLt z) = (hs.filter fun h => kept k hs h.dist).filter (tied udLt z)) :
    pushBin k hs = ranked := by
  rw [pushBin_eq k hk hs]
  exact (sortStable_unique udLt_swo _ ranked hp hsrt hst).symm

/-! ### the statement for `topRankingQuery` -/

/-- the candidates of one direction, in file order, as `topRankingQuery` collects them -/
def dirHits (o : TROpts) (q : UDLine) (targets : List UDLine) (dir : Nat) : List UDHit :=
  ((targets.filterMap fun t =>
    if t.ambCount > o.threshTarg then none
    else if o.ignore.contains t.id then none
    else match whichWay q t o.thrNum o.thrDen with
      | none => none
      | some (dir, dist) => some (dir, ({ name := t.id, dist := dist, amb := t.ambCount } : UDHit))).filter
        fun c => c.1 == dir).map (·.2)

/-- **push mode of topranking**: `same` holds all its candidates in file order; each of up, down, side holds exactly
the candidates of that direction at its `push` smallest distinct occurring distances, nearest first, ties by fewer
ambiguities, then file order -/
theorem topRankingQuery_push (o : TROpts) (q : UDLine) (targets : List UDLine) (hp : 0 < o.push) :
    topRankingQuery o q targets = (List.range 4).map fun dir =>
      if dir = 0 then dirHits o q targets dir
      else sortStable udLt ((dirHits o q targets dir).filter fun h => kept o.push (dirHits o q targets dir) h.dist) := by
  unfold topRankingQuery
  simp only [hp, if_true]
  apply List.map_congr_left
  intro dir _
  by_cases hd : dir = 0
  · simp only [hd, if_true]; rfl
  · simp only [hd, if_false]
    exact pushBin_eq o.push hp (dirHits o q targets dir)

/-! ### the count of smaller distances, said with `eraseDups` -/

theorem nodup_eraseDups_aux : ∀ (n : Nat) (l : List Nat), l.length ≤ n → l.eraseDups.Nodup := by
  intro n
  induction n with
  | zero =>
    intro l hl
    have : l = [] := List.length_eq_zero_iff.1 (by omega)
    subst this; simp
  | succ n ih =>
    intro l hl
    cases l with
    | nil => simp
    | cons a t =>
      rw [List.eraseDups_cons, List.nodup_cons]
      constructor
      · rw [List.mem_eraseDups, List.mem_filter]
        intro h
        simp at h
      · apply ih
        have := List.length_filter_le (fun b => !b == a) t
        simp only [List.length_cons] at hl
        omega

theorem nodup_eraseDups (l : List Nat) : l.eraseDups.Nodup := nodup_eraseDups_aux l.length l (Nat.le_refl _)

/-- the distinct occurring distances, in order of first occurrence -/
def distinctDists (hs : List UDHit) : List Nat := (hs.map (·.dist)).eraseDups

theorem distinctDists_nodup (hs : List UDHit) : (distinctDists hs).Nodup := nodup_eraseDups _

theorem mem_distinctDists (hs : List UDHit) (d : Nat) : d ∈ distinctDists hs ↔ occurs hs d = true := by
  rw [distinctDists, List.mem_eraseDups, occurs_iff, List.mem_map]

/-- `smallerCount hs d` is the number of distinct occurring distances below `d` -/
theorem smallerCount_eq (hs : List UDHit) (d : Nat) :
    smallerCount hs d = ((distinctDists hs).filter fun x => decide (x < d)).length := by
  unfold smallerCount
  apply List.Perm.length_eq
  have hn1 : ((List.range d).filter (occurs hs)).Nodup := List.nodup_range.sublist List.filter_sublist
  have hn2 : ((distinctDists hs).filter fun x => decide (x < d)).Nodup :=
    (distinctDists_nodup hs).sublist List.filter_sublist
  apply (List.perm_ext_iff_of_nodup hn1 hn2).2
  intro x
  simp only [List.mem_filter, List.mem_range, mem_distinctDists, decide_eq_true_eq]
  exact ⟨fun h => ⟨h.2, h.1⟩, fun h => ⟨h.2, h.1⟩⟩

/-- the map holds `min k (number of distinct occurring distances)` entries: all of them if fewer than `k` occur -/
theorem pushMap_length (k : Nat) (hk : 0 < k) (hs : List UDHit) :
    (pushMap k hs).length = min k (distinctDists hs).length := by
  have I := inv_pushMap k hk hs
  have hsub : keys (pushMap k hs) ⊆ distinctDists hs := by
    intro x hx
    exact (mem_distinctDists hs x).2 ((occurs_iff hs x).2 (I.occ x hx))
  have h1 := I.nodup.length_le_of_subset hsub
  rw [keys_length] at h1
  have h2 := I.len
  by_cases hlt : (pushMap k hs).length < k
  · have hsub' : distinctDists hs ⊆ keys (pushMap k hs) := by
      intro x hx
      obtain ⟨h, hh, hhx⟩ := (occurs_iff hs x).1 ((mem_distinctDists hs x).1 hx)
      exact hhx ▸ pushMap_all_of_lt k hk hs hlt h hh
    have h3 := (distinctDists_nodup hs).length_le_of_subset hsub'
    rw [keys_length] at h3
    omega
  · omega

/-! ### (3) non-vacuity -/

def hit (n : String) (d a : Nat) : UDHit := ⟨n, d, a⟩

/-- six hits at distances 5 3 5 1 3 9, push 2: the map first holds 5 and 3, then 1 evicts 5; the later hit at 3 joins its
entry, 9 is skipped; the bin lists distance 1, then distance 3 with the less ambiguous hit first -/
example : pushMap 2 [hit "a" 5 0, hit "b" 3 7, hit "c" 5 1, hit "d" 1 2, hit "e" 3 0, hit "f" 9 0] =
    [(3, [hit "b" 3 7, hit "e" 3 0]), (1, [hit "d" 1 2])] := by decide

example : pushBin 2 [hit "a" 5 0, hit "b" 3 7, hit "c" 5 1, hit "d" 1 2, hit "e" 3 0, hit "f" 9 0] =
    [hit "d" 1 2, hit "e" 3 0, hit "b" 3 7] := by decide

example : ([1, 3, 5, 9].map fun d => kept 2 [hit "a" 5 0, hit "b" 3 7, hit "c" 5 1, hit "d" 1 2, hit "e" 3 0, hit "f" 9 0] d) =
    [true, true, false, false] := by decide

/-- ties on (distance, ambiguities) stay in file order; with fewer than `k` distinct distances everything is kept -/
example : pushBin 3 [hit "x" 2 1, hit "y" 2 1, hit "z" 0 4, hit "w" 2 0] =
    [hit "z" 0 4, hit "w" 2 0, hit "x" 2 1, hit "y" 2 1] := by decide

/-- `0 < k` is needed: with k = 0 the fold still lets in a hit at distance 0 -/
example : pushMap 0 [hit "a" 0 0] = [(0, [hit "a" 0 0])] ∧ kept 0 [hit "a" 0 0] 0 = false := by decide

end Gofasta.Lemmas.PushBins
