import Gofasta.Lemmas.FanoutProofs
import Gofasta.Lemmas.SchedCommands
import Gofasta.Driver.C06
import Gofasta.Driver.C08
import Gofasta.Driver.Sam
/-
Command-level "every schedule" theorems for the commands whose second half is a FAN-OUT (Model/Fanout: reader,
splitter, one goroutine per query, main collecting into the results array), and for `sam toPairAlign` on the
two-pool chain (Model/SchedChain).  The generic accumulator `acc` of the fan-out model is instantiated with the
loop bodies of the sequential command models; `fanout_result_eq` (every slot holds the fold over ALL targets IN
FILE ORDER, on every schedule) then gives: whenever main has returned, the text main prints from the results array
is the text of the sequential model.

  0.  generic: `foldAcc_eq_foldl`, `rows_of_results` (main walks queries and results together), folds over
      `filter`, `filterMap`, `map`
  A.  closest (plain)            `closest_every_schedule`      plainText ci s.results = modelText ci
                                 acc = `bestStep` (findClosest's loop body), `foldAcc_closest`
  B.  closest -n K, -d D         `closestN_every_schedule`     catchText ci s.results = modelText ci (both forms)
                                 acc = the -d test then `catchStep`, `foldAcc_catch`
  C.  updown topranking          `topranking_every_schedule`   trText ti s.results = modelTR ti
                                 acc = `trStep` (candidate test, then the bin of its direction), `trFinish_foldl`
  D.  sam toPairAlign            `topa_stdout_every_schedule`  stdout, the re-ordering text writer
                                 `topa_dir_every_schedule`     a directory, one file per pair, distinct names
                                 `topa_dir_last_arrival`       a directory, any names: the last arrival wins
  whole runs: `*_maximal_run`; executed schedules: `*_runSchedule`; `modelText` / `modelTR` are the `model` fields of
  the test drivers (`runC06_model`, `runC08_model`); non-vacuity: namespace `Examples`.
-/
set_option autoImplicit false

namespace Gofasta.Lemmas.FanoutCommands
open Gofasta Gofasta.Model Gofasta.Driver

/-! ## 0. generic part -/

section generic
open Gofasta.Model.Fanout Gofasta.Lemmas.Fanout
variable {τ ρ α β : Type}

/-- the result slot of query i as main reads it after the collection: the running best, `none` when the slot
was never filled or when the query saw no target -/
def slot (results : List (Option (Option ρ))) (i : Nat) : Option ρ := (results.getD i none).getD none

/-- `foldAcc` with a step that ignores whether it is the first target is `List.foldl` -/
theorem foldAcc_eq_foldl (acc : Nat → Option ρ → τ → ρ) (i : Nat) (b : Option ρ) (l : List τ) :
    foldAcc acc i b l = l.foldl (fun b t => some (acc i b t)) b := by
  induction l generalizing b with
  | nil => rfl
  | cons t ts ih => simp only [foldAcc, List.foldl_cons, ih]

/-- every result slot after main has returned, on every schedule -/
theorem slot_every_schedule {cfg : Cfg τ ρ} {s : State τ ρ} (hr : Reach cfg s) (hm : s.main = .ret)
    {i : Nat} (hi : i < cfg.nQ) : slot s.results i = expected cfg i := by
  have := fanout_result hr hm i hi
  simp only [slot, List.getD_eq_getElem?_getD, this, expected]
  rfl

/-- main walks over the queries and the results array together; when slot i holds `g i` and the row made of
query i and `g i` is the row `F` of the sequential model, the rows are the model's rows -/
theorem rows_of_results {γ : Type} (qs : List α) (results : List β) (g : Nat → β)
    (hres : results = (List.range qs.length).map g) (f : α → β → γ) (F : α → γ)
    (h : ∀ i q, qs[i]? = some q → f q (g i) = F q) :
    (qs.zip results).map (fun p => f p.1 p.2) = qs.map F := by
  subst hres
  apply List.ext_getElem?
  intro i
  simp only [List.getElem?_map, List.zip_eq_zipWith, List.getElem?_zipWith]
  cases hq : qs[i]? with
  | none => simp
  | some q =>
    have hi : i < qs.length := (List.getElem?_eq_some_iff.mp hq).1
    simp [hi, h i q hq]

theorem foldl_filter (p : α → Bool) (f : β → α → β) (l : List α) (b : β) :
    (l.filter p).foldl f b = l.foldl (fun b x => if p x then f b x else b) b := by
  induction l generalizing b with
  | nil => rfl
  | cons x t ih =>
    by_cases hp : p x = true
    · simp only [List.filter_cons, hp, if_true, List.foldl_cons, ih]
    · have hp' : p x = false := by simpa using hp
      simp only [List.filter_cons, hp', Bool.false_eq_true, if_false, List.foldl_cons, ih]

theorem foldl_filterMap {γ : Type} (g : α → Option γ) (f : β → γ → β) (l : List α) (b : β) :
    (l.filterMap g).foldl f b = l.foldl (fun b x => match g x with | some y => f b y | none => b) b := by
  induction l generalizing b with
  | nil => rfl
  | cons x t ih =>
    cases hg : g x with
    | none => simp only [List.filterMap_cons, hg, List.foldl_cons, ih]
    | some y => simp only [List.filterMap_cons, hg, List.foldl_cons, ih]

theorem foldl_map {γ : Type} (g : α → γ) (f : β → γ → β) (l : List α) (b : β) :
    (l.map g).foldl f b = l.foldl (fun b x => f b (g x)) b := by
  induction l generalizing b with
  | nil => rfl
  | cons x t ih => simp only [List.map_cons, List.foldl_cons, ih]

end generic

/-! ## A. `gofasta closest` (plain): findClosest as the accumulator -/

section closestPlain
open Gofasta.Model.Fanout Gofasta.Lemmas.Fanout

/-- what the reader sends: every target record with its position in the target file -/
def indexed (ts : List Target) : List (Target × Nat) := ts.zip (List.range ts.length)

/-- the hit of one query against one target -/
def mkHit (m : Measure) (q : List Nat) (t : Target × Nat) : Hit :=
  { name := t.1.name, score := t.1.score, dist := distance m q t.1, idx := t.2 }

theorem hitsOf_eq (m : Measure) (q : List Nat) (ts : List Target) : hitsOf m q ts = (indexed ts).map (mkHit m q) := rfl

/-- the loop body of findClosest: the first target, then strictly closer, then as close and more complete;
the incumbent is kept on a full tie -/
def bestStep (best : Option Hit) (h : Hit) : Hit :=
  match best with
  | none => h
  | some b => if h.dist.lt b.dist then h else if h.dist.eq b.dist && h.score > b.score then h else b

theorem findClosest_foldl (hits : List Hit) : findClosest hits = hits.foldl (fun b h => some (bestStep b h)) none := by
  unfold findClosest
  congr 1
  funext best h
  cases best with
  | none => rfl
  | some b =>
    simp only [bestStep]
    split
    · rfl
    · split <;> rfl

/-- the encoded queries, in file order -/
def encQueries (ci : ClosestIn) : List (List Nat) := ci.qs.map fun q => q.2.map (enc false)

/-- the accumulator of query goroutine i -/
def closestAcc (m : Measure) (qs : List (List Nat)) (i : Nat) (best : Option Hit) (t : Target × Nat) : Hit :=
  bestStep best (mkHit m (qs.getD i []) t)

/-- plain `closest` as a run of the fan-out: any capacity of cIn -/
def closestCfg (ci : ClosestIn) (cap : Nat) : Cfg (Target × Nat) Hit where
  targets := indexed (modelTargets ci.ts)
  nQ := ci.qs.length
  cap := cap
  acc := closestAcc ci.measure (encQueries ci)

/-- the fold of the fan-out model with `closestAcc` IS the sequential findClosest -/
theorem foldAcc_closest (m : Measure) (qs : List (List Nat)) (i : Nat) (ts : List Target) :
    foldAcc (closestAcc m qs) i none (indexed ts) = findClosest (hitsOf m (qs.getD i []) ts) := by
  rw [foldAcc_eq_foldl, findClosest_foldl, hitsOf_eq, foldl_map]
  rfl

/-- the text the sequential model prints (the `model` field of `runC06` for C06) -/
def modelRows (ci : ClosestIn) : String × List ERow :=
  rowsFor ci (fun q => hitsOf ci.measure (q.map (enc false)) (modelTargets ci.ts)) findClosest
    (findClosestN (effK ci) ci.maxd)
    (fun q i => closestSnps 0 (q.map (enc false)) (((modelTargets ci.ts).getD i default).seq))

def modelText (ci : ClosestIn) : String := renderRows (modelRows ci).1 (modelRows ci).2

theorem runC06_model (c : Case) (h : (c.prop == "C07") = false) : (runC06 c).model = modelText (closestIn c) := by
  simp only [runC06, h, modelText, modelRows]
  rfl

/-- the row main prints for one query from its slot of the results array -/
def plainRow (ci : ClosestIn) (q : String × List Nat) (r : Option Hit) : ERow :=
  match r with
  | some h => { pre := [q.1, h.name], dist := some h.dist,
                post := [joinWith ";" (closestSnps 0 (q.2.map (enc false)) (((modelTargets ci.ts).getD h.idx default).seq))] }
  | none => { pre := [q.1, ""], dist := none, post := [] }

/-- what main prints after the collection: one row per query, in query order, from the results array -/
def plainText (ci : ClosestIn) (results : List (Option (Option Hit))) : String :=
  renderRows "query,closest,distance,SNPs"
    ((ci.qs.zip results).map fun p => plainRow ci p.1 (p.2.getD none))

/-- **A. closest, every schedule**: whenever main has returned, the text printed from the results array is the
sequential model's text -/
theorem closest_every_schedule (ci : ClosestIn) (cap : Nat) (hmode : ci.mode = "plain")
    {s : State (Target × Nat) Hit} (hr : Reach (closestCfg ci cap) s) (hm : s.main = .ret) :
    plainText ci s.results = modelText ci := by
  have hres := fanout_result_eq hr hm
  have hrows := rows_of_results ci.qs s.results _ hres (fun q r => plainRow ci q (r.getD none))
    (fun q => plainRow ci q (findClosest (hitsOf ci.measure (q.2.map (enc false)) (modelTargets ci.ts))))
    (by
      intro i q hq
      simp only [Option.getD_some, expected, closestCfg, foldAcc_closest]
      congr 3
      simp [encQueries, hq])
  unfold plainText
  rw [hrows]
  simp only [modelText, modelRows, rowsFor, hmode]
  rfl

/-- **A, whole runs**: a run that cannot be extended has returned and prints the model's text -/
theorem closest_maximal_run (ci : ClosestIn) (cap : Nat) (hmode : ci.mode = "plain")
    {s : State (Target × Nat) Hit} (hr : Reach (closestCfg ci cap) s) (hstuck : enabled (closestCfg ci cap) s = []) :
    s.main = .ret ∧ plainText ci s.results = modelText ci := by
  have hm := (fanout_maximal_run hr hstuck).1
  exact ⟨hm, closest_every_schedule ci cap hmode hr hm⟩

/-- **A, executed schedules**: every schedule that is long enough returns and prints the model's text -/
theorem closest_runSchedule (ci : ClosestIn) (cap : Nat) (hmode : ci.mode = "plain") (sched : List Nat)
    (hlen : (ci.qs.length + 3) * ci.ts.length + 4 * ci.qs.length + 9 ≤ sched.length) :
    (runSchedule (closestCfg ci cap) sched).main = .ret ∧
    plainText ci (runSchedule (closestCfg ci cap) sched).results = modelText ci := by
  have hm := (runSchedule_returns (cfg := closestCfg ci cap) sched
    (by simpa [closestCfg, indexed, modelTargets] using hlen)).1
  exact ⟨hm, closest_every_schedule ci cap hmode (runSchedule_reach _ sched) hm⟩

end closestPlain

/-! ## B. `gofasta closest -n K` and `-d D`: the bounded catchment as the accumulator -/

section closestN
open Gofasta.Model.Fanout Gofasta.Lemmas.Fanout

/-- the -d test of findClosestN -/
def withinD (maxd : Option (Nat × Nat)) (h : Hit) : Bool :=
  match maxd with
  | none => true
  | some (n, d) => !h.dist.beyond n d

theorem findClosestN_foldl (K : Nat) (maxd : Option (Nat × Nat)) (hits : List Hit) :
    findClosestN K maxd hits = catchFinish K ((hits.filter (withinD maxd)).foldl (catchStep K) []) := by
  unfold findClosestN
  cases maxd with
  | none =>
    have : hits.filter (withinD none) = hits := List.filter_eq_self.mpr (fun _ _ => rfl)
    rw [this]
  | some nd => obtain ⟨n, d⟩ := nd; rfl

/-- the loop body of findClosestN in query goroutine i: the -d test, then the catchment step -/
def catchAcc (K : Nat) (maxd : Option (Nat × Nat)) (m : Measure) (qs : List (List Nat)) (i : Nat)
    (cat : Option (List Hit)) (t : Target × Nat) : List Hit :=
  if withinD maxd (mkHit m (qs.getD i []) t) then catchStep K (cat.getD []) (mkHit m (qs.getD i []) t) else cat.getD []

/-- `closest -n / -d` as a run of the fan-out -/
def closestNCfg (ci : ClosestIn) (cap : Nat) : Cfg (Target × Nat) (List Hit) where
  targets := indexed (modelTargets ci.ts)
  nQ := ci.qs.length
  cap := cap
  acc := catchAcc (effK ci) ci.maxd ci.measure (encQueries ci)

theorem foldAcc_catch_aux (K : Nat) (maxd : Option (Nat × Nat)) (m : Measure) (qs : List (List Nat)) (i : Nat)
    (l : List (Target × Nat)) (b : Option (List Hit)) :
    (foldAcc (catchAcc K maxd m qs) i b l).getD [] =
      ((l.map (mkHit m (qs.getD i []))).filter (withinD maxd)).foldl (catchStep K) (b.getD []) := by
  induction l generalizing b with
  | nil => rfl
  | cons t ts ih =>
    simp only [foldAcc, ih, List.map_cons, List.filter_cons, Option.getD_some, catchAcc]
    by_cases hw : withinD maxd (mkHit m (qs.getD i []) t) = true
    · simp only [hw, if_true, List.foldl_cons]
    · have hw' : withinD maxd (mkHit m (qs.getD i []) t) = false := by simpa using hw
      simp only [hw', Bool.false_eq_true, if_false]

/-- the fold of the fan-out model with `catchAcc`, finished, IS the sequential findClosestN -/
theorem foldAcc_catch (K : Nat) (maxd : Option (Nat × Nat)) (m : Measure) (qs : List (List Nat)) (i : Nat)
    (ts : List Target) :
    catchFinish K ((foldAcc (catchAcc K maxd m qs) i none (indexed ts)).getD []) =
      findClosestN K maxd (hitsOf m (qs.getD i []) ts) := by
  rw [foldAcc_catch_aux, findClosestN_foldl, hitsOf_eq]
  rfl

/-- what query i reports: the catchment, sorted when it never filled up -/
def catchment (ci : ClosestIn) (r : Option (Option (List Hit))) : List Hit :=
  catchFinish (effK ci) ((r.getD none).getD [])

/-- what main prints after the collection, from the results array: `--table` one row per (query, neighbour),
otherwise one row per query with the names joined by semicolons -/
def catchText (ci : ClosestIn) (results : List (Option (Option (List Hit)))) : String :=
  if ci.mode = "table" then
    renderRows "query,target,distance" (((ci.qs.zip results).map fun p =>
      (catchment ci p.2).map fun h => ({ pre := [p.1.1, h.name], dist := some h.dist, post := [] } : ERow)).flatten)
  else
    renderRows "query,closest" ((ci.qs.zip results).map fun p =>
      ({ pre := [p.1.1, joinWith ";" ((catchment ci p.2).map (·.name))], dist := none, post := [] } : ERow))

theorem catchment_every_schedule (ci : ClosestIn) (cap : Nat) (i : Nat) (q : String × List Nat)
    (hq : ci.qs[i]? = some q) :
    catchment ci (some (expected (closestNCfg ci cap) i)) =
      findClosestN (effK ci) ci.maxd (hitsOf ci.measure (q.2.map (enc false)) (modelTargets ci.ts)) := by
  simp only [catchment, Option.getD_some, expected, closestNCfg, foldAcc_catch]
  congr 2
  simp [encQueries, hq]

/-- **B. closest -n / -d, every schedule**: whenever main has returned, the text printed from the results array
is the sequential model's text (both output forms) -/
theorem closestN_every_schedule (ci : ClosestIn) (cap : Nat) (hmode : ci.mode ≠ "plain")
    {s : State (Target × Nat) (List Hit)} (hr : Reach (closestNCfg ci cap) s) (hm : s.main = .ret) :
    catchText ci s.results = modelText ci := by
  have hres := fanout_result_eq hr hm
  unfold catchText
  by_cases htab : ci.mode = "table"
  · simp only [htab, if_true]
    have hrows := rows_of_results ci.qs s.results _ hres
      (fun q r => (catchment ci r).map fun h => ({ pre := [q.1, h.name], dist := some h.dist, post := [] } : ERow))
      (fun q => (findClosestN (effK ci) ci.maxd (hitsOf ci.measure (q.2.map (enc false)) (modelTargets ci.ts))).map
        fun h => ({ pre := [q.1, h.name], dist := some h.dist, post := [] } : ERow))
      (by intro i q hq; simp only [catchment_every_schedule ci cap i q hq])
    rw [hrows]
    simp only [modelText, modelRows, rowsFor, htab, List.flatMap]
  · simp only [htab, if_false]
    have hrows := rows_of_results ci.qs s.results _ hres
      (fun q r => ({ pre := [q.1, joinWith ";" ((catchment ci r).map (·.name))], dist := none, post := [] } : ERow))
      (fun q => ({ pre := [q.1, joinWith ";" ((findClosestN (effK ci) ci.maxd
        (hitsOf ci.measure (q.2.map (enc false)) (modelTargets ci.ts))).map (·.name))], dist := none, post := [] } : ERow))
      (by intro i q hq; simp only [catchment_every_schedule ci cap i q hq])
    rw [hrows]
    simp only [modelText, modelRows, rowsFor]

theorem closestN_maximal_run (ci : ClosestIn) (cap : Nat) (hmode : ci.mode ≠ "plain")
    {s : State (Target × Nat) (List Hit)} (hr : Reach (closestNCfg ci cap) s)
    (hstuck : enabled (closestNCfg ci cap) s = []) :
    s.main = .ret ∧ catchText ci s.results = modelText ci := by
  have hm := (fanout_maximal_run hr hstuck).1
  exact ⟨hm, closestN_every_schedule ci cap hmode hr hm⟩

theorem closestN_runSchedule (ci : ClosestIn) (cap : Nat) (hmode : ci.mode ≠ "plain") (sched : List Nat)
    (hlen : (ci.qs.length + 3) * ci.ts.length + 4 * ci.qs.length + 9 ≤ sched.length) :
    (runSchedule (closestNCfg ci cap) sched).main = .ret ∧
    catchText ci (runSchedule (closestNCfg ci cap) sched).results = modelText ci := by
  have hm := (runSchedule_returns (cfg := closestNCfg ci cap) sched
    (by simpa [closestNCfg, indexed, modelTargets] using hlen)).1
  exact ⟨hm, closestN_every_schedule ci cap hmode (runSchedule_reach _ sched) hm⟩

end closestN

/-! ## C. `gofasta updown topranking`: the four bins of a query as the accumulator -/

section topRanking
open Gofasta.Model.Fanout Gofasta.Lemmas.Fanout

/-- the tests a target goes through before it reaches a bin: its own ambiguity count, the ignore list, whichWay -/
def trCand (o : TROpts) (q t : UDLine) : Option (Nat × UDHit) :=
  if t.ambCount > o.threshTarg then none
  else if o.ignore.contains t.id then none
  else match whichWay q t o.thrNum o.thrDen with
    | none => none
    | some (dir, dist) => some (dir, { name := t.id, dist := dist, amb := t.ambCount })

def trTotal (o : TROpts) : Nat := if o.sizes.contains bigN then bigN else o.sizes.sum

/-- one bin of the sequential model, from the candidates in file order -/
def seqBin (o : TROpts) (cands : List (Nat × UDHit)) (dir : Nat) : List UDHit :=
  if o.push > 0 then
    (if dir = 0 then (cands.filter fun c => c.1 == dir).map (·.2)
     else sortStable udLt ((((cands.filter fun c => c.1 == dir).map (·.2)).foldl (pushInsert o.push) []).flatMap (·.2)))
  else topKG udLt (trTotal o) (((cands.filter fun c => c.1 == dir).map (·.2)).filter fun h => h.dist ≤ o.dists.getD dir 0)

/-- after the four bins are known: the balance of the sizes (nothing to do in push mode) -/
def trBalance (o : TROpts) (bins : List (List UDHit)) : List (List UDHit) :=
  if o.push > 0 then bins
  else (bins.zip (balance (trTotal o) o.sizes (bins.map (·.length)) o.nofill)).map fun (b, s) => b.take s

/-- the sequential model as: candidates, four bins, balance -/
theorem topRankingQuery_eq (o : TROpts) (q : UDLine) (targets : List UDLine) :
    topRankingQuery o q targets = trBalance o ((List.range 4).map (seqBin o (targets.filterMap (trCand o q)))) := by
  unfold topRankingQuery trBalance
  by_cases hp : o.push > 0
  · have hf : seqBin o (targets.filterMap (trCand o q)) = fun dir =>
        (if dir = 0 then ((targets.filterMap (trCand o q)).filter fun c => c.1 == dir).map (·.2)
         else sortStable udLt (((((targets.filterMap (trCand o q)).filter fun c => c.1 == dir).map (·.2)).foldl
          (pushInsert o.push) []).flatMap (·.2))) := by
      funext dir; simp only [seqBin, hp, if_true]
    rw [hf]
    simp only [hp, if_true]
    rfl
  · have hf : seqBin o (targets.filterMap (trCand o q)) = fun dir =>
        topKG udLt (trTotal o) ((((targets.filterMap (trCand o q)).filter fun c => c.1 == dir).map (·.2)).filter
          fun h => h.dist ≤ o.dists.getD dir 0) := by
      funext dir; simp only [seqBin, hp, if_false]
    rw [hf]
    simp only [hp, if_false]
    rfl

/-- what a query goroutine keeps per direction: the list (bin "same" in push mode; the bounded catchment otherwise)
and, in push mode, the map of the k smallest distances -/
structure TRBin where
  hits : List UDHit := []
  byDist : List (Nat × List UDHit) := []

/-- a candidate arriving at the bin of direction dir -/
def binStep (o : TROpts) (dir : Nat) (b : TRBin) (h : UDHit) : TRBin :=
  if o.push > 0 then
    (if dir = 0 then ⟨b.hits ++ [h], b.byDist⟩ else ⟨b.hits, pushInsert o.push b.byDist h⟩)
  else if h.dist ≤ o.dists.getD dir 0 then ⟨catchStepG udLt (trTotal o) b.hits h, b.byDist⟩ else b

/-- the bin once the targets are exhausted -/
def binFinish (o : TROpts) (dir : Nat) (b : TRBin) : List UDHit :=
  if o.push > 0 then (if dir = 0 then b.hits else sortStable udLt (b.byDist.flatMap (·.2)))
  else catchFinishG udLt (trTotal o) b.hits

def emptyBins : List TRBin := List.replicate 4 {}

/-- a target arriving at a query goroutine -/
def trStep (o : TROpts) (q : UDLine) (bins : List TRBin) (t : UDLine) : List TRBin :=
  match trCand o q t with
  | some c => bins.modify c.1 (fun b => binStep o c.1 b c.2)
  | none => bins

/-- what the goroutine reports (main prints it) -/
def trFinish (o : TROpts) (bins : List TRBin) : List (List UDHit) :=
  trBalance o ((List.range 4).map fun d => binFinish o d (bins.getD d {}))

/-- updating the bin a candidate belongs to, read at bin d, is a fold over the candidates of direction d -/
theorem foldl_modify_get {β γ : Type} (step : Nat → β → γ → β) (d : Nat) : ∀ (cands : List (Nat × γ)) (bins : List β),
    (cands.foldl (fun bins c => bins.modify c.1 (fun b => step c.1 b c.2)) bins)[d]? =
      bins[d]?.map (fun b => ((cands.filter fun c => c.1 == d).map (·.2)).foldl (step d) b) := by
  intro cands
  induction cands with
  | nil => intro bins; simp
  | cons c t ih =>
    intro bins
    simp only [List.foldl_cons, ih, List.getElem?_modify]
    by_cases hc : c.1 = d
    · have hb : (c.1 == d) = true := by simpa using hc
      simp only [List.filter_cons, hb, if_true, List.map_cons, List.foldl_cons]
      cases bins[d]? with
      | none => rfl
      | some b => simp [hc]
    · have hb : (c.1 == d) = false := by simpa using hc
      simp only [List.filter_cons, hb, Bool.false_eq_true, if_false]
      cases bins[d]? with
      | none => rfl
      | some b => simp [hc]

theorem binStep_push_same (o : TROpts) (hp : o.push > 0) : ∀ (hs : List UDHit) (b : TRBin),
    (hs.foldl (binStep o 0) b).hits = b.hits ++ hs := by
  intro hs
  induction hs with
  | nil => intro b; simp
  | cons h t ih => intro b; simp only [List.foldl_cons, ih]; simp [binStep, hp]

theorem binStep_push_other (o : TROpts) (hp : o.push > 0) (d : Nat) (hd : d ≠ 0) : ∀ (hs : List UDHit) (b : TRBin),
    (hs.foldl (binStep o d) b).byDist = hs.foldl (pushInsert o.push) b.byDist := by
  intro hs
  induction hs with
  | nil => intro b; rfl
  | cons h t ih => intro b; simp only [List.foldl_cons, ih]; simp [binStep, hp, hd]

theorem binStep_catch (o : TROpts) (hp : ¬ o.push > 0) (d : Nat) : ∀ (hs : List UDHit) (b : TRBin),
    (hs.foldl (binStep o d) b).hits =
      (hs.filter fun h => h.dist ≤ o.dists.getD d 0).foldl (catchStepG udLt (trTotal o)) b.hits := by
  intro hs
  induction hs with
  | nil => intro b; rfl
  | cons h t ih =>
    intro b
    simp only [List.foldl_cons, ih, List.filter_cons]
    by_cases hw : h.dist ≤ o.dists.getD d 0
    · simp only [binStep, hp, if_false, hw, if_true, decide_true, List.foldl_cons]
    · simp only [binStep, hp, if_false, hw, decide_false, Bool.false_eq_true]

/-- bin d of the goroutine, finished, is bin d of the sequential model -/
theorem binFinish_foldl (o : TROpts) (d : Nat) (hs : List UDHit) :
    binFinish o d (hs.foldl (binStep o d) {}) =
      if o.push > 0 then (if d = 0 then hs else sortStable udLt ((hs.foldl (pushInsert o.push) []).flatMap (·.2)))
      else topKG udLt (trTotal o) (hs.filter fun h => h.dist ≤ o.dists.getD d 0) := by
  unfold binFinish
  by_cases hp : o.push > 0
  · simp only [hp, if_true]
    by_cases hd : d = 0
    · subst hd; simp only [if_true, binStep_push_same o hp]; simp
    · simp only [hd, if_false, binStep_push_other o hp d hd]
  · simp only [hp, if_false, binStep_catch o hp, topKG]

/-- the whole loop of a query goroutine, finished, is the sequential topRankingQuery -/
theorem trFinish_foldl (o : TROpts) (q : UDLine) (targets : List UDLine) :
    trFinish o (targets.foldl (trStep o q) emptyBins) = topRankingQuery o q targets := by
  rw [topRankingQuery_eq]
  unfold trFinish
  congr 1
  apply List.map_congr_left
  intro d hd
  have hd4 : d < 4 := List.mem_range.mp hd
  have hstep : targets.foldl (trStep o q) emptyBins =
      (targets.filterMap (trCand o q)).foldl (fun bins c => bins.modify c.1 (fun b => binStep o c.1 b c.2)) emptyBins := by
    rw [foldl_filterMap]
    congr 1
    funext bins t
    unfold trStep
    cases trCand o q t <;> rfl
  have hget := foldl_modify_get (binStep o) d (targets.filterMap (trCand o q)) emptyBins
  have he : emptyBins[d]? = some {} := by
    have : d = 0 ∨ d = 1 ∨ d = 2 ∨ d = 3 := by omega
    rcases this with rfl | rfl | rfl | rfl <;> rfl
  rw [List.getD_eq_getElem?_getD, hstep, hget, he]
  simp only [Option.map_some, Option.getD_some, binFinish_foldl]
  rfl

/-- the target lines, in file order (what the reader sends) -/
def trTargets (ti : TRIn) : List UDLine :=
  ti.ts.map fun (n, s) => getLine n (ti.ref.map (enc false)) (s.map (enc false))

def trQuery (ti : TRIn) (q : String × List Nat) : UDLine := getLine q.1 (ti.ref.map (enc false)) (q.2.map (enc false))

/-- the accumulator of query goroutine i: the four bins, empty before the first target -/
def trAcc (o : TROpts) (qs : List UDLine) (i : Nat) (st : Option (List TRBin)) (t : UDLine) : List TRBin :=
  trStep o (qs.getD i default) (st.getD emptyBins) t

/-- `updown topranking` as a run of the fan-out -/
def topRankingCfg (ti : TRIn) (cap : Nat) : Cfg UDLine (List TRBin) where
  targets := trTargets ti
  nQ := ti.qs.length
  cap := cap
  acc := trAcc ti.opts (ti.qs.map (trQuery ti))

theorem foldAcc_tr (o : TROpts) (qs : List UDLine) (i : Nat) (l : List UDLine) (b : Option (List TRBin)) :
    (foldAcc (trAcc o qs) i b l).getD emptyBins = l.foldl (trStep o (qs.getD i default)) (b.getD emptyBins) := by
  induction l generalizing b with
  | nil => rfl
  | cons t ts ih => simp only [foldAcc, ih, Option.getD_some, List.foldl_cons, trAcc]

/-- what main prints after the collection, from the results array -/
def trText (ti : TRIn) (results : List (Option (Option (List TRBin)))) : String :=
  if ti.table then trTableOutput ((ti.qs.zip results).map fun p => (p.1.1, trFinish ti.opts ((p.2.getD none).getD emptyBins)))
  else trListOutput ((ti.qs.zip results).map fun p => (p.1.1, trFinish ti.opts ((p.2.getD none).getD emptyBins)))

theorem runC08_model (c : Case) : (runC08 c).model = modelTR (trIn c) := rfl

/-- **C. updown topranking, every schedule**: whenever main has returned, the text printed from the results array
is the sequential model's text (both output forms, push mode and size mode) -/
theorem topranking_every_schedule (ti : TRIn) (cap : Nat) (a : List Nat × List Nat) (hargs : ti.args = some a)
    {s : State UDLine (List TRBin)} (hr : Reach (topRankingCfg ti cap) s) (hm : s.main = .ret) :
    trText ti s.results = modelTR ti := by
  have hres := fanout_result_eq hr hm
  have hrows := rows_of_results ti.qs s.results _ hres
    (fun q r => (q.1, trFinish ti.opts ((r.getD none).getD emptyBins)))
    (fun q => (q.1, topRankingQuery ti.opts (trQuery ti q) (trTargets ti)))
    (by
      intro i q hq
      simp only [Option.getD_some, expected, topRankingCfg, foldAcc_tr, Option.getD_none, trFinish_foldl]
      congr 2
      simp [hq])
  unfold trText
  rw [hrows]
  simp only [modelTR, hargs]
  rfl

theorem topranking_maximal_run (ti : TRIn) (cap : Nat) (a : List Nat × List Nat) (hargs : ti.args = some a)
    {s : State UDLine (List TRBin)} (hr : Reach (topRankingCfg ti cap) s)
    (hstuck : enabled (topRankingCfg ti cap) s = []) :
    s.main = .ret ∧ trText ti s.results = modelTR ti := by
  have hm := (fanout_maximal_run hr hstuck).1
  exact ⟨hm, topranking_every_schedule ti cap a hargs hr hm⟩

theorem topranking_runSchedule (ti : TRIn) (cap : Nat) (a : List Nat × List Nat) (hargs : ti.args = some a)
    (sched : List Nat) (hlen : (ti.qs.length + 3) * ti.ts.length + 4 * ti.qs.length + 9 ≤ sched.length) :
    (runSchedule (topRankingCfg ti cap) sched).main = .ret ∧
    trText ti (runSchedule (topRankingCfg ti cap) sched).results = modelTR ti := by
  have hm := (runSchedule_returns (cfg := topRankingCfg ti cap) sched
    (by simpa [topRankingCfg, trTargets] using hlen)).1
  exact ⟨hm, topranking_every_schedule ti cap a hargs (runSchedule_reach _ sched) hm⟩

end topRanking

/-! ## D. `gofasta sam toPairAlign`: two worker pools (block to pair, pair to window) -/

section toPairAlign
open Gofasta.Model.SchedChain Gofasta.Lemmas.SchedChain Gofasta.Lemmas.SchedCommands

/-- what travels on the three channels of sam.ToPairAlign (the chain model has one value type for all channels) -/
inductive PA where
  | block (b : List SamRec)                          -- cSR: the records of one query
  | pair (name : String) (p : List Nat × List Nat)   -- cPairAlign, cPairAlignTrimmed: (reference row, query row)

/-- pool 1: block to pairwise alignment -/
def paPair (ref : List Nat) (omitIns : Bool) : PA → Except CmdErr PA
  | .block b => .ok (.pair (b.headD default).name (pairOfBlock b ref omitIns))
  | _ => .error .stage

/-- pool 2: trim to the window (s, e, trim) of checkArgs -/
def paTrim (w : Nat × Nat × Bool) : PA → Except CmdErr PA
  | .pair n p => .ok (.pair n (if w.2.2 then trimPair p w.1 w.2.1 else p))
  | _ => .error .stage

/-- the name and the text of one pair -/
def paFile (wrap : Int) (refName : String) (omitRef : Bool) : PA → String × String
  | .pair n p => (n, pairText wrap refName n omitRef p)
  | _ => ("", "")

def paRender (wrap : Int) (refName : String) (omitRef : Bool) (x : PA) : String := (paFile wrap refName omitRef x).2

/-- a block through both pools -/
def paBoth (ref : List Nat) (omitIns : Bool) (w : Nat × Nat × Bool) (b : List SamRec) : PA :=
  .pair (b.headD default).name
    (if w.2.2 then trimPair (pairOfBlock b ref omitIns) w.1 w.2.1 else pairOfBlock b ref omitIns)

def paPools (ref : List Nat) (omitIns : Bool) (w : Nat × Nat × Bool) (N1 N2 cap1 cap2 : Nat) : List (Pool PA CmdErr) :=
  [⟨N1, paPair ref omitIns, cap1⟩, ⟨N2, paTrim w, cap2⟩]

theorem pa_pass_block (ref : List Nat) (omitIns : Bool) (w : Nat × Nat × Bool) (N1 N2 cap1 cap2 : Nat) (b : List SamRec) :
    pass (paPools ref omitIns w N1 N2 cap1 cap2) (.block b) = .ok (paBoth ref omitIns w b) := rfl

theorem pa_items_pass (ref : List Nat) (omitIns : Bool) (w : Nat × Nat × Bool) (N1 N2 cap1 cap2 : Nat)
    (blocks : List (List SamRec)) :
    (blocks.map PA.block).map (pass (paPools ref omitIns w N1 N2 cap1 cap2)) =
      (blocks.map (paBoth ref omitIns w)).map Except.ok := by
  simp only [List.map_map]
  rfl

theorem pa_pools_N (ref : List Nat) (omitIns : Bool) (w : Nat × Nat × Bool) (N1 N2 cap1 cap2 : Nat)
    (hN1 : 1 ≤ N1) (hN2 : 1 ≤ N2) : ∀ P ∈ paPools ref omitIns w N1 N2 cap1 cap2, 1 ≤ P.N := by
  intro P hP
  simp only [paPools, List.mem_cons, List.not_mem_nil, or_false] at hP
  rcases hP with rfl | rfl
  · exact hN1
  · exact hN2

/-- the files of the sequential model, from the blocks -/
theorem toPairAlign_files (ref : List Nat) (refName : String) (start stop wrap : Int) (omitRef omitIns : Bool)
    (recs : List SamRec) (w : Nat × Nat × Bool) (hargs : checkArgs ref.length start stop = some w) :
    toPairAlign ref refName start stop wrap omitRef omitIns recs =
      some (((samBlocks recs).map (paBoth ref omitIns w)).map (paFile wrap refName omitRef)) := by
  obtain ⟨s, e, trim⟩ := w
  unfold toPairAlign
  rw [hargs]
  simp only [List.map_map]
  rfl

/-! ### output to stdout: the re-ordering text writer -/

/-- what the model prints on stdout: the texts of the pairs, in input order -/
def topaStdout (l : List (String × String)) : String := String.join (l.map Prod.snd)

/-- `sam toPairAlign -o stdout` as a run of the chain with two pools -/
def topaCfg (ref : List Nat) (refName : String) (wrap : Int) (omitRef omitIns : Bool) (w : Nat × Nat × Bool)
    (blocks : List (List SamRec)) (N1 N2 cap0 cap1 cap2 : Nat) (rf : Option (Nat × CmdErr)) :
    Cfg PA CmdErr (TextW PA) where
  items := blocks.map .block
  pools := paPools ref omitIns w N1 N2 cap1 cap2
  cap0 := cap0
  readFail := rf
  absorb := fun st r => .ok (TextW.absorb (paRender wrap refName omitRef) 0 st r)
  finish := fun st => .ok st
  init := TextW.start "" 0

/-- **D. sam toPairAlign to stdout, every schedule of the two-pool chain**: whenever the driver returns nil the bytes
written are the texts of the sequential model's pairs, in input order -/
theorem topa_stdout_every_schedule (ref : List Nat) (refName : String) (start stop wrap : Int) (omitRef omitIns : Bool)
    (recs : List SamRec) (w : Nat × Nat × Bool) (hargs : checkArgs ref.length start stop = some w)
    (N1 N2 cap0 cap1 cap2 : Nat) (rf : Option (Nat × CmdErr)) (hN1 : 1 ≤ N1) (hN2 : 1 ≤ N2) {s : State _ _ _}
    (hr : Reach (topaCfg ref refName wrap omitRef omitIns w (samBlocks recs) N1 N2 cap0 cap1 cap2 rf) s)
    (hm : s.main = .ret none) :
    some s.wst.text = (toPairAlign ref refName start stop wrap omitRef omitIns recs).map topaStdout := by
  obtain ⟨ys, hys, htext⟩ := chain_text_writer_every_schedule
    (cfg := topaCfg ref refName wrap omitRef omitIns w (samBlocks recs) N1 N2 cap0 cap1 cap2 rf)
    (paRender wrap refName omitRef) "" 0 (pa_pools_N ref omitIns w N1 N2 cap1 cap2 hN1 hN2)
    (fun _ _ => rfl) (fun _ => rfl) rfl hr hm
  have hys1 : (samBlocks recs).map (paBoth ref omitIns w) = ys := by
    apply (List.map_inj_right (fun a b h => Except.ok.inj h)).mp
    rw [← hys]
    exact (pa_items_pass ref omitIns w N1 N2 cap1 cap2 (samBlocks recs)).symm
  rw [toPairAlign_files ref refName start stop wrap omitRef omitIns recs w hargs, htext, ← hys1]
  simp only [Option.map_some, topaStdout, List.map_map, String.empty_append]
  rfl

/-- **D, executed schedules** -/
theorem topa_stdout_runSchedule (ref : List Nat) (refName : String) (start stop wrap : Int) (omitRef omitIns : Bool)
    (recs : List SamRec) (w : Nat × Nat × Bool) (hargs : checkArgs ref.length start stop = some w)
    (N1 N2 cap0 cap1 cap2 : Nat) (hN1 : 1 ≤ N1) (hN2 : 1 ≤ N2) (sched : List Nat)
    (hlen : μ (topaCfg ref refName wrap omitRef omitIns w (samBlocks recs) N1 N2 cap0 cap1 cap2 none)
      (init (topaCfg ref refName wrap omitRef omitIns w (samBlocks recs) N1 N2 cap0 cap1 cap2 none)) ≤ sched.length) :
    (runSchedule (topaCfg ref refName wrap omitRef omitIns w (samBlocks recs) N1 N2 cap0 cap1 cap2 none) sched).main
      = .ret none ∧
    some (runSchedule (topaCfg ref refName wrap omitRef omitIns w (samBlocks recs) N1 N2 cap0 cap1 cap2 none) sched).wst.text
      = (toPairAlign ref refName start stop wrap omitRef omitIns recs).map topaStdout := by
  have hf : ∀ x ∈ (topaCfg ref refName wrap omitRef omitIns w (samBlocks recs) N1 N2 cap0 cap1 cap2 none).items,
      ∃ y, pass (topaCfg ref refName wrap omitRef omitIns w (samBlocks recs) N1 N2 cap0 cap1 cap2 none).pools x = .ok y := by
    intro x hx
    obtain ⟨b, _, rfl⟩ := List.mem_map.mp hx
    exact ⟨_, pa_pass_block ref omitIns w N1 N2 cap1 cap2 b⟩
  have hm := chain_runSchedule_returns_nil
    (cfg := topaCfg ref refName wrap omitRef omitIns w (samBlocks recs) N1 N2 cap0 cap1 cap2 none)
    (pa_pools_N ref omitIns w N1 N2 cap1 cap2 hN1 hN2) rfl hf (fun _ _ => ⟨_, rfl⟩) (fun _ => ⟨_, rfl⟩) sched hlen
  exact ⟨hm, topa_stdout_every_schedule ref refName start stop wrap omitRef omitIns recs w hargs
    N1 N2 cap0 cap1 cap2 none hN1 hN2 (runSchedule_reach _ sched) hm⟩

/-! ### output to a directory: one file per pair, written on arrival (no re-ordering) -/

/-- the directory as a finite map from file name to contents; creating a file that exists replaces it -/
def fsWrite (fs : List (String × String)) (f : String × String) : List (String × String) :=
  f :: fs.filter (fun g => g.1 != f.1)

/-- `sam toPairAlign -o dir` as a run of the chain with two pools: the writer creates the file of every pair as the
pair arrives -/
def topaDirCfg (ref : List Nat) (refName : String) (wrap : Int) (omitRef omitIns : Bool) (w : Nat × Nat × Bool)
    (blocks : List (List SamRec)) (N1 N2 cap0 cap1 cap2 : Nat) (rf : Option (Nat × CmdErr)) :
    Cfg PA CmdErr (List (String × String)) where
  items := blocks.map .block
  pools := paPools ref omitIns w N1 N2 cap1 cap2
  cap0 := cap0
  readFail := rf
  absorb := fun st r => .ok (fsWrite st (paFile wrap refName omitRef r.2))
  finish := fun st => .ok st
  init := []

/-- files with distinct names, written in any order, are all there -/
theorem foldl_fsWrite_distinct : ∀ (fs acc : List (String × String)), ((acc ++ fs).map Prod.fst).Nodup →
    fs.foldl fsWrite acc = fs.reverse ++ acc := by
  intro fs
  induction fs with
  | nil => intro acc _; rfl
  | cons f t ih =>
    intro acc hnd
    have hperm : (f :: acc ++ t).Perm (acc ++ f :: t) := List.perm_middle.symm
    have hnd' : ((f :: acc ++ t).map Prod.fst).Nodup := (hperm.map Prod.fst).nodup_iff.mpr hnd
    have hkeep : acc.filter (fun g => g.1 != f.1) = acc := by
      apply List.filter_eq_self.mpr
      intro g hg
      simp only [List.cons_append, List.map_cons, List.nodup_cons, List.mem_map, List.mem_append] at hnd'
      simp only [bne_iff_ne, ne_eq]
      intro hgf
      exact hnd'.1 ⟨g, Or.inl hg, hgf⟩
    simp only [List.foldl_cons, fsWrite, hkeep]
    rw [ih (f :: acc) hnd']
    simp

/-- the general case: the file called n holds what the LAST arrival called n carried -/
theorem foldl_fsWrite_lookup (n : String) : ∀ (fs acc : List (String × String)),
    List.lookup n (fs.foldl fsWrite acc) = (List.lookup n fs.reverse).or (List.lookup n acc) := by
  intro fs
  induction fs with
  | nil => intro acc; rfl
  | cons f t ih =>
    intro acc
    simp only [List.foldl_cons, ih, List.reverse_cons, List.lookup_append]
    have h1 : List.lookup n (fsWrite acc f) = (List.lookup n [f]).or (List.lookup n acc) := by
      obtain ⟨fn, ft⟩ := f
      simp only [fsWrite, List.lookup_cons, List.lookup_nil]
      by_cases hn : n = fn
      · subst hn; simp
      · have hb : (n == fn) = false := by simpa using hn
        simp only [hb, Option.none_or]
        induction acc with
        | nil => rfl
        | cons g u ihu =>
          obtain ⟨gn, gt⟩ := g
          by_cases hg : gn = fn
          · subst hg
            have : (n == gn) = false := hb
            simp [List.lookup_cons, this, ihu]
          · have hg' : (gn != fn) = true := by simpa using hg
            simp only [List.filter_cons, hg', if_true, List.lookup_cons, ihu]
    rw [h1, Option.or_assoc]

theorem lookup_eq_some_iff_mem (n v : String) : ∀ (l : List (String × String)), (l.map Prod.fst).Nodup →
    (List.lookup n l = some v ↔ (n, v) ∈ l) := by
  intro l
  induction l with
  | nil => intro _; simp
  | cons g t ih =>
    intro hnd
    obtain ⟨gn, gt⟩ := g
    simp only [List.map_cons, List.nodup_cons, List.mem_map] at hnd
    by_cases hn : n = gn
    · subst hn
      simp only [List.lookup_cons, beq_self_eq_true, Option.some.injEq, List.mem_cons, Prod.mk.injEq, true_and]
      constructor
      · intro h; exact Or.inl h.symm
      · intro h
        rcases h with h | h
        · exact h.symm
        · exact absurd ⟨(n, v), h, rfl⟩ hnd.1
    · have hb : (n == gn) = false := by simpa using hn
      simp only [List.lookup_cons, hb, List.mem_cons, Prod.mk.injEq, hn, false_and, false_or]
      exact ih hnd.2

theorem lookup_perm_nodup (n : String) {l1 l2 : List (String × String)} (hp : l1.Perm l2)
    (hnd : (l1.map Prod.fst).Nodup) : List.lookup n l1 = List.lookup n l2 := by
  have hnd2 : (l2.map Prod.fst).Nodup := (hp.map Prod.fst).nodup_iff.mp hnd
  apply Option.ext
  intro v
  rw [lookup_eq_some_iff_mem n v l1 hnd, lookup_eq_some_iff_mem n v l2 hnd2]
  exact hp.mem_iff

/-- **D. sam toPairAlign to a directory, every schedule**: when the query names of the blocks are distinct, whenever
the driver returns nil the directory holds exactly the files of the sequential model (as a list: in the reverse
of the arrival order, which is some permutation of the model's order) -/
theorem topa_dir_every_schedule (ref : List Nat) (refName : String) (start stop wrap : Int) (omitRef omitIns : Bool)
    (recs : List SamRec) (w : Nat × Nat × Bool) (hargs : checkArgs ref.length start stop = some w)
    (hnames : ((samBlocks recs).map fun b => (b.headD default).name).Nodup)
    (N1 N2 cap0 cap1 cap2 : Nat) (rf : Option (Nat × CmdErr)) (hN1 : 1 ≤ N1) (hN2 : 1 ≤ N2) {s : State _ _ _}
    (hr : Reach (topaDirCfg ref refName wrap omitRef omitIns w (samBlocks recs) N1 N2 cap0 cap1 cap2 rf) s)
    (hm : s.main = .ret none) :
    ∃ files, toPairAlign ref refName start stop wrap omitRef omitIns recs = some files ∧ s.wst.Perm files ∧
      ∀ n, List.lookup n s.wst = List.lookup n files := by
  refine ⟨_, toPairAlign_files ref refName start stop wrap omitRef omitIns recs w hargs, ?_⟩
  obtain ⟨_, hall, arr, hperm, hgood, st, hfold, hfin⟩ := chain_success_means_complete
    (cfg := topaDirCfg ref refName wrap omitRef omitIns w (samBlocks recs) N1 N2 cap0 cap1 cap2 rf)
    (pa_pools_N ref omitIns w N1 N2 cap1 cap2 hN1 hN2) hr hm
  have habs : ∀ (st : List (String × String)) (r : Nat × PA),
      (topaDirCfg ref refName wrap omitRef omitIns w (samBlocks recs) N1 N2 cap0 cap1 cap2 rf).absorb st r =
        .ok ((fun st r => fsWrite st (paFile wrap refName omitRef r.2)) st r) := fun _ _ => rfl
  rw [Gofasta.Lemmas.Sched.absorbAll_total habs] at hfold
  injection hfold with hfold
  have hfin' : st = s.wst := by
    have : (Except.ok st : Except CmdErr _) = .ok s.wst := hfin
    injection this
  subst hfin'
  -- the payloads, in arrival order, are a permutation of the model's pairs
  have hlen : (topaDirCfg ref refName wrap omitRef omitIns w (samBlocks recs) N1 N2 cap0 cap1 cap2 rf).items.length =
      ((samBlocks recs).map (paBoth ref omitIns w)).length := by simp [topaDirCfg]
  have hgood' : ∀ r ∈ arr, ((samBlocks recs).map (paBoth ref omitIns w))[r.1]? = some r.2 := by
    intro r hr'
    obtain ⟨x, hx, hf⟩ := hgood r hr'
    exact good_index (pa_items_pass ref omitIns w N1 N2 cap1 cap2 (samBlocks recs)) hx hf
  rw [hlen] at hperm
  have hsnd := snd_perm_of_indexed hperm hgood'
  have hfiles : ((arr.map Prod.snd).map (paFile wrap refName omitRef)).Perm
      (((samBlocks recs).map (paBoth ref omitIns w)).map (paFile wrap refName omitRef)) := hsnd.map _
  have hfst : (((samBlocks recs).map (paBoth ref omitIns w)).map (paFile wrap refName omitRef)).map Prod.fst =
      (samBlocks recs).map fun b => (b.headD default).name := by
    simp only [List.map_map]
    rfl
  have hnd : (((arr.map Prod.snd).map (paFile wrap refName omitRef)).map Prod.fst).Nodup := by
    rw [(hfiles.map Prod.fst).nodup_iff, hfst]
    exact hnames
  have hst : s.wst = ((arr.map Prod.snd).map (paFile wrap refName omitRef)).reverse := by
    rw [← hfold]
    have := foldl_fsWrite_distinct ((arr.map Prod.snd).map (paFile wrap refName omitRef)) [] (by simpa using hnd)
    rw [List.append_nil] at this
    rw [← this, List.map_map, foldl_map]
    rfl
  have hp : s.wst.Perm (((samBlocks recs).map (paBoth ref omitIns w)).map (paFile wrap refName omitRef)) := by
    rw [hst]
    exact (List.reverse_perm _).trans hfiles
  refine ⟨hp, ?_⟩
  intro n
  have hnd2 : (s.wst.map Prod.fst).Nodup := by
    rw [(hp.map Prod.fst).nodup_iff, hfst]; exact hnames
  exact lookup_perm_nodup n hp hnd2

/-- **D, without the hypothesis on the names**: the directory is determined by the arrival order at the writer (a
permutation of the input order, the payloads being the model's pairs): the file called n holds the text of the LAST
arrival called n -/
theorem topa_dir_last_arrival (ref : List Nat) (refName : String) (wrap : Int) (omitRef omitIns : Bool)
    (blocks : List (List SamRec)) (w : Nat × Nat × Bool)
    (N1 N2 cap0 cap1 cap2 : Nat) (rf : Option (Nat × CmdErr)) (hN1 : 1 ≤ N1) (hN2 : 1 ≤ N2) {s : State _ _ _}
    (hr : Reach (topaDirCfg ref refName wrap omitRef omitIns w blocks N1 N2 cap0 cap1 cap2 rf) s)
    (hm : s.main = .ret none) :
    ∃ arr : List (Nat × PA), (arr.map Prod.fst).Perm (List.range blocks.length) ∧
      (∀ r ∈ arr, (blocks.map (paBoth ref omitIns w))[r.1]? = some r.2) ∧
      ∀ n, List.lookup n s.wst = List.lookup n ((arr.map fun r => paFile wrap refName omitRef r.2).reverse) := by
  obtain ⟨_, hall, arr, hperm, hgood, st, hfold, hfin⟩ := chain_success_means_complete
    (cfg := topaDirCfg ref refName wrap omitRef omitIns w blocks N1 N2 cap0 cap1 cap2 rf)
    (pa_pools_N ref omitIns w N1 N2 cap1 cap2 hN1 hN2) hr hm
  have habs : ∀ (st : List (String × String)) (r : Nat × PA),
      (topaDirCfg ref refName wrap omitRef omitIns w blocks N1 N2 cap0 cap1 cap2 rf).absorb st r =
        .ok ((fun st r => fsWrite st (paFile wrap refName omitRef r.2)) st r) := fun _ _ => rfl
  rw [Gofasta.Lemmas.Sched.absorbAll_total habs] at hfold
  injection hfold with hfold
  have hfin' : st = s.wst := by
    have : (Except.ok st : Except CmdErr _) = .ok s.wst := hfin
    injection this
  subst hfin'
  refine ⟨arr, ?_, ?_, ?_⟩
  · simpa [topaDirCfg] using hperm
  · intro r hr'
    obtain ⟨x, hx, hf⟩ := hgood r hr'
    exact good_index (pa_items_pass ref omitIns w N1 N2 cap1 cap2 blocks) hx hf
  · intro n
    rw [← hfold]
    have := foldl_fsWrite_lookup n (arr.map fun r => paFile wrap refName omitRef r.2) []
    rw [foldl_map] at this
    simp only [List.lookup_nil, Option.or_none] at this
    exact this

end toPairAlign

/-! ## the statements are not vacuous: concrete inputs, two schedules each -/

namespace Examples

/-! ### A, B. closest: two queries (ACGT, TTGT), five targets; snp distance.
For q1 the targets t2 (ACNT), t4 and t5 (ACGT) are all at distance 0: t4 wins over t2 by completeness, and is kept
against t5 (a full tie: the incumbent stays). -/

def exCi (mode : String) (k : Nat) (maxd : Option (Nat × Nat)) : ClosestIn :=
  { measure := .snp, mode := mode, k := k, maxd := maxd,
    qs := [("q1", [65, 67, 71, 84]), ("q2", [84, 84, 71, 84])],
    ts := [("t1", [65, 67, 71, 65]), ("t2", [65, 67, 78, 84]), ("t3", [84, 84, 71, 65]), ("t4", [65, 67, 71, 84]),
           ("t5", [65, 67, 71, 84])] }

/-- two schedules (the k-th number picks the enabled step number k modulo the count of enabled steps) -/
def fsched1 : List Nat := List.replicate 45 0
def fsched2 : List Nat := List.replicate 45 1

section
open Gofasta.Model.Fanout Gofasta.Lemmas.Fanout

def plainEx := closestCfg (exCi "plain" 0 none) 1

/-- two schedules, different interleavings and different orders of collection (query 0 first, query 1 first),
the model's text both times -/
example :
    (traceWith (step? plainEx) (allLabels 2) (init plainEx) fsched1).filter (fun l => l == .handRes 0 || l == .handRes 1)
      = [.handRes 0, .handRes 1] ∧
    (traceWith (step? plainEx) (allLabels 2) (init plainEx) fsched2).filter (fun l => l == .handRes 0 || l == .handRes 1)
      = [.handRes 1, .handRes 0] ∧
    (runSchedule plainEx fsched1).main = .ret ∧
    (runSchedule plainEx fsched2).main = .ret ∧
    plainText (exCi "plain" 0 none) (runSchedule plainEx fsched1).results = modelText (exCi "plain" 0 none) ∧
    plainText (exCi "plain" 0 none) (runSchedule plainEx fsched2).results = modelText (exCi "plain" 0 none) ∧
    modelText (exCi "plain" 0 none) = "query,closest,distance,SNPs\nq1,t4,0,\nq2,t3,1,4TA\n" := by
  decide

/-- and the general theorem says the same about every schedule -/
example (sched : List Nat) (h : (runSchedule plainEx sched).main = .ret) :
    plainText (exCi "plain" 0 none) (runSchedule plainEx sched).results =
      "query,closest,distance,SNPs\nq1,t4,0,\nq2,t3,1,4TA\n" :=
  (closest_every_schedule (exCi "plain" 0 none) 1 rfl (runSchedule_reach _ sched) h).trans (by decide)

/-- every schedule of 42 or more choices runs it to completion -/
example (sched : List Nat) (h : 42 ≤ sched.length) : (runSchedule plainEx sched).main = .ret :=
  (closest_runSchedule (exCi "plain" 0 none) 1 rfl sched (by simpa [exCi] using h)).1

/-- B: `-n 2 --table`, and `-d 1` in the list form (catchment of every target within distance 1) -/
def tableEx := closestNCfg (exCi "table" 2 none) 1
def withinEx := closestNCfg (exCi "n" 0 (some (1, 1))) 0

example :
    (runSchedule tableEx fsched1).main = .ret ∧ (runSchedule tableEx fsched2).main = .ret ∧
    catchText (exCi "table" 2 none) (runSchedule tableEx fsched1).results = modelText (exCi "table" 2 none) ∧
    catchText (exCi "table" 2 none) (runSchedule tableEx fsched2).results = modelText (exCi "table" 2 none) ∧
    modelText (exCi "table" 2 none) = "query,target,distance\nq1,t4,0\nq1,t5,0\nq2,t3,1\nq2,t4,2\n" := by
  decide

example :
    (runSchedule withinEx fsched1).main = .ret ∧ (runSchedule withinEx fsched2).main = .ret ∧
    catchText (exCi "n" 0 (some (1, 1))) (runSchedule withinEx fsched1).results = modelText (exCi "n" 0 (some (1, 1))) ∧
    catchText (exCi "n" 0 (some (1, 1))) (runSchedule withinEx fsched2).results = modelText (exCi "n" 0 (some (1, 1))) ∧
    modelText (exCi "n" 0 (some (1, 1))) = "query,closest\nq1,t4;t5;t2;t1\nq2,t3\n" := by
  decide

example (sched : List Nat) (h : (runSchedule tableEx sched).main = .ret) :
    catchText (exCi "table" 2 none) (runSchedule tableEx sched).results =
      "query,target,distance\nq1,t4,0\nq1,t5,0\nq2,t3,1\nq2,t4,2\n" :=
  (closestN_every_schedule (exCi "table" 2 none) 1 (by decide) (runSchedule_reach _ sched) h).trans (by decide)

/-! ### C. updown topranking: reference ACGTACGT, two queries, seven targets; one neighbour per bin asked for,
the side bin of q2 is filled up by `balance` -/

def exTi (table : Bool) (push : Nat) : TRIn :=
  { ref := [65, 67, 71, 84, 65, 67, 71, 84],
    qs := [("q1", [65, 67, 71, 84, 65, 67, 71, 65]), ("q2", [84, 67, 71, 84, 65, 67, 71, 84])],
    ts := [("t1", [65, 67, 71, 84, 65, 67, 71, 84]), ("t2", [65, 67, 71, 84, 65, 67, 71, 65]),
           ("t3", [65, 67, 71, 84, 65, 67, 84, 65]), ("t4", [84, 67, 71, 84, 65, 67, 71, 65]),
           ("t5", [65, 67, 71, 84, 84, 67, 71, 65]), ("t6", [65, 67, 71, 84, 65, 67, 78, 65]),
           ("t7", [67, 67, 71, 84, 65, 67, 71, 84])],
    table := table, args := some ([1, 1, 1, 1], [bigN, bigN, bigN, bigN]),
    opts := { sizes := [1, 1, 1, 1], dists := [bigN, bigN, bigN, bigN], nofill := false, thrNum := 1, thrDen := 1,
              threshTarg := 10, push := push, ignore := [] } }

def fsched3 : List Nat := List.replicate 60 0
def fsched4 : List Nat := List.replicate 60 1

def trEx := topRankingCfg (exTi false 0) 1
def trPushEx := topRankingCfg (exTi true 1) 0

example :
    (runSchedule trEx fsched3).main = .ret ∧ (runSchedule trEx fsched4).main = .ret ∧
    traceWith (step? trEx) (allLabels 2) (init trEx) fsched3 ≠ traceWith (step? trEx) (allLabels 2) (init trEx) fsched4 ∧
    trText (exTi false 0) (runSchedule trEx fsched3).results = modelTR (exTi false 0) ∧
    trText (exTi false 0) (runSchedule trEx fsched4).results = modelTR (exTi false 0) ∧
    modelTR (exTi false 0) = "query,closestsame,closestup,closestdown,closestside\nq1,t2,t1,t3,t7\nq2,,t1,t4,t7;t2\n" := by
  decide

set_option maxRecDepth 100000 in
/-- push mode (the nearest distance in every direction, all ties), table form -/
example :
    (runSchedule trPushEx fsched3).main = .ret ∧ (runSchedule trPushEx fsched4).main = .ret ∧
    trText (exTi true 1) (runSchedule trPushEx fsched3).results = modelTR (exTi true 1) ∧
    trText (exTi true 1) (runSchedule trPushEx fsched4).results = modelTR (exTi true 1) := by
  decide

example (sched : List Nat) (h : (runSchedule trEx sched).main = .ret) :
    trText (exTi false 0) (runSchedule trEx sched).results =
      "query,closestsame,closestup,closestdown,closestside\nq1,t2,t1,t3,t7\nq2,,t1,t4,t7;t2\n" :=
  (topranking_every_schedule (exTi false 0) 1 _ rfl (runSchedule_reach _ sched) h).trans (by decide)

end

/-! ### D. sam toPairAlign: reference ACGTACGT, window 2..7, two pools of two workers -/

section
open Gofasta.Model.SchedChain Gofasta.Lemmas.SchedChain Gofasta.Lemmas.SchedCommands

def paRef : List Nat := [65, 67, 71, 84, 65, 67, 71, 84]
/-- q: ACGT T ACGA (one inserted T), r: GGTA at 3, t: ATG at 1, and a second block called q: TTTT at 5 -/
def paRec1 : SamRec := ⟨"q", 0, 0, [(0, 4), (1, 1), (0, 4)], [65, 67, 71, 84, 84, 65, 67, 71, 65]⟩
def paRec2 : SamRec := ⟨"r", 0, 2, [(0, 4)], [71, 71, 84, 65]⟩
def paRec3 : SamRec := ⟨"t", 0, 0, [(0, 3)], [65, 84, 71]⟩
def paRec4 : SamRec := ⟨"q", 0, 4, [(0, 4)], [84, 84, 84, 84]⟩
def paW : Nat × Nat × Bool := (2, 7, true)

theorem paW_ok : checkArgs paRef.length 2 7 = some paW := by decide

def topaEx := topaCfg paRef "ref" (-1) false false paW (samBlocks [paRec1, paRec2, paRec3]) 2 2 1 2 2 none
def topaDirEx := topaDirCfg paRef "ref" (-1) false false paW (samBlocks [paRec1, paRec2, paRec3]) 2 2 1 2 2 none

def csched1 : List Nat := List.replicate 50 0
def csched2 : List Nat := [0, 0, 0, 1, 2, 1, 1, 2, 1, 1, 1, 1] ++ List.replicate 40 0
def csched3 : List Nat := List.range 60

set_option maxRecDepth 100000 in
/-- stdout: two schedules, two arrival orders at the writer, the model's text both times -/
example :
    (runSchedule topaEx csched1).arrival.map (·.1) = [0, 1, 2] ∧
    (runSchedule topaEx csched2).arrival.map (·.1) = [1, 0, 2] ∧
    (runSchedule topaEx csched1).main = .ret none ∧
    (runSchedule topaEx csched2).main = .ret none ∧
    some (runSchedule topaEx csched1).wst.text =
      (toPairAlign paRef "ref" 2 7 (-1) false false [paRec1, paRec2, paRec3]).map topaStdout ∧
    some (runSchedule topaEx csched2).wst.text =
      (toPairAlign paRef "ref" 2 7 (-1) false false [paRec1, paRec2, paRec3]).map topaStdout ∧
    (toPairAlign paRef "ref" 2 7 (-1) false false [paRec1, paRec2, paRec3]).map topaStdout =
      some ">ref\nCGT-ACG\n>q\nCGTTACG\n>ref\nCGTACG\n>r\nNGGTAN\n>ref\nCGTACG\n>t\nTGNNNN\n" := by
  decide

set_option maxRecDepth 100000 in
/-- a directory: the files are listed in the reverse of the arrival order, and are the model's files -/
example :
    (runSchedule topaDirEx csched1).main = .ret none ∧ (runSchedule topaDirEx csched2).main = .ret none ∧
    (runSchedule topaDirEx csched1).wst.map (·.1) = ["t", "r", "q"] ∧
    (runSchedule topaDirEx csched2).wst.map (·.1) = ["t", "q", "r"] ∧
    (∀ n ∈ ["q", "r", "t", "x"], List.lookup n (runSchedule topaDirEx csched1).wst =
      List.lookup n ((toPairAlign paRef "ref" 2 7 (-1) false false [paRec1, paRec2, paRec3]).getD [])) ∧
    (∀ n ∈ ["q", "r", "t", "x"], List.lookup n (runSchedule topaDirEx csched2).wst =
      List.lookup n ((toPairAlign paRef "ref" 2 7 (-1) false false [paRec1, paRec2, paRec3]).getD [])) := by
  decide

/-- the hypothesis of distinct names is needed: a SAM file in which the records of q are not consecutive gives two
blocks called q, hence two writes of the same file; the later arrival wins, and which one that is depends on the
schedule -/
def topaDupEx := topaDirCfg paRef "ref" (-1) true false paW (samBlocks [paRec1, paRec2, paRec4]) 2 2 1 2 2 none

set_option maxRecDepth 100000 in
example :
    (samBlocks [paRec1, paRec2, paRec4]).map (fun b => (b.headD default).name) = ["q", "r", "q"] ∧
    (runSchedule topaDupEx csched1).main = .ret none ∧ (runSchedule topaDupEx csched3).main = .ret none ∧
    (runSchedule topaDupEx csched1).arrival.map (·.1) = [0, 1, 2] ∧
    (runSchedule topaDupEx csched3).arrival.map (·.1) = [1, 2, 0] ∧
    List.lookup "q" (runSchedule topaDupEx csched1).wst = some ">q\nNNNTTT\n" ∧
    List.lookup "q" (runSchedule topaDupEx csched3).wst = some ">q\nCGTTACG\n" := by
  decide

end

end Examples

end Gofasta.Lemmas.FanoutCommands
