import Gofasta.Lemmas.Enc
import Gofasta.Model.Variants
import Gofasta.Spec.Variants
import Gofasta.Props.C17
import Gofasta.Lemmas.SortSpec
import Gofasta.Lemmas.PairSingle
/-
C04: the nucleotide and amino-acid records the model produces are, codon by codon and position by position, the
records of the specification (`regionRecords`, intergenic `nucRecord`s) — for every annotated reference and query.
-/
namespace Gofasta.Lemmas
open Gofasta Base Model Spec

/-- a symbol of the 32-character alphabet -/
def Ok (b : Nat) : Prop := b < 256 ∧ enc false b ≠ 0

def OkRow (s : List Nat) : Prop := ∀ b ∈ s, Ok b

/-! ### reference position -> alignment column -/

theorem refCols_lookup : ∀ (r q : List Nat) (i k : Nat), r.length = q.length → OkRow r →
    (∀ c, (refColsFrom i (r.map (enc false)))[k]? = some c →
      i ≤ c ∧ ((r.zip q).filter fun c => !isGap c.1)[k]? = some (r.getD (c - i) 0, q.getD (c - i) 0) ∧ c - i < r.length) ∧
    ((refColsFrom i (r.map (enc false)))[k]? = none → ((r.zip q).filter fun c => !isGap c.1)[k]? = none) := by
  intro r
  induction r with
  | nil => intro q i k _ _; simp [refColsFrom]
  | cons a rs ih =>
    intro q i k hl hok
    cases q with
    | nil => simp at hl
    | cons x xs =>
      have ha := hok a (List.mem_cons_self)
      have hg : (enc false a = gapCode) ↔ (a = 45) := by
        have := enc_gap_iff a ha.1 ha.2
        unfold gapCode
        constructor
        · intro h; have h2 : (enc false a == 244) = true := by simp [h]
          rw [this] at h2; simpa using h2
        · intro h; have h2 : (a == 45) = true := by simp [h]
          rw [← this] at h2; simpa using h2
      have hrs : OkRow rs := fun b hb => hok b (List.mem_cons_of_mem _ hb)
      have hl' : rs.length = xs.length := by simpa using hl
      have lift : ∀ (k' : Nat), (∀ (c : Nat), (refColsFrom (i + 1) (rs.map (enc false)))[k']? = some c →
            i ≤ c ∧ ((rs.zip xs).filter fun c => !isGap c.1)[k']? = some ((a :: rs).getD (c - i) 0, (x :: xs).getD (c - i) 0) ∧
              c - i < (a :: rs).length) ∧
          ((refColsFrom (i + 1) (rs.map (enc false)))[k']? = none → ((rs.zip xs).filter fun c => !isGap c.1)[k']? = none) := by
        intro k'
        have := ih xs (i + 1) k' hl' hrs
        refine ⟨?_, this.2⟩
        intro c hc
        obtain ⟨h3, h4, h5⟩ := this.1 c hc
        refine ⟨by omega, ?_, by simp; omega⟩
        have e : c - i = (c - (i + 1)) + 1 := by omega
        rw [e]; simpa using h4
      simp only [List.map_cons, refColsFrom, List.zip_cons_cons, List.filter_cons]
      by_cases hgap : a = 45
      · have h1 : enc false a = gapCode := hg.2 hgap
        have h2 : isGap a = true := by simp [isGap, hgap]
        simp only [h1, if_true, h2, Bool.not_true, Bool.false_eq_true, if_false]
        exact lift k
      · have h1 : ¬ enc false a = gapCode := fun h => hgap (hg.1 h)
        have h2 : isGap a = false := by simp [isGap, hgap]
        simp only [h1, if_false, h2, Bool.not_false, if_true]
        cases k with
        | zero => simp
        | succ k' =>
          simp only [List.getElem?_cons_succ]
          exact lift k'

/-- the model's column look-up at reference position p finds exactly the pair of symbols the specification
pairs with p -/
theorem col_pair (ref q : List Nat) (p : Nat) (hl : ref.length = q.length) (hr : OkRow ref) :
    (∀ c, (refCols (ref.map (enc false)))[p - 1]? = some c → pairAt ref q p = some (ref.getD c 0, q.getD c 0) ∧ c < ref.length) ∧
    ((refCols (ref.map (enc false)))[p - 1]? = none → pairAt ref q p = none) := by
  have := refCols_lookup ref q 0 (p - 1) hl hr
  unfold refCols pairAt
  refine ⟨?_, this.2⟩
  intro c hc
  have := this.1 c hc
  simpa using this.2

/-! ### one reference position -/

theorem getD_map_enc (l : List Nat) (c : Nat) (h : c < l.length) : (l.map (enc false)).getD c 0 = enc false (l.getD c 0) := by
  simp [List.getD_eq_getElem?_getD, h]

theorem getD_mem (l : List Nat) (c : Nat) (h : c < l.length) : l.getD c 0 ∈ l := by
  rw [List.getD_eq_getElem?_getD, List.getElem?_eq_getElem h]
  exact List.getElem_mem h

theorem encDiffer_comm (a b : Nat) : encDiffer a b = encDiffer b a := by
  unfold encDiffer; rw [Nat.and_comm]

/-- the record the model writes for a differing position -/
def modelNuc (p r x : Nat) : Variant := { kind := .nuc, pos := (p : Int), refAl := [dec r], queAl := [dec x] }

/-- everything the model reads at reference position p, in terms of the specification -/
theorem at_pos (ref q : List Nat) (p : Nat) (hl : ref.length = q.length) (hr : OkRow ref) (hq : OkRow q) :
    (∀ c, (refCols (ref.map (enc false)))[p - 1]? = some c →
      ∃ r x, pairAt ref q p = some (r, x) ∧ Ok r ∧ Ok x ∧
        (ref.map (enc false)).getD c 0 = enc false r ∧ (q.map (enc false)).getD c 0 = enc false x ∧
        encDiffer (enc false r) (enc false x) = differsAt ref q p ∧
        modelNuc p (enc false r) (enc false x) = nucRecord ref q p) ∧
    ((refCols (ref.map (enc false)))[p - 1]? = none → pairAt ref q p = none ∧ differsAt ref q p = false) := by
  have hcp := col_pair ref q p hl hr
  constructor
  · intro c hc
    obtain ⟨hp, hlt⟩ := hcp.1 c hc
    have hlt2 : c < q.length := by omega
    have hr1 := hr _ (getD_mem ref c hlt)
    have hx1 := hq _ (getD_mem q c hlt2)
    refine ⟨ref.getD c 0, q.getD c 0, hp, hr1, hx1, getD_map_enc ref c hlt, getD_map_enc q c hlt2, ?_, ?_⟩
    · rw [encDiffer_iff false _ _ hr1.1 hx1.1 hr1.2 hx1.2]
      unfold differsAt; rw [hp]
    · unfold modelNuc nucRecord
      rw [hp, dec_enc false _ hr1.1 hr1.2, dec_enc false _ hx1.1 hx1.2]
  · intro hc
    have := hcp.2 hc
    exact ⟨this, by unfold differsAt; rw [this]⟩

theorem filterMap_ite {α β : Type} (p : α → Bool) (g : α → β) (f : α → Option β)
    (h : ∀ a, f a = if p a then some (g a) else none) : ∀ (l : List α), l.filterMap f = (l.filter p).map g := by
  intro l
  induction l with
  | nil => rfl
  | cons a t ih =>
    simp only [List.filterMap_cons, List.filter_cons, h a]
    by_cases hp : p a = true
    · simp [hp, ih]
    · simp [hp, ih]

/-- **C04.intergenic** — outside the coding features the model reports exactly the positions whose base sets are
disjoint, each with the (upper-cased) reference and query symbols -/
theorem nucs_spec (ref q : List Nat) (hl : ref.length = q.length) (hr : OkRow ref) (hq : OkRow q) (inter : List Nat) :
    getNucsPair (ref.map (enc false)) (q.map (enc false)) (refCols (ref.map (enc false))) inter =
      (inter.filter (differsAt ref q)).map (nucRecord ref q) := by
  unfold getNucsPair
  apply filterMap_ite
  intro p
  have h := at_pos ref q p hl hr hq
  cases hc : (refCols (ref.map (enc false)))[p - 1]? with
  | none =>
    have := (h.2 hc).2
    simp [this]
  | some c =>
    obtain ⟨r, x, hp, _, _, h1, h2, h3, h4⟩ := h.1 c hc
    simp only [h1, h2, h3]
    by_cases hd : differsAt ref q p = true
    · simp only [hd, if_true]
      congr 1
    · simp [hd]

/-! ### one codon: the dictionary against the genetic code -/

theorem letterSet_isSome (u : Nat) : (letterSet u).isSome = true ↔ u ∈ codes15 := by
  unfold letterSet
  split <;> simp [codes15]
  repeat' apply And.intro
  all_goals assumption

theorem ok_upper (x : Nat) (h : Ok x) : upper x ∈ codes15 ∨ ((upper x = 45 ∨ upper x = 63) ∧ letterSet (upper x) = none) := by
  have hs := (enc_ne_zero_iff false x h.1).1 h.2
  unfold baseSet at hs
  by_cases h45 : x = 45
  · right; subst h45; exact ⟨Or.inl (by decide), by decide⟩
  · by_cases h63 : x = 63
    · right; subst h63; exact ⟨Or.inr (by decide), by decide⟩
    · simp only [h45, h63, if_false] at hs
      left; exact (letterSet_isSome _).1 hs

theorem mem_allCodons (a b c : Nat) : [a, b, c] ∈ allCodons ↔ a ∈ codes15 ∧ b ∈ codes15 ∧ c ∈ codes15 := by
  unfold allCodons
  simp only [List.mem_flatMap, List.mem_map]
  constructor
  · rintro ⟨x, hx, y, hy, z, hz, he⟩
    simp only [List.cons.injEq, and_true] at he
    obtain ⟨rfl, rfl, rfl⟩ := he
    exact ⟨hx, hy, hz⟩
  · rintro ⟨ha, hb, hc⟩
    exact ⟨a, ha, b, hb, c, hc, rfl⟩

theorem dictLookup_none_of_not_mem (c : List Nat) (h : c ∉ allCodons) : dictLookup c = none := by
  unfold dictLookup
  cases hf : Gen.codonDict.find? (fun e => e.1 == c) with
  | none => rfl
  | some e =>
    exfalso
    have hm := List.mem_of_find?_eq_some hf
    have he : e.1 = c := by simpa using List.find?_some hf
    exact h (he ▸ Props.C17.dict_domain e hm)

theorem comp15 : ∀ u ∈ codes15, compText u ∈ codes15 ∧ letterSet (compText u) = (letterSet u).map compSet := by
  decide +kernel

theorem comp_gapq : compText 45 ∉ codes15 ∧ compText 63 ∉ codes15 := by decide +kernel

theorem stdCode_noX : ∀ i < 64, (stdCodeTCAG.getD i 'X').toNat ≠ 88 := by decide +kernel

theorem tcagIdx_le (a : Nat) : tcagIdx a ≤ 3 := by
  unfold tcagIdx; split <;> omega

theorem stdAA_ne_X (a b c : Nat) : stdAA a b c ≠ 88 := by
  unfold stdAA
  apply stdCode_noX
  have := tcagIdx_le a; have := tcagIdx_le b; have := tcagIdx_le c
  omega

theorem specTranslate_ne_X (x y z t : Nat) (h : specTranslate x y z = some t) : t ≠ 88 := by
  unfold specTranslate at h
  split at h
  · cases h
  · rename_i p ps he
    split at h
    · cases h
      have hm : t ∈ expansions x y z := by rw [he]; exact List.mem_cons_self
      unfold expansions at hm
      simp only [List.mem_flatMap, List.mem_map] at hm
      obtain ⟨a, _, b, _, c, _, rfl⟩ := hm
      exact stdAA_ne_X a b c
    · cases h

/-- what the model computes for the amino acid of a codon of three query symbols -/
def modelAA (strand : Int) (xa xb xc : Nat) : List Nat :=
  let codon := [upper xa, upper xb, upper xc]
  let codon' := if strand = -1 then complement codon else codon
  match dictLookup codon' with | some a => a | none => [88]

/-- **the codon dictionary against NCBI table 1, on either strand**: the model's amino acid for three symbols of
the alphabet is the common product of all expansions when there is one, and 'X' otherwise -/
theorem modelAA_spec (strand : Int) (xa xb xc : Nat) (ha : Ok xa) (hb : Ok xb) (hc : Ok xc) :
    modelAA strand xa xb xc = match specCodonAA strand [xa, xb, xc] with | some t => [t] | none => [88] := by
  unfold modelAA specCodonAA
  simp only [List.map_cons, List.map_nil]
  rcases ok_upper xa ha with h1 | ⟨h1, n1⟩
  · rcases ok_upper xb hb with h2 | ⟨h2, n2⟩
    · rcases ok_upper xc hc with h3 | ⟨h3, n3⟩
      · -- three IUPAC letters
        obtain ⟨sa, hsa⟩ := Option.isSome_iff_exists.1 ((letterSet_isSome _).2 h1)
        obtain ⟨sb, hsb⟩ := Option.isSome_iff_exists.1 ((letterSet_isSome _).2 h2)
        obtain ⟨sc, hsc⟩ := Option.isSome_iff_exists.1 ((letterSet_isSome _).2 h3)
        simp only [hsa, hsb, hsc]
        by_cases hs : strand = -1
        · simp only [hs, if_true, complement, List.map_cons, List.map_nil]
          have c1 := comp15 _ h1; have c2 := comp15 _ h2; have c3 := comp15 _ h3
          rw [Props.C17.codon_sound_complete _ ((mem_allCodons _ _ _).2 ⟨c1.1, c2.1, c3.1⟩)]
          simp only [specCodon, c1.2, c2.2, c3.2, hsa, hsb, hsc, Option.map_some]
          cases specTranslate (compSet sa) (compSet sb) (compSet sc) <;> rfl
        · simp only [hs, if_false]
          rw [Props.C17.codon_sound_complete _ ((mem_allCodons _ _ _).2 ⟨h1, h2, h3⟩)]
          simp only [specCodon, hsa, hsb, hsc]
          cases specTranslate sa sb sc <;> rfl
      · -- third symbol is '-' or '?'
        have hnot : ∀ (a b c : Nat), c ∉ codes15 → dictLookup [a, b, c] = none :=
          fun a b c h => dictLookup_none_of_not_mem _ (fun hm => h ((mem_allCodons _ _ _).1 hm).2.2)
        have hc15 : upper xc ∉ codes15 := by rcases h3 with h | h <;> rw [h] <;> decide
        have hcc : compText (upper xc) ∉ codes15 := by
          rcases h3 with h | h <;> rw [h]
          · exact comp_gapq.1
          · exact comp_gapq.2
        simp only [n3]
        by_cases hs : strand = -1
        · simp only [hs, if_true, complement, List.map_cons, List.map_nil, hnot _ _ _ hcc]
          split <;> simp_all
        · simp only [hs, if_false, hnot _ _ _ hc15]
          split <;> simp_all
    · have hnot : ∀ (a b c : Nat), b ∉ codes15 → dictLookup [a, b, c] = none :=
        fun a b c h => dictLookup_none_of_not_mem _ (fun hm => h ((mem_allCodons _ _ _).1 hm).2.1)
      have hc15 : upper xb ∉ codes15 := by rcases h2 with h | h <;> rw [h] <;> decide
      have hcc : compText (upper xb) ∉ codes15 := by
        rcases h2 with h | h <;> rw [h]
        · exact comp_gapq.1
        · exact comp_gapq.2
      simp only [n2]
      by_cases hs : strand = -1
      · simp only [hs, if_true, complement, List.map_cons, List.map_nil, hnot _ _ _ hcc]
        split <;> simp_all
      · simp only [hs, if_false, hnot _ _ _ hc15]
        split <;> simp_all
  · have hnot : ∀ (a b c : Nat), a ∉ codes15 → dictLookup [a, b, c] = none :=
      fun a b c h => dictLookup_none_of_not_mem _ (fun hm => h ((mem_allCodons _ _ _).1 hm).1)
    have hc15 : upper xa ∉ codes15 := by rcases h1 with h | h <;> rw [h] <;> decide
    have hcc : compText (upper xa) ∉ codes15 := by
      rcases h1 with h | h <;> rw [h]
      · exact comp_gapq.1
      · exact comp_gapq.2
    simp only [n1]
    by_cases hs : strand = -1
    · simp only [hs, if_true, complement, List.map_cons, List.map_nil, hnot _ _ _ hcc]
    · simp only [hs, if_false, hnot _ _ _ hc15]

theorem specCodonAA_ne_X (strand : Int) (syms : List Nat) (t : Nat) (h : specCodonAA strand syms = some t) : t ≠ 88 := by
  unfold specCodonAA at h
  split at h
  · split at h <;> exact specTranslate_ne_X _ _ _ _ h
  · cases h

/-! ### three positions = one codon -/

/-- the records the specification asks for from one codon -/
def codonRecs (ref q : List Nat) (reg : Region) (k : Nat) (codon : List Nat) : List Variant :=
  match aaCall ref q reg k codon with
  | some v => [v]
  | none => (codon.filter (differsAt ref q)).map (nucRecord ref q)

/-- every position of the feature lies on the reference -/
def ValidPositions (ref q : List Nat) (ps : List Nat) : Prop := ∀ p ∈ ps, pairAt ref q p ≠ none

theorem aaStep_at (ref q : List Nat) (reg : Region) (s : AAState) (p : Nat) (hl : ref.length = q.length)
    (hr : OkRow ref) (hq : OkRow q) (hv : pairAt ref q p ≠ none) :
    ∃ r x, pairAt ref q p = some (r, x) ∧ Ok r ∧ Ok x ∧
      aaStep (ref.map (enc false)) (q.map (enc false)) (refCols (ref.map (enc false))) reg s p =
        (let snps := if differsAt ref q p then s.codonSnps ++ [nucRecord ref q p] else s.codonSnps
         let codon := s.codon ++ [upper x]
         if codon.length = 3 then
           let codon' := if reg.strand = -1 then complement codon else codon
           let aa := match dictLookup codon' with | some a => a | none => [88]
           let refaa := [reg.translation.getD s.aaCounter 0]
           if aa ≠ refaa ∧ aa ≠ [88] then
             { codonSnps := [], codon := [], aaCounter := s.aaCounter + 1,
               out := s.out ++ [{ kind := .aa, feature := reg.name, refAl := refaa, queAl := aa,
                                  pos := (p : Int) - 2 * reg.strand, residue := s.aaCounter + 1,
                                  snps := joinWith ";" (snps.map fmtNuc) }] }
           else { codonSnps := [], codon := [], aaCounter := s.aaCounter + 1, out := s.out ++ snps }
         else { s with codonSnps := snps, codon := codon }) := by
  have h := at_pos ref q p hl hr hq
  cases hc : (refCols (ref.map (enc false)))[p - 1]? with
  | none => exact absurd (h.2 hc).1 hv
  | some c =>
    obtain ⟨r, x, hp, hor, hox, h1, h2, h3, h4⟩ := h.1 c hc
    refine ⟨r, x, hp, hor, hox, ?_⟩
    unfold aaStep
    simp only [hc, h1, h2]
    rw [encDiffer_comm, h3, dec_enc false x hox.1 hox.2]
    have : ({ kind := .nuc, pos := (p : Int), refAl := [dec (enc false r)], queAl := [upper x] } : Variant) = nucRecord ref q p := by
      rw [← h4]; unfold modelNuc; rw [dec_enc false x hox.1 hox.2]
    rw [this]
    rfl

theorem three_steps (ref q : List Nat) (reg : Region) (k : Nat) (out : List Variant) (a b c : Nat)
    (hl : ref.length = q.length) (hr : OkRow ref) (hq : OkRow q)
    (ha : pairAt ref q a ≠ none) (hb : pairAt ref q b ≠ none) (hc : pairAt ref q c ≠ none) :
    [a, b, c].foldl (aaStep (ref.map (enc false)) (q.map (enc false)) (refCols (ref.map (enc false))) reg)
        { codonSnps := [], codon := [], aaCounter := k, out := out } =
      { codonSnps := [], codon := [], aaCounter := k + 1, out := out ++ codonRecs ref q reg k [a, b, c] } := by
  simp only [List.foldl_cons, List.foldl_nil]
  obtain ⟨ra, xa, pa, _, oxa, ea⟩ := aaStep_at ref q reg { codonSnps := [], codon := [], aaCounter := k, out := out } a hl hr hq ha
  rw [ea]
  simp only [List.nil_append, List.length_cons, List.length_nil, Nat.zero_add, Nat.reduceEqDiff, if_false]
  obtain ⟨rb, xb, pb, _, oxb, eb⟩ := aaStep_at ref q reg
    { codonSnps := if differsAt ref q a then [nucRecord ref q a] else [], codon := [upper xa], aaCounter := k, out := out } b hl hr hq hb
  rw [eb]
  simp only [List.cons_append, List.nil_append, List.length_cons, List.length_nil, Nat.zero_add, Nat.reduceAdd, Nat.reduceEqDiff, if_false]
  obtain ⟨rc, xc, pc, _, oxc, ec⟩ := aaStep_at ref q reg
    { codonSnps := if differsAt ref q b then (if differsAt ref q a then [nucRecord ref q a] else []) ++ [nucRecord ref q b]
                   else (if differsAt ref q a then [nucRecord ref q a] else []),
      codon := [upper xa, upper xb], aaCounter := k, out := out } c hl hr hq hc
  rw [ec]
  simp only [List.cons_append, List.nil_append, List.length_cons, List.length_nil, Nat.zero_add, Nat.reduceAdd, if_true]
  -- the accumulated SNPs are the differing positions of the codon, in order
  have hsn : (if differsAt ref q c then
        (if differsAt ref q b then (if differsAt ref q a then [nucRecord ref q a] else []) ++ [nucRecord ref q b]
         else (if differsAt ref q a then [nucRecord ref q a] else [])) ++ [nucRecord ref q c]
      else (if differsAt ref q b then (if differsAt ref q a then [nucRecord ref q a] else []) ++ [nucRecord ref q b]
         else (if differsAt ref q a then [nucRecord ref q a] else []))) =
      ([a, b, c].filter (differsAt ref q)).map (nucRecord ref q) := by
    simp only [List.filter_cons, List.filter_nil]
    generalize differsAt ref q a = da
    generalize differsAt ref q b = db
    generalize differsAt ref q c = dc
    cases da <;> cases db <;> cases dc <;> rfl
  rw [hsn]
  -- the amino acid
  have haa : (match dictLookup (if reg.strand = -1 then complement [upper xa, upper xb, upper xc] else [upper xa, upper xb, upper xc]) with
      | some a => a | none => [88]) = modelAA reg.strand xa xb xc := rfl
  rw [haa, modelAA_spec reg.strand xa xb xc oxa oxb oxc]
  have hq3 : ([a, b, c].filterMap fun p => (pairAt ref q p).map (·.2)) = [xa, xb, xc] := by
    simp [List.filterMap_cons, pa, pb, pc]
  unfold codonRecs aaCall
  simp only [hq3, List.getD_cons_succ, List.getD_cons_zero]
  cases hsp : specCodonAA reg.strand [xa, xb, xc] with
  | none => simp
  | some t =>
    have hx := specCodonAA_ne_X _ _ _ hsp
    by_cases hne : t = reg.translation.getD k 0
    · have hne' : t = reg.translation[k]?.getD 0 := by simpa [List.getD_eq_getElem?_getD] using hne
      simp [hne']
    · have hne' : ¬ t = reg.translation[k]?.getD 0 := by simpa [List.getD_eq_getElem?_getD] using hne
      simp [hne', hx]

/-! ### a whole feature -/

/-- the specification's records of a feature, codon by codon from codon index k -/
def codonRecsFrom (ref q : List Nat) (reg : Region) : Nat → List Nat → List Variant
  | k, a :: b :: c :: t => codonRecs ref q reg k [a, b, c] ++ codonRecsFrom ref q reg (k + 1) t
  | _, _ => []

theorem fold_codons (ref q : List Nat) (reg : Region) (hl : ref.length = q.length) (hr : OkRow ref) (hq : OkRow q) :
    ∀ (n : Nat) (ps : List Nat) (k : Nat) (out : List Variant), ps.length ≤ n → ValidPositions ref q ps →
    (ps.foldl (aaStep (ref.map (enc false)) (q.map (enc false)) (refCols (ref.map (enc false))) reg)
        { codonSnps := [], codon := [], aaCounter := k, out := out }).out = out ++ codonRecsFrom ref q reg k ps := by
  intro n
  induction n with
  | zero =>
    intro ps k out hn _
    have : ps = [] := by cases ps <;> simp_all
    subst this; simp [codonRecsFrom]
  | succ n ih =>
    intro ps k out hn hv
    match ps, hn, hv with
    | [], _, _ => simp [codonRecsFrom]
    | [a], _, hv =>
      obtain ⟨_, x, _, _, _, e⟩ := aaStep_at ref q reg { codonSnps := [], codon := [], aaCounter := k, out := out } a hl hr hq (hv a (by simp))
      simp only [List.foldl_cons, List.foldl_nil, e, codonRecsFrom]
      simp
    | [a, b], _, hv =>
      obtain ⟨_, xa, _, _, _, ea⟩ := aaStep_at ref q reg { codonSnps := [], codon := [], aaCounter := k, out := out } a hl hr hq (hv a (by simp))
      simp only [List.foldl_cons, List.foldl_nil, ea, codonRecsFrom]
      simp only [List.nil_append, List.length_cons, List.length_nil, Nat.zero_add, Nat.reduceEqDiff, if_false]
      obtain ⟨_, xb, _, _, _, eb⟩ := aaStep_at ref q reg
        { codonSnps := if differsAt ref q a then [nucRecord ref q a] else [], codon := [upper xa], aaCounter := k, out := out } b hl hr hq (hv b (by simp))
      rw [eb]
      simp
    | a :: b :: c :: t, hn, hv =>
      have h3 : (a :: b :: c :: t) = [a, b, c] ++ t := rfl
      rw [h3, List.foldl_append]
      rw [three_steps ref q reg k out a b c hl hr hq (hv a (by simp)) (hv b (by simp)) (hv c (by simp))]
      rw [ih t (k + 1) _ (by simp at hn; omega) (fun p hp => hv p (by simp [hp]))]
      simp only [List.cons_append, List.nil_append, codonRecsFrom, List.append_assoc]

theorem chunks3_length : ∀ (n : Nat) (ps : List Nat), ps.length ≤ n → (chunks3 ps).length = ps.length / 3 := by
  intro n
  induction n with
  | zero => intro ps h; have : ps = [] := by cases ps <;> simp_all
            subst this; rfl
  | succ n ih =>
    intro ps h
    match ps, h with
    | [], _ => rfl
    | [_], _ => simp [chunks3]
    | [_, _], _ => simp [chunks3]
    | a :: b :: c :: t, h =>
      simp only [chunks3, List.length_cons]
      rw [ih t (by simp at h; omega)]
      omega

theorem regionRecords_eq_gen (ref q : List Nat) (reg : Region) : ∀ (n : Nat) (ps : List Nat) (k : Nat), ps.length ≤ n →
    ((chunks3 ps).zip (List.range' k (ps.length / 3))).flatMap (fun (codon, k) =>
      match aaCall ref q reg k codon with
      | some v => [v]
      | none => (codon.filter (differsAt ref q)).map (nucRecord ref q)) = codonRecsFrom ref q reg k ps := by
  intro n
  induction n with
  | zero => intro ps k h; have : ps = [] := by cases ps <;> simp_all
            subst this; simp [chunks3, codonRecsFrom]
  | succ n ih =>
    intro ps k h
    match ps, h with
    | [], _ => simp [chunks3, codonRecsFrom]
    | [_], _ => simp [chunks3, codonRecsFrom]
    | [_, _], _ => simp [chunks3, codonRecsFrom]
    | a :: b :: c :: t, h =>
      have hdiv : (a :: b :: c :: t).length / 3 = t.length / 3 + 1 := by simp only [List.length_cons]; omega
      rw [hdiv, List.range'_succ]
      simp only [chunks3, List.zip_cons_cons, List.flatMap_cons, codonRecsFrom]
      rw [ih t (k + 1) (by simp at h; omega)]
      rfl

theorem regionRecords_eq (ref q : List Nat) (reg : Region) : regionRecords ref q reg = codonRecsFrom ref q reg 0 reg.positions := by
  unfold regionRecords
  rw [List.range_eq_range']
  exact regionRecords_eq_gen ref q reg _ reg.positions 0 (Nat.le_refl _)

/-- **C04.coding** — for every coding feature whose positions lie on the reference, the model's records are, codon
by codon: the amino-acid call when the query codon translates unambiguously (all expansions agree, standard code,
feature's strand) to a residue other than the annotated one — carrying the codon's SNPs — and otherwise exactly the
codon's positions with disjoint base sets -/
theorem aas_spec (ref q : List Nat) (reg : Region) (hl : ref.length = q.length) (hr : OkRow ref) (hq : OkRow q)
    (hv : ValidPositions ref q reg.positions) :
    getAAsPair (ref.map (enc false)) (q.map (enc false)) (refCols (ref.map (enc false))) reg = regionRecords ref q reg := by
  unfold getAAsPair
  rw [regionRecords_eq]
  have := fold_codons ref q reg hl hr hq _ reg.positions 0 [] (Nat.le_refl _) hv
  simpa using this

/-! ### merge, sort, de-duplicate: nothing dropped, nothing invented -/

def isDel0 (v : Variant) : Prop := v.kind = .del ∧ v.pos = 0

theorem mem_dedupAdj_imp : ∀ (l : List Variant) (prev : Option Variant) (v : Variant),
    v ∈ dedupAdj prev l → v ∈ l ∧ ¬ isDel0 v := by
  intro l
  induction l with
  | nil => intro prev v h; simp [dedupAdj] at h
  | cons w t ih =>
    intro prev v h
    simp only [dedupAdj] at h
    split at h
    · have := ih prev v h; exact ⟨List.mem_cons_of_mem _ this.1, this.2⟩
    · rename_i hw
      split at h
      · have := ih prev v h; exact ⟨List.mem_cons_of_mem _ this.1, this.2⟩
      · rcases List.mem_cons.1 h with rfl | h
        · exact ⟨List.mem_cons_self, hw⟩
        · have := ih (some w) v h; exact ⟨List.mem_cons_of_mem _ this.1, this.2⟩

theorem mem_dedupAdj_of : ∀ (l : List Variant) (prev : Option Variant) (v : Variant),
    v ∈ l → ¬ isDel0 v → v ∈ dedupAdj prev l ∨ prev = some v := by
  intro l
  induction l with
  | nil => intro prev v h; cases h
  | cons w t ih =>
    intro prev v h hd
    simp only [dedupAdj]
    split
    · rename_i hw
      rcases List.mem_cons.1 h with rfl | h
      · exact absurd hw hd
      · exact ih prev v h hd
    · split
      · rename_i hp
        rcases List.mem_cons.1 h with rfl | h
        · right; exact hp
        · exact ih prev v h hd
      · rcases List.mem_cons.1 h with rfl | h
        · left; exact List.mem_cons_self
        · rcases ih (some w) v h hd with h1 | h1
          · left; exact List.mem_cons_of_mem _ h1
          · left; cases h1; exact List.mem_cons_self

theorem mem_dedupAdj (l : List Variant) (v : Variant) : v ∈ dedupAdj none l ↔ v ∈ l ∧ ¬ isDel0 v := by
  constructor
  · exact mem_dedupAdj_imp l none v
  · rintro ⟨h1, h2⟩
    rcases mem_dedupAdj_of l none v h1 h2 with h | h
    · exact h
    · cases h

/-- the backward scan only finds records that were kept -/
theorem mem_of_seenInRun (v : Variant) : ∀ (K : List Variant), seenInRun v K = true → v ∈ K := by
  intro K
  induction K with
  | nil => intro h; simp [seenInRun] at h
  | cons k t ih =>
    intro h
    simp only [seenInRun] at h
    split at h
    · simp only [Bool.or_eq_true, beq_iff_eq] at h
      rcases h with h | h
      · rw [h]; exact List.mem_cons_self
      · exact List.mem_cons_of_mem _ (ih h)
    · cases h

theorem mem_dedupRun_iff : ∀ (l : List Variant) (K : List Variant) (v : Variant),
    v ∈ dedupRun K l ↔ v ∈ K ∨ (v ∈ l ∧ ¬ isDel0 v) := by
  intro l
  induction l with
  | nil => intro K v; simp [dedupRun]
  | cons w t ih =>
    intro K v
    simp only [dedupRun]
    split
    · rename_i hw
      rw [ih K v]
      constructor
      · rintro (h | ⟨h, hd⟩)
        · exact Or.inl h
        · exact Or.inr ⟨List.mem_cons_of_mem _ h, hd⟩
      · rintro (h | ⟨h, hd⟩)
        · exact Or.inl h
        · rcases List.mem_cons.1 h with rfl | h
          · exact absurd hw hd
          · exact Or.inr ⟨h, hd⟩
    · rename_i hw
      split
      · rename_i hs
        have hwK := mem_of_seenInRun w K hs
        rw [ih K v]
        constructor
        · rintro (h | ⟨h, hd⟩)
          · exact Or.inl h
          · exact Or.inr ⟨List.mem_cons_of_mem _ h, hd⟩
        · rintro (h | ⟨h, hd⟩)
          · exact Or.inl h
          · rcases List.mem_cons.1 h with rfl | h
            · exact Or.inl hwK
            · exact Or.inr ⟨h, hd⟩
      · rw [ih (w :: K) v]
        constructor
        · rintro (h | ⟨h, hd⟩)
          · rcases List.mem_cons.1 h with rfl | h
            · exact Or.inr ⟨List.mem_cons_self, hw⟩
            · exact Or.inl h
          · exact Or.inr ⟨List.mem_cons_of_mem _ h, hd⟩
        · rintro (h | ⟨h, hd⟩)
          · exact Or.inl (List.mem_cons_of_mem _ h)
          · rcases List.mem_cons.1 h with rfl | h
            · exact Or.inl List.mem_cons_self
            · exact Or.inr ⟨h, hd⟩

/-- the de-duplication loop drops nothing but deletions at position 0 and invents nothing (any input list) -/
theorem mem_dedupRun (l : List Variant) (v : Variant) : v ∈ dedupRun [] l ↔ v ∈ l ∧ ¬ isDel0 v := by
  rw [mem_dedupRun_iff]
  simp

/-- **C04.records_exact** — the mutation list of a query is, as a set, exactly: the indels of the pair (C05), the
intergenic positions with disjoint base sets, and the per-codon records of every coding feature; the final sort and
de-duplication drop nothing (but a deletion recorded at position 0) and invent nothing -/
theorem variants_mem (ref q : List Nat) (regions : List Region) (inter : List Nat) (hl : ref.length = q.length)
    (hr : OkRow ref) (hq : OkRow q) (hv : ∀ reg ∈ regions, ValidPositions ref q reg.positions) (v : Variant) :
    v ∈ getVariantsPair (ref.map (enc false)) (q.map (enc false)) regions inter ↔
      (v ∈ getIndelsPair (ref.map (enc false)) (q.map (enc false)) ∨
       v ∈ (inter.filter (differsAt ref q)).map (nucRecord ref q) ∨
       ∃ reg ∈ regions, v ∈ regionRecords ref q reg) ∧ ¬ isDel0 v := by
  unfold getVariantsPair
  simp only []
  rw [mem_dedupRun, mem_sortStable, nucs_spec ref q hl hr hq inter]
  simp only [List.mem_append, List.mem_flatMap]
  constructor
  · rintro ⟨(h | h) | ⟨reg, hreg, h⟩, hd⟩
    · exact ⟨Or.inl h, hd⟩
    · exact ⟨Or.inr (Or.inl h), hd⟩
    · rw [aas_spec ref q reg hl hr hq (hv reg hreg)] at h
      exact ⟨Or.inr (Or.inr ⟨reg, hreg, h⟩), hd⟩
  · rintro ⟨h | h | ⟨reg, hreg, h⟩, hd⟩
    · exact ⟨Or.inl (Or.inl h), hd⟩
    · exact ⟨Or.inl (Or.inr h), hd⟩
    · refine ⟨Or.inr ⟨reg, hreg, ?_⟩, hd⟩
      rw [aas_spec ref q reg hl hr hq (hv reg hreg)]; exact h

end Gofasta.Lemmas
