import Gofasta.Driver.SamVar
import Gofasta.Props.C11
import Gofasta.Lemmas.PairSkipIns
import Gofasta.Lemmas.FastaWrite
/-
C11, whole pipeline: `gofasta sam variants` reports, for every query of a SAM file, exactly the mutation row that
`gofasta variants` reports when it is given the pairwise alignment that `gofasta sam toPairAlign` writes for that
query (reference row first), with the same annotation and the same options.

Both commands are the functions the test harness executes (`Driver.samVarCommand`, `Driver.varCommand`);
`samVarCommand` is restated on structured arguments (`samVarCore`, equal by `rfl`) so that no `Case` parsing is
involved.
-/
namespace Gofasta.Lemmas.SamVarPipeline
open Gofasta Base Model Spec Driver Gofasta.Props.C02 Gofasta.Props.C11 Gofasta.Lemmas

/-! ### `sam variants` on structured arguments -/

/-- the annotation of `sam variants`: regions and intergenic positions over the de-gapped upper-cased reference
(no comparison with the GenBank ORIGIN length is made by this command) -/
def samRegions (vi : VarIn) (refRaw : List Nat) : Option (List Region × List Nat) :=
  if vi.annfmt == "gb" then regionsFromGenbank vi.gb (degapUpper refRaw).length
  else regionsFromGFF vi.gff (degapUpper refRaw)

/-- the name of the query of a block -/
def qnameOf (b : List SamRec) : String := (b.headD default).name

/-- `sam variants` once the reference (raw bytes `refRaw`, ID `refID`) and the blocks are known -/
def samVarOn (vi : VarIn) (refID : String) (refRaw : List Nat) (blocks : List (List SamRec))
    (pairOf : List SamRec → List Nat → List Nat × List Nat)
    (caller : List Nat → List Nat → List Region → List Nat → List Variant) : String :=
  match samRegions vi refRaw with
  | none => "!error"
  | some (regions, inter) =>
    let lists := blocks.map fun b =>
      let p := pairOf b (refRaw.map upper)
      (qnameOf b, caller p.1 p.2 regions inter)
    if vi.agg then variantsAggregate vi.append vi.start vi.stop vi.thrn vi.thrd refID lists
    else variantsOutput vi.append vi.start vi.stop refID lists

/-- the reference of `sam variants`: the reference file when one is given, else the annotation's sequence -/
def refRawOf (vi : VarIn) (refFromFile : Bool) (refBytes : List Nat) : List Nat := if refFromFile then refBytes else vi.origin
def refIDOf (refFromFile : Bool) (rname : String) : String := if refFromFile then rname else "annotation_fasta"

/-- the whole `sam variants` command on structured arguments -/
def samVarCore (vi : VarIn) (recs : List SamRec) (refFromFile : Bool) (refBytes : List Nat) (rname : String)
    (blocksFn : List SamRec → List (List SamRec))
    (pairOf : List SamRec → List Nat → List Nat × List Nat)
    (caller : List Nat → List Nat → List Region → List Nat → List Variant) : String :=
  samVarOn vi (refIDOf refFromFile rname) (refRawOf vi refFromFile refBytes) (blocksFn recs) pairOf caller

/-- the function the harness executes is `samVarCore` on the parsed fields of the case -/
theorem samVarCommand_eq (c : Case) (blocksFn : List SamRec → List (List SamRec))
    (pairOf : List SamRec → List Nat → List Nat × List Nat)
    (caller : List Nat → List Nat → List Region → List Nat → List Variant) :
    samVarCommand c blocksFn pairOf caller =
      samVarCore (varIn c) (parseRecs (c.get "recs")) (c.bool "reffromfile") (c.bytes "ref") (c.get "rname")
        blocksFn pairOf caller := rfl

/-! ### `variants` on the pair file of one query -/

/-- the input of `variants` for the pair file of one query: two records, the reference row (named `rn`) first, then
the query row; the reference is taken by name (`mode` = msa) or as the first record (`mode` = stdin); annotation and
options are those of `vi` -/
def pairVarIn (vi : VarIn) (mode rn qname : String) (R Q : List Nat) : VarIn :=
  { vi with refmode := mode, refname := rn, recs := [(rn, R), (qname, Q)] }

/-- what `variants` computes before it prints: the ID to skip and one mutation list per row -/
def varRows (vi : VarIn) (pairFn : List Nat → List Nat → List Region → List Nat → List Variant) :
    Option (String × List (String × List Variant)) :=
  match refAndRows vi with
  | none => none
  | some (refRow, rows, refID) =>
    let refD := degapUpper refRow
    let regs := if vi.annfmt == "gb" then
        (if refD.length != vi.origin.length then none else regionsFromGenbank vi.gb refD.length)
      else regionsFromGFF vi.gff refD
    match regs with
    | none => none
    | some (regions, inter) =>
      if rows.any (fun r => r.2.length != refRow.length) then none else
      some (refID, rows.map fun r => (r.1, pairFn refRow r.2 regions inter))

/-- `variants` prints `varRows` -/
theorem varCommand_eq_varRows (vi : VarIn) (pairFn : List Nat → List Nat → List Region → List Nat → List Variant) :
    varCommand vi pairFn =
      match varRows vi pairFn with
      | none => "!error"
      | some (refID, lists) =>
        if vi.agg then variantsAggregate vi.append vi.start vi.stop vi.thrn vi.thrd refID lists
        else variantsOutput vi.append vi.start vi.stop refID lists := by
  unfold varCommand varRows
  cases refAndRows vi with
  | none => rfl
  | some t =>
    obtain ⟨refRow, rows, refID⟩ := t
    simp only []
    generalize (if vi.annfmt == "gb" then
        (if (degapUpper refRow).length != vi.origin.length then none else regionsFromGenbank vi.gb (degapUpper refRow).length)
      else regionsFromGFF vi.gff (degapUpper refRow)) = regs
    cases regs with
    | none => rfl
    | some ri =>
      obtain ⟨regions, inter⟩ := ri
      simp only []
      by_cases hw : rows.any (fun r => r.2.length != refRow.length) = true
      · simp only [hw, if_true]
      · simp only [hw, Bool.false_eq_true, if_false]

/-! ### small facts on upper-casing and gap removal -/

theorem upper_idem (b : Nat) : upper (upper b) = upper b := by
  unfold upper; split <;> (try split) <;> omega

theorem upper_ne_dash (b : Nat) : (upper b != 45) = (b != 45) := by
  have : upper b = 45 ↔ b = 45 := by unfold upper; split <;> omega
  by_cases h : b = 45
  · subst h; rfl
  · have h' : upper b ≠ 45 := fun e => h (this.1 e)
    have a1 : (upper b != 45) = true := by simpa using h'
    have a2 : (b != 45) = true := by simpa using h
    rw [a1, a2]

theorem degapUpper_eq_degap (s : List Nat) : degapUpper s = (degap s).map upper := rfl

theorem degapUpper_noDash {s : List Nat} (h : NoDash s) : degapUpper s = s.map upper := by
  rw [degapUpper_eq_degap, degap_noDash h]

theorem degapUpper_map_upper (s : List Nat) : degapUpper (s.map upper) = degapUpper s := by
  unfold degapUpper
  induction s with
  | nil => rfl
  | cons a t ih =>
    simp only [List.map_cons, List.filter_cons, upper_ne_dash]
    by_cases h : (a != 45) = true
    · simp only [h, if_true, List.map_cons, upper_idem, ih]
    · simp only [h, Bool.false_eq_true, if_false, ih]

theorem noDash_upper {s : List Nat} (h : NoDash s) : NoDash (s.map upper) := by
  intro b hb
  obtain ⟨a, ha, rfl⟩ := List.mem_map.1 hb
  have := h a ha
  unfold dash at this ⊢
  unfold upper; split <;> omega

theorem star_le_upper {s : List Nat} (h : ∀ x ∈ s, star ≤ x) : ∀ x ∈ s.map upper, star ≤ x := by
  intro b hb
  obtain ⟨a, ha, rfl⟩ := List.mem_map.1 hb
  have := h a ha
  unfold star at this ⊢
  unfold upper; split <;> omega

/-- what the reference has to satisfy: no '-' and no byte below '*' (the conditions of C02) -/
structure RefOk (refRaw : List Nat) : Prop where
  noDash : NoDash refRaw
  ge : ∀ x ∈ refRaw, star ≤ x

/-- the two facts of C02 the pipeline needs: the reference row of the pair de-gaps to the reference, and both rows
have the same length -/
theorem pair_facts (refRaw : List Nat) (b : List SamRec) (href : RefOk refRaw)
    (hwf : ∀ r ∈ b, WFSamRec r refRaw.length) :
    degapUpper (blockToSeqPair b (refRaw.map upper)).1 = degapUpper refRaw ∧
    (blockToSeqPair b (refRaw.map upper)).2.length = (blockToSeqPair b (refRaw.map upper)).1.length := by
  have hnd := noDash_upper href.noDash
  have hge := star_le_upper href.ge
  have hwf' : ∀ r ∈ b, WFSamRec r (refRaw.map upper).length := by simpa using hwf
  constructor
  · rw [degapUpper_eq_degap, PairMulti.multi_ref_lossless b _ hnd hge hwf', degapUpper_noDash href.noDash]
    rw [List.map_map]
    apply List.map_congr_left
    intro a _
    exact upper_idem a
  · exact (PairMulti.multi_lengths b _ hnd hge hwf').symm

/-! ### `variants` on the pair file: which reference, which rows -/

/-- the rows of the output: in stdin mode the first record is consumed as the reference, by name it stays a row -/
def pairRows (mode rn qname : String) (R Q : List Nat) : List (String × List Nat) :=
  if mode = "stdin" then [(qname, Q)] else [(rn, R), (qname, Q)]

theorem refAndRows_pair (vi : VarIn) (mode rn qname : String) (R Q : List Nat) (hmode : mode ≠ "ann") :
    refAndRows (pairVarIn vi mode rn qname R Q) = some (R, pairRows mode rn qname R Q, rn) := by
  unfold refAndRows pairVarIn pairRows
  simp only []
  split
  · exact absurd rfl hmode
  · simp
  · rename_i h1 h2
    have : ¬ mode = "stdin" := fun e => h2 e
    simp [this]

/-- `variants` on a two-record pair file (reference row `R` named `rn`, query row `Q`), when the reference row
de-gaps to the reference of `sam variants`, the rows have equal length, and (GenBank annotation) the reference has the
length of the ORIGIN: the regions are those of `sam variants`, no error is raised, and the rows go to the caller -/
theorem varRows_pair (vi : VarIn) (mode rn qname : String) (R Q : List Nat) (refRaw : List Nat)
    (pairFn : List Nat → List Nat → List Region → List Nat → List Variant)
    (hmode : mode ≠ "ann")
    (hD : degapUpper R = degapUpper refRaw)
    (hlen : Q.length = R.length)
    (hgb : vi.annfmt = "gb" → (degapUpper refRaw).length = vi.origin.length) :
    varRows (pairVarIn vi mode rn qname R Q) pairFn =
      match samRegions vi refRaw with
      | none => none
      | some (regions, inter) =>
        some (rn, (pairRows mode rn qname R Q).map fun r => (r.1, pairFn R r.2 regions inter)) := by
  unfold varRows
  rw [refAndRows_pair vi mode rn qname R Q hmode]
  simp only []
  have hann : (pairVarIn vi mode rn qname R Q).annfmt = vi.annfmt := rfl
  have hor : (pairVarIn vi mode rn qname R Q).origin = vi.origin := rfl
  have hgbf : (pairVarIn vi mode rn qname R Q).gb = vi.gb := rfl
  have hgff : (pairVarIn vi mode rn qname R Q).gff = vi.gff := rfl
  rw [hann, hor, hgbf, hgff, hD]
  have hregs : (if vi.annfmt == "gb" then
        (if (degapUpper refRaw).length != vi.origin.length then none else regionsFromGenbank vi.gb (degapUpper refRaw).length)
      else regionsFromGFF vi.gff (degapUpper refRaw)) = samRegions vi refRaw := by
    unfold samRegions
    by_cases hg : vi.annfmt = "gb"
    · have hl := hgb hg
      simp [hg, hl]
    · simp [hg]
  rw [hregs]
  cases samRegions vi refRaw with
  | none => rfl
  | some ri =>
    obtain ⟨regions, inter⟩ := ri
    simp only []
    have hw : (pairRows mode rn qname R Q).any (fun r => r.2.length != R.length) = false := by
      unfold pairRows
      split <;> simp [hlen]
    simp only [hw, Bool.false_eq_true, if_false]

/-- the two ways of taking the reference give the same rows once the row named like the reference is dropped -/
theorem pairRows_filter (mode rn qname : String) (R Q : List Nat) (f : String × List Nat → String × List Variant)
    (hf : ∀ r, (f r).1 = r.1) :
    ((pairRows mode rn qname R Q).map f).filter (fun r => r.1 != rn) = ([(qname, Q)].map f).filter (fun r => r.1 != rn) := by
  unfold pairRows
  split
  · rfl
  · simp only [List.map_cons, List.filter_cons, hf]
    simp

theorem variantsOutput_congr (a : Bool) (s e : Int) (refID refID' : String) (rows rows' : List (String × List Variant))
    (h : rows.filter (fun r => r.1 != refID) = rows'.filter (fun r => r.1 != refID')) :
    variantsOutput a s e refID rows = variantsOutput a s e refID' rows' := by
  unfold variantsOutput; rw [h]

theorem variantsAggregate_congr (a : Bool) (s e : Int) (n d : Nat) (refID refID' : String) (rows rows' : List (String × List Variant))
    (h : rows.filter (fun r => r.1 != refID) = rows'.filter (fun r => r.1 != refID')) :
    variantsAggregate a s e n d refID rows = variantsAggregate a s e n d refID' rows' := by
  unfold variantsAggregate; simp only [h]

/-! ### what "the rows as printed" have to satisfy -/

/-- the pair `sam variants` computes for a block -/
def pairOfQuery (refRaw : List Nat) (b : List SamRec) : List Nat × List Nat := blockToSeqPair b (refRaw.map upper)

/-- a printed form `P` of the pair of block `b` is faithful: each row encodes to the row `sam variants` hands to the
caller, and the printed reference row de-gaps (and upper-cases) to the same sequence -/
structure PrintedOk (refRaw : List Nat) (b : List SamRec) (P : List Nat × List Nat) : Prop where
  hR : P.1.map (enc false) = (pairOfQuery refRaw b).1.map (enc false)
  hQ : P.2.map (enc false) = (pairOfQuery refRaw b).2.map (enc false)
  hD : degapUpper P.1 = degapUpper (pairOfQuery refRaw b).1

/-- the model of `sam toPairAlign` prints the bytes of the pair themselves -/
theorem printedOk_self (refRaw : List Nat) (b : List SamRec) : PrintedOk refRaw b (pairOfQuery refRaw b) := ⟨rfl, rfl, rfl⟩

/-- rows printed in upper case (all bytes below 256) -/
theorem printedOk_upper (refRaw : List Nat) (b : List SamRec)
    (h1 : ∀ x ∈ (pairOfQuery refRaw b).1, x < 256) (h2 : ∀ x ∈ (pairOfQuery refRaw b).2, x < 256) :
    PrintedOk refRaw b ((pairOfQuery refRaw b).1.map upper, (pairOfQuery refRaw b).2.map upper) := by
  refine ⟨?_, ?_, degapUpper_map_upper _⟩
  · simp only [List.map_map]
    exact List.map_congr_left fun x hx => enc_upper false x (h1 x hx)
  · simp only [List.map_map]
    exact List.map_congr_left fun x hx => enc_upper false x (h2 x hx)

/-- rows printed as the decoded characters of their codes (Go: the encoded pair written as FASTA), accepted symbols -/
theorem printedOk_decoded (refRaw : List Nat) (b : List SamRec)
    (h1 : Accepted (pairOfQuery refRaw b).1) (h2 : Accepted (pairOfQuery refRaw b).2) :
    PrintedOk refRaw b ((((pairOfQuery refRaw b).1.map (enc false)).map dec), (((pairOfQuery refRaw b).2.map (enc false)).map dec)) := by
  refine ⟨row_roundtrip _ h1, row_roundtrip _ h2, ?_⟩
  simp only []
  rw [printed_row _ h1]
  exact degapUpper_map_upper _

/-- when the reference row of the pair holds accepted symbols, a printed form (bytes below 256) is faithful as soon
as both rows encode to the rows of the pair: accepted symbols with the same code are the same letter up to case -/
theorem map_upper_of_codes : ∀ (l1 l2 : List Nat), l1.map (enc false) = l2.map (enc false) → Accepted l2 → (∀ x ∈ l1, x < 256) →
    l1.map upper = l2.map upper := by
  intro l1
  induction l1 with
  | nil => intro l2 h _ _; cases l2 with
    | nil => rfl
    | cons _ _ => simp at h
  | cons a t ih =>
    intro l2 h hacc hlt
    cases l2 with
    | nil => simp at h
    | cons c u =>
      simp only [List.map_cons, List.cons.injEq] at h ⊢
      have hc := hacc c List.mem_cons_self
      have ha : enc false a ≠ 0 := by rw [h.1]; exact hc.2
      refine ⟨?_, ih u h.2 (fun x hx => hacc x (List.mem_cons_of_mem _ hx)) (fun x hx => hlt x (List.mem_cons_of_mem _ hx))⟩
      rw [← dec_enc false a (hlt a List.mem_cons_self) ha, ← dec_enc false c hc.1 hc.2, h.1]

theorem printedOk_of_codes (refRaw : List Nat) (b : List SamRec) (P : List Nat × List Nat)
    (hR : P.1.map (enc false) = (pairOfQuery refRaw b).1.map (enc false))
    (hQ : P.2.map (enc false) = (pairOfQuery refRaw b).2.map (enc false))
    (hacc : Accepted (pairOfQuery refRaw b).1) (hlt : ∀ x ∈ P.1, x < 256) : PrintedOk refRaw b P := by
  refine ⟨hR, hQ, ?_⟩
  rw [← degapUpper_map_upper P.1, map_upper_of_codes _ _ hR hacc hlt, degapUpper_map_upper]

/-! ### (1) one query -/

/-- **C11.pipeline, one query.** `variants` on the pair file of block `b` (reference record named `rn` first, then
the query; reference taken by name or as first record; rows `P` a faithful printed form of the pair), with the
annotation and the options of `sam variants`: the output - error, per-sequence table or aggregate table - is that
of `sam variants` on this one block. -/
theorem varCommand_pair (vi : VarIn) (mode rn refID : String) (refRaw : List Nat) (b : List SamRec) (P : List Nat × List Nat)
    (hmode : mode ≠ "ann") (href : RefOk refRaw) (hwf : ∀ r ∈ b, WFSamRec r refRaw.length)
    (hgb : vi.annfmt = "gb" → refRaw.length = vi.origin.length)
    (hname : (qnameOf b != rn) = (qnameOf b != refID))
    (hP : PrintedOk refRaw b P) :
    varCommand (pairVarIn vi mode rn (qnameOf b) P.1 P.2) modelPair =
      samVarOn vi refID refRaw [b] (fun b r => blockToSeqPair b r) modelPair := by
  obtain ⟨hR, hQ, hD⟩ := hP
  unfold pairOfQuery at hR hQ hD
  obtain ⟨hdeg, hlen⟩ := pair_facts refRaw b href hwf
  have hlenR : P.1.length = (blockToSeqPair b (refRaw.map upper)).1.length := by
    simpa using congrArg List.length hR
  have hlenQ : P.2.length = (blockToSeqPair b (refRaw.map upper)).2.length := by
    simpa using congrArg List.length hQ
  rw [varCommand_eq_varRows,
    varRows_pair vi mode rn (qnameOf b) P.1 P.2 refRaw modelPair hmode (hD.trans hdeg) (by omega)
      (by intro hg; rw [degapUpper_noDash href.noDash, List.length_map]; exact hgb hg)]
  unfold samVarOn
  cases samRegions vi refRaw with
  | none => rfl
  | some ri =>
    obtain ⟨regions, inter⟩ := ri
    simp only []
    have hagg : (pairVarIn vi mode rn (qnameOf b) P.1 P.2).agg = vi.agg := rfl
    have hfilt : ((pairRows mode rn (qnameOf b) P.1 P.2).map fun r => (r.1, modelPair P.1 r.2 regions inter)).filter (fun r => r.1 != rn) =
        ([b].map fun b => (qnameOf b, modelPair (blockToSeqPair b (refRaw.map upper)).1 (blockToSeqPair b (refRaw.map upper)).2 regions inter)).filter
          (fun r => r.1 != refID) := by
      rw [pairRows_filter mode rn (qnameOf b) P.1 P.2 (fun r => (r.1, modelPair P.1 r.2 regions inter)) (fun _ => rfl)]
      simp only [List.map_cons, List.map_nil, List.filter_cons, List.filter_nil, hname]
      unfold modelPair
      rw [hR, hQ]
    rw [hagg]
    by_cases ha : vi.agg = true
    · simp only [ha, if_true]
      exact variantsAggregate_congr _ _ _ _ _ _ _ _ _ hfilt
    · simp only [ha, Bool.false_eq_true, if_false]
      exact variantsOutput_congr _ _ _ _ _ _ _ hfilt

/-- the row `sam variants` prints for one block (nothing for a query named like the reference) -/
def queryRow (vi : VarIn) (refID : String) (refRaw : List Nat) (regions : List Region) (inter : List Nat) (b : List SamRec) : String :=
  if qnameOf b != refID then
    variantsLine vi.append vi.start vi.stop (qnameOf b)
      (modelPair (pairOfQuery refRaw b).1 (pairOfQuery refRaw b).2 regions inter)
  else ""

def header : String := "query,mutations\n"

/-! ### (2) the whole file, one row per query -/

theorem join_filter_map {α : Type} (f : α → Bool) (g : α → String) : ∀ (l : List α),
    String.join ((l.filter f).map g) = String.join (l.map fun a => if f a then g a else "") := by
  intro l
  induction l with
  | nil => rfl
  | cons a t ih =>
    by_cases h : f a = true
    · simp only [List.filter_cons, h, if_true, List.map_cons, String.join_cons, ih]
    · simp only [List.filter_cons, h, Bool.false_eq_true, if_false, List.map_cons, String.join_cons, ih, String.empty_append]

/-- **C11.pipeline, whole file (per-sequence output)**, for any list of blocks: the output of `sam variants` is the
header followed by the rows of the blocks, in order -/
theorem samVarOn_rows (vi : VarIn) (refID : String) (refRaw : List Nat) (blocks : List (List SamRec))
    (regions : List Region) (inter : List Nat) (hregs : samRegions vi refRaw = some (regions, inter)) (hagg : vi.agg = false) :
    samVarOn vi refID refRaw blocks (fun b r => blockToSeqPair b r) modelPair =
      header ++ String.join (blocks.map (queryRow vi refID refRaw regions inter)) := by
  unfold samVarOn
  rw [hregs]
  simp only [hagg, Bool.false_eq_true, if_false]
  unfold variantsOutput header
  rw [List.filter_map, List.map_map, join_filter_map]
  rfl

/-- the annotation cannot be built: both commands fail, whatever the records -/
theorem samVarOn_error (vi : VarIn) (refID : String) (refRaw : List Nat) (blocks : List (List SamRec))
    (hregs : samRegions vi refRaw = none) :
    samVarOn vi refID refRaw blocks (fun b r => blockToSeqPair b r) modelPair = "!error" := by
  unfold samVarOn; rw [hregs]

/-- **C11.pipeline, whole file (per-sequence output), both commands.** For blocks of well-formed records: the output
of `sam variants` is the header followed by one row per block, in order, and the row of each block is exactly the
row `variants` prints after the header for the pair file of that block -/
theorem samVarOn_rows_are_variants_rows (vi : VarIn) (mode refID : String) (refRaw : List Nat) (blocks : List (List SamRec))
    (printed : List SamRec → List Nat × List Nat)
    (regions : List Region) (inter : List Nat) (hregs : samRegions vi refRaw = some (regions, inter)) (hagg : vi.agg = false)
    (hmode : mode ≠ "ann") (href : RefOk refRaw) (hwf : ∀ b ∈ blocks, ∀ r ∈ b, WFSamRec r refRaw.length)
    (hgb : vi.annfmt = "gb" → refRaw.length = vi.origin.length)
    (hP : ∀ b ∈ blocks, PrintedOk refRaw b (printed b)) :
    samVarOn vi refID refRaw blocks (fun b r => blockToSeqPair b r) modelPair =
        header ++ String.join (blocks.map (queryRow vi refID refRaw regions inter)) ∧
    ∀ b ∈ blocks, varCommand (pairVarIn vi mode refID (qnameOf b) (printed b).1 (printed b).2) modelPair =
        header ++ queryRow vi refID refRaw regions inter b := by
  refine ⟨samVarOn_rows vi refID refRaw blocks regions inter hregs hagg, ?_⟩
  intro b hb
  rw [varCommand_pair vi mode refID refID refRaw b (printed b) hmode href (hwf b hb) hgb rfl (hP b hb),
    samVarOn_rows vi refID refRaw [b] regions inter hregs hagg]
  simp only [List.map_cons, List.map_nil, String.join_cons, String.join_nil, String.append_empty]

/-! ### (3) both output forms: the writer of `variants` on the lists `variants` computes per pair file -/

/-- the mutation lists `variants` computes (empty when it fails) -/
def rowsOf (o : Option (String × List (String × List Variant))) : List (String × List Variant) :=
  match o with
  | some (_, rows) => rows
  | none => []

/-- the lists `variants` computes on the pair file of block `b` -/
def pairLists (vi : VarIn) (mode refID : String) (b : List SamRec) (P : List Nat × List Nat) : List (String × List Variant) :=
  rowsOf (varRows (pairVarIn vi mode refID (qnameOf b) P.1 P.2) modelPair)

/-- on the pair file of a block `variants` does not fail, skips the ID of the reference, and its lists are, the
reference's own row apart, the one list `sam variants` computes for the block -/
theorem varRows_pair_block (vi : VarIn) (mode refID : String) (refRaw : List Nat) (b : List SamRec) (P : List Nat × List Nat)
    (regions : List Region) (inter : List Nat) (hregs : samRegions vi refRaw = some (regions, inter))
    (hmode : mode ≠ "ann") (href : RefOk refRaw) (hwf : ∀ r ∈ b, WFSamRec r refRaw.length)
    (hgb : vi.annfmt = "gb" → refRaw.length = vi.origin.length)
    (hP : PrintedOk refRaw b P) :
    varRows (pairVarIn vi mode refID (qnameOf b) P.1 P.2) modelPair = some (refID, pairLists vi mode refID b P) ∧
    (pairLists vi mode refID b P).filter (fun r => r.1 != refID) =
      [(qnameOf b, modelPair (pairOfQuery refRaw b).1 (pairOfQuery refRaw b).2 regions inter)].filter (fun r => r.1 != refID) := by
  obtain ⟨hR, hQ, hD⟩ := hP
  obtain ⟨hdeg, hlen⟩ := pair_facts refRaw b href hwf
  have hlenR : P.1.length = (pairOfQuery refRaw b).1.length := by simpa using congrArg List.length hR
  have hlenQ : P.2.length = (pairOfQuery refRaw b).2.length := by simpa using congrArg List.length hQ
  have hv := varRows_pair vi mode refID (qnameOf b) P.1 P.2 refRaw modelPair hmode (hD.trans hdeg)
      (by unfold pairOfQuery at hlenR hlenQ; omega)
      (by intro hg; rw [degapUpper_noDash href.noDash, List.length_map]; exact hgb hg)
  rw [hregs] at hv
  simp only [] at hv
  unfold pairLists
  rw [hv]
  refine ⟨rfl, ?_⟩
  unfold rowsOf
  simp only []
  rw [pairRows_filter mode refID (qnameOf b) P.1 P.2 (fun r => (r.1, modelPair P.1 r.2 regions inter)) (fun _ => rfl)]
  simp only [List.map_cons, List.map_nil]
  unfold modelPair
  rw [hR, hQ]

theorem filter_flatMap_eq {α β : Type} (f : β → Bool) (g : α → List β) (h : α → β) : ∀ (l : List α),
    (∀ a ∈ l, (g a).filter f = [h a].filter f) → (l.flatMap g).filter f = (l.map h).filter f := by
  intro l
  induction l with
  | nil => intro _; rfl
  | cons a t ih =>
    intro hl
    rw [List.flatMap_cons, List.filter_append, hl a List.mem_cons_self, ih (fun x hx => hl x (List.mem_cons_of_mem _ hx))]
    simp only [List.map_cons, List.filter_cons, List.filter_nil]
    split <;> rfl

/-- **C11.pipeline, whole file, per-sequence and aggregate form.** The output of `sam variants` is the writer of
`variants` (per-sequence table, or aggregate table with the same threshold) applied to the concatenation, in file
order, of the lists `variants` computes on the pair file of each query. In particular the aggregate table of
`sam variants` is `variantsAggregate` of the per-query lists `variants` computes. -/
theorem samVarOn_eq_variants_lists (vi : VarIn) (mode refID : String) (refRaw : List Nat) (blocks : List (List SamRec))
    (printed : List SamRec → List Nat × List Nat)
    (regions : List Region) (inter : List Nat) (hregs : samRegions vi refRaw = some (regions, inter))
    (hmode : mode ≠ "ann") (href : RefOk refRaw) (hwf : ∀ b ∈ blocks, ∀ r ∈ b, WFSamRec r refRaw.length)
    (hgb : vi.annfmt = "gb" → refRaw.length = vi.origin.length)
    (hP : ∀ b ∈ blocks, PrintedOk refRaw b (printed b)) :
    samVarOn vi refID refRaw blocks (fun b r => blockToSeqPair b r) modelPair =
      (if vi.agg then
        variantsAggregate vi.append vi.start vi.stop vi.thrn vi.thrd refID
          (blocks.flatMap fun b => pairLists vi mode refID b (printed b))
      else
        variantsOutput vi.append vi.start vi.stop refID
          (blocks.flatMap fun b => pairLists vi mode refID b (printed b))) := by
  have hfilt : (blocks.map fun b => (qnameOf b, modelPair (blockToSeqPair b (refRaw.map upper)).1
        (blockToSeqPair b (refRaw.map upper)).2 regions inter)).filter (fun r => r.1 != refID) =
      (blocks.flatMap fun b => pairLists vi mode refID b (printed b)).filter (fun r => r.1 != refID) := by
    symm
    apply filter_flatMap_eq
    intro b hb
    exact (varRows_pair_block vi mode refID refRaw b (printed b) regions inter hregs hmode href (hwf b hb) hgb (hP b hb)).2
  unfold samVarOn
  rw [hregs]
  simp only []
  by_cases ha : vi.agg = true
  · simp only [ha, if_true]
    exact variantsAggregate_congr _ _ _ _ _ _ _ _ _ hfilt
  · simp only [ha, Bool.false_eq_true, if_false]
    exact variantsOutput_congr _ _ _ _ _ _ _ hfilt

/-- (3) spelled out for the aggregate form, together with what `variants --aggregate` prints for one pair file -/
theorem samVarOn_aggregate (vi : VarIn) (mode refID : String) (refRaw : List Nat) (blocks : List (List SamRec))
    (printed : List SamRec → List Nat × List Nat)
    (regions : List Region) (inter : List Nat) (hregs : samRegions vi refRaw = some (regions, inter)) (hagg : vi.agg = true)
    (hmode : mode ≠ "ann") (href : RefOk refRaw) (hwf : ∀ b ∈ blocks, ∀ r ∈ b, WFSamRec r refRaw.length)
    (hgb : vi.annfmt = "gb" → refRaw.length = vi.origin.length)
    (hP : ∀ b ∈ blocks, PrintedOk refRaw b (printed b)) :
    samVarOn vi refID refRaw blocks (fun b r => blockToSeqPair b r) modelPair =
        variantsAggregate vi.append vi.start vi.stop vi.thrn vi.thrd refID
          (blocks.flatMap fun b => pairLists vi mode refID b (printed b)) ∧
    ∀ b ∈ blocks, varCommand (pairVarIn vi mode refID (qnameOf b) (printed b).1 (printed b).2) modelPair =
        variantsAggregate vi.append vi.start vi.stop vi.thrn vi.thrd refID (pairLists vi mode refID b (printed b)) := by
  constructor
  · rw [samVarOn_eq_variants_lists vi mode refID refRaw blocks printed regions inter hregs hmode href hwf hgb hP]
    simp only [hagg, if_true]
  · intro b hb
    rw [varCommand_eq_varRows,
      (varRows_pair_block vi mode refID refRaw b (printed b) regions inter hregs hmode href (hwf b hb) hgb (hP b hb)).1]
    have : (pairVarIn vi mode refID (qnameOf b) (printed b).1 (printed b).2).agg = true := hagg
    simp only [this, if_true]
    rfl

/-! ### the bytes of a pair: nothing but reference bytes, SEQ bytes, '-' and 'N' -/

theorem covAt_base_mem (r : SamRec) (L : Nat) (h : WFSamRec r L) (i b : Nat) (hc : covAt r i = some (.base b)) : b ∈ r.seq := by
  unfold covAt at hc
  simp only [Option.map_eq_some_iff] at hc
  obtain ⟨e, hf, he2⟩ := hc
  exact mem_covList_base r.seq r.cigar 0 r.pos e b (by have := h.hq; omega) (List.mem_of_find?_eq_some hf) he2

theorem flatCol_cases (block : List SamRec) (p : Nat) :
    flatCol block p = none ∨ flatCol block p = some letN ∨ flatCol block p = some dash ∨
      ∃ r ∈ block, ∃ b, covAt r p = some (.base b) ∧ flatCol block p = some b := by
  unfold flatCol
  simp only []
  split
  · rename_i b heq
    right; right; right
    have hb : b ∈ [b] := List.mem_singleton.2 rfl
    rw [← heq] at hb
    rw [List.mem_eraseDups] at hb
    obtain ⟨c, hc, hcb⟩ := List.mem_filterMap.1 hb
    obtain ⟨r, hr, hrc⟩ := List.mem_filterMap.1 hc
    cases c with
    | del => simp at hcb
    | base b' =>
      simp only [Option.some.injEq] at hcb
      subst hcb
      exact ⟨r, hr, b', hrc, rfl⟩
  · right; left; rfl
  · split
    · right; right; left; rfl
    · left; rfl

theorem specPair_ref_bytes (Pr : Nat → Prop) (block : List SamRec) (ref : List Nat) (hd : Pr dash) (hr : ∀ x ∈ ref, Pr x) :
    ∀ x ∈ (specPair block ref).1, Pr x := by
  intro x hx
  rw [PairSpec.specPair_eq] at hx
  simp only [List.mem_map, List.mem_flatMap] at hx
  obtain ⟨c, ⟨p, _, hc⟩, rfl⟩ := hx
  unfold PairSpec.colsAt at hc
  rcases List.mem_append.1 hc with hc | hc
  · simp only [List.mem_flatMap, List.mem_map] at hc
    obtain ⟨ins, _, b, _, rfl⟩ := hc
    exact hd
  · cases hp : ref[p]? with
    | none => rw [hp] at hc; simp at hc
    | some rb =>
      rw [hp] at hc
      simp only [List.mem_singleton] at hc
      subst hc
      exact hr rb (List.mem_of_getElem? hp)

theorem specPair_que_bytes (Pr : Nat → Prop) (block : List SamRec) (ref : List Nat) (L : Nat)
    (hwf : ∀ r ∈ block, WFSamRec r L) (hd : Pr dash) (hn : Pr letN) (hs : ∀ r ∈ block, ∀ x ∈ r.seq, Pr x) :
    ∀ x ∈ (specPair block ref).2, Pr x := by
  intro x hx
  rw [PairSpec.specPair_eq] at hx
  simp only [List.mem_map, List.mem_flatMap] at hx
  obtain ⟨c, ⟨p, _, hc⟩, rfl⟩ := hx
  unfold PairSpec.colsAt at hc
  rcases List.mem_append.1 hc with hc | hc
  · simp only [List.mem_flatMap, List.mem_map, List.mem_filter] at hc
    obtain ⟨ins, ⟨⟨r, hr, hins⟩, _⟩, b, hb, rfl⟩ := hc
    exact hs r hr b (PairMulti.insList_bases r.seq r.cigar 0 r.pos ins hins b hb)
  · cases hp : ref[p]? with
    | none => rw [hp] at hc; simp at hc
    | some rb =>
      rw [hp] at hc
      simp only [List.mem_singleton] at hc
      subst hc
      simp only []
      rcases flatCol_cases block p with h | h | h | ⟨r, hr, b, hcov, h⟩
      · rw [h]; exact hn
      · rw [h]; exact hn
      · rw [h]; exact hd
      · rw [h]; exact hs r hr b (covAt_base_mem r L (hwf r hr) p b hcov)

/-- every byte of the reference row of the pair is '-' or an upper-cased reference byte; every byte of the query row
is '-', 'N' or a SEQ byte of a record of the block -/
theorem pair_bytes (Pr : Nat → Prop) (refRaw : List Nat) (b : List SamRec) (href : RefOk refRaw)
    (hwf : ∀ r ∈ b, WFSamRec r refRaw.length) (hd : Pr dash) :
    ((∀ x ∈ refRaw, Pr (upper x)) → ∀ x ∈ (pairOfQuery refRaw b).1, Pr x) ∧
    (Pr letN → (∀ r ∈ b, ∀ x ∈ r.seq, Pr x) → ∀ x ∈ (pairOfQuery refRaw b).2, Pr x) := by
  have hwf' : ∀ r ∈ b, WFSamRec r (refRaw.map upper).length := by simpa using hwf
  unfold pairOfQuery
  rw [PairMulti.blockToSeqPair_eq_specPair b _ (noDash_upper href.noDash) (star_le_upper href.ge) hwf']
  constructor
  · intro hr
    apply specPair_ref_bytes Pr b _ hd
    intro x hx
    obtain ⟨a, ha, rfl⟩ := List.mem_map.1 hx
    exact hr a ha
  · intro hn hs
    exact specPair_que_bytes Pr b _ _ hwf' hd hn hs

/-- so the upper-cased printed form is faithful whenever the reference bytes are below 256 (the SEQ bytes are letters) -/
theorem printedOk_upper_wf (refRaw : List Nat) (b : List SamRec) (href : RefOk refRaw)
    (hwf : ∀ r ∈ b, WFSamRec r refRaw.length) (hlt : ∀ x ∈ refRaw, x < 256) :
    PrintedOk refRaw b ((pairOfQuery refRaw b).1.map upper, (pairOfQuery refRaw b).2.map upper) := by
  have hb := pair_bytes (fun x => x < 256) refRaw b href hwf (by decide)
  apply printedOk_upper
  · apply hb.1
    intro x hx
    have := hlt x hx
    show upper x < 256
    unfold upper; split <;> omega
  · apply hb.2 (by decide)
    intro r hr x hx
    have := (hwf r hr).letters x hx
    show x < 256
    unfold isLetter at this
    simp only [Bool.or_eq_true, Bool.and_eq_true, decide_eq_true_eq] at this
    omega

/-! ### the pair file: what `sam toPairAlign` writes and what the reader of `variants` gets back -/

theorem checkArgs_whole (L : Nat) (hpos : 0 < L) : checkArgs L (-1) (-1) = some (1, L, false) := by
  unfold checkArgs
  simp only [if_true]
  have h1 : ¬ ((1 : Int) > (L : Int) ∨ (1 : Int) < 1) := by omega
  have h2 : ¬ ((L : Int) > (L : Int) ∨ (L : Int) < 1) := by omega
  have h3 : ¬ ((1 : Int) > (L : Int)) := by omega
  rw [if_neg h1, if_neg h2, if_neg h3]
  rfl

/-- `sam toPairAlign` without window, with the reference and the insertions kept, writes one file per query holding
the pair `sam variants` computes for that query (the harness upper-cases the reference before the call) -/
theorem toPairAlign_files (refRaw : List Nat) (refName : String) (wrap : Int) (recs : List SamRec) (hpos : 0 < refRaw.length) :
    toPairAlign (refRaw.map upper) refName (-1) (-1) wrap false false recs =
      some ((samBlocks recs).map fun b =>
        (qnameOf b, pairText wrap refName (qnameOf b) false (pairOfQuery refRaw b))) := by
  unfold toPairAlign
  rw [checkArgs_whole _ (by simpa using hpos)]
  rfl

/-- the text of a pair file is the text of its two records, the reference record first -/
theorem pairText_join (wrap : Int) (rn qn : String) (p : List Nat × List Nat) (idr idq : List Nat) :
    pairText wrap rn qn false p =
      String.join ([(rn, p.1, idr), (qn, p.2, idq)].map fun r => tomaRecordText wrap r.1 r.2.1) := by
  have hrec : ∀ (name : String) (s : List Nat), tomaRecordText wrap name s = ">" ++ name ++ "\n" ++ wrapLines wrap s := by
    intro name s
    unfold tomaRecordText
    by_cases hw : wrap > 0
    · simp only [hw, if_true]
    · have : wrap ≤ 0 := by omega
      simp only [hw, if_false, wrapLines, this, if_true]
  unfold pairText
  simp only [Bool.false_eq_true, if_false, List.map_cons, List.map_nil, String.join_cons, String.join_nil, hrec,
    String.append_assoc, String.append_empty]

/-- **the text route.** The encoded FASTA reader of `variants`, applied to the text `sam toPairAlign` writes for a pair
(any wrap width), returns two records whose encoded rows are the rows `sam variants` hands to the caller: no
symbol, no column is changed by writing the pair and reading it back. Needed: names that are valid headers, a
non-empty reference row, rows of equal length made of accepted ASCII symbols. -/
theorem pairText_reads_back (wrap : Int) (rn qn : String) (p : List Nat × List Nat) (idr idq : List Nat)
    (hW : 0 < p.1.length)
    (h : ∀ r ∈ [(rn, p.1, idr), (qn, p.2, idq)], FastaWrite.WriteOk false p.1.length r) :
    readFasta (.encoded false) (stringToBytes (pairText wrap rn qn false p)) =
      .ok [{ id := idr, desc := stringToBytes rn, seq := p.1.map (enc false), idx := 0, score := scoreSeq (p.1.map (enc false)) },
           { id := idq, desc := stringToBytes qn, seq := p.2.map (enc false), idx := 1, score := scoreSeq (p.2.map (enc false)) }] := by
  rw [pairText_join wrap rn qn p idr idq, FastaWrite.written_reads_back false wrap p.1.length hW _ _ h]
  have h1 : p.1 ≠ [] := by intro e; rw [e] at hW; simp at hW
  have h2 : p.2 ≠ [] := by
    intro e
    have := (h (qn, p.2, idq) (by simp)).len
    simp only [] at this
    rw [e] at this
    simp at this
    omega
  simp only [List.map_cons, List.map_nil, recsFrom, recOf, FastaWrite.lrec_seq _ _ _ _ h1, FastaWrite.lrec_seq _ _ _ _ h2]
  rfl

/-- hence the caller of `variants`, run on the records read back from the pair file, computes the list
`sam variants` computes from the pair itself -/
theorem caller_on_read_back (wrap : Int) (rn qn : String) (p : List Nat × List Nat) (idr idq : List Nat)
    (hW : 0 < p.1.length)
    (h : ∀ r ∈ [(rn, p.1, idr), (qn, p.2, idq)], FastaWrite.WriteOk false p.1.length r)
    (regions : List Region) (inter : List Nat) :
    ∃ r1 r2, readFasta (.encoded false) (stringToBytes (pairText wrap rn qn false p)) = .ok [r1, r2] ∧
      r1.id = idr ∧ r2.id = idq ∧
      getVariantsPair r1.seq r2.seq regions inter = modelPair p.1 p.2 regions inter :=
  ⟨_, _, pairText_reads_back wrap rn qn p idr idq hW h, rfl, rfl, rfl⟩

/-! ### the commands as the harness runs them -/

/-- the hypotheses on the input of `sam variants`:
* the reference holds no '-' and no byte below '*';
* every retained record fits the reference, its SEQ covers its CIGAR and holds letters;
* GenBank annotation and reference read from a file: the file's sequence has the length of the ORIGIN -/
structure SamVarOk (vi : VarIn) (recs : List SamRec) (refFromFile : Bool) (refBytes : List Nat) : Prop where
  ref : RefOk (refRawOf vi refFromFile refBytes)
  recs : ∀ r ∈ recs, isSkipped r = false → WFSamRec r (refRawOf vi refFromFile refBytes).length
  gb : vi.annfmt = "gb" → refFromFile = true → refBytes.length = vi.origin.length

theorem SamVarOk.hgb {vi : VarIn} {recs : List SamRec} {refFromFile : Bool} {refBytes : List Nat}
    (h : SamVarOk vi recs refFromFile refBytes) :
    vi.annfmt = "gb" → (refRawOf vi refFromFile refBytes).length = vi.origin.length := by
  intro hg
  unfold refRawOf
  cases refFromFile with
  | true => exact h.gb hg rfl
  | false => rfl

theorem SamVarOk.blocks {vi : VarIn} {recs : List SamRec} {refFromFile : Bool} {refBytes : List Nat}
    (h : SamVarOk vi recs refFromFile refBytes) :
    ∀ b ∈ samBlocks recs, ∀ r ∈ b, WFSamRec r (refRawOf vi refFromFile refBytes).length :=
  fun b hb => (PairSkipIns.blocks_wf _ recs h.recs b hb).2

/-- **C11 (main theorem).** For every SAM file and reference meeting `SamVarOk`, every annotation, every option
set, both ways of naming the reference to `variants` (`mode` = "msa": by name, "stdin": first record), and every
faithful printed form of the pairs (`printed`; e.g. the bytes themselves, as the model of `sam toPairAlign` prints):

* (1) for every query `b` of the file, `variants` on the pair file of `b` outputs exactly what `sam variants` outputs
  for the file reduced to that query (same error, same header, same row, same aggregate table);
* (2)+(3) the output of `sam variants` on the whole file is an error exactly when the annotation cannot be built
  (and then `variants` fails too, by (1)); otherwise it is the writer of `variants` - per-sequence table, or aggregate
  table with the same threshold - applied to the concatenation, in file order, of the lists `variants` computes on the
  pair files. -/
theorem sam_variants_is_variants_on_pairs (vi : VarIn) (recs : List SamRec) (refFromFile : Bool) (refBytes : List Nat)
    (rname mode : String) (printed : List SamRec → List Nat × List Nat)
    (hmode : mode ≠ "ann") (hok : SamVarOk vi recs refFromFile refBytes)
    (hP : ∀ b ∈ samBlocks recs, PrintedOk (refRawOf vi refFromFile refBytes) b (printed b)) :
    (∀ b ∈ samBlocks recs,
      varCommand (pairVarIn vi mode (refIDOf refFromFile rname) (qnameOf b) (printed b).1 (printed b).2) modelPair =
        samVarOn vi (refIDOf refFromFile rname) (refRawOf vi refFromFile refBytes) [b] (fun b r => blockToSeqPair b r) modelPair) ∧
    samVarCore vi recs refFromFile refBytes rname samBlocks (fun b r => blockToSeqPair b r) modelPair =
      (match samRegions vi (refRawOf vi refFromFile refBytes) with
       | none => "!error"
       | some _ =>
         if vi.agg then
           variantsAggregate vi.append vi.start vi.stop vi.thrn vi.thrd (refIDOf refFromFile rname)
             ((samBlocks recs).flatMap fun b => pairLists vi mode (refIDOf refFromFile rname) b (printed b))
         else
           variantsOutput vi.append vi.start vi.stop (refIDOf refFromFile rname)
             ((samBlocks recs).flatMap fun b => pairLists vi mode (refIDOf refFromFile rname) b (printed b))) := by
  constructor
  · intro b hb
    exact varCommand_pair vi mode _ _ _ b (printed b) hmode hok.ref (hok.blocks b hb) hok.hgb rfl (hP b hb)
  · unfold samVarCore
    cases hregs : samRegions vi (refRawOf vi refFromFile refBytes) with
    | none => exact samVarOn_error vi _ _ _ hregs
    | some ri =>
      obtain ⟨regions, inter⟩ := ri
      exact samVarOn_eq_variants_lists vi mode _ _ _ printed regions inter hregs hmode hok.ref hok.blocks hok.hgb hP

/-- **C11, per-sequence output, row by row.** When the annotation can be built and no aggregate is asked for, the
output of `sam variants` is the header followed by one row per query in file order (`queryRow`; nothing for a query
named like the reference), and `variants` on the pair file of a query prints the header and that very row. -/
theorem sam_variants_rows (vi : VarIn) (recs : List SamRec) (refFromFile : Bool) (refBytes : List Nat)
    (rname mode : String) (printed : List SamRec → List Nat × List Nat)
    (regions : List Region) (inter : List Nat)
    (hregs : samRegions vi (refRawOf vi refFromFile refBytes) = some (regions, inter)) (hagg : vi.agg = false)
    (hmode : mode ≠ "ann") (hok : SamVarOk vi recs refFromFile refBytes)
    (hP : ∀ b ∈ samBlocks recs, PrintedOk (refRawOf vi refFromFile refBytes) b (printed b)) :
    samVarCore vi recs refFromFile refBytes rname samBlocks (fun b r => blockToSeqPair b r) modelPair =
      header ++ String.join ((samBlocks recs).map
        (queryRow vi (refIDOf refFromFile rname) (refRawOf vi refFromFile refBytes) regions inter)) ∧
    ∀ b ∈ samBlocks recs,
      varCommand (pairVarIn vi mode (refIDOf refFromFile rname) (qnameOf b) (printed b).1 (printed b).2) modelPair =
        header ++ queryRow vi (refIDOf refFromFile rname) (refRawOf vi refFromFile refBytes) regions inter b :=
  samVarOn_rows_are_variants_rows vi mode _ _ _ printed regions inter hregs hagg hmode hok.ref hok.blocks hok.hgb hP

/-- the same about the very functions the harness executes (`runSamVar` runs `samVarCommand c samBlocks
blockToSeqPair modelPair`, `runVar` runs `varCommand vi modelPair`), with the pair files holding the bytes of the
pairs, as the model of `sam toPairAlign` prints them -/
theorem samVarCommand_rows (c : Case) (mode : String) (regions : List Region) (inter : List Nat)
    (hregs : samRegions (varIn c) (refRawOf (varIn c) (c.bool "reffromfile") (c.bytes "ref")) = some (regions, inter))
    (hagg : (varIn c).agg = false) (hmode : mode ≠ "ann")
    (hok : SamVarOk (varIn c) (parseRecs (c.get "recs")) (c.bool "reffromfile") (c.bytes "ref")) :
    samVarCommand c samBlocks (fun b r => blockToSeqPair b r) modelPair =
      header ++ String.join ((samBlocks (parseRecs (c.get "recs"))).map
        (queryRow (varIn c) (refIDOf (c.bool "reffromfile") (c.get "rname"))
          (refRawOf (varIn c) (c.bool "reffromfile") (c.bytes "ref")) regions inter)) ∧
    ∀ b ∈ samBlocks (parseRecs (c.get "recs")),
      varCommand (pairVarIn (varIn c) mode (refIDOf (c.bool "reffromfile") (c.get "rname")) (qnameOf b)
          (pairOfQuery (refRawOf (varIn c) (c.bool "reffromfile") (c.bytes "ref")) b).1
          (pairOfQuery (refRawOf (varIn c) (c.bool "reffromfile") (c.bytes "ref")) b).2) modelPair =
        header ++ queryRow (varIn c) (refIDOf (c.bool "reffromfile") (c.get "rname"))
          (refRawOf (varIn c) (c.bool "reffromfile") (c.bytes "ref")) regions inter b := by
  rw [samVarCommand_eq]
  exact sam_variants_rows (varIn c) _ _ _ _ mode (pairOfQuery _) regions inter hregs hagg hmode hok
    (fun b _ => printedOk_self _ b)

/-! ### non-vacuity: one query with a substitution in a CDS, an insertion and a deletion -/

/-- reference ATGGCATTTTAACC; CDS 1..12 = ATG GCA TTT TAA (M A F stop) -/
def pvRef : List Nat := [65, 84, 71, 71, 67, 65, 84, 84, 84, 84, 65, 65, 67, 67]
def pvFeat : GbFeature := ⟨"g", .range, [(1, 12)], 1, [77, 65, 70]⟩
def pvGff : GffRow := ⟨"CDS", 1, 12, "+", 0, some "id1", some "g"⟩
/-- annotation (GenBank feature and GFF row of the same CDS), ORIGIN = the reference, --append-snps, no window -/
def pvVi (fmt : String) (agg : Bool) : VarIn := ⟨fmt, [pvFeat], [pvGff], "", "", pvRef, [], true, 0, 0, agg, 0, 1⟩
/-- 4M1I3M2D5M at POS 1, SEQ ATGG T AAT TAACC: C5A inside the CDS, T inserted after base 4, bases 8-9 deleted -/
def pvRec : SamRec := ⟨"q", 0, 0, [(0, 4), (1, 1), (0, 3), (2, 2), (0, 5)], [65, 84, 71, 71, 84, 65, 65, 84, 84, 65, 65, 67, 67]⟩

theorem pv_ref : pvRef = strBytes "ATGGCATTTTAACC" := by decide
theorem pv_refOk : RefOk pvRef := ⟨by unfold NoDash; decide, by decide⟩
theorem pv_wf : WFSamRec pvRec pvRef.length := ⟨by decide, by decide, by decide⟩

theorem pv_ok (fmt : String) (agg : Bool) : SamVarOk (pvVi fmt agg) [pvRec] true pvRef := by
  refine ⟨pv_refOk, ?_, fun _ _ => rfl⟩
  intro r hr _
  rw [List.mem_singleton.1 hr]
  exact pv_wf

theorem pv_blocks : samBlocks [pvRec] = [[pvRec]] := rfl
example : pairOfQuery pvRef [pvRec] = (strBytes "ATGG-CATTTTAACC", strBytes "ATGGTAAT--TAACC") := by decide +kernel
example : (samRegions (pvVi "gb" false) pvRef).isSome = true ∧ (samRegions (pvVi "gff" false) pvRef).isSome = true := by
  decide +kernel

/-- the hypotheses of the main theorem hold here, for both annotation formats, both output forms and both ways of
naming the reference; its conclusion for the one query of the file -/
example (fmt : String) (agg : Bool) (mode : String) (hmode : mode ≠ "ann") :
    varCommand (pairVarIn (pvVi fmt agg) mode "ref" "q" (pairOfQuery pvRef [pvRec]).1 (pairOfQuery pvRef [pvRec]).2) modelPair =
      samVarCore (pvVi fmt agg) [pvRec] true pvRef "ref" samBlocks (fun b r => blockToSeqPair b r) modelPair := by
  have h := (sam_variants_is_variants_on_pairs (pvVi fmt agg) [pvRec] true pvRef "ref" mode (pairOfQuery pvRef) hmode
    (pv_ok fmt agg) (fun b _ => printedOk_self _ b)).1 [pvRec] (by rw [pv_blocks]; exact List.mem_singleton.2 rfl)
  exact h

/-- and the common value is not an error: the three expected mutations, in both output forms -/
example : samVarCore (pvVi "gb" false) [pvRec] true pvRef "ref" samBlocks (fun b r => blockToSeqPair b r) modelPair =
    "query,mutations\nq,aa:g:A2E(nuc:C5A)|ins:4:1|del:8:2\n" := by decide +kernel
example : varCommand (pairVarIn (pvVi "gff" false) "stdin" "ref" "q" (pairOfQuery pvRef [pvRec]).1 (pairOfQuery pvRef [pvRec]).2) modelPair =
    "query,mutations\nq,aa:g:A2E(nuc:C5A)|ins:4:1|del:8:2\n" := by decide +kernel
example : samVarCore (pvVi "gff" true) [pvRec] true pvRef "ref" samBlocks (fun b r => blockToSeqPair b r) modelPair =
    "mutation,frequency\naa:g:A2E(nuc:C5A),1.000000000\nins:4:1,1.000000000\ndel:8:2,1.000000000\n" := by decide +kernel

/-! ### the hypotheses that cannot be dropped (each pair: output of `sam variants`, output of `variants` on the pair file) -/

/-- `mode` = "ann" (reference = the annotation's sequence, both records are rows): the reference row of the pair is
longer than the ORIGIN as soon as the query inserts a base, and `variants` refuses the alignment -/
example : (samVarCore (pvVi "gb" false) [pvRec] true pvRef "ref" samBlocks (fun b r => blockToSeqPair b r) modelPair,
    varCommand (pairVarIn (pvVi "gb" false) "ann" "ref" "q" (pairOfQuery pvRef [pvRec]).1 (pairOfQuery pvRef [pvRec]).2) modelPair) =
    ("query,mutations\nq,aa:g:A2E(nuc:C5A)|ins:4:1|del:8:2\n", "!error") := by decide +kernel

/-- `SamVarOk.gb`: GenBank annotation, reference read from a file one base longer than the ORIGIN:
`variants` compares the lengths and fails, `sam variants` does not compare them -/
def pvRef15 : List Nat := pvRef ++ [65]
example : (samVarCore (pvVi "gb" false) [pvRec] true pvRef15 "ref" samBlocks (fun b r => blockToSeqPair b r) modelPair,
    varCommand (pairVarIn (pvVi "gb" false) "msa" "ref" "q" (pairOfQuery pvRef15 [pvRec]).1 (pairOfQuery pvRef15 [pvRec]).2) modelPair) =
    ("query,mutations\nq,aa:g:A2E(nuc:C5A)|ins:4:1|del:8:2\n", "!error") := by decide +kernel

/-- `RefOk.noDash`: a '-' in the annotation's sequence (reference taken from the annotation, GenBank): `sam variants`
counts the de-gapped bases, `variants` compares that count with the length of the ORIGIN and fails -/
def pvViDash : VarIn := ⟨"gb", [pvFeat], [pvGff], "", "", pvRef ++ [45], [], true, 0, 0, false, 0, 1⟩
example : (samVarCore pvViDash [pvRec] false [] "ref" samBlocks (fun b r => blockToSeqPair b r) modelPair,
    varCommand (pairVarIn pvViDash "msa" "annotation_fasta" "q" (pairOfQuery (pvRef ++ [45]) [pvRec]).1
      (pairOfQuery (pvRef ++ [45]) [pvRec]).2) modelPair) =
    ("query,mutations\nq,aa:g:A2E(nuc:C5A)|ins:4:1|del:8:2|ins:14:1\n", "!error") := by decide +kernel

/-- `WFSamRec.hr`: a record that runs past the end of the reference (6M at POS 11 on 14 bases): the rows of the pair
have different lengths (14 and 16), `variants` refuses them, `sam variants` reports calls -/
def pvOver : SamRec := ⟨"q", 0, 10, [(0, 6)], [84, 65, 65, 67, 67, 65]⟩
example : (samVarCore (pvVi "gb" false) [pvOver] true pvRef "ref" samBlocks (fun b r => blockToSeqPair b r) modelPair,
    varCommand (pairVarIn (pvVi "gb" false) "msa" "ref" "q" (pairOfQuery pvRef [pvOver]).1 (pairOfQuery pvRef [pvOver]).2) modelPair) =
    ("query,mutations\nq,nuc:A11T|nuc:C13A\n", "!error") := by decide +kernel
example : ((pairOfQuery pvRef [pvOver]).1.length, (pairOfQuery pvRef [pvOver]).2.length) = (14, 16) := by decide +kernel

/-- `hname` of `varCommand_pair`: the reference record of the pair file carries the name of the query while
`sam variants` knows the reference under another ID: `variants` drops the row of the query, `sam variants` prints it.
(With the same ID on both sides no condition on the names is needed: both commands drop a query named like the
reference.) -/
example : (samVarCore (pvVi "gb" false) [pvRec] true pvRef "ref" samBlocks (fun b r => blockToSeqPair b r) modelPair,
    varCommand (pairVarIn (pvVi "gb" false) "msa" "q" "q" (pairOfQuery pvRef [pvRec]).1 (pairOfQuery pvRef [pvRec]).2) modelPair) =
    ("query,mutations\nq,aa:g:A2E(nuc:C5A)|ins:4:1|del:8:2\n", "query,mutations\n") := by decide +kernel
example : (samVarCore (pvVi "gb" false) [pvRec] true pvRef "q" samBlocks (fun b r => blockToSeqPair b r) modelPair,
    varCommand (pairVarIn (pvVi "gb" false) "msa" "q" "q" (pairOfQuery pvRef [pvRec]).1 (pairOfQuery pvRef [pvRec]).2) modelPair) =
    ("query,mutations\n", "query,mutations\n") := by decide +kernel

/-- hypotheses inherited from C02 for which no differing output was found: a SEQ shorter than its CIGAR
(`WFSamRec.hq`; the missing bases become 'N' in both routes) and a reference byte below '*' (`RefOk.ge`; two records,
the byte is overwritten by '*' in the reference row of the pair, so `PrintedOk.hD` fails, but both outputs agree) -/
def pvShort : SamRec := ⟨"q", 0, 0, [(0, 14)], [65, 84, 71, 71, 67, 65, 84, 84, 84, 84]⟩
example : (samVarCore (pvVi "gb" false) [pvShort] true pvRef "ref" samBlocks (fun b r => blockToSeqPair b r) modelPair,
    varCommand (pairVarIn (pvVi "gb" false) "msa" "ref" "q" (pairOfQuery pvRef [pvShort]).1 (pairOfQuery pvRef [pvShort]).2) modelPair) =
    ("query,mutations\nq,\n", "query,mutations\nq,\n") := by decide +kernel
def pvRefHash : List Nat := [65, 84, 71, 71, 67, 65, 84, 84, 84, 84, 65, 65, 35, 67]
def pvA : SamRec := ⟨"q", 0, 0, [(0, 5)], [65, 84, 71, 71, 67]⟩
def pvB : SamRec := ⟨"q", 2048, 6, [(0, 8)], [84, 84, 84, 84, 65, 65, 67, 67]⟩
example : (pairOfQuery pvRefHash [pvA, pvB]).1 = strBytes "ATGGCATTTTAA*C" := by decide +kernel
example : samVarCore (pvVi "gff" false) [pvA, pvB] true pvRefHash "ref" samBlocks (fun b r => blockToSeqPair b r) modelPair =
    varCommand (pairVarIn (pvVi "gff" false) "msa" "ref" "q" (pairOfQuery pvRefHash [pvA, pvB]).1
      (pairOfQuery pvRefHash [pvA, pvB]).2) modelPair := by decide +kernel

/-- the text route on the example: the pair file `sam toPairAlign` writes (any wrap width) is read back by the encoded
reader as the two encoded rows -/
example (wrap : Int) :
    readFasta (.encoded false) (stringToBytes (pairText wrap "ref" "q" false (pairOfQuery pvRef [pvRec]))) =
      .ok [{ id := strBytes "ref", desc := stringToBytes "ref", seq := (pairOfQuery pvRef [pvRec]).1.map (enc false), idx := 0,
             score := scoreSeq ((pairOfQuery pvRef [pvRec]).1.map (enc false)) },
           { id := strBytes "q", desc := stringToBytes "q", seq := (pairOfQuery pvRef [pvRec]).2.map (enc false), idx := 1,
             score := scoreSeq ((pairOfQuery pvRef [pvRec]).2.map (enc false)) }] := by
  apply pairText_reads_back wrap "ref" "q" _ (strBytes "ref") (strBytes "q") (by decide +kernel)
  intro r hr
  simp only [List.mem_cons, List.mem_nil_iff, or_false] at hr
  rcases hr with rfl | rfl
  · exact ⟨by decide +kernel, ⟨by decide +kernel, by decide +kernel⟩, rfl, by decide +kernel⟩
  · exact ⟨by decide +kernel, ⟨by decide +kernel, by decide +kernel⟩, by decide +kernel, by decide +kernel⟩

end Gofasta.Lemmas.SamVarPipeline
