import Gofasta.Model.GffText
import Gofasta.Lemmas.CsvRoundTrip
import Gofasta.Lemmas.FastaLayout
/-
The GFF3 text reader (model of gff.ReadGFF, Gofasta.Model.GffText) reads back what a writer wrote from structured
rows: every column, every tag and value (in their escaped form: the reader never decodes percent-escapes), the ID
map, whatever the line ends (LF / CRLF, final line end or not).
-/
namespace Gofasta.Lemmas.GffRT
open Gofasta Model Model.GffText
open Gofasta.Model.Csv (joinB splitB atoi digitsOf maxInt64 isDigitB)
open Gofasta.Lemmas (renderText CleanLine splitLines_render)
open Gofasta.Lemmas.CsvRT (splitB_joinB splitB_plain splitB_append_sep atoi_digitsOf digit_not takeWhile_all)

/-! ### bytes of joined and escaped text -/

theorem mem_joinB {sep b : Nat} : ∀ {parts : List Bytes}, b ∈ joinB sep parts → b = sep ∨ ∃ p ∈ parts, b ∈ p := by
  intro parts
  induction parts with
  | nil => intro h; simp [joinB] at h
  | cons p t ih =>
    intro h
    cases t with
    | nil =>
      simp only [joinB] at h
      exact Or.inr ⟨p, List.mem_cons_self, h⟩
    | cons q t' =>
      simp only [joinB] at h
      rcases List.mem_append.1 h with h | h
      · exact Or.inr ⟨p, List.mem_cons_self, h⟩
      · rcases List.mem_cons.1 h with h | h
        · exact Or.inl h
        · rcases ih h with h | ⟨x, hx, hb⟩
          · exact Or.inl h
          · exact Or.inr ⟨x, List.mem_cons_of_mem _ hx, hb⟩

/-- no byte of an escaped text is a control character, ';', '=' or ',' -/
theorem escByte_clean (b x : Nat) (hx : x ∈ escByte b) : 32 ≤ x ∧ x ≠ 59 ∧ x ≠ 61 ∧ x ≠ 44 := by
  unfold escByte at hx
  by_cases hn : needsEsc b = true
  · simp only [hn, if_true, List.mem_cons, List.not_mem_nil, or_false] at hx
    have hd : ∀ n, 32 ≤ hexDigit n ∧ hexDigit n ≠ 59 ∧ hexDigit n ≠ 61 ∧ hexDigit n ≠ 44 := by
      intro n
      unfold hexDigit
      by_cases h : n < 10
      · simp only [h, if_true]; omega
      · simp only [h, if_false]; omega
    rcases hx with hx | hx | hx
    · subst hx; decide
    · subst hx; exact hd _
    · subst hx; exact hd _
  · have hn' : needsEsc b = false := by simpa using hn
    simp only [hn', Bool.false_eq_true, if_false, List.mem_cons, List.not_mem_nil, or_false] at hx
    subst hx
    simp only [needsEsc, Bool.or_eq_false_iff, decide_eq_false_iff_not, beq_eq_false_iff_ne, ne_eq] at hn'
    omega

theorem escAttr_clean (s : Bytes) (x : Nat) (hx : x ∈ escAttr s) : 32 ≤ x ∧ x ≠ 59 ∧ x ≠ 61 ∧ x ≠ 44 := by
  unfold escAttr at hx
  obtain ⟨b, _, hb⟩ := List.mem_flatMap.1 hx
  exact escByte_clean b x hb

/-- text that needs no escaping is written as it is -/
theorem escAttr_plain : ∀ (s : Bytes), (∀ b ∈ s, needsEsc b = false) → escAttr s = s := by
  intro s
  induction s with
  | nil => intro _; rfl
  | cons b t ih =>
    intro h
    have hb := h b List.mem_cons_self
    have ht := ih (fun x hx => h x (List.mem_cons_of_mem _ hx))
    unfold escAttr at ht ⊢
    simp only [List.flatMap_cons, escByte, hb, Bool.false_eq_true, if_false, ht, List.cons_append, List.nil_append]

/-! ### column nine -/

/-- a tag with its values, as the reader hands them back: still escaped -/
def escPair (a : Bytes × List Bytes) : Bytes × List Bytes := (escAttr a.1, a.2.map escAttr)

theorem values_bytes (vs : List Bytes) (x : Nat) (hx : x ∈ joinB commaB (vs.map escAttr)) : 32 ≤ x ∧ x ≠ 59 ∧ x ≠ 61 := by
  rcases mem_joinB hx with h | ⟨p, hp, hxp⟩
  · subst h; decide
  · obtain ⟨v, _, hv⟩ := List.mem_map.1 hp
    subst hv
    have := escAttr_clean v x hxp
    exact ⟨this.1, this.2.1, this.2.2.1⟩

theorem renderAttr_bytes (a : Bytes × List Bytes) (x : Nat) (hx : x ∈ renderAttr a) : 32 ≤ x ∧ x ≠ 59 := by
  unfold renderAttr at hx
  rcases List.mem_append.1 hx with h | h
  · have := escAttr_clean a.1 x h
    exact ⟨this.1, this.2.1⟩
  · rcases List.mem_cons.1 h with h | h
    · subst h; decide
    · have := values_bytes a.2 x h
      exact ⟨this.1, this.2.1⟩

theorem renderAttrs_bytes (as : List (Bytes × List Bytes)) (x : Nat) (hx : x ∈ renderAttrs as) : 32 ≤ x := by
  unfold renderAttrs at hx
  rcases mem_joinB hx with h | ⟨p, hp, hxp⟩
  · subst h; decide
  · obtain ⟨a, _, ha⟩ := List.mem_map.1 hp
    subst ha
    exact (renderAttr_bytes a x hxp).1

theorem renderAttr_split (a : Bytes × List Bytes) :
    splitB eqB (renderAttr a) = [escAttr a.1, joinB commaB (a.2.map escAttr)] := by
  unfold renderAttr
  rw [splitB_append_sep eqB _ _ (fun b hb => (escAttr_clean a.1 b hb).2.2.1)]
  rw [splitB_plain eqB _ (fun b hb => (values_bytes a.2 b hb).2.2)]

theorem values_split (vs : List Bytes) (hv : vs ≠ []) : splitB commaB (joinB commaB (vs.map escAttr)) = vs.map escAttr := by
  apply splitB_joinB commaB
  · simpa using hv
  · intro p hp b hb
    obtain ⟨v, _, hv⟩ := List.mem_map.1 hp
    subst hv
    exact (escAttr_clean v b hb).2.2.2

theorem insertKV_new {α : Type} (k : Bytes) (v : α) : ∀ (m : List (Bytes × α)), k ∉ m.map (·.1) →
    insertKV k v m = m ++ [(k, v)] := by
  intro m
  induction m with
  | nil => intro _; rfl
  | cons p t ih =>
    intro h
    obtain ⟨k', v'⟩ := p
    have hk : k' ≠ k := by
      intro e; apply h; simp [e]
    have ht : k ∉ t.map (·.1) := by
      intro e; apply h; simp only [List.map_cons, List.mem_cons]; exact Or.inr e
    simp only [insertKV, hk, if_false, List.cons_append, ih ht]

/-- the tags of a row are all different once written (the reader keeps one entry per tag) -/
theorem attrsLoop_render : ∀ (as m : List (Bytes × List Bytes)), (∀ a ∈ as, a.2 ≠ []) →
    (m.map (·.1) ++ as.map fun a => escAttr a.1).Nodup → attrsLoop (as.map renderAttr) m = some (m ++ as.map escPair) := by
  intro as
  induction as with
  | nil => intro m _ _; simp [attrsLoop]
  | cons a t ih =>
    intro m hv hnd
    have hnew : escAttr a.1 ∉ m.map (·.1) := by
      intro hmem
      have := (List.nodup_append.1 hnd).2.2 _ hmem (escAttr a.1) (by simp)
      exact this rfl
    simp only [List.map_cons, attrsLoop, renderAttr_split, values_split a.2 (hv a List.mem_cons_self)]
    rw [insertKV_new _ _ m hnew, ih (m ++ [(escAttr a.1, a.2.map escAttr)]) (fun x hx => hv x (List.mem_cons_of_mem _ hx))]
    · simp [escPair]
    · simpa [List.append_assoc] using hnd

theorem parseAttrs_render (as : List (Bytes × List Bytes)) (hne : as ≠ []) (hv : ∀ a ∈ as, a.2 ≠ [])
    (hnd : (as.map fun a => escAttr a.1).Nodup) : parseAttrs (renderAttrs as) = some (as.map escPair) := by
  unfold parseAttrs renderAttrs
  rw [splitB_joinB semiB (as.map renderAttr) (by simpa using hne)]
  · have := attrsLoop_render as [] hv (by simpa using hnd)
    simpa using this
  · intro p hp b hb
    obtain ⟨a, _, ha⟩ := List.mem_map.1 hp
    subst ha
    exact (renderAttr_bytes a b hb).2

/-! ### a feature line -/

/-- a column without TAB, LF, CR -/
def FieldOk (f : Bytes) : Prop := ∀ b ∈ f, b ≠ 9 ∧ b ≠ 10 ∧ b ≠ 13

/-- a CDS row carries a phase; a phase is 0, 1 or 2 -/
def PhaseOk (r : Row) : Prop := (r.phase = none → r.type ≠ cdsB) ∧ r.phase.getD 0 ≤ 2

/-- a row a writer may hold: the seqid passes the reader's own check, the free-text columns have no TAB / LF / CR,
    the coordinates fit an int64, the strand is one of + - . ?, there is at least one tag, every tag has at least one
    value, no tag twice, and the written line fits the reader's line buffer (fewer than maxToken = 1 MiB bytes, CR included).
    Nothing is asked of the bytes of tags and values: the escaping rule takes care of them. -/
def RowOk (r : Row) : Prop :=
  seqidOk r.seqid = true ∧ FieldOk r.source ∧ FieldOk r.type ∧ r.start ≤ maxInt64 ∧ r.stop ≤ maxInt64 ∧
  FieldOk r.score ∧ strandOk r.strand = true ∧ PhaseOk r ∧ r.attrs ≠ [] ∧ (∀ a ∈ r.attrs, a.2 ≠ []) ∧
  (r.attrs.map fun a => escAttr a.1).Nodup ∧ (renderRow r).length + 1 < maxToken

instance (f : Bytes) : Decidable (FieldOk f) := by unfold FieldOk; infer_instance
instance (r : Row) : Decidable (PhaseOk r) := by unfold PhaseOk; infer_instance
instance (r : Row) : Decidable (RowOk r) := by unfold RowOk; infer_instance

theorem seqid_bytes (f : Bytes) (h : seqidOk f = true) : ∀ b ∈ f, 33 ≤ b ∧ b ≠ 35 := by
  intro b hb
  have := List.all_eq_true.1 h b hb
  simp only [seqidByteOk, Bool.or_eq_true, Bool.and_eq_true, decide_eq_true_eq, beq_iff_eq] at this
  omega

theorem strand_cases (f : Bytes) (h : strandOk f = true) : f = [43] ∨ f = [45] ∨ f = [46] ∨ f = [63] := by
  simp only [strandOk, Bool.or_eq_true, beq_iff_eq] at h
  rcases h with ((h | h) | h) | h
  · exact Or.inl h
  · exact Or.inr (Or.inl h)
  · exact Or.inr (Or.inr (Or.inl h))
  · exact Or.inr (Or.inr (Or.inr h))

theorem fieldOk_of_ge (f : Bytes) (h : ∀ b ∈ f, 32 ≤ b) : FieldOk f := by
  intro b hb
  have := h b hb
  omega

theorem fieldOk_digits (n : Nat) : FieldOk (digitsOf n) := by
  intro b hb
  exact ⟨digit_not n 9 (by decide) b hb, digit_not n 10 (by decide) b hb, digit_not n 13 (by decide) b hb⟩

theorem fieldOk_phase (p : Option Nat) : FieldOk (phaseB p) := by
  cases p with
  | none => intro b hb; simp [phaseB, dotB] at hb; omega
  | some n => exact fieldOk_digits n

theorem rowFields_ok (r : Row) (h : RowOk r) : ∀ p ∈ rowFields r, FieldOk p := by
  obtain ⟨hid, hsrc, htyp, _, _, hsc, hsd, _, _, _, _, _⟩ := h
  intro p hp
  simp only [rowFields, List.mem_cons, List.not_mem_nil, or_false] at hp
  rcases hp with hp | hp | hp | hp | hp | hp | hp | hp | hp
  · subst hp; exact fieldOk_of_ge _ (fun b hb => by have := (seqid_bytes _ hid b hb).1; omega)
  · subst hp; exact hsrc
  · subst hp; exact htyp
  · subst hp; exact fieldOk_digits _
  · subst hp; exact fieldOk_digits _
  · subst hp; exact hsc
  · subst hp
    rcases strand_cases _ hsd with e | e | e | e <;> (rw [e]; intro b hb; simp at hb; omega)
  · subst hp; exact fieldOk_phase _
  · subst hp; exact fieldOk_of_ge _ (renderAttrs_bytes r.attrs)

theorem phaseOf_render (r : Row) (h : PhaseOk r) :
    phaseOf r.type (phaseB r.phase) = some ((r.phase.getD 0 : Nat) : Int) := by
  obtain ⟨hcds, hle⟩ := h
  cases hp : r.phase with
  | none =>
    have hd : atoi [dotB] = none := by decide
    simp only [phaseB, phaseOf, hd, hcds hp, ne_eq, not_false_eq_true, and_self, if_true, Option.getD_none]
    rfl
  | some p =>
    rw [hp] at hle
    simp only [Option.getD_some] at hle
    have hm : p ≤ maxInt64 := by unfold maxInt64; omega
    have h0 : (0 : Int) ≤ (p : Int) ∧ (p : Int) ≤ 2 := by omega
    simp only [phaseB, phaseOf, atoi_digitsOf p hm, h0, and_self, if_true, Option.getD_some]

/-- **one feature line**: what the reader makes of a written row -/
theorem parseFeature_renderRow (r : Row) (h : RowOk r) : parseFeature (renderRow r) = .ok r.toFeature := by
  have hf := rowFields_ok r h
  obtain ⟨hid, _, _, hst, hen, _, hsd, hph, hne, hvals, hnd, _⟩ := h
  unfold parseFeature renderRow
  rw [splitB_joinB tabB (rowFields r) (by simp [rowFields]) (fun p hp b hb => (hf p hp b hb).1)]
  simp only [rowFields, hid, hsd, atoi_digitsOf r.start hst, atoi_digitsOf r.stop hen, phaseOf_render r hph,
    parseAttrs_render r.attrs hne hvals hnd, Bool.not_true, Bool.false_eq_true, if_false]
  rfl

/-! ### the lines of the file -/

theorem dropCR_length (l : List Nat) : l.length ≤ (dropCR l).length + 1 := by
  unfold dropCR
  split
  · simp only [List.length_dropLast]; omega
  · omega

/-- bufio.Scanner hands over exactly the written lines, whatever the line ends, as long as every line fits its buffer -/
theorem scanLines_render (crlf finalEol : Bool) (lines : List Bytes)
    (h : ∀ l ∈ lines, CleanLine l ∧ l ≠ [] ∧ l.length + 1 < maxToken) : scanLines (renderText crlf finalEol lines) = lines := by
  have hs := splitLines_render crlf finalEol lines (fun l hl => ⟨(h l hl).1, (h l hl).2.1⟩)
  unfold splitLines at hs
  unfold scanLines
  rw [takeWhile_all]
  · exact hs
  · intro raw hraw
    have hmem : dropCR raw ∈ lines := by
      rw [← hs]; exact List.mem_map.2 ⟨raw, hraw, rfl⟩
    have h1 := (h _ hmem).2.2
    have h2 := dropCR_length raw
    simp only [decide_eq_true_eq]
    omega

/-- no line reaches the scanner's limit: Scanner.Err stays nil -/
theorem tooLong_false_of_short (text : Bytes) (h : ∀ l ∈ splitLinesAux text [], l.length < maxToken) :
    tooLong text = false := by
  unfold tooLong
  rw [List.any_eq_false]
  intro l hl
  have := h l hl
  simp only [decide_eq_true_eq]
  omega

/-- and, the other way round, `tooLong` says exactly that some raw line reaches the limit -/
theorem tooLong_iff (text : Bytes) : tooLong text = true ↔ ∃ l ∈ splitLinesAux text [], maxToken ≤ l.length := by
  unfold tooLong
  rw [List.any_eq_true]
  constructor
  · rintro ⟨l, hl, h⟩; exact ⟨l, hl, by simpa using h⟩
  · rintro ⟨l, hl, h⟩; exact ⟨l, hl, by simpa using h⟩

/-- **short_lines_unchanged** - on a text all of whose lines are shorter than the scanner's limit, the repaired reader
(which looks at Scanner.Err after its loop) does exactly what the reader did before: it reads the scanned lines -/
theorem short_lines_unchanged (text : Bytes) (h : ∀ l ∈ splitLinesAux text [], l.length < maxToken) :
    readGFF text = readLines (scanLines text) := by
  unfold readGFF readLines
  rw [tooLong_false_of_short text h]
  cases loop {} (scanLines text) <;> simp

/-- the raw lines of a written file (a trailing CR included) fit the scanner's buffer -/
theorem render_lines_short (crlf finalEol : Bool) (lines : List Bytes)
    (h : ∀ l ∈ lines, CleanLine l ∧ l ≠ [] ∧ l.length + 1 < maxToken) :
    ∀ raw ∈ splitLinesAux (renderText crlf finalEol lines) [], raw.length < maxToken := by
  have hs := splitLines_render crlf finalEol lines (fun l hl => ⟨(h l hl).1, (h l hl).2.1⟩)
  unfold splitLines at hs
  intro raw hraw
  have hmem : dropCR raw ∈ lines := by
    rw [← hs]; exact List.mem_map.2 ⟨raw, hraw, rfl⟩
  have h1 := (h _ hmem).2.2
  have h2 := dropCR_length raw
  omega

theorem getLast?_ne_cr (l : List Nat) (h : ∀ b ∈ l, b ≠ 13) : l.getLast? ≠ some 13 := by
  intro e
  exact h 13 (List.mem_of_getLast? e) rfl

theorem cleanLine_of (l : List Nat) (h : ∀ b ∈ l, b ≠ 10 ∧ b ≠ 13) : CleanLine l :=
  ⟨fun b hb => (h b hb).1, getLast?_ne_cr l (fun b hb => (h b hb).2)⟩

theorem renderRow_bytes (r : Row) (h : RowOk r) : ∀ b ∈ renderRow r, b ≠ 10 ∧ b ≠ 13 := by
  intro b hb
  unfold renderRow at hb
  rcases mem_joinB hb with e | ⟨p, hp, hbp⟩
  · subst e; decide
  · have := rowFields_ok r h p hp b hbp
    exact ⟨this.2.1, this.2.2⟩

theorem renderRow_ne_nil (r : Row) : renderRow r ≠ [] := by
  unfold renderRow rowFields
  simp [joinB]

theorem renderRow_head (r : Row) (h : RowOk r) : (renderRow r).head? ≠ some 35 := by
  have hid := seqid_bytes r.seqid h.1
  unfold renderRow rowFields
  simp only [joinB]
  cases hs : r.seqid with
  | nil => simp [tabB]
  | cons b t =>
    have := (hid b (by rw [hs]; exact List.mem_cons_self)).2
    simp only [List.cons_append, List.head?_cons, ne_eq, Option.some.injEq]
    exact this

/-! ### strings.HasPrefix, strings.Fields on what was written -/

theorem hasPrefix_cons_ne (a b : Nat) (p l : Bytes) (h : b ≠ a) : hasPrefix (a :: p) (b :: l) = false := by
  simp only [hasPrefix, List.length_cons, List.take_succ_cons]
  simp [h]

theorem hasPrefix_hash_false (p l : Bytes) (h : l.head? ≠ some 35) : hasPrefix (35 :: p) l = false := by
  cases l with
  | nil => simp [hasPrefix]
  | cons b t =>
    apply hasPrefix_cons_ne
    intro e
    apply h
    simp [e]

/-- a printable ASCII byte other than the space -/
def Word (w : Bytes) : Prop := ∀ b ∈ w, 33 ≤ b ∧ b ≤ 126

instance (w : Bytes) : Decidable (Word w) := by unfold Word; infer_instance

theorem spaceLen_word (b : Nat) (t : Bytes) (h : 33 ≤ b ∧ b ≤ 126) : spaceLen (b :: t) = 0 := by
  have h1 : (b == 32 || (decide (9 ≤ b) && decide (b ≤ 13))) = false := by
    simp only [Bool.or_eq_false_iff, beq_eq_false_iff_ne, Bool.and_eq_false_iff, decide_eq_false_iff_not]
    omega
  have h2 : (b == 0xC2) = false := by simp only [beq_eq_false_iff_ne]; omega
  have h3 : (b == 0xE1) = false := by simp only [beq_eq_false_iff_ne]; omega
  have h4 : (b == 0xE2) = false := by simp only [beq_eq_false_iff_ne]; omega
  have h5 : (b == 0xE3) = false := by simp only [beq_eq_false_iff_ne]; omega
  simp only [spaceLen, h1, h2, h3, h4, h5, Bool.false_eq_true, if_false]

theorem fieldsAux_word : ∀ (w rest cur : Bytes), Word w → fieldsAux (w ++ rest) 0 cur = fieldsAux rest 0 (w.reverse ++ cur) := by
  intro w
  induction w with
  | nil => intro rest cur _; rfl
  | cons b t ih =>
    intro rest cur h
    have hb := h b List.mem_cons_self
    have hs : spaceLen (b :: (t ++ rest)) = 0 := spaceLen_word b _ hb
    simp only [List.cons_append, fieldsAux, hs, if_true]
    rw [ih rest (b :: cur) (fun x hx => h x (List.mem_cons_of_mem _ hx))]
    simp

theorem fields_two (a v : Bytes) (ha : Word a) (hane : a ≠ []) (hv : Word v) (hvne : v ≠ []) :
    fields (a ++ 32 :: v) = [a, v] := by
  unfold fields
  rw [fieldsAux_word a (32 :: v) [] ha]
  have hs : spaceLen (32 :: v) = 1 := rfl
  have hcur : (a.reverse ++ []).isEmpty = false := by
    cases a with
    | nil => exact absurd rfl hane
    | cons x t => simp
  simp only [fieldsAux, hs, hcur, Nat.sub_self, Nat.succ_ne_zero, if_false, Bool.false_eq_true]
  have := fieldsAux_word v [] [] hv
  simp only [List.append_nil] at this
  rw [this]
  have hv' : v.reverse.isEmpty = false := by
    cases v with
    | nil => exact absurd rfl hvne
    | cons x t => simp
  simp [fieldsAux, hv']

/-! ### the whole file -/

/-- the version written after "##gff-version ": a non-empty word of printable ASCII, short enough for the line buffer -/
def VerOk (ver : Bytes) : Prop := ver ≠ [] ∧ Word ver ∧ (versionPrefix ++ ver).length + 1 < maxToken

instance (ver : Bytes) : Decidable (VerOk ver) := by unfold VerOk; infer_instance

/-- the header line as the reader keeps it: without the ## -/
def headerLine (ver : Bytes) : Bytes := versionTag ++ 32 :: ver

/-- the reader's state after the version line -/
def st0 (ver : Bytes) : St := { hdr := [headerLine ver] }

/-- the reader's state after the first feature line and `feats` features -/
def st1 (ver : Bytes) (feats : List Feature) : St :=
  { first := false, hdr := [headerLine ver], version := ver, headers := [headerLine ver], feats := feats }

/-- everything ReadGFF returns for a file written from `rows` -/
def expected (ver : Bytes) (rows : List Row) : GFF :=
  { version := ver, headers := [headerLine ver], comments := [], regions := [],
    features := rows.map Row.toFeature, idmap := idMap (rows.map Row.toFeature), fasta := [] }

theorem step_version (ver : Bytes) : step {} (versionPrefix ++ ver) = .ok (st0 ver) := by
  have h1 : hasPrefix fastaTag (versionPrefix ++ ver) = false := rfl
  have h2 : hasPrefix [hashB, hashB] (versionPrefix ++ ver) = true := rfl
  unfold step
  simp only [h1, h2, Bool.false_eq_true, if_false, if_true]
  rfl

theorem openBody_st0 (ver : Bytes) (hv : VerOk ver) : openBody (st0 ver) = .ok (st1 ver []) := by
  have hp : hasPrefix versionTag (headerLine ver) = true := rfl
  have hf : fields (headerLine ver) = [versionTag, ver] :=
    fields_two versionTag ver (by decide) (by decide) hv.2.1 hv.1
  have hr : hasPrefix regionTag (headerLine ver) = false := hasPrefix_cons_ne 115 103 _ _ (by decide)
  unfold openBody
  simp only [st0, versionOf, hp, hf, regionsLoop, hr, if_true, Bool.false_eq_true, if_false]
  rfl

theorem step_row_hashes (r : Row) (h : RowOk r) :
    hasPrefix fastaTag (renderRow r) = false ∧ hasPrefix [hashB, hashB] (renderRow r) = false ∧
    hasPrefix [hashB] (renderRow r) = false :=
  ⟨hasPrefix_hash_false _ _ (renderRow_head r h), hasPrefix_hash_false _ _ (renderRow_head r h),
   hasPrefix_hash_false _ _ (renderRow_head r h)⟩

theorem step_first_row (ver : Bytes) (hv : VerOk ver) (r : Row) (h : RowOk r) :
    step (st0 ver) (renderRow r) = .ok (st1 ver [r.toFeature]) := by
  obtain ⟨h1, h2, h3⟩ := step_row_hashes r h
  have hb := openBody_st0 ver hv
  unfold step
  simp only [h1, h2, h3, Bool.false_eq_true, if_false, parseFeature_renderRow r h]
  have hin : (st0 ver).inFasta = false := rfl
  have hfi : (st0 ver).first = true := rfl
  simp only [hin, hfi, hb, Bool.false_eq_true, if_false, if_true]
  rfl

theorem step_row (ver : Bytes) (feats : List Feature) (r : Row) (h : RowOk r) :
    step (st1 ver feats) (renderRow r) = .ok (st1 ver (feats ++ [r.toFeature])) := by
  obtain ⟨h1, h2, h3⟩ := step_row_hashes r h
  unfold step
  have hin : (st1 ver feats).inFasta = false := rfl
  have hfi : (st1 ver feats).first = false := rfl
  simp only [h1, h2, h3, hin, hfi, Bool.false_eq_true, if_false, parseFeature_renderRow r h]
  rfl

theorem loop_rows (ver : Bytes) : ∀ (rows : List Row) (feats : List Feature), (∀ r ∈ rows, RowOk r) →
    loop (st1 ver feats) (rows.map renderRow) = .ok (st1 ver (feats ++ rows.map Row.toFeature)) := by
  intro rows
  induction rows with
  | nil => intro feats _; simp [loop]
  | cons r t ih =>
    intro feats h
    simp only [List.map_cons, loop, step_row ver feats r (h r List.mem_cons_self)]
    rw [ih _ (fun x hx => h x (List.mem_cons_of_mem _ hx))]
    simp

/-- the reader on the written LINES -/
theorem readLines_render (ver : Bytes) (rows : List Row) (hv : VerOk ver) (hne : rows ≠ []) (h : ∀ r ∈ rows, RowOk r) :
    readLines (GffText.renderLines ver rows) = .ok (expected ver rows) := by
  cases rows with
  | nil => exact absurd rfl hne
  | cons r t =>
    unfold readLines GffText.renderLines
    simp only [List.map_cons, loop, step_version, step_first_row ver hv r (h r List.mem_cons_self)]
    rw [loop_rows ver t [r.toFeature] (fun x hx => h x (List.mem_cons_of_mem _ hx))]
    rfl

theorem versionLine_clean (ver : Bytes) (hv : VerOk ver) :
    CleanLine (versionPrefix ++ ver) ∧ versionPrefix ++ ver ≠ [] ∧ (versionPrefix ++ ver).length + 1 < maxToken := by
  refine ⟨cleanLine_of _ ?_, by simp [versionPrefix], hv.2.2⟩
  intro b hb
  rcases List.mem_append.1 hb with hb | hb
  · have : ∀ x ∈ versionPrefix, x ≠ 10 ∧ x ≠ 13 := by decide
    exact this b hb
  · have := hv.2.1 b hb
    omega

/-- **gff_roundtrip** - for every version word and every non-empty list of well-formed rows, written with LF or CRLF
line ends, with or without a final line end: ReadGFF returns the version, the one header line, no comments, no
sequence regions, no FASTA, and - in file order - every row with all nine columns (an absent phase as 0, tags and
values in their ESCAPED form: the reader does not decode percent-escapes), plus the ID map of those features. -/
theorem gff_roundtrip (crlf finalEol : Bool) (ver : Bytes) (rows : List Row) (hv : VerOk ver) (hne : rows ≠ [])
    (h : ∀ r ∈ rows, RowOk r) :
    readGFF (renderText crlf finalEol (GffText.renderLines ver rows)) = .ok (expected ver rows) := by
  have hlines : ∀ l ∈ GffText.renderLines ver rows, CleanLine l ∧ l ≠ [] ∧ l.length + 1 < maxToken := by
    intro l hl
    unfold GffText.renderLines at hl
    rcases List.mem_cons.1 hl with e | hl
    · subst e; exact versionLine_clean ver hv
    · obtain ⟨r, hr, e⟩ := List.mem_map.1 hl
      subst e
      exact ⟨cleanLine_of _ (renderRow_bytes r (h r hr)), renderRow_ne_nil r, (h r hr).2.2.2.2.2.2.2.2.2.2.2⟩
  rw [short_lines_unchanged _ (render_lines_short crlf finalEol _ hlines), scanLines_render crlf finalEol _ hlines,
    readLines_render ver rows hv hne h]

theorem render_eq_renderText (ver : Bytes) (rows : List Row) : render ver rows = renderText false true (GffText.renderLines ver rows) := by
  unfold render
  generalize GffText.renderLines ver rows = ls
  induction ls with
  | nil => rfl
  | cons l t ih =>
    cases t with
    | nil => simp [renderText]
    | cons l' t' =>
      simp only [List.flatMap_cons] at ih ⊢
      simp only [renderText, Bool.false_eq_true, if_false]
      rw [← ih]

/-- the canonical layout (the bytes the generator of stream C14gff writes, checked case by case by the driver) -/
theorem gff_roundtrip_canonical (ver : Bytes) (rows : List Row) (hv : VerOk ver) (hne : rows ≠ [])
    (h : ∀ r ∈ rows, RowOk r) : readGFF (render ver rows) = .ok (expected ver rows) := by
  rw [render_eq_renderText]
  exact gff_roundtrip false true ver rows hv hne h

/-! ### when is the round trip exact? -/

/-- text that the escaping rule leaves alone -/
def PlainText (s : Bytes) : Prop := ∀ b ∈ s, needsEsc b = false

instance (s : Bytes) : Decidable (PlainText s) := by unfold PlainText; infer_instance

/-- no tag and no value of the row holds a control character, '%', ';', '=', '&' or ',' -/
def AttrsPlain (r : Row) : Prop := ∀ a ∈ r.attrs, PlainText a.1 ∧ ∀ v ∈ a.2, PlainText v

instance (r : Row) : Decidable (AttrsPlain r) := by unfold AttrsPlain; infer_instance

theorem escAttr_length_ge : ∀ (s : Bytes), s.length ≤ (escAttr s).length := by
  intro s
  induction s with
  | nil => simp [escAttr]
  | cons b t ih =>
    unfold escAttr at ih ⊢
    simp only [List.flatMap_cons, List.length_append, List.length_cons]
    have : 1 ≤ (escByte b).length := by
      unfold escByte; split <;> simp
    omega

/-- escaping changes every text that needs it -/
theorem escAttr_fixed (s : Bytes) (h : escAttr s = s) : PlainText s := by
  induction s with
  | nil => intro b hb; cases hb
  | cons b t ih =>
    by_cases hn : needsEsc b = true
    · exfalso
      have hl := escAttr_length_ge t
      have : (escAttr (b :: t)).length = 3 + (escAttr t).length := by
        unfold escAttr
        simp only [List.flatMap_cons, List.length_append, escByte, hn, if_true, List.length_cons, List.length_nil]
      rw [h] at this
      simp only [List.length_cons] at this
      omega
    · have hn' : needsEsc b = false := by simpa using hn
      have ht : escAttr t = t := by
        have : escAttr (b :: t) = b :: escAttr t := by
          unfold escAttr
          simp only [List.flatMap_cons, escByte, hn', Bool.false_eq_true, if_false, List.cons_append, List.nil_append]
        rw [this] at h
        exact (List.cons.inj h).2
      intro x hx
      rcases List.mem_cons.1 hx with e | hx
      · subst e; exact hn'
      · exact ih ht x hx

theorem map_id_of_forall {α : Type} (f : α → α) : ∀ (l : List α), (∀ x ∈ l, f x = x) → l.map f = l := by
  intro l
  induction l with
  | nil => intro _; rfl
  | cons a t ih =>
    intro h
    simp only [List.map_cons, h a List.mem_cons_self, ih (fun x hx => h x (List.mem_cons_of_mem _ hx))]

theorem forall_of_map_id {α : Type} (f : α → α) : ∀ (l : List α), l.map f = l → ∀ x ∈ l, f x = x := by
  intro l
  induction l with
  | nil => intro _ x hx; cases hx
  | cons a t ih =>
    intro h x hx
    simp only [List.map_cons] at h
    have h1 := (List.cons.inj h).1
    have h2 := (List.cons.inj h).2
    rcases List.mem_cons.1 hx with e | hx
    · subst e; exact h1
    · exact ih h2 x hx

/-- the feature read back IS the row (raw tags and values) exactly when nothing in its tags and values needed escaping -/
theorem toFeature_raw_iff (r : Row) : r.toFeature = r.toFeatureRaw ↔ AttrsPlain r := by
  constructor
  · intro h
    have ha : (r.attrs.map fun a => (escAttr a.1, a.2.map escAttr)) = r.attrs := by
      have := congrArg Feature.attrs h
      simpa [Row.toFeature, Row.toFeatureRaw] using this
    intro a hmem
    have hfix := forall_of_map_id _ r.attrs ha a hmem
    have h1 : escAttr a.1 = a.1 := congrArg Prod.fst hfix
    have h2 : a.2.map escAttr = a.2 := congrArg Prod.snd hfix
    exact ⟨escAttr_fixed a.1 h1, fun v hv => escAttr_fixed v (forall_of_map_id _ a.2 h2 v hv)⟩
  · intro h
    have ha : (r.attrs.map fun a => (escAttr a.1, a.2.map escAttr)) = r.attrs := by
      apply map_id_of_forall
      intro a hmem
      have h1 := escAttr_plain a.1 (h a hmem).1
      have h2 := map_id_of_forall escAttr a.2 (fun v hv => escAttr_plain v ((h a hmem).2 v hv))
      rw [h1, h2]
    simp only [Row.toFeatureRaw, Row.toFeature, ha]

/-- **gff_roundtrip_exact** - rows whose tags and values need no escaping are read back as they are -/
theorem gff_roundtrip_exact (crlf finalEol : Bool) (ver : Bytes) (rows : List Row) (hv : VerOk ver) (hne : rows ≠ [])
    (h : ∀ r ∈ rows, RowOk r) (hp : ∀ r ∈ rows, AttrsPlain r) :
    ∃ g, readGFF (renderText crlf finalEol (GffText.renderLines ver rows)) = .ok g ∧ g.version = ver ∧
      g.features = rows.map Row.toFeatureRaw := by
  refine ⟨expected ver rows, gff_roundtrip crlf finalEol ver rows hv hne h, rfl, ?_⟩
  simp only [expected]
  apply List.map_congr_left
  intro r hr
  exact (toFeature_raw_iff r).2 (hp r hr)

/-- **gff_roundtrip_escaped_differs** - and ONLY those: as soon as one tag or value of one row needed escaping, the
features handed back differ from the rows (the escaped text comes back) -/
theorem gff_roundtrip_escaped_differs (ver : Bytes) (rows : List Row) (r : Row) (hr : r ∈ rows) (hesc : ¬ AttrsPlain r) :
    (expected ver rows).features ≠ rows.map Row.toFeatureRaw := by
  intro h
  simp only [expected] at h
  have : ∀ x ∈ rows, x.toFeature = x.toFeatureRaw := List.map_inj_left.1 h
  exact hesc ((toFeature_raw_iff r).1 (this r hr))

/-! ### an over-long line is reported

Before the repair of the Go reader (default 64 KiB token, Scanner.Err never looked at) this section held
`long_line_stops_reading : readGFF (a ++ 10 :: (l ++ 10 :: rest)) = readGFF (a ++ [10])` for a line `l` of `maxToken`
bytes or more: the long line and everything after it were dropped without an error. That statement is FALSE for the
repaired reader (the left side is now an error whenever the right side is a success) and was removed; the facts
below replace it. What remains true of the old statement is `scanLines_long_line`: the scanner still delivers only
the lines before the long one. -/

theorem splitLinesAux_append_nl : ∀ (a acc x : List Nat),
    splitLinesAux (a ++ 10 :: x) acc = splitLinesAux (a ++ [10]) acc ++ splitLinesAux x [] := by
  intro a
  induction a with
  | nil => intro acc x; simp [splitLinesAux]
  | cons b t ih =>
    intro acc x
    by_cases hb : b = 10
    · subst hb
      simp only [List.cons_append, splitLinesAux, List.cons_append, ih [] x]
    · have e1 : splitLinesAux (b :: (t ++ 10 :: x)) acc = splitLinesAux (t ++ 10 :: x) (b :: acc) := by
        rw [splitLinesAux]; intro hcon; exact absurd hcon hb
      have e2 : splitLinesAux (b :: (t ++ [10])) acc = splitLinesAux (t ++ [10]) (b :: acc) := by
        rw [splitLinesAux]; intro hcon; exact absurd hcon hb
      simp only [List.cons_append, e1, e2, ih (b :: acc) x]

theorem takeWhile_append_stop {α : Type} (p : α → Bool) (b : α) (B : List α) (hb : p b = false) :
    ∀ (A : List α), (A ++ b :: B).takeWhile p = A.takeWhile p := by
  intro A
  induction A with
  | nil => simp [hb]
  | cons a t ih =>
    simp only [List.cons_append, List.takeWhile_cons]
    split
    · rw [ih]
    · rfl

/-- the scanner hands over nothing of a line of `maxToken` bytes or more, nor of what follows it: the lines the
reader sees are those of the text before that line -/
theorem scanLines_long_line (a l rest : Bytes) (hl : ∀ b ∈ l, b ≠ 10) (hlen : maxToken ≤ l.length) :
    scanLines (a ++ 10 :: (l ++ 10 :: rest)) = scanLines (a ++ [10]) := by
  unfold scanLines
  rw [splitLinesAux_append_nl a [] (l ++ 10 :: rest)]
  rw [Gofasta.Lemmas.splitLinesAux_line l rest [] hl]
  have hp : (fun (x : List Nat) => decide (x.length < maxToken)) (([] : List Nat).reverse ++ l) = false := by
    show decide ((([] : List Nat).reverse ++ l).length < maxToken) = false
    apply decide_eq_false
    simp only [List.reverse_nil, List.nil_append]
    omega
  rw [takeWhile_append_stop (fun (x : List Nat) => decide (x.length < maxToken)) (([] : List Nat).reverse ++ l)
    (splitLinesAux rest []) hp]

/-- that text does hold the long line -/
theorem long_line_mem (a l rest : Bytes) (hl : ∀ b ∈ l, b ≠ 10) :
    l ∈ splitLinesAux (a ++ 10 :: (l ++ 10 :: rest)) [] := by
  rw [splitLinesAux_append_nl a [] (l ++ 10 :: rest), Gofasta.Lemmas.splitLinesAux_line l rest [] hl]
  simp

/-! the loop over the lines never produces the scanner's error itself -/

theorem regionsLoop_ne_tooLong : ∀ (ls : List Bytes) (m : List (Bytes × SeqRegion)),
    regionsLoop ls m ≠ .error .tooLong := by
  intro ls
  induction ls with
  | nil => intro m h; simp [regionsLoop] at h
  | cons l t ih =>
    intro m
    unfold regionsLoop
    split
    · split
      · split
        · intro h; cases h
        · split
          · intro h; cases h
          · exact ih _
      · intro h; cases h
    · exact ih _

theorem openBody_ne_tooLong (s : St) : openBody s ≠ .error .tooLong := by
  unfold openBody
  split
  · intro h; cases h
  · split
    · rename_i e he
      intro h
      have : e = Err.tooLong := by injection h
      subst this
      exact regionsLoop_ne_tooLong _ _ he
    · intro h; cases h

theorem parseFeature_ne_tooLong (l : Bytes) : parseFeature l ≠ .error .tooLong := by
  unfold parseFeature
  intro h
  repeat' split at h
  all_goals cases h

theorem step_ne_tooLong (s : St) (l : Bytes) : step s l ≠ .error .tooLong := by
  unfold step
  intro h
  split at h
  · cases h
  · split at h
    · cases h
    · split at h
      · cases h
      · split at h
        · cases h
        · split at h
          · rename_i e he
            have : e = Err.tooLong := by injection h
            subst this
            by_cases hf : s.first = true
            · simp only [hf, if_true] at he
              exact openBody_ne_tooLong s he
            · simp only [hf] at he
              cases he
          · split at h
            · rename_i e he
              have : e = Err.tooLong := by injection h
              subst this
              exact parseFeature_ne_tooLong l he
            · cases h

theorem loop_ne_tooLong : ∀ (ls : List Bytes) (s : St), loop s ls ≠ .error .tooLong := by
  intro ls
  induction ls with
  | nil => intro s h; simp [loop] at h
  | cons l t ih =>
    intro s h
    unfold loop at h
    split at h
    · exact ih _ h
    · rename_i e he
      have : e = Err.tooLong := by injection h
      subst this
      exact step_ne_tooLong s l he

/-- the whole outcome on a text with an over-long line: the error of an earlier line if there is one (the loop
returns at once), otherwise bufio.ErrTooLong -/
theorem long_line_result (text : Bytes) (h : ∃ l ∈ splitLinesAux text [], maxToken ≤ l.length) :
    readGFF text = match loop {} (scanLines text) with
      | .error e => .error e
      | .ok _ => .error .tooLong := by
  unfold readGFF
  rw [(tooLong_iff text).2 h]
  cases loop {} (scanLines text) <;> simp

/-- **long_line_reported** - a text that holds a line of `maxToken` bytes or more (raw length, a trailing CR
included) is never read as a success: the result is bufio.ErrTooLong, or another error `e`, and then `e` was raised
by the loop over the lines the scanner delivered, which are lines BEFORE the first long one (`scanLines` is a
`takeWhile`; see also `scanLines_long_line`) -/
theorem long_line_reported (text : Bytes) (h : ∃ l ∈ splitLinesAux text [], maxToken ≤ l.length) :
    readGFF text = .error .tooLong ∨
      ∃ e, e ≠ .tooLong ∧ readGFF text = .error e ∧ loop {} (scanLines text) = .error e := by
  rw [long_line_result text h]
  cases hL : loop {} (scanLines text) with
  | ok s => exact Or.inl rfl
  | error e =>
    refine Or.inr ⟨e, ?_, rfl, rfl⟩
    intro he
    subst he
    exact loop_ne_tooLong _ _ hL

/-- the weaker form: never a success -/
theorem long_line_never_ok (text : Bytes) (h : ∃ l ∈ splitLinesAux text [], maxToken ≤ l.length) :
    ∃ e, readGFF text = .error e := by
  rcases long_line_reported text h with h | ⟨e, _, h, _⟩
  · exact ⟨_, h⟩
  · exact ⟨e, h⟩

/-- the same for the shape of the old `long_line_stops_reading`: with a long line `l` after the text `a`, the result
is the loop error of the lines of `a` if there is one, otherwise bufio.ErrTooLong - never the result of `a` alone
when that was a success -/
theorem long_line_reported_after (a l rest : Bytes) (hl : ∀ b ∈ l, b ≠ 10) (hlen : maxToken ≤ l.length) :
    readGFF (a ++ 10 :: (l ++ 10 :: rest)) = match loop {} (scanLines (a ++ [10])) with
      | .error e => .error e
      | .ok _ => .error .tooLong := by
  rw [long_line_result _ ⟨l, long_line_mem a l rest hl, hlen⟩, scanLines_long_line a l rest hl hlen]

/-! ### concrete texts: GFF3 that the reader rejects or changes (each is reproduced on the Go code by stream C14gff) -/

/-- `Name=a%3Bb` comes back as the five bytes a%3Bb, not as a;b -/
theorem finding_escape_not_decoded :
    readGFF [35, 35, 103, 102, 102, 45, 118, 101, 114, 115, 105, 111, 110, 32, 51, 10, 99, 104, 114, 49, 9, 46, 9, 103, 101,
      110, 101, 9, 49, 9, 57, 9, 46, 9, 43, 9, 46, 9, 78, 97, 109, 101, 61, 97, 37, 51, 66, 98, 10] =
    .ok { version := [51], headers := [[103, 102, 102, 45, 118, 101, 114, 115, 105, 111, 110, 32, 51]], comments := [],
          regions := [], idmap := [], fasta := [],
          features := [{ seqid := [99, 104, 114, 49], source := [46], type := [103, 101, 110, 101], start := 1, stop := 9,
                         score := [46], strand := [43], phase := 0,
                         attrs := [([78, 97, 109, 101], [[97, 37, 51, 66, 98]])] }] } := by decide +kernel

/-- a trailing ';' in column nine (`ID=g1;`) is an attributes error -/
theorem finding_trailing_semicolon :
    readGFF [35, 35, 103, 102, 102, 45, 118, 101, 114, 115, 105, 111, 110, 32, 51, 10, 99, 104, 114, 49, 9, 46, 9, 103, 101,
      110, 101, 9, 49, 9, 57, 9, 46, 9, 43, 9, 46, 9, 73, 68, 61, 103, 49, 59, 10] = .error .attrs := by decide +kernel

/-- column nine "." (no attributes) is an attributes error -/
theorem finding_no_attributes :
    readGFF [35, 35, 103, 102, 102, 45, 118, 101, 114, 115, 105, 111, 110, 32, 51, 10, 99, 104, 114, 49, 9, 46, 9, 103, 101,
      110, 101, 9, 49, 9, 57, 9, 46, 9, 43, 9, 46, 9, 46, 10] = .error .attrs := by decide +kernel

/-- an empty line is taken for a feature line: wrong number of fields -/
theorem finding_blank_line :
    readGFF [35, 35, 103, 102, 102, 45, 118, 101, 114, 115, 105, 111, 110, 32, 51, 10, 10, 99, 104, 114, 49, 9, 46, 9, 103,
      101, 110, 101, 9, 49, 9, 57, 9, 46, 9, 43, 9, 46, 9, 73, 68, 61, 103, 49, 10] = .error .nfields := by decide +kernel

/-- the seqid `chr-1` is rejected: in the pattern, `?-|` is a range, so '-' itself is not in the accepted set -/
theorem finding_hyphen_in_seqid :
    readGFF [35, 35, 103, 102, 102, 45, 118, 101, 114, 115, 105, 111, 110, 32, 51, 10, 99, 104, 114, 45, 49, 9, 46, 9, 103,
      101, 110, 101, 9, 49, 9, 57, 9, 46, 9, 43, 9, 46, 9, 73, 68, 61, 103, 49, 10] = .error .seqid := by decide +kernel

/-- without a feature line nothing of the header is looked at: a malformed version directive passes, and neither the
header lines nor the comments are returned -/
theorem finding_header_unchecked_without_features :
    readGFF [35, 35, 103, 102, 102, 45, 118, 101, 114, 115, 105, 111, 110, 10, 35, 32, 110, 111, 116, 104, 105, 110, 103, 32,
      101, 108, 115, 101, 10] =
    .ok { version := [], headers := [], comments := [], regions := [], features := [], idmap := [], fasta := [] } := by
  decide +kernel

/-- a FASTA section with two sequences of different length (two contigs) is rejected: the section is read with the
ALIGNMENT reader -/
theorem finding_fasta_contigs :
    readGFF [35, 35, 103, 102, 102, 45, 118, 101, 114, 115, 105, 111, 110, 32, 51, 10, 99, 104, 114, 49, 9, 46, 9, 103, 101,
      110, 101, 9, 49, 9, 57, 9, 46, 9, 43, 9, 46, 9, 73, 68, 61, 103, 49, 10, 35, 35, 70, 65, 83, 84, 65, 10, 62, 99, 104,
      114, 49, 10, 65, 67, 71, 84, 10, 62, 99, 104, 114, 50, 10, 65, 67, 71, 84, 65, 10] = .error .faDiffLen := by
  decide +kernel

/-! ### the hypotheses can be met (and checked by evaluation) -/

/-- chr1 / RefSeq / CDS / 266..21555 / . / + / 0 / ID=cds-1;Parent=g1,g2;Note=a;b -/
def sampleRow : Row :=
  { seqid := [99, 104, 114, 49], source := [82, 101, 102, 83, 101, 113], type := [67, 68, 83], start := 266, stop := 21555,
    score := [46], strand := [43], phase := some 0,
    attrs := [([73, 68], [[99, 100, 115, 45, 49]]), ([80, 97, 114, 101, 110, 116], [[103, 49], [103, 50]]),
              ([78, 111, 116, 101], [[97, 59, 98]])] }

theorem sampleRow_ok : RowOk sampleRow := by decide +kernel

theorem sampleVer_ok : VerOk [51] := by decide +kernel

/-- the sample row needs escaping (Note=a;b is written Note=a%3Bb), so it is read back in escaped form -/
theorem sampleRow_not_plain : ¬ AttrsPlain sampleRow := by decide +kernel

theorem sample_roundtrip : readGFF (render [51] [sampleRow]) = .ok (expected [51] [sampleRow]) :=
  gff_roundtrip_canonical [51] [sampleRow] sampleVer_ok (by simp) (by intro r hr; simp at hr; subst hr; exact sampleRow_ok)

end Gofasta.Lemmas.GffRT
