import Gofasta.Lemmas.AACalls
import Gofasta.Lemmas.SamIndels
/-
C04, order and multiplicity: the LIST of mutation records the model builds (`getVariantsPair`: generation order,
stable sort, then the de-duplication loop `dedupRun`, which scans the kept records of the same position and kind
backwards) IS the list the specification asks for (`specVariants`: generation order, keep first occurrences, stable
sort) — `variants_list_eq`, no hypothesis on the names of the features; no record is output twice — `variants_nodup`.
The loop of the Go code before its repair (`dedupAdj`: compare with the previously kept record only, here
`oldVariantsPair`) gave the specified list exactly when, in generation order, the equal amino-acid records of one
position were not separated by a different amino-acid record of that position — `old_variants_list_eq_iff`,
`old_dedup_differs`.
-/
namespace Gofasta.Lemmas.VariantsOrder
open Gofasta Base Model Spec Gofasta.Lemmas

/-! ### 1. `variantLt` is a strict weak order; its ties are "same position, same kind" -/

theorem variantLt_swo : SWO variantLt := by
  constructor
  · intro a b h
    simp only [variantLt, Bool.or_eq_true, Bool.and_eq_true, decide_eq_true_eq, beq_iff_eq] at h
    simp only [variantLt, Bool.or_eq_false_iff, Bool.and_eq_false_iff, decide_eq_false_iff_not, beq_eq_false_iff_ne]
    omega
  · intro a b c h
    simp only [variantLt, Bool.or_eq_true, Bool.and_eq_true, decide_eq_true_eq, beq_iff_eq] at h ⊢
    omega

theorem rank_inj (a b : VKind) (h : a.rank = b.rank) : a = b := by
  cases a <;> cases b <;> first | rfl | (simp [VKind.rank] at h)

theorem tied_variantLt (a b : Variant) : tied variantLt a b = true ↔ a.pos = b.pos ∧ a.kind = b.kind := by
  rw [tied_iff]
  simp only [variantLt, Bool.or_eq_false_iff, Bool.and_eq_false_iff, decide_eq_false_iff_not, beq_eq_false_iff_ne]
  constructor
  · intro h
    have h1 : a.pos = b.pos := by omega
    refine ⟨h1, rank_inj _ _ ?_⟩
    omega
  · rintro ⟨h1, h2⟩
    rw [h1, h2]
    omega

/-! ### 2. first occurrences, recursively -/

/-- keep the first occurrence of every record (`dedupAll`, written by recursion on the list) -/
def dd : List Variant → List Variant
  | [] => []
  | v :: t => v :: (dd t).filter (fun x => x != v)

theorem mem_dd (x : Variant) : ∀ (l : List Variant), x ∈ dd l ↔ x ∈ l := by
  intro l
  induction l with
  | nil => simp [dd]
  | cons v t ih =>
    simp only [dd, List.mem_cons, List.mem_filter, ih, bne_iff_ne]
    constructor
    · rintro (h | ⟨h, _⟩)
      · exact Or.inl h
      · exact Or.inr h
    · rintro (h | h)
      · exact Or.inl h
      · by_cases hx : x = v
        · exact Or.inl hx
        · exact Or.inr ⟨h, hx⟩

theorem nodup_dd : ∀ (l : List Variant), (dd l).Nodup := by
  intro l
  induction l with
  | nil => simp [dd]
  | cons v t ih =>
    simp only [dd, List.nodup_cons]
    constructor
    · intro h
      have := (List.mem_filter.1 h).2
      simp at this
    · exact List.Pairwise.filter _ ih

theorem dd_sublist : ∀ (l : List Variant), (dd l).Sublist l := by
  intro l
  induction l with
  | nil => simp [dd]
  | cons v t ih =>
    simp only [dd]
    exact List.Sublist.cons_cons v ((List.filter_sublist).trans ih)

theorem filter_dd (p : Variant → Bool) : ∀ (l : List Variant), (dd l).filter p = dd (l.filter p) := by
  intro l
  induction l with
  | nil => simp [dd]
  | cons v t ih =>
    simp only [dd, List.filter_cons]
    by_cases hp : p v = true
    · simp only [hp, if_true, dd]
      rw [List.filter_filter, ← ih, List.filter_filter]
      congr 1
      apply List.filter_congr
      intro x _
      rw [Bool.and_comm]
    · simp only [hp, Bool.false_eq_true, if_false]
      rw [List.filter_filter, ← ih]
      apply List.filter_congr
      intro x _
      by_cases hx : x = v
      · subst hx; simp [hp]
      · simp [hx]

theorem foldl_dedup (l : List Variant) : ∀ (acc : List Variant),
    l.foldl (fun acc v => if acc.contains v then acc else acc ++ [v]) acc = acc ++ (dd l).filter (fun x => !acc.contains x) := by
  induction l with
  | nil => intro acc; simp [dd]
  | cons v t ih =>
    intro acc
    simp only [List.foldl_cons, dd, List.filter_cons]
    by_cases hv : acc.contains v = true
    · simp only [hv, if_true, Bool.not_true, Bool.false_eq_true, if_false]
      rw [ih acc, List.filter_filter]
      congr 1
      apply List.filter_congr
      intro x _
      by_cases hx : x = v
      · subst hx
        have hm : x ∈ acc := by simpa using hv
        simp [hm]
      · simp [hx]
    · simp only [hv, Bool.false_eq_true, if_false, Bool.not_false, if_true]
      rw [ih (acc ++ [v]), List.filter_filter, List.append_assoc]
      congr 1
      simp only [List.singleton_append]
      congr 1
      apply List.filter_congr
      intro x _
      by_cases hx : x = v <;> simp [hx, Bool.and_comm]

theorem dedupAll_eq_dd (l : List Variant) : dedupAll l = dd l := by
  unfold dedupAll
  rw [foldl_dedup l []]
  simp

/-! ### 3. lists whose equal records are contiguous -/

/-- every record that occurs again later is immediately followed by a copy of itself: the copies of every record
form one block -/
def Clumped : List Variant → Prop
  | [] => True
  | v :: t => (v ∈ t → t.head? = some v) ∧ Clumped t

theorem clumped_filter (p : Variant → Bool) : ∀ (l : List Variant), Clumped l → Clumped (l.filter p) := by
  intro l
  induction l with
  | nil => intro _; simp [Clumped]
  | cons v t ih =>
    intro h
    obtain ⟨h1, h2⟩ := h
    simp only [List.filter_cons]
    by_cases hp : p v = true
    · simp only [hp, if_true]
      refine ⟨?_, ih h2⟩
      intro hm
      have hvt : v ∈ t := (List.mem_filter.1 hm).1
      have hh := h1 hvt
      cases t with
      | nil => cases hvt
      | cons w u =>
        simp only [List.head?_cons, Option.some.injEq] at hh
        subst hh
        simp [hp]
    · simp only [hp, Bool.false_eq_true, if_false]
      exact ih h2

theorem clumped_of_nodup : ∀ (l : List Variant), l.Nodup → Clumped l := by
  intro l
  induction l with
  | nil => intro _; trivial
  | cons v t ih =>
    intro h
    have := List.nodup_cons.1 h
    exact ⟨fun hm => absurd hm this.1, ih this.2⟩

theorem clumped_of_all_eq : ∀ (l : List Variant), (∀ x ∈ l, ∀ y ∈ l, x = y) → Clumped l := by
  intro l
  induction l with
  | nil => intro _; trivial
  | cons v t ih =>
    intro h
    refine ⟨?_, ih (fun x hx y hy => h x (List.mem_cons_of_mem _ hx) y (List.mem_cons_of_mem _ hy))⟩
    intro _
    cases t with
    | nil => simp_all
    | cons w u =>
      have := h v List.mem_cons_self w (List.mem_cons_of_mem _ List.mem_cons_self)
      simp [this]

/-- on a list with contiguous copies, dropping the repeats of the previously kept record keeps first occurrences -/
theorem dedupAdj_some_of_clumped : ∀ (S : List Variant) (p : Variant), (∀ v ∈ S, ¬ isDel0 v) → Clumped (p :: S) →
    dedupAdj (some p) S = (dd S).filter (fun x => x != p) := by
  intro S
  induction S with
  | nil => intro p _ _; simp [dedupAdj, dd]
  | cons v t ih =>
    intro p hd hc
    have hv : ¬ (v.kind = .del ∧ v.pos = 0) := hd v List.mem_cons_self
    have hdt : ∀ w ∈ t, ¬ isDel0 w := fun w hw => hd w (List.mem_cons_of_mem _ hw)
    obtain ⟨hc1, hc2⟩ := hc
    simp only [dedupAdj, hv, if_false, dd, List.filter_cons]
    by_cases hpv : p = v
    · subst hpv
      simp only [if_true, bne_self_eq_false, Bool.false_eq_true, if_false]
      rw [ih p hdt hc2, List.filter_filter]
      apply List.filter_congr
      intro x _
      simp
    · have hne : ¬ (some p = some v) := by simpa using hpv
      have hvp : (v != p) = true := by simp; exact fun h => hpv h.symm
      simp only [hne, if_false, hvp, if_true]
      rw [ih v hdt hc2]
      congr 1
      rw [List.filter_filter]
      apply List.filter_congr
      intro x hx
      have hxt : x ∈ t := (mem_dd x t).1 hx
      have hxp : x ≠ p := by
        intro h
        subst h
        have := hc1 (List.mem_cons_of_mem _ hxt)
        simp only [List.head?_cons, Option.some.injEq] at this
        exact hpv this.symm
      simp [hxp]

theorem dedupAdj_none_of_clumped (S : List Variant) (hd : ∀ v ∈ S, ¬ isDel0 v) (hc : Clumped S) :
    dedupAdj none S = dd S := by
  cases S with
  | nil => simp [dedupAdj, dd]
  | cons v t =>
    have hv : ¬ (v.kind = .del ∧ v.pos = 0) := hd v List.mem_cons_self
    simp only [dedupAdj, hv, if_false, dd]
    have : ¬ ((none : Option Variant) = some v) := by simp
    simp only [this, if_false]
    rw [dedupAdj_some_of_clumped t v (fun w hw => hd w (List.mem_cons_of_mem _ hw)) hc]

/-- conversely: if no record is output twice, the copies were contiguous -/
theorem clumped_of_nodup_dedupAdj_some : ∀ (S : List Variant) (p : Variant), (∀ v ∈ S, ¬ isDel0 v) →
    (p :: dedupAdj (some p) S).Nodup → Clumped (p :: S) := by
  intro S
  induction S with
  | nil => intro p _ _; exact ⟨fun h => (by cases h), trivial⟩
  | cons v t ih =>
    intro p hd hn
    have hv : ¬ (v.kind = .del ∧ v.pos = 0) := hd v List.mem_cons_self
    have hdt : ∀ w ∈ t, ¬ isDel0 w := fun w hw => hd w (List.mem_cons_of_mem _ hw)
    simp only [dedupAdj, hv, if_false] at hn
    by_cases hpv : p = v
    · subst hpv
      simp only [if_true] at hn
      exact ⟨fun _ => by simp, ih p hdt hn⟩
    · have hne : ¬ (some p = some v) := by simpa using hpv
      simp only [hne, if_false] at hn
      have hn' := List.nodup_cons.1 hn
      refine ⟨?_, ih v hdt hn'.2⟩
      intro hm
      exfalso
      rcases List.mem_cons.1 hm with h | h
      · exact hpv h
      · have hpd : ¬ isDel0 p := hdt p h
        rcases mem_dedupAdj_of t (some v) p h hpd with h1 | h1
        · exact hn'.1 (List.mem_cons_of_mem _ h1)
        · simp only [Option.some.injEq] at h1
          exact hpv h1.symm

theorem clumped_of_nodup_dedupAdj (S : List Variant) (hd : ∀ v ∈ S, ¬ isDel0 v) (hn : (dedupAdj none S).Nodup) :
    Clumped S := by
  cases S with
  | nil => trivial
  | cons v t =>
    have hv : ¬ (v.kind = .del ∧ v.pos = 0) := hd v List.mem_cons_self
    have : ¬ ((none : Option Variant) = some v) := by simp
    simp only [dedupAdj, hv, if_false, this] at hn
    exact clumped_of_nodup_dedupAdj_some t v (fun w hw => hd w (List.mem_cons_of_mem _ hw)) hn

/-- **adjacent de-duplication = first occurrences, exactly on the lists with contiguous copies** -/
theorem dedupAdj_eq_dd_iff (S : List Variant) (hd : ∀ v ∈ S, ¬ isDel0 v) : dedupAdj none S = dd S ↔ Clumped S := by
  constructor
  · intro h
    apply clumped_of_nodup_dedupAdj S hd
    rw [h]
    exact nodup_dd S
  · exact dedupAdj_none_of_clumped S hd

/-! ### 4. sorting: copies are contiguous in the sorted list iff they are inside every class of ties -/

theorem lt_irrefl' {lt : Variant → Variant → Bool} (hS : SWO lt) (a : Variant) : lt a a = false := by
  cases hh : lt a a with
  | false => rfl
  | true => have := hS.asymm _ _ hh; rw [hh] at this; cases this

theorem clumped_of_sorted_classes {lt : Variant → Variant → Bool} (hS : SWO lt) : ∀ (S : List Variant), Sorted lt S →
    (∀ z, Clumped (S.filter (tied lt z))) → Clumped S := by
  intro S
  induction S with
  | nil => intro _ _; trivial
  | cons v t ih =>
    intro hs hc
    have hst : Sorted lt t := (List.pairwise_cons.1 hs).2
    have hvt : ∀ w ∈ t, lt w v = false := (List.pairwise_cons.1 hs).1
    have hvv : tied lt v v = true := (tied_iff v v).2 ⟨lt_irrefl' hS v, lt_irrefl' hS v⟩
    refine ⟨?_, ih hst ?_⟩
    · intro hm
      cases t with
      | nil => cases hm
      | cons w u =>
        simp only [List.head?_cons, Option.some.injEq]
        -- w is tied with v
        have hwv : lt w v = false := hvt w List.mem_cons_self
        have hvw : lt v w = false := by
          rcases List.mem_cons.1 hm with h | h
          · rw [h]; exact lt_irrefl' hS w
          · exact (List.pairwise_cons.1 hst).1 v h
        have htw : tied lt v w = true := (tied_iff v w).2 ⟨hvw, hwv⟩
        have h1 := hc v
        simp only [List.filter_cons, hvv, htw, if_true] at h1
        have h2 := h1.1 (by
          rcases List.mem_cons.1 hm with h | h
          · rw [h]; exact List.mem_cons_self
          · exact List.mem_cons_of_mem _ (List.mem_filter.2 ⟨h, hvv⟩))
        simpa using h2
    · intro z
      have h1 := hc z
      simp only [List.filter_cons] at h1
      split at h1
      · exact h1.2
      · exact h1

theorem clumped_sorted_iff {lt : Variant → Variant → Bool} (hS : SWO lt) (S : List Variant) (hs : Sorted lt S) :
    Clumped S ↔ ∀ z, Clumped (S.filter (tied lt z)) :=
  ⟨fun h _ => clumped_filter _ S h, clumped_of_sorted_classes hS S hs⟩

/-- keeping first occurrences commutes with the stable sort -/
theorem dd_sortStable {lt : Variant → Variant → Bool} (hS : SWO lt) (A : List Variant) :
    dd (sortStable lt A) = sortStable lt (dd A) := by
  apply sortStable_unique hS (dd A) (dd (sortStable lt A))
  · rw [List.perm_ext_iff_of_nodup (nodup_dd _) (nodup_dd _)]
    intro a
    rw [mem_dd, mem_dd, mem_sortStable]
  · exact List.Pairwise.sublist (dd_sublist _) (sorted_sortStable hS A)
  · intro z
    rw [filter_dd, filter_dd, sortStable_stable hS z A]

/-- two inputs with the same records and the same order inside every class of ties are sorted to the same list -/
theorem sortStable_congr {lt : Variant → Variant → Bool} (hS : SWO lt) (l1 l2 : List Variant) (hp : l1.Perm l2)
    (hf : ∀ z, l1.filter (tied lt z) = l2.filter (tied lt z)) : sortStable lt l1 = sortStable lt l2 := by
  apply sortStable_unique hS l2 (sortStable lt l1) ((sortStable_perm l1).trans hp) (sorted_sortStable hS l1)
  intro z
  rw [sortStable_stable hS z l1, hf z]

/-- **sort then drop adjacent repeats  =  keep first occurrences then sort**, exactly when in every class of ties of
the input the copies of every record are contiguous -/
theorem adj_sort_eq_sort_all_iff (A : List Variant) (hd : ∀ v ∈ A, ¬ isDel0 v) :
    dedupAdj none (sortStable variantLt A) = sortStable variantLt (dedupAll A) ↔
      ∀ z, Clumped (A.filter (tied variantLt z)) := by
  have hS := variantLt_swo
  rw [dedupAll_eq_dd, ← dd_sortStable hS A]
  rw [dedupAdj_eq_dd_iff _ (fun v hv => hd v ((mem_sortStable _ _ _).1 hv))]
  rw [clumped_sorted_iff hS _ (sorted_sortStable hS A)]
  constructor
  · intro h z; rw [← sortStable_stable hS z A]; exact h z
  · intro h z; rw [sortStable_stable hS z A]; exact h z

/-! ### 4b. the repaired loop: on a sorted list, scanning the run of equal (position, kind) finds every earlier copy -/

/-- not a deletion recorded at position 0 (as a Bool, for `List.filter`) -/
def notDel0 (v : Variant) : Bool := !(decide (v.kind = .del ∧ v.pos = 0))

theorem notDel0_iff (v : Variant) : notDel0 v = true ↔ ¬ isDel0 v := by
  unfold notDel0 isDel0
  rw [Bool.not_eq_true', decide_eq_false_iff_not]

/-- `K` (newest first) are kept records of a sorted list and `v` comes after all of them: if `v` is among them, the
backward scan finds it, because everything kept after the copy is tied with `v` -/
theorem seenInRun_of_mem (v : Variant) : ∀ (K : List Variant), K.Pairwise (fun a b => variantLt a b = false) →
    (∀ k ∈ K, variantLt v k = false) → v ∈ K → seenInRun v K = true := by
  intro K
  induction K with
  | nil => intro _ _ h; cases h
  | cons k t ih =>
    intro hp hv hm
    have hp' := List.pairwise_cons.1 hp
    by_cases hkv : k = v
    · subst hkv
      simp [seenInRun]
    · have hvt : v ∈ t := by
        rcases List.mem_cons.1 hm with h | h
        · exact absurd h.symm hkv
        · exact h
      have h1 : variantLt k v = false := hp'.1 v hvt
      have h2 : variantLt v k = false := hv k List.mem_cons_self
      have ht := (tied_variantLt k v).1 ((tied_iff k v).2 ⟨h1, h2⟩)
      have iht := ih hp'.2 (fun x hx => hv x (List.mem_cons_of_mem _ hx)) hvt
      simp [seenInRun, ht.1, ht.2, iht]

theorem seenInRun_iff_mem (v : Variant) (K : List Variant) (hp : K.Pairwise (fun a b => variantLt a b = false))
    (hv : ∀ k ∈ K, variantLt v k = false) : seenInRun v K = true ↔ v ∈ K :=
  ⟨mem_of_seenInRun v K, seenInRun_of_mem v K hp hv⟩

/-- the loop with `K` already kept, on the rest `l` of a sorted list: the kept records, then the first occurrences of
the rest (deletions at 0 dropped) that are not among the kept ones -/
theorem dedupRun_spec : ∀ (l K : List Variant), Sorted variantLt (K.reverse ++ l) →
    dedupRun K l = K.reverse ++ (dd (l.filter notDel0)).filter (fun x => !K.contains x) := by
  intro l
  induction l with
  | nil => intro K _; simp [dedupRun, dd]
  | cons v t ih =>
    intro K hs
    have hsub : Sorted variantLt (K.reverse ++ t) :=
      List.Pairwise.sublist (List.Sublist.append (List.Sublist.refl _) (List.sublist_cons_self v t)) hs
    have hs' := List.pairwise_append.1 hs
    have hK : K.Pairwise (fun a b => variantLt a b = false) := List.pairwise_reverse.1 hs'.1
    have hvK : ∀ k ∈ K, variantLt v k = false := fun k hk => hs'.2.2 k (List.mem_reverse.2 hk) v List.mem_cons_self
    simp only [dedupRun, List.filter_cons]
    by_cases hd : v.kind = .del ∧ v.pos = 0
    · have hn : notDel0 v = false := by simp [notDel0, hd]
      simp only [hd, and_self, if_true, hn, Bool.false_eq_true, if_false]
      exact ih K hsub
    · have hn : notDel0 v = true := by simp [notDel0, hd]
      simp only [hd, if_false, hn, if_true, dd, List.filter_cons]
      by_cases hseen : seenInRun v K = true
      · have hm : v ∈ K := mem_of_seenInRun v K hseen
        have hc : K.contains v = true := by simpa using hm
        simp only [hseen, if_true, hc, Bool.not_true, Bool.false_eq_true, if_false]
        rw [ih K hsub, List.filter_filter]
        congr 1
        apply List.filter_congr
        intro x _
        by_cases hx : x = v
        · subst hx; simp [hm]
        · simp [hx]
      · have hm : v ∉ K := fun h => hseen (seenInRun_of_mem v K hK hvK h)
        have hc : K.contains v = false := by simpa using hm
        simp only [hseen, Bool.false_eq_true, if_false, hc, Bool.not_false, if_true]
        rw [ih (v :: K) (by simpa using hs), List.filter_filter]
        simp only [List.reverse_cons, List.append_assoc, List.singleton_append]
        congr 2
        apply List.filter_congr
        intro x _
        by_cases hx : x = v <;> simp [hx, Bool.and_comm]

/-- **the repaired loop on a sorted list keeps exactly the first occurrences** (and drops deletions at 0) -/
theorem dedupRun_sorted_dd (l : List Variant) (hs : Sorted variantLt l) : dedupRun [] l = dd (l.filter notDel0) := by
  rw [dedupRun_spec l [] (by simpa using hs)]
  simp

theorem dedupRun_sorted (l : List Variant) (hs : Sorted variantLt l) : dedupRun [] l = dedupAll (l.filter notDel0) := by
  rw [dedupRun_sorted_dd l hs, dedupAll_eq_dd]

theorem dedupRun_sorted_of_no_del0 (l : List Variant) (hs : Sorted variantLt l) (hd : ∀ v ∈ l, ¬ isDel0 v) :
    dedupRun [] l = dd l := by
  rw [dedupRun_sorted_dd l hs]
  congr 1
  rw [List.filter_eq_self]
  intro v hv
  exact (notDel0_iff v).2 (hd v hv)

/-- on a sorted list the repaired loop never outputs a record twice -/
theorem dedupRun_nodup (l : List Variant) (hs : Sorted variantLt l) : (dedupRun [] l).Nodup := by
  rw [dedupRun_sorted_dd l hs]
  exact nodup_dd _

/-- **sort, then the repaired loop  =  keep first occurrences, then sort** — for every input without deletions at 0 -/
theorem run_sort_eq_sort_all (A : List Variant) (hd : ∀ v ∈ A, ¬ isDel0 v) :
    dedupRun [] (sortStable variantLt A) = sortStable variantLt (dedupAll A) := by
  rw [dedupRun_sorted_of_no_del0 _ (sorted_sortStable variantLt_swo A) (fun v hv => hd v ((mem_sortStable _ _ _).1 hv)),
    dedupAll_eq_dd, dd_sortStable variantLt_swo A]

/-! ### 5. the indel records: scanner order against "insertions, then deletions" -/

def mkIns (x : Nat × Nat) : Variant := { kind := .ins, pos := (x.1 : Int), len := x.2 }
def mkDel (x : Nat × Nat) : Variant := { kind := .del, pos := (x.1 : Int), len := x.2 }

/-- an insertion or deletion record with a natural position and all other fields at their defaults -/
def IndelShape (v : Variant) : Prop := ∃ x : Nat × Nat, v = mkIns x ∨ v = mkDel x

theorem shape_ins (n l : Nat) : IndelShape { kind := .ins, pos := (n : Int), len := l } := ⟨(n, l), Or.inl rfl⟩
theorem shape_del (n l : Nat) : IndelShape { kind := .del, pos := (n : Int), len := l } := ⟨(n, l), Or.inr rfl⟩

theorem indelStep_shape (s : IndelState) (rq : Nat × Nat) (h : ∀ v ∈ s.out, IndelShape v) :
    ∀ v ∈ (indelStep s rq).out, IndelShape v := by
  obtain ⟨r, q⟩ := rq
  unfold indelStep
  simp only []
  intro v hv
  split at hv
  · split at hv
    · exact h v hv
    · split at hv
      · exact h v hv
      · exact h v hv
  · simp only [] at hv
    have h1 : ∀ v ∈ (if s.insOpen = true then { s with insOpen := false, out := s.out ++ [{ kind := .ins, pos := (s.insStart : Int), len := s.insLen }] } else s).out, IndelShape v := by
      intro v hv
      split at hv
      · rcases List.mem_append.1 hv with hv | hv
        · exact h v hv
        · simp only [List.mem_singleton] at hv; subst hv; exact shape_ins _ _
      · exact h v hv
    generalize (if s.insOpen = true then { s with insOpen := false, out := s.out ++ [{ kind := .ins, pos := (s.insStart : Int), len := s.insLen }] } else s) = s1 at hv h1
    split at hv
    · split at hv
      · exact h1 v hv
      · exact h1 v hv
    · split at hv
      · simp only [] at hv
        split at hv
        · rcases List.mem_append.1 hv with hv | hv
          · exact h1 v hv
          · simp only [List.mem_singleton] at hv; subst hv; exact shape_del _ _
        · exact h1 v hv
      · exact h1 v hv

theorem indelFold_shape : ∀ (cols : List (Nat × Nat)) (s : IndelState), (∀ v ∈ s.out, IndelShape v) →
    ∀ v ∈ (cols.foldl indelStep s).out, IndelShape v := by
  intro cols
  induction cols with
  | nil => intro s h; exact h
  | cons c t ih => intro s h; exact ih _ (indelStep_shape s c h)

theorem getIndelsPair_shape (ref q : List Nat) : ∀ v ∈ getIndelsPair ref q, IndelShape v := by
  intro v hv
  unfold getIndelsPair at hv
  simp only [] at hv
  have h0 := indelFold_shape (ref.zip q) {} (by intro v hv; cases hv)
  split at hv
  · rcases List.mem_append.1 hv with hv | hv
    · exact h0 v hv
    · simp only [List.mem_singleton] at hv; subst hv; exact shape_ins _ _
  · exact h0 v hv

def kindIs (k : VKind) (v : Variant) : Bool := v.kind == k

theorem shaped_filter_ins : ∀ (l : List Variant), (∀ v ∈ l, IndelShape v) → l.filter (kindIs .ins) = (insOf l).map mkIns := by
  intro l
  induction l with
  | nil => intro _; rfl
  | cons v t ih =>
    intro h
    have iht := ih (fun w hw => h w (List.mem_cons_of_mem _ hw))
    obtain ⟨x, hx | hx⟩ := h v List.mem_cons_self
    · subst hx
      simp only [List.filter_cons, insOf, List.filterMap_cons] at iht ⊢
      simp [kindIs, mkIns, iht]
    · subst hx
      simp only [List.filter_cons, insOf, List.filterMap_cons] at iht ⊢
      simp [kindIs, mkDel, iht]

theorem shaped_filter_del : ∀ (l : List Variant), (∀ v ∈ l, IndelShape v) → l.filter (kindIs .del) = (delOf l).map mkDel := by
  intro l
  induction l with
  | nil => intro _; rfl
  | cons v t ih =>
    intro h
    have iht := ih (fun w hw => h w (List.mem_cons_of_mem _ hw))
    obtain ⟨x, hx | hx⟩ := h v List.mem_cons_self
    · subst hx
      simp only [List.filter_cons, delOf, List.filterMap_cons] at iht ⊢
      simp [kindIs, mkIns, iht]
    · subst hx
      simp only [List.filter_cons, delOf, List.filterMap_cons] at iht ⊢
      simp [kindIs, mkDel, iht]

theorem shaped_filter_other (k : VKind) (hk1 : k ≠ .ins) (hk2 : k ≠ .del) (l : List Variant) (h : ∀ v ∈ l, IndelShape v) :
    l.filter (kindIs k) = [] := by
  rw [List.filter_eq_nil_iff]
  intro v hv
  obtain ⟨x, hx | hx⟩ := h v hv
  · subst hx; simp only [kindIs, mkIns, beq_iff_eq]; exact fun e => hk1 e.symm
  · subst hx; simp only [kindIs, mkDel, beq_iff_eq]; exact fun e => hk2 e.symm

theorem shaped_filter_kind (l1 l2 : List Variant) (h1 : ∀ v ∈ l1, IndelShape v) (h2 : ∀ v ∈ l2, IndelShape v)
    (hi : insOf l1 = insOf l2) (hdl : delOf l1 = delOf l2) (k : VKind) : l1.filter (kindIs k) = l2.filter (kindIs k) := by
  by_cases hk1 : k = .ins
  · subst hk1; rw [shaped_filter_ins l1 h1, shaped_filter_ins l2 h2, hi]
  · by_cases hk2 : k = .del
    · subst hk2; rw [shaped_filter_del l1 h1, shaped_filter_del l2 h2, hdl]
    · rw [shaped_filter_other k hk1 hk2 l1 h1, shaped_filter_other k hk1 hk2 l2 h2]

theorem perm_of_kind_filters (l1 l2 : List Variant) (h : ∀ k, l1.filter (kindIs k) = l2.filter (kindIs k)) : l1.Perm l2 := by
  rw [List.perm_iff_count]
  intro a
  have ha : kindIs a.kind a = true := by simp [kindIs]
  rw [← List.count_filter (l := l1) ha, ← List.count_filter (l := l2) ha, h]

theorem tied_filter_of_kind_filters (l1 l2 : List Variant) (h : ∀ k, l1.filter (kindIs k) = l2.filter (kindIs k)) (z : Variant) :
    l1.filter (tied variantLt z) = l2.filter (tied variantLt z) := by
  have key : ∀ l : List Variant, l.filter (tied variantLt z) = (l.filter (kindIs z.kind)).filter (tied variantLt z) := by
    intro l
    rw [List.filter_filter]
    apply List.filter_congr
    intro x _
    cases ht : tied variantLt z x with
    | false => rfl
    | true =>
      have := ((tied_variantLt z x).1 ht).2
      simp [kindIs, this]
  rw [key l1, key l2, h]

/-- the indel records as the specification lists them -/
theorem specIndels_eq (ref q : List Nat) :
    specIndels ref q = (specIns 0 (normalise ref q)).map mkIns ++ (specDels (normalise ref q)).map mkDel := rfl

theorem specIndels_shape (ref q : List Nat) : ∀ v ∈ specIndels ref q, IndelShape v := by
  intro v hv
  rw [specIndels_eq] at hv
  rcases List.mem_append.1 hv with h | h
  · obtain ⟨x, _, rfl⟩ := List.mem_map.1 h; exact ⟨x, Or.inl rfl⟩
  · obtain ⟨x, _, rfl⟩ := List.mem_map.1 h; exact ⟨x, Or.inr rfl⟩

theorem insOf_map_mkIns (X : List (Nat × Nat)) : insOf (X.map mkIns) = X := by
  induction X with
  | nil => rfl
  | cons x t ih => simp only [insOf, List.map_cons, List.filterMap_cons] at ih ⊢; simp [mkIns, ih]

theorem insOf_map_mkDel (X : List (Nat × Nat)) : insOf (X.map mkDel) = [] := by
  induction X with
  | nil => rfl
  | cons x t ih => simp only [insOf, List.map_cons, List.filterMap_cons] at ih ⊢; simp [mkDel, ih]

theorem delOf_map_mkDel (X : List (Nat × Nat)) : delOf (X.map mkDel) = X := by
  induction X with
  | nil => rfl
  | cons x t ih => simp only [delOf, List.map_cons, List.filterMap_cons] at ih ⊢; simp [mkDel, ih]

theorem delOf_map_mkIns (X : List (Nat × Nat)) : delOf (X.map mkIns) = [] := by
  induction X with
  | nil => rfl
  | cons x t ih => simp only [delOf, List.map_cons, List.filterMap_cons] at ih ⊢; simp [mkIns, ih]

/-- the deletions of the pair do not depend on the columns that are gaps in both rows -/
theorem specDels_normalise (ref q : List Nat) : specDels (normalise ref q) = specDelsBy isGap (ref.zip q) := by
  have h : refColumnQueryBy isGap (normalise ref q) = refColumnQueryBy isGap (ref.zip q) := by
    unfold refColumnQueryBy
    rw [Props.C05.normalise_eq_filter, List.filter_filter]
    congr 1
    apply List.filter_congr
    intro c _
    cases isGap c.1 <;> simp
  unfold specDels specDelsBy
  simp only [h]

/-- (a) the kind-by-kind content of the scanner's list is the specified one -/
theorem indels_kind_filters (ref q : List Nat) (k : VKind) :
    (getIndelsPair (ref.map (enc false)) (q.map (enc false))).filter (kindIs k) = (specIndels ref q).filter (kindIs k) := by
  apply shaped_filter_kind _ _ (getIndelsPair_shape _ _) (specIndels_shape ref q)
  · rw [SamIndels.ins_spec_all, specIndels_eq, insOf_append, insOf_map_mkIns, insOf_map_mkDel, List.append_nil]
  · rw [SamIndels.del_spec_all, specIndels_eq, delOf_append, delOf_map_mkIns, delOf_map_mkDel, List.nil_append,
      specDels_normalise]

/-- **(a)** — the scanner emits insertions and deletions interleaved by column, the specification lists all insertions
and then all deletions: after the stable sort the two are the same list, whatever else (`rest`) is sorted with them -/
theorem indels_sort_eq (ref q : List Nat) (rest : List Variant) :
    sortStable variantLt (getIndelsPair (ref.map (enc false)) (q.map (enc false)) ++ rest) =
      sortStable variantLt (specIndels ref q ++ rest) := by
  apply sortStable_congr variantLt_swo
  · exact List.Perm.append_right _ (perm_of_kind_filters _ _ (indels_kind_filters ref q))
  · intro z
    rw [List.filter_append, List.filter_append, tied_filter_of_kind_filters _ _ (indels_kind_filters ref q) z]

/-! ### 6. insertion and deletion records have pairwise different positions -/

theorem dropWhile_head {α : Type} (p : α → Bool) : ∀ (l : List α) (c : α) (t : List α), l.dropWhile p = c :: t → p c = false := by
  intro l
  induction l with
  | nil => intro c t h; simp at h
  | cons a u ih =>
    intro c t h
    simp only [List.dropWhile_cons] at h
    split at h
    · exact ih c t h
    · rename_i hp
      have := (List.cons.inj h).1
      subst this
      simpa using hp

theorem specInsBy_ge (g : Nat → Bool) : ∀ (k : Nat) (l : List (Nat × Nat)) (n : Nat), l.length ≤ k →
    ∀ x ∈ specInsBy g n l, n ≤ x.1 := by
  intro k
  induction k with
  | zero =>
    intro l n hl x hx
    have : l = [] := by cases l <;> simp_all
    subst this; rw [specInsBy] at hx; cases hx
  | succ k ih =>
    intro l n hl x hx
    cases l with
    | nil => rw [specInsBy] at hx; cases hx
    | cons c t =>
      obtain ⟨r, q⟩ := c
      rw [specInsBy] at hx
      cases hg : g r with
      | false =>
        simp only [hg, Bool.false_eq_true, if_false] at hx
        have := ih t (n + 1) (by simp only [List.length_cons] at hl; omega) x hx
        omega
      | true =>
        simp only [hg, if_true] at hx
        rcases List.mem_cons.1 hx with h | h
        · rw [h]; exact Nat.le_refl _
        · apply ih _ n _ x h
          have := length_dropWhile_le (fun c : Nat × Nat => g c.1) t
          simp only [List.length_cons] at hl; omega

theorem specInsBy_increasing (g : Nat → Bool) : ∀ (k : Nat) (l : List (Nat × Nat)) (n : Nat), l.length ≤ k →
    (specInsBy g n l).Pairwise (fun x y => x.1 < y.1) := by
  intro k
  induction k with
  | zero =>
    intro l n hl
    have : l = [] := by cases l <;> simp_all
    subst this; rw [specInsBy]; exact List.Pairwise.nil
  | succ k ih =>
    intro l n hl
    cases l with
    | nil => rw [specInsBy]; exact List.Pairwise.nil
    | cons c t =>
      obtain ⟨r, q⟩ := c
      rw [specInsBy]
      cases hg : g r with
      | false =>
        simp only [Bool.false_eq_true, if_false]
        exact ih t (n + 1) (by simp only [List.length_cons] at hl; omega)
      | true =>
        simp only [if_true]
        have hlen : (t.dropWhile fun c => g c.1).length ≤ k := by
          have := length_dropWhile_le (fun c : Nat × Nat => g c.1) t
          simp only [List.length_cons] at hl; omega
        refine List.Pairwise.cons ?_ (ih _ n hlen)
        intro y hy
        simp only []
        cases hD : (t.dropWhile fun c => g c.1) with
        | nil => rw [hD, specInsBy] at hy; cases hy
        | cons c' t' =>
          have hc' : g c'.1 = false := dropWhile_head (fun c : Nat × Nat => g c.1) t c' t' hD
          rw [hD, SamIndels.specInsBy_base g n c' t' hc'] at hy
          have := specInsBy_ge g t'.length t' (n + 1) (Nat.le_refl _) y hy
          omega

theorem specDelRunsBy_ge (g : Nat → Bool) : ∀ (k : Nat) (l : List Nat) (i : Nat), l.length ≤ k →
    ∀ x ∈ specDelRunsBy g i l, i + 1 ≤ x.1 := by
  intro k
  induction k with
  | zero =>
    intro l i hl x hx
    have : l = [] := by cases l <;> simp_all
    subst this; rw [specDelRunsBy] at hx; cases hx
  | succ k ih =>
    intro l i hl x hx
    cases l with
    | nil => rw [specDelRunsBy] at hx; cases hx
    | cons b t =>
      rw [specDelRunsBy] at hx
      cases hg : g b with
      | false =>
        simp only [hg, Bool.false_eq_true, if_false] at hx
        have := ih t (i + 1) (by simp only [List.length_cons] at hl; omega) x hx
        omega
      | true =>
        simp only [hg, if_true] at hx
        rcases List.mem_cons.1 hx with h | h
        · rw [h]; exact Nat.le_refl _
        · have := ih _ (i + 1 + (t.takeWhile g).length) (by
            have := length_dropWhile_le g t
            simp only [List.length_cons] at hl; omega) x h
          omega

theorem specDelRunsBy_increasing (g : Nat → Bool) : ∀ (k : Nat) (l : List Nat) (i : Nat), l.length ≤ k →
    (specDelRunsBy g i l).Pairwise (fun x y => x.1 < y.1) := by
  intro k
  induction k with
  | zero =>
    intro l i hl
    have : l = [] := by cases l <;> simp_all
    subst this; rw [specDelRunsBy]; exact List.Pairwise.nil
  | succ k ih =>
    intro l i hl
    cases l with
    | nil => rw [specDelRunsBy]; exact List.Pairwise.nil
    | cons b t =>
      rw [specDelRunsBy]
      cases hg : g b with
      | false =>
        simp only [Bool.false_eq_true, if_false]
        exact ih t (i + 1) (by simp only [List.length_cons] at hl; omega)
      | true =>
        simp only [if_true]
        have hlen : (t.dropWhile g).length ≤ k := by
          have := length_dropWhile_le g t
          simp only [List.length_cons] at hl; omega
        refine List.Pairwise.cons ?_ (ih _ _ hlen)
        intro y hy
        have := specDelRunsBy_ge g _ _ _ (Nat.le_refl _) y hy
        simp only []
        omega

theorem eq_of_increasing : ∀ (l : List (Nat × Nat)), l.Pairwise (fun x y => x.1 < y.1) →
    ∀ a ∈ l, ∀ b ∈ l, a.1 = b.1 → a = b := by
  intro l
  induction l with
  | nil => intro _ a ha; cases ha
  | cons c t ih =>
    intro h a ha b hb hab
    have hc := (List.pairwise_cons.1 h).1
    rcases List.mem_cons.1 ha with rfl | ha'
    · rcases List.mem_cons.1 hb with rfl | hb'
      · rfl
      · have := hc b hb'; omega
    · rcases List.mem_cons.1 hb with rfl | hb'
      · have := hc a ha'; omega
      · exact ih (List.pairwise_cons.1 h).2 a ha' b hb' hab

theorem specIns_unique (cols : List (Nat × Nat)) : ∀ a ∈ specIns 0 cols, ∀ b ∈ specIns 0 cols, a.1 = b.1 → a = b :=
  eq_of_increasing _ (specInsBy_increasing isGap _ cols 0 (Nat.le_refl _))

theorem specDels_unique (cols : List (Nat × Nat)) : ∀ a ∈ specDels cols, ∀ b ∈ specDels cols, a.1 = b.1 → a = b := by
  unfold specDels specDelsBy
  exact eq_of_increasing _ (List.Pairwise.filter _ (specDelRunsBy_increasing isGap _ _ 0 (Nat.le_refl _)))

theorem specDels_pos (cols : List (Nat × Nat)) : ∀ d ∈ specDels cols, 1 ≤ d.1 := by
  intro d hd
  unfold specDels specDelsBy at hd
  have := specDelRunsBy_ge isGap _ _ 0 (Nat.le_refl _) d (List.mem_filter.1 hd).1
  omega

/-! ### 7. the records of the specification, kind by kind -/

theorem nucRecord_kind (ref q : List Nat) (p : Nat) : (nucRecord ref q p).kind = .nuc := by
  unfold nucRecord; split <;> rfl

theorem nucRecord_pos (ref q : List Nat) (p : Nat) : (nucRecord ref q p).pos = (p : Int) := by
  unfold nucRecord; split <;> rfl

theorem aaCall_some (ref q : List Nat) (reg : Region) (k : Nat) (codon : List Nat) (v : Variant)
    (h : aaCall ref q reg k codon = some v) : v.kind = .aa ∧ v.feature = reg.name ∧ v.residue = k + 1 := by
  unfold aaCall at h
  simp only [] at h
  split at h
  · split at h
    · cases h; exact ⟨rfl, rfl, rfl⟩
    · cases h
  · cases h

/-- a record of one codon: the amino-acid call of residue k+1 of this feature, or a SNP record -/
theorem mem_codonRecs (ref q : List Nat) (reg : Region) (k : Nat) (codon : List Nat) (v : Variant)
    (h : v ∈ codonRecs ref q reg k codon) :
    (v.kind = .aa ∧ v.feature = reg.name ∧ v.residue = k + 1) ∨ (∃ p, v = nucRecord ref q p) := by
  unfold codonRecs at h
  split at h
  · rename_i w hw
    simp only [List.mem_singleton] at h
    subst h
    exact Or.inl (aaCall_some ref q reg k codon v hw)
  · obtain ⟨p, _, rfl⟩ := List.mem_map.1 h
    exact Or.inr ⟨p, rfl⟩

theorem codonRecs_aa_nodup (ref q : List Nat) (reg : Region) (k : Nat) (codon : List Nat) :
    ((codonRecs ref q reg k codon).filter (kindIs .aa)).Nodup := by
  unfold codonRecs
  split
  · exact List.Pairwise.sublist List.filter_sublist (List.pairwise_singleton _ _)
  · have : ((codon.filter (differsAt ref q)).map (nucRecord ref q)).filter (kindIs .aa) = [] := by
      rw [List.filter_eq_nil_iff]
      intro v hv
      obtain ⟨p, _, rfl⟩ := List.mem_map.1 hv
      simp [kindIs, nucRecord_kind]
    rw [this]
    exact List.nodup_nil

theorem mem_codonRecsFrom (ref q : List Nat) (reg : Region) : ∀ (n : Nat) (ps : List Nat) (k : Nat), ps.length ≤ n →
    ∀ v ∈ codonRecsFrom ref q reg k ps,
      (v.kind = .aa ∧ v.feature = reg.name ∧ k + 1 ≤ v.residue) ∨ (∃ p, v = nucRecord ref q p) := by
  intro n
  induction n with
  | zero =>
    intro ps k h v hv
    have : ps = [] := by cases ps <;> simp_all
    subst this; simp [codonRecsFrom] at hv
  | succ n ih =>
    intro ps k h v hv
    match ps, h, hv with
    | [], _, hv => simp [codonRecsFrom] at hv
    | [_], _, hv => simp [codonRecsFrom] at hv
    | [_, _], _, hv => simp [codonRecsFrom] at hv
    | a :: b :: c :: t, h, hv =>
      simp only [codonRecsFrom] at hv
      rcases List.mem_append.1 hv with h1 | h1
      · rcases mem_codonRecs ref q reg k [a, b, c] v h1 with ⟨e1, e2, e3⟩ | e
        · exact Or.inl ⟨e1, e2, by omega⟩
        · exact Or.inr e
      · rcases ih t (k + 1) (by simp at h; omega) v h1 with ⟨e1, e2, e3⟩ | e
        · exact Or.inl ⟨e1, e2, by omega⟩
        · exact Or.inr e

theorem codonRecsFrom_aa_nodup (ref q : List Nat) (reg : Region) : ∀ (n : Nat) (ps : List Nat) (k : Nat), ps.length ≤ n →
    ((codonRecsFrom ref q reg k ps).filter (kindIs .aa)).Nodup := by
  intro n
  induction n with
  | zero =>
    intro ps k h
    have : ps = [] := by cases ps <;> simp_all
    subst this; simp [codonRecsFrom]
  | succ n ih =>
    intro ps k h
    match ps, h with
    | [], _ => simp [codonRecsFrom]
    | [_], _ => simp [codonRecsFrom]
    | [_, _], _ => simp [codonRecsFrom]
    | a :: b :: c :: t, h =>
      have ht : t.length ≤ n := by simp at h; omega
      simp only [codonRecsFrom, List.filter_append]
      rw [List.nodup_append]
      refine ⟨codonRecs_aa_nodup ref q reg k [a, b, c], ih t (k + 1) ht, ?_⟩
      intro x hx y hy hxy
      subst hxy
      have hx' := List.mem_filter.1 hx
      have hy' := List.mem_filter.1 hy
      have hk : x.kind = .aa := by simpa [kindIs] using hx'.2
      rcases mem_codonRecs ref q reg k [a, b, c] x hx'.1 with ⟨_, _, e3⟩ | ⟨p, e⟩
      · rcases mem_codonRecsFrom ref q reg n t (k + 1) ht x hy'.1 with ⟨_, _, e3'⟩ | ⟨p, e⟩
        · omega
        · rw [e, nucRecord_kind] at hk; cases hk
      · rw [e, nucRecord_kind] at hk; cases hk

/-- a record of one feature: an amino-acid call carrying the feature's name, or a SNP record -/
theorem mem_regionRecords (ref q : List Nat) (reg : Region) (v : Variant) (h : v ∈ regionRecords ref q reg) :
    (v.kind = .aa ∧ v.feature = reg.name) ∨ (∃ p, v = nucRecord ref q p) := by
  rw [regionRecords_eq] at h
  rcases mem_codonRecsFrom ref q reg _ reg.positions 0 (Nat.le_refl _) v h with ⟨e1, e2, _⟩ | e
  · exact Or.inl ⟨e1, e2⟩
  · exact Or.inr e

/-- one feature never makes the same amino-acid call twice (the residue number differs) -/
theorem regionRecords_aa_nodup (ref q : List Nat) (reg : Region) : ((regionRecords ref q reg).filter (kindIs .aa)).Nodup := by
  rw [regionRecords_eq]
  exact codonRecsFrom_aa_nodup ref q reg _ reg.positions 0 (Nat.le_refl _)

/-- features with pairwise different names never make the same amino-acid call twice -/
theorem regions_aa_nodup (ref q : List Nat) : ∀ (regions : List Region), regions.Pairwise (fun a b => a.name ≠ b.name) →
    ((regions.flatMap (regionRecords ref q)).filter (kindIs .aa)).Nodup := by
  intro regions
  induction regions with
  | nil => intro _; simp
  | cons reg rest ih =>
    intro h
    have h' := List.pairwise_cons.1 h
    simp only [List.flatMap_cons, List.filter_append]
    rw [List.nodup_append]
    refine ⟨regionRecords_aa_nodup ref q reg, ih h'.2, ?_⟩
    intro x hx y hy hxy
    subst hxy
    have hx' := List.mem_filter.1 hx
    have hy' := List.mem_filter.1 hy
    have hk : x.kind = .aa := by simpa [kindIs] using hx'.2
    obtain ⟨reg', hreg', hy''⟩ := List.mem_flatMap.1 hy'.1
    rcases mem_regionRecords ref q reg x hx'.1 with ⟨_, e2⟩ | ⟨p, e⟩
    · rcases mem_regionRecords ref q reg' x hy'' with ⟨_, e2'⟩ | ⟨p, e⟩
      · exact h'.1 reg' hreg' (by rw [← e2, ← e2'])
      · rw [e, nucRecord_kind] at hk; cases hk
    · rw [e, nucRecord_kind] at hk; cases hk

/-- all records of one query, in the generation order of the specification -/
def specAll (ref q : List Nat) (regions : List Region) (inter : List Nat) : List Variant :=
  specIndels ref q ++ ((inter.filter (differsAt ref q)).map (nucRecord ref q)) ++ regions.flatMap (regionRecords ref q)

/-- what a generated record can be -/
def Classified (ref q : List Nat) (v : Variant) : Prop :=
  (∃ a ∈ specIns 0 (normalise ref q), v = mkIns a) ∨ (∃ d ∈ specDels (normalise ref q), v = mkDel d) ∨
  (∃ p, v = nucRecord ref q p) ∨ v.kind = .aa

theorem specAll_classified (ref q : List Nat) (regions : List Region) (inter : List Nat) :
    ∀ v ∈ specAll ref q regions inter, Classified ref q v := by
  intro v hv
  unfold specAll at hv
  rw [specIndels_eq] at hv
  simp only [List.mem_append] at hv
  rcases hv with ((h | h) | h) | h
  · obtain ⟨a, ha, rfl⟩ := List.mem_map.1 h; exact Or.inl ⟨a, ha, rfl⟩
  · obtain ⟨d, hd, rfl⟩ := List.mem_map.1 h; exact Or.inr (Or.inl ⟨d, hd, rfl⟩)
  · obtain ⟨p, _, rfl⟩ := List.mem_map.1 h; exact Or.inr (Or.inr (Or.inl ⟨p, rfl⟩))
  · obtain ⟨reg, _, hr⟩ := List.mem_flatMap.1 h
    rcases mem_regionRecords ref q reg v hr with ⟨e, _⟩ | e
    · exact Or.inr (Or.inr (Or.inr e))
    · exact Or.inr (Or.inr (Or.inl e))

/-- **(b), first half** — the specification never generates a deletion at position 0 -/
theorem specAll_no_del0 (ref q : List Nat) (regions : List Region) (inter : List Nat) :
    ∀ v ∈ specAll ref q regions inter, ¬ isDel0 v := by
  intro v hv hd
  rcases specAll_classified ref q regions inter v hv with ⟨a, _, rfl⟩ | ⟨d, hdm, rfl⟩ | ⟨p, rfl⟩ | e
  · have := hd.1; simp [mkIns] at this
  · have h1 := specDels_pos _ d hdm
    have h2 : ((d.1 : Nat) : Int) = 0 := hd.2
    omega
  · have := hd.1; rw [nucRecord_kind] at this; cases this
  · have := hd.1; rw [e] at this; cases this

/-- two generated records of the same position and the same kind other than `aa` are the same record -/
theorem classified_eq (ref q : List Nat) (x y : Variant) (hx : Classified ref q x) (hy : Classified ref q y)
    (hp : x.pos = y.pos) (hk : x.kind = y.kind) (hna : x.kind ≠ .aa) : x = y := by
  rcases hx with ⟨a, ha, rfl⟩ | ⟨a, ha, rfl⟩ | ⟨p, rfl⟩ | e
  · rcases hy with ⟨b, hb, rfl⟩ | ⟨b, hb, rfl⟩ | ⟨p', rfl⟩ | e'
    · have h1 : ((a.1 : Nat) : Int) = ((b.1 : Nat) : Int) := hp
      rw [specIns_unique _ a ha b hb (by omega)]
    · simp [mkIns, mkDel] at hk
    · rw [nucRecord_kind] at hk; simp [mkIns] at hk
    · rw [e'] at hk; simp [mkIns] at hk
  · rcases hy with ⟨b, hb, rfl⟩ | ⟨b, hb, rfl⟩ | ⟨p', rfl⟩ | e'
    · simp [mkIns, mkDel] at hk
    · have h1 : ((a.1 : Nat) : Int) = ((b.1 : Nat) : Int) := hp
      rw [specDels_unique _ a ha b hb (by omega)]
    · rw [nucRecord_kind] at hk; simp [mkDel] at hk
    · rw [e'] at hk; simp [mkDel] at hk
  · rcases hy with ⟨b, hb, rfl⟩ | ⟨b, hb, rfl⟩ | ⟨p', rfl⟩ | e'
    · rw [nucRecord_kind] at hk; simp [mkIns] at hk
    · rw [nucRecord_kind] at hk; simp [mkDel] at hk
    · rw [nucRecord_pos, nucRecord_pos] at hp
      have : p = p' := by omega
      rw [this]
    · rw [e', nucRecord_kind] at hk; cases hk
  · exact absurd e hna

/-- the amino-acid records of position p, in generation order -/
def aaAt (R : List Variant) (p : Int) : List Variant := R.filter fun v => v.kind == .aa && v.pos == p

theorem tied_aa (z x : Variant) (hz : z.kind = .aa) : tied variantLt z x = (x.kind == .aa && x.pos == z.pos) := by
  rw [Bool.eq_iff_iff, tied_variantLt, hz]
  simp only [Bool.and_eq_true, beq_iff_eq]
  constructor
  · rintro ⟨h1, h2⟩; exact ⟨h2.symm, h1.symm⟩
  · rintro ⟨h1, h2⟩; exact ⟨h2.symm, h1.symm⟩

theorem specAll_class_aa (ref q : List Nat) (regions : List Region) (inter : List Nat) (z : Variant) (hz : z.kind = .aa) :
    (specAll ref q regions inter).filter (tied variantLt z) = aaAt (regions.flatMap (regionRecords ref q)) z.pos := by
  unfold specAll aaAt
  rw [List.filter_append, List.filter_append]
  have h1 : (specIndels ref q).filter (tied variantLt z) = [] := by
    rw [List.filter_eq_nil_iff]
    intro v hv
    rw [tied_aa z v hz]
    obtain ⟨x, rfl | rfl⟩ := specIndels_shape ref q v hv <;> simp [mkIns, mkDel]
  have h2 : ((inter.filter (differsAt ref q)).map (nucRecord ref q)).filter (tied variantLt z) = [] := by
    rw [List.filter_eq_nil_iff]
    intro v hv
    rw [tied_aa z v hz]
    obtain ⟨p, _, rfl⟩ := List.mem_map.1 hv
    simp [nucRecord_kind]
  rw [h1, h2, List.nil_append, List.nil_append]
  apply List.filter_congr
  intro x _
  exact tied_aa z x hz

/-- **(b), second half** — in generation order the records of one (position, kind) are all equal, except for `aa`:
only amino-acid records can be separated from their copies -/
theorem classes_iff (ref q : List Nat) (regions : List Region) (inter : List Nat) :
    (∀ z, Clumped ((specAll ref q regions inter).filter (tied variantLt z))) ↔
      ∀ p : Int, Clumped (aaAt (regions.flatMap (regionRecords ref q)) p) := by
  constructor
  · intro h p
    have := h { kind := .aa, pos := p }
    rw [specAll_class_aa ref q regions inter _ rfl] at this
    exact this
  · intro h z
    by_cases hz : z.kind = .aa
    · rw [specAll_class_aa ref q regions inter z hz]; exact h z.pos
    · apply clumped_of_all_eq
      intro x hx y hy
      have hx' := List.mem_filter.1 hx
      have hy' := List.mem_filter.1 hy
      have tx := (tied_variantLt z x).1 hx'.2
      have ty := (tied_variantLt z y).1 hy'.2
      exact classified_eq ref q x y (specAll_classified ref q regions inter x hx'.1)
        (specAll_classified ref q regions inter y hy'.1) (by rw [← tx.1, ← ty.1]) (by rw [← tx.2, ← ty.2])
        (by rw [← tx.2]; exact hz)

/-! ### 8. the two lists -/

theorem flatMap_congr' {α β : Type} (f g : α → List β) : ∀ (l : List α), (∀ a ∈ l, f a = g a) → l.flatMap f = l.flatMap g := by
  intro l
  induction l with
  | nil => intro _; rfl
  | cons a t ih =>
    intro h
    simp only [List.flatMap_cons]
    rw [h a List.mem_cons_self, ih (fun b hb => h b (List.mem_cons_of_mem _ hb))]

/-- the records the model generates for one query, in the model's generation order (the list `all` of
`getVariantsPair`) -/
def modelAll (ref q : List Nat) (regions : List Region) (inter : List Nat) : List Variant :=
  getIndelsPair ref q ++ getNucsPair ref q (refCols ref) inter ++ (regions.flatMap fun r => getAAsPair ref q (refCols ref) r)

theorem getVariantsPair_eq (ref q : List Nat) (regions : List Region) (inter : List Nat) :
    getVariantsPair ref q regions inter = dedupRun [] (sortStable variantLt (modelAll ref q regions inter)) := rfl

/-- the mutation list as the Go code built it BEFORE the repair: same records, same sort, but only the previously
kept record is compared -/
def oldVariantsPair (ref q : List Nat) (regions : List Region) (inter : List Nat) : List Variant :=
  dedupAdj none (sortStable variantLt (modelAll ref q regions inter))

/-- after the stable sort the model's records are the specification's records in the specification's generation order -/
theorem modelAll_sorted_eq (ref q : List Nat) (regions : List Region) (inter : List Nat) (hl : ref.length = q.length)
    (hr : OkRow ref) (hq : OkRow q) (hv : ∀ reg ∈ regions, ValidPositions ref q reg.positions) :
    sortStable variantLt (modelAll (ref.map (enc false)) (q.map (enc false)) regions inter) =
      sortStable variantLt (specAll ref q regions inter) := by
  unfold modelAll specAll
  rw [nucs_spec ref q hl hr hq inter]
  rw [flatMap_congr' _ (regionRecords ref q) regions (fun reg hreg => aas_spec ref q reg hl hr hq (hv reg hreg))]
  rw [List.append_assoc, indels_sort_eq, ← List.append_assoc]

/-- the model's list is: the specification's records in the specification's generation order, sorted, then passed
through the de-duplication loop -/
theorem model_eq (ref q : List Nat) (regions : List Region) (inter : List Nat) (hl : ref.length = q.length)
    (hr : OkRow ref) (hq : OkRow q) (hv : ∀ reg ∈ regions, ValidPositions ref q reg.positions) :
    getVariantsPair (ref.map (enc false)) (q.map (enc false)) regions inter =
      dedupRun [] (sortStable variantLt (specAll ref q regions inter)) := by
  rw [getVariantsPair_eq, modelAll_sorted_eq ref q regions inter hl hr hq hv]

theorem old_model_eq (ref q : List Nat) (regions : List Region) (inter : List Nat) (hl : ref.length = q.length)
    (hr : OkRow ref) (hq : OkRow q) (hv : ∀ reg ∈ regions, ValidPositions ref q reg.positions) :
    oldVariantsPair (ref.map (enc false)) (q.map (enc false)) regions inter =
      dedupAdj none (sortStable variantLt (specAll ref q regions inter)) := by
  unfold oldVariantsPair
  rw [modelAll_sorted_eq ref q regions inter hl hr hq hv]

theorem spec_eq (ref q : List Nat) (regions : List Region) (inter : List Nat) :
    specVariants ref q regions inter = sortStable variantLt (dedupAll (specAll ref q regions inter)) := rfl

/-- **C04.list** — for rows of equal length over the accepted alphabet and features whose positions lie on the
reference, the mutation list of the model IS the specified list: same records, same order, every record once.
No hypothesis on the names of the features or on the order in which equal records are generated. -/
theorem variants_list_eq (ref q : List Nat) (regions : List Region) (inter : List Nat) (hl : ref.length = q.length)
    (hr : OkRow ref) (hq : OkRow q) (hv : ∀ reg ∈ regions, ValidPositions ref q reg.positions) :
    getVariantsPair (ref.map (enc false)) (q.map (enc false)) regions inter = specVariants ref q regions inter := by
  rw [model_eq ref q regions inter hl hr hq hv, spec_eq]
  exact run_sort_eq_sort_all _ (specAll_no_del0 ref q regions inter)

/-- **no record is ever output twice** — any rows, any regions, any intergenic list -/
theorem variants_nodup (ref q : List Nat) (regions : List Region) (inter : List Nat) :
    (getVariantsPair ref q regions inter).Nodup := by
  rw [getVariantsPair_eq]
  exact dedupRun_nodup _ (sorted_sortStable variantLt_swo _)

/-- the list is sorted by position, then kind — any rows, any regions, any intergenic list -/
theorem variants_sorted (ref q : List Nat) (regions : List Region) (inter : List Nat) :
    Sorted variantLt (getVariantsPair ref q regions inter) := by
  rw [getVariantsPair_eq, dedupRun_sorted_dd _ (sorted_sortStable variantLt_swo _)]
  exact List.Pairwise.sublist ((dd_sublist _).trans List.filter_sublist) (sorted_sortStable variantLt_swo _)

/-- corollary of `variants_list_eq` (the hypothesis `hn` is no longer needed; kept under its old name) -/
theorem variants_list_eq_of_nodup (ref q : List Nat) (regions : List Region) (inter : List Nat) (hl : ref.length = q.length)
    (hr : OkRow ref) (hq : OkRow q) (hv : ∀ reg ∈ regions, ValidPositions ref q reg.positions)
    (_hn : ((regions.flatMap (regionRecords ref q)).filter (kindIs .aa)).Nodup) :
    getVariantsPair (ref.map (enc false)) (q.map (enc false)) regions inter = specVariants ref q regions inter :=
  variants_list_eq ref q regions inter hl hr hq hv

/-- corollary of `variants_list_eq` (the hypothesis `h1` is no longer needed; kept under its old name) -/
theorem variants_list_eq_of_le_one (ref q : List Nat) (regions : List Region) (inter : List Nat) (hl : ref.length = q.length)
    (hr : OkRow ref) (hq : OkRow q) (hv : ∀ reg ∈ regions, ValidPositions ref q reg.positions)
    (_h1 : regions.length ≤ 1) :
    getVariantsPair (ref.map (enc false)) (q.map (enc false)) regions inter = specVariants ref q regions inter :=
  variants_list_eq ref q regions inter hl hr hq hv

/-! ### 9. the list before the repair: equal to the specified list exactly when the copies were contiguous -/

/-- **the old list, exact form** — the list built by comparing with the previous record only IS the specified list if
and only if, for every position, the amino-acid records of that position have their copies contiguous in generation
order (feature by feature in annotation order, codon by codon) -/
theorem old_variants_list_eq_iff (ref q : List Nat) (regions : List Region) (inter : List Nat) (hl : ref.length = q.length)
    (hr : OkRow ref) (hq : OkRow q) (hv : ∀ reg ∈ regions, ValidPositions ref q reg.positions) :
    oldVariantsPair (ref.map (enc false)) (q.map (enc false)) regions inter = specVariants ref q regions inter ↔
      ∀ p : Int, Clumped (aaAt (regions.flatMap (regionRecords ref q)) p) := by
  rw [old_model_eq ref q regions inter hl hr hq hv, spec_eq,
    adj_sort_eq_sort_all_iff _ (specAll_no_del0 ref q regions inter), classes_iff]

/-- the repaired list and the old list agree exactly when the copies were contiguous -/
theorem old_eq_new_iff (ref q : List Nat) (regions : List Region) (inter : List Nat) (hl : ref.length = q.length)
    (hr : OkRow ref) (hq : OkRow q) (hv : ∀ reg ∈ regions, ValidPositions ref q reg.positions) :
    oldVariantsPair (ref.map (enc false)) (q.map (enc false)) regions inter =
        getVariantsPair (ref.map (enc false)) (q.map (enc false)) regions inter ↔
      ∀ p : Int, Clumped (aaAt (regions.flatMap (regionRecords ref q)) p) := by
  rw [variants_list_eq ref q regions inter hl hr hq hv, old_variants_list_eq_iff ref q regions inter hl hr hq hv]

/-- the old list was the specified list whenever no amino-acid record is generated twice -/
theorem old_variants_list_eq_of_nodup (ref q : List Nat) (regions : List Region) (inter : List Nat) (hl : ref.length = q.length)
    (hr : OkRow ref) (hq : OkRow q) (hv : ∀ reg ∈ regions, ValidPositions ref q reg.positions)
    (hn : ((regions.flatMap (regionRecords ref q)).filter (kindIs .aa)).Nodup) :
    oldVariantsPair (ref.map (enc false)) (q.map (enc false)) regions inter = specVariants ref q regions inter := by
  rw [old_variants_list_eq_iff ref q regions inter hl hr hq hv]
  intro p
  have : aaAt (regions.flatMap (regionRecords ref q)) p =
      ((regions.flatMap (regionRecords ref q)).filter (kindIs .aa)).filter (fun v => v.pos == p) := by
    unfold aaAt
    rw [List.filter_filter]
    apply List.filter_congr
    intro x _
    simp [kindIs, Bool.and_comm]
  rw [this]
  exact clumped_filter _ _ (clumped_of_nodup _ hn)

/-- in particular for features with pairwise different names -/
theorem old_variants_list_eq (ref q : List Nat) (regions : List Region) (inter : List Nat) (hl : ref.length = q.length)
    (hr : OkRow ref) (hq : OkRow q) (hv : ∀ reg ∈ regions, ValidPositions ref q reg.positions)
    (hnames : regions.Pairwise (fun a b => a.name ≠ b.name)) :
    oldVariantsPair (ref.map (enc false)) (q.map (enc false)) regions inter = specVariants ref q regions inter :=
  old_variants_list_eq_of_nodup ref q regions inter hl hr hq hv (regions_aa_nodup ref q regions hnames)

theorem dd_dedupAdj_some : ∀ (S : List Variant) (p : Variant), (∀ v ∈ S, ¬ isDel0 v) →
    (dd (dedupAdj (some p) S)).filter (fun x => x != p) = (dd S).filter (fun x => x != p) := by
  intro S
  induction S with
  | nil => intro p _; rfl
  | cons v t ih =>
    intro p hd
    have hv : ¬ (v.kind = .del ∧ v.pos = 0) := hd v List.mem_cons_self
    have hdt : ∀ w ∈ t, ¬ isDel0 w := fun w hw => hd w (List.mem_cons_of_mem _ hw)
    simp only [dedupAdj, hv, if_false]
    by_cases hpv : p = v
    · subst hpv
      simp only [if_true, dd, List.filter_cons, bne_self_eq_false, Bool.false_eq_true, if_false]
      rw [ih p hdt, List.filter_filter]
      apply List.filter_congr
      intro x _
      simp
    · have hne : ¬ (some p = some v) := by simpa using hpv
      have hvp : (v != p) = true := by simp; exact fun h => hpv h.symm
      simp only [hne, if_false, dd, List.filter_cons, hvp, if_true]
      rw [ih v hdt]

theorem dd_dedupAdj_none (S : List Variant) (hd : ∀ v ∈ S, ¬ isDel0 v) : dd (dedupAdj none S) = dd S := by
  cases S with
  | nil => rfl
  | cons v t =>
    have hv : ¬ (v.kind = .del ∧ v.pos = 0) := hd v List.mem_cons_self
    have : ¬ ((none : Option Variant) = some v) := by simp
    simp only [dedupAdj, hv, if_false, this, dd]
    rw [dd_dedupAdj_some t v (fun w hw => hd w (List.mem_cons_of_mem _ hw))]

theorem dd_eq_self_iff : ∀ (l : List Variant), dd l = l ↔ l.Nodup := by
  intro l
  constructor
  · intro h; rw [← h]; exact nodup_dd l
  · induction l with
    | nil => intro _; rfl
    | cons v t ih =>
      intro h
      have h' := List.nodup_cons.1 h
      simp only [dd]
      rw [ih h'.2]
      congr 1
      rw [List.filter_eq_self]
      intro x hx
      simp only [bne_iff_ne, ne_eq]
      intro e; subst e; exact h'.1 hx

/-- whatever the features are called, the specified list was the old list with every later copy of a record removed:
the old code never changed the order and never lost a record, it only repeated some -/
theorem old_dedupAll_variants_eq (ref q : List Nat) (regions : List Region) (inter : List Nat) (hl : ref.length = q.length)
    (hr : OkRow ref) (hq : OkRow q) (hv : ∀ reg ∈ regions, ValidPositions ref q reg.positions) :
    dedupAll (oldVariantsPair (ref.map (enc false)) (q.map (enc false)) regions inter) = specVariants ref q regions inter := by
  rw [old_model_eq ref q regions inter hl hr hq hv, spec_eq, dedupAll_eq_dd, dedupAll_eq_dd]
  rw [dd_dedupAdj_none _ (fun v h => specAll_no_del0 ref q regions inter v ((mem_sortStable _ _ _).1 h))]
  exact dd_sortStable variantLt_swo _

/-- hence the repaired list is the old list with every later copy of a record removed -/
theorem new_eq_dedupAll_old (ref q : List Nat) (regions : List Region) (inter : List Nat) (hl : ref.length = q.length)
    (hr : OkRow ref) (hq : OkRow q) (hv : ∀ reg ∈ regions, ValidPositions ref q reg.positions) :
    getVariantsPair (ref.map (enc false)) (q.map (enc false)) regions inter =
      dedupAll (oldVariantsPair (ref.map (enc false)) (q.map (enc false)) regions inter) := by
  rw [variants_list_eq ref q regions inter hl hr hq hv, old_dedupAll_variants_eq ref q regions inter hl hr hq hv]

/-- the old list differed from the specified one exactly when it wrote some record twice -/
theorem old_variants_list_eq_iff_nodup (ref q : List Nat) (regions : List Region) (inter : List Nat) (hl : ref.length = q.length)
    (hr : OkRow ref) (hq : OkRow q) (hv : ∀ reg ∈ regions, ValidPositions ref q reg.positions) :
    oldVariantsPair (ref.map (enc false)) (q.map (enc false)) regions inter = specVariants ref q regions inter ↔
      (oldVariantsPair (ref.map (enc false)) (q.map (enc false)) regions inter).Nodup := by
  rw [← old_dedupAll_variants_eq ref q regions inter hl hr hq hv, dedupAll_eq_dd, ← dd_eq_self_iff]
  exact ⟨fun h => h.symm, fun h => h.symm⟩

/-- removing later copies from the model's list changes nothing (it has none), and gives the specified list -/
theorem dedupAll_variants_eq (ref q : List Nat) (regions : List Region) (inter : List Nat) (hl : ref.length = q.length)
    (hr : OkRow ref) (hq : OkRow q) (hv : ∀ reg ∈ regions, ValidPositions ref q reg.positions) :
    dedupAll (getVariantsPair (ref.map (enc false)) (q.map (enc false)) regions inter) = specVariants ref q regions inter := by
  rw [dedupAll_eq_dd, (dd_eq_self_iff _).2 (variants_nodup _ _ _ _)]
  exact variants_list_eq ref q regions inter hl hr hq hv

/-- both sides hold now (`variants_list_eq`, `variants_nodup`); kept under its old name -/
theorem variants_list_eq_iff_nodup (ref q : List Nat) (regions : List Region) (inter : List Nat) (hl : ref.length = q.length)
    (hr : OkRow ref) (hq : OkRow q) (hv : ∀ reg ∈ regions, ValidPositions ref q reg.positions) :
    getVariantsPair (ref.map (enc false)) (q.map (enc false)) regions inter = specVariants ref q regions inter ↔
      (getVariantsPair (ref.map (enc false)) (q.map (enc false)) regions inter).Nodup :=
  ⟨fun _ => variants_nodup _ _ _ _, fun _ => variants_list_eq ref q regions inter hl hr hq hv⟩

/-! ### 10. the input on which the list before the repair was wrong -/

/-- reference ATG, query ATG; features g, h, g all made of the codon 1..3 and annotated with residue A -/
def cxRegions : List Region :=
  [⟨"g", 1, [1, 2, 3], [65]⟩, ⟨"h", 1, [1, 2, 3], [65]⟩, ⟨"g", 1, [1, 2, 3], [65]⟩]

theorem cx_wellformed : OkRow [65, 84, 71] ∧ (∀ reg ∈ cxRegions, ValidPositions [65, 84, 71] [65, 84, 71] reg.positions) := by
  constructor
  · intro b hb
    simp only [List.mem_cons, List.not_mem_nil, or_false] at hb
    rcases hb with rfl | rfl | rfl <;> exact ⟨by decide, by decide +kernel⟩
  · intro reg hreg p hp
    simp only [cxRegions, List.mem_cons, List.not_mem_nil, or_false] at hreg
    rcases hreg with rfl | rfl | rfl <;>
    · simp only [List.mem_cons, List.not_mem_nil, or_false] at hp
      rcases hp with rfl | rfl | rfl <;> decide +kernel

/-- **the repaired loop on the input that showed the defect** — the call of feature g is made twice with the call of
feature h in between: the model now writes g, h, which is the specified list -/
theorem cx_fixed :
    getVariantsPair ([65, 84, 71].map (enc false)) ([65, 84, 71].map (enc false)) cxRegions [] =
      specVariants [65, 84, 71] [65, 84, 71] cxRegions [] ∧
    (getVariantsPair ([65, 84, 71].map (enc false)) ([65, 84, 71].map (enc false)) cxRegions []).map (formatVariant false) =
      ["aa:g:A1M", "aa:h:A1M"] := by
  constructor <;> decide +kernel

/-- the same with two different features of one name (two coding sequences of one gene that share their first
codon: 1..3 and 1..6), again with another feature in between -/
def cxRegions2 : List Region :=
  [⟨"g", 1, [1, 2, 3], [65]⟩, ⟨"h", 1, [1, 2, 3], [65]⟩, ⟨"g", 1, [1, 2, 3, 4, 5, 6], [65, 75]⟩]

theorem cx2_fixed :
    getVariantsPair ([65, 84, 71, 65, 65, 65].map (enc false)) ([65, 84, 71, 65, 65, 65].map (enc false)) cxRegions2 [] =
      specVariants [65, 84, 71, 65, 65, 65] [65, 84, 71, 65, 65, 65] cxRegions2 [] ∧
    (getVariantsPair ([65, 84, 71, 65, 65, 65].map (enc false)) ([65, 84, 71, 65, 65, 65].map (enc false)) cxRegions2 []).map
      (formatVariant false) = ["aa:g:A1M", "aa:h:A1M"] := by
  constructor <;> decide +kernel

/-- two features of one name that are neighbours in the annotation -/
theorem cx_adjacent_same_name :
    getVariantsPair ([65, 84, 71].map (enc false)) ([65, 84, 71].map (enc false))
      [⟨"g", 1, [1, 2, 3], [65]⟩, ⟨"g", 1, [1, 2, 3], [65]⟩, ⟨"h", 1, [1, 2, 3], [65]⟩] [] =
    specVariants [65, 84, 71] [65, 84, 71] [⟨"g", 1, [1, 2, 3], [65]⟩, ⟨"g", 1, [1, 2, 3], [65]⟩, ⟨"h", 1, [1, 2, 3], [65]⟩] [] := by
  decide +kernel

/-- the records generated for the first input, in generation order -/
def cxAll : List Variant := modelAll ([65, 84, 71].map (enc false)) ([65, 84, 71].map (enc false)) cxRegions []

theorem cx_model : getVariantsPair ([65, 84, 71].map (enc false)) ([65, 84, 71].map (enc false)) cxRegions [] =
    dedupRun [] (sortStable variantLt cxAll) := rfl

/-- **the two loops differ**: on the sorted records of this well-formed input the old loop (compare with the previous
record) and the repaired loop (scan the run of equal position and kind) give different lists -/
theorem old_dedup_differs : dedupAdj none (sortStable variantLt cxAll) ≠ dedupRun [] (sortStable variantLt cxAll) := by
  decide +kernel

/-- the old loop wrote g, h, g where g, h is specified; so did it on the second input -/
theorem old_cx_differs :
    (oldVariantsPair ([65, 84, 71].map (enc false)) ([65, 84, 71].map (enc false)) cxRegions []).map (formatVariant false) =
      ["aa:g:A1M", "aa:h:A1M", "aa:g:A1M"] ∧
    (specVariants [65, 84, 71] [65, 84, 71] cxRegions []).map (formatVariant false) = ["aa:g:A1M", "aa:h:A1M"] ∧
    (oldVariantsPair ([65, 84, 71, 65, 65, 65].map (enc false)) ([65, 84, 71, 65, 65, 65].map (enc false)) cxRegions2 []).map
      (formatVariant false) = ["aa:g:A1M", "aa:h:A1M", "aa:g:A1M"] ∧
    (specVariants [65, 84, 71, 65, 65, 65] [65, 84, 71, 65, 65, 65] cxRegions2 []).map (formatVariant false) =
      ["aa:g:A1M", "aa:h:A1M"] := by
  refine ⟨?_, ?_, ?_, ?_⟩ <;> decide +kernel

/-- the repaired loop needs its input sorted: on an unsorted list a copy behind a record of another position is not
found (in `getVariantsPair` the input is always sorted, see `variants_nodup`) -/
theorem dedupRun_unsorted :
    dedupRun [] [{ kind := .nuc, pos := 1 }, { kind := .nuc, pos := 2 }, { kind := .nuc, pos := 1 }] =
      [{ kind := .nuc, pos := 1 }, { kind := .nuc, pos := 2 }, { kind := .nuc, pos := 1 }] := by
  decide +kernel

end Gofasta.Lemmas.VariantsOrder
