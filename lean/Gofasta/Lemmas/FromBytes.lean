import Gofasta.Lemmas.SamRoundTrip
import Gofasta.Lemmas.GffRoundTrip
import Gofasta.Lemmas.SamFlatten
import Gofasta.Lemmas.PairSkipIns
import Gofasta.Lemmas.RegionEquiv
/-
Glue between the text layers (Model/SamText, Model/GffText: readers on BYTES) and the command models that start
from structured inputs (Model/Sam: `SamRec` ; Model/Regions: `GffRow`): the theorems of C01 / C02 / C14 restated
for what is read from the bytes of a file.
-/
namespace Gofasta.Lemmas.FromBytes
open Gofasta Model Spec
open Gofasta.Model.SamText (Bytes Rec)
open Gofasta.Lemmas.SamRT
open Gofasta.Props.C01 (samNoIns qSpan refSpan)
open Gofasta.Props.C02 (NoDash)

/-! ## (1) SAM -/

/-- What the commands get from a SAM text: the name and length of the FIRST reference of the header (decision of this
glue layer: the files the commands are given have one @SQ line) and the records as `SamRec`.
`none` in every case in which the Go code does not get to the conversion, or in which the model has no counterpart:
  * NewReader fails (empty text, malformed header, text ending inside an @ line), or panics, or is outside the model ;
  * the Read loop ends in anything but io.EOF (a malformed record line: the command stops with the error ; an
    empty line: index panic) ;
  * the header has no @SQ line (there is no reference length to work with). -/
def samRecsOfText (text : List Nat) : Option (String × Nat × List SamRec) :=
  match readRows text with
  | some ((name, len) :: _, recs) => some (bytesToString name, len, recs)
  | _ => none

/-- **sam_from_bytes** - reading the bytes written for a reference and well-formed records gives them back -/
theorem samRecsOfText_render (name : Bytes) (len : Nat) (recs : List SamRec) (hr : refOk name len = true)
    (h : ∀ r ∈ recs, recOk len r = true) :
    samRecsOfText (renderSam name len recs) = some (bytesToString name, len, recs) := by
  unfold samRecsOfText
  rw [sam_roundtrip name len recs hr h]

theorem bytesToString_stringToBytes (s : String) : bytesToString (stringToBytes s) = s := by
  simp [bytesToString, stringToBytes, List.map_map, Function.comp_def]

/-- the same with the reference name given as a string -/
theorem samRecsOfText_render_string (name : String) (len : Nat) (recs : List SamRec)
    (hr : refOk (stringToBytes name) len = true) (h : ∀ r ∈ recs, recOk len r = true) :
    samRecsOfText (renderSam (stringToBytes name) len recs) = some (name, len, recs) := by
  rw [samRecsOfText_render _ len recs hr h, bytesToString_stringToBytes]


/-! ### `recOk` (what can be written and read back) versus `WFSamRec` (what the command theorems need) -/

/-- 1 for the operators that consume query bases (M I S = X), else 0 -/
def qUnit (op : Nat) : Nat := if op = 0 ∨ op = 1 ∨ op = 4 ∨ op = 7 ∨ op = 8 then 1 else 0

/-- 1 for the operators that consume reference bases (M D N = X), else 0 -/
def rUnit (op : Nat) : Nat := if op = 0 ∨ op = 2 ∨ op = 3 ∨ op = 7 ∨ op = 8 then 1 else 0

theorem opEntry_big (op : Nat) (h : 9 ≤ op) : opEntry samNoIns op = none := by
  have : ∀ k, k ≤ 8 → (k == op) = false := by
    intro k hk
    simp only [beq_eq_false_iff_ne, ne_eq]
    omega
  simp [opEntry, samNoIns, this]

theorem small_cases (op : Nat) (h : ¬ 9 ≤ op) :
    op = 0 ∨ op = 1 ∨ op = 2 ∨ op = 3 ∨ op = 4 ∨ op = 5 ∨ op = 6 ∨ op = 7 ∨ op = 8 := by omega

theorem qSpan_cons (op len : Nat) (rest : List (Nat × Nat)) :
    qSpan samNoIns ((op, len) :: rest) = len * qUnit op + qSpan samNoIns rest := by
  by_cases h : 9 ≤ op
  · have hq : qUnit op = 0 := by unfold qUnit; rw [if_neg (by omega)]
    simp only [qSpan, opEntry_big op h, hq, Nat.mul_zero]
  · rcases small_cases op h with rfl | rfl | rfl | rfl | rfl | rfl | rfl | rfl | rfl <;>
      simp [qSpan, opEntry, samNoIns, qUnit]

theorem refSpan_cons (op len : Nat) (rest : List (Nat × Nat)) :
    refSpan samNoIns ((op, len) :: rest) = len * rUnit op + refSpan samNoIns rest := by
  by_cases h : 9 ≤ op
  · have hq : rUnit op = 0 := by unfold rUnit; rw [if_neg (by omega)]
    simp only [refSpan, opEntry_big op h, hq, Nat.mul_zero]
  · rcases small_cases op h with rfl | rfl | rfl | rfl | rfl | rfl | rfl | rfl | rfl <;>
      simp [refSpan, opEntry, samNoIns, rUnit]

theorem consumes_query (op : Nat) : (SamText.consumes op).1 = (qUnit op : Int) := by
  by_cases h : 10 ≤ op
  · have hq : qUnit op = 0 := by unfold qUnit; rw [if_neg (by omega)]
    rw [hq]
    unfold SamText.consumes
    split <;> first | omega | rfl
  · have : op = 0 ∨ op = 1 ∨ op = 2 ∨ op = 3 ∨ op = 4 ∨ op = 5 ∨ op = 6 ∨ op = 7 ∨ op = 8 ∨ op = 9 := by omega
    rcases this with rfl | rfl | rfl | rfl | rfl | rfl | rfl | rfl | rfl | rfl <;> rfl

/-- Cigar.IsValid(n) implies that the CIGAR consumes exactly n query bases (for every operator list) -/
theorem validLoop_qSpan : ∀ (c : List (Nat × Nat)) (i prev : Nat) (length pos : Int),
    SamText.validLoop c i prev length pos = true → length = (qSpan samNoIns c : Int) := by
  intro c
  induction c with
  | nil =>
    intro i prev length pos h
    simp only [SamText.validLoop, beq_iff_eq] at h
    simp [qSpan, h]
  | cons o t ih =>
    intro i prev length pos h
    obtain ⟨op, len⟩ := o
    rw [SamText.validLoop] at h
    simp only [] at h
    split at h
    · cases h
    · split at h
      · cases h
      · split at h
        · cases h
        · have := ih _ _ _ _ h
          rw [qSpan_cons, consumes_query] at *
          rw [Int.natCast_add, Int.natCast_mul]
          omega

theorem cigarIsValid_qSpan (c : List (Nat × Nat)) (n : Nat) (h : SamText.cigarIsValid c n = true) :
    qSpan samNoIns c = n := by
  have := validLoop_qSpan c 0 0 n 0 h
  omega

theorem alphabet_letters : ∀ b ∈ seqAlphabet, b ≠ 61 → isLetter b = true := by decide

/-- what `WFSamRec` asks beyond `recOk`: a record without SEQ (`*`) has a CIGAR that consumes no query base, the
alignment ends inside the reference, and SEQ does not use '=' (the one byte of Seq.Expand's alphabet that is not a letter) -/
def recFit (len : Nat) (r : SamRec) : Bool :=
  (!r.seq.isEmpty || decide (qSpan samNoIns r.cigar = 0)) && decide (r.pos + refSpan samNoIns r.cigar ≤ len) &&
  !r.seq.contains 61

/-- **the two predicates related**: a record that can be written and read back (`recOk`) meets `WFSamRec` as soon as
it also meets `recFit` -/
theorem wf_of_recOk (len : Nat) (r : SamRec) (h : recOk len r = true) (hf : recFit len r = true) : WFSamRec r len := by
  have f := recOk_facts len r h
  simp only [recFit, Bool.and_eq_true, Bool.or_eq_true, Bool.not_eq_true', List.isEmpty_eq_false_iff, decide_eq_true_eq,
    List.contains_eq_mem, decide_eq_false_iff_not] at hf
  obtain ⟨⟨h1, h2⟩, h3⟩ := hf
  refine ⟨?_, h2, ?_⟩
  · by_cases hs : r.seq = []
    · rcases h1 with h1 | h1
      · exact absurd hs h1
      · omega
    · by_cases hc : r.cigar = []
      · rw [hc]; simp [qSpan]
      · have := cigarIsValid_qSpan _ _ (f.valid hs hc)
        omega
  · intro b hb
    exact alphabet_letters b (f.seq b hb) (fun e => h3 (e ▸ hb))

/-- and `recFit` is exactly the gap: for a record that can be written, `WFSamRec` is `recFit` -/
theorem wf_iff_recFit (len : Nat) (r : SamRec) (h : recOk len r = true) : WFSamRec r len ↔ recFit len r = true := by
  constructor
  · intro w
    simp only [recFit, Bool.and_eq_true, Bool.or_eq_true, Bool.not_eq_true', List.isEmpty_eq_false_iff, decide_eq_true_eq,
      List.contains_eq_mem, decide_eq_false_iff_not]
    refine ⟨⟨?_, w.hr⟩, ?_⟩
    · by_cases hs : r.seq = []
      · right
        have := w.hq
        rw [hs] at this
        simpa using this
      · left; exact hs
    · intro hm
      have := w.letters 61 hm
      exact absurd this (by decide)
  · exact wf_of_recOk len r h

/-- the gap is real: three records that can be written and are read back, and are not `WFSamRec` -/
example : recOk 10 ⟨"q", 0, 0, [(0, 3)], []⟩ = true ∧ ¬ WFSamRec ⟨"q", 0, 0, [(0, 3)], []⟩ 10 :=
  ⟨by decide +kernel, fun w => absurd w.hq (by decide)⟩
example : recOk 10 ⟨"q", 0, 9, [(0, 3)], [65, 67, 71]⟩ = true ∧ ¬ WFSamRec ⟨"q", 0, 9, [(0, 3)], [65, 67, 71]⟩ 10 :=
  ⟨by decide +kernel, fun w => absurd w.hr (by decide)⟩
example : recOk 10 ⟨"q", 0, 0, [(0, 1)], [61]⟩ = true ∧ ¬ WFSamRec ⟨"q", 0, 0, [(0, 1)], [61]⟩ 10 :=
  ⟨by decide +kernel, fun w => absurd (w.letters 61 (by simp)) (by decide)⟩


/-! ### the commands on bytes -/

/-- `sam toMultiAlign` on the bytes of a SAM file ; none = error -/
def tomaOfText (o : TomaOpts) (text : List Nat) : Option String :=
  match samRecsOfText text with
  | some (_, L, recs) => toMultiAlign L o recs
  | none => none

/-- `sam toPairAlign` on the bytes of a SAM file and a reference sequence ; none = error -/
def topaOfText (ref : List Nat) (refName : String) (start stop wrap : Int) (omitRef omitIns : Bool) (text : List Nat) :
    Option (List (String × String)) :=
  match samRecsOfText text with
  | some (_, _, recs) => toPairAlign ref refName start stop wrap omitRef omitIns recs
  | none => none

theorem wf_retained (len : Nat) (recs : List SamRec) (h : ∀ r ∈ recs, recOk len r = true)
    (hfit : ∀ r ∈ recs, isSkipped r = false → recFit len r = true) :
    ∀ r ∈ recs, isSkipped r = false → WFSamRec r len :=
  fun r hr hs => wf_of_recOk len r (h r hr) (hfit r hr hs)

/-- **toMultiAlign_from_bytes** - C01 (`toMultiAlign_total`) for the bytes of a SAM file: for every reference and every
list of records that can be written (`refOk`, `recOk`), whose retained records fit (`recFit`), and every accepted
window, pad and wrap setting, the command run on the TEXT writes one record per block of retained records, in input
order, each with the specification's row -/
theorem toMultiAlign_from_bytes (name : Bytes) (len : Nat) (recs : List SamRec) (o : TomaOpts) (s e : Nat) (trim : Bool)
    (hr : refOk name len = true) (h : ∀ r ∈ recs, recOk len r = true)
    (hfit : ∀ r ∈ recs, isSkipped r = false → recFit len r = true)
    (hargs : checkArgs len o.start o.stop = some (s, e, trim)) :
    tomaOfText o (renderSam name len recs) = some (String.join ((samBlocks recs).map fun b =>
      tomaRecordText o.wrap (b.headD default).name (specWindow (specTomaRow b len o.pad) o.pad trim s e))) := by
  unfold tomaOfText
  rw [samRecsOfText_render name len recs hr h]
  exact toMultiAlign_total len o recs s e trim hargs (wf_retained len recs h hfit)

/-- the same statement with the records named by what the reader returns -/
theorem toMultiAlign_from_bytes' (name : Bytes) (len : Nat) (recs : List SamRec) (o : TomaOpts) (s e : Nat) (trim : Bool)
    (hr : refOk name len = true) (h : ∀ r ∈ recs, recOk len r = true)
    (hfit : ∀ r ∈ recs, isSkipped r = false → recFit len r = true)
    (hargs : checkArgs len o.start o.stop = some (s, e, trim)) :
    ∃ nm L rs, samRecsOfText (renderSam name len recs) = some (nm, L, rs) ∧
      toMultiAlign L o rs = some (String.join ((samBlocks rs).map fun b =>
        tomaRecordText o.wrap (b.headD default).name (specWindow (specTomaRow b L o.pad) o.pad trim s e))) :=
  ⟨bytesToString name, len, recs, samRecsOfText_render name len recs hr h,
    toMultiAlign_total len o recs s e trim hargs (wf_retained len recs h hfit)⟩

/-- **toPairAlign_from_bytes** - C02 (`toPairAlign_spec`, both values of skip-insertions) for the bytes of a SAM file
written against a reference sequence `ref` (the @SQ length is its length), `ref` without '-' and without bytes below '*' -/
theorem toPairAlign_from_bytes (name : Bytes) (ref : List Nat) (refName : String) (start stop wrap : Int)
    (omitRef omitIns : Bool) (recs : List SamRec) (s e : Nat) (trim : Bool)
    (hr : refOk name ref.length = true) (h : ∀ r ∈ recs, recOk ref.length r = true)
    (hfit : ∀ r ∈ recs, isSkipped r = false → recFit ref.length r = true)
    (hargs : checkArgs ref.length start stop = some (s, e, trim))
    (hnd : NoDash ref) (hge : ∀ b ∈ ref, star ≤ b) :
    topaOfText ref refName start stop wrap omitRef omitIns (renderSam name ref.length recs) =
      some ((samBlocks recs).map fun b =>
        ((b.headD default).name, pairText wrap refName (b.headD default).name omitRef
          (if trim then specTrimPair (PairSkipIns.specPairOf omitIns b ref) s e else PairSkipIns.specPairOf omitIns b ref))) := by
  unfold topaOfText
  rw [samRecsOfText_render name ref.length recs hr h]
  exact PairSkipIns.toPairAlign_spec ref refName start stop wrap omitRef omitIns recs s e trim hargs hnd hge
    (wf_retained ref.length recs h hfit)

/-- **toPairAlign_keepIns_from_bytes** - the insertions-kept branch (`toPairAlign_keepIns_spec`) -/
theorem toPairAlign_keepIns_from_bytes (name : Bytes) (ref : List Nat) (refName : String) (start stop wrap : Int)
    (omitRef : Bool) (recs : List SamRec) (s e : Nat) (trim : Bool)
    (hr : refOk name ref.length = true) (h : ∀ r ∈ recs, recOk ref.length r = true)
    (hfit : ∀ r ∈ recs, isSkipped r = false → recFit ref.length r = true)
    (hargs : checkArgs ref.length start stop = some (s, e, trim))
    (hnd : NoDash ref) (hge : ∀ b ∈ ref, star ≤ b) :
    topaOfText ref refName start stop wrap omitRef false (renderSam name ref.length recs) =
      some ((samBlocks recs).map fun b =>
        ((b.headD default).name, pairText wrap refName (b.headD default).name omitRef
          (if trim then specTrimPair (specPair b ref) s e else specPair b ref))) := by
  unfold topaOfText
  rw [samRecsOfText_render name ref.length recs hr h]
  exact PairMulti.toPairAlign_keepIns_spec ref refName start stop wrap omitRef recs s e trim hargs hnd hge
    (wf_retained ref.length recs h hfit)

/-! ### the last line without its newline -/

/-- the repair in the Go code: a stream that does not end in a newline is given one -/
def terminate (text : List Nat) : List Nat :=
  if text = [] ∨ text.getLast? = some 10 then text else text ++ [10]

/-- the file as an editor that strips the final newline leaves it -/
def dropLastNewline (text : List Nat) : List Nat :=
  if text.getLast? = some 10 then text.dropLast else text

theorem terminate_dropLastNewline (x : List Nat) (c : Nat) (hx : x.getLast? = some c) (hc : c ≠ 10) :
    terminate (dropLastNewline (x ++ [10])) = x ++ [10] := by
  have h1 : dropLastNewline (x ++ [10]) = x := by
    unfold dropLastNewline
    simp
  rw [h1]
  unfold terminate
  have hne : x ≠ [] := by
    intro e; rw [e] at hx; simp at hx
  have : ¬ (x = [] ∨ x.getLast? = some 10) := by
    rw [hx]
    intro h
    rcases h with h | h
    · exact hne h
    · exact hc (Option.some.inj h)
  rw [if_neg this]

theorem unlines_snoc (ls : List Bytes) (l : Bytes) : unlines (ls ++ [l]) = unlines ls ++ l ++ [10] := by
  simp [unlines, SamText.bNl]

theorem recLine_last (rname : Bytes) (r : SamRec) : (recLine rname r).getLast? = some 42 := by
  have e : recFields rname r = (stringToBytes r.name :: [Csv.digitsOf r.flag, rname, Csv.digitsOf (r.pos + 1), [54, 48],
      renderCigar r.cigar, [SamText.bStar], [48], [48], (if r.seq = [] then [SamText.bStar] else r.seq)]) ++ [[SamText.bStar]] := rfl
  unfold recLine
  rw [e, joinB_snoc]
  simp [List.getLast?_append, SamText.bStar]

/-- the written text is `x ++ [newline]` where `x` ends in a byte other than the newline (the last byte of the @PG line
or the `*` of the QUAL column): no hypothesis on the reference or the records is needed -/
theorem renderSam_shape (name : Bytes) (len : Nat) (recs : List SamRec) :
    ∃ x c, renderSam name len recs = x ++ [10] ∧ x.getLast? = some c ∧ c ≠ 10 := by
  rcases List.eq_nil_or_concat recs with e | ⟨L, r, e⟩
  · subst e
    refine ⟨unlines [hdLine, sqLine name len] ++ pgLine, 102, ?_, ?_, by decide⟩
    · have := unlines_snoc [hdLine, sqLine name len] pgLine
      simpa [renderSam] using this
    · rw [List.getLast?_append]
      rfl
  · subst e
    refine ⟨unlines ([hdLine, sqLine name len, pgLine] ++ L.map (recLine name)) ++ recLine name r, 42, ?_, ?_, by decide⟩
    · have := unlines_snoc ([hdLine, sqLine name len, pgLine] ++ L.map (recLine name)) (recLine name r)
      simpa [renderSam] using this
    · rw [List.getLast?_append, recLine_last]
      rfl

/-- the repaired input stream gives back the written bytes -/
theorem terminate_render (name : Bytes) (len : Nat) (recs : List SamRec) :
    terminate (dropLastNewline (renderSam name len recs)) = renderSam name len recs := by
  obtain ⟨x, c, e, hx, hc⟩ := renderSam_shape name len recs
  rw [e]
  exact terminate_dropLastNewline x c hx hc

/-- **unterminated_last_read** - with the repair, the file without its final newline reads the same records (for every
reference and every list of records, well-formed or not: the two texts are the same bytes) -/
theorem unterminated_last_read (name : Bytes) (len : Nat) (recs : List SamRec) :
    samRecsOfText (terminate (dropLastNewline (renderSam name len recs))) = samRecsOfText (renderSam name len recs) := by
  rw [terminate_render]

/-- hence every record is read, the last one included -/
theorem unterminated_last_read_all (name : Bytes) (len : Nat) (recs : List SamRec) (hr : refOk name len = true)
    (h : ∀ r ∈ recs, recOk len r = true) :
    samRecsOfText (terminate (dropLastNewline (renderSam name len recs))) = some (bytesToString name, len, recs) := by
  rw [unterminated_last_read, samRecsOfText_render name len recs hr h]

theorem samRecsOfText_congr (t1 t2 : List Nat) (h : SamText.readSam t1 = SamText.readSam t2) :
    samRecsOfText t1 = samRecsOfText t2 := by
  unfold samRecsOfText readRows
  rw [h]

/-- **unterminated_loses_last** - WITHOUT the repair (finding F-C01b) the last record of such a file is dropped
silently: the reader returns the records before it and reaches io.EOF -/
theorem unterminated_loses_last (name : Bytes) (len : Nat) (recs : List SamRec) (r : SamRec) (hr : refOk name len = true)
    (h : ∀ x ∈ recs ++ [r], recOk len x = true) :
    samRecsOfText (dropLastNewline (renderSam name len (recs ++ [r]))) = some (bytesToString name, len, recs) := by
  have hrf := refOk_facts name len hr
  have hf : ∀ x ∈ recs ++ [r], RecFacts len x := fun x hx => recOk_facts len x (h x hx)
  have hfr : RecFacts len r := hf r (by simp)
  have hnl := lines_noNl name len (recs ++ [r]) hrf hf
  have e : renderSam name len (recs ++ [r]) = (renderSam name len recs ++ recLine name r) ++ [10] := by
    have := unlines_snoc ([hdLine, sqLine name len, pgLine] ++ recs.map (recLine name)) (recLine name r)
    simpa [renderSam] using this
  have hd : dropLastNewline (renderSam name len (recs ++ [r])) = renderSam name len recs ++ recLine name r := by
    rw [e]
    unfold dropLastNewline
    simp
  rw [hd]
  have hu := readSam_unterminated ([hdLine, sqLine name len, pgLine] ++ recs.map (recLine name)) (recLine name r)
    (by simp)
    (fun l hl => hnl l (by
      rcases List.mem_append.1 hl with h1 | h1
      · exact List.mem_append_left _ h1
      · apply List.mem_append_right
        rw [List.map_append]
        exact List.mem_append_left _ h1))
    (hnl (recLine name r) (by simp))
    (recLine_head name len r hfr)
  exact (samRecsOfText_congr _ _ hu).trans
    (samRecsOfText_render name len recs hr (fun x hx => h x (List.mem_append_left _ hx)))

/-! ### non-vacuity: a concrete SAM file of two records (one query, 3M1D then 2M: a conflict at one column, a base over a deletion at the next) -/

def exName : Bytes := [114, 101, 102]
def exR1 : SamRec := ⟨"q", 0, 1, [(0, 3), (2, 1)], [65, 67, 71]⟩
def exR2 : SamRec := ⟨"q", 2048, 3, [(0, 2)], [84, 84]⟩

/-- the bytes of the file -/
example : bytesToString (renderSam exName 8 [exR1, exR2]) =
    "@HD\tVN:1.6\tSO:unsorted\n@SQ\tSN:ref\tLN:8\n@PG\tID:verif\tPN:verif\n" ++
    "q\t0\tref\t2\t60\t3M1D\t*\t0\t0\tACG\t*\nq\t2048\tref\t4\t60\t2M\t*\t0\t0\tTT\t*\n" := by decide +kernel

theorem ex_hyps : refOk exName 8 = true ∧ (∀ r ∈ [exR1, exR2], recOk 8 r = true) ∧
    (∀ r ∈ [exR1, exR2], isSkipped r = false → recFit 8 r = true) ∧
    checkArgs 8 ({} : TomaOpts).start ({} : TomaOpts).stop = some (1, 8, false) := by
  refine ⟨by decide +kernel, ?_, ?_, by decide +kernel⟩
  · intro r hr
    simp only [List.mem_cons, List.not_mem_nil, or_false] at hr
    rcases hr with rfl | rfl <;> decide +kernel
  · intro r hr _
    simp only [List.mem_cons, List.not_mem_nil, or_false] at hr
    rcases hr with rfl | rfl <;> decide +kernel

/-- the reader on these bytes, evaluated -/
example : samRecsOfText (renderSam exName 8 [exR1, exR2]) = some ("ref", 8, [exR1, exR2]) :=
  samRecsOfText_render exName 8 [exR1, exR2] ex_hyps.1 ex_hyps.2.1

/-- the theorem applies, and this is the output -/
example : tomaOfText {} (renderSam exName 8 [exR1, exR2]) = some ">q\n-ACNT---\n" := by
  rw [toMultiAlign_from_bytes exName 8 [exR1, exR2] {} 1 8 false ex_hyps.1 ex_hyps.2.1 ex_hyps.2.2.1 ex_hyps.2.2.2]
  decide +kernel

/-- the file without its final newline: the last record is lost without the repair, read with it -/
example : samRecsOfText (dropLastNewline (renderSam exName 8 [exR1, exR2])) = some ("ref", 8, [exR1]) :=
  unterminated_loses_last exName 8 [exR1] exR2 ex_hyps.1 ex_hyps.2.1
example : samRecsOfText (terminate (dropLastNewline (renderSam exName 8 [exR1, exR2]))) = some ("ref", 8, [exR1, exR2]) :=
  unterminated_last_read_all exName 8 [exR1, exR2] ex_hyps.1 ex_hyps.2.1


/-- a reference sequence of the length of the @SQ line, and a first record with an insertion (2M1I1M1D) -/
def exRefSeq : List Nat := [65, 67, 71, 84, 65, 67, 71, 84]
def exR3 : SamRec := ⟨"q", 0, 1, [(0, 2), (1, 1), (0, 1), (2, 1)], [65, 67, 84, 71]⟩

theorem ex_hyps_pair : refOk exName exRefSeq.length = true ∧ (∀ r ∈ [exR3, exR2], recOk exRefSeq.length r = true) ∧
    (∀ r ∈ [exR3, exR2], isSkipped r = false → recFit exRefSeq.length r = true) ∧
    NoDash exRefSeq ∧ (∀ b ∈ exRefSeq, star ≤ b) := by
  refine ⟨by decide +kernel, ?_, ?_, by unfold NoDash; decide, by decide⟩
  · intro r hr
    simp only [List.mem_cons, List.not_mem_nil, or_false] at hr
    rcases hr with rfl | rfl <;> decide +kernel
  · intro r hr _
    simp only [List.mem_cons, List.not_mem_nil, or_false] at hr
    rcases hr with rfl | rfl <;> decide +kernel

/-- toPairAlign on the bytes, insertions kept, whole reference: the theorem applies, and this is the output -/
example : topaOfText exRefSeq "ref" (-1) (-1) (-1) false false (renderSam exName exRefSeq.length [exR3, exR2]) =
    some [("q", ">ref\nACG-TACGT\n>q\nNACTNTNNN\n")] := by
  obtain ⟨h1, h2, h3, h4, h5⟩ := ex_hyps_pair
  rw [toPairAlign_from_bytes exName exRefSeq "ref" (-1) (-1) (-1) false false [exR3, exR2] 1 8 false h1 h2 h3
    (by decide +kernel) h4 h5]
  decide +kernel

/-- skip-insertions, window 2..6 -/
example : topaOfText exRefSeq "ref" 2 6 (-1) false true (renderSam exName exRefSeq.length [exR3, exR2]) =
    some [("q", ">ref\nCGTAC\n>q\nACNTN\n")] := by
  obtain ⟨h1, h2, h3, h4, h5⟩ := ex_hyps_pair
  rw [toPairAlign_from_bytes exName exRefSeq "ref" 2 6 (-1) false true [exR3, exR2] 2 6 true h1 h2 h3
    (by decide +kernel) h4 h5]
  decide +kernel

/-! ## (2) GFF3 -/

section Gff
open Gofasta.Model.GffText (Feature Row lookupKV idKey escAttr cdsB readGFF)
open Gofasta.Lemmas.GffRT (RowOk VerOk PlainText escAttr_plain escPair)

deriving instance DecidableEq for GffRow

/-- "Name" -/
def nameKey : Bytes := [78, 97, 109, 101]

/-- `feature.Attributes[k][0]` when the tag is there: the FIRST value of the tag, else absent -/
def firstVal (k : Bytes) (attrs : List (Bytes × List Bytes)) : Option String :=
  match lookupKV k attrs with
  | some (v :: _) => some (bytesToString v)
  | _ => none

/-- a feature of the text reader as the row the region builder consumes: type, start, end, strand, phase, the first
value of the ID tag and of the Name tag (absent when the tag is absent ; the driver's proto format writes absent as
"."). The structured model counts coordinates in naturals: a negative start or end (which Atoi accepts) has no
counterpart, `none`. The phase of a parsed feature is 0, 1 or 2. -/
def featToRow (f : Feature) : Option GffRow :=
  if f.start < 0 ∨ f.stop < 0 then none
  else some ⟨bytesToString f.type, f.start.toNat, f.stop.toNat, bytesToString f.strand, f.phase.toNat,
    firstVal idKey f.attrs, firstVal nameKey f.attrs⟩

/-- What RegionsFromGFF gets from a GFF3 text: the rows, and the records of the ##FASTA section when there is one.
`none` = ReadGFF returns an error (the command stops), or a feature has a negative coordinate. -/
def gffRowsOfText (text : List Nat) : Option (List GffRow × Option (List (Bytes × GffText.FaRecord))) :=
  match readGFF text with
  | .ok g => (g.features.mapM featToRow).map fun rows => (rows, if g.fasta.isEmpty then none else some g.fasta)
  | .error _ => none

def optAttr (k : Bytes) : Option String → List (Bytes × List Bytes)
  | none => []
  | some v => [(k, [stringToBytes v])]

/-- a `GffRow` as a writer's row: seqid and source are those of the file, the score is ".", the phase is written as a
number (with `dot`: as "." when it is 0 and the type is not CDS, the way annotation files write gene or mRNA lines),
column nine is `ID=<id>;Name=<name>` (each only when present) followed by the other tags `extra` of the file -/
def rowToText (seqid source : Bytes) (dot : Bool) (extra : List (Bytes × List Bytes)) (r : GffRow) : Row :=
  { seqid := seqid, source := source, type := stringToBytes r.type, start := r.start, stop := r.stop, score := [46],
    strand := stringToBytes r.strand,
    phase := if dot = true ∧ r.phase = 0 ∧ stringToBytes r.type ≠ cdsB then none else some r.phase,
    attrs := optAttr idKey r.id ++ optAttr nameKey r.name ++ extra }

def rowsToText (seqid source : Bytes) (dot : Bool) (extra : List (Bytes × List Bytes)) (rows : List GffRow) : List Row :=
  rows.map (rowToText seqid source dot extra)

/-- a value the escaping rule leaves alone (no control character, '%', ';', '=', '&', ','): the reader does not decode
percent-escapes, so only such values come back as they were -/
def PlainOpt (o : Option String) : Prop := ∀ s, o = some s → PlainText (stringToBytes s)

instance (o : Option String) : Decidable (PlainOpt o) := by
  unfold PlainOpt
  cases o with
  | none => exact isTrue (fun s h => by cases h)
  | some v =>
    by_cases h : PlainText (stringToBytes v)
    · exact isTrue (fun s e => by cases e; exact h)
    · exact isFalse (fun hh => h (hh v rfl))

/-- a `GffRow` that can be written and read back: the written row meets the hypotheses of the round-trip theorem of the
text layer (`RowOk`: columns without TAB / LF / CR, coordinates within int64, a strand among + - . ?, a phase of at most
2, at least one tag in column nine, no tag twice, a line that fits the scanner's buffer), ID and Name need no escaping,
and no other tag of the file is written as ID or Name -/
def GffRowOk (seqid source : Bytes) (dot : Bool) (extra : List (Bytes × List Bytes)) (r : GffRow) : Prop :=
  RowOk (rowToText seqid source dot extra r) ∧ PlainOpt r.id ∧ PlainOpt r.name ∧
  ∀ a ∈ extra, escAttr a.1 ≠ idKey ∧ escAttr a.1 ≠ nameKey

instance (seqid source : Bytes) (dot : Bool) (extra : List (Bytes × List Bytes)) (r : GffRow) :
    Decidable (GffRowOk seqid source dot extra r) := by unfold GffRowOk; infer_instance

theorem lookupKV_absent (k : Bytes) : ∀ (l : List (Bytes × List Bytes)), (∀ a ∈ l, escAttr a.1 ≠ k) →
    lookupKV k (l.map escPair) = none := by
  intro l
  induction l with
  | nil => intro _; rfl
  | cons a t ih =>
    intro h
    have ha : ¬ ((escPair a).1 = k) := h a List.mem_cons_self
    simp only [List.map_cons]
    unfold lookupKV
    rw [if_neg ha]
    exact ih (fun x hx => h x (List.mem_cons_of_mem _ hx))

theorem escAttr_idKey : escAttr idKey = idKey := by decide
theorem escAttr_nameKey : escAttr nameKey = nameKey := by decide

theorem firstVal_id (id name : Option String) (extra : List (Bytes × List Bytes)) (hp : PlainOpt id)
    (hx : ∀ a ∈ extra, escAttr a.1 ≠ idKey ∧ escAttr a.1 ≠ nameKey) :
    firstVal idKey ((optAttr idKey id ++ optAttr nameKey name ++ extra).map escPair) = id := by
  unfold firstVal
  cases id with
  | some i =>
    simp only [optAttr, List.cons_append, List.nil_append, List.map_cons, escPair, escAttr_idKey, List.map_nil,
      escAttr_plain _ (hp i rfl), lookupKV, if_true, bytesToString_stringToBytes]
  | none =>
    have : lookupKV idKey ((optAttr nameKey name ++ extra).map escPair) = none := by
      apply lookupKV_absent
      intro a ha
      rcases List.mem_append.1 ha with h | h
      · cases name with
        | none => cases h
        | some n =>
          simp only [optAttr, List.mem_cons, List.not_mem_nil, or_false] at h
          subst h
          rw [escAttr_nameKey]
          decide
      · exact (hx a h).1
    have e : optAttr idKey (none : Option String) = [] := rfl
    rw [e, List.nil_append, this]

theorem firstVal_name (id name : Option String) (extra : List (Bytes × List Bytes)) (hp : PlainOpt name)
    (hx : ∀ a ∈ extra, escAttr a.1 ≠ idKey ∧ escAttr a.1 ≠ nameKey) :
    firstVal nameKey ((optAttr idKey id ++ optAttr nameKey name ++ extra).map escPair) = name := by
  have hskip : lookupKV nameKey ((optAttr idKey id ++ optAttr nameKey name ++ extra).map escPair) =
      lookupKV nameKey ((optAttr nameKey name ++ extra).map escPair) := by
    cases id with
    | none => rfl
    | some i =>
      have hne : ¬ (escAttr idKey = nameKey) := by rw [escAttr_idKey]; decide
      simp only [optAttr, List.cons_append, List.nil_append, List.map_cons, escPair]
      conv => lhs; unfold lookupKV
      rw [if_neg hne]
  unfold firstVal
  rw [hskip]
  cases name with
  | some n =>
    simp only [optAttr, List.cons_append, List.nil_append, List.map_cons, escPair, escAttr_nameKey, List.map_nil,
      escAttr_plain _ (hp n rfl), lookupKV, if_true, bytesToString_stringToBytes]
  | none =>
    have : lookupKV nameKey (extra.map escPair) = none := lookupKV_absent nameKey extra (fun a ha => (hx a ha).2)
    have e : optAttr nameKey (none : Option String) = [] := rfl
    rw [e, List.nil_append, this]

/-- **one feature**: the written row, read by the text reader and converted, is the row -/
theorem featToRow_toFeature (seqid source : Bytes) (dot : Bool) (extra : List (Bytes × List Bytes)) (r : GffRow)
    (h : GffRowOk seqid source dot extra r) :
    featToRow (rowToText seqid source dot extra r).toFeature = some r := by
  obtain ⟨_, hid, hname, hx⟩ := h
  have hph : ((rowToText seqid source dot extra r).phase.getD 0) = r.phase := by
    simp only [rowToText]
    split
    · rename_i hc
      simp only [Option.getD_none]
      exact hc.2.1.symm
    · rfl
  have hattrs : (rowToText seqid source dot extra r).toFeature.attrs =
      (optAttr idKey r.id ++ optAttr nameKey r.name ++ extra).map escPair := rfl
  unfold featToRow
  have hs : ¬ ((rowToText seqid source dot extra r).toFeature.start < 0 ∨ (rowToText seqid source dot extra r).toFeature.stop < 0) := by
    simp only [Row.toFeature, rowToText]
    omega
  rw [if_neg hs, hattrs, firstVal_id r.id r.name extra hid hx, firstVal_name r.id r.name extra hname hx]
  simp only [Row.toFeature, hph]
  cases r with
  | mk t a b st ph i n =>
    simp [rowToText, bytesToString_stringToBytes]

theorem mapM_roundtrip {α β : Type} (f : β → Option α) (g : α → β) : ∀ (l : List α), (∀ x ∈ l, f (g x) = some x) →
    (l.map g).mapM f = some l := by
  intro l
  induction l with
  | nil => intro _; rfl
  | cons a t ih =>
    intro h
    simp only [List.map_cons, List.mapM_cons, h a List.mem_cons_self,
      ih (fun x hx => h x (List.mem_cons_of_mem _ hx))]
    rfl

/-- **gff_from_bytes** - the text written for a non-empty list of well-formed rows (any version word, any line ends,
final line end or not) is read back as exactly those rows, and no FASTA section -/
theorem gffRowsOfText_renderText (crlf finalEol : Bool) (ver seqid source : Bytes) (dot : Bool)
    (extra : List (Bytes × List Bytes)) (rows : List GffRow) (hv : VerOk ver) (hne : rows ≠ [])
    (h : ∀ r ∈ rows, GffRowOk seqid source dot extra r) :
    gffRowsOfText (renderText crlf finalEol (GffText.renderLines ver (rowsToText seqid source dot extra rows))) =
      some (rows, none) := by
  unfold gffRowsOfText
  rw [GffRT.gff_roundtrip crlf finalEol ver (rowsToText seqid source dot extra rows) hv
    (by unfold rowsToText; simpa using hne)
    (by
      intro x hx
      unfold rowsToText at hx
      obtain ⟨r, hr, rfl⟩ := List.mem_map.1 hx
      exact (h r hr).1)]
  simp only [GffRT.expected, rowsToText, List.map_map]
  have := mapM_roundtrip featToRow (Row.toFeature ∘ rowToText seqid source dot extra) rows
    (fun r hr => featToRow_toFeature seqid source dot extra r (h r hr))
  rw [this]
  rfl

/-- the canonical layout (LF after every line) -/
theorem gffRowsOfText_render (ver seqid source : Bytes) (dot : Bool) (extra : List (Bytes × List Bytes))
    (rows : List GffRow) (hv : VerOk ver) (hne : rows ≠ []) (h : ∀ r ∈ rows, GffRowOk seqid source dot extra r) :
    gffRowsOfText (GffText.render ver (rowsToText seqid source dot extra rows)) = some (rows, none) := by
  rw [GffRT.render_eq_renderText]
  exact gffRowsOfText_renderText false true ver seqid source dot extra rows hv hne h


/-- `GffRowOk` in elementary terms, for a file without other tags: conditions on the row itself -/
theorem gffRowOk_of (seqid source : Bytes) (dot : Bool) (r : GffRow)
    (hsid : GffText.seqidOk seqid = true) (hsrc : GffRT.FieldOk source) (htype : GffRT.FieldOk (stringToBytes r.type))
    (hst : r.start ≤ Csv.maxInt64) (hen : r.stop ≤ Csv.maxInt64)
    (hstrand : GffText.strandOk (stringToBytes r.strand) = true) (hph : r.phase ≤ 2)
    (hattr : r.id ≠ none ∨ r.name ≠ none) (hid : PlainOpt r.id) (hname : PlainOpt r.name)
    (hlen : (GffText.renderRow (rowToText seqid source dot [] r)).length + 1 < GffText.maxToken) :
    GffRowOk seqid source dot [] r := by
  refine ⟨⟨hsid, hsrc, htype, hst, hen, ?_, hstrand, ?_, ?_, ?_, ?_, hlen⟩, hid, hname, fun a ha => by cases ha⟩
  · intro b hb
    simp only [rowToText, List.mem_cons, List.not_mem_nil, or_false] at hb
    omega
  · constructor
    · intro hnone
      simp only [rowToText] at hnone ⊢
      split at hnone
      · rename_i hc; exact hc.2.2
      · cases hnone
    · simp only [rowToText]
      split
      · simp
      · simpa using hph
  · simp only [rowToText, List.append_nil]
    rcases hattr with h | h
    · cases hi : r.id with
      | none => exact absurd hi h
      | some i => simp [optAttr]
    · cases hn : r.name with
      | none => exact absurd hn h
      | some n => cases r.id <;> simp [optAttr]
  · intro a ha
    simp only [rowToText, List.append_nil] at ha
    rcases List.mem_append.1 ha with ha | ha
    · cases hi : r.id with
      | none => rw [hi] at ha; cases ha
      | some i =>
        rw [hi] at ha
        simp only [optAttr, List.mem_cons, List.not_mem_nil, or_false] at ha
        subst ha; simp
    · cases hn : r.name with
      | none => rw [hn] at ha; cases ha
      | some n =>
        rw [hn] at ha
        simp only [optAttr, List.mem_cons, List.not_mem_nil, or_false] at ha
        subst ha; simp
  · simp only [rowToText, List.append_nil]
    cases r.id <;> cases r.name <;> simp [optAttr, escAttr_idKey, escAttr_nameKey] <;> decide

/-! ### the annotation theorems on bytes -/

open Gofasta.Lemmas.RegionEquiv (Gene cdsRows AllDescribe)

/-- RegionsFromGFF on the bytes of a GFF3 file and the degapped reference ; none = error -/
def regionsFromGffText (text : List Nat) (ref : List Nat) : Option (List Region × List Nat) :=
  match gffRowsOfText text with
  | some (rows, _) => regionsFromGFF rows ref
  | none => none

theorem regionsFromGffText_of_rows (text : List Nat) (rows : List GffRow) (fa : Option (List (Bytes × GffText.FaRecord)))
    (ref : List Nat) (h : gffRowsOfText text = some (rows, fa)) : regionsFromGffText text ref = regionsFromGFF rows ref := by
  unfold regionsFromGffText
  rw [h]

/-- **gff_annotation_from_bytes** - `RegionEquiv.gff_annotation` for the bytes of a GFF3 file: the file written (any
line ends) for well-formed rows whose CDS rows are the conformant rows of `genes` (other rows - gene, mRNA, exon -
may be interleaved) yields the regions of the genes, stably sorted by smallest position, and their intergenic list -/
theorem gff_annotation_from_bytes_layout (crlf finalEol : Bool) (ver seqid source : Bytes) (dot : Bool)
    (extra : List (Bytes × List Bytes)) (rows : List GffRow) (genes : List Gene) (ref : List Nat)
    (hv : VerOk ver) (hne0 : rows ≠ []) (hok : ∀ r ∈ rows, GffRowOk seqid source dot extra r)
    (hrows : cdsRows rows = genes.flatMap Gene.rows)
    (hoff : ∀ g ∈ genes, g.Offset) (hst : ∀ g ∈ genes, g.AscStarts) (hf : ∀ g ∈ genes, g.Faithful ref)
    (hnd : (genes.map Gene.name).Nodup) (hne : ∀ g ∈ genes, g.name ≠ "") :
    regionsFromGffText (renderText crlf finalEol (GffText.renderLines ver (rowsToText seqid source dot extra rows))) ref =
      some (sortStable regionStartLt (genes.map Gene.region),
        codes (sortStable regionStartLt (genes.map Gene.region)) ref.length) := by
  rw [regionsFromGffText_of_rows _ rows none ref
    (gffRowsOfText_renderText crlf finalEol ver seqid source dot extra rows hv hne0 hok)]
  exact RegionEquiv.gff_annotation rows genes ref hrows hoff hst hf hnd hne

/-- the canonical layout -/
theorem gff_annotation_from_bytes (ver seqid source : Bytes) (dot : Bool)
    (extra : List (Bytes × List Bytes)) (rows : List GffRow) (genes : List Gene) (ref : List Nat)
    (hv : VerOk ver) (hne0 : rows ≠ []) (hok : ∀ r ∈ rows, GffRowOk seqid source dot extra r)
    (hrows : cdsRows rows = genes.flatMap Gene.rows)
    (hoff : ∀ g ∈ genes, g.Offset) (hst : ∀ g ∈ genes, g.AscStarts) (hf : ∀ g ∈ genes, g.Faithful ref)
    (hnd : (genes.map Gene.name).Nodup) (hne : ∀ g ∈ genes, g.name ≠ "") :
    regionsFromGffText (GffText.render ver (rowsToText seqid source dot extra rows)) ref =
      some (sortStable regionStartLt (genes.map Gene.region),
        codes (sortStable regionStartLt (genes.map Gene.region)) ref.length) := by
  rw [GffRT.render_eq_renderText]
  exact gff_annotation_from_bytes_layout false true ver seqid source dot extra rows genes ref hv hne0 hok hrows hoff hst hf hnd hne

/-- **annotation_equiv_from_bytes** - `RegionEquiv.annotation_equiv` with the GFF rows replaced by what is read from
the written file: the GFF route on the BYTES returns the region list of the GenBank route, stably sorted by smallest
position, and the same intergenic list -/
theorem annotation_equiv_from_bytes (ver seqid source : Bytes) (dot : Bool) (extra : List (Bytes × List Bytes))
    (fs : List GbFeature) (rows : List GffRow) (genes : List Gene) (ref : List Nat)
    (hv : VerOk ver) (hne0 : rows ≠ []) (hok : ∀ r ∈ rows, GffRowOk seqid source dot extra r)
    (hfs : AllDescribe fs genes) (hrows : cdsRows rows = genes.flatMap Gene.rows)
    (hoff : ∀ g ∈ genes, g.Offset) (hst : ∀ g ∈ genes, g.AscStarts) (hor : ∀ g ∈ genes, g.Oriented) (hf : ∀ g ∈ genes, g.Faithful ref)
    (hnd : (genes.map Gene.name).Nodup) (hne : ∀ g ∈ genes, g.name ≠ "")
    (rsB interB : _) (hB : regionsFromGenbank fs ref.length = some (rsB, interB))
    (rsF interF : _)
    (hF : regionsFromGffText (GffText.render ver (rowsToText seqid source dot extra rows)) ref = some (rsF, interF)) :
    rsB = genes.map Gene.region ∧ rsF = sortStable regionStartLt rsB ∧ rsF.Perm rsB ∧ interF = interB := by
  rw [regionsFromGffText_of_rows _ rows none ref
    (gffRowsOfText_render ver seqid source dot extra rows hv hne0 hok)] at hF
  exact RegionEquiv.annotation_equiv fs rows genes ref hfs hrows hoff hst hor hf hnd hne rsB interB hB rsF interF hF

/-- **variants_equiv_from_bytes** - hence the mutation records reported with the annotation read from the GFF3 bytes
are those reported with the GenBank annotation, for every (reference row, query row) pair -/
theorem variants_equiv_from_bytes (ver seqid source : Bytes) (dot : Bool) (extra : List (Bytes × List Bytes))
    (fs : List GbFeature) (rows : List GffRow) (genes : List Gene) (ref : List Nat)
    (hv : VerOk ver) (hne0 : rows ≠ []) (hok : ∀ r ∈ rows, GffRowOk seqid source dot extra r)
    (hfs : AllDescribe fs genes) (hrows : cdsRows rows = genes.flatMap Gene.rows)
    (hoff : ∀ g ∈ genes, g.Offset) (hst : ∀ g ∈ genes, g.AscStarts) (hor : ∀ g ∈ genes, g.Oriented) (hf : ∀ g ∈ genes, g.Faithful ref)
    (hnd : (genes.map Gene.name).Nodup) (hne : ∀ g ∈ genes, g.name ≠ "")
    (rsB : List Region) (interB : List Nat) (hB : regionsFromGenbank fs ref.length = some (rsB, interB))
    (rsF : List Region) (interF : List Nat)
    (hF : regionsFromGffText (GffText.render ver (rowsToText seqid source dot extra rows)) ref = some (rsF, interF))
    (refRow qRow : List Nat) (v : Variant) :
    v ∈ getVariantsPair refRow qRow rsF interF ↔ v ∈ getVariantsPair refRow qRow rsB interB := by
  rw [regionsFromGffText_of_rows _ rows none ref
    (gffRowsOfText_render ver seqid source dot extra rows hv hne0 hok)] at hF
  exact RegionEquiv.variants_equiv fs rows genes ref hfs hrows hoff hst hor hf hnd hne rsB interB hB rsF interF hF refRow qRow v

/-- both routes succeed on the bytes (the hypotheses hB, hF above are not vacuous) -/
theorem both_succeed_from_bytes (ver seqid source : Bytes) (dot : Bool) (extra : List (Bytes × List Bytes))
    (fs : List GbFeature) (rows : List GffRow) (genes : List Gene) (ref : List Nat)
    (hv : VerOk ver) (hne0 : rows ≠ []) (hok : ∀ r ∈ rows, GffRowOk seqid source dot extra r)
    (hfs : AllDescribe fs genes) (hrows : cdsRows rows = genes.flatMap Gene.rows)
    (hoff : ∀ g ∈ genes, g.Offset) (hst : ∀ g ∈ genes, g.AscStarts) (hor : ∀ g ∈ genes, g.Oriented) (hf : ∀ g ∈ genes, g.Faithful ref)
    (hnd : (genes.map Gene.name).Nodup) (hne : ∀ g ∈ genes, g.name ≠ "") :
    (regionsFromGenbank fs ref.length).isSome = true ∧
    (regionsFromGffText (GffText.render ver (rowsToText seqid source dot extra rows)) ref).isSome = true := by
  rw [regionsFromGffText_of_rows _ rows none ref
    (gffRowsOfText_render ver seqid source dot extra rows hv hne0 hok)]
  exact RegionEquiv.both_succeed fs rows genes ref hfs hrows hoff hst hor hf hnd hne

/-! ### non-vacuity: a concrete GFF3 file (a gene line, then the three CDS lines of the two genes of `RegionEquiv`) -/

def exSeqid : Bytes := [114, 101, 102]
def exSource : Bytes := [118]
def exGeneRow : GffRow := ⟨"gene", 2, 14, "+", 0, some "gene-A", some "A"⟩
def exRows : List GffRow := exGeneRow :: [RegionEquiv.nvA, RegionEquiv.nvB].flatMap Gene.rows

/-- the bytes of the file -/
example : bytesToString (GffText.render [51] (rowsToText exSeqid exSource true [] exRows)) =
    "##gff-version 3\n" ++
    "ref\tv\tgene\t2\t14\t.\t+\t.\tID=gene-A;Name=A\n" ++
    "ref\tv\tCDS\t2\t8\t.\t+\t1\tID=cds-A;Name=A\n" ++
    "ref\tv\tCDS\t12\t14\t.\t+\t0\tID=cds-A;Name=A\n" ++
    "ref\tv\tCDS\t18\t26\t.\t-\t0\tID=cds-B;Name=B\n" := by decide +kernel

theorem exRows_ok : ∀ r ∈ exRows, GffRowOk exSeqid exSource true [] r := by decide +kernel

theorem exRows_cds : cdsRows exRows = [RegionEquiv.nvA, RegionEquiv.nvB].flatMap Gene.rows := by decide +kernel

/-- the reader on these bytes -/
example : gffRowsOfText (GffText.render [51] (rowsToText exSeqid exSource true [] exRows)) = some (exRows, none) :=
  gffRowsOfText_render [51] exSeqid exSource true [] exRows GffRT.sampleVer_ok (by decide) exRows_ok

/-- the theorem applies: the regions built from the BYTES of the GFF3 file are those built from the GenBank features -/
example : regionsFromGffText (GffText.render [51] (rowsToText exSeqid exSource true [] exRows)) RegionEquiv.nvRef =
    regionsFromGenbank RegionEquiv.nvFs RegionEquiv.nvRef.length := by
  obtain ⟨h1, h2, h3, h4, h5, h6, h7⟩ := RegionEquiv.nv_hyps
  rw [regionsFromGffText_of_rows _ exRows none _
    (gffRowsOfText_render [51] exSeqid exSource true [] exRows GffRT.sampleVer_ok (by decide) exRows_ok)]
  exact RegionEquiv.annotation_equal_of_sorted RegionEquiv.nvFs exRows [RegionEquiv.nvA, RegionEquiv.nvB] RegionEquiv.nvRef h1
    exRows_cds h2 RegionEquiv.nv_ascStarts (fun g hg => RegionEquiv.oriented_of_asc_faithful g RegionEquiv.nvRef (h3 g hg) (h4 g hg)) h4 h5 h6 h7

/-- and by plain evaluation of the text reader and the region builder -/
example : (regionsFromGffText (GffText.render [51] (rowsToText exSeqid exSource true [] exRows)) RegionEquiv.nvRef).map
      (fun x => (x.1.map (fun r => (r.name, r.strand, r.positions)), x.2)) =
    some ([("A", 1, [3, 4, 5, 6, 7, 8, 12, 13, 14]), ("B", -1, [26, 25, 24, 23, 22, 21, 20, 19, 18])],
      [1, 2, 9, 10, 11, 15, 16, 17, 27, 28]) := by decide +kernel

end Gff


/-! ## (3) the FASTA section of a GFF3 file: GffText's reader and the FASTA model `readFastaList` -/

section Fasta
open Gofasta.Model.GffText (FaSt FaRecord faStep faLoop faFinish faRec firstFieldU fields fieldsAux spaceLen Err)

/-- no byte that starts a multi-byte white-space character of unicode.IsSpace (U+0085, U+00A0 start with 0xC2 ;
U+1680 with 0xE1 ; U+2000..U+200A, U+2028, U+2029, U+202F, U+205F with 0xE2 ; U+3000 with 0xE3). Every ASCII text
(bytes below 128) qualifies. -/
def NoWideSpace (d : List Nat) : Prop := ∀ b ∈ d, b ≠ 0xC2 ∧ b ≠ 0xE1 ∧ b ≠ 0xE2 ∧ b ≠ 0xE3

instance (d : List Nat) : Decidable (NoWideSpace d) := by unfold NoWideSpace; infer_instance

theorem noWideSpace_of_ascii (d : List Nat) (h : ∀ b ∈ d, b < 128) : NoWideSpace d := by
  intro b hb
  have := h b hb
  omega

theorem spaceLen_narrow (b : Nat) (t : List Nat) (h : b ≠ 0xC2 ∧ b ≠ 0xE1 ∧ b ≠ 0xE2 ∧ b ≠ 0xE3) :
    spaceLen (b :: t) = if isSpaceB b then 1 else 0 := by
  have h2 : (b == 0xC2) = false := by simp only [beq_eq_false_iff_ne]; omega
  have h3 : (b == 0xE1) = false := by simp only [beq_eq_false_iff_ne]; omega
  have h4 : (b == 0xE2) = false := by simp only [beq_eq_false_iff_ne]; omega
  have h5 : (b == 0xE3) = false := by simp only [beq_eq_false_iff_ne]; omega
  simp only [spaceLen, isSpaceB, h2, h3, h4, h5, Bool.false_eq_true, if_false]
  split <;> simp_all

theorem dropWhile_head {α : Type} (p : α → Bool) : ∀ (l : List α) (b : α) (u : List α), l.dropWhile p = b :: u → p b = false := by
  intro l
  induction l with
  | nil => intro b u h; cases h
  | cons a t ih =>
    intro b u h
    rw [List.dropWhile_cons] at h
    by_cases ha : p a = true
    · rw [if_pos ha] at h; exact ih b u h
    · rw [if_neg ha] at h
      cases h
      simpa using ha

theorem fieldsAux_skip : ∀ (s : List Nat), NoWideSpace s →
    fieldsAux s 0 [] = fieldsAux (s.dropWhile isSpaceB) 0 [] := by
  intro s
  induction s with
  | nil => intro _; rfl
  | cons b t ih =>
    intro h
    have hb := h b List.mem_cons_self
    have ht : NoWideSpace t := fun x hx => h x (List.mem_cons_of_mem _ hx)
    by_cases hs : isSpaceB b = true
    · have e : fieldsAux (b :: t) 0 [] = fieldsAux t 0 [] := by
        rw [fieldsAux]
        simp [spaceLen_narrow b t hb, hs]
      rw [e, List.dropWhile_cons, if_pos hs]
      exact ih ht
    · rw [List.dropWhile_cons, if_neg hs]

theorem fieldsAux_first : ∀ (t cur : List Nat), NoWideSpace t →
    (cur ≠ [] ∨ ∃ b u, t = b :: u ∧ isSpaceB b = false) →
    (fieldsAux t 0 cur).head? = some (cur.reverse ++ t.takeWhile fun b => !isSpaceB b) := by
  intro t
  induction t with
  | nil =>
    intro cur _ h
    rcases h with h | ⟨b, u, e, _⟩
    · have : cur.isEmpty = false := by cases cur <;> simp_all
      simp [fieldsAux, this]
    · cases e
  | cons b u ih =>
    intro cur hn h
    have hb := hn b List.mem_cons_self
    have hu : NoWideSpace u := fun x hx => hn x (List.mem_cons_of_mem _ hx)
    by_cases hs : isSpaceB b = true
    · have hc : cur ≠ [] := by
        rcases h with h | ⟨b', u', e, hb'⟩
        · exact h
        · cases e; rw [hs] at hb'; cases hb'
      have hce : cur.isEmpty = false := by cases cur <;> simp_all
      rw [fieldsAux]
      simp [spaceLen_narrow b u hb, hs, hce]
    · have hs' : isSpaceB b = false := by simpa using hs
      have e : fieldsAux (b :: u) 0 cur = fieldsAux u 0 (b :: cur) := by
        rw [fieldsAux]
        simp [spaceLen_narrow b u hb, hs']
      rw [e, ih (b :: cur) hu (Or.inl (by simp))]
      simp [hs']

/-- **strings.Fields(d)[0] on text without wide white space** is the ASCII rule of the FASTA model -/
theorem firstFieldU_eq (d : List Nat) (h : NoWideSpace d) : firstFieldU d = firstField d := by
  unfold firstFieldU fields firstField
  rw [fieldsAux_skip d h]
  have hd : NoWideSpace (d.dropWhile isSpaceB) := fun b hb => h b ((List.dropWhile_suffix _).subset hb)
  cases ht : d.dropWhile isSpaceB with
  | nil => simp [fieldsAux]
  | cons b u =>
    have hb : isSpaceB b = false := dropWhile_head isSpaceB d b u ht
    rw [ht] at hd
    rw [fieldsAux_first (b :: u) [] hd (Or.inr ⟨b, u, rfl, hb⟩)]
    simp

/-- the hypothesis is needed: a header whose ID is followed by U+00A0 (bytes C2 A0) -/
example : firstFieldU [97, 0xC2, 0xA0, 98] = some [97] ∧ firstField [97, 0xC2, 0xA0, 98] = some [97, 0xC2, 0xA0, 98] := by
  decide +kernel


/-- a record of the FASTA model as the GFF reader returns it: the sequence decoded, no score -/
def conv (r : FaRec) : FaRecord := ⟨r.id, r.desc, r.seq.map dec, r.idx⟩

/-- the state of the FASTA model as a state of the GFF reader's copy of the loop -/
def toFa (t : RdState) : FaSt :=
  ⟨!t.started, t.id, t.desc, t.buf, t.width, t.counter, t.out.map conv⟩

/-- the error classes of the two readers: the GFF reader tells "first line is not a header" from "header without an
ID", the model has one class for both -/
def errMap : Err → RdErr
  | .faDiffLen => .diffLen
  | .faInvalid => .invalidNuc
  | .faEmpty => .empty
  | _ => .badFormat

/-- the classes correspond, with ONE exception: at a header line that both lacks an ID and closes a record of the wrong
length, the GFF reader reports the length, the model (repaired order, F-C16b) the missing ID -/
def ErrRel (e : Err) (e' : RdErr) : Prop := e' = errMap e ∨ (e = .faDiffLen ∧ e' = .badFormat)

def StepRel : Except Err FaSt → Except (List FaRec × RdErr) RdState → Prop
  | .ok s, .ok t => s = toFa t
  | .error e, .error x => ErrRel e x.2
  | _, _ => False

def ResRel : Except Err (List FaRecord) → Except (List FaRec × RdErr) (List FaRec) → Prop
  | .ok a, .ok b => a = b.map conv
  | .error e, .error x => ErrRel e x.2
  | _, _ => False

theorem faRec_toFa (t : RdState) : faRec (toFa t) = conv (mkRec t) := rfl

/-- a header line of the section: '>' followed by text without wide white space -/
def HeaderOk (line : List Nat) : Prop := ∀ d, line = 62 :: d → NoWideSpace d

instance (line : List Nat) : Decidable (HeaderOk line) := by
  unfold HeaderOk
  cases line with
  | nil => exact isTrue (fun d h => by cases h)
  | cons b t =>
    by_cases hb : b = 62
    · by_cases ht : NoWideSpace t
      · exact isTrue (fun d h => by cases h; exact ht)
      · exact isFalse (fun hh => ht (hh t (by rw [hb])))
    · exact isTrue (fun d h => by cases h; exact absurd rfl hb)


theorem errRel_map (e : Err) : ErrRel e (errMap e) := Or.inl rfl

/-- **one line**: the two state machines move together -/
theorem step_sim (t : RdState) (line : List Nat) (h : HeaderOk line) :
    StepRel (faStep (toFa t) line) (rdStep (.encoded false) t line) := by
  cases line with
  | nil => simp [faStep, rdStep, StepRel]
  | cons b d =>
    by_cases hb : b = 62
    · subst hb
      have hf := firstFieldU_eq d (h d rfl)
      unfold faStep rdStep
      simp only [hf, toFa]
      cases hst : t.started with
      | false =>
        cases hid : firstField d with
        | none => simp [StepRel, ErrRel, errMap]
        | some id => simp [StepRel, toFa]
      | true =>
        cases hid : firstField d with
        | none =>
          by_cases hw : t.counter ≠ 0 ∧ t.buf.length ≠ t.width
          · simp [StepRel, ErrRel, hw]
          · simp [StepRel, ErrRel, errMap, hw]
        | some id =>
          by_cases hw : t.counter ≠ 0 ∧ t.buf.length ≠ t.width
          · simp [StepRel, ErrRel, errMap, hw]
          · have hw' : (t.counter != 0 && t.buf.length != t.width) = false := by
              simp only [Bool.and_eq_false_iff, bne_eq_false_iff_eq]
              by_cases h0 : t.counter = 0
              · exact Or.inl h0
              · right
                false_or_by_contra
                exact hw ⟨h0, by assumption⟩
            simp only [Bool.not_true, Bool.false_eq_true, if_false, hw, hw', StepRel]
            by_cases h0 : t.counter = 0 <;> simp [toFa, faRec, conv, mkRec, h0]
    · have e1 : faStep (toFa t) (b :: d) =
          if (toFa t).first then .error .faFormat
          else match encodeLine false (b :: d) with
            | none => .error .faInvalid
            | some e => .ok { toFa t with buf := (toFa t).buf ++ e } := by
        unfold faStep
        simp only [hb, if_false]
        split <;> rfl
      have e2 : rdStep (.encoded false) t (b :: d) =
          if !t.started then .error (t.out, .badFormat)
          else match encodeLine false (b :: d) with
            | none => .error (t.out, .invalidNuc)
            | some e => .ok { t with buf := t.buf ++ e } := by
        unfold rdStep
        split
        · rename_i heq; cases heq
        · rename_i d' heq; cases heq; exact absurd rfl hb
        · rfl
      rw [e1, e2]
      cases hst : t.started with
      | false => simp [toFa, hst, StepRel, ErrRel, errMap]
      | true =>
        cases henc : encodeLine false (b :: d) with
        | none => simp [toFa, hst, StepRel, ErrRel, errMap]
        | some e => simp [toFa, hst, StepRel]

def LoopRel : Except Err FaSt → Except (List FaRec × RdErr) RdState → Prop := StepRel

/-- **all lines** -/
theorem loop_sim : ∀ (lines : List (List Nat)) (t : RdState), (∀ l ∈ lines, HeaderOk l) →
    StepRel (faLoop (toFa t) lines) (rdLines (.encoded false) t lines) := by
  intro lines
  induction lines with
  | nil => intro t _; simp [faLoop, rdLines, StepRel]
  | cons l ls ih =>
    intro t h
    have hs := step_sim t l (h l List.mem_cons_self)
    unfold faLoop rdLines
    cases h1 : faStep (toFa t) l with
    | error e =>
      cases h2 : rdStep (.encoded false) t l with
      | error x => rw [h1, h2] at hs; simpa [StepRel] using hs
      | ok t' => rw [h1, h2] at hs; simp [StepRel] at hs
    | ok s' =>
      cases h2 : rdStep (.encoded false) t l with
      | error x => rw [h1, h2] at hs; simp [StepRel] at hs
      | ok t' =>
        rw [h1, h2] at hs
        simp only [StepRel] at hs
        subst hs
        exact ih t' (fun x hx => h x (List.mem_cons_of_mem _ hx))

/-- **after the last line**: the same records ; the same error class -/
theorem finish_sim (t : RdState) : ResRel (faFinish (toFa t)) (rdFinish t) := by
  unfold faFinish rdFinish
  simp only [toFa]
  by_cases hb : t.buf.length > 0 ∨ t.counter > 0
  · have hb' : (decide (t.buf.length > 0) || decide (t.counter > 0)) = true := by
      simp only [Bool.or_eq_true, decide_eq_true_eq]
      exact hb
    simp only [hb, hb', if_true]
    by_cases hw : t.counter > 0 ∧ t.buf.length ≠ t.width
    · have hw' : (decide (t.counter > 0) && t.buf.length != t.width) = true := by
        simp only [Bool.and_eq_true, decide_eq_true_eq, bne_iff_ne, ne_eq]
        exact hw
      simp [hw, ResRel, ErrRel, errMap]
    · have hw' : (decide (t.counter > 0) && t.buf.length != t.width) = false := by
        simp only [Bool.and_eq_false_iff, decide_eq_false_iff_not, bne_eq_false_iff_eq]
        by_cases h0 : t.counter > 0
        · right
          false_or_by_contra
          exact hw ⟨h0, by assumption⟩
        · exact Or.inl h0
      simp only [hw, hw', if_false, Bool.false_eq_true, ResRel]
      simp [faRec, conv, mkRec]
  · have hb' : (decide (t.buf.length > 0) || decide (t.counter > 0)) = false := by
      simp only [Bool.or_eq_false_iff, decide_eq_false_iff_not]
      exact ⟨fun h => hb (Or.inl h), fun h => hb (Or.inr h)⟩
    simp only [hb, hb', if_false, Bool.false_eq_true]
    simp [ResRel, ErrRel, errMap]

/-- the GFF reader's FASTA loop on a list of lines -/
def gffFastaOnLines (lines : List (List Nat)) : Except Err (List FaRecord) :=
  match faLoop {} lines with
  | .ok s => faFinish s
  | .error e => .error e

/-- the FASTA model (`readFasta (.encoded false)`) on a list of lines -/
def modelFastaOnLines (lines : List (List Nat)) : Except (List FaRec × RdErr) (List FaRec) :=
  match rdLines (.encoded false) {} lines with
  | .ok s => rdFinish s
  | .error e => .error e

/-- **fasta_lines_agree** - on every list of lines whose header lines have no wide white space, the FASTA-section
reader of the GFF model and the FASTA model succeed together with the same records (sequence decoded), or fail together
with corresponding error classes -/
theorem fasta_lines_agree (lines : List (List Nat)) (h : ∀ l ∈ lines, HeaderOk l) :
    ResRel (gffFastaOnLines lines) (modelFastaOnLines lines) := by
  have hl := loop_sim lines {} h
  have e0 : toFa {} = ({} : FaSt) := rfl
  rw [e0] at hl
  unfold gffFastaOnLines modelFastaOnLines
  cases h1 : faLoop {} lines with
  | error e =>
    cases h2 : rdLines (.encoded false) {} lines with
    | error x => rw [h1, h2] at hl; simpa [StepRel, ResRel] using hl
    | ok t' => rw [h1, h2] at hl; simp [StepRel] at hl
  | ok s' =>
    cases h2 : rdLines (.encoded false) {} lines with
    | error x => rw [h1, h2] at hl; simp [StepRel] at hl
    | ok t' =>
      rw [h1, h2] at hl
      simp only [StepRel] at hl
      subst hl
      exact finish_sim t'

/-- the error of a result, if any -/
def errOf {ε α : Type} : Except ε α → Option ε
  | .error e => some e
  | .ok _ => none

/-- the exception in `ErrRel` is real: ">a / AC / >b / A / >" (third header: no ID, and record b too short) -/
example : errOf (gffFastaOnLines [[62, 97], [65, 67], [62, 98], [65], [62]]) = some .faDiffLen ∧
    (errOf (modelFastaOnLines [[62, 97], [65, 67], [62, 98], [65], [62]])).map (·.2) = some .badFormat := by
  refine ⟨by decide +kernel, by decide +kernel⟩

/-- the repaired loop end on both sides: ">a / ACGT / >b" (a last header without a sequence) is refused with
"different length sequences" by the FASTA-section reader of the GFF model and by the FASTA model; two headers and
nothing else are two records of width 0; one single header is "no record" -/
example : errOf (gffFastaOnLines [[62, 97], [65, 67, 71, 84], [62, 98]]) = some .faDiffLen ∧
    (errOf (modelFastaOnLines [[62, 97], [65, 67, 71, 84], [62, 98]])).map (·.2) = some .diffLen ∧
    (gffFastaOnLines [[62, 97], [62, 98]]).toOption = some [⟨[97], [97], [], 0⟩, ⟨[98], [98], [], 1⟩] ∧
    errOf (gffFastaOnLines [[62, 97]]) = some .faEmpty := by
  refine ⟨by decide +kernel, by decide +kernel, by decide +kernel, by decide +kernel⟩

/-- the hypothesis on headers is needed: ">" followed by U+00A0 has an ID for the model (ASCII white space only) and
none for strings.Fields -/
example : errOf (gffFastaOnLines [[62, 0xC2, 0xA0], [65]]) = some .faNoId ∧
    (modelFastaOnLines [[62, 0xC2, 0xA0], [65]]).toOption.map (·.map conv) = some [⟨[0xC2, 0xA0], [0xC2, 0xA0], [65], 0⟩] := by
  refine ⟨by decide +kernel, by decide +kernel⟩


/-! ### from lines to texts -/

theorem readFasta_lines (bytes : List Nat) : readFasta (.encoded false) bytes = modelFastaOnLines (splitLines bytes) := rfl

theorem readFastaSection_lines (lines : List (List Nat)) (hne : lines ≠ []) :
    GffText.readFastaSection lines =
      match gffFastaOnLines (lines.map dropCR) with
      | .error e => .error e
      | .ok recs => .ok (GffText.faMap recs []) := by
  have : lines.isEmpty = false := by cases lines <;> simp_all
  unfold GffText.readFastaSection gffFastaOnLines
  simp only [this, Bool.false_eq_true, if_false]
  cases faLoop {} (lines.map dropCR) <;> rfl

/-- **fasta_section_agrees** - the FASTA section of a GFF3 file (its lines as ReadGFF kept them: `splitLines ft` for
the bytes `ft` after the ##FASTA line) against the FASTA model on the same bytes. Hypotheses: the section has a line ;
no line still ends in CR after the scanner took one away (ReadGFF scans the section twice, so `\r\r\n` loses both) ;
header lines have no wide white space. Then: the model returns records iff ReadGFF does, and the GFF3 map holds those
records (decoded) ; otherwise both fail, with corresponding classes. -/
theorem fasta_section_agrees (ft : List Nat) (hne : splitLines ft ≠ [])
    (hcr : ∀ l ∈ splitLines ft, dropCR l = l) (hh : ∀ l ∈ splitLines ft, HeaderOk l) :
    match readFastaList false ft with
    | .ok recs => GffText.readFastaSection (splitLines ft) = .ok (GffText.faMap (recs.map conv) [])
    | .error e' => ∃ e, GffText.readFastaSection (splitLines ft) = .error e ∧ ErrRel e e' := by
  have hmap : (splitLines ft).map dropCR = splitLines ft := GffRT.map_id_of_forall dropCR _ hcr
  have hag := fasta_lines_agree (splitLines ft) hh
  rw [readFastaSection_lines _ hne, hmap]
  unfold readFastaList
  rw [readFasta_lines]
  cases h1 : gffFastaOnLines (splitLines ft) with
  | error e =>
    cases h2 : modelFastaOnLines (splitLines ft) with
    | error x =>
      rw [h1, h2] at hag
      obtain ⟨o, e'⟩ := x
      exact ⟨e, rfl, by simpa [ResRel] using hag⟩
    | ok b => rw [h1, h2] at hag; simp [ResRel] at hag
  | ok a =>
    cases h2 : modelFastaOnLines (splitLines ft) with
    | error x => rw [h1, h2] at hag; simp [ResRel] at hag
    | ok b =>
      rw [h1, h2] at hag
      simp only [ResRel] at hag
      subst hag
      rfl

/-! ### a GFF3 file with a FASTA section, read from its bytes -/

/-- every line followed by LF -/
def lfText (lines : List (List Nat)) : List Nat := lines.flatMap fun l => l ++ [10]

theorem splitLinesAux_lf : ∀ (lines : List (List Nat)) (rest : List Nat), (∀ l ∈ lines, ∀ b ∈ l, b ≠ 10) →
    splitLinesAux (lfText lines ++ rest) [] = lines ++ splitLinesAux rest [] := by
  intro lines
  induction lines with
  | nil => intro rest _; rfl
  | cons l t ih =>
    intro rest h
    have e : lfText (l :: t) ++ rest = l ++ 10 :: (lfText t ++ rest) := by simp [lfText]
    rw [e, splitLinesAux_line l _ [] (h l List.mem_cons_self), ih rest (fun x hx => h x (List.mem_cons_of_mem _ hx))]
    simp

theorem takeWhile_append_all {α : Type} (p : α → Bool) : ∀ (A B : List α), (∀ a ∈ A, p a = true) →
    (A ++ B).takeWhile p = A ++ B.takeWhile p := by
  intro A
  induction A with
  | nil => intro B _; rfl
  | cons a t ih =>
    intro B h
    simp only [List.cons_append, List.takeWhile_cons, h a List.mem_cons_self, if_true,
      ih B (fun x hx => h x (List.mem_cons_of_mem _ hx))]

/-- the scanner on a text that begins with LF-terminated clean short lines -/
theorem scanLines_lf (lines : List (List Nat)) (rest : List Nat)
    (h : ∀ l ∈ lines, CleanLine l ∧ l.length < GffText.maxToken) :
    GffText.scanLines (lfText lines ++ rest) = lines ++ GffText.scanLines rest := by
  unfold GffText.scanLines
  rw [splitLinesAux_lf lines rest (fun l hl => (h l hl).1.1),
    takeWhile_append_all _ _ _ (fun l hl => by simpa using (h l hl).2), List.map_append,
    GffRT.map_id_of_forall dropCR lines (fun l hl => dropCR_noCR l (h l hl).1.2)]

theorem loop_append : ∀ (a b : List (List Nat)) (s : GffText.St),
    GffText.loop s (a ++ b) = match GffText.loop s a with
      | .ok s' => GffText.loop s' b
      | .error e => .error e := by
  intro a
  induction a with
  | nil => intro b s; rfl
  | cons l t ih =>
    intro b s
    simp only [List.cons_append, GffText.loop]
    cases GffText.step s l with
    | error e => rfl
    | ok s' => exact ih b s'

theorem loop_inFasta : ∀ (ls : List (List Nat)) (s : GffText.St), s.inFasta = true →
    GffText.loop s ls = .ok { s with fasta := s.fasta ++ ls } := by
  intro ls
  induction ls with
  | nil => intro s _; simp [GffText.loop]
  | cons l t ih =>
    intro s h
    have e : GffText.step s l = .ok { s with fasta := s.fasta ++ [l] } := by
      unfold GffText.step
      simp [h]
    simp only [GffText.loop, e]
    rw [ih { s with fasta := s.fasta ++ [l] } h]
    simp

theorem loop_rendered (ver : List Nat) (rows : List GffText.Row) (hv : GffRT.VerOk ver) (hne : rows ≠ [])
    (h : ∀ r ∈ rows, GffRT.RowOk r) :
    GffText.loop {} (GffText.renderLines ver rows) = .ok (GffRT.st1 ver (rows.map GffText.Row.toFeature)) := by
  cases rows with
  | nil => exact absurd rfl hne
  | cons r t =>
    unfold GffText.renderLines
    simp only [List.map_cons, GffText.loop, GffRT.step_version, GffRT.step_first_row ver hv r (h r List.mem_cons_self)]
    rw [GffRT.loop_rows ver t [r.toFeature] (fun x hx => h x (List.mem_cons_of_mem _ hx))]
    rfl

theorem step_fastaTag (ver : List Nat) (feats : List GffText.Feature) :
    GffText.step (GffRT.st1 ver feats) GffText.fastaTag = .ok { GffRT.st1 ver feats with inFasta := true } := by
  have h1 : GffText.hasPrefix GffText.fastaTag GffText.fastaTag = true := by decide
  unfold GffText.step
  simp [GffRT.st1, h1]

/-- the bytes of a GFF3 file with a FASTA section: the canonical layout of the rows, the ##FASTA line, then `ft` -/
def renderWithFasta (ver : List Nat) (rows : List GffText.Row) (ft : List Nat) : List Nat :=
  GffText.render ver rows ++ (GffText.fastaTag ++ [10]) ++ ft

/-- the scanner's error on a text that begins with LF-terminated short lines: only the rest counts -/
theorem tooLong_lf (lines : List (List Nat)) (rest : List Nat)
    (h : ∀ l ∈ lines, CleanLine l ∧ l.length < GffText.maxToken) :
    GffText.tooLong (lfText lines ++ rest) = GffText.tooLong rest := by
  unfold GffText.tooLong
  rw [splitLinesAux_lf lines rest (fun l hl => (h l hl).1.1), List.any_append]
  have : (lines.any fun l => decide (GffText.maxToken ≤ l.length)) = false := by
    rw [List.any_eq_false]
    intro l hl
    have := (h l hl).2
    simp only [decide_eq_true_eq]
    omega
  rw [this, Bool.false_or]

/-- **gff_with_fasta** - ReadGFF on such a file: the header and features of the round-trip theorem, and for the FASTA
map whatever the section reader makes of the scanned lines of `ft`; since the repair of the reader (Scanner.Err is
looked at after the loop) a line of `maxToken` bytes or more in `ft` is reported as bufio.ErrTooLong, where the
statement before the repair had the section reader run on the lines before that line -/
theorem readGFF_withFasta (ver : List Nat) (rows : List GffText.Row) (ft : List Nat) (hv : GffRT.VerOk ver)
    (hne : rows ≠ []) (h : ∀ r ∈ rows, GffRT.RowOk r) :
    GffText.readGFF (renderWithFasta ver rows ft) =
      if GffText.tooLong ft then .error .tooLong else
      match GffText.readFastaSection (GffText.scanLines ft) with
      | .error e => .error e
      | .ok fa => .ok { GffRT.expected ver rows with fasta := fa } := by
  have etext : renderWithFasta ver rows ft = lfText (GffText.renderLines ver rows ++ [GffText.fastaTag]) ++ ft := by
    simp [renderWithFasta, GffText.render, lfText]
  have hlines : ∀ l ∈ GffText.renderLines ver rows ++ [GffText.fastaTag], CleanLine l ∧ l.length < GffText.maxToken := by
    intro l hl
    rcases List.mem_append.1 hl with hl | hl
    · unfold GffText.renderLines at hl
      rcases List.mem_cons.1 hl with e | hl
      · subst e
        have := GffRT.versionLine_clean ver hv
        exact ⟨this.1, by omega⟩
      · obtain ⟨r, hr, e⟩ := List.mem_map.1 hl
        subst e
        have := (h r hr).2.2.2.2.2.2.2.2.2.2.2
        exact ⟨GffRT.cleanLine_of _ (GffRT.renderRow_bytes r (h r hr)), by omega⟩
    · simp only [List.mem_singleton] at hl
      subst hl
      exact ⟨GffRT.cleanLine_of _ (by decide), by decide⟩
  unfold GffText.readGFF
  rw [etext, scanLines_lf _ ft hlines, tooLong_lf _ ft hlines]
  rw [List.append_assoc, loop_append, loop_rendered ver rows hv hne h]
  simp only [List.singleton_append, GffText.loop, step_fastaTag]
  rw [loop_inFasta _ _ rfl]
  cases GffText.tooLong ft
  · simp only [GffText.finish, GffRT.st1, List.nil_append, Bool.false_eq_true, if_false]
    cases GffText.readFastaSection (GffText.scanLines ft) <;> rfl
  · rfl


theorem scanLines_short (ft : List Nat) (hshort : ∀ l ∈ splitLinesAux ft [], l.length < GffText.maxToken) :
    GffText.scanLines ft = splitLines ft := by
  unfold GffText.scanLines splitLines
  rw [CsvRT.takeWhile_all]
  intro l hl
  simpa using hshort l hl

/-- **gff_fasta_from_bytes** - a GFF3 file with a FASTA section, read from its bytes, against the FASTA model
`readFastaList` run on the bytes of the section alone. Hypotheses on the section `ft`: every line fits the scanner's
buffer (else the reader reports bufio.ErrTooLong, see `GffRT.long_line_reported`), at least one line, no line ending in CR CR, header
lines without wide white space. When the model reads records, ReadGFF returns the features of the rows and exactly
those records (decoded, keyed by ID, a later record replacing an earlier one with the same ID) ; when the model
fails, ReadGFF fails with the corresponding class. -/
theorem gff_fasta_from_bytes (ver : List Nat) (rows : List GffText.Row) (ft : List Nat) (hv : GffRT.VerOk ver)
    (hne : rows ≠ []) (h : ∀ r ∈ rows, GffRT.RowOk r)
    (hshort : ∀ l ∈ splitLinesAux ft [], l.length < GffText.maxToken) (hne' : splitLines ft ≠ [])
    (hcr : ∀ l ∈ splitLines ft, dropCR l = l) (hh : ∀ l ∈ splitLines ft, HeaderOk l) :
    match readFastaList false ft with
    | .ok recs => GffText.readGFF (renderWithFasta ver rows ft) =
        .ok { GffRT.expected ver rows with fasta := GffText.faMap (recs.map conv) [] }
    | .error e' => ∃ e, GffText.readGFF (renderWithFasta ver rows ft) = .error e ∧ ErrRel e e' := by
  have hs := fasta_section_agrees ft hne' hcr hh
  rw [readGFF_withFasta ver rows ft hv hne h, GffRT.tooLong_false_of_short ft hshort, scanLines_short ft hshort]
  simp only [Bool.false_eq_true, if_false]
  cases hm : readFastaList false ft with
  | ok recs =>
    rw [hm] at hs
    simp only [] at hs ⊢
    rw [hs]
  | error e' =>
    rw [hm] at hs
    simp only [] at hs ⊢
    obtain ⟨e, he, hr⟩ := hs
    exact ⟨e, by rw [he], hr⟩

/-- the same for structured rows: what the region builder gets from the bytes of a GFF3 file with a FASTA section -/
theorem gffRowsOfText_withFasta (ver seqid source : Bytes) (dot : Bool) (extra : List (Bytes × List Bytes))
    (rows : List GffRow) (ft : List Nat) (recs : List FaRec) (hv : GffRT.VerOk ver) (hne : rows ≠ [])
    (h : ∀ r ∈ rows, GffRowOk seqid source dot extra r)
    (hshort : ∀ l ∈ splitLinesAux ft [], l.length < GffText.maxToken) (hne' : splitLines ft ≠ [])
    (hcr : ∀ l ∈ splitLines ft, dropCR l = l) (hh : ∀ l ∈ splitLines ft, HeaderOk l)
    (hm : readFastaList false ft = .ok recs) :
    gffRowsOfText (renderWithFasta ver (rowsToText seqid source dot extra rows) ft) =
      some (rows, if (GffText.faMap (recs.map conv) []).isEmpty then none else some (GffText.faMap (recs.map conv) [])) := by
  have hg := gff_fasta_from_bytes ver (rowsToText seqid source dot extra rows) ft hv
    (by unfold rowsToText; simpa using hne)
    (by
      intro x hx
      unfold rowsToText at hx
      obtain ⟨r, hr, rfl⟩ := List.mem_map.1 hx
      exact (h r hr).1) hshort hne' hcr hh
  rw [hm] at hg
  simp only [] at hg
  unfold gffRowsOfText
  rw [hg]
  simp only [GffRT.expected, rowsToText, List.map_map]
  have := mapM_roundtrip featToRow (GffText.Row.toFeature ∘ rowToText seqid source dot extra) rows
    (fun r hr => featToRow_toFeature seqid source dot extra r (h r hr))
  rw [this]
  rfl

/-! ### non-vacuity: the GFF3 file of part (2) followed by its reference as a FASTA section of two lines -/

/-- ">ref the reference" / "CCATGAAAGGGTAA" / "CCCTTATTTCATCC" -/
def exFasta : List Nat :=
  stringToBytes ">ref the reference\nCCATGAAAGGGTAA\nCCCTTATTTCATCC\n"

theorem exFasta_hyps : (∀ l ∈ splitLinesAux exFasta [], l.length < GffText.maxToken) ∧ splitLines exFasta ≠ [] ∧
    (∀ l ∈ splitLines exFasta, dropCR l = l) ∧ (∀ l ∈ splitLines exFasta, HeaderOk l) := by
  refine ⟨by decide +kernel, by decide +kernel, by decide +kernel, by decide +kernel⟩

/-- the FASTA model on the section: one record, the two lines joined -/
theorem exFasta_model : (readFastaList false exFasta).toOption.map (·.map conv) =
    some [⟨stringToBytes "ref", stringToBytes "ref the reference", RegionEquiv.nvRef, 0⟩] := by decide +kernel

/-- the theorem applies: the rows and the reference are read from the bytes of the one file -/
example : ∃ recs, readFastaList false exFasta = .ok recs ∧
    gffRowsOfText (renderWithFasta [51] (rowsToText exSeqid exSource true [] exRows) exFasta) =
      some (exRows, some [(stringToBytes "ref", ⟨stringToBytes "ref", stringToBytes "ref the reference", RegionEquiv.nvRef, 0⟩)]) := by
  cases hm : readFastaList false exFasta with
  | error e =>
    have := exFasta_model
    rw [hm] at this
    simp [Except.toOption] at this
  | ok recs =>
    refine ⟨recs, rfl, ?_⟩
    have hc : recs.map conv = [⟨stringToBytes "ref", stringToBytes "ref the reference", RegionEquiv.nvRef, 0⟩] := by
      have := exFasta_model
      rw [hm] at this
      simpa [Except.toOption] using this
    obtain ⟨h1, h2, h3, h4⟩ := exFasta_hyps
    rw [gffRowsOfText_withFasta [51] exSeqid exSource true [] exRows exFasta recs GffRT.sampleVer_ok (by decide) exRows_ok
      h1 h2 h3 h4 hm, hc]
    rfl

end Fasta

end Gofasta.Lemmas.FromBytes
