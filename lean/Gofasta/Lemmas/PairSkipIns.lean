import Gofasta.Lemmas.PairMulti
/-
C02, the skip-insertions branch of `sam toPairAlign` for every block:
 (1) the query row of the paired no-insertion walk is the toMultiAlign walk (no hypothesis at all),
 (2) `pairOfBlock block ref true = specPairNoIns block ref` for every non-empty block of well-formed records,
 (3) the closed statement for the whole command, and the combined statement over both values of `omitIns`.
-/
namespace Gofasta.Lemmas.PairSkipIns
open Gofasta Model Spec Gofasta.Props.C01 Gofasta.Props.C02 Gofasta.Lemmas

/-! ### Part 1 — two operator tables with the same query columns write the same query row -/

/-- the columns of an operator entry that decide the query row: operator, the two consumption flags, query-row kind -/
def qPart (e : Nat × Bool × Bool × Nat × Nat) : Nat × Bool × Bool × Nat := (e.1, e.2.1, e.2.2.1, e.2.2.2.1)

/-- the same for a looked-up entry (the operator itself is the key) -/
def qPart' (x : Bool × Bool × Nat × Nat) : Bool × Bool × Nat := (x.1, x.2.1, x.2.2.1)

/-- two tables that agree on the query columns give, for every operator, look-ups that agree on them -/
theorem opEntry_qPart : ∀ (t1 t2 : List (Nat × Bool × Bool × Nat × Nat)), t1.map qPart = t2.map qPart → ∀ (op : Nat),
    (opEntry t1 op).map qPart' = (opEntry t2 op).map qPart' := by
  intro t1
  induction t1 with
  | nil =>
    intro t2 h op
    cases t2 with
    | nil => rfl
    | cons b t2 => simp at h
  | cons a t1 ih =>
    intro t2 h op
    cases t2 with
    | nil => simp at h
    | cons b t2 =>
      simp only [List.map_cons, List.cons.injEq] at h
      obtain ⟨hab, ht⟩ := h
      have h1 : a.1 = b.1 := congrArg (fun x : Nat × Bool × Bool × Nat => x.1) hab
      have ih' := ih t2 ht op
      unfold opEntry at ih' ⊢
      simp only [List.find?_cons]
      rw [← h1]
      by_cases hop : (a.1 == op) = true
      · simp only [hop, Option.map_some]
        simp only [qPart, Prod.mk.injEq] at hab
        simp only [qPart', hab]
      · simp only [hop]
        exact ih'

/-- the query-row kinds (0 nothing, 1 query bases, 2 '-', 3 '*') never read the reference -/
theorem emit_ref_indep (k len q r : Nat) (seq ref1 ref2 : List Nat) (hk : k ≠ 4) :
    emit k len q r seq ref1 = emit k len q r seq ref2 := by
  unfold emit
  split
  · rfl
  · rfl
  · rfl
  · exact absurd rfl hk
  · rfl

/-- **the query row depends only on the query columns of the table**: whatever the reference rows given to the
two walks, whatever the reference-row kinds -/
theorem walkOps_query_row (t1 t2 : List (Nat × Bool × Bool × Nat × Nat)) (h : t1.map qPart = t2.map qPart)
    (hk : ∀ e ∈ t1, e.2.2.2.1 ≠ 4) (seq ref1 ref2 : List Nat) : ∀ (cigar : List (Nat × Nat)) (q r : Nat),
    (walkOps t1 seq ref1 cigar q r).1 = (walkOps t2 seq ref2 cigar q r).1 := by
  intro cigar
  induction cigar with
  | nil => intro q r; rfl
  | cons c rest ih =>
    intro q r
    obtain ⟨op, len⟩ := c
    simp only [walkOps]
    have hp := opEntry_qPart t1 t2 h op
    cases h1 : opEntry t1 op with
    | none =>
      cases h2 : opEntry t2 op with
      | none => simp only []; exact ih q r
      | some y => rw [h1, h2] at hp; simp at hp
    | some x =>
      cases h2 : opEntry t2 op with
      | none => rw [h1, h2] at hp; simp at hp
      | some y =>
        obtain ⟨cq, cr, ek, rk⟩ := x
        obtain ⟨cq', cr', ek', rk'⟩ := y
        rw [h1, h2] at hp
        simp only [Option.map_some, Option.some.injEq, qPart', Prod.mk.injEq] at hp
        obtain ⟨rfl, rfl, rfl⟩ := hp
        have hek : ek ≠ 4 := hk _ (opEntry_mem h1)
        simp only []
        rw [ih, emit_ref_indep ek len q r seq ref1 ref2 hek]

/-- the two generated no-insertion tables (paired: `cigarTab2`, toMultiAlign: `cigarTab0`) have the same query columns -/
theorem tabs_query_columns : Gen.cigarTab2.map qPart = Gen.cigarTab0.map qPart := by
  rw [op_table_noins_is_sam, op_table_is_sam]
  exact query_rows_agree

theorem tab2_query_kinds : ∀ e ∈ Gen.cigarTab2, e.2.2.2.1 ≠ 4 := by decide

/-- **C02.skip_insertions_row (1)** — for EVERY record and EVERY reference (no well-formedness, no condition on the
reference bytes): the query row of the paired no-insertion walk, right-padded with no-coverage marks to the reference
length, is the row `toMultiAlign` walks for the same record -/
theorem walkWithRef_noIns_query (r : SamRec) (ref : List Nat) : (walkWithRef r ref false).1 = walkNoIns r ref.length := by
  unfold walkWithRef walkNoIns
  simp only [Bool.false_eq_true, if_false]
  rw [walkOps_query_row Gen.cigarTab2 Gen.cigarTab0 tabs_query_columns tab2_query_kinds r.seq ref [] r.cigar 0 r.pos]

/-- the form asked for, with the (unused) well-formedness hypothesis -/
theorem walkWithRef_noIns_query_wf (r : SamRec) (ref : List Nat) (_h : WFSamRec r ref.length) :
    (walkWithRef r ref false).1 = walkNoIns r ref.length := walkWithRef_noIns_query r ref

/-! ### Part 2 — one block -/

/-- `seqFromBlock` special-cases a single record, but flattening a single row changes nothing: the special case is
not observable, for any block (the empty one included) -/
theorem flattenRows_walks (block : List SamRec) (L : Nat) :
    flattenRows (block.map fun r => walkNoIns r L) = seqFromBlock block L := by
  unfold seqFromBlock
  split
  · simp only [List.map_cons, List.map_nil]
    exact flattenRows_single _
  · rfl

/-- the model's skip-insertions pair is the reference next to the padded toMultiAlign row of the model, for every
block and reference -/
theorem pairOfBlock_skipIns_model (block : List SamRec) (ref : List Nat) :
    pairOfBlock block ref true = (ref, swapInNs (seqFromBlock block ref.length)) := by
  unfold pairOfBlock
  simp only [if_true]
  have hf : (fun r => (walkWithRef r ref false).1) = fun r => walkNoIns r ref.length :=
    funext fun r => walkWithRef_noIns_query r ref
  rw [hf, flattenRows_walks]

/-- **C02.skip_insertions_block (2)** — every non-empty block of well-formed records, any reference bytes:
the pair written with skip-insertions is the specification's pair -/
theorem pairOfBlock_skipIns (block : List SamRec) (ref : List Nat) (hne : block ≠ [])
    (hwf : ∀ r ∈ block, WFSamRec r ref.length) : pairOfBlock block ref true = specPairNoIns block ref := by
  rw [pairOfBlock_skipIns_model]
  unfold specPairNoIns
  rw [seqFromBlock_starRow block ref.length hne hwf, swapNs_starRow block ref.length (flatCol_ne_star block ref.length hwf)]

/-- the link to C01 in one line: the query row of the skip-insertions pair is what `toMultiAlign --pad` writes for
the same block (no window) -/
theorem pairOfBlock_skipIns_is_toma_pad (block : List SamRec) (ref : List Nat) (s e : Nat) :
    (pairOfBlock block ref true).2 = fastaRecordSeq (seqFromBlock block ref.length) false true s e := by
  rw [pairOfBlock_skipIns_model]
  simp [fastaRecordSeq]

/-- lengths: both rows have the length of the reference -/
theorem pairOfBlock_skipIns_lengths (block : List SamRec) (ref : List Nat) (hne : block ≠ [])
    (hwf : ∀ r ∈ block, WFSamRec r ref.length) :
    (pairOfBlock block ref true).1 = ref ∧ (pairOfBlock block ref true).2.length = ref.length := by
  rw [pairOfBlock_skipIns block ref hne hwf]
  simp [specPairNoIns, specTomaRow]

/-! ### Part 3 — the whole command -/

theorem blocks_wf (ref : List Nat) (recs : List SamRec) (hwf : ∀ r ∈ recs, isSkipped r = false → WFSamRec r ref.length)
    (b : List SamRec) (hb : b ∈ samBlocks recs) : b ≠ [] ∧ ∀ r ∈ b, WFSamRec r ref.length := by
  refine ⟨groupRecs_ne_nil _ b hb, ?_⟩
  intro r hr
  have hm := groupRecs_mem _ b hb r hr
  have := List.mem_filter.1 hm
  exact hwf r this.1 (by simpa using this.2)

/-- the number of reference-base columns of the skip-insertions pair -/
theorem noIns_cols (b : List SamRec) (ref : List Nat) :
    ((((specPairNoIns b ref).1.zip (List.range (specPairNoIns b ref).1.length)).filter fun (c, _) => c != dash)).length =
      (degap ref).length := by
  rw [PairMulti.filter_zip_fst (fun c => c != dash) _ _ (by simp)]
  rfl

/-- **C02.toPairAlign (skip-insertions), model window** — no condition on the reference at all: one text per query,
in input order, holding the specified pair, cut by the model's own window function when a window is given -/
theorem toPairAlign_skipIns_modelWindow (ref : List Nat) (refName : String) (start stop wrap : Int) (omitRef : Bool)
    (recs : List SamRec) (s e : Nat) (trim : Bool) (hargs : checkArgs ref.length start stop = some (s, e, trim))
    (hwf : ∀ r ∈ recs, isSkipped r = false → WFSamRec r ref.length) :
    toPairAlign ref refName start stop wrap omitRef true recs =
      some ((samBlocks recs).map fun b =>
        ((b.headD default).name, pairText wrap refName (b.headD default).name omitRef
          (if trim then trimPair (specPairNoIns b ref) s e else specPairNoIns b ref))) := by
  unfold toPairAlign
  rw [hargs]
  simp only [Option.some.injEq]
  apply List.map_congr_left
  intro b hb
  obtain ⟨hne, hbw⟩ := blocks_wf ref recs hwf b hb
  simp only [pairOfBlock_skipIns b ref hne hbw]

/-- **C02.toPairAlign (skip-insertions) (3)** — for every SAM file whose retained records fit the reference and carry
letters, every accepted window: one text per query, in input order, holding the specified pair cut from the column of
reference base s to that of base e. The only condition on the reference: when a window is given, the reference holds
at least e bytes other than '-' (true in particular when it holds no '-') -/
theorem toPairAlign_skipIns_spec (ref : List Nat) (refName : String) (start stop wrap : Int) (omitRef : Bool)
    (recs : List SamRec) (s e : Nat) (trim : Bool) (hargs : checkArgs ref.length start stop = some (s, e, trim))
    (hwin : trim = true → e ≤ (degap ref).length)
    (hwf : ∀ r ∈ recs, isSkipped r = false → WFSamRec r ref.length) :
    toPairAlign ref refName start stop wrap omitRef true recs =
      some ((samBlocks recs).map fun b =>
        ((b.headD default).name, pairText wrap refName (b.headD default).name omitRef
          (if trim then specTrimPair (specPairNoIns b ref) s e else specPairNoIns b ref))) := by
  rw [toPairAlign_skipIns_modelWindow ref refName start stop wrap omitRef recs s e trim hargs hwf]
  simp only [Option.some.injEq]
  apply List.map_congr_left
  intro b _
  have hse := checkArgs_start ref.length start stop s e trim hargs
  cases trim with
  | false => rfl
  | true =>
    have he := hwin rfl
    simp only [if_true]
    rw [Props.C15.topa_window (specPairNoIns b ref) s e (by rw [noIns_cols]; omega) (by rw [noIns_cols]; omega)]

/-- the same for a reference without '-' -/
theorem toPairAlign_skipIns_spec_noDash (ref : List Nat) (refName : String) (start stop wrap : Int) (omitRef : Bool)
    (recs : List SamRec) (s e : Nat) (trim : Bool) (hargs : checkArgs ref.length start stop = some (s, e, trim))
    (hnd : NoDash ref)
    (hwf : ∀ r ∈ recs, isSkipped r = false → WFSamRec r ref.length) :
    toPairAlign ref refName start stop wrap omitRef true recs =
      some ((samBlocks recs).map fun b =>
        ((b.headD default).name, pairText wrap refName (b.headD default).name omitRef
          (if trim then specTrimPair (specPairNoIns b ref) s e else specPairNoIns b ref))) := by
  apply toPairAlign_skipIns_spec ref refName start stop wrap omitRef recs s e trim hargs _ hwf
  intro _
  rw [degap_noDash hnd]
  exact (checkArgs_start ref.length start stop s e trim hargs).2.2

/-- the specified pair of a query for either value of skip-insertions -/
def specPairOf (omitIns : Bool) (b : List SamRec) (ref : List Nat) : List Nat × List Nat :=
  if omitIns then specPairNoIns b ref else specPair b ref

/-- **C02.toPairAlign (both branches)** — for every SAM file whose retained records fit the reference and carry
letters, over a reference without '-' and without bytes below '*', every accepted window, with or without
skip-insertions: one text per query, in input order, holding the specified pair cut from the column of reference
base s to that of base e -/
theorem toPairAlign_spec (ref : List Nat) (refName : String) (start stop wrap : Int) (omitRef omitIns : Bool)
    (recs : List SamRec) (s e : Nat) (trim : Bool) (hargs : checkArgs ref.length start stop = some (s, e, trim))
    (hnd : NoDash ref) (hge : ∀ b ∈ ref, star ≤ b)
    (hwf : ∀ r ∈ recs, isSkipped r = false → WFSamRec r ref.length) :
    toPairAlign ref refName start stop wrap omitRef omitIns recs =
      some ((samBlocks recs).map fun b =>
        ((b.headD default).name, pairText wrap refName (b.headD default).name omitRef
          (if trim then specTrimPair (specPairOf omitIns b ref) s e else specPairOf omitIns b ref))) := by
  cases omitIns with
  | true => exact toPairAlign_skipIns_spec_noDash ref refName start stop wrap omitRef recs s e trim hargs hnd hwf
  | false => exact PairMulti.toPairAlign_keepIns_spec ref refName start stop wrap omitRef recs s e trim hargs hnd hge hwf

/-- a reference made of letters meets both conditions on the reference -/
theorem toPairAlign_spec_letters (ref : List Nat) (refName : String) (start stop wrap : Int) (omitRef omitIns : Bool)
    (recs : List SamRec) (s e : Nat) (trim : Bool) (hargs : checkArgs ref.length start stop = some (s, e, trim))
    (hl : ∀ b ∈ ref, isLetter b = true)
    (hwf : ∀ r ∈ recs, isSkipped r = false → WFSamRec r ref.length) :
    toPairAlign ref refName start stop wrap omitRef omitIns recs =
      some ((samBlocks recs).map fun b =>
        ((b.headD default).name, pairText wrap refName (b.headD default).name omitRef
          (if trim then specTrimPair (specPairOf omitIns b ref) s e else specPairOf omitIns b ref))) :=
  toPairAlign_spec ref refName start stop wrap omitRef omitIns recs s e trim hargs
    (PairMulti.letters_ref ref hl).1 (PairMulti.letters_ref ref hl).2 hwf

/-! ### the window in closed form, over a reference without '-' -/

theorem idx_noDash (ref : List Nat) (hnd : NoDash ref) :
    ((ref.zip (List.range ref.length)).filter fun (b, _) => b != dash) = ref.zip (List.range ref.length) := by
  rw [List.filter_eq_self]
  intro x hx
  obtain ⟨b, i⟩ := x
  have := hnd b (List.of_mem_zip hx).1
  simpa using this

/-- without '-' in the first row, column i holds reference base i + 1: the cut is the plain slice of both rows -/
theorem specTrimPair_noDash (p : List Nat × List Nat) (hnd : NoDash p.1) (s e : Nat) (hs : 1 ≤ s) (hse : s ≤ e)
    (he : e ≤ p.1.length) :
    specTrimPair p s e = ((p.1.drop (s - 1)).take (e + 1 - s), (p.2.drop (s - 1)).take (e + 1 - s)) := by
  unfold specTrimPair
  simp only []
  rw [idx_noDash _ hnd]
  have h1 : (p.1.zip (List.range p.1.length))[s - 1]? = some (p.1[s - 1]'(by omega), s - 1) := by
    rw [List.getElem?_eq_getElem (by simp; omega)]
    simp
  have h2 : (p.1.zip (List.range p.1.length))[e - 1]? = some (p.1[e - 1]'(by omega), e - 1) := by
    rw [List.getElem?_eq_getElem (by simp; omega)]
    simp
  rw [h1, h2]
  simp only []
  have : e - 1 + 1 - (s - 1) = e + 1 - s := by omega
  rw [this]

/-- **C02.toPairAlign (skip-insertions), closed form** — over a reference without '-': the reference text is the
reference from base s to base e, the query text is the `toMultiAlign --pad` row of the query from column s to column e -/
theorem toPairAlign_skipIns_closed (ref : List Nat) (refName : String) (start stop wrap : Int) (omitRef : Bool)
    (recs : List SamRec) (s e : Nat) (trim : Bool) (hargs : checkArgs ref.length start stop = some (s, e, trim))
    (hnd : NoDash ref)
    (hwf : ∀ r ∈ recs, isSkipped r = false → WFSamRec r ref.length) :
    toPairAlign ref refName start stop wrap omitRef true recs =
      some ((samBlocks recs).map fun b =>
        ((b.headD default).name, pairText wrap refName (b.headD default).name omitRef
          (if trim then ((ref.drop (s - 1)).take (e + 1 - s), ((specTomaRow b ref.length true).drop (s - 1)).take (e + 1 - s))
           else (ref, specTomaRow b ref.length true)))) := by
  rw [toPairAlign_skipIns_spec_noDash ref refName start stop wrap omitRef recs s e trim hargs hnd hwf]
  simp only [Option.some.injEq]
  apply List.map_congr_left
  intro b _
  have hse := checkArgs_start ref.length start stop s e trim hargs
  cases trim with
  | false => rfl
  | true =>
    simp only [if_true]
    rw [specTrimPair_noDash (specPairNoIns b ref) hnd s e hse.1 hse.2.1 hse.2.2]
    rfl

/-! ### every hypothesis kept is needed -/

/-- `block ≠ []` in (2): the empty block flattens to the empty row, the specification writes 'N' under every
reference base (`samBlocks` never produces an empty block, so (3) does not need it) -/
example : pairOfBlock [] [65] true = ([65], []) ∧ specPairNoIns [] [65] = ([65], [78]) := by decide +kernel

/-- `WFSamRec.hq` (SEQ at least as long as the CIGAR consumes): 2M with one base; the walk writes the one base and
pads, the relation aligns a missing base (byte 0) to the second position -/
example : pairOfBlock [⟨"q", 0, 0, [(0, 2)], [65]⟩] [65, 67] true = ([65, 67], [65, 78]) ∧
    specPairNoIns [⟨"q", 0, 0, [(0, 2)], [65]⟩] [65, 67] = ([65, 67], [65, 0]) := by decide +kernel

/-- `WFSamRec.hr` (the record ends inside the reference): 2M on a reference of one base; the row written is longer
than the reference -/
example : pairOfBlock [⟨"q", 0, 0, [(0, 2)], [65, 67]⟩] [65] true = ([65], [65, 67]) ∧
    specPairNoIns [⟨"q", 0, 0, [(0, 2)], [65, 67]⟩] [65] = ([65], [65]) := by decide +kernel

/-- `WFSamRec.letters`, one record: an aligned '*' is taken for no coverage and becomes 'N' -/
example : pairOfBlock [⟨"q", 0, 0, [(0, 1)], [42]⟩] [65] true = ([65], [78]) ∧
    specPairNoIns [⟨"q", 0, 0, [(0, 1)], [42]⟩] [65] = ([65], [42]) := by decide +kernel

/-- `WFSamRec.letters`, two records: two different aligned bytes that are not letters do not give 'N', the larger wins -/
example : pairOfBlock [⟨"q", 0, 0, [(0, 1)], [48]⟩, ⟨"q", 0, 0, [(0, 1)], [49]⟩] [65] true = ([65], [49]) ∧
    specPairNoIns [⟨"q", 0, 0, [(0, 1)], [48]⟩, ⟨"q", 0, 0, [(0, 1)], [49]⟩] [65] = ([65], [78]) := by decide +kernel

/-- the window condition of (3): a reference "-A" has one base, the accepted window 2..2 (`checkArgs` counts bytes)
has no column; the model then cuts column 1, the specification leaves the pair whole -/
example : checkArgs [45, 65].length 2 2 = some (2, 2, true) ∧
    WFSamRec ⟨"q", 0, 1, [(0, 1)], [67]⟩ [45, 65].length ∧
    trimPair (specPairNoIns [⟨"q", 0, 1, [(0, 1)], [67]⟩] [45, 65]) 2 2 = ([45], [78]) ∧
    specTrimPair (specPairNoIns [⟨"q", 0, 1, [(0, 1)], [67]⟩] [45, 65]) 2 2 = ([45, 65], [78, 67]) := by
  refine ⟨by decide, ⟨by decide, by decide, by decide⟩, by decide +kernel, by decide +kernel⟩

/-- non-vacuity: the three records of `PairMulti` (overlap, a disagreement, insertions, a deletion) -/
example : pairOfBlock [PairMulti.exB1, PairMulti.exB2, PairMulti.exB3] PairMulti.exRef true =
    ([65, 67, 71, 84, 65, 67, 71, 84, 65, 67, 71, 84], [78, 65, 78, 78, 71, 71, 84, 84, 45, 65, 78, 78]) := by decide +kernel

/-- (1) on a record that is NOT well-formed (SEQ too short, ends past the reference, unknown operator 11) -/
example : (walkWithRef ⟨"q", 0, 1, [(0, 2), (11, 3), (1, 2), (2, 3)], [65]⟩ [65, 67] false).1 =
    walkNoIns ⟨"q", 0, 1, [(0, 2), (11, 3), (1, 2), (2, 3)], [65]⟩ 2 := by decide +kernel

end Gofasta.Lemmas.PairSkipIns
