import Gofasta.Props.C14
import Gofasta.Props.C04
import Gofasta.Lemmas.AACalls
import Gofasta.Lemmas.SortSpec
import Gofasta.Lemmas.TopK
import Gofasta.Lemmas.GffRowOrder
/-
C14, lifted from position lists to whole regions and to what the mutation caller receives.

A gene is described once (`Gene`) and rendered both ways: as a GenBank CDS feature (`Describes f g`: any of the
five location shapes, codon_start = k+1, gene, translation) and as its conformant GFF3 CDS rows (`Gene.rows`, the
`fwdRows` / `revRows` of Props/C14). Part 1: the two routes build the same `Region`. Part 2: for a whole annotation
the GFF route returns the stable sort (by smallest position) of the region list the GenBank route
returns, the same intergenic list, hence the same set of mutation records; equal lists when the file lists the
genes by ascending start.
-/
namespace Gofasta.Lemmas.RegionEquiv
open Gofasta Model Gofasta.Props.C14
open Gofasta.Lemmas.GffRowOrder (Ascending sortRows_of_sorted regionFromGFF_eq regionOfSorted)

/-! ### one gene, described once -/

/-- a coding gene: segments in ascending genomic order, each continuation row with the phase its GFF row carries;
`k` = bases to skip before the first whole codon (codon_start - 1 = phase of the 5'-most row); `tr` = the text of
the GenBank translation qualifier -/
inductive Gene where
  | fwd (name : String) (k : Nat) (s0 : Nat × Nat) (rest : List ((Nat × Nat) × Nat)) (tr : List Nat)
  | rev (name : String) (k : Nat) (init : List ((Nat × Nat) × Nat)) (last : Nat × Nat) (tr : List Nat)

namespace Gene

def name : Gene → String
  | .fwd n _ _ _ _ => n
  | .rev n _ _ _ _ => n

def k : Gene → Nat
  | .fwd _ k _ _ _ => k
  | .rev _ k _ _ _ => k

def tr : Gene → List Nat
  | .fwd _ _ _ _ t => t
  | .rev _ _ _ _ t => t

/-- the segments in ascending genomic order -/
def segs : Gene → List (Nat × Nat)
  | .fwd _ _ s0 rest _ => s0 :: rest.map (·.1)
  | .rev _ _ init last _ => init.map (·.1) ++ [last]

def strand : Gene → Int
  | .fwd .. => 1
  | .rev .. => -1

/-- all positions of the location in coding order, before codon_start is applied -/
def all : Gene → List Nat
  | g@(.fwd ..) => locPositions .join g.segs
  | g@(.rev ..) => locPositions .compJoin g.segs

/-- the coding positions: whole codons from the first one on -/
def positions (g : Gene) : List Nat := g.all.drop g.k

/-- the conformant GFF3 rows of the gene (Props/C14) -/
def rows : Gene → List GffRow
  | .fwd n k s0 rest _ => fwdRows n k s0 rest
  | .rev n k init last _ => revRows n k init last

/-- the coding strand of the reference over the gene -/
def coding (ref : List Nat) : Gene → List Nat
  | g@(.fwd ..) => refBasesAt ref g.positions
  | g@(.rev ..) => complement (refBasesAt ref g.positions)

/-- the region both routes are expected to build -/
def region (g : Gene) : Region := ⟨g.name, g.strand, g.positions, g.tr ++ [42]⟩

/-- the skipped bases lie inside the 5'-most segment (codon_start is 1, 2 or 3 and segments are longer in practice) -/
def Offset : Gene → Prop
  | .fwd _ k s0 _ _ => k ≤ s0.2 + 1 - s0.1
  | .rev _ k _ last _ => k ≤ last.2 + 1 - last.1 ∧ k ≤ last.2

/-- the segments (hence the GFF rows) are listed by non-decreasing genomic start: what makes `rows` the order in
which CDSRegion2fromGFF (which since fix a19382f sorts the rows of a feature by start) reads them -/
def AscStarts (g : Gene) : Prop := g.segs.Pairwise (fun s t => s.1 ≤ t.1)

/-- the location runs in the direction of its strand: what CDSRegion2fromGenbank reads the strand from -/
def Oriented : Gene → Prop
  | g@(.fwd ..) => ∀ a b, g.all.head? = some a → g.all.getLast? = some b → a ≤ b
  | g@(.rev ..) => ∃ a b, g.all.head? = some a ∧ g.all.getLast? = some b ∧ b < a

/-- **the proviso**: the translation qualifier (plus the stop) is the translation of the reference -/
def Faithful (ref : List Nat) (g : Gene) : Prop := translateGo true (g.coding ref) = some (g.tr ++ [42])

end Gene

/-- `f` is a GenBank rendering of `g`: a..b or join(..) for a forward gene; complement(a..b), complement(join(..)) or
join(complement(..),..) (segments then written in coding order) for a reverse gene -/
def Describes (f : GbFeature) (g : Gene) : Prop :=
  f.gene = g.name ∧ f.codonStart = g.k + 1 ∧ f.translation = g.tr ∧
  match g with
  | .fwd .. => (f.form = .range ∨ f.form = .join) ∧ f.segs = g.segs
  | .rev .. => (f.form = .compJoin ∧ f.segs = g.segs) ∨ ((f.form = .comp ∨ f.form = .joinComp) ∧ f.segs = g.segs.reverse)

theorem describes_all (f : GbFeature) (g : Gene) (h : Describes f g) : locPositions f.form f.segs = g.all := by
  obtain ⟨_, _, _, h⟩ := h
  cases g with
  | fwd n k s0 rest t =>
    obtain ⟨hf | hf, hs⟩ := h <;> simp only [hf, hs, Gene.all] <;> rfl
  | rev n k init last t =>
    rcases h with ⟨hf, hs⟩ | ⟨hf | hf, hs⟩
    · simp only [hf, hs, Gene.all]
    · simp only [hf, hs, Gene.all]
      exact pos_joinComp_eq_compJoin _
    · simp only [hf, hs, Gene.all]
      exact pos_joinComp_eq_compJoin _

/-! ### the GenBank route on a described gene -/

/-- how CDSRegion2fromGenbank reads the strand: first position greater than the last -/
def gbRev (all : List Nat) : Bool :=
  match all.head?, all.getLast? with
  | some a, some b => decide (a > b)
  | _, _ => false

theorem regionFromGenbank_eq (f : GbFeature) :
    regionFromGenbank f =
      if ((locPositions f.form f.segs).drop (f.codonStart - 1)).length % 3 ≠ 0 then none else
      some ⟨f.gene, if gbRev (locPositions f.form f.segs) then -1 else 1,
        (locPositions f.form f.segs).drop (f.codonStart - 1), f.translation ++ [42]⟩ := rfl

theorem genbank_strand (g : Gene) (ho : g.Oriented) : (if gbRev g.all then (-1 : Int) else 1) = g.strand := by
  cases g with
  | fwd n k s0 rest t =>
    simp only [Gene.Oriented] at ho
    simp only [Gene.strand]
    have : gbRev (Gene.fwd n k s0 rest t).all = false := by
      unfold gbRev
      split
      · rename_i a b ha hb
        have := ho a b ha hb
        simp only [decide_eq_false_iff_not]
        omega
      · rfl
    simp [this]
  | rev n k init last t =>
    simp only [Gene.Oriented] at ho
    obtain ⟨a, b, ha, hb, hab⟩ := ho
    simp only [Gene.strand, gbRev, ha, hb]
    simp [hab]

/-- the GenBank route, no orientation hypothesis: succeeds iff whole codons; name, positions and translation are
those of `g.region`, the strand is read off the direction of the location -/
theorem genbank_region' (f : GbFeature) (g : Gene) (hd : Describes f g) :
    regionFromGenbank f = if g.positions.length % 3 ≠ 0 then none else
      some ⟨g.name, if gbRev g.all then -1 else 1, g.positions, g.tr ++ [42]⟩ := by
  have hall := describes_all f g hd
  obtain ⟨hn, hk, ht, _⟩ := hd
  rw [regionFromGenbank_eq, hall, hk, Nat.add_sub_cancel, hn, ht]
  rfl

/-- the GenBank route on an oriented gene: succeeds iff whole codons, and then builds `g.region` -/
theorem genbank_region (f : GbFeature) (g : Gene) (hd : Describes f g) (ho : g.Oriented) :
    regionFromGenbank f = if g.positions.length % 3 ≠ 0 then none else some g.region := by
  rw [genbank_region' f g hd, genbank_strand g ho]
  rfl

/-! ### the GFF route on one group of rows -/

theorem gff_plus (r0 : GffRow) (t : List GffRow) (ref : List Nat) (hs : Ascending (r0 :: t)) (h0 : r0.strand = "+")
    (ht : ∀ r ∈ t, r.strand = "+") :
    regionFromGFF (r0 :: t) ref =
      (translateGo true (refBasesAt ref (fwdPositionsGff (r0 :: t)))).map
        (fun tr => ⟨r0.name.getD "", 1, fwdPositionsGff (r0 :: t), tr⟩) := by
  have hany : ((r0 :: t).any fun r => r.strand != "+") = false := by
    rw [List.any_eq_false]
    intro r hr
    rcases List.mem_cons.1 hr with rfl | hr
    · simp [h0]
    · simp [ht r hr]
  rw [regionFromGFF_eq, sortRows_of_sorted _ hs]
  unfold regionOfSorted
  simp only [List.head?_cons]
  split
  · rw [if_neg (by rw [hany]; simp)]
    show (match translateGo true (refBasesAt ref (fwdPositionsGff (r0 :: t))) with
      | some tr => some (Region.mk (r0.name.getD "") 1 (fwdPositionsGff (r0 :: t)) tr)
      | none => none) = _
    cases translateGo true (refBasesAt ref (fwdPositionsGff (r0 :: t))) <;> rfl
  · rename_i h; rw [h0] at h; simp at h
  · rename_i h1 h2; exact absurd h0 h1

theorem gff_minus (r0 : GffRow) (t : List GffRow) (ref : List Nat) (hs : Ascending (r0 :: t)) (h0 : r0.strand = "-")
    (ht : ∀ r ∈ t, r.strand = "-") :
    regionFromGFF (r0 :: t) ref =
      (translateGo true (complement (refBasesAt ref (revPositionsGff (r0 :: t))))).map
        (fun tr => ⟨r0.name.getD "", -1, revPositionsGff (r0 :: t), tr⟩) := by
  have hany : ((r0 :: t).any fun r => r.strand != "-") = false := by
    rw [List.any_eq_false]
    intro r hr
    rcases List.mem_cons.1 hr with rfl | hr
    · simp [h0]
    · simp [ht r hr]
  rw [regionFromGFF_eq, sortRows_of_sorted _ hs]
  unfold regionOfSorted
  simp only [List.head?_cons]
  split
  · rename_i h; rw [h0] at h; simp at h
  · rw [if_neg (by rw [hany]; simp)]
    show (match translateGo true (complement (refBasesAt ref (revPositionsGff (r0 :: t)))) with
      | some tr => some (Region.mk (r0.name.getD "") (-1) (revPositionsGff (r0 :: t)) tr)
      | none => none) = _
    cases translateGo true (complement (refBasesAt ref (revPositionsGff (r0 :: t)))) <;> rfl
  · rename_i h1 h2; exact absurd h0 h2

/-- the rows of a gene with ascending starts are listed by non-decreasing start -/
theorem rows_ascending (g : Gene) (h : g.AscStarts) : Ascending g.rows := by
  cases g with
  | fwd n k s0 rest t =>
    have h' : (((s0, k) :: rest).map (·.1)).Pairwise (fun s t => s.1 ≤ t.1) := h
    show (((s0, k) :: rest).map (contRow n)).Pairwise (fun a b => a.start ≤ b.start)
    rw [List.pairwise_map] at h' ⊢
    exact h'
  | rev n k init last t =>
    have h' : ((init ++ [(last, k)]).map (·.1)).Pairwise (fun s t => s.1 ≤ t.1) := by
      simpa [Gene.AscStarts, Gene.segs] using h
    show (init.map (revRow n) ++ [revRow n (last, k)]).Pairwise (fun a b => a.start ≤ b.start)
    have e : init.map (revRow n) ++ [revRow n (last, k)] = (init ++ [(last, k)]).map (revRow n) := by simp
    rw [e]
    rw [List.pairwise_map] at h' ⊢
    exact h'

/-- the GFF route on the conformant rows of a gene (listed by ascending start): succeeds iff the reference translates,
and then builds the region with the gene's name, strand and positions and the computed translation -/
theorem gff_region (g : Gene) (ref : List Nat) (hoff : g.Offset) (hst : g.AscStarts) :
    regionFromGFF g.rows ref =
      (translateGo true (g.coding ref)).map (fun tr => ⟨g.name, g.strand, g.positions, tr⟩) := by
  have hasc := rows_ascending g hst
  cases g with
  | fwd n k s0 rest t =>
    simp only [Gene.Offset] at hoff
    have hp := positions_equiv_forward n k s0 rest hoff
    show regionFromGFF (contRow n (s0, k) :: rest.map (contRow n)) ref = _
    rw [gff_plus _ _ _ hasc rfl (by intro r hr; obtain ⟨x, _, rfl⟩ := List.mem_map.1 hr; rfl)]
    have hfold : contRow n (s0, k) :: rest.map (contRow n) = fwdRows n k s0 rest := rfl
    rw [hfold, hp]
    rfl
  | rev n k init last t =>
    simp only [Gene.Offset] at hoff
    have hp := positions_equiv_reverse n k init last hoff.1 hoff.2
    cases init with
    | nil =>
      show regionFromGFF [revRow n (last, k)] ref = _
      rw [gff_minus _ _ _ hasc rfl (by intro r hr; cases hr)]
      have hfold : [revRow n (last, k)] = revRows n k [] last := rfl
      rw [hfold, hp]
      rfl
    | cons x xs =>
      show regionFromGFF (revRow n x :: (xs.map (revRow n) ++ [revRow n (last, k)])) ref = _
      rw [gff_minus _ _ _ (show Ascending (revRow n x :: (xs.map (revRow n) ++ [revRow n (last, k)])) from hasc) rfl (by
        intro r hr
        rcases List.mem_append.1 hr with hr | hr
        · obtain ⟨y, _, rfl⟩ := List.mem_map.1 hr; rfl
        · rw [List.mem_singleton] at hr; subst hr; rfl)]
      have hfold : revRow n x :: (xs.map (revRow n) ++ [revRow n (last, k)]) = revRows n k (x :: xs) last := rfl
      rw [hfold, hp]
      rfl

theorem coding_length (g : Gene) (ref : List Nat) : (g.coding ref).length = g.positions.length := by
  cases g <;> simp [Gene.coding, refBasesAt, complement]

/-! ### part 1: one gene, both ways -/

/-- the GenBank half of `region_equiv` (no hypothesis on the order of the segments) -/
theorem genbank_region_faithful (f : GbFeature) (g : Gene) (ref : List Nat) (hd : Describes f g) (hor : g.Oriented)
    (hf : g.Faithful ref) : regionFromGenbank f = some g.region := by
  have hm : g.positions.length % 3 = 0 := by
    rw [← coding_length g ref]
    exact Gofasta.Props.C04.translate_some_mod3 _ _ (Nat.le_refl _) _ hf
  rw [genbank_region f g hd hor, if_neg (by omega)]

/-- **region_equiv** - a gene written as a GenBank CDS feature (any of the five location shapes, codon_start = k+1)
and as its conformant GFF3 CDS rows gives the SAME region (name, strand, positions, reference amino acids) by both
routes, provided the translation qualifier is the translation of the reference. -/
theorem region_equiv (f : GbFeature) (g : Gene) (ref : List Nat) (hd : Describes f g) (hoff : g.Offset)
    (hst : g.AscStarts) (hor : g.Oriented) (hf : g.Faithful ref) :
    regionFromGenbank f = some g.region ∧ regionFromGFF g.rows ref = some g.region := by
  have hm : g.positions.length % 3 = 0 := by
    rw [← coding_length g ref]
    exact Gofasta.Props.C04.translate_some_mod3 _ _ (Nat.le_refl _) _ hf
  constructor
  · rw [genbank_region f g hd hor, if_neg (by omega)]
  · rw [gff_region g ref hoff hst, hf]
    rfl

/-- **fields_equiv** - without the proviso: whenever both routes succeed, positions and name agree; the strand
agrees for an oriented gene; the reference amino acids agree IF AND ONLY IF the translation qualifier is the
translation of the reference (the GenBank route copies the qualifier text, the GFF route translates) -/
theorem fields_equiv (f : GbFeature) (g : Gene) (ref : List Nat) (r1 r2 : Region) (hd : Describes f g)
    (hoff : g.Offset) (hst : g.AscStarts) (h1 : regionFromGenbank f = some r1) (h2 : regionFromGFF g.rows ref = some r2) :
    r1.positions = r2.positions ∧ r1.name = r2.name ∧ (g.Oriented → r1.strand = r2.strand) ∧
      (r1.translation = r2.translation ↔ g.Faithful ref) := by
  rw [genbank_region' f g hd] at h1
  rw [gff_region g ref hoff hst] at h2
  split at h1
  · cases h1
  · simp only [Option.some.injEq] at h1
    subst h1
    cases ht : translateGo true (g.coding ref) with
    | none => rw [ht] at h2; cases h2
    | some t =>
      rw [ht] at h2
      simp only [Option.map_some, Option.some.injEq] at h2
      subst h2
      refine ⟨rfl, rfl, fun ho => genbank_strand g ho, ?_⟩
      simp only [Gene.Faithful, ht, Option.some.injEq]
      exact eq_comm

/-! ### ascending segments are oriented -/

/-- segments written in ascending genomic order, not touching each other's ends -/
def AscSegs (segs : List (Nat × Nat)) : Prop := segs.Pairwise (fun s t => s.2 < t.1)

theorem mem_rangeUp (a b x : Nat) (h : x ∈ rangeUp a b) : a ≤ x ∧ x ≤ b := by
  unfold rangeUp at h
  rw [List.mem_range'_1] at h
  omega

theorem asc_pairwise (segs : List (Nat × Nat)) (h : AscSegs segs) :
    (segs.flatMap fun s => rangeUp s.1 s.2).Pairwise (· < ·) := by
  rw [List.pairwise_flatMap]
  refine ⟨fun s _ => List.pairwise_lt_range', ?_⟩
  refine List.Pairwise.imp ?_ h
  intro s t hst x hx y hy
  have := mem_rangeUp _ _ _ hx
  have := mem_rangeUp _ _ _ hy
  omega

theorem head_le_last (l : List Nat) (h : l.Pairwise (· < ·)) (a b : Nat) (ha : l.head? = some a)
    (hb : l.getLast? = some b) : a ≤ b ∧ (2 ≤ l.length → a < b) := by
  match l, h, ha, hb with
  | [x], _, ha, hb =>
    simp at ha hb; subst ha; subst hb; simp
  | x :: y :: t, h, ha, hb =>
    simp only [List.head?_cons, Option.some.injEq] at ha
    subst ha
    rw [List.getLast?_cons_cons] at hb
    have hm := List.mem_of_getLast? hb
    have := List.rel_of_pairwise_cons h hm
    omega

theorem oriented_of_asc (g : Gene) (h : AscSegs g.segs) (h2 : g.strand = -1 → 2 ≤ g.all.length) : g.Oriented := by
  cases g with
  | fwd n k s0 rest t =>
    intro a b ha hb
    exact (head_le_last _ (asc_pairwise _ h) a b ha hb).1
  | rev n k init last t =>
    have h2 := h2 rfl
    have hp := asc_pairwise _ h
    show ∃ a b, (locPositions .compJoin _).head? = some a ∧ (locPositions .compJoin _).getLast? = some b ∧ b < a
    have hlen : 2 ≤ (List.flatMap (fun s => rangeUp s.1 s.2) (Gene.rev n k init last t).segs).length := by
      have : (Gene.rev n k init last t).all = (List.flatMap (fun s => rangeUp s.1 s.2) (Gene.rev n k init last t).segs).reverse := rfl
      rw [this, List.length_reverse] at h2
      exact h2
    rw [pos_compJoin, pos_join, List.head?_reverse, List.getLast?_reverse]
    generalize (List.flatMap (fun s => rangeUp s.1 s.2) (Gene.rev n k init last t).segs) = l at hp hlen
    match l, hp, hlen with
    | x :: y :: t, hp, _ =>
      cases hb : (x :: y :: t).getLast? with
      | none => simp at hb
      | some b =>
        exact ⟨b, x, rfl, rfl, (head_le_last _ hp x b rfl hb).2 (by simp)⟩

/-- ascending, non-touching segments none of which is written backwards (a..b with a ≤ b+1) start in ascending order -/
theorem ascStarts_of_asc (g : Gene) (h : AscSegs g.segs) (hseg : ∀ s ∈ g.segs, s.1 ≤ s.2 + 1) : g.AscStarts := by
  unfold Gene.AscStarts
  unfold AscSegs at h
  refine List.Pairwise.imp_of_mem ?_ h
  intro s t hs _ hst
  have := hseg s hs
  omega

/-- a faithful gene has at least one codon (the stop) -/
theorem faithful_long (g : Gene) (ref : List Nat) (hf : g.Faithful ref) : 3 ≤ g.positions.length := by
  rw [← coding_length g ref]
  unfold Gene.Faithful at hf
  match hc : g.coding ref, hf with
  | [], hf => simp [translateGo] at hf
  | [_], hf => simp [translateGo] at hf
  | [_, _], hf => simp [translateGo] at hf
  | _ :: _ :: _ :: _, _ => simp

/-- ascending segments + the proviso give the orientation hypothesis -/
theorem oriented_of_asc_faithful (g : Gene) (ref : List Nat) (h : AscSegs g.segs) (hf : g.Faithful ref) : g.Oriented := by
  apply oriented_of_asc g h
  intro _
  have := faithful_long g ref hf
  have hl : g.positions.length ≤ g.all.length := by simp [Gene.positions]
  omega

/-! ### part 2: a whole annotation -/

/-- the rows RegionsFromGFF keeps -/
def cdsRows (rows : List GffRow) : List GffRow :=
  rows.filter fun r => r.type == "CDS" || r.type == "mature_protein_region_of_CDS"

/-- RegionsFromGFF after the type filter -/
def gffCore (cds : List GffRow) (ref : List Nat) : Option (List Region × List Nat) :=
  match ((idOrder cds).map (fun i => cds.filter fun r => r.id == some i) ++
      (cds.filter fun r => r.id.isNone).map fun r => [r]).mapM (fun g => regionFromGFF g ref) with
  | none => none
  | some temp =>
    some (sortStable regionStartLt (temp.filter fun r => r.name != ""),
      codes (sortStable regionStartLt (temp.filter fun r => r.name != "")) ref.length)

theorem regionsFromGFF_eq (rows : List GffRow) (ref : List Nat) : regionsFromGFF rows ref = gffCore (cdsRows rows) ref := rfl

/-- the ID column of the gene's rows -/
def gid (g : Gene) : String := "cds-" ++ g.name

theorem rows_id (g : Gene) : ∀ r ∈ g.rows, r.id = some (gid g) := by
  intro r hr
  cases g with
  | fwd n k s0 rest t =>
    rcases List.mem_cons.1 hr with rfl | hr
    · rfl
    · obtain ⟨x, _, rfl⟩ := List.mem_map.1 hr; rfl
  | rev n k init last t =>
    rcases List.mem_append.1 hr with hr | hr
    · obtain ⟨x, _, rfl⟩ := List.mem_map.1 hr; rfl
    · rw [List.mem_singleton] at hr; subst hr; rfl

theorem rows_ne (g : Gene) : g.rows ≠ [] := by
  cases g with
  | fwd n k s0 rest t => simp [Gene.rows, fwdRows]
  | rev n k init last t => simp [Gene.rows, revRows]

theorem rows_cds (g : Gene) : cdsRows g.rows = g.rows := by
  unfold cdsRows
  rw [List.filter_eq_self]
  intro r hr
  cases g with
  | fwd n k s0 rest t =>
    rcases List.mem_cons.1 hr with rfl | hr
    · rfl
    · obtain ⟨x, _, rfl⟩ := List.mem_map.1 hr; rfl
  | rev n k init last t =>
    rcases List.mem_append.1 hr with hr | hr
    · obtain ⟨x, _, rfl⟩ := List.mem_map.1 hr; rfl
    · rw [List.mem_singleton] at hr; subst hr; rfl

theorem gid_inj (g h : Gene) (e : gid g = gid h) : g.name = h.name := (String.append_right_inj _).1 e

def idStep (acc : List String) (r : GffRow) : List String :=
  match r.id with
  | some i => if acc.contains i then acc else acc ++ [i]
  | none => acc

theorem idOrder_eq (rows : List GffRow) : idOrder rows = rows.foldl idStep [] := rfl

theorem fold_seen (i : String) : ∀ (l : List GffRow) (acc : List String), (∀ r ∈ l, r.id = some i) → i ∈ acc →
    l.foldl idStep acc = acc := by
  intro l
  induction l with
  | nil => intro acc _ _; rfl
  | cons r t ih =>
    intro acc hl hi
    have hr := hl r List.mem_cons_self
    have hc : acc.contains i = true := List.contains_iff_mem.2 hi
    rw [List.foldl_cons]
    have : idStep acc r = acc := by simp only [idStep, hr, hc, if_true]
    rw [this]
    exact ih acc (fun r hr => hl r (List.mem_cons_of_mem _ hr)) hi

theorem fold_new (i : String) (l : List GffRow) (acc : List String) (hl : ∀ r ∈ l, r.id = some i) (hne : l ≠ [])
    (hi : i ∉ acc) : l.foldl idStep acc = acc ++ [i] := by
  match l, hne with
  | r :: t, _ =>
    have hr := hl r List.mem_cons_self
    rw [List.foldl_cons]
    have : idStep acc r = acc ++ [i] := by simp [idStep, hr, hi]
    rw [this]
    exact fold_seen i t _ (fun r hr => hl r (List.mem_cons_of_mem _ hr)) (by simp)

theorem fold_genes : ∀ (genes : List Gene) (acc : List String), (acc ++ genes.map gid).Nodup →
    (genes.flatMap Gene.rows).foldl idStep acc = acc ++ genes.map gid := by
  intro genes
  induction genes with
  | nil => intro acc _; simp
  | cons g t ih =>
    intro acc hnd
    rw [List.flatMap_cons, List.foldl_append]
    have hi : gid g ∉ acc := by
      intro hm
      rw [List.map_cons] at hnd
      have := (List.nodup_append.1 hnd).2.2 _ hm _ List.mem_cons_self
      exact this rfl
    rw [fold_new (gid g) g.rows acc (rows_id g) (rows_ne g) hi]
    have hnd' : ((acc ++ [gid g]) ++ t.map gid).Nodup := by
      rw [List.append_assoc]; exact hnd
    rw [ih _ hnd']
    simp

theorem idOrder_genes (genes : List Gene) (hnd : (genes.map gid).Nodup) :
    idOrder (genes.flatMap Gene.rows) = genes.map gid := by
  rw [idOrder_eq, fold_genes genes [] (by simpa using hnd)]
  rfl

theorem filter_group : ∀ (genes : List Gene), (genes.map gid).Nodup → ∀ g ∈ genes,
    (genes.flatMap Gene.rows).filter (fun r => r.id == some (gid g)) = g.rows := by
  intro genes
  induction genes with
  | nil => intro _ g hg; cases hg
  | cons h t ih =>
    intro hnd g hg
    rw [List.map_cons, List.nodup_cons] at hnd
    rw [List.flatMap_cons, List.filter_append]
    rcases List.mem_cons.1 hg with rfl | hg
    · have h1 : g.rows.filter (fun r => r.id == some (gid g)) = g.rows := by
        rw [List.filter_eq_self]; intro r hr; simp [rows_id g r hr]
      have h2 : (t.flatMap Gene.rows).filter (fun r => r.id == some (gid g)) = [] := by
        rw [List.filter_eq_nil_iff]
        intro r hr
        obtain ⟨g', hg', hr'⟩ := List.mem_flatMap.1 hr
        rw [rows_id g' r hr']
        intro he
        have : gid g' = gid g := by simpa using he
        exact hnd.1 (this ▸ List.mem_map.2 ⟨g', hg', rfl⟩)
      rw [h1, h2, List.append_nil]
    · have h1 : h.rows.filter (fun r => r.id == some (gid g)) = [] := by
        rw [List.filter_eq_nil_iff]
        intro r hr
        rw [rows_id h r hr]
        intro he
        have : gid h = gid g := by simpa using he
        exact hnd.1 (this ▸ List.mem_map.2 ⟨g, hg, rfl⟩)
      rw [h1, ih hnd.2 g hg, List.nil_append]

theorem no_orphans (genes : List Gene) : (genes.flatMap Gene.rows).filter (fun r => r.id.isNone) = [] := by
  rw [List.filter_eq_nil_iff]
  intro r hr
  obtain ⟨g, _, hr'⟩ := List.mem_flatMap.1 hr
  rw [rows_id g r hr']
  simp

/-- the features of the GenBank file describe the genes, in the same order -/
inductive AllDescribe : List GbFeature → List Gene → Prop where
  | nil : AllDescribe [] []
  | cons {f g fs gs} : Describes f g → AllDescribe fs gs → AllDescribe (f :: fs) (g :: gs)

theorem gff_region_faithful (g : Gene) (ref : List Nat) (hoff : g.Offset) (hst : g.AscStarts) (hf : g.Faithful ref) :
    regionFromGFF g.rows ref = some g.region := by
  rw [gff_region g ref hoff hst, hf]; rfl

theorem mapM_gff (ref : List Nat) : ∀ (genes : List Gene), (∀ g ∈ genes, g.Offset) → (∀ g ∈ genes, g.AscStarts) →
    (∀ g ∈ genes, g.Faithful ref) →
    (genes.map Gene.rows).mapM (fun g => regionFromGFF g ref) = some (genes.map Gene.region) := by
  intro genes
  induction genes with
  | nil => intro _ _ _; rfl
  | cons g t ih =>
    intro hoff hst hf
    rw [List.map_cons, List.mapM_cons,
      gff_region_faithful g ref (hoff g List.mem_cons_self) (hst g List.mem_cons_self) (hf g List.mem_cons_self),
      ih (fun g hg => hoff g (List.mem_cons_of_mem _ hg)) (fun g hg => hst g (List.mem_cons_of_mem _ hg))
        (fun g hg => hf g (List.mem_cons_of_mem _ hg))]
    rfl

theorem mapM_genbank (ref : List Nat) : ∀ (fs : List GbFeature) (genes : List Gene), AllDescribe fs genes →
    (∀ g ∈ genes, g.Offset) → (∀ g ∈ genes, g.Oriented) → (∀ g ∈ genes, g.Faithful ref) →
    fs.mapM regionFromGenbank = some (genes.map Gene.region) := by
  intro fs genes h
  induction h with
  | nil => intro _ _ _; rfl
  | @cons f g fs gs hd _ ih =>
    intro hoff hor hf
    rw [List.mapM_cons, genbank_region_faithful f g ref hd (hor g List.mem_cons_self) (hf g List.mem_cons_self),
      ih (fun g hg => hoff g (List.mem_cons_of_mem _ hg)) (fun g hg => hor g (List.mem_cons_of_mem _ hg))
        (fun g hg => hf g (List.mem_cons_of_mem _ hg))]
    rfl

/-- the GenBank route on a whole annotation: the regions in file order -/
theorem genbank_annotation (fs : List GbFeature) (genes : List Gene) (ref : List Nat) (L : Nat) (hfs : AllDescribe fs genes)
    (hoff : ∀ g ∈ genes, g.Offset) (hor : ∀ g ∈ genes, g.Oriented) (hf : ∀ g ∈ genes, g.Faithful ref) :
    regionsFromGenbank fs L = some (genes.map Gene.region, codes (genes.map Gene.region) L) := by
  unfold regionsFromGenbank
  rw [mapM_genbank ref fs genes hfs hoff hor hf]

theorem gid_nodup (genes : List Gene) (hnd : (genes.map Gene.name).Nodup) : (genes.map gid).Nodup := by
  have : genes.map gid = (genes.map Gene.name).map ("cds-" ++ ·) := by simp [gid]
  rw [this]
  unfold List.Nodup at hnd ⊢
  exact List.Pairwise.map _ (fun a b hab he => hab ((String.append_right_inj _).1 he)) hnd

/-- the GFF route on a whole annotation: the same regions, sorted (stably) by smallest position -/
theorem gff_annotation (rows : List GffRow) (genes : List Gene) (ref : List Nat)
    (hrows : cdsRows rows = genes.flatMap Gene.rows)
    (hoff : ∀ g ∈ genes, g.Offset) (hst : ∀ g ∈ genes, g.AscStarts) (hf : ∀ g ∈ genes, g.Faithful ref)
    (hnd : (genes.map Gene.name).Nodup) (hne : ∀ g ∈ genes, g.name ≠ "") :
    regionsFromGFF rows ref = some (sortStable regionStartLt (genes.map Gene.region),
      codes (sortStable regionStartLt (genes.map Gene.region)) ref.length) := by
  have hnd' := gid_nodup genes hnd
  rw [regionsFromGFF_eq, hrows]
  unfold gffCore
  rw [idOrder_genes genes hnd', no_orphans, List.map_nil, List.append_nil, List.map_map]
  have hg : genes.map ((fun i => (genes.flatMap Gene.rows).filter fun r => r.id == some i) ∘ gid) = genes.map Gene.rows := by
    apply List.map_congr_left
    intro g hg
    exact filter_group genes hnd' g hg
  rw [hg, mapM_gff ref genes hoff hst hf]
  have hnamed : (genes.map Gene.region).filter (fun r => r.name != "") = genes.map Gene.region := by
    rw [List.filter_eq_self]
    intro r hr
    obtain ⟨g, hg, rfl⟩ := List.mem_map.1 hr
    have := hne g hg
    simpa [Gene.region] using this
  simp only [hnamed]

/-! ### what the mutation caller receives -/

/-- the intergenic list does not depend on the order of the regions -/
theorem codes_perm (rs1 rs2 : List Region) (h : rs1.Perm rs2) (L : Nat) : codes rs1 L = codes rs2 L := by
  unfold codes
  congr 1
  funext i
  rw [h.any_eq]

/-- the set of mutation records does not depend on the order of the regions -/
theorem variants_perm (ref q : List Nat) (rs1 rs2 : List Region) (inter : List Nat) (h : rs1.Perm rs2) (v : Variant) :
    v ∈ getVariantsPair ref q rs1 inter ↔ v ∈ getVariantsPair ref q rs2 inter := by
  unfold getVariantsPair
  simp only [mem_dedupRun, mem_sortStable, List.mem_append, List.mem_flatMap, h.mem_iff]

/-- **annotation_equiv** - for an annotation given both ways (same genes, same order; other GFF rows such as gene,
mRNA, exon lines may be interleaved) the GFF route returns the region list of the GenBank route, stably sorted by
smallest position, and the same intergenic list -/
theorem annotation_equiv (fs : List GbFeature) (rows : List GffRow) (genes : List Gene) (ref : List Nat)
    (hfs : AllDescribe fs genes) (hrows : cdsRows rows = genes.flatMap Gene.rows)
    (hoff : ∀ g ∈ genes, g.Offset) (hst : ∀ g ∈ genes, g.AscStarts) (hor : ∀ g ∈ genes, g.Oriented) (hf : ∀ g ∈ genes, g.Faithful ref)
    (hnd : (genes.map Gene.name).Nodup) (hne : ∀ g ∈ genes, g.name ≠ "")
    (rsB interB : _) (hB : regionsFromGenbank fs ref.length = some (rsB, interB))
    (rsF interF : _) (hF : regionsFromGFF rows ref = some (rsF, interF)) :
    rsB = genes.map Gene.region ∧ rsF = sortStable regionStartLt rsB ∧ rsF.Perm rsB ∧ interF = interB := by
  rw [genbank_annotation fs genes ref _ hfs hoff hor hf] at hB
  rw [gff_annotation rows genes ref hrows hoff hst hf hnd hne] at hF
  simp only [Option.some.injEq, Prod.mk.injEq] at hB hF
  obtain ⟨rfl, rfl⟩ := hB
  obtain ⟨rfl, rfl⟩ := hF
  exact ⟨rfl, rfl, sortStable_perm _, codes_perm _ _ (sortStable_perm _) _⟩

/-- **variants_equiv** - hence the two routes report the same set of mutation records for every (reference row,
query row) pair -/
theorem variants_equiv (fs : List GbFeature) (rows : List GffRow) (genes : List Gene) (ref : List Nat)
    (hfs : AllDescribe fs genes) (hrows : cdsRows rows = genes.flatMap Gene.rows)
    (hoff : ∀ g ∈ genes, g.Offset) (hst : ∀ g ∈ genes, g.AscStarts) (hor : ∀ g ∈ genes, g.Oriented) (hf : ∀ g ∈ genes, g.Faithful ref)
    (hnd : (genes.map Gene.name).Nodup) (hne : ∀ g ∈ genes, g.name ≠ "")
    (rsB : List Region) (interB : List Nat) (hB : regionsFromGenbank fs ref.length = some (rsB, interB))
    (rsF : List Region) (interF : List Nat) (hF : regionsFromGFF rows ref = some (rsF, interF))
    (refRow qRow : List Nat) (v : Variant) :
    v ∈ getVariantsPair refRow qRow rsF interF ↔ v ∈ getVariantsPair refRow qRow rsB interB := by
  obtain ⟨_, _, hp, hi⟩ := annotation_equiv fs rows genes ref hfs hrows hoff hst hor hf hnd hne rsB interB hB rsF interF hF
  rw [hi]
  exact variants_perm refRow qRow rsF rsB interB hp v

/-- both routes succeed on a faithful annotation (so the hypotheses hB, hF above are never vacuous) -/
theorem both_succeed (fs : List GbFeature) (rows : List GffRow) (genes : List Gene) (ref : List Nat)
    (hfs : AllDescribe fs genes) (hrows : cdsRows rows = genes.flatMap Gene.rows)
    (hoff : ∀ g ∈ genes, g.Offset) (hst : ∀ g ∈ genes, g.AscStarts) (hor : ∀ g ∈ genes, g.Oriented) (hf : ∀ g ∈ genes, g.Faithful ref)
    (hnd : (genes.map Gene.name).Nodup) (hne : ∀ g ∈ genes, g.name ≠ "") :
    (regionsFromGenbank fs ref.length).isSome = true ∧ (regionsFromGFF rows ref).isSome = true := by
  rw [genbank_annotation fs genes ref _ hfs hoff hor hf, gff_annotation rows genes ref hrows hoff hst hf hnd hne]
  exact ⟨rfl, rfl⟩

/-- **annotation_equal_of_sorted** - when the file lists the genes by non-decreasing smallest coding position (the order
NCBI writes them in), the two routes return literally the same pair (regions, intergenic positions), hence
`getVariantsPair` returns the same list -/
theorem annotation_equal_of_sorted (fs : List GbFeature) (rows : List GffRow) (genes : List Gene) (ref : List Nat)
    (hfs : AllDescribe fs genes) (hrows : cdsRows rows = genes.flatMap Gene.rows)
    (hoff : ∀ g ∈ genes, g.Offset) (hst : ∀ g ∈ genes, g.AscStarts) (hor : ∀ g ∈ genes, g.Oriented) (hf : ∀ g ∈ genes, g.Faithful ref)
    (hnd : (genes.map Gene.name).Nodup) (hne : ∀ g ∈ genes, g.name ≠ "")
    (hs : genes.Pairwise (fun g h => minPos g.positions ≤ minPos h.positions)) :
    regionsFromGFF rows ref = regionsFromGenbank fs ref.length := by
  rw [genbank_annotation fs genes ref _ hfs hoff hor hf, gff_annotation rows genes ref hrows hoff hst hf hnd hne]
  have hsorted : Sorted regionStartLt (genes.map Gene.region) := by
    unfold Sorted
    rw [List.pairwise_map]
    refine List.Pairwise.imp ?_ hs
    intro g h hgh
    show decide (minPos h.positions < minPos g.positions) = false
    exact decide_eq_false (by omega)
  rw [sortStable_of_sorted _ hsorted]

/-- the rows of the genes alone (no other rows in the file) satisfy the row hypothesis -/
theorem cdsRows_genes (genes : List Gene) : cdsRows (genes.flatMap Gene.rows) = genes.flatMap Gene.rows := by
  unfold cdsRows
  rw [List.filter_flatMap]
  congr 1
  funext g
  exact rows_cds g

/-! ### the hypotheses are needed: counterexamples (all checked by evaluation) -/

/-- Oriented (forward): join(10..14,3..6), a gene across the origin of a circular genome. The GenBank route reads the
strand from first > last and says reverse; the GFF rows say '+' -/
example : (regionFromGenbank ⟨"g", .join, [(10, 14), (3, 6)], 1, stringToBytes "KK"⟩).map (·.strand) = some (-1) ∧
    (regionFromGFF (fwdRows "g" 0 (10, 14) [((3, 6), 0)]) (stringToBytes "AAAAAAAAAAAAAAAAAAAA")).map (·.strand) = some 1 := by
  decide +kernel

/-- AscStarts: the same gene, join(10..14,3..6) with rows (10,14) then (3,6). The GenBank route keeps the coding order
10..14,3..6; the GFF route (since fix a19382f) orders the rows by start and reads 3..6,10..14 -/
example : (regionFromGenbank ⟨"g", .join, [(10, 14), (3, 6)], 1, stringToBytes "KK"⟩).map (·.positions) =
      some [10, 11, 12, 13, 14, 3, 4, 5, 6] ∧
    (regionFromGFF (fwdRows "g" 0 (10, 14) [((3, 6), 0)]) (stringToBytes "AAAAAAAAAAAAAAAAAAAA")).map (·.positions) =
      some [3, 4, 5, 6, 10, 11, 12, 13, 14] := by
  decide +kernel

/-- Oriented (reverse): complement(5..5) with codon_start 2 (a one-base location): strands differ, no positions -/
example : (regionFromGenbank ⟨"g", .comp, [(5, 5)], 2, []⟩).map (fun r => (r.strand, r.positions)) = some (1, []) ∧
    (regionFromGFF (revRows "g" 1 [] (5, 5)) (stringToBytes "AAAAAAAAAA")).map (fun r => (r.strand, r.positions)) = some (-1, []) := by
  decide +kernel

/-- Offset: join(3..3,10..15) with codon_start 3: the GenBank route skips into the second segment, the GFF route
only shortens the first row -/
example : (regionFromGenbank ⟨"g", .join, [(3, 3), (10, 15)], 3, []⟩).map (·.positions) = none ∧
    (regionFromGFF (fwdRows "g" 2 (3, 3) [((10, 15), 0)]) (stringToBytes "AAAAAAAAAAAAAAAAAAAA")).map (·.positions) =
      some [10, 11, 12, 13, 14, 15] := by
  decide +kernel

def cxRef : List Nat := stringToBytes "CCATGAAATAACC"
def cxF : GbFeature := ⟨"g", .range, [(3, 11)], 1, stringToBytes "MN"⟩

/-- Faithful: the reference reads ATG AAA TAA = MK*, the qualifier says MN. Comparing the reference with itself the
GenBank route reports aa:g:N2K, the GFF route reports nothing -/
example : ((regionFromGenbank cxF).map fun r =>
      (getVariantsPair (cxRef.map (enc false)) (cxRef.map (enc false)) [r] []).map (formatVariant false)) = some ["aa:g:N2K"] ∧
    ((regionFromGFF (fwdRows "g" 0 (3, 11) []) cxRef).map fun r =>
      (getVariantsPair (cxRef.map (enc false)) (cxRef.map (enc false)) [r] []).map (formatVariant false)) = some [] := by
  decide +kernel

/-- Faithful: a reference codon that does not translate (GAN) makes the GFF route fail; the GenBank route never
looks at the reference bases -/
example : (regionFromGenbank cxF).isSome = true ∧
    (regionFromGFF (fwdRows "g" 0 (3, 11) []) (stringToBytes "CCATGANATAACC")).isSome = false := by
  decide +kernel

/-- distinct names: two genes called B share the ID cds-B, the GFF route merges their rows into one region -/
example : (regionsFromGFF (fwdRows "B" 0 (4, 12) [] ++ fwdRows "B" 0 (1, 3) []) (stringToBytes "ATGATGAAATAACC")).map
      (fun x => x.1.map (·.positions)) = some [[1, 2, 3, 4, 5, 6, 7, 8, 9, 10, 11, 12]] ∧
    (regionsFromGenbank [⟨"B", .range, [(4, 12)], 1, stringToBytes "MK"⟩, ⟨"B", .range, [(1, 3)], 1, []⟩] 14).map
      (fun x => x.1.map (·.positions)) = some [[4, 5, 6, 7, 8, 9, 10, 11, 12], [1, 2, 3]] := by
  decide +kernel

/-- non-empty names: a gene without a name is dropped by the GFF route (its positions become intergenic) and kept by
the GenBank route -/
example : (regionsFromGFF (fwdRows "" 0 (4, 12) []) (stringToBytes "ATGATGAAATAACC")).map
      (fun x => (x.1.length, x.2)) = some (0, [1, 2, 3, 4, 5, 6, 7, 8, 9, 10, 11, 12, 13, 14]) ∧
    (regionsFromGenbank [⟨"", .range, [(4, 12)], 1, stringToBytes "MK"⟩] 14).map
      (fun x => (x.1.length, x.2)) = some (1, [1, 2, 3, 13, 14]) := by
  decide +kernel

/-- order: genes listed by descending start come back in file order from the GenBank route and sorted from the GFF
route (same regions, same intergenic list) -/
example : (regionsFromGFF (fwdRows "A" 0 (4, 12) [] ++ fwdRows "B" 0 (1, 3) []) (stringToBytes "ATGATGAAATAACC")).map
      (fun x => (x.1.map (·.name), x.2)) = some (["B", "A"], [13, 14]) ∧
    (regionsFromGenbank [⟨"A", .range, [(4, 12)], 1, stringToBytes "MK"⟩, ⟨"B", .range, [(1, 3)], 1, []⟩] 14).map
      (fun x => (x.1.map (·.name), x.2)) = some (["A", "B"], [13, 14]) := by
  decide +kernel

/-- the same with the orientation hypothesis replaced by: segments written in ascending order -/
theorem variants_equiv_asc (fs : List GbFeature) (rows : List GffRow) (genes : List Gene) (ref : List Nat)
    (hfs : AllDescribe fs genes) (hrows : cdsRows rows = genes.flatMap Gene.rows)
    (hoff : ∀ g ∈ genes, g.Offset) (hasc : ∀ g ∈ genes, AscSegs g.segs) (hseg : ∀ g ∈ genes, ∀ s ∈ g.segs, s.1 ≤ s.2)
    (hf : ∀ g ∈ genes, g.Faithful ref)
    (hnd : (genes.map Gene.name).Nodup) (hne : ∀ g ∈ genes, g.name ≠ "")
    (rsB : List Region) (interB : List Nat) (hB : regionsFromGenbank fs ref.length = some (rsB, interB))
    (rsF : List Region) (interF : List Nat) (hF : regionsFromGFF rows ref = some (rsF, interF))
    (refRow qRow : List Nat) (v : Variant) :
    v ∈ getVariantsPair refRow qRow rsF interF ↔ v ∈ getVariantsPair refRow qRow rsB interB :=
  variants_equiv fs rows genes ref hfs hrows hoff
    (fun g hg => ascStarts_of_asc g (hasc g hg) (fun s hs => Nat.le_succ_of_le (hseg g hg s hs)))
    (fun g hg => oriented_of_asc_faithful g ref (hasc g hg) (hf g hg)) hf hnd hne rsB interB hB rsF interF hF refRow qRow v

/-! ### non-vacuity: a two-gene annotation satisfying every hypothesis -/

/-- positions 2..8,12..14 forward with codon_start 2 (C ATG AAA / TAA), 18..26 reverse (TTATTTCAT) -/
def nvRef : List Nat := stringToBytes "CCATGAAAGGGTAACCCTTATTTCATCC"
def nvA : Gene := .fwd "A" 1 (2, 8) [((12, 14), 0)] (stringToBytes "MK")
def nvB : Gene := .rev "B" 0 [] (18, 26) (stringToBytes "MK")
def nvFs : List GbFeature :=
  [⟨"A", .join, [(2, 8), (12, 14)], 2, stringToBytes "MK"⟩, ⟨"B", .comp, [(18, 26)], 1, stringToBytes "MK"⟩]

theorem nv_hyps : AllDescribe nvFs [nvA, nvB] ∧ (∀ g ∈ [nvA, nvB], g.Offset) ∧ (∀ g ∈ [nvA, nvB], AscSegs g.segs) ∧
    (∀ g ∈ [nvA, nvB], g.Faithful nvRef) ∧ ([nvA, nvB].map Gene.name).Nodup ∧ (∀ g ∈ [nvA, nvB], g.name ≠ "") ∧
    [nvA, nvB].Pairwise (fun g h => minPos g.positions ≤ minPos h.positions) := by
  refine ⟨?_, ?_, ?_, ?_, ?_, ?_, ?_⟩
  · refine .cons ⟨rfl, rfl, rfl, Or.inr rfl, rfl⟩ (.cons ⟨rfl, rfl, rfl, Or.inr ⟨Or.inl rfl, rfl⟩⟩ .nil)
  · intro g hg
    simp only [List.mem_cons, List.not_mem_nil, or_false] at hg
    rcases hg with rfl | rfl
    · show 1 ≤ 8 + 1 - 2; omega
    · show 0 ≤ 26 + 1 - 18 ∧ 0 ≤ 26; omega
  · intro g hg
    simp only [List.mem_cons, List.not_mem_nil, or_false] at hg
    rcases hg with rfl | rfl
    · show List.Pairwise _ [(2, 8), (12, 14)]; simp
    · show List.Pairwise _ [(18, 26)]; simp
  · intro g hg
    simp only [List.mem_cons, List.not_mem_nil, or_false] at hg
    rcases hg with rfl | rfl
    · show translateGo true _ = some _; decide +kernel
    · show translateGo true _ = some _; decide +kernel
  · decide +kernel
  · intro g hg
    simp only [List.mem_cons, List.not_mem_nil, or_false] at hg
    rcases hg with rfl | rfl <;> decide +kernel
  · simp only [List.pairwise_cons, List.mem_cons, List.not_mem_nil, or_false, forall_eq, List.Pairwise.nil, and_true,
      false_imp_iff, implies_true]
    decide +kernel

theorem nv_ascStarts : ∀ g ∈ [nvA, nvB], g.AscStarts := by
  intro g hg
  simp only [List.mem_cons, List.not_mem_nil, or_false] at hg
  rcases hg with rfl | rfl
  · show List.Pairwise _ [(2, 8), (12, 14)]; simp
  · show List.Pairwise _ [(18, 26)]; simp

/-- the theorem applies: both routes return the same pair -/
example : regionsFromGFF ([nvA, nvB].flatMap Gene.rows) nvRef = regionsFromGenbank nvFs nvRef.length := by
  obtain ⟨h1, h2, h3, h4, h5, h6, h7⟩ := nv_hyps
  exact annotation_equal_of_sorted nvFs _ [nvA, nvB] nvRef h1 (cdsRows_genes _) h2 nv_ascStarts
    (fun g hg => oriented_of_asc_faithful g nvRef (h3 g hg) (h4 g hg)) h4 h5 h6 h7

/-- and this is the pair -/
example : (regionsFromGenbank nvFs nvRef.length).map (fun x => x.1.map (fun r => (r.name, r.strand))) =
      some [("A", (1 : Int)), ("B", (-1 : Int))] ∧
    (regionsFromGenbank nvFs nvRef.length).map (fun x => x.1.map (fun r => (r.positions, bytesToString r.translation))) =
      some [([3, 4, 5, 6, 7, 8, 12, 13, 14], "MK*"), ([26, 25, 24, 23, 22, 21, 20, 19, 18], "MK*")] ∧
    (regionsFromGenbank nvFs nvRef.length).map (·.2) = some [1, 2, 9, 10, 11, 15, 16, 17, 27, 28] := by
  decide +kernel

/-! ### how much of the proviso the caller really uses -/

theorem aaStep_congr (ref q cols : List Nat) (n : String) (sd : Int) (ps t1 t2 : List Nat) (N : Nat) (s : AAState) (p : Nat)
    (ht : ∀ i, 3 * i + 3 ≤ N → t1.getD i 0 = t2.getD i 0)
    (hinv : 3 * s.aaCounter + s.codon.length + 1 ≤ N) :
    aaStep ref q cols ⟨n, sd, ps, t1⟩ s p = aaStep ref q cols ⟨n, sd, ps, t2⟩ s p := by
  unfold aaStep
  cases hl : cols[p - 1]? with
  | none => rfl
  | some c =>
    simp only []
    by_cases hc : (s.codon ++ [dec (q.getD c 0)]).length = 3
    · have h2 : s.codon.length = 2 := by simpa using hc
      have := ht s.aaCounter (by omega)
      simp only [hc, if_true, this]
    · simp only [hc, if_false]

theorem aaStep_inv (ref q cols : List Nat) (reg : Region) (s : AAState) (p : Nat) :
    3 * (aaStep ref q cols reg s p).aaCounter + (aaStep ref q cols reg s p).codon.length ≤
      3 * s.aaCounter + s.codon.length + 1 := by
  unfold aaStep
  cases hl : cols[p - 1]? with
  | none => simp only []; omega
  | some c =>
    simp only []
    split
    · rename_i hc
      have h2 : s.codon.length = 2 := by simpa using hc
      split <;> split <;> (dsimp only [List.length_nil]; omega)
    · simp only [List.length_append, List.length_singleton]
      omega

theorem aaFold_congr (ref q cols : List Nat) (n : String) (sd : Int) (ps t1 t2 : List Nat) (N : Nat)
    (ht : ∀ i, 3 * i + 3 ≤ N → t1.getD i 0 = t2.getD i 0) :
    ∀ (l : List Nat) (s : AAState), 3 * s.aaCounter + s.codon.length + l.length ≤ N →
    l.foldl (aaStep ref q cols ⟨n, sd, ps, t1⟩) s = l.foldl (aaStep ref q cols ⟨n, sd, ps, t2⟩) s := by
  intro l
  induction l with
  | nil => intro s _; rfl
  | cons p t ih =>
    intro s hinv
    simp only [List.length_cons] at hinv
    rw [List.foldl_cons, List.foldl_cons, aaStep_congr ref q cols n sd ps t1 t2 N s p ht (by omega)]
    apply ih
    have := aaStep_inv ref q cols ⟨n, sd, ps, t2⟩ s p
    omega

/-- **getAAsPair_congr** - the caller reads the reference amino acids of a region only at the indices of its whole
codons: two regions with the same name, strand and positions whose translations agree there give the same records -/
theorem getAAsPair_congr (ref q cols : List Nat) (r1 r2 : Region) (hn : r1.name = r2.name) (hs : r1.strand = r2.strand)
    (hp : r1.positions = r2.positions)
    (ht : ∀ i, 3 * i + 3 ≤ r1.positions.length → r1.translation.getD i 0 = r2.translation.getD i 0) :
    getAAsPair ref q cols r1 = getAAsPair ref q cols r2 := by
  obtain ⟨n1, s1, p1, t1⟩ := r1
  obtain ⟨n2, s2, p2, t2⟩ := r2
  simp only at hn hs hp ht
  subst hn hs hp
  unfold getAAsPair
  simp only []
  rw [aaFold_congr ref q cols n1 s1 p1 t1 t2 p1.length ht p1 {} (by simp)]

/-- **aas_equiv_weak** - one gene, both ways, under the weaker proviso "the qualifier agrees with the translation of
the reference on the gene's whole codons" (e.g. a partial CDS without stop codon, where the appended '*' makes the
two translation strings differ): the amino-acid and codon records of the two regions are the same -/
theorem aas_equiv_weak (f : GbFeature) (g : Gene) (ref : List Nat) (r1 r2 : Region) (hd : Describes f g)
    (hoff : g.Offset) (hst : g.AscStarts) (hor : g.Oriented) (h1 : regionFromGenbank f = some r1)
    (h2 : regionFromGFF g.rows ref = some r2)
    (hw : ∀ i, 3 * i + 3 ≤ r1.positions.length → r1.translation.getD i 0 = r2.translation.getD i 0)
    (refRow qRow cols : List Nat) : getAAsPair refRow qRow cols r1 = getAAsPair refRow qRow cols r2 := by
  obtain ⟨hp, hn, hs, _⟩ := fields_equiv f g ref r1 r2 hd hoff hst h1 h2
  exact getAAsPair_congr refRow qRow cols r1 r2 hn (hs hor) hp hw

/-- a CDS without stop codon (3..8 = ATG AAA, qualifier MK): the regions differ in the translation (MK* against MK),
the proviso `Faithful` fails, the weak proviso holds -/
example : (regionFromGenbank ⟨"g", .range, [(3, 8)], 1, stringToBytes "MK"⟩).map (fun r => bytesToString r.translation) = some "MK*" ∧
    (regionFromGFF (fwdRows "g" 0 (3, 8) []) (stringToBytes "CCATGAAACC")).map (fun r => bytesToString r.translation) = some "MK" := by
  decide +kernel

end Gofasta.Lemmas.RegionEquiv
