import Gofasta.Spec.Updown
/-
C10: an `updown list` row is a lossless summary — from the row and the (A/C/G/T) reference every column of the
sequence is recovered, up to the identity of its non-A/C/G/T symbols.
-/
namespace Gofasta.Lemmas
open Gofasta Base Model Spec

/-! ### where the tracts are -/

theorem mem_takeWhile_pred (f : Nat → Bool) : ∀ (l : List Nat) (x : Nat), x ∈ l.takeWhile f → f x = true := by
  intro l
  induction l with
  | nil => intro x hx; simp at hx
  | cons a t ih =>
    intro x hx
    simp only [List.takeWhile_cons] at hx
    split at hx
    · rename_i ha
      rcases List.mem_cons.1 hx with rfl | h
      · exact ha
      · exact ih x h
    · simp at hx

theorem getD_cons_succ' (b : Nat) (t : List Nat) (k d : Nat) : (b :: t).getD (k + 1) d = t.getD k d := by simp

/-- p is inside one of the tracts computed for q (placed after column i) iff column p of q is not A/C/G/T -/
theorem inTracts_specRuns : ∀ (n : Nat) (q : List Nat) (i p : Nat), q.length ≤ n →
    inTracts p (specRuns i q) = (decide (i < p) && !isACGT (q.getD (p - 1 - i) 65)) := by
  intro n
  induction n with
  | zero =>
    intro q i p hq
    have : q = [] := by cases q <;> simp_all
    subst this
    rw [specRuns]
    have : isACGT 65 = true := by decide
    simp [inTracts, this]
  | succ n ih =>
    intro q i p hq
    cases q with
    | nil =>
      rw [specRuns]
      have : isACGT 65 = true := by decide
      simp [inTracts, this]
    | cons b t =>
      have hA : isACGT 65 = true := by decide
      rw [specRuns]
      by_cases hb : isACGT b = true
      · simp only [hb, if_true]
        rw [ih t (i + 1) p (by simp at hq; omega)]
        by_cases hp : i + 1 < p
        · have h1 : i < p := by omega
          have h2 : p - 1 - i = (p - 1 - (i + 1)) + 1 := by omega
          rw [h2, getD_cons_succ']
          simp [hp, h1]
        · by_cases hp2 : i < p
          · have h3 : p - 1 - i = 0 := by omega
            simp [hp, hp2, h3, hb]
          · simp [hp, hp2]
      · have hb' : isACGT b = false := by simpa using hb
        simp only [hb', Bool.false_eq_true, if_false]
        -- the run and the rest
        have hsplit : t = (t.takeWhile fun x => !isACGT x) ++ (t.dropWhile fun x => !isACGT x) :=
          (List.takeWhile_append_dropWhile).symm
        generalize hrun : (t.takeWhile fun x => !isACGT x) = run at *
        generalize hrest : (t.dropWhile fun x => !isACGT x) = rest at *
        have hrunAll : ∀ x ∈ run, isACGT x = false := by
          intro x hx
          rw [← hrun] at hx
          have := mem_takeWhile_pred _ _ _ hx
          simpa using this
        have hlen : rest.length ≤ n := by
          have : t.length = run.length + rest.length := by rw [hsplit]; simp
          simp at hq; omega
        simp only [inTracts, List.any_cons]
        have ihr := ih rest (i + 1 + run.length) p hlen
        simp only [inTracts] at ihr
        rw [ihr]
        by_cases hp : i < p
        · by_cases hin : p ≤ i + 1 + run.length
          · -- inside the run b :: run
            have hidx : p - 1 - i < (b :: run).length := by simp; omega
            have hget : (b :: t).getD (p - 1 - i) 65 = (b :: run).getD (p - 1 - i) 65 := by
              rw [hsplit]
              simp only [List.getD_eq_getElem?_getD]
              rw [← List.cons_append, List.getElem?_append_left hidx]
            have hmem : (b :: run).getD (p - 1 - i) 65 ∈ b :: run := by
              rw [List.getD_eq_getElem?_getD, List.getElem?_eq_getElem hidx]
              exact List.getElem_mem hidx
            have hamb : isACGT ((b :: run).getD (p - 1 - i) 65) = false := by
              rcases List.mem_cons.1 hmem with h | h
              · rw [h]; exact hb'
              · exact hrunAll _ h
            rw [hget, hamb]
            have h1 : i + 1 ≤ p := by omega
            simp [hp, hin, h1]
          · have h1 : ¬ (i + 1 ≤ p ∧ p ≤ i + 1 + run.length) := by omega
            have h2 : i + 1 + run.length < p := by omega
            have hget : (b :: t).getD (p - 1 - i) 65 = rest.getD (p - 1 - (i + 1 + run.length)) 65 := by
              rw [hsplit]
              have e : p - 1 - i = (b :: run).length + (p - 1 - (i + 1 + run.length)) := by simp; omega
              simp only [List.getD_eq_getElem?_getD]
              rw [← List.cons_append, e, List.getElem?_append_right (by omega)]
              simp
            rw [hget]
            simp [hp, h2, hin]
        · have h1 : ¬ (i + 1 ≤ p) := by omega
          have h2 : ¬ (i + 1 + run.length < p) := by omega
          simp [hp, h1, h2]

end Gofasta.Lemmas

namespace Gofasta.Lemmas
open Gofasta Base Model Spec

/-! ### where the SNPs are, and the reconstruction -/

theorem specUdSnps_pos : ∀ (ref q : List Nat) (i : Nat), ∀ s ∈ specUdSnps i ref q, i < s.1 := by
  intro ref
  induction ref with
  | nil => intro q i s hs; simp [specUdSnps] at hs
  | cons r rs ih =>
    intro q i s hs
    cases q with
    | nil => simp [specUdSnps] at hs
    | cons b qs =>
      simp only [specUdSnps] at hs
      split at hs
      · rcases List.mem_cons.1 hs with rfl | h
        · simp
        · have := ih qs (i + 1) s h; omega
      · have := ih qs (i + 1) s hs; omega

theorem snpAt_none_of_gt (p : Nat) (l : List Snp) (h : ∀ s ∈ l, p < s.1) : snpAt p l = none := by
  unfold snpAt
  have : l.find? (fun s => s.1 == p) = none := by
    rw [List.find?_eq_none]
    intro s hs
    have := h s hs
    simp; omega
  rw [this]; rfl

theorem upper_acgt (b : Nat) (h : isACGT b = true) : upper b = 65 ∨ upper b = 67 ∨ upper b = 71 ∨ upper b = 84 := by
  have : ((upper b = 65 ∨ upper b = 67) ∨ upper b = 71) ∨ upper b = 84 := by simpa [isACGT] using h
  omega

theorem upper_idem_val (b : Nat) (v : Nat) (hv : v = 65 ∨ v = 67 ∨ v = 71 ∨ v = 84) (h : upper b = v) : b ≠ 45 ∧ b ≠ 63 := by
  constructor <;> intro hb <;> subst hb <;> simp [upper] at h <;> omega

/-- for two A/C/G/T symbols, "base sets disjoint" is "different letters" -/
theorem disjoint_acgt (r q : Nat) (hr : isACGT r = true) (hq : isACGT q = true) :
    disjointSyms false r q = true ↔ upper r ≠ upper q := by
  have h1 := upper_acgt r hr
  have h2 := upper_acgt q hq
  have ⟨hr1, hr2⟩ := upper_idem_val r (upper r) h1 rfl
  have ⟨hq1, hq2⟩ := upper_idem_val q (upper q) h2 rfl
  unfold disjointSyms baseSet
  simp only [hr1, hr2, hq1, hq2, if_false]
  rcases h1 with h1 | h1 | h1 | h1 <;> rcases h2 with h2 | h2 | h2 | h2 <;> rw [h1, h2] <;> decide

theorem reconstruct_gen : ∀ (ref q : List Nat) (i : Nat), ref.length = q.length → (∀ r ∈ ref, isACGT r = true) →
    ∀ (snps : List Snp) (ambs : List (Nat × Nat)),
    (∀ p, i < p → snpAt p snps = snpAt p (specUdSnps i ref q)) →
    (∀ p, i < p → inTracts p ambs = inTracts p (specRuns i q)) →
    reconstructFrom snps ambs i ref = q.map mask := by
  intro ref
  induction ref with
  | nil =>
    intro q i hl _ snps ambs _ _
    have : q = [] := by cases q with | nil => rfl | cons _ _ => simp at hl
    subst this; rfl
  | cons r rs ih =>
    intro q i hl hacgt snps ambs hs ha
    cases q with
    | nil => simp at hl
    | cons b qs =>
      have hr : isACGT r = true := hacgt r (List.mem_cons_self)
      simp only [reconstructFrom, List.map_cons]
      have hcol := ha (i + 1) (by omega)
      rw [inTracts_specRuns _ (b :: qs) i (i + 1) (Nat.le_refl _)] at hcol
      have e0 : i + 1 - 1 - i = 0 := by omega
      simp only [e0, List.getD_cons_zero, Nat.lt_add_one, decide_true, Bool.true_and] at hcol
      congr 1
      · by_cases hb : isACGT b = true
        · simp only [hcol, hb, Bool.not_true, Bool.false_eq_true, if_false, mask, if_true]
          rw [hs (i + 1) (by omega)]
          simp only [specUdSnps, hb, Bool.true_and]
          by_cases hd : disjointSyms false r b = true
          · simp [hd, snpAt]
          · simp only [hd, Bool.false_eq_true, if_false]
            rw [snpAt_none_of_gt (i + 1) _ (specUdSnps_pos rs qs (i + 1))]
            simp only []
            have hiff := disjoint_acgt r b hr hb
            have : ¬ (upper r ≠ upper b) := fun hne => hd (hiff.2 hne)
            have heq : upper r = upper b := Classical.byContradiction this
            exact heq
        · have hb' : isACGT b = false := by simpa using hb
          simp [hcol, hb', mask]
      · apply ih qs (i + 1) (by simpa using hl) (fun x hx => hacgt x (List.mem_cons_of_mem _ hx)) snps ambs
        · intro p hp
          rw [hs p (by omega)]
          simp only [specUdSnps]
          split
          · unfold snpAt
            have : ((i + 1 : Nat) == p) = false := by simp; omega
            simp [List.find?_cons, this]
          · rfl
        · intro p hp
          rw [ha p (by omega), inTracts_specRuns _ (b :: qs) i p (Nat.le_refl _), inTracts_specRuns _ qs (i + 1) p (Nat.le_refl _)]
          have h1 : i < p := by omega
          have h2 : p - 1 - i = (p - 1 - (i + 1)) + 1 := by omega
          rw [h2, getD_cons_succ']
          simp [h1, hp]

/-- **C10.lossless** — from the row `updown list` writes and an A/C/G/T reference, every column of the sequence is
recovered: the listed base at a SNP, the reference base at every other A/C/G/T column, and '?' (identity not
recorded) exactly at the columns inside the ambiguity ranges -/
theorem reconstruct_row (id : String) (ref q : List Nat) (hl : ref.length = q.length) (hacgt : ∀ r ∈ ref, isACGT r = true) :
    reconstruct ref (specUdLine id ref q) = q.map mask :=
  reconstruct_gen ref q 0 hl hacgt _ _ (fun _ _ => rfl) (fun _ _ => rfl)

end Gofasta.Lemmas
