import Gofasta.Lemmas.UpdownRecon
import Gofasta.Lemmas.Enc
import Gofasta.Props.C10
import Gofasta.Model.Updown
import Gofasta.Spec.Updown
/-
WhichWaySpec: the classification `whichWay` computes from two `updown list` rows (SNP lists and ambiguity
tracts only) is the classification computed column by column from the three sequences (`pairTable`).
-/
namespace Gofasta.Lemmas.WhichWaySpec
open Gofasta Base Model Spec Lemmas

/-! ### the two loops of whichWay as counts -/

/-- SNPs of `l` that fall inside a tract of the other row -/
def cntAmb (l : List Snp) (ambs : List (Nat × Nat)) : Nat := l.countP fun s => isSiteAmb s.1 ambs

/-- SNPs of `l` outside the other row's tracts that the other row lists too -/
def cntShared (l : List Snp) (ambs : List (Nat × Nat)) (snps : List Snp) : Nat :=
  l.countP fun s => !isSiteAmb s.1 ambs && snps.contains s

/-- is `s` a private SNP: outside the other row's tracts and not listed by the other row -/
def isOnly (ambs : List (Nat × Nat)) (snps : List Snp) (s : Snp) : Bool := !isSiteAmb s.1 ambs && !snps.contains s

def cntOnly (l : List Snp) (ambs : List (Nat × Nat)) (snps : List Snp) : Nat := l.countP (isOnly ambs snps)

/-- positions of the private SNPs of `l` -/
def dList (l : List Snp) (ambs : List (Nat × Nat)) (snps : List Snp) : List Nat := (l.filter (isOnly ambs snps)).map (·.1)

/-- private SNPs of `l` whose position is not in `d` -/
def cntPlus (l : List Snp) (ambs : List (Nat × Nat)) (snps : List Snp) (d : List Nat) : Nat :=
  l.countP fun s => isOnly ambs snps s && !d.contains s.1

def loop1 (t : UDLine) (w : WhichWay) (s : Snp) : WhichWay :=
  if isSiteAmb s.1 t.ambs then { w with amb := w.amb + 1 }
  else if t.snps.contains s then { w with shared := w.shared + 1 }
  else { w with qOnly := w.qOnly + 1, d := w.d ++ [s.1] }

def loop2 (q : UDLine) (w : WhichWay) (s : Snp) : WhichWay :=
  if isSiteAmb s.1 q.ambs then { w with amb := w.amb + 1 }
  else if !q.snps.contains s then
    { w with tOnly := w.tOnly + 1, dPlus := if w.d.contains s.1 then w.dPlus else w.dPlus + 1 }
  else w

theorem whichWayTable_loops (q t : UDLine) : whichWayTable q t = t.snps.foldl (loop2 q) (q.snps.foldl (loop1 t) {}) := rfl

theorem loop1_fold (t : UDLine) : ∀ (l : List Snp) (w : WhichWay),
    l.foldl (loop1 t) w = WhichWay.mk (w.qOnly + cntOnly l t.ambs t.snps) (w.shared + cntShared l t.ambs t.snps) w.tOnly
      (w.amb + cntAmb l t.ambs) (w.d ++ dList l t.ambs t.snps) w.dPlus := by
  intro l
  induction l with
  | nil => intro w; cases w; simp [cntOnly, cntShared, cntAmb, dList]
  | cons s l ih =>
    intro w
    rw [List.foldl_cons, ih]
    simp only [cntOnly, cntShared, cntAmb, dList, List.countP_cons, List.filter_cons, isOnly, loop1]
    by_cases h1 : isSiteAmb s.1 t.ambs = true
    · simp [h1]; omega
    · by_cases h2 : s ∈ t.snps
      · simp [h1, h2]; omega
      · simp [h1, h2]; omega

theorem loop2_fold (q : UDLine) : ∀ (l : List Snp) (w : WhichWay),
    l.foldl (loop2 q) w = WhichWay.mk w.qOnly w.shared (w.tOnly + cntOnly l q.ambs q.snps)
      (w.amb + cntAmb l q.ambs) w.d (w.dPlus + cntPlus l q.ambs q.snps w.d) := by
  intro l
  induction l with
  | nil => intro w; cases w; simp [cntOnly, cntPlus, cntAmb]
  | cons s l ih =>
    intro w
    rw [List.foldl_cons, ih]
    simp only [cntOnly, cntPlus, cntAmb, List.countP_cons, isOnly, loop2]
    by_cases h1 : isSiteAmb s.1 q.ambs = true
    · simp [h1]; omega
    · by_cases h2 : s ∈ q.snps
      · simp [h1, h2]
      · by_cases h3 : s.1 ∈ w.d
        · simp [h1, h2, h3]; omega
        · simp [h1, h2, h3]; omega

/-- the table of whichWay, as counts over the two SNP lists -/
theorem whichWayTable_counts (q t : UDLine) :
    whichWayTable q t = WhichWay.mk (cntOnly q.snps t.ambs t.snps) (cntShared q.snps t.ambs t.snps)
      (cntOnly t.snps q.ambs q.snps) (cntAmb q.snps t.ambs + cntAmb t.snps q.ambs) (dList q.snps t.ambs t.snps)
      (cntPlus t.snps q.ambs q.snps (dList q.snps t.ambs t.snps)) := by
  rw [whichWayTable_loops, loop1_fold, loop2_fold]
  simp


/-! ### a row seen from column `i` on -/

/-- is (r, x) a SNP column of the row of x -/
def snpCol (r x : Nat) : Bool := isACGT x && disjointSyms false r x

theorem snpCol_acgt (r x : Nat) (hr : isACGT r = true) : snpCol r x = (isACGT x && upper x != upper r) := by
  unfold snpCol
  by_cases hx : isACGT x = true
  · have h := disjoint_acgt r x hr hx
    by_cases hd : disjointSyms false r x = true
    · have := h.1 hd
      simp [hx, hd]; omega
    · have hne : ¬ (upper r ≠ upper x) := fun hne => hd (h.2 hne)
      have : upper r = upper x := Classical.byContradiction hne
      simp [hx, hd, this]
  · simp [hx]

theorem specUdSnps_cons (i r x : Nat) (rs xs : List Nat) :
    specUdSnps i (r :: rs) (x :: xs) =
      if snpCol r x then (i + 1, upper r, upper x) :: specUdSnps (i + 1) rs xs else specUdSnps (i + 1) rs xs := by
  rw [specUdSnps]; rfl

/-- the tracts `ambs` and SNP list `snps` agree, on every column after `i`, with those of the row (rs, xs)
    placed after column `i` -/
def Agree (i : Nat) (rs xs : List Nat) (ambs : List (Nat × Nat)) (snps : List Snp) : Prop :=
  (∀ p, i < p → isSiteAmb p ambs = inTracts p (specRuns i xs)) ∧
  (∀ s : Snp, i < s.1 → snps.contains s = (specUdSnps i rs xs).contains s)

theorem agree_self (rs xs : List Nat) : Agree 0 rs xs (specRuns 0 xs) (specUdSnps 0 rs xs) :=
  ⟨fun _ _ => rfl, fun _ _ => rfl⟩

theorem contains_false_of_pos (l : List Snp) (s : Snp) (h : ∀ s' ∈ l, s.1 < s'.1) : l.contains s = false := by
  cases hc : l.contains s with
  | false => rfl
  | true =>
    have hm : s ∈ l := by simpa using hc
    have := h s hm
    omega

theorem agree_step {i r x : Nat} {rs xs : List Nat} {ambs : List (Nat × Nat)} {snps : List Snp}
    (h : Agree i (r :: rs) (x :: xs) ambs snps) : Agree (i + 1) rs xs ambs snps := by
  obtain ⟨ha, hs⟩ := h
  constructor
  · intro p hp
    rw [ha p (by omega), inTracts_specRuns _ (x :: xs) i p (Nat.le_refl _), inTracts_specRuns _ xs (i + 1) p (Nat.le_refl _)]
    have h1 : i < p := by omega
    have h2 : p - 1 - i = (p - 1 - (i + 1)) + 1 := by omega
    rw [h2, getD_cons_succ']
    simp [h1, hp]
  · intro s hp
    rw [hs s (by omega), specUdSnps_cons]
    split
    · rw [List.contains_cons]
      have : (s == ((i + 1, upper r, upper x) : Snp)) = false := by
        cases hb : (s == ((i + 1, upper r, upper x) : Snp)) with
        | false => rfl
        | true =>
          have : s = (i + 1, upper r, upper x) := by simpa using hb
          rw [this] at hp; simp at hp
      rw [this, Bool.false_or]
    · rfl

theorem agree_head_amb {i r x : Nat} {rs xs : List Nat} {ambs : List (Nat × Nat)} {snps : List Snp}
    (h : Agree i (r :: rs) (x :: xs) ambs snps) : isSiteAmb (i + 1) ambs = !isACGT x := by
  rw [h.1 (i + 1) (by omega), inTracts_specRuns _ (x :: xs) i (i + 1) (Nat.le_refl _)]
  have e0 : i + 1 - 1 - i = 0 := by omega
  simp

theorem agree_head_snp {i r x : Nat} {rs xs : List Nat} {ambs : List (Nat × Nat)} {snps : List Snp}
    (h : Agree i (r :: rs) (x :: xs) ambs snps) (a b : Nat) :
    snps.contains (i + 1, a, b) = (snpCol r x && (a == upper r) && (b == upper x)) := by
  rw [h.2 (i + 1, a, b) (by simp), specUdSnps_cons]
  have htail : (specUdSnps (i + 1) rs xs).contains ((i + 1, a, b) : Snp) = false :=
    contains_false_of_pos _ _ (fun s' hs' => specUdSnps_pos rs xs (i + 1) s' hs')
  by_cases hc : snpCol r x = true
  · simp only [hc, if_true, List.contains_cons, htail, Bool.or_false, Bool.true_and]
    rw [Bool.eq_iff_iff]; simp
  · simp only [hc, Bool.false_eq_true, if_false, htail]
    simp


/-! ### one column of the declarative table -/

def b2n (b : Bool) : Nat := if b then 1 else 0

theorem pairCol_qOnly (r q t : Nat) (p : PairTable) :
    (pairCol r q t p).qOnly = p.qOnly + b2n (isACGT q && upper q != upper r && isACGT t && !(upper t == upper q)) := by
  simp only [pairCol]
  generalize isACGT q = aq; generalize isACGT t = at_; generalize (upper q != upper r) = dq
  generalize (upper t != upper r) = dt; generalize (upper t == upper q) = e; generalize (upper q != upper t) = f
  cases aq <;> cases at_ <;> cases dq <;> cases dt <;> cases e <;> cases f <;> rfl

theorem pairCol_shared (r q t : Nat) (p : PairTable) :
    (pairCol r q t p).shared = p.shared + b2n (isACGT q && upper q != upper r && isACGT t && (upper t == upper q)) := by
  simp only [pairCol]
  generalize isACGT q = aq; generalize isACGT t = at_; generalize (upper q != upper r) = dq
  generalize (upper t != upper r) = dt; generalize (upper t == upper q) = e; generalize (upper q != upper t) = f
  cases aq <;> cases at_ <;> cases dq <;> cases dt <;> cases e <;> cases f <;> rfl

theorem pairCol_tOnly (r q t : Nat) (p : PairTable) :
    (pairCol r q t p).tOnly = p.tOnly + b2n (isACGT t && upper t != upper r && isACGT q && !(upper t == upper q)) := by
  simp only [pairCol]
  generalize isACGT q = aq; generalize isACGT t = at_; generalize (upper q != upper r) = dq
  generalize (upper t != upper r) = dt; generalize (upper t == upper q) = e; generalize (upper q != upper t) = f
  cases aq <;> cases at_ <;> cases dq <;> cases dt <;> cases e <;> cases f <;> rfl

theorem pairCol_amb (r q t : Nat) (p : PairTable) :
    (pairCol r q t p).amb = p.amb + (b2n (isACGT q && upper q != upper r && !isACGT t) +
      b2n (isACGT t && upper t != upper r && !isACGT q)) := by
  simp only [pairCol]
  generalize isACGT q = aq; generalize isACGT t = at_; generalize (upper q != upper r) = dq
  generalize (upper t != upper r) = dt; generalize (upper t == upper q) = e; generalize (upper q != upper t) = f
  cases aq <;> cases at_ <;> cases dq <;> cases dt <;> cases e <;> cases f <;> rfl

theorem pairCol_dist (r q t : Nat) (p : PairTable) :
    (pairCol r q t p).dist = p.dist + b2n (isACGT q && isACGT t && upper q != upper t) := by
  simp only [pairCol]
  generalize isACGT q = aq; generalize isACGT t = at_; generalize (upper q != upper r) = dq
  generalize (upper t != upper r) = dt; generalize (upper t == upper q) = e; generalize (upper q != upper t) = f
  cases aq <;> cases at_ <;> cases dq <;> cases dt <;> cases e <;> cases f <;> rfl

theorem pairTable_cons (r q t : Nat) (rs qs ts : List Nat) :
    pairTable (r :: rs) (q :: qs) (t :: ts) = pairCol r q t (pairTable rs qs ts) := rfl

theorem countP_ifcons (P : Snp → Bool) (c : Bool) (h : Snp) (tl : List Snp) :
    (if c = true then h :: tl else tl).countP P = tl.countP P + b2n (c && P h) := by
  cases c <;> simp [b2n, List.countP_cons]


theorem dList_ifcons (c : Bool) (h : Snp) (tl : List Snp) (ambs : List (Nat × Nat)) (snps : List Snp) :
    dList (if c = true then h :: tl else tl) ambs snps =
      if (c && isOnly ambs snps h) = true then h.1 :: dList tl ambs snps else dList tl ambs snps := by
  cases c
  · simp
  · cases hh : isOnly ambs snps h <;> simp [dList, hh]

theorem dList_contains_false (l : List Snp) (ambs : List (Nat × Nat)) (snps : List Snp) (p : Nat)
    (h : ∀ s ∈ l, p < s.1) : (dList l ambs snps).contains p = false := by
  cases hc : (dList l ambs snps).contains p with
  | false => rfl
  | true =>
    have hm : p ∈ dList l ambs snps := by simpa using hc
    simp only [dList, List.mem_map, List.mem_filter] at hm
    obtain ⟨s, ⟨hs, _⟩, rfl⟩ := hm
    have := h s hs
    omega

/-! ### the column-by-column induction -/

theorem cols : ∀ (rs qs ts : List Nat) (i : Nat), rs.length = qs.length → rs.length = ts.length →
    (∀ r ∈ rs, isACGT r = true) → ∀ (qambs tambs : List (Nat × Nat)) (qsnps tsnps : List Snp) (d : List Nat),
    Agree i rs qs qambs qsnps → Agree i rs ts tambs tsnps →
    (∀ p, i < p → d.contains p = (dList (specUdSnps i rs qs) tambs tsnps).contains p) →
    cntOnly (specUdSnps i rs qs) tambs tsnps = (pairTable rs qs ts).qOnly ∧
    cntShared (specUdSnps i rs qs) tambs tsnps = (pairTable rs qs ts).shared ∧
    cntOnly (specUdSnps i rs ts) qambs qsnps = (pairTable rs qs ts).tOnly ∧
    cntAmb (specUdSnps i rs qs) tambs + cntAmb (specUdSnps i rs ts) qambs = (pairTable rs qs ts).amb ∧
    cntOnly (specUdSnps i rs qs) tambs tsnps + cntPlus (specUdSnps i rs ts) qambs qsnps d = (pairTable rs qs ts).dist := by
  intro rs
  induction rs with
  | nil =>
    intro qs ts i _ _ _ qambs tambs qsnps tsnps d _ _ _
    simp [specUdSnps, cntOnly, cntShared, cntAmb, cntPlus, pairTable]
  | cons r rs ih =>
    intro qs ts i hl1 hl2 hacgt qambs tambs qsnps tsnps d hq ht hd
    cases qs with
    | nil => simp at hl1
    | cons q qs =>
    cases ts with
    | nil => simp at hl2
    | cons t ts =>
    have hr : isACGT r = true := hacgt r List.mem_cons_self
    have hdh : d.contains (i + 1) = (snpCol r q && isOnly tambs tsnps (i + 1, upper r, upper q)) := by
      rw [hd (i + 1) (by omega), specUdSnps_cons, dList_ifcons]
      have htl := dList_contains_false (specUdSnps (i + 1) rs qs) tambs tsnps (i + 1)
        (fun s hs => specUdSnps_pos rs qs (i + 1) s hs)
      split
      · rename_i hc; rw [hc]; simp
      · rename_i hc
        have : (snpCol r q && isOnly tambs tsnps (i + 1, upper r, upper q)) = false := by simpa using hc
        rw [this, htl]
    have hd1 : ∀ p, i + 1 < p → d.contains p = (dList (specUdSnps (i + 1) rs qs) tambs tsnps).contains p := by
      intro p hp
      rw [hd p (by omega), specUdSnps_cons, dList_ifcons]
      split
      · rw [List.contains_cons]
        have : (p == i + 1) = false := by simp; omega
        rw [this, Bool.false_or]
      · rfl
    obtain ⟨ih1, ih2, ih3, ih4, ih5⟩ := ih qs ts (i + 1) (by simpa using hl1) (by simpa using hl2)
      (fun x hx => hacgt x (List.mem_cons_of_mem _ hx)) qambs tambs qsnps tsnps d (agree_step hq) (agree_step ht) hd1
    have aq := agree_head_amb hq
    have at_ := agree_head_amb ht
    have cq := agree_head_snp hq
    have ct := agree_head_snp ht
    simp only [isOnly] at hdh
    rw [pairTable_cons, pairCol_qOnly, pairCol_shared, pairCol_tOnly, pairCol_amb, pairCol_dist, ← ih1, ← ih2, ← ih3,
      ← ih4, ← ih5]
    simp only [specUdSnps_cons, cntOnly, cntShared, cntAmb, cntPlus, countP_ifcons, isOnly, aq, at_, cq, ct, hdh,
      snpCol_acgt _ _ hr]
    clear ih ih1 ih2 ih3 ih4 ih5 hd hd1 hdh hq ht aq at_ cq ct hacgt hl1 hl2
    generalize isACGT q = A
    generalize isACGT t = B
    generalize upper q = uq
    generalize upper t = ut
    generalize upper r = ur
    by_cases h1 : uq = ur
    · subst h1
      by_cases h2 : ut = uq
      · subst h2
        cases A <;> cases B <;> simp [b2n] <;> omega
      · have h2' : ¬ uq = ut := fun h => h2 h.symm
        cases A <;> cases B <;> simp [b2n, h2, h2'] <;> omega
    · by_cases h2 : ut = ur
      · subst h2
        have h1' : ¬ ut = uq := fun h => h1 h.symm
        cases A <;> cases B <;> simp [b2n, h1, h1'] <;> omega
      · by_cases h3 : ut = uq
        · subst h3
          cases A <;> cases B <;> simp [b2n, h1] <;> omega
        · have h3' : ¬ uq = ut := fun h => h3 h.symm
          cases A <;> cases B <;> simp [b2n, h1, h2, h3, h3'] <;> omega


theorem dList_length (l : List Snp) (ambs : List (Nat × Nat)) (snps : List Snp) :
    (dList l ambs snps).length = cntOnly l ambs snps := by
  simp [dList, cntOnly, List.countP_eq_length_filter]

/-! ### main theorems -/

/-- **the table from the two rows is the table from the three sequences**: for an A/C/G/T reference and two
sequences of the reference's length, the four counters of `whichWay` computed from the two `updown list` rows
(SNP lists and ambiguity tracts only) are the declarative column counts, and the SNP distance it reports
(query-only positions plus target-only SNPs at other positions) is the number of columns where both sequences are
A/C/G/T and differ -/
theorem whichWayTable_spec (idq idt : String) (ref q t : List Nat) (hq : ref.length = q.length)
    (ht : ref.length = t.length) (hacgt : ∀ r ∈ ref, isACGT r = true) :
    (whichWayTable (specUdLine idq ref q) (specUdLine idt ref t)).qOnly = (pairTable ref q t).qOnly ∧
    (whichWayTable (specUdLine idq ref q) (specUdLine idt ref t)).shared = (pairTable ref q t).shared ∧
    (whichWayTable (specUdLine idq ref q) (specUdLine idt ref t)).tOnly = (pairTable ref q t).tOnly ∧
    (whichWayTable (specUdLine idq ref q) (specUdLine idt ref t)).amb = (pairTable ref q t).amb ∧
    (whichWayTable (specUdLine idq ref q) (specUdLine idt ref t)).d.length +
      (whichWayTable (specUdLine idq ref q) (specUdLine idt ref t)).dPlus = (pairTable ref q t).dist := by
  rw [whichWayTable_counts]
  simp only [specUdLine, dList_length]
  exact cols ref q t 0 hq ht hacgt (specRuns 0 q) (specRuns 0 t) (specUdSnps 0 ref q) (specUdSnps 0 ref t) _
    (agree_self ref q) (agree_self ref t) (fun _ _ => rfl)

/-- the verdict of `whichWay` on two rows, from the sequences: dropped exactly when the share of consequential
ambiguous columns exceeds the threshold, otherwise the bin of `binOf` and the distance of `pairTable`
(this is the test and the (bin, dist) that `Spec.candidates` uses) -/
theorem whichWay_spec (idq idt : String) (ref q t : List Nat) (n d : Nat) (hq : ref.length = q.length)
    (ht : ref.length = t.length) (hacgt : ∀ r ∈ ref, isACGT r = true) :
    whichWay (specUdLine idq ref q) (specUdLine idt ref t) n d =
      if (pairTable ref q t).qOnly + (pairTable ref q t).tOnly + (pairTable ref q t).shared + (pairTable ref q t).amb > 0 ∧
          (pairTable ref q t).amb * d >
            n * ((pairTable ref q t).qOnly + (pairTable ref q t).tOnly + (pairTable ref q t).shared + (pairTable ref q t).amb)
      then none else some (binOf (pairTable ref q t), (pairTable ref q t).dist) := by
  obtain ⟨e1, e2, e3, e4, e5⟩ := whichWayTable_spec idq idt ref q t hq ht hacgt
  simp only [whichWay, binOf, e1, e2, e3, e4, e5]
  have hs : (pairTable ref q t).qOnly + (pairTable ref q t).shared + (pairTable ref q t).tOnly + (pairTable ref q t).amb =
      (pairTable ref q t).qOnly + (pairTable ref q t).tOnly + (pairTable ref q t).shared + (pairTable ref q t).amb := by omega
  rw [hs]

/-- the same for the rows the model computes from the encoded sequences (`getLine`), for sequences over the
accepted alphabet -/
theorem whichWayTable_getLine (idq idt : String) (ref q t : List Nat) (hq : ref.length = q.length)
    (ht : ref.length = t.length) (hacgt : ∀ r ∈ ref, isACGT r = true)
    (hr : Props.C10.Accepted ref) (haq : Props.C10.Accepted q) (hat : Props.C10.Accepted t) :
    (whichWayTable (getLine idq (ref.map (enc false)) (q.map (enc false)))
        (getLine idt (ref.map (enc false)) (t.map (enc false)))).qOnly = (pairTable ref q t).qOnly ∧
    (whichWayTable (getLine idq (ref.map (enc false)) (q.map (enc false)))
        (getLine idt (ref.map (enc false)) (t.map (enc false)))).shared = (pairTable ref q t).shared ∧
    (whichWayTable (getLine idq (ref.map (enc false)) (q.map (enc false)))
        (getLine idt (ref.map (enc false)) (t.map (enc false)))).tOnly = (pairTable ref q t).tOnly ∧
    (whichWayTable (getLine idq (ref.map (enc false)) (q.map (enc false)))
        (getLine idt (ref.map (enc false)) (t.map (enc false)))).amb = (pairTable ref q t).amb ∧
    (whichWayTable (getLine idq (ref.map (enc false)) (q.map (enc false)))
        (getLine idt (ref.map (enc false)) (t.map (enc false)))).d.length +
      (whichWayTable (getLine idq (ref.map (enc false)) (q.map (enc false)))
        (getLine idt (ref.map (enc false)) (t.map (enc false)))).dPlus = (pairTable ref q t).dist := by
  rw [Props.C10.row idq ref q hq hr haq, Props.C10.row idt ref t ht hr hat]
  exact whichWayTable_spec idq idt ref q t hq ht hacgt

theorem whichWay_getLine (idq idt : String) (ref q t : List Nat) (n d : Nat) (hq : ref.length = q.length)
    (ht : ref.length = t.length) (hacgt : ∀ r ∈ ref, isACGT r = true)
    (hr : Props.C10.Accepted ref) (haq : Props.C10.Accepted q) (hat : Props.C10.Accepted t) :
    whichWay (getLine idq (ref.map (enc false)) (q.map (enc false)))
        (getLine idt (ref.map (enc false)) (t.map (enc false))) n d =
      if (pairTable ref q t).qOnly + (pairTable ref q t).tOnly + (pairTable ref q t).shared + (pairTable ref q t).amb > 0 ∧
          (pairTable ref q t).amb * d >
            n * ((pairTable ref q t).qOnly + (pairTable ref q t).tOnly + (pairTable ref q t).shared + (pairTable ref q t).amb)
      then none else some (binOf (pairTable ref q t), (pairTable ref q t).dist) := by
  rw [Props.C10.row idq ref q hq hr haq, Props.C10.row idt ref t ht hr hat]
  exact whichWay_spec idq idt ref q t n d hq ht hacgt


/-! ### the candidate list of `topRankingQuery` is the declarative candidate list -/

/-- the per-target step of `topRankingQuery` -/
def modelCand (o : TROpts) (q t : UDLine) : Option (Nat × UDHit) :=
  if t.ambCount > o.threshTarg then none
  else if o.ignore.contains t.id then none
  else match whichWay q t o.thrNum o.thrDen with
    | none => none
    | some (dir, dist) => some (dir, { name := t.id, dist := dist, amb := t.ambCount })

/-- everything `topRankingQuery` does after the candidates are known -/
def binsOf (o : TROpts) (cands : List (Nat × UDHit)) : List (List UDHit) :=
  if o.push > 0 then
    (List.range 4).map fun dir =>
      let hs := (cands.filter fun c => c.1 == dir).map (·.2)
      if dir = 0 then hs
      else sortStable udLt ((hs.foldl (pushInsert o.push) []).flatMap (·.2))
  else
    let total := if o.sizes.contains bigN then bigN else o.sizes.sum
    let bins := (List.range 4).map fun dir =>
      topKG udLt total (((cands.filter fun c => c.1 == dir).map (·.2)).filter fun h => h.dist ≤ o.dists.getD dir 0)
    let size := balance total o.sizes (bins.map (·.length)) o.nofill
    (bins.zip size).map fun (b, s) => b.take s

theorem topRankingQuery_eq (o : TROpts) (q : UDLine) (targets : List UDLine) :
    topRankingQuery o q targets = binsOf o (targets.filterMap (modelCand o q)) := rfl

/-- what the model keeps of a declarative candidate: (bin, (name, distance, ambiguity count)) -/
def candHit (c : Cand) : Nat × UDHit := (c.bin, UDHit.mk c.name c.dist c.amb)

/-- the per-target step of `Spec.candidates` -/
def specCand (ref q : List Nat) (thrNum thrDen threshTarg : Nat) (ignore : List String)
    (x : (String × List Nat) × Nat) : Option Cand :=
  let p := pairTable ref q x.1.2
  let sum := p.qOnly + p.tOnly + p.shared + p.amb
  let ambT := specAmbCount x.1.2
  if ambT > threshTarg || ignore.contains x.1.1 then none
  else if sum > 0 && p.amb * thrDen > thrNum * sum then none
  else some (Cand.mk x.1.1 (binOf p) p.dist ambT x.2)

theorem candidates_eq (ref q : List Nat) (targets : List (String × List Nat)) (thrNum thrDen threshTarg : Nat)
    (ignore : List String) :
    candidates ref q targets thrNum thrDen threshTarg ignore =
      (targets.zip (List.range targets.length)).filterMap (specCand ref q thrNum thrDen threshTarg ignore) := rfl

theorem cand_step (o : TROpts) (idq : String) (ref q : List Nat) (x : (String × List Nat) × Nat)
    (hq : ref.length = q.length) (ht : ref.length = x.1.2.length) (hacgt : ∀ r ∈ ref, isACGT r = true) :
    modelCand o (specUdLine idq ref q) (specUdLine x.1.1 ref x.1.2) =
      (specCand ref q o.thrNum o.thrDen o.threshTarg o.ignore x).map candHit := by
  obtain ⟨⟨n, t⟩, i⟩ := x
  simp only [modelCand, specCand, whichWay_spec idq n ref q t o.thrNum o.thrDen hq ht hacgt]
  simp only [specUdLine]
  generalize pairTable ref q t = p
  by_cases h1 : o.threshTarg < specAmbCount t
  · simp [h1]
  · by_cases h2 : n ∈ o.ignore
    · simp [h2]
    · by_cases h3 : 0 < p.qOnly + p.tOnly + p.shared + p.amb ∧
          o.thrNum * (p.qOnly + p.tOnly + p.shared + p.amb) < p.amb * o.thrDen
      · simp [h1, h2, h3]
      · simp [h1, h2, h3, candHit]

theorem filterMap_zip_range' {α β γ δ : Type} (H : α → β) (F : α × Nat → Option γ) (G : γ → δ) (M : β → Option δ) :
    ∀ (l : List α) (k : Nat), (∀ x ∈ l, ∀ i, M (H x) = (F (x, i)).map G) →
      (l.map H).filterMap M = ((l.zip (List.range' k l.length)).filterMap F).map G := by
  intro l
  induction l with
  | nil => intro k _; simp
  | cons a l ih =>
    intro k h
    simp only [List.map_cons, List.length_cons, List.range'_succ, List.zip_cons_cons, List.filterMap_cons]
    rw [h a List.mem_cons_self k, ih (k + 1) (fun x hx i => h x (List.mem_cons_of_mem _ hx) i)]
    cases F (a, k) <;> simp

/-- **the candidates of a query, from the rows, are the declarative candidates**: the (direction, hit) list that
`topRankingQuery` extracts from the rows of the targets is, target by target and in file order, the list
`Spec.candidates` computes from the sequences -/
theorem cands_spec (o : TROpts) (idq : String) (ref q : List Nat) (targets : List (String × List Nat))
    (hq : ref.length = q.length) (ht : ∀ x ∈ targets, ref.length = x.2.length) (hacgt : ∀ r ∈ ref, isACGT r = true) :
    (targets.map fun x => specUdLine x.1 ref x.2).filterMap (modelCand o (specUdLine idq ref q)) =
      (candidates ref q targets o.thrNum o.thrDen o.threshTarg o.ignore).map candHit := by
  rw [candidates_eq, List.range_eq_range']
  exact filterMap_zip_range' (fun x : String × List Nat => specUdLine x.1 ref x.2) _ candHit _ targets 0
    (fun x hx i => cand_step o idq ref q (x, i) hq (ht x hx) hacgt)

/-- the four bins of a query computed from the rows are `binsOf` of the declarative candidates -/
theorem topRankingQuery_spec (o : TROpts) (idq : String) (ref q : List Nat) (targets : List (String × List Nat))
    (hq : ref.length = q.length) (ht : ∀ x ∈ targets, ref.length = x.2.length) (hacgt : ∀ r ∈ ref, isACGT r = true) :
    topRankingQuery o (specUdLine idq ref q) (targets.map fun x => specUdLine x.1 ref x.2) =
      binsOf o ((candidates ref q targets o.thrNum o.thrDen o.threshTarg o.ignore).map candHit) := by
  rw [topRankingQuery_eq, cands_spec o idq ref q targets hq ht hacgt]


/-- the same from the rows the model computes from the encoded sequences -/
theorem topRankingQuery_getLine (o : TROpts) (idq : String) (ref q : List Nat) (targets : List (String × List Nat))
    (hq : ref.length = q.length) (ht : ∀ x ∈ targets, ref.length = x.2.length) (hacgt : ∀ r ∈ ref, isACGT r = true)
    (hr : Props.C10.Accepted ref) (haq : Props.C10.Accepted q) (hat : ∀ x ∈ targets, Props.C10.Accepted x.2) :
    topRankingQuery o (getLine idq (ref.map (enc false)) (q.map (enc false)))
        (targets.map fun x => getLine x.1 (ref.map (enc false)) (x.2.map (enc false))) =
      binsOf o ((candidates ref q targets o.thrNum o.thrDen o.threshTarg o.ignore).map candHit) := by
  rw [Props.C10.row idq ref q hq hr haq]
  have : (targets.map fun x => getLine x.1 (ref.map (enc false)) (x.2.map (enc false))) =
      targets.map fun x => specUdLine x.1 ref x.2 :=
    List.map_congr_left (fun x hx => Props.C10.row x.1 ref x.2 (ht x hx) hr (hat x hx))
  rw [this]
  exact topRankingQuery_spec o idq ref q targets hq ht hacgt

/-! ### non-vacuity and the need for the hypotheses -/

/-- a pair with every kind of column: query-only, target-only, shared, both differing at one site, a SNP of each
inside the other's tract -/
example :
    let ref := [65, 67, 71, 84, 65, 67, 71, 84]
    let q := [67, 67, 65, 84, 71, 78, 84, 116]
    let t := [65, 71, 65, 78, 84, 65, 84, 84]
    (∀ r ∈ ref, isACGT r = true) ∧ Props.C10.Accepted ref ∧ Props.C10.Accepted q ∧ Props.C10.Accepted t ∧
    (pairTable ref q t).qOnly = 2 ∧ (pairTable ref q t).tOnly = 2 ∧ (pairTable ref q t).shared = 2 ∧
    (pairTable ref q t).amb = 1 ∧ (pairTable ref q t).dist = 3 := by
  decide


/-- the reference must be A/C/G/T: with reference "AR", query "CR", target "RG" the rows give amb = 1 (the
target's G at the reference's R is no SNP of the row, since G is in the set of R) but `pairTable`, which
compares letters, counts 2 -/
example : (whichWayTable (specUdLine "q" [65, 82] [67, 82]) (specUdLine "t" [65, 82] [82, 71])).amb = 1 ∧
    (pairTable [65, 82] [67, 82] [82, 71]).amb = 2 := by decide +kernel

/-- the rows must have the reference's length: a query shorter than reference and target ends `pairTable`
early, while the rows still see the target's SNPs beyond the query's end -/
example :
    (whichWayTable (specUdLine "q" [71, 71, 116, 71] [82, 71]) (specUdLine "t" [71, 71, 116, 71] [78, 45, 65, 67])).tOnly = 2 ∧
    (pairTable [71, 71, 116, 71] [82, 71] [78, 45, 65, 67]).tOnly = 0 := by decide +kernel

end Gofasta.Lemmas.WhichWaySpec
