import Gofasta.Props.C16
import Gofasta.Props.C15
/-
What the writers of `sam toMultiAlign` / `toPairAlign` print is read back by every FASTA reader as the records that
were written (C11's FASTA route, C15's "--wrap only re-breaks"): the text is one of the layouts of C16.layout_independent.
-/
namespace Gofasta.Lemmas.FastaWrite
open Gofasta Base Model Spec Lemmas

/-! ### strings and bytes -/

theorem s2b_append (a b : String) : stringToBytes (a ++ b) = stringToBytes a ++ stringToBytes b := by
  simp [stringToBytes, String.toList_append]

theorem s2b_b2s (bs : List Nat) (h : ∀ b ∈ bs, b < 128) : stringToBytes (bytesToString bs) = bs := by
  unfold stringToBytes bytesToString
  simp only [String.toList_ofList, List.map_map]
  induction bs with
  | nil => rfl
  | cons a t ih =>
    simp only [List.map_cons, Function.comp]
    rw [ih (fun b hb => h b (List.mem_cons_of_mem _ hb))]
    congr 1
    have ha := h a (List.mem_cons_self)
    have : a.isValidChar := by left; omega
    simp [Char.ofNat, this, Char.toNat, Char.ofNatAux]

theorem foldl_append_string (l : List String) : ∀ (acc : String),
    (l.foldl (fun r s => r ++ s) acc) = acc ++ l.foldl (fun r s => r ++ s) "" := by
  induction l with
  | nil => intro acc; simp
  | cons a t ih =>
    intro acc
    simp only [List.foldl_cons]
    rw [ih (acc ++ a), ih ("" ++ a)]
    simp [String.append_assoc]

theorem s2b_join (l : List String) : stringToBytes (String.join l) = (l.map stringToBytes).flatten := by
  induction l with
  | nil => simp [stringToBytes, String.join]
  | cons a t ih =>
    have : String.join (a :: t) = a ++ String.join t := by
      unfold String.join
      simp only [List.foldl_cons]
      rw [foldl_append_string t ("" ++ a)]
      simp
    rw [this, s2b_append, ih]
    simp

/-! ### the lines of one written record -/

/-- every line followed by a line feed -/
def linesLF (ls : List (List Nat)) : List Nat := ls.flatMap fun l => l ++ [10]

theorem renderText_lf : ∀ (ls : List (List Nat)), renderText false true ls = linesLF ls := by
  intro ls
  induction ls with
  | nil => rfl
  | cons l t ih =>
    cases t with
    | nil => simp [renderText, linesLF]
    | cons l' rest =>
      simp only [renderText, Bool.false_eq_true, if_false]
      rw [ih]
      simp [linesLF]

/-- the sequence lines of a record as the writer breaks them -/
def seqChunks (w : Int) (s : List Nat) : List (List Nat) := if w > 0 then chunk w.toNat s else [s]

theorem wrapLines_bytes (w : Int) (hw : w > 0) (s : List Nat) (h : ∀ b ∈ s, b < 128) :
    stringToBytes (wrapLines w s) = linesLF (chunk w.toNat s) := by
  unfold wrapLines
  have : ¬ w ≤ 0 := by omega
  simp only [this, if_false]
  rw [s2b_join, List.map_map]
  unfold linesLF
  rw [List.flatMap_def]
  congr 1
  apply List.map_congr_left
  intro l hl
  simp only [Function.comp]
  rw [s2b_append, s2b_b2s l]
  · rfl
  · -- every chunk is part of s
    intro b hb
    have hsub : ∀ (n : Nat) (s : List Nat), s.length ≤ n → ∀ l ∈ chunk w.toNat s, ∀ b ∈ l, b ∈ s := by
      intro n
      induction n with
      | zero =>
        intro s hs l hl b hb
        have : s = [] := by cases s <;> simp_all
        subst this
        rw [chunk] at hl; simp at hl
      | succ n ih =>
        intro s hs l hl b hb
        rw [chunk] at hl
        split at hl
        · split at hl
          · simp at hl
          · simp only [List.mem_singleton] at hl; subst hl; exact hb
        · rename_i hc
          rcases List.mem_cons.1 hl with rfl | hl
          · exact List.mem_of_mem_take hb
          · have hpos : 0 < s.length := by
              cases s with
              | nil => exact absurd (Or.inr rfl) hc
              | cons _ _ => simp
            have hw0 : 0 < w.toNat := by omega
            have := ih (s.drop w.toNat) (by simp [List.length_drop]; omega) l hl b hb
            exact List.mem_of_mem_drop this
    exact h b (hsub s.length s (Nat.le_refl _) l hl b hb)

/-- the bytes of one record as `sam toMultiAlign` prints it -/
theorem tomaRecord_bytes (w : Int) (name : String) (s : List Nat) (h : ∀ b ∈ s, b < 128) :
    stringToBytes (tomaRecordText w name s) = linesLF ((62 :: stringToBytes name) :: seqChunks w s) := by
  unfold tomaRecordText seqChunks
  rw [s2b_append, s2b_append, s2b_append]
  have h1 : stringToBytes ">" = [62] := by decide
  have h2 : stringToBytes "\n" = [10] := by decide
  rw [h1, h2]
  by_cases hw : w > 0
  · simp only [hw, if_true]
    rw [wrapLines_bytes w hw s h]
    simp [linesLF]
  · simp only [hw, if_false]
    rw [s2b_append, s2b_b2s s h, h2]
    simp [linesLF]

/-- a written record as a laid-out record of the reader's theory -/
def lrecOf (w : Int) (name : String) (s : List Nat) (id : List Nat) : LRec :=
  { id := id, desc := stringToBytes name, chunks := seqChunks w s }

theorem lrec_seq (w : Int) (name : String) (s : List Nat) (id : List Nat) (hs : s ≠ []) : (lrecOf w name s id).seq = s := by
  unfold lrecOf LRec.seq seqChunks
  simp only []
  by_cases hw : w > 0
  · simp only [hw, if_true]
    exact Gofasta.Props.C15.chunk_flatten w.toNat s.length s (Nat.le_refl _)
  · simp [hw]

theorem file_bytes (w : Int) : ∀ (recs : List (String × List Nat × List Nat)), (∀ r ∈ recs, ∀ b ∈ r.2.1, b < 128) →
    stringToBytes (String.join (recs.map fun r => tomaRecordText w r.1 r.2.1)) =
      renderText false true (renderLines (recs.map fun r => lrecOf w r.1 r.2.1 r.2.2)) := by
  intro recs h
  rw [renderText_lf, s2b_join, List.map_map]
  induction recs with
  | nil => rfl
  | cons r t ih =>
    simp only [List.map_cons, List.flatten_cons, Function.comp]
    rw [ih (fun x hx => h x (List.mem_cons_of_mem _ hx))]
    rw [tomaRecord_bytes w r.1 r.2.1 (h r (List.mem_cons_self))]
    simp [linesLF, renderLines, LRec.lines, lrecOf, List.flatMap_cons, List.flatMap_append]

/-! ### reading back -/

/-- a record the writer can be given: a name that is a valid header (it has an ID, no line-end bytes), a non-empty
sequence of accepted ASCII symbols -/
structure WriteOk (hard : Bool) (W : Nat) (r : String × List Nat × List Nat) : Prop where
  id : firstField (stringToBytes r.1) = some r.2.2
  hdr : CleanLine (stringToBytes r.1)
  len : r.2.1.length = W
  syms : ∀ b ∈ r.2.1, b < 128 ∧ enc hard b ≠ 0

theorem chunk_mem (w : Nat) : ∀ (n : Nat) (s : List Nat), s.length ≤ n → ∀ l ∈ chunk w s, l ≠ [] ∧ ∀ b ∈ l, b ∈ s := by
  intro n
  induction n with
  | zero =>
    intro s hs l hl
    have : s = [] := by cases s <;> simp_all
    subst this
    rw [chunk] at hl; simp at hl
  | succ n ih =>
    intro s hs l hl
    rw [chunk] at hl
    split at hl
    · split at hl
      · simp at hl
      · rename_i hne
        simp only [List.mem_singleton] at hl; subst hl
        exact ⟨hne, fun b hb => hb⟩
    · rename_i hc
      have hpos : 0 < s.length := by
        cases s with
        | nil => exact absurd (Or.inr rfl) hc
        | cons _ _ => simp
      have hw0 : 0 < w := by
        rcases Nat.eq_zero_or_pos w with h | h
        · exact absurd (Or.inl h) hc
        · exact h
      rcases List.mem_cons.1 hl with rfl | hl
      · refine ⟨?_, fun b hb => List.mem_of_mem_take hb⟩
        intro h0
        have : (s.take w).length = 0 := by rw [h0]; rfl
        rw [List.length_take] at this
        omega
      · have := ih (s.drop w) (by simp [List.length_drop]; omega) l hl
        exact ⟨this.1, fun b hb => List.mem_of_mem_drop (this.2 b hb)⟩

/-- **C15.wrap / C11 FASTA route** — whatever the wrap width, the text `sam toMultiAlign` writes for a list of records is
read back by the encoded reader as exactly those records: same IDs and headers, the sequences unbroken, in order -/
theorem written_reads_back (hard : Bool) (w : Int) (W : Nat) (hW : 0 < W)
    (r0 : String × List Nat × List Nat) (rs : List (String × List Nat × List Nat))
    (h : ∀ r ∈ r0 :: rs, WriteOk hard W r) :
    readFasta (.encoded hard) (stringToBytes (String.join ((r0 :: rs).map fun r => tomaRecordText w r.1 r.2.1))) =
      .ok (recsFrom (enc hard) ((r0 :: rs).map fun r => lrecOf w r.1 r.2.1 r.2.2) 0) := by
  rw [file_bytes w (r0 :: rs) (fun r hr b hb => ((h r hr).syms b hb).1)]
  simp only [List.map_cons]
  apply Gofasta.Props.C16.layout_independent hard false true W
  have hne : ∀ r ∈ r0 :: rs, r.2.1 ≠ [] := by
    intro r hr h0
    have := (h r hr).len
    rw [h0] at this
    simp at this
    omega
  refine ⟨Or.inl hW, ?_, ?_, ?_, ?_⟩
  · intro lr hlr
    have hlr : lr ∈ (r0 :: rs).map fun r => lrecOf w r.1 r.2.1 r.2.2 := by simpa using hlr
    obtain ⟨r, hr, rfl⟩ := List.mem_map.1 hlr
    exact (h r hr).id
  · intro lr hlr
    have hlr : lr ∈ (r0 :: rs).map fun r => lrecOf w r.1 r.2.1 r.2.2 := by simpa using hlr
    obtain ⟨r, hr, rfl⟩ := List.mem_map.1 hlr
    exact (h r hr).hdr
  · intro lr hlr l hl
    have hlr : lr ∈ (r0 :: rs).map fun r => lrecOf w r.1 r.2.1 r.2.2 := by simpa using hlr
    obtain ⟨r, hr, rfl⟩ := List.mem_map.1 hlr
    simp only [lrecOf, seqChunks] at hl
    by_cases hw : w > 0
    · simp only [hw, if_true] at hl
      have := chunk_mem w.toNat r.2.1.length r.2.1 (Nat.le_refl _) l hl
      exact ⟨this.1, fun b hb => ((h r hr).syms b (this.2 b hb)).2⟩
    · simp only [hw, if_false, List.mem_singleton] at hl
      subst hl
      exact ⟨hne r hr, fun b hb => ((h r hr).syms b hb).2⟩
  · intro lr hlr
    have hlr : lr ∈ (r0 :: rs).map fun r => lrecOf w r.1 r.2.1 r.2.2 := by simpa using hlr
    obtain ⟨r, hr, rfl⟩ := List.mem_map.1 hlr
    rw [lrec_seq w r.1 r.2.1 r.2.2 (hne r hr)]
    exact (h r hr).len

/-- the records read back carry the written sequences, unbroken, whatever the wrap width -/
theorem read_back_seq (hard : Bool) (w : Int) (r : String × List Nat × List Nat) (k : Nat) (hs : r.2.1 ≠ []) :
    (recOf (enc hard) (lrecOf w r.1 r.2.1 r.2.2) k).seq = r.2.1.map (enc hard) ∧
    (recOf (enc hard) (lrecOf w r.1 r.2.1 r.2.2) k).id = r.2.2 ∧
    (recOf (enc hard) (lrecOf w r.1 r.2.1 r.2.2) k).desc = stringToBytes r.1 := by
  refine ⟨?_, rfl, rfl⟩
  unfold recOf
  simp only []
  rw [lrec_seq w r.1 r.2.1 r.2.2 hs]

end Gofasta.Lemmas.FastaWrite
