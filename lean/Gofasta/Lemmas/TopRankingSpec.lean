import Gofasta.Lemmas.WhichWaySpec
import Gofasta.Lemmas.Balance
import Gofasta.Lemmas.PushBins
import Gofasta.Lemmas.SortSpec
import Gofasta.Props.C08
/-
TopRankingSpec: the model of `updown topranking` passes its own specification checker (`Spec.checkBins`) on
every input.  The conjuncts of the checker are proved one at a time for the bins that `topRankingQuery` returns
(as `parseTR` would read them back from the printed form), then assembled.
-/
namespace Gofasta.Lemmas.TopRankingSpec
open Gofasta Base Model Spec Lemmas

/-! ### what the driver reads back from the printed result of one query -/

/-- one reported entry: the name, and the distance when the table form is printed (the list form shows none) -/
def rep (table : Bool) (h : UDHit) : String × Option Nat := (h.name, if table then some h.dist else none)

/-- the four bins of one query as `parseTR` extracts them -/
def reportedBins (table : Bool) (res : List (List UDHit)) : List (List (String × Option Nat)) :=
  res.map fun b => b.map (rep table)

/-- what the model keeps of a declarative candidate -/
def hitOf (c : Cand) : UDHit := UDHit.mk c.name c.dist c.amb

/-! ### generic list facts -/

theorem getD_map_range {α : Type} (f : Nat → α) (n b : Nat) (d : α) (hb : b < n) :
    ((List.range n).map f).getD b d = f b := by
  simp [List.getD_eq_getElem?_getD, List.getElem?_map, List.getElem?_range hb]

theorem all_range4 (f : Nat → Bool) : (List.range 4).all f = true ↔ ∀ b < 4, f b = true := by
  simp only [List.all_eq_true, List.mem_range]

theorem sum_map_range4 (f : Nat → Nat) : ((List.range 4).map f).sum = f 0 + f 1 + f 2 + f 3 := by
  simp [List.range, List.range.loop]; omega

/-! ### sorting: the checker's ranking is the model's ranking -/

theorem insCand_eq (x : Cand) (l : List Cand) : insCand x l = insSorted candLt x l := by
  induction l with
  | nil => rfl
  | cons y t ih => simp only [insCand, insSorted, ih]

theorem sortCands_eq (l : List Cand) : sortCands l = sortStable candLt l := by
  unfold sortCands sortStable
  congr 1
  funext acc x
  exact insCand_eq x acc

theorem map_insSorted {α β : Type} (lt : α → α → Bool) (lt' : β → β → Bool) (f : α → β) (x : α) :
    ∀ (acc : List α), (∀ y ∈ acc, lt x y = lt' (f x) (f y)) →
      (insSorted lt x acc).map f = insSorted lt' (f x) (acc.map f) := by
  intro acc
  induction acc with
  | nil => intro _; rfl
  | cons y t ih =>
    intro h
    have hy := h y List.mem_cons_self
    have ih' := ih (fun z hz => h z (List.mem_cons_of_mem _ hz))
    simp only [insSorted, List.map_cons, ← hy]
    split
    · rfl
    · simp only [List.map_cons, ih']

/-- a map that respects the order between every element and the elements before it commutes with the sort -/
theorem map_sortStable {α β : Type} (lt : α → α → Bool) (lt' : β → β → Bool) (f : α → β) :
    ∀ (l : List α), l.Pairwise (fun y x => lt x y = lt' (f x) (f y)) →
      (sortStable lt l).map f = sortStable lt' (l.map f) := by
  intro l
  induction l using rev_ind with
  | nil => intro _; rfl
  | snoc l x ih =>
    intro hp
    have hp' := List.pairwise_append.1 hp
    rw [sortStable_append_singleton, List.map_append, List.map_singleton, sortStable_append_singleton,
      ← ih hp'.1]
    apply map_insSorted
    intro y hy
    exact hp'.2.2 y ((sortStable_perm l).mem_iff.1 hy) x (by simp)

/-- filtering commutes with the stable sort -/
theorem filter_sortStable {α : Type} {lt : α → α → Bool} (hS : SWO lt) (p : α → Bool) (l : List α) :
    (sortStable lt l).filter p = sortStable lt (l.filter p) := by
  apply sortStable_unique hS
  · exact (sortStable_perm l).filter p
  · exact List.Pairwise.sublist List.filter_sublist (sorted_sortStable hS l)
  · intro z
    rw [List.filter_filter, List.filter_filter]
    have h1 : ∀ (m : List α), m.filter (fun a => tied lt z a && p a) = (m.filter (tied lt z)).filter p := by
      intro m; rw [List.filter_filter]; apply List.filter_congr; intro x _; exact Bool.and_comm _ _
    rw [h1, h1, sortStable_stable hS]

/-- file order decides last: for candidates listed in file order, the checker's comparison of a later candidate
with an earlier one is the model's comparison of the two hits -/
theorem candLt_later (x y : Cand) (h : y.idx < x.idx) : candLt x y = udLt (hitOf x) (hitOf y) := by
  have : ¬ x.idx < y.idx := by omega
  simp only [candLt, udLt, hitOf, this, decide_false, Bool.and_false, Bool.or_false]
  rfl

/-- the ranked candidates of the checker, as hits, are the stable sort of the hits by (distance, ambiguities) -/
theorem sortCands_hits (l : List Cand) (hp : l.Pairwise fun a b => a.idx < b.idx) :
    (sortCands l).map hitOf = sortStable udLt (l.map hitOf) := by
  rw [sortCands_eq]
  apply map_sortStable
  exact hp.imp (fun {a b} h => candLt_later b a h)


/-! ### `balance`, for any total and any four requested sizes -/

theorem getD4 (a b c d : Nat) (k : Nat) (hk : k < 4) :
    [a, b, c, d].getD k 0 = if k = 0 then a else if k = 1 then b else if k = 2 then c else d := by
  have : k = 0 ∨ k = 1 ∨ k = 2 ∨ k = 3 := by omega
  rcases this with rfl | rfl | rfl | rfl <;> rfl

/-- the start of the fill -/
def size0 (d o : List Nat) : List Nat := (List.range 4).map fun i => min (o.getD i 0) (d.getD i 0)
def avail0 (d o : List Nat) : List Nat := (List.range 4).map fun i => o.getD i 0 - d.getD i 0

theorem fillInv0 (d o : List Nat) : FillInv 4 o d (size0 d o) (avail0 d o) := by
  refine ⟨by simp [size0], by simp [avail0], ?_⟩
  intro k hk
  unfold BinInv
  rw [size0, avail0, getD_map_range _ 4 k 0 hk, getD_map_range _ 4 k 0 hk]
  omega

theorem evenInv0 (d o : List Nat) : EvenInv o d (size0 d o) 0 0 := by
  intro k hk ho
  rw [size0, getD_map_range _ 4 k 0 hk]
  simp only [Nat.not_lt_zero, if_false]
  omega

/-- every case of `balance`: enough everywhere (the requested sizes), no-fill (min of requested and supply), fill -/
theorem balance_cases (T : Nat) (d o : List Nat) (nofill : Bool) :
    (((∀ k < 4, d.getD k 0 ≤ o.getD k 0) ∧ balance T d o nofill = d) ∨
     ((∃ k, k < 4 ∧ o.getD k 0 < d.getD k 0) ∧ nofill = true ∧ balance T d o nofill = size0 d o) ∨
     ((∃ k, k < 4 ∧ o.getD k 0 < d.getD k 0) ∧ nofill = false ∧
        balance T d o nofill = fillLoop (4 * (avail0 d o).sum + 8) T (size0 d o) (avail0 d o) o d 0)) := by
  by_cases hall : ((List.range 4).all fun i => o.getD i 0 ≥ d.getD i 0) = true
  · left
    refine ⟨?_, by unfold balance; rw [if_pos hall]⟩
    intro k hk
    have := (all_range4 _).1 hall k hk
    simpa using this
  · right
    have hex : ∃ k, k < 4 ∧ o.getD k 0 < d.getD k 0 := by
      have hne : ¬ ∀ x, x < 4 → (decide (o.getD x 0 ≥ d.getD x 0)) = true := by
        intro hh; exact hall ((all_range4 _).2 hh)
      have ⟨x, hx⟩ := Classical.not_forall.1 hne
      have ⟨hxm, hxd⟩ := Classical.not_imp.1 hx
      exact ⟨x, hxm, by simpa using hxd⟩
    cases nofill with
    | true => left; refine ⟨hex, rfl, ?_⟩; unfold balance; rw [if_neg hall]; rfl
    | false => right; refine ⟨hex, rfl, ?_⟩; unfold balance; rw [if_neg hall]; rfl

/-- the result of `balance` has four entries -/
theorem balance_length (T : Nat) (d o : List Nat) (nofill : Bool) (hd : d.length = 4) :
    (balance T d o nofill).length = 4 := by
  rcases balance_cases T d o nofill with ⟨_, h⟩ | ⟨_, _, h⟩ | ⟨_, _, h⟩
  · rw [h, hd]
  · rw [h]; simp [size0]
  · rw [h]
    obtain ⟨a, ha⟩ := fillLoop_inv 4 o d T (4 * (avail0 d o).sum + 8) _ _ 0 (fillInv0 d o)
    exact ha.ls

/-- never less than min(requested, supply), never more than the supply -/
theorem balance_bounds (T : Nat) (d o : List Nat) (nofill : Bool) : ∀ k < 4,
    min (o.getD k 0) (d.getD k 0) ≤ (balance T d o nofill).getD k 0 ∧ (balance T d o nofill).getD k 0 ≤ o.getD k 0 := by
  intro k hk
  rcases balance_cases T d o nofill with ⟨hge, h⟩ | ⟨_, _, h⟩ | ⟨_, _, h⟩
  · rw [h]; have := hge k hk; omega
  · rw [h, size0, getD_map_range _ 4 k 0 hk]; omega
  · rw [h]
    obtain ⟨a, ha⟩ := fillLoop_inv 4 o d T (4 * (avail0 d o).sum + 8) _ _ 0 (fillInv0 d o)
    have hb := ha.bins k hk
    have hm := fillLoop_mono o d T (4 * (avail0 d o).sum + 8) (size0 d o) (avail0 d o) 0 k
    rw [size0, getD_map_range _ 4 k 0 hk] at hm
    unfold BinInv at hb
    omega

/-- with no-fill: exactly min(requested, supply) -/
theorem balance_nofill (T : Nat) (d o : List Nat) : ∀ k < 4,
    (balance T d o true).getD k 0 = min (o.getD k 0) (d.getD k 0) := by
  intro k hk
  rcases balance_cases T d o true with ⟨hge, h⟩ | ⟨_, _, h⟩ | ⟨_, hf, _⟩
  · rw [h]; have := hge k hk; omega
  · rw [h, size0, getD_map_range _ 4 k 0 hk]
  · cases hf

/-- the evenness invariant holds of the result in every case -/
theorem balance_evenInv (T : Nat) (d o : List Nat) : ∃ i ρ, EvenInv o d (balance T d o false) i ρ := by
  rcases balance_cases T d o false with ⟨hge, h⟩ | ⟨_, hf, _⟩ | ⟨_, _, h⟩
  · rw [h]
    refine ⟨0, 0, ?_⟩
    intro k hk ho
    simp only [Nat.not_lt_zero, if_false]
    omega
  · cases hf
  · rw [h]
    exact fillLoop_even o d T _ _ _ 0 0 (fillInv0 d o) (by omega) (evenInv0 d o)

/-- with fill: either enough everywhere (then the requested sizes), or the total is not passed (when the start is
below it) and the fill stops only at the total or when every bin holds its whole supply -/
theorem balance_fill (T : Nat) (d o : List Nat) :
    ((∀ k < 4, d.getD k 0 ≤ o.getD k 0) ∧ balance T d o false = d) ∨
    ((∃ k, k < 4 ∧ o.getD k 0 < d.getD k 0) ∧
      ((size0 d o).sum < T → (balance T d o false).sum ≤ T) ∧
      ((balance T d o false).sum = T ∨ ∀ k < 4, (balance T d o false).getD k 0 = o.getD k 0)) := by
  rcases balance_cases T d o false with ⟨hge, h⟩ | ⟨_, hf, _⟩ | ⟨hex, _, h⟩
  · exact Or.inl ⟨hge, h⟩
  · cases hf
  · right
    rw [h]
    refine ⟨hex, fun hlt => fillLoop_sum_le o d T _ _ _ 0 hlt, ?_⟩
    apply fillLoop_complete o d T _ _ _ 0 (fillInv0 d o) (by omega)
    have := turnsToSpare_le (avail0 d o) 0
    omega


/-! ### the checker, conjunct by conjunct -/

def perOf (cands : List Cand) (b : Nat) : List Cand := sortCands (cands.filter fun c => c.bin == b)
def limOf (cands : List Cand) (dists : List Nat) (b : Nat) : List Cand := (perOf cands b).filter fun c => c.dist ≤ dists.getD b 0
def totalOf (sizes : List Nat) : Nat := if sizes.contains bigN then bigN else sizes.sum

def perL (cands : List Cand) := (List.range 4).map (perOf cands)
def limL (cands : List Cand) (dists : List Nat) := (List.range 4).map fun b => ((perL cands).getD b []).filter fun c => c.dist ≤ dists.getD b 0
def gotL (bins : List (List (String × Option Nat))) := (List.range 4).map fun b => bins.getD b []
def nL (bins : List (List (String × Option Nat))) := (gotL bins).map (·.length)
def obsL (cands : List Cand) (dists : List Nat) := (limL cands dists).map (·.length)
def wantL (cands : List Cand) (sizes dists : List Nat) := (List.range 4).map fun b => min (sizes.getD b 0) ((obsL cands dists).getD b 0)
def prefixOkB (cands : List Cand) (dists : List Nat) (bins : List (List (String × Option Nat))) : Bool :=
  (List.range 4).all fun b =>
      ((gotL bins).getD b []).map (·.1) == (((limL cands dists).getD b []).take ((gotL bins).getD b []).length).map (·.name)
def distOkB (cands : List Cand) (dists : List Nat) (bins : List (List (String × Option Nat))) : Bool :=
  (List.range 4).all fun b => (((gotL bins).getD b []).zip ((limL cands dists).getD b [])).all fun (g, c) =>
      match g.2 with | some d => d == c.dist | none => true
def sumOkB (sizes : List Nat) (bins : List (List (String × Option Nat))) : Bool := (nL bins).sum ≤ totalOf sizes
def nofillOkB (cands : List Cand) (sizes dists : List Nat) (nofill : Bool) (bins : List (List (String × Option Nat))) : Bool :=
  !nofill || nL bins == wantL cands sizes dists
def atLeastB (cands : List Cand) (sizes dists : List Nat) (bins : List (List (String × Option Nat))) : Bool :=
  (List.range 4).all fun b => (wantL cands sizes dists).getD b 0 ≤ (nL bins).getD b 0
def fillOkB (cands : List Cand) (sizes dists : List Nat) (nofill : Bool) (bins : List (List (String × Option Nat))) : Bool :=
  nofill || (nL bins).sum == min (totalOf sizes) (obsL cands dists).sum
def extrasL (cands : List Cand) (sizes dists : List Nat) (bins : List (List (String × Option Nat))) :=
  (List.range 4).map fun b => (nL bins).getD b 0 - (wantL cands sizes dists).getD b 0
def evenOkB (cands : List Cand) (sizes dists : List Nat) (nofill : Bool) (bins : List (List (String × Option Nat))) : Bool :=
  nofill || ((List.range 4).filter fun b => (nL bins).getD b 0 < (obsL cands dists).getD b 0).all fun a => (List.range 4).all fun b =>
      (extrasL cands sizes dists bins).getD b 0 ≤ (extrasL cands sizes dists bins).getD a 0 + 1 &&
        (!(b > a) || (extrasL cands sizes dists bins).getD b 0 ≤ (extrasL cands sizes dists bins).getD a 0 ||
          (nL bins).getD a 0 == (obsL cands dists).getD a 0)
def pushOkB (cands : List Cand) (push : Nat) (bins : List (List (String × Option Nat))) : Bool :=
  (List.range 4).all fun b =>
      let cs := (perL cands).getD b []
      let expect := if b = 0 then cands.filter (fun c => c.bin == 0) else
        let ds := ((cs.map (·.dist)).eraseDups).take push
        cs.filter fun c => ds.contains c.dist
      (bins.getD b []).map (·.1) == expect.map (·.name)

theorem checkBins_eq (cands : List Cand) (sizes dists : List Nat) (nofill : Bool) (push : Nat)
    (bins : List (List (String × Option Nat))) :
    checkBins cands sizes dists nofill push bins =
      if push > 0 then (if pushOkB cands push bins then none else some "push-bins-are-not-the-k-nearest-distances")
      else if !prefixOkB cands dists bins then some "a-bin-is-not-a-prefix-of-its-ranked-candidates"
      else if !distOkB cands dists bins then some "reported-distance-is-not-the-number-of-differing-resolved-columns"
      else if !sumOkB sizes bins then some "total-exceeds-the-requested-size"
      else if !nofillOkB cands sizes dists nofill bins then some "no-fill-bin-size-is-not-min(requested,available)"
      else if !atLeastB cands sizes dists bins then some "a-bin-got-fewer-than-min(requested,available)"
      else if !fillOkB cands sizes dists nofill bins then some "fill-did-not-reach-min(total,supply)"
      else if !evenOkB cands sizes dists nofill bins then some "fill-is-not-even"
      else none := rfl

/-! the lists of the checker, bin by bin -/

theorem perL_getD (cands : List Cand) (b : Nat) (hb : b < 4) : (perL cands).getD b [] = perOf cands b :=
  getD_map_range _ 4 b [] hb

theorem limL_getD (cands : List Cand) (dists : List Nat) (b : Nat) (hb : b < 4) :
    (limL cands dists).getD b [] = limOf cands dists b := by
  rw [limL, getD_map_range _ 4 b [] hb, perL_getD cands b hb]; rfl

theorem gotL_getD (bins : List (List (String × Option Nat))) (b : Nat) (hb : b < 4) :
    (gotL bins).getD b [] = bins.getD b [] := getD_map_range _ 4 b [] hb

theorem nL_eq (bins : List (List (String × Option Nat))) :
    nL bins = (List.range 4).map fun b => (bins.getD b []).length := by
  simp [nL, gotL, List.map_map]

theorem nL_getD (bins : List (List (String × Option Nat))) (b : Nat) (hb : b < 4) :
    (nL bins).getD b 0 = (bins.getD b []).length := by
  rw [nL_eq, getD_map_range _ 4 b 0 hb]

theorem obsL_eq (cands : List Cand) (dists : List Nat) :
    obsL cands dists = (List.range 4).map fun b => (limOf cands dists b).length := by
  simp only [obsL, limL, List.map_map]
  apply List.map_congr_left
  intro b hb
  have hb' : b < 4 := List.mem_range.1 hb
  simp only [Function.comp, perL_getD cands b hb']; rfl

theorem obsL_getD (cands : List Cand) (dists : List Nat) (b : Nat) (hb : b < 4) :
    (obsL cands dists).getD b 0 = (limOf cands dists b).length := by
  rw [obsL_eq, getD_map_range _ 4 b 0 hb]

theorem wantL_getD (cands : List Cand) (sizes dists : List Nat) (b : Nat) (hb : b < 4) :
    (wantL cands sizes dists).getD b 0 = min (sizes.getD b 0) (limOf cands dists b).length := by
  rw [wantL, getD_map_range _ 4 b 0 hb, obsL_getD cands dists b hb]

theorem extrasL_getD (cands : List Cand) (sizes dists : List Nat) (bins : List (List (String × Option Nat))) (b : Nat) (hb : b < 4) :
    (extrasL cands sizes dists bins).getD b 0 =
      (bins.getD b []).length - min (sizes.getD b 0) (limOf cands dists b).length := by
  rw [extrasL, getD_map_range _ 4 b 0 hb, nL_getD bins b hb, wantL_getD cands sizes dists b hb]

/-! ### the model side: the bins of `binsOf` on declarative candidates -/

/-- the hits of one direction, in file order -/
def dirHitsC (cs : List Cand) (b : Nat) : List UDHit := (cs.filter fun c => c.bin == b).map hitOf

theorem dir_filter (cs : List Cand) (b : Nat) :
    ((cs.map WhichWaySpec.candHit).filter fun c => c.1 == b).map (·.2) = dirHitsC cs b := by
  induction cs with
  | nil => rfl
  | cons c t ih =>
    simp only [dirHitsC] at ih ⊢
    simp only [List.map_cons, List.filter_cons, WhichWaySpec.candHit]
    split
    · simp only [List.map_cons]; rw [← ih]; rfl
    · exact ih

/-- the ranked, distance-limited hits of one direction -/
def ranked (cs : List Cand) (dists : List Nat) (b : Nat) : List UDHit :=
  sortStable udLt ((dirHitsC cs b).filter fun h => h.dist ≤ dists.getD b 0)

/-- the checker's limited ranking of a bin, as hits, is the model's ranking of that direction -/
theorem lim_hits (cs : List Cand) (dists : List Nat) (b : Nat) (hp : cs.Pairwise fun a b => a.idx < b.idx) :
    (limOf cs dists b).map hitOf = ranked cs dists b := by
  unfold limOf perOf ranked dirHitsC
  have hp' : (cs.filter fun c => c.bin == b).Pairwise fun a b => a.idx < b.idx :=
    List.Pairwise.sublist List.filter_sublist hp
  rw [← filter_sortStable Props.C08.udLt_swo, ← sortCands_hits _ hp', List.filter_map]
  rfl

theorem lim_length (cs : List Cand) (dists : List Nat) (b : Nat) (hp : cs.Pairwise fun a b => a.idx < b.idx) :
    (limOf cs dists b).length = (ranked cs dists b).length := by
  rw [← lim_hits cs dists b hp, List.length_map]

theorem foldl_catch_zero {α : Type} (lt : α → α → Bool) (l : List α) : l.foldl (catchStepG lt 0) [] = [] := by
  induction l with
  | nil => rfl
  | cons x t ih => simpa [List.foldl_cons, catchStepG] using ih

/-- the bounded catchment is the first `K` of the stable sort, also for `K = 0` -/
theorem topKG_eq (K : Nat) (l : List UDHit) : topKG udLt K l = (sortStable udLt l).take K := by
  by_cases hK : 0 < K
  · exact topK_spec Props.C08.udLt_swo K hK l
  · have : K = 0 := by omega
    subst this
    simp [topKG, foldl_catch_zero, catchFinishG]

/-- the supplies `balance` is given: the ranked hits of each direction, cut at the total -/
def modelObs (o : TROpts) (cs : List Cand) : List Nat :=
  (List.range 4).map fun b => min (totalOf o.sizes) (ranked cs o.dists b).length

/-- the sizes `balance` returns -/
def modelSize (o : TROpts) (cs : List Cand) : List Nat :=
  balance (totalOf o.sizes) o.sizes (modelObs o cs) o.nofill

/-- **the bins without push**: each is a prefix of the ranked, distance-limited hits of its direction -/
theorem binsOf_nopush (o : TROpts) (cs : List Cand) (hp : o.push = 0) (hd : o.sizes.length = 4) :
    WhichWaySpec.binsOf o (cs.map WhichWaySpec.candHit) =
      (List.range 4).map fun b => (ranked cs o.dists b).take (min ((modelSize o cs).getD b 0) (totalOf o.sizes)) := by
  have hlen := balance_length (totalOf o.sizes) o.sizes (modelObs o cs) o.nofill hd
  unfold WhichWaySpec.binsOf
  have hp' : ¬ o.push > 0 := by omega
  simp only [hp', if_false, dir_filter, topKG_eq]
  have hobs : ((List.range 4).map fun dir => (sortStable udLt ((dirHitsC cs dir).filter fun h => h.dist ≤ o.dists.getD dir 0)).take
      (if o.sizes.contains bigN then bigN else o.sizes.sum)).map (·.length) = modelObs o cs := by
    simp only [modelObs, List.map_map, totalOf, ranked]
    apply List.map_congr_left
    intro b _
    simp [List.length_take]
  rw [hobs]
  change (List.zip _ (modelSize o cs)).map _ = _
  obtain ⟨s0, s1, s2, s3, hs⟩ := list4 (modelSize o cs) hlen
  rw [hs]
  simp [List.range, List.range.loop, ranked, totalOf, List.take_take]


/-! ### the sizes: arithmetic of `balance` on supplies cut at the total -/

theorem sum4 (l : List Nat) (h : l.length = 4) : l.sum = l.getD 0 0 + l.getD 1 0 + l.getD 2 0 + l.getD 3 0 := by
  obtain ⟨a, b, c, d, rfl⟩ := list4 l h
  simp; omega

theorem contains4 (l : List Nat) (h : l.length = 4) (x : Nat) :
    l.contains x = true ↔ (l.getD 0 0 = x ∨ l.getD 1 0 = x ∨ l.getD 2 0 = x ∨ l.getD 3 0 = x) := by
  obtain ⟨a, b, c, d, rfl⟩ := list4 l h
  rw [List.contains_iff_mem]
  simp only [List.mem_cons, List.not_mem_nil, or_false, List.getD_cons_zero, List.getD_cons_succ]
  omega

/-- the facts about the sizes that the checker's size conjuncts need, for requested sizes `sizes`, supplies `L`
(before the cut at the total) and the result `r` of `balance` on the supplies cut at the total -/
structure SizeFacts (sizes : List Nat) (L : Nat → Nat) (nofill : Bool) (n : Nat → Nat) : Prop where
  sumOk : n 0 + n 1 + n 2 + n 3 ≤ totalOf sizes
  nofillOk : nofill = true → ∀ b < 4, n b = min (sizes.getD b 0) (L b)
  atLeast : ∀ b < 4, min (sizes.getD b 0) (L b) ≤ n b
  le : ∀ b < 4, n b ≤ L b
  fillOk : nofill = false → n 0 + n 1 + n 2 + n 3 = min (totalOf sizes) (L 0 + L 1 + L 2 + L 3)
  evenOk : nofill = false → ∀ a < 4, n a < L a → ∀ b < 4,
    n b - min (sizes.getD b 0) (L b) ≤ n a - min (sizes.getD a 0) (L a) + 1 ∧
    (b ≤ a ∨ n b - min (sizes.getD b 0) (L b) ≤ n a - min (sizes.getD a 0) (L a))

/-- what is known of one bin: requested `d`, supply `L`, supply cut at the total `o`, result `r`, `w` = min(d, L) -/
theorem bin_facts (T d L o r : Nat) (ho : o = min T L) (h1 : min o d ≤ r) (h2 : r ≤ o) (hT : d ≤ T ∨ L < T) :
    min d L ≤ r ∧ r ≤ o ∧ o ≤ L ∧ o ≤ T ∧ min d L ≤ d ∧ min d L ≤ L ∧ (d ≤ o → min d L = d) ∧ (o ≤ d → min d L = o) ∧
    (o = L ∨ (o = T ∧ T < L)) ∧ min (min r T) L = r ∧ min o d = min d L := by
  omega

theorem size_facts (sizes : List Nat) (hd : sizes.length = 4) (L : Nat → Nat) (nofill : Bool)
    (hbig : sizes.contains bigN = true → L 0 + L 1 + L 2 + L 3 < bigN) :
    SizeFacts sizes L nofill fun b =>
      min (min ((balance (totalOf sizes) sizes ((List.range 4).map fun b => min (totalOf sizes) (L b)) nofill).getD b 0)
        (totalOf sizes)) (L b) := by
  generalize hT : totalOf sizes = T
  generalize ho : ((List.range 4).map fun b => min T (L b)) = o
  generalize hr : balance T sizes o nofill = r
  have hog : ∀ k < 4, o.getD k 0 = min T (L k) := by
    intro k hk; rw [← ho, getD_map_range _ 4 k 0 hk]
  have hrl : r.length = 4 := by rw [← hr]; exact balance_length T sizes o nofill hd
  have hrs := sum4 r hrl
  have hds := sum4 sizes hd
  have hTT : T = sizes.getD 0 0 + sizes.getD 1 0 + sizes.getD 2 0 + sizes.getD 3 0 ∨
      (L 0 + L 1 + L 2 + L 3 < T ∧
        (sizes.getD 0 0 = T ∨ sizes.getD 1 0 = T ∨ sizes.getD 2 0 = T ∨ sizes.getD 3 0 = T)) := by
    rw [← hT, totalOf]
    by_cases hc : sizes.contains bigN = true
    · right; rw [if_pos hc]; exact ⟨hbig hc, (contains4 sizes hd bigN).1 hc⟩
    · left; rw [if_neg hc]; exact hds
  have hb := balance_bounds T sizes o nofill
  rw [hr] at hb
  have hdT : ∀ k < 4, sizes.getD k 0 ≤ T ∨ L k < T := by
    intro k hk
    have : k = 0 ∨ k = 1 ∨ k = 2 ∨ k = 3 := by omega
    rcases hTT with h | h
    · left; rcases this with rfl | rfl | rfl | rfl <;> omega
    · right; rcases this with rfl | rfl | rfl | rfl <;> omega
  have hbf : ∀ k < 4, _ := fun k hk =>
    bin_facts T (sizes.getD k 0) (L k) (o.getD k 0) (r.getD k 0) (hog k hk) (hb k hk).1 (hb k hk).2 (hdT k hk)
  have hs0 : (size0 sizes o).sum = min (sizes.getD 0 0) (L 0) + min (sizes.getD 1 0) (L 1) +
      min (sizes.getD 2 0) (L 2) + min (sizes.getD 3 0) (L 3) := by
    rw [size0, sum_map_range4, (hbf 0 (by omega)).2.2.2.2.2.2.2.2.2.2, (hbf 1 (by omega)).2.2.2.2.2.2.2.2.2.2,
      (hbf 2 (by omega)).2.2.2.2.2.2.2.2.2.2, (hbf 3 (by omega)).2.2.2.2.2.2.2.2.2.2]
  have hnr : ∀ k < 4, min (min (r.getD k 0) T) (L k) = r.getD k 0 := fun k hk => (hbf k hk).2.2.2.2.2.2.2.2.2.1
  obtain ⟨a0, a1, a2, a3, a4, a5, a6, a7, a8, -, -⟩ := hbf 0 (by omega)
  obtain ⟨b0, b1, b2, b3, b4, b5, b6, b7, b8, -, -⟩ := hbf 1 (by omega)
  obtain ⟨c0, c1, c2, c3, c4, c5, c6, c7, c8, -, -⟩ := hbf 2 (by omega)
  obtain ⟨e0, e1, e2, e3, e4, e5, e6, e7, e8, -, -⟩ := hbf 3 (by omega)
  -- the fill cases, with everything said about the four bins
  have hfill : nofill = false →
      ((∀ k < 4, sizes.getD k 0 ≤ o.getD k 0) ∧ (∀ k < 4, r.getD k 0 = sizes.getD k 0)) ∨
      (r.sum ≤ T ∧ (r.sum = T ∨ ∀ k < 4, r.getD k 0 = o.getD k 0)) := by
    intro hnf
    subst hnf
    rcases balance_fill T sizes o with ⟨hge, hrd⟩ | ⟨⟨k, hk, hko⟩, hle, hfull⟩
    · left; rw [hr] at hrd; subst hrd; exact ⟨hge, fun _ _ => rfl⟩
    · right
      rw [hr] at hle hfull
      refine ⟨hle ?_, hfull⟩
      rw [hs0]
      have hbk := hbf k hk
      have : k = 0 ∨ k = 1 ∨ k = 2 ∨ k = 3 := by omega
      generalize min (sizes.getD 0 0) (L 0) = w0 at *
      generalize min (sizes.getD 1 0) (L 1) = w1 at *
      generalize min (sizes.getD 2 0) (L 2) = w2 at *
      generalize min (sizes.getD 3 0) (L 3) = w3 at *
      rcases hTT with h | h
      · rcases this with rfl | rfl | rfl | rfl <;> omega
      · omega
  have hsum : r.sum ≤ T := by
    cases nofill with
    | true =>
      have hn := balance_nofill T sizes o
      rw [hr] at hn
      have hn0 := hn 0 (by omega); have hn1 := hn 1 (by omega); have hn2 := hn 2 (by omega); have hn3 := hn 3 (by omega)
      rw [(hbf 0 (by omega)).2.2.2.2.2.2.2.2.2.2] at hn0
      rw [(hbf 1 (by omega)).2.2.2.2.2.2.2.2.2.2] at hn1
      rw [(hbf 2 (by omega)).2.2.2.2.2.2.2.2.2.2] at hn2
      rw [(hbf 3 (by omega)).2.2.2.2.2.2.2.2.2.2] at hn3
      generalize min (sizes.getD 0 0) (L 0) = w0 at *
      generalize min (sizes.getD 1 0) (L 1) = w1 at *
      generalize min (sizes.getD 2 0) (L 2) = w2 at *
      generalize min (sizes.getD 3 0) (L 3) = w3 at *
      rcases hTT with h | h <;> omega
    | false =>
      rcases hfill rfl with ⟨hge, hrd⟩ | ⟨hle, _⟩
      · have hg0 := hge 0 (by omega); have hg1 := hge 1 (by omega); have hg2 := hge 2 (by omega); have hg3 := hge 3 (by omega)
        have hr0 := hrd 0 (by omega); have hr1 := hrd 1 (by omega); have hr2 := hrd 2 (by omega); have hr3 := hrd 3 (by omega)
        rcases hTT with h | ⟨h, hj⟩
        · omega
        · rcases hj with hj | hj | hj | hj <;> omega
      · exact hle
  refine ⟨?_, ?_, ?_, ?_, ?_, ?_⟩
  · show min (min (r.getD 0 0) T) (L 0) + min (min (r.getD 1 0) T) (L 1) + min (min (r.getD 2 0) T) (L 2) +
      min (min (r.getD 3 0) T) (L 3) ≤ totalOf sizes
    rw [hT, hnr 0 (by omega), hnr 1 (by omega), hnr 2 (by omega), hnr 3 (by omega)]
    omega
  · intro hnf b hb4
    subst hnf
    have hn := balance_nofill T sizes o
    rw [hr] at hn
    show min (min (r.getD b 0) T) (L b) = _
    rw [hnr b hb4, hn b hb4, (hbf b hb4).2.2.2.2.2.2.2.2.2.2]
  · intro b hb4
    show _ ≤ min (min (r.getD b 0) T) (L b)
    rw [hnr b hb4]
    exact (hbf b hb4).1
  · intro b hb4
    show min (min (r.getD b 0) T) (L b) ≤ L b
    omega
  · intro hnf
    show min (min (r.getD 0 0) T) (L 0) + min (min (r.getD 1 0) T) (L 1) + min (min (r.getD 2 0) T) (L 2) +
      min (min (r.getD 3 0) T) (L 3) = min (totalOf sizes) (L 0 + L 1 + L 2 + L 3)
    rw [hT, hnr 0 (by omega), hnr 1 (by omega), hnr 2 (by omega), hnr 3 (by omega)]
    clear a0 a4 a5 a6 a7 b0 b4 b5 b6 b7 c0 c4 c5 c6 c7 e0 e4 e5 e6 e7
    rcases hfill hnf with ⟨hge, hrd⟩ | ⟨_, hfull⟩
    · have hg0 := hge 0 (by omega); have hg1 := hge 1 (by omega); have hg2 := hge 2 (by omega); have hg3 := hge 3 (by omega)
      have hr0 := hrd 0 (by omega); have hr1 := hrd 1 (by omega); have hr2 := hrd 2 (by omega); have hr3 := hrd 3 (by omega)
      rcases hTT with h | ⟨h, hj⟩
      · omega
      · rcases hj with hj | hj | hj | hj <;> omega
    · rcases hfull with hfull | hfull
      · omega
      · have hf0 := hfull 0 (by omega); have hf1 := hfull 1 (by omega); have hf2 := hfull 2 (by omega); have hf3 := hfull 3 (by omega)
        clear hs0 hbf hnr hdT hfill hb hog
        omega
  · intro hnf a ha hna b hb4
    subst hnf
    obtain ⟨i, ρ, hev⟩ := balance_evenInv T sizes o
    rw [hr] at hev
    have hea := hev a ha
    have heb := hev b hb4
    have hfa : ρ ≤ (if a < i then ρ + 1 else ρ) ∧ (if a < i then ρ + 1 else ρ) ≤ ρ + 1 := by split <;> omega
    have hfb : ρ ≤ (if b < i then ρ + 1 else ρ) ∧ (if b < i then ρ + 1 else ρ) ≤ ρ + 1 := by split <;> omega
    have hfab : a < b → (if b < i then ρ + 1 else ρ) ≤ (if a < i then ρ + 1 else ρ) := by
      intro hab; split <;> split <;> omega
    generalize (if a < i then ρ + 1 else ρ) = fa at hea hfa hfab
    generalize (if b < i then ρ + 1 else ρ) = fb at heb hfb hfab
    show min (min (r.getD b 0) T) (L b) - min (sizes.getD b 0) (L b) ≤
        min (min (r.getD a 0) T) (L a) - min (sizes.getD a 0) (L a) + 1 ∧
      (b ≤ a ∨ min (min (r.getD b 0) T) (L b) - min (sizes.getD b 0) (L b) ≤
        min (min (r.getD a 0) T) (L a) - min (sizes.getD a 0) (L a))
    change min (min (r.getD a 0) T) (L a) < L a at hna
    rw [hnr a ha] at hna ⊢
    rw [hnr b hb4]
    by_cases hab : a = b
    · subst hab; omega
    · have hsab : r.getD a 0 + r.getD b 0 ≤ T := by
        have : a = 0 ∨ a = 1 ∨ a = 2 ∨ a = 3 := by omega
        have : b = 0 ∨ b = 1 ∨ b = 2 ∨ b = 3 := by omega
        rcases ‹a = 0 ∨ a = 1 ∨ a = 2 ∨ a = 3› with rfl | rfl | rfl | rfl <;>
          rcases ‹b = 0 ∨ b = 1 ∨ b = 2 ∨ b = 3› with rfl | rfl | rfl | rfl <;> omega
      obtain ⟨p0, p1, p2, p3, p4, p5, p6, p7, p8, -, -⟩ := hbf a ha
      obtain ⟨q0, q1, q2, q3, q4, q5, q6, q7, q8, -, -⟩ := hbf b hb4
      clear hrs hds hTT hs0 hsum hb hog hev hbf hnr hdT hfill
      clear a0 a1 a2 a3 a4 a5 a6 a7 a8 b0 b1 b2 b3 b4 b5 b6 b7 b8 c0 c1 c2 c3 c4 c5 c6 c7 c8 e0 e1 e2 e3 e4 e5 e6 e7 e8
      generalize min (sizes.getD a 0) (L a) = wa at *
      generalize min (sizes.getD b 0) (L b) = wb at *
      generalize r.getD a 0 = ra at *
      generalize r.getD b 0 = rb at *
      generalize sizes.getD a 0 = da at *
      generalize sizes.getD b 0 = db at *
      generalize o.getD a 0 = oa at *
      generalize o.getD b 0 = ob at *
      generalize L a = La at *
      generalize L b = Lb at *
      by_cases hra : ra < oa
      · have hda : da < oa := by omega
        have hwa : wa = da := p6 (by omega)
        have hfa' : ra - da = fa := by have := hea hda; omega
        by_cases hob : ob > db
        · have hwb : wb = db := q6 (by omega)
          have := heb hob
          omega
        · have : rb - wb = 0 := by have := q7 (by omega); omega
          omega
      · have : rb - wb = 0 := by omega
        omega

/-! ### the conjuncts of the checker on the bins of the model (no push) -/

theorem reported_getD (table : Bool) (f : Nat → List UDHit) (b : Nat) (hb : b < 4) :
    (reportedBins table ((List.range 4).map f)).getD b [] = (f b).map (rep table) := by
  rw [reportedBins, List.map_map, getD_map_range _ 4 b [] hb]; rfl

theorem take_length_take {α : Type} (l : List α) (k : Nat) : l.take (l.take k).length = l.take k := by
  rw [List.length_take]
  by_cases h : k ≤ l.length
  · rw [Nat.min_eq_left h]
  · rw [Nat.min_eq_right (by omega), List.take_of_length_le (Nat.le_refl _), List.take_of_length_le (by omega)]

/-- prefixes of the ranked hits of every direction, of any lengths, reported in either form -/
def prefixBins (table : Bool) (cs : List Cand) (dists : List Nat) (k : Nat → Nat) : List (List (String × Option Nat)) :=
  reportedBins table ((List.range 4).map fun b => (ranked cs dists b).take (k b))

theorem prefixBins_getD (table : Bool) (cs : List Cand) (dists : List Nat) (k : Nat → Nat)
    (hp : cs.Pairwise fun a b => a.idx < b.idx) (b : Nat) (hb : b < 4) :
    (prefixBins table cs dists k).getD b [] = ((limOf cs dists b).take (k b)).map fun c => rep table (hitOf c) := by
  rw [prefixBins, reported_getD table _ b hb, ← lim_hits cs dists b hp, ← List.map_take, List.map_map]
  rfl

theorem prefixBins_length (table : Bool) (cs : List Cand) (dists : List Nat) (k : Nat → Nat)
    (hp : cs.Pairwise fun a b => a.idx < b.idx) (b : Nat) (hb : b < 4) :
    ((prefixBins table cs dists k).getD b []).length = min (k b) (ranked cs dists b).length := by
  rw [prefixBins_getD table cs dists k hp b hb, List.length_map, List.length_take, lim_length cs dists b hp]

/-- **prefixOk** — every reported bin lists the names of a prefix of the checker's ranked, limited candidates -/
theorem prefixOk (table : Bool) (cs : List Cand) (dists : List Nat) (k : Nat → Nat)
    (hp : cs.Pairwise fun a b => a.idx < b.idx) : prefixOkB cs dists (prefixBins table cs dists k) = true := by
  rw [prefixOkB, all_range4]
  intro b hb
  rw [gotL_getD _ b hb, limL_getD _ _ b hb, prefixBins_getD table cs dists k hp b hb, beq_iff_eq,
    List.length_map, take_length_take, List.map_map]
  rfl

theorem zip_take_all (table : Bool) : ∀ (l : List Cand) (k : Nat),
    (((l.take k).map fun c => rep table (hitOf c)).zip l).all (fun (g, c) =>
      match g.2 with | some d => d == c.dist | none => true) = true := by
  intro l
  induction l with
  | nil => intro k; simp
  | cons c t ih =>
    intro k
    cases k with
    | zero => simp
    | succ k =>
      simp only [List.take_succ_cons, List.map_cons, List.zip_cons_cons, List.all_cons, ih k, Bool.and_true]
      cases table <;> simp [rep, hitOf]

/-- **distOk** — every reported distance is the distance of the candidate at that rank -/
theorem distOk (table : Bool) (cs : List Cand) (dists : List Nat) (k : Nat → Nat)
    (hp : cs.Pairwise fun a b => a.idx < b.idx) : distOkB cs dists (prefixBins table cs dists k) = true := by
  rw [distOkB, all_range4]
  intro b hb
  rw [gotL_getD _ b hb, limL_getD _ _ b hb, prefixBins_getD table cs dists k hp b hb]
  exact zip_take_all table _ _


/-! the size conjuncts follow from `SizeFacts` about the lengths of the reported bins -/

section sizes
variable (cs : List Cand) (sizes dists : List Nat) (nofill : Bool) (bins : List (List (String × Option Nat)))
  (n : Nat → Nat) (hn : ∀ b < 4, (bins.getD b []).length = n b)
  (F : SizeFacts sizes (fun b => (limOf cs dists b).length) nofill n)
include hn F

theorem sumOk_of : sumOkB sizes bins = true := by
  rw [sumOkB, nL_eq, sum_map_range4, hn 0 (by omega), hn 1 (by omega), hn 2 (by omega), hn 3 (by omega)]
  exact decide_eq_true F.sumOk

theorem nofillOk_of : nofillOkB cs sizes dists nofill bins = true := by
  rw [nofillOkB]
  cases hnf : nofill with
  | false => rfl
  | true =>
    simp only [Bool.not_true, Bool.false_or, beq_iff_eq]
    rw [nL_eq, wantL]
    apply List.map_congr_left
    intro b hb
    have hb' : b < 4 := List.mem_range.1 hb
    rw [hn b hb', obsL_getD cs dists b hb']
    exact F.nofillOk hnf b hb'

theorem atLeast_of : atLeastB cs sizes dists bins = true := by
  rw [atLeastB, all_range4]
  intro b hb
  rw [wantL_getD cs sizes dists b hb, nL_getD bins b hb, hn b hb]
  exact decide_eq_true (F.atLeast b hb)

theorem fillOk_of : fillOkB cs sizes dists nofill bins = true := by
  rw [fillOkB]
  cases hnf : nofill with
  | true => rfl
  | false =>
    simp only [Bool.false_or, beq_iff_eq]
    rw [nL_eq, obsL_eq, sum_map_range4, sum_map_range4, hn 0 (by omega), hn 1 (by omega), hn 2 (by omega), hn 3 (by omega)]
    exact F.fillOk hnf

theorem evenOk_of : evenOkB cs sizes dists nofill bins = true := by
  rw [evenOkB]
  cases hnf : nofill with
  | true => rfl
  | false =>
    simp only [Bool.false_or, List.all_eq_true, List.mem_filter, List.mem_range, decide_eq_true_eq, and_imp]
    intro a ha hna b hb
    rw [nL_getD bins a ha, obsL_getD cs dists a ha, hn a ha] at hna
    rw [extrasL_getD cs sizes dists bins b hb, extrasL_getD cs sizes dists bins a ha, hn a ha, hn b hb]
    have := F.evenOk hnf a ha hna b hb
    simp only [Bool.and_eq_true, Bool.or_eq_true, decide_eq_true_eq, Bool.not_eq_true', decide_eq_false_iff_not, beq_iff_eq]
    refine ⟨this.1, ?_⟩
    rcases this.2 with h | h
    · left; left; omega
    · left; right; exact h

end sizes

/-! ### push mode -/

/-- in an ascending list, a member is among the first `k` distinct values iff fewer than `k` distinct values are
smaller -/
theorem take_eraseDups_asc : ∀ (n : Nat) (l : List Nat), l.length ≤ n → l.Pairwise (· ≤ ·) → ∀ (k d : Nat), d ∈ l →
    (d ∈ l.eraseDups.take k ↔ ((l.eraseDups).filter (fun x => decide (x < d))).length < k) := by
  intro n
  induction n with
  | zero =>
    intro l hl _ k d hd
    have : l = [] := List.length_eq_zero_iff.1 (by omega)
    subst this; cases hd
  | succ n ih =>
    intro l hl hasc k d hd
    cases l with
    | nil => cases hd
    | cons a t =>
      have hat : ∀ x ∈ t, a ≤ x := (List.pairwise_cons.1 hasc).1
      have hsub : (t.filter fun b => !b == a).Pairwise (· ≤ ·) :=
        List.Pairwise.sublist List.filter_sublist (List.pairwise_cons.1 hasc).2
      have hlen : (t.filter fun b => !b == a).length ≤ n := by
        have := List.length_filter_le (fun b => !b == a) t
        simp only [List.length_cons] at hl
        omega
      have hgt : ∀ x ∈ (t.filter fun b => !b == a).eraseDups, a < x := by
        intro x hx
        rw [List.mem_eraseDups, List.mem_filter] at hx
        have h1 := hat x hx.1
        have h2 : x ≠ a := by simpa using hx.2
        omega
      rw [List.eraseDups_cons]
      cases k with
      | zero => simp
      | succ k =>
        rw [List.take_succ_cons, List.mem_cons, List.filter_cons]
        by_cases hda : d = a
        · subst hda
          have hnil : ((t.filter fun b => !b == d).eraseDups).filter (fun x => decide (x < d)) = [] := by
            rw [List.filter_eq_nil_iff]
            intro x hx
            have := hgt x hx
            simp; omega
          simp [hnil]
        · have hdt : d ∈ t := by
            rcases List.mem_cons.1 hd with h | h
            · exact absurd h hda
            · exact h
          have hdt' : d ∈ t.filter fun b => !b == a := by
            rw [List.mem_filter]; exact ⟨hdt, by simpa using hda⟩
          have had : a < d := by have := hat d hdt; omega
          have := ih _ hlen hsub k d hdt'
          simp only [hda, false_or, had, decide_true, if_true, List.length_cons]
          rw [this]
          omega

theorem occurs_perm {l l' : List UDHit} (h : l.Perm l') : PushBins.occurs l = PushBins.occurs l' := by
  funext d
  rw [Bool.eq_iff_iff, PushBins.occurs_iff, PushBins.occurs_iff]
  constructor
  · rintro ⟨x, hx, hd⟩; exact ⟨x, h.mem_iff.1 hx, hd⟩
  · rintro ⟨x, hx, hd⟩; exact ⟨x, h.mem_iff.2 hx, hd⟩

theorem kept_perm {l l' : List UDHit} (h : l.Perm l') (k d : Nat) : PushBins.kept k l d = PushBins.kept k l' d := by
  unfold PushBins.kept PushBins.smallerCount
  rw [occurs_perm h]

/-- for hits sorted by (distance, ambiguities): a distance of the list is kept iff it is among the first `k`
distinct distances of the list -/
theorem kept_sorted (S : List UDHit) (hs : Sorted udLt S) (k : Nat) (h : UDHit) (hh : h ∈ S) :
    (((S.map (·.dist)).eraseDups).take k).contains h.dist = PushBins.kept k S h.dist := by
  have hasc : (S.map (·.dist)).Pairwise (· ≤ ·) := by
    rw [List.pairwise_map]
    apply hs.imp
    intro a b hab
    simp [udLt] at hab
    omega
  have hmem : h.dist ∈ S.map (·.dist) := List.mem_map.2 ⟨h, hh, rfl⟩
  have := take_eraseDups_asc _ _ (Nat.le_refl _) hasc k h.dist hmem
  rw [Bool.eq_iff_iff, List.contains_iff_mem, this, PushBins.kept, decide_eq_true_eq, PushBins.smallerCount_eq]
  rfl

/-- the bins of the model in push mode -/
theorem binsOf_push (o : TROpts) (cs : List Cand) (hp : 0 < o.push) :
    WhichWaySpec.binsOf o (cs.map WhichWaySpec.candHit) = (List.range 4).map fun b =>
      if b = 0 then dirHitsC cs 0
      else sortStable udLt ((dirHitsC cs b).filter fun h => PushBins.kept o.push (dirHitsC cs b) h.dist) := by
  unfold WhichWaySpec.binsOf
  simp only [hp, if_true, dir_filter]
  apply List.map_congr_left
  intro b _
  by_cases hb : b = 0
  · simp only [hb, if_true]
  · simp only [hb, if_false]
    exact PushBins.pushBin_eq o.push hp (dirHitsC cs b)

/-- **the push conjunct** — `same` lists every identical candidate in file order, the other bins every candidate at
the `push` smallest occurring distances, ranked -/
theorem pushOk (table : Bool) (o : TROpts) (cs : List Cand) (hp : 0 < o.push)
    (hi : cs.Pairwise fun a b => a.idx < b.idx) :
    pushOkB cs o.push (reportedBins table (WhichWaySpec.binsOf o (cs.map WhichWaySpec.candHit))) = true := by
  rw [pushOkB, all_range4, binsOf_push o cs hp]
  intro b hb
  rw [reported_getD table _ b hb, perL_getD cs b hb, beq_iff_eq, List.map_map]
  by_cases hb0 : b = 0
  · subst hb0
    simp only [if_true, dirHitsC, List.map_map]
    rfl
  · simp only [hb0, if_false]
    have hi' : (cs.filter fun c => c.bin == b).Pairwise fun a b => a.idx < b.idx :=
      List.Pairwise.sublist List.filter_sublist hi
    have hS : (perOf cs b).map hitOf = sortStable udLt (dirHitsC cs b) := sortCands_hits _ hi'
    rw [← filter_sortStable Props.C08.udLt_swo, ← hS, List.filter_map, List.map_map]
    have hcong : (perOf cs b).filter ((fun h => PushBins.kept o.push (dirHitsC cs b) h.dist) ∘ hitOf) =
        (perOf cs b).filter fun c => (((perOf cs b).map (·.dist)).eraseDups.take o.push).contains c.dist := by
      apply List.filter_congr
      intro c hc
      have hsorted : Sorted udLt ((perOf cs b).map hitOf) := by rw [hS]; exact sorted_sortStable Props.C08.udLt_swo _
      have hk := kept_sorted _ hsorted o.push (hitOf c) (List.mem_map.2 ⟨c, hc, rfl⟩)
      rw [List.map_map] at hk
      have hperm : ((perOf cs b).map hitOf).Perm (dirHitsC cs b) := by rw [hS]; exact sortStable_perm _
      rw [kept_perm hperm] at hk
      exact hk.symm
    rw [hcong]
    rfl

/-! ### assembling -/

theorem filter_bins_length (cs : List Cand) :
    (cs.filter fun c => c.bin == 0).length + (cs.filter fun c => c.bin == 1).length +
      (cs.filter fun c => c.bin == 2).length + (cs.filter fun c => c.bin == 3).length ≤ cs.length := by
  induction cs with
  | nil => simp
  | cons c t ih =>
    simp only [List.filter_cons, List.length_cons]
    by_cases h0 : c.bin = 0
    · simp [h0]; omega
    · by_cases h1 : c.bin = 1
      · simp [h1]; omega
      · by_cases h2 : c.bin = 2
        · simp [h2]; omega
        · by_cases h3 : c.bin = 3
          · simp [h3]; omega
          · simp [h0, h1, h2, h3]; omega

theorem ranked_length_le (cs : List Cand) (dists : List Nat) (b : Nat) :
    (ranked cs dists b).length ≤ (cs.filter fun c => c.bin == b).length := by
  rw [ranked, length_sortStable, dirHitsC]
  have := List.length_filter_le (fun h : UDHit => decide (h.dist ≤ dists.getD b 0)) ((cs.filter fun c => c.bin == b).map hitOf)
  rw [List.length_map] at this
  exact this

/-- the lengths of the bins of the model (no push) satisfy the size facts, for the supplies of the checker -/
theorem model_sizeFacts (o : TROpts) (cs : List Cand) (hd : o.sizes.length = 4)
    (hi : cs.Pairwise fun a b => a.idx < b.idx) (hbig : o.sizes.contains bigN = true → cs.length < bigN) :
    SizeFacts o.sizes (fun b => (limOf cs o.dists b).length) o.nofill
      fun b => min (min ((modelSize o cs).getD b 0) (totalOf o.sizes)) (ranked cs o.dists b).length := by
  have hL : (fun b => (limOf cs o.dists b).length) = fun b => (ranked cs o.dists b).length := by
    funext b; exact lim_length cs o.dists b hi
  rw [hL]
  apply size_facts o.sizes hd (fun b => (ranked cs o.dists b).length) o.nofill
  intro hc
  have := hbig hc
  have h0 := ranked_length_le cs o.dists 0
  have h1 := ranked_length_le cs o.dists 1
  have h2 := ranked_length_le cs o.dists 2
  have h3 := ranked_length_le cs o.dists 3
  have := filter_bins_length cs
  show (ranked cs o.dists 0).length + (ranked cs o.dists 1).length + (ranked cs o.dists 2).length +
    (ranked cs o.dists 3).length < bigN
  omega

/-- the reported bins of the model without push are prefixes of the ranked hits -/
theorem model_bins (table : Bool) (o : TROpts) (cs : List Cand) (hp : o.push = 0) (hd : o.sizes.length = 4) :
    reportedBins table (WhichWaySpec.binsOf o (cs.map WhichWaySpec.candHit)) =
      prefixBins table cs o.dists fun b => min ((modelSize o cs).getD b 0) (totalOf o.sizes) := by
  rw [binsOf_nopush o cs hp hd]; rfl

/-- **the model passes the checker, on declarative candidates**: for candidates listed in file order, four requested
sizes, and fewer than 2^31 - 1 candidates when some size is unlimited, the checker accepts the bins that the model
computes from the candidates, read back from either printed form -/
theorem checkBins_binsOf (table : Bool) (o : TROpts) (cs : List Cand) (hd : o.sizes.length = 4)
    (hi : cs.Pairwise fun a b => a.idx < b.idx) (hbig : o.sizes.contains bigN = true → cs.length < bigN) :
    checkBins cs o.sizes o.dists o.nofill o.push
      (reportedBins table (WhichWaySpec.binsOf o (cs.map WhichWaySpec.candHit))) = none := by
  rw [checkBins_eq]
  by_cases hp : o.push > 0
  · rw [if_pos hp, pushOk table o cs hp hi]; rfl
  · rw [if_neg hp]
    have hp0 : o.push = 0 := by omega
    rw [model_bins table o cs hp0 hd]
    have F := model_sizeFacts o cs hd hi hbig
    have hn := fun b hb => prefixBins_length table cs o.dists
      (fun b => min ((modelSize o cs).getD b 0) (totalOf o.sizes)) hi b hb
    rw [prefixOk table cs o.dists _ hi, distOk table cs o.dists _ hi, sumOk_of cs o.sizes o.dists o.nofill _ _ hn F,
      nofillOk_of cs o.sizes o.dists o.nofill _ _ hn F, atLeast_of cs o.sizes o.dists o.nofill _ _ hn F,
      fillOk_of cs o.sizes o.dists o.nofill _ _ hn F, evenOk_of cs o.sizes o.dists o.nofill _ _ hn F]
    rfl

/-! the candidates of the checker are listed in file order -/

theorem specCand_idx (ref q : List Nat) (n d tt : Nat) (ig : List String) (x : (String × List Nat) × Nat) (c : Cand)
    (h : WhichWaySpec.specCand ref q n d tt ig x = some c) : c.idx = x.2 := by
  unfold WhichWaySpec.specCand at h
  simp only at h
  split at h
  · cases h
  · split at h
    · cases h
    · cases h; rfl

theorem cands_idx (ref q : List Nat) (n d tt : Nat) (ig : List String) : ∀ (l : List (String × List Nat)) (k : Nat),
    ((l.zip (List.range' k l.length)).filterMap (WhichWaySpec.specCand ref q n d tt ig)).Pairwise (fun a b => a.idx < b.idx) ∧
    ∀ c ∈ (l.zip (List.range' k l.length)).filterMap (WhichWaySpec.specCand ref q n d tt ig), k ≤ c.idx := by
  intro l
  induction l with
  | nil => intro k; simp
  | cons a t ih =>
    intro k
    obtain ⟨ih1, ih2⟩ := ih (k + 1)
    simp only [List.length_cons, List.range'_succ, List.zip_cons_cons, List.filterMap_cons]
    cases hc : WhichWaySpec.specCand ref q n d tt ig (a, k) with
    | none =>
      refine ⟨ih1, ?_⟩
      intro c hc'; have := ih2 c hc'; omega
    | some c0 =>
      have h0 := specCand_idx ref q n d tt ig (a, k) c0 hc
      simp only at h0
      refine ⟨List.pairwise_cons.2 ⟨?_, ih1⟩, ?_⟩
      · intro c hc'; have := ih2 c hc'; omega
      · intro c hc'
        rcases List.mem_cons.1 hc' with rfl | hc'
        · omega
        · have := ih2 c hc'; omega

theorem candidates_idx (ref q : List Nat) (ts : List (String × List Nat)) (n d tt : Nat) (ig : List String) :
    (candidates ref q ts n d tt ig).Pairwise fun a b => a.idx < b.idx := by
  rw [WhichWaySpec.candidates_eq, List.range_eq_range']
  exact (cands_idx ref q n d tt ig ts 0).1

theorem candidates_length_le (ref q : List Nat) (ts : List (String × List Nat)) (n d tt : Nat) (ig : List String) :
    (candidates ref q ts n d tt ig).length ≤ ts.length := by
  rw [WhichWaySpec.candidates_eq]
  have := List.length_filterMap_le (WhichWaySpec.specCand ref q n d tt ig) (ts.zip (List.range ts.length))
  simp only [List.length_zip, List.length_range, Nat.min_self] at this
  exact this

/-- **the closing theorem** — the model passes its own specification checker: for an A/C/G/T reference, a query and
targets of the reference's length over the accepted alphabet, four requested sizes, and fewer than 2^31 - 1 targets
when some size is unlimited, the checker accepts, against the declarative candidates computed from the sequences,
the four bins that `topRankingQuery` computes from the `updown list` rows, read back from either printed form -/
theorem model_passes_checker (table : Bool) (o : TROpts) (idq : String) (ref q : List Nat) (ts : List (String × List Nat))
    (hq : ref.length = q.length) (ht : ∀ x ∈ ts, ref.length = x.2.length) (hacgt : ∀ r ∈ ref, isACGT r = true)
    (hr : Props.C10.Accepted ref) (haq : Props.C10.Accepted q) (hat : ∀ x ∈ ts, Props.C10.Accepted x.2)
    (hd : o.sizes.length = 4) (hbig : o.sizes.contains bigN = true → ts.length < bigN) :
    checkBins (candidates ref q ts o.thrNum o.thrDen o.threshTarg o.ignore) o.sizes o.dists o.nofill o.push
      (reportedBins table (topRankingQuery o (getLine idq (ref.map (enc false)) (q.map (enc false)))
        (ts.map fun x => getLine x.1 (ref.map (enc false)) (x.2.map (enc false))))) = none := by
  rw [WhichWaySpec.topRankingQuery_getLine o idq ref q ts hq ht hacgt hr haq hat]
  apply checkBins_binsOf table o _ hd (candidates_idx ref q ts _ _ _ _)
  intro hc
  have := candidates_length_le ref q ts o.thrNum o.thrDen o.threshTarg o.ignore
  have := hbig hc
  omega

/-- the sizes and distance limits that `checkArgs` produces are four each -/
theorem udCheckArgs_length (a b c d e f g h i j : Int) (sz ds : List Nat)
    (hk : udCheckArgs a b c d e f g h i j = some (sz, ds)) : sz.length = 4 ∧ ds.length = 4 := by
  unfold udCheckArgs at hk
  simp only at hk
  split at hk
  · cases hk
  · split at hk
    · cases hk
    · simp only [Option.some.injEq, Prod.mk.injEq] at hk
      obtain ⟨h1, h2⟩ := hk
      subst h1 h2
      constructor
      · split
        · rfl
        · split <;> rfl
      · split
        · rfl
        · split <;> rfl

/-! ### every accepted option set -/

/-- the options of a run: what `checkArgs` made of the size and distance flags, and the other flags as given -/
def optsOf (sz ds : List Nat) (nofill : Bool) (thrNum thrDen threshTarg push : Nat) (ignore : List String) : TROpts :=
  TROpts.mk sz ds nofill thrNum thrDen threshTarg push ignore

/-- **the closing theorem for every option set the command accepts** — whatever `checkArgs` accepts (any mix of
size-total, per-bin sizes with -1 for unlimited, dist-all, per-bin distances, dist-push), any no-fill, thresholds,
ignore list: the model's bins pass the checker -/
theorem model_passes_checker_args (table : Bool) (sizetotal sizeup sizedown sizeside sizesame : Int)
    (distall distup distdown distside distpush : Int) (sz ds : List Nat)
    (hk : udCheckArgs sizetotal sizeup sizedown sizeside sizesame distall distup distdown distside distpush = some (sz, ds))
    (nofill : Bool) (thrNum thrDen threshTarg push : Nat) (ignore : List String)
    (idq : String) (ref q : List Nat) (ts : List (String × List Nat))
    (hq : ref.length = q.length) (ht : ∀ x ∈ ts, ref.length = x.2.length) (hacgt : ∀ r ∈ ref, isACGT r = true)
    (hr : Props.C10.Accepted ref) (haq : Props.C10.Accepted q) (hat : ∀ x ∈ ts, Props.C10.Accepted x.2)
    (hbig : ts.length < bigN) :
    checkBins (candidates ref q ts thrNum thrDen threshTarg ignore) sz ds nofill push
      (reportedBins table (topRankingQuery (optsOf sz ds nofill thrNum thrDen threshTarg push ignore)
        (getLine idq (ref.map (enc false)) (q.map (enc false)))
        (ts.map fun x => getLine x.1 (ref.map (enc false)) (x.2.map (enc false))))) = none :=
  model_passes_checker table (optsOf sz ds nofill thrNum thrDen threshTarg push ignore) idq ref q ts hq ht hacgt hr haq hat
    (udCheckArgs_length _ _ _ _ _ _ _ _ _ _ sz ds hk).1 (fun _ => hbig)

/-! ### the hypotheses are needed; non-vacuity -/

def sb (s : String) : List Nat := s.toList.map (·.toNat)

/-- the verdict of the checker on the model's bins for one query given as text -/
def verdict (table : Bool) (o : TROpts) (ref q : String) (ts : List (String × String)) : Option String :=
  checkBins (candidates (sb ref) (sb q) (ts.map fun x => (x.1, sb x.2)) o.thrNum o.thrDen o.threshTarg o.ignore)
    o.sizes o.dists o.nofill o.push
    (reportedBins table (topRankingQuery o (getLine "q" ((sb ref).map (enc false)) ((sb q).map (enc false)))
      ((ts.map fun x => (x.1, sb x.2)).map fun x => getLine x.1 ((sb ref).map (enc false)) (x.2.map (enc false)))))

def allBig : List Nat := [bigN, bigN, bigN, bigN]

/-- **the reference must be A/C/G/T** — reference ARC, query CRT, target RGC, threshold 1/2: the rows see one
consequential ambiguous site out of two (kept: the target is reported `up` at distance 1), the checker, which compares
letters, counts the target's G under the reference's R as well, two out of three (dropped): the checker rejects the
model's bins -/
example : verdict true (TROpts.mk allBig allBig false 1 2 100 0 []) "ARC" "CRT" [("t", "RGC")] =
    some "a-bin-is-not-a-prefix-of-its-ranked-candidates" := by decide +kernel

/-- **rows of the reference's length** — a query shorter than reference and target: the rows still see the target's
differences beyond the query's end -/
example : verdict true (TROpts.mk allBig allBig false 1 2 100 0 []) "GGTG" "RG" [("t", "N-AC")] =
    some "a-bin-is-not-a-prefix-of-its-ranked-candidates" := by decide +kernel

/-- non-vacuity: repeated target names, a target equal to the query, an ignored name, an ambiguous target, fill from a
short bin, both printed forms -/
example :
    let ts := [("a", "ACGTAC"), ("a", "ACGTAA"), ("b", "TCGTAC"), ("a", "TCGAAC"), ("c", "ACNTAC"), ("x", "ACGTAC"),
      ("b", "ACGTCC"), ("d", "CCGTCA"), ("d", "ACGTTT")]
    verdict true (TROpts.mk [1, 1, 1, 1] allBig false 1 2 100 0 ["x"]) "ACGTAA" "ACGTAC" ts = none ∧
    verdict false (TROpts.mk [1, 1, 1, 1] allBig false 1 2 100 0 ["x"]) "ACGTAA" "ACGTAC" ts = none ∧
    verdict true (TROpts.mk [2, 0, 3, 0] [0, 1, 1, 1] true 1 2 0 0 ["x"]) "ACGTAA" "ACGTAC" ts = none ∧
    verdict true (TROpts.mk allBig allBig false 0 1 100 2 []) "ACGTAA" "ACGTAC" ts = none := by decide +kernel

/-- a short bin is filled from the others: three identical targets requested, two available (one ignored), the
spare place goes to `down`, the first bin in turn with a spare candidate -/
example :
    let ts := [("a", "ACGTAC"), ("a", "ACGTAA"), ("b", "TCGTAC"), ("a", "TCGAAC"), ("c", "ACNTAC"), ("x", "ACGTAC"),
      ("b", "ACGTCC"), ("d", "CCGTCA"), ("d", "ACGTTT"), ("e", "ACGTAG")]
    let o := TROpts.mk [3, 1, 1, 1] allBig false 1 2 100 0 ["x"]
    (topRankingQuery o (getLine "q" ((sb "ACGTAA").map (enc false)) ((sb "ACGTAC").map (enc false)))
      ((ts.map fun x => (x.1, sb x.2)).map fun x => getLine x.1 ((sb "ACGTAA").map (enc false)) (x.2.map (enc false)))).map
        (·.map (·.name)) = [["a", "c"], ["a"], ["b", "b"], ["e"]] ∧
    verdict true o "ACGTAA" "ACGTAC" ts = none := by decide +kernel

/-- **fewer than 2^31 - 1 candidates when a size is unlimited** — with requested sizes (-1, 5, 0, 0), i.e.
(2^31 - 1, 5, 0, 0), and as many candidates, `balance` returns the request, five more than the total 2^31 - 1 that
the checker (and `balance` itself) takes for the total: `size_facts` fails without its last hypothesis -/
example : balance (totalOf [bigN, 5, 0, 0]) [bigN, 5, 0, 0]
      ((List.range 4).map fun b => min (totalOf [bigN, 5, 0, 0]) ([bigN, 5, 0, 0].getD b 0)) false = [bigN, 5, 0, 0] ∧
    ¬ (bigN + 5 + 0 + 0 ≤ totalOf [bigN, 5, 0, 0]) := by decide

end Gofasta.Lemmas.TopRankingSpec
