-- This module serves as the root of the `Gofasta` library.
-- Import modules here that should be built as part of the library.
import Gofasta.Basic
