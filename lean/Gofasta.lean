import Gofasta.Gen.Tables
import Gofasta.Base.Iupac
import Gofasta.Model.Encoding
