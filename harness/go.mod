module gfverif

go 1.19

require (
	github.com/biogo/hts v1.2.1
	github.com/virus-evolution/gofasta v0.0.0
)

require golang.org/x/exp v0.0.0-20230116083435-1de6713980de // indirect

replace github.com/virus-evolution/gofasta => /repo
