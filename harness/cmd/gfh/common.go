package main

import (
	"fmt"
	"io"
	"os"
	"strings"
	"testing/iotest"
	"time"
)

const sym17 = "ACGTRYSWKMBDHVN-?"
const symACGT = "ACGT"
const symAmb = "RYSWKMBDHVN-?"

// randSeq draws n symbols from alphabet, optionally in random case
func randSeq(r *RNG, n int, alphabet string, mixCase bool) string {
	b := make([]byte, n)
	for i := range b {
		c := r.Pick(alphabet)
		if mixCase && c >= 'A' && c <= 'Z' && r.Chance(1, 3) {
			c = c + 32
		}
		b[i] = c
	}
	return string(b)
}

// mutateSeq copies ref and replaces each site with probability num/den by a symbol of alphabet
func mutateSeq(r *RNG, ref string, alphabet string, num, den int, mixCase bool) string {
	b := []byte(ref)
	for i := range b {
		if r.Chance(num, den) {
			b[i] = r.Pick(alphabet)
		}
		if mixCase && b[i] >= 'A' && b[i] <= 'Z' && r.Chance(1, 4) {
			b[i] += 32
		}
	}
	return string(b)
}

type layout struct {
	width     int  // 0 = one line
	crlf      bool // CRLF line ends
	noEOL     bool // no newline after the last line
	blankLead bool // an empty line before the first header
}

func randLayout(r *RNG) layout {
	l := layout{}
	switch r.Intn(4) {
	case 0:
		l.width = 0
	case 1:
		l.width = r.Range(1, 7)
	default:
		l.width = r.Range(8, 80)
	}
	l.crlf = r.Chance(1, 5)
	l.noEOL = r.Chance(1, 5)
	l.blankLead = r.Chance(1, 8) // an empty line before the first header (`echo; cat aln.fasta`)
	return l
}

// renderFasta writes headers (already including any description) and sequences under a layout
func renderFasta(headers, seqs []string, l layout) string {
	var b strings.Builder
	eol := "\n"
	if l.crlf {
		eol = "\r\n"
	}
	if l.blankLead {
		b.WriteString(eol)
	}
	for i := range headers {
		b.WriteString(">" + headers[i] + eol)
		s := seqs[i]
		if l.width <= 0 {
			b.WriteString(s + eol)
		} else {
			for len(s) > 0 {
				w := l.width
				if w > len(s) {
					w = len(s)
				}
				b.WriteString(s[:w] + eol)
				s = s[w:]
			}
		}
	}
	out := b.String()
	if l.noEOL && strings.HasSuffix(out, eol) {
		out = out[:len(out)-len(eol)]
	}
	return out
}

var nameStems = []string{"q", "seq", "hCoV-19/x", "EPI_ISL_", "s.", "A|B|", "hCoV-19%2Fx%2F", "s100%id_"}

// splitNames splits a comma-separated name field of a case; a comma inside a name travels as %2C
func splitNames(s string) []string {
	out := strings.Split(s, ",")
	for i := range out {
		out[i] = strings.ReplaceAll(out[i], "%2C", ",")
	}
	return out
}

// randNamesCSV: as randNames, but 1 time in 6 the IDs contain a double quote or a comma (legal in a FASTA header;
// `updown list` has to quote them for its CSV to be readable again)
func randNamesCSV(r *RNG, n int, prefix string, allowComma bool) []string {
	out := randNames(r, n, prefix)
	if r.Chance(1, 6) {
		marks := []string{"\"", "\"\"", "a\"b"}
		if allowComma { // the topranking output itself is ambiguous for IDs with commas: only where outputs are compared as text
			marks = append(marks, "%2C", "a\"b%2C", "R\u00e9union%2C", "\u0122%2C\u010a", "\u012c\"")
		}
		mark := r.PickStr(marks)
		for i := range out {
			if r.Chance(1, 2) {
				out[i] = out[i] + mark + "z"
			}
		}
	}
	return out
}

func randNames(r *RNG, n int, prefix string) []string {
	out := make([]string, n)
	stem := r.PickStr(nameStems)
	for i := range out {
		out[i] = fmt.Sprintf("%s%s%d", prefix, stem, i)
	}
	return out
}

// withDescriptions appends a random description to some headers (ID stays the first token)
func withDescriptions(r *RNG, names []string) []string {
	out := make([]string, len(names))
	for i, n := range names {
		out[i] = n
		if r.Chance(1, 4) {
			// the ID is the first white-space delimited token: a blank, a TAB or several of them may follow it
			out[i] = n + r.PickStr([]string{" ", " ", "\t", "  ", " \t"}) + "some description " + fmt.Sprint(i)
		}
	}
	return out
}

type result struct {
	out    string
	status string // ok | err:<class> | panic:<msg> | timeout
}

// safeRun runs f with panic recovery and a timeout. A goroutine that hangs is leaked on purpose.
func safeRun(timeout time.Duration, f func() (string, error)) result {
	ch := make(chan result, 1)
	go func() {
		defer func() {
			if p := recover(); p != nil {
				ch <- result{status: "panic:" + firstLine(fmt.Sprint(p))}
			}
		}()
		o, err := f()
		if err != nil {
			ch <- result{out: o, status: "err:" + firstLine(err.Error())}
			return
		}
		ch <- result{out: o, status: "ok"}
	}()
	select {
	case r := <-ch:
		return r
	case <-time.After(timeout):
		return result{status: "timeout"}
	}
}

func firstLine(s string) string {
	if i := strings.IndexByte(s, '\n'); i >= 0 {
		s = s[:i]
	}
	if len(s) > 200 {
		s = s[:200]
	}
	return s
}

// goField is what the Lean driver compares: the output on success, otherwise the status
// lastFailure: the status text of the most recent failed run (error message, panic value), kept for the case's errnote
var lastFailure string

func goField(r result) string {
	if r.status == "ok" {
		return r.out
	}
	lastFailure = r.status
	if len(lastFailure) > 300 {
		lastFailure = lastFailure[:300]
	}
	if os.Getenv("GFH_DEBUG") != "" {
		fmt.Fprintln(os.Stderr, "status:", r.status)
	}
	return "!" + statusClass(r.status)
}

func statusClass(s string) string {
	switch {
	case strings.HasPrefix(s, "err:"):
		return "error"
	case strings.HasPrefix(s, "panic:"):
		return "panic"
	}
	return s
}

func hasAmbig(s string) bool {
	for i := 0; i < len(s); i++ {
		if !strings.ContainsRune("ACGTacgt", rune(s[i])) {
			return true
		}
	}
	return false
}

func decThr(num, den int) float64 { return float64(num) / float64(den) }

// genThreshold picks an --aggregate threshold num/den (den a power of ten) for n query sequences: 0, 1, a two-decimal
// value, or a value at / just below / just above an occurring frequency k/n - the exact value when it is a finite
// decimal, its 3-, 9- (nearest) and 12-decimal (floor, ceiling) neighbours otherwise. With at most 12 decimals and
// n <= 1000 the distance to any other k'/n is far above a float64 ulp, so "count/n >= threshold" means the same over
// the rationals (the model) and over float64 (the Go code).
// atScale: is this case to be one of the cases at scale? One in den in the quick tier; the thorough tier draws ten to a hundred
// times as many cases, and a case at scale costs the model seconds, so there it is one in 8*den (still several times as
// many such cases as in the quick tier)
func atScale(r *RNG, den int) bool {
	if opts.tier == "thorough" {
		den *= 8
	}
	return r.Chance(1, den)
}

func genThreshold(r *RNG, n int) (int, int) {
	if n < 1 {
		n = 1
	}
	switch r.Intn(8) {
	case 0:
		return 0, 1
	case 1:
		return 1, 1
	case 2:
		return r.Range(0, 100), 100
	case 3:
		k := r.Range(1, n)
		return k * 1000 / n, 1000
	case 4: // nearest at 9 decimals: the printed frequency
		k := r.Range(1, n)
		return (k*2000000000 + n) / (2 * n), 1000000000
	case 5: // floor at 12 decimals: at or just below k/n
		k := r.Range(1, n)
		return k * 1000000000000 / n, 1000000000000
	case 6: // ceiling at 12 decimals: at or just above k/n
		k := r.Range(1, n)
		return (k*1000000000000 + n - 1) / n, 1000000000000
	default: // floor at 9 decimals
		k := r.Range(1, n)
		return k * 1000000000 / n, 1000000000
	}
}

func layoutOf(width int, crlf bool) layout { return layout{width: width, crlf: crlf} }

// textReader hands a text to the code under test through one of the shapes an io.Reader may have: everything at once with
// io.EOF reported by a separate call (strings.Reader, a file), the last bytes together with io.EOF in one call (a gzip
// stream, a network body), one byte per call, or short reads of a few bytes. The entry points take io.Reader, so all are valid.
func textReader(key string, txt string) io.Reader {
	switch idSeed(key) % 5 {
	case 1:
		return iotest.DataErrReader(strings.NewReader(txt))
	case 2:
		return iotest.OneByteReader(strings.NewReader(txt))
	case 3:
		return iotest.DataErrReader(iotest.HalfReader(strings.NewReader(txt)))
	}
	return strings.NewReader(txt)
}
