package main

// wiring.go: go/ast extractor of how the command-line layer hands its options to the packages: for every cobra command
// of cmd/*.go, every call of a pkg/ function inside its RunE, with each argument traced back to the option it comes from
// (a flag variable, or a stream opened from an option) or printed as written.

import (
	"fmt"
	"go/ast"
	"go/parser"
	"go/printer"
	"go/token"
	"path/filepath"
	"sort"
	"strings"
)

func dumpWiring(root string) string {
	files, _ := filepath.Glob(filepath.Join(root, "cmd", "*.go"))
	sort.Strings(files)
	fset := token.NewFileSet()
	var parsed []*ast.File
	for _, f := range files {
		if strings.HasSuffix(f, "_test.go") {
			continue
		}
		if af, err := parser.ParseFile(fset, f, nil, 0); err == nil {
			parsed = append(parsed, af)
		}
	}
	src := func(e ast.Expr) string {
		var b strings.Builder
		printer.Fprint(&b, fset, e)
		return strings.ReplaceAll(strings.Join(strings.Fields(b.String()), " "), "\"", "'")
	}
	// flag variable -> option name (package-level variables: one name space for the whole cmd package)
	flagOf := map[string]string{}
	for _, af := range parsed {
		ast.Inspect(af, func(n ast.Node) bool {
			call, ok := n.(*ast.CallExpr)
			if !ok {
				return true
			}
			sel, ok := call.Fun.(*ast.SelectorExpr)
			if !ok || !strings.Contains(sel.Sel.Name, "Var") || len(call.Args) < 2 {
				return true
			}
			u, ok := call.Args[0].(*ast.UnaryExpr)
			if !ok || u.Op != token.AND {
				return true
			}
			if lit, ok := call.Args[1].(*ast.BasicLit); ok {
				flagOf[identName(u.X)] = strings.Trim(lit.Value, "\"")
			}
			return true
		})
	}
	// *cmd.Flag("name") inside an expression
	flagArg := func(e ast.Expr) string {
		name := ""
		ast.Inspect(e, func(n ast.Node) bool {
			if call, ok := n.(*ast.CallExpr); ok {
				if sel, ok := call.Fun.(*ast.SelectorExpr); ok && sel.Sel.Name == "Flag" && len(call.Args) == 1 {
					if lit, ok := call.Args[0].(*ast.BasicLit); ok {
						name = strings.Trim(lit.Value, "\"")
					}
				}
			}
			return true
		})
		return name
	}
	type wcall struct {
		cmd, callee string
		args        []string
	}
	var calls []wcall
	for _, af := range parsed {
		pkgs := map[string]bool{}
		for _, im := range af.Imports {
			p := strings.Trim(im.Path.Value, "\"")
			if strings.Contains(p, "/pkg/") && !strings.HasSuffix(p, "/gfio") {
				pkgs[filepath.Base(p)] = true
			}
		}
		for _, d := range af.Decls {
			gd, ok := d.(*ast.GenDecl)
			if !ok {
				continue
			}
			for _, sp := range gd.Specs {
				vs, ok := sp.(*ast.ValueSpec)
				if !ok || len(vs.Values) != 1 {
					continue
				}
				cmdVar := vs.Names[0].Name
				ast.Inspect(vs.Values[0], func(n ast.Node) bool {
					kv, ok := n.(*ast.KeyValueExpr)
					if !ok || identName(kv.Key) != "RunE" {
						return true
					}
					fl, ok := kv.Value.(*ast.FuncLit)
					if !ok {
						return true
					}
					local := map[string]string{}
					ast.Inspect(fl.Body, func(m ast.Node) bool {
						switch s := m.(type) {
						case *ast.AssignStmt:
							if len(s.Rhs) == 1 {
								if call, ok := s.Rhs[0].(*ast.CallExpr); ok {
									if sel, ok := call.Fun.(*ast.SelectorExpr); ok && identName(sel.X) == "gfio" {
										if fn := flagArg(call); fn != "" {
											kind := "in:"
											if strings.Contains(sel.Sel.Name, "Out") {
												kind = "out:"
											}
											local[identName(s.Lhs[0])] = kind + fn
										}
									}
								}
							}
						case *ast.CallExpr:
							sel, ok := s.Fun.(*ast.SelectorExpr)
							if !ok || !pkgs[identName(sel.X)] {
								return true
							}
							w := wcall{cmd: cmdVar, callee: identName(sel.X) + "." + sel.Sel.Name}
							for _, a := range s.Args {
								n := identName(a)
								switch {
								case n != "" && local[n] != "":
									w.args = append(w.args, local[n])
								case n != "" && flagOf[n] != "":
									w.args = append(w.args, "flag:"+flagOf[n])
								default:
									w.args = append(w.args, "expr:"+src(a))
								}
							}
							calls = append(calls, w)
						}
						return true
					})
					return false
				})
			}
		}
	}
	// parameter names of the callees (pkg/<pkg>/*.go)
	params := map[string][]string{}
	pfiles, _ := filepath.Glob(filepath.Join(root, "pkg", "*", "*.go"))
	for _, f := range pfiles {
		if strings.HasSuffix(f, "_test.go") {
			continue
		}
		af, err := parser.ParseFile(token.NewFileSet(), f, nil, 0)
		if err != nil {
			continue
		}
		for _, d := range af.Decls {
			if fd, ok := d.(*ast.FuncDecl); ok && fd.Recv == nil && fd.Name.IsExported() {
				var ps []string
				for _, fl := range fd.Type.Params.List {
					for _, n := range fl.Names {
						ps = append(ps, n.Name)
					}
				}
				params[af.Name.Name+"."+fd.Name.Name] = ps
			}
		}
	}
	for i := range calls {
		ps := params[calls[i].callee]
		for j := range calls[i].args {
			name := "?"
			if j < len(ps) {
				name = ps[j]
			}
			calls[i].args[j] = name + "=" + calls[i].args[j]
		}
	}
	var b strings.Builder
	b.WriteString("-- every call of a pkg/ function from a command's RunE: (command variable, callee, arguments as parameter=source, the source traced to its option:\n")
	b.WriteString("-- flag:<option> the option's variable, in:/out:<option> a stream opened from the option, expr:<as written>)\n")
	b.WriteString("def cliCalls : List (String × String × List String) := [")
	for i, w := range calls {
		if i > 0 {
			b.WriteString(",")
		}
		fmt.Fprintf(&b, "\n  (%q, %q, %s)", w.cmd, w.callee, leanStrList(w.args))
	}
	b.WriteString("]\n")
	return b.String()
}
