package main

import (
	"fmt"
	"strings"
)

// injectBothGapColumns inserts, at the same random places of every row, columns that are '-' everywhere
func injectBothGapColumns(r *RNG, rows []string) []string {
	if len(rows) == 0 {
		return rows
	}
	w := len(rows[0])
	n := r.Range(1, 5)
	var at []int
	for i := 0; i < n; i++ {
		at = append(at, r.Range(0, w))
	}
	out := make([]string, len(rows))
	for ri, row := range rows {
		var b strings.Builder
		for p := 0; p <= w; p++ {
			for _, a := range at {
				if a == p {
					b.WriteString(strings.Repeat("-", 1+(a%3)))
				}
			}
			if p < w {
				b.WriteByte(row[p])
			}
		}
		out[ri] = b.String()
	}
	return out
}

func execRel(r *RNG, c *Case) {
	names := strings.Split(c.Get("names"), ",")
	seqs := strings.Split(c.Get("seqs"), ",")
	agg := c.Get("agg") == "1"
	var a, b result
	switch c.Get("relkind") {
	case "regap":
		a = runVariants(c, seqs, names, c.Get("anntext"), c.Get("annfmt"), agg, false)
		b = runVariants(c, injectBothGapColumns(NewRNG(idSeed(c.ID)+7), seqs), names, c.Get("anntext"), c.Get("annfmt"), agg, false)
	case "stdin":
		a = runVariants(c, seqs, names, c.Get("anntext"), c.Get("annfmt"), agg, false)
		b = runVariants(c, seqs, names, c.Get("anntext"), c.Get("annfmt"), agg, true)
	case "layout": // the same alignment, one line per sequence with LF against wrapped with CRLF
		ca, cb := cloneCase(c), cloneCase(c)
		ca.Set("lay", "plain")
		cb.Set("lay", "crlfwrap")
		a = runVariants(ca, seqs, names, c.Get("anntext"), c.Get("annfmt"), agg, false)
		b = runVariants(cb, seqs, names, c.Get("anntext"), c.Get("annfmt"), agg, false)
	case "gbgff":
		a = runVariants(c, seqs, names, c.Get("anntext"), "gb", agg, false)
		b = runVariants(c, seqs, names, c.Get("anntext2"), "gff", agg, false)
	case "agg":
		a = runVariants(c, seqs, names, c.Get("anntext"), c.Get("annfmt"), false, false)
		b = runVariants(c, seqs, names, c.Get("anntext"), c.Get("annfmt"), true, false)
	case "samvar-topa", "samvar-toma":
		a = runSamVariants(c, false)
		b = runFastaRoute(c, c.Get("relkind"))
	case "legacy", "unwrap-toma", "window-slice-topa":
		a, b = execRelSam(c)
	case "c12":
		execC12(c)
		return
	case "fourway":
		execFourWay(c)
		return
	case "snpsagg":
		a = runSnps(c, false)
		b = runSnps(c, true)
	case "aggpipe": // the aggregate table written in-process against the binary's, read through a slow pipe
		cc := cloneCase(c)
		cc.Set("via", "").SetInt("thrn", 0).SetInt("thrd", 1)
		a, b = runSnps(cc, true), runSnpsSlowPipe(cc)
	case "samefile":
		a, b = runSameFile(c)
	case "bigref":
		a, b = runBigRef(c)
	case "gfffasta":
		a, b = runListAsText(c.Get("text")), runGffFastaSection(c.Get("text"))
	}
	c.Set("goa", goField(a)).Set("gob", goField(b))
}

// relOf turns a VAR case into a REL case of the given kind
func relOf(c *Case, kind, rel string) *Case {
	n := cloneCase(c)
	n.Prop = "REL"
	n.ID = c.ID + "-" + kind
	n.Set("relkind", kind).Set("rel", rel)
	n.NonTrv = true
	n.Tag("rel-" + kind)
	return n
}

func init() {
	// C04: annotation shapes x substitutions
	gens["C04"] = func(r *RNG, id string) *Case {
		if r.Chance(1, 4) { // the SAM form: several reads per worker, insertions at different places in reads of one width,
			// queries cut into overlapping records with a short and a long insertion (every coordinate right of a
			// mis-spliced insertion shifts: substitutions are lost and invented)
			genSamOverlapOften = r.Bool()
			c := samVarGen(r, id, r.PickInt([]int{2, 5}), false)
			genSamOverlapOften = false
			c.Set("focus", "nucaa")
			c.Tag("sam-form")
			return c
		}
		c := genVarCase(r, id, varOpts{fmtWeights: [2]int{1, 2}, withIns: r.Chance(1, 3), gffShapes: true, allowPhase: true, maxGenes: 6, sameName: true, sameNameLoci: true, ambRef: true, agg: r.Chance(1, 4)})
		c.Set("focus", "nucaa") // C04 speaks about nuc: and aa: records; ins:/del: belong to C05
		return c
	}
	execs["C04"] = func(r *RNG, c *Case) { execs[c.Prop](r, c) }
	// C05: gap layouts, and the column-invariance relation on the real code
	gens["C05"] = func(r *RNG, id string) *Case {
		if r.Chance(1, 4) { // the SAM form: multi-record queries, insertions after N / D, several insertions per record
			genSamOverlapOften = true
			c := samVarGen(r, id, r.PickInt([]int{2, 5}), false)
			genSamOverlapOften = false
			c.Set("focus", "indel")
			c.Tag("sam-form")
			return c
		}
		c := genVarCase(r, id, varOpts{fmtWeights: [2]int{1, 1}, withIns: true, gapRich: true, allowPhase: false, maxGenes: 3})
		if c.Get("refmode") != "ann" && r.Chance(1, 2) {
			return relOf(c, "regap", "eq")
		}
		c.Set("focus", "indel") // C05 speaks about ins: and del: records
		return c
	}
	execs["C05"] = func(r *RNG, c *Case) { execs[c.Prop](r, c) }
	// C17 (as used): the translation of every kind of IUPAC codon inside `variants`, forward and reverse features
	gens["C17var"] = func(r *RNG, id string) *Case {
		denseIUPAC = true
		c := genVarCase(r, id, varOpts{fmtWeights: [2]int{1, 1}, withIns: false, maxGenes: 3, ambRef: true, allowPhase: true})
		denseIUPAC = false
		c.Set("focus", "nucaa")
		c.Tag("dense-iupac")
		return c
	}
	execs["C17var"] = func(r *RNG, c *Case) { execs[c.Prop](r, c) }
	// C13: aggregate = counted per-sequence output
	gens["C13"] = func(r *RNG, id string) *Case {
		if r.Chance(1, 100) { // snps --aggregate on a genome of more than 100 000 columns: the table is ordered by position as a number
			forceWideGenome = true
			c := c03Gen(r, id, true)
			forceWideGenome = false
			return c
		}
		if r.Chance(1, 60) {
			// an aggregate table of well over 64 KiB (thousands of distinct SNPs) going to a pipe with a slow reader: every
			// line must arrive (a writer that is still flushing when the command returns loses the highest positions)
			c := NewCase("C03", id)
			w := r.Range(5000, 7000)
			ref := randSeq(r, w, symACGT, false)
			var seqs []string
			for i := 0; i < 4; i++ {
				seqs = append(seqs, mutateSeq(r, ref, symACGT, 9, 10, false))
			}
			c.SetBool("hard", false).Set("ref", ref).Set("names", "a,b,c,d").Set("seqs", strings.Join(seqs, ",")).SetBool("agg", true)
			return relOf(c, "aggpipe", "same")
		}
		if r.Chance(1, 3) {
			c := c03Gen(r, id, true)
			if r.Bool() {
				n := relOf(c, "snpsagg", "aggregate")
				return n
			}
			return c
		}
		if r.Chance(1, 4) { // sam variants --aggregate, now and then with a read named like the reference
			genSamRefNamedQuery = r.Chance(1, 3)
			c := samVarGen(r, id, r.PickInt([]int{0, 2}), r.Chance(1, 3))
			genSamRefNamedQuery = false
			c.SetBool("agg", true)
			n, d := genThreshold(r, 4)
			c.SetInt("thrn", n).SetInt("thrd", d)
			c.Tag("sam-aggregate")
			return c
		}
		c := genVarCase(r, id, varOpts{fmtWeights: [2]int{1, 1}, withIns: r.Bool(), agg: true, window: r.Chance(1, 3), maxGenes: 4, sameName: true})
		if r.Chance(1, 5) {
			// the same sample twice in the alignment (one ID, the same mutations): two records, counted twice
			names := strings.Split(c.Get("names"), ",")
			seqs := strings.Split(c.Get("seqs"), ",")
			var q []int
			for i, n := range names {
				if n != c.Get("refname") {
					q = append(q, i)
				}
			}
			if len(q) > 0 && c.Get("refmode") != "stdin" {
				i := q[r.Intn(len(q))]
				names = append(names[:i+1:i+1], append([]string{names[i]}, names[i+1:]...)...)
				seqs = append(seqs[:i+1:i+1], append([]string{seqs[i]}, seqs[i+1:]...)...)
				c.Set("names", strings.Join(names, ",")).Set("seqs", strings.Join(seqs, ","))
				c.Tag("record-id-twice-in-a-row")
			}
		}
		if r.Chance(1, 2) {
			return relOf(c, "agg", "aggregate")
		}
		c.SetBool("agg", true)
		return c
	}
	execs["C13"] = func(r *RNG, c *Case) { execs[c.Prop](r, c) }
	// C14: the same genes as GenBank and as GFF3
	gens["C14"] = c14Gen
	execs["C14"] = func(r *RNG, c *Case) { execs[c.Prop](r, c) }
	// C15 (variants part): windows and stdin
	gens["C15v"] = func(r *RNG, id string) *Case {
		c := genVarCase(r, id, varOpts{fmtWeights: [2]int{1, 1}, withIns: r.Bool(), window: true, agg: r.Chance(1, 4), maxGenes: 4})
		if c.Get("refmode") == "msa" && r.Chance(1, 2) {
			// reference first, read as a file vs. from "stdin"
			names := strings.Split(c.Get("names"), ",")
			seqs := strings.Split(c.Get("seqs"), ",")
			for i, n := range names {
				if n == c.Get("refname") {
					names[0], names[i] = names[i], names[0]
					seqs[0], seqs[i] = seqs[i], seqs[0]
				}
			}
			if r.Chance(1, 3) {
				// `cat ref.fa aln.fa | gofasta variants -r REF` where aln.fa holds the reference too: its ID occurs again
				at := 1 + r.Intn(len(names))
				names = append(names[:at:at], append([]string{names[0]}, names[at:]...)...)
				seqs = append(seqs[:at:at], append([]string{seqs[0]}, seqs[at:]...)...)
				c.Tag("reference-record-twice")
			}
			c.Set("names", strings.Join(names, ",")).Set("seqs", strings.Join(seqs, ","))
			return relOf(c, "stdin", "eq")
		}
		return c
	}
	execs["C15v"] = func(r *RNG, c *Case) { execs[c.Prop](r, c) }
}

// c14Gen: genes expressible in both formats; emits the GFF run (checked against model and spec) or
// the GenBank/GFF relation on the real code
func c14Gen(r *RNG, id string) *Case {
	c := NewCase("VAR", id)
	L := r.Range(30, 160)
	genome := randSeq(r, L, symACGT, false)
	var genes []gene
	for i := 0; i < r.Range(1, 5); i++ {
		if g, ok := randGene(r, L, i, true); ok {
			if r.Chance(1, 6) {
				// a fusion product: '+' is an ordinary character of a name in both annotation formats
				g.name += r.PickStr([]string{"+pol", "+", "+b+c"})
				c.Tag("plus-in-feature-name")
			}
			genes = append(genes, g)
		}
	}
	if L >= 40 && r.Chance(1, 6) {
		// three features of one name: a..b, a+3..b and join(a..m, n..b), the differently numbered one in the middle
		a := r.Range(1, L-36)
		b := a + 3*r.Range(8, 10) - 1
		nth := 0
		mk := func(segs [][2]int, form string) gene {
			nth++
			return gene{name: "X", strand: 1, codonStart: 1, gffNamed: true, gffID: true, gffType: "CDS", gbForm: form, segs: segs, idSuffix: fmt.Sprintf("-%d", nth)}
		}
		m := a + 3*r.Range(3, 4) - 1
		n := m + 1 + 3*r.Range(1, 2)
		genes = append(genes, mk([][2]int{{a, b}}, "range"), mk([][2]int{{a + 3, b}}, "range"), mk([][2]int{{a, m}, {n, b}}, "join"))
		c.Tag("three-features-of-one-name")
	}
	refName := "REF" + fmt.Sprint(r.Intn(90)+10)
	gbTxt, gbProto := renderGenbank(genes, genome)
	if r.Chance(1, 8) {
		gbTxt = padGenbank(r, gbTxt)
		c.Tag("genbank-origin-across-a-64KiB-boundary")
	}
	var rows []gffRow
	for _, g := range genes {
		rows = append(rows, gffRowsOf(g)...)
	}
	switch r.Intn(4) {
	case 0, 1: // GFF files are commonly sorted by start: the rows of a joined gene are then not adjacent
		rows = sortRowsByStart(rows)
		c.Tag("rows-sorted-by-start")
	case 2:
		// the rows of every feature in the order of transcription (as NCBI writes them): descending on the minus strand
		var out []gffRow
		for _, g := range genes {
			gr := gffRowsOf(g)
			if g.strand < 0 {
				for i, j := 0, len(gr)-1; i < j; i, j = i+1, j-1 {
					gr[i], gr[j] = gr[j], gr[i]
				}
				if len(gr) > 1 {
					c.Tag("minus-strand-rows-in-transcription-order")
				}
			}
			out = append(out, gr...)
		}
		rows = out
	default:
		// GFF3 fixes no order at all: every feature's rows shuffled among themselves
		var out []gffRow
		for _, g := range genes {
			gr := gffRowsOf(g)
			for i := len(gr) - 1; i > 0; i-- {
				j := r.Intn(i + 1)
				gr[i], gr[j] = gr[j], gr[i]
			}
			out = append(out, gr...)
		}
		rows = out
		c.Tag("feature-rows-shuffled")
	}
	if len(rows) > 1 && r.Chance(1, 60) {
		// a row of another type with an attribute of 70 000 characters, between the coding rows: a line longer than
		// bufio.Scanner's default token (everything behind it used to be lost)
		at := r.Range(1, len(rows)-1)
		long := gffRow{typ: "region", start: 1, end: L, strand: "+", phase: ".", id: "note1", name: strings.Repeat("x", 70000)}
		rows = append(rows[:at:at], append([]gffRow{long}, rows[at:]...)...)
		c.Tag("gff-line-longer-than-64KiB")
	}
	gffTxt, gffProto := renderGFF(rows, genome, true, r.Bool(), refName)
	annMode := r.Chance(1, 4) // no --reference: the reference comes from the annotation (ORIGIN / ##FASTA)
	m := buildMSA(r, genome, r.Range(1, 5), r.Bool() && !annMode, r.Bool())
	names := append([]string{refName}, m.names...)
	seqs := append([]string{m.refRow}, m.rows...)
	refmode := "msa"
	if annMode {
		refmode = "ann"
		names, seqs = append([]string{}, m.names...), append([]string{}, m.rows...)
		if r.Bool() { // a query filed under the reference's accession: it is a query like any other, in both formats
			names[r.Intn(len(names))] = refName
			c.Tag("query-named-like-annotation-sequence")
		}
	}
	c.Set("refmode", refmode).Set("refname", refName).Set("origin", genome)
	c.Set("names", strings.Join(names, ",")).Set("seqs", strings.Join(seqs, ","))
	ws, we := -1, -1
	if r.Chance(1, 3) { // a window: what lies inside it must not depend on the format either (GenBank features keep file order)
		switch r.Intn(3) {
		case 0:
			we = r.Range(1, L)
		case 1:
			ws = r.Range(1, L)
		default:
			ws = r.Range(1, L)
			we = r.Range(ws, L)
		}
		c.Tag("window")
	}
	c.SetBool("append", r.Bool()).SetInt("start", ws).SetInt("end", we).SetBool("agg", false).SetInt("thrn", 0).SetInt("thrd", 1)
	c.SetInt("threads", r.PickInt([]int{1, 2, 4}))
	for _, g := range genes {
		c.Tag("form-" + g.gbForm)
		if g.codonStart > 1 {
			c.Tag("codon-start")
		}
		if len(g.segs) > 1 {
			c.Tag("joined")
		}
	}
	c.NonTrv = len(genes) > 0
	switch r.Intn(3) {
	case 0:
		c.Set("annfmt", "gb").Set("feats", gbProto).Set("rows", "").Set("anntext", gbTxt)
		return c
	case 1:
		c.Set("annfmt", "gff").Set("feats", "").Set("rows", gffProto).Set("anntext", gffTxt)
		return c
	default:
		c.Set("annfmt", "gb").Set("feats", gbProto).Set("rows", gffProto).Set("anntext", gbTxt).Set("anntext2", gffTxt)
		return relOf(c, "gbgff", "multiset")
	}
}

// sortRowsByStart: stable sort by start coordinate (rows of one ID keep their relative order, which is ascending)
func sortRowsByStart(rows []gffRow) []gffRow {
	out := append([]gffRow{}, rows...)
	for i := 1; i < len(out); i++ {
		for j := i; j > 0 && out[j].start < out[j-1].start; j-- {
			out[j], out[j-1] = out[j-1], out[j]
		}
	}
	return out
}
