package main

import "github.com/virus-evolution/gofasta/pkg/verifhook"

// withJitter runs f with the scheduling jitter armed (seeded), then disarms it
func withJitter(seed uint64, maxUs uint64, f func()) {
	verifhook.SetSeed(seed, maxUs)
	defer verifhook.Disable()
	f()
}
