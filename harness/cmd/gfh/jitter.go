package main

import (
	"os"
	"runtime"

	"github.com/virus-evolution/gofasta/pkg/verifhook"
)

// withJitter runs f with the scheduling jitter armed (seeded), then disarms it
func withJitter(seed uint64, maxUs uint64, f func()) {
	verifhook.SetSeed(seed, maxUs)
	defer verifhook.Disable()
	f()
}

// runExec runs a case's executor; a case carrying a "jit" field runs with the scheduling jitter armed, so that the
// workers of the pipeline under test finish far out of order (stragglers included) and the order-restoring stages
// of the property's own entry point are exercised, not only those of the C12 streams
func runExec(ex func(*RNG, *Case), r *RNG, c *Case) {
	// one case in eleven runs on a single processor (GOMAXPROCS=1, in-process and for the binary): pools sized from the
	// processor count, and anything that relies on workers finishing in some order, must still behave
	if idSeed(c.ID)%11 == 0 {
		prev := runtime.GOMAXPROCS(1)
		os.Setenv("GOMAXPROCS", "1")
		defer func() {
			runtime.GOMAXPROCS(prev)
			os.Unsetenv("GOMAXPROCS")
		}()
	}
	if j := c.Get("jit"); j != "" && j != "0" {
		withJitter(uint64(atoi(j)), 400, func() { ex(r, c) })
		return
	}
	ex(r, c)
}

// manyRecords decides (1 case in `one`) that a case gets many short records and jitter; returns the record count
func manyRecords(r *RNG, c *Case, one int) int {
	if !r.Chance(1, one) {
		return 0
	}
	c.SetInt("jit", 1+r.Intn(1000000))
	c.Tag("many-records-jitter")
	return r.Range(120, 320)
}
