package main

import (
	"fmt"
	"os"
	"path/filepath"
	"strings"
	"time"
)

// a valid input set for one command: files (name -> content) and the argument vector (with {dir})
type cmdSetup struct {
	cmd    string
	files  map[string]string
	args   []string
	fastas []string // names of the FASTA inputs that corruptions may hit
	reflen int
}

func validSetup(r *RNG, cmd string) cmdSetup {
	w := r.Range(8, 40)
	ref := randSeq(r, w, symACGT, false)
	n := r.Range(3, 6)
	if r.Chance(1, 3) {
		// many more records than any reader looks ahead (channels hold about one record per CPU): a command that stops
		// reading once its answer is settled never reaches a defect in a late record
		n = r.Range(40, 80)
	}
	var seqs []string
	for i := 0; i < n; i++ {
		seqs = append(seqs, mutateSeq(r, ref, symACGT, 1, 8, false))
	}
	names := randNames(r, n, "")
	for i := range names {
		names[i] = strings.NewReplacer("/", "_", "|", "_").Replace(names[i])
	}
	lay := layout{}
	refFa := renderFasta([]string{"ref"}, []string{ref}, lay)
	aln := renderFasta(names, seqs, lay)
	s := cmdSetup{cmd: cmd, files: map[string]string{}, reflen: w}
	switch cmd {
	case "snps":
		s.files["r.fa"], s.files["a.fa"] = refFa, aln
		s.args = []string{"snps", "-r", "{dir}/r.fa", "-q", "{dir}/a.fa"}
		s.fastas = []string{"r.fa", "a.fa"}
	case "closest", "closest-n":
		nqr := 2
		if r.Bool() { // a single query record (commands may take another path for it)
			nqr = 1
		}
		s.files["q.fa"], s.files["t.fa"] = renderFasta(names[:nqr], seqs[:nqr], lay), aln
		s.args = []string{"closest", "--query", "{dir}/q.fa", "--target", "{dir}/t.fa", "-t", "2"}
		if cmd == "closest-n" {
			s.args = append(s.args, "-n", "2")
		}
		s.fastas = []string{"q.fa", "t.fa"}
	case "list":
		s.files["r.fa"], s.files["a.fa"] = refFa, aln
		s.args = []string{"updown", "list", "-r", "{dir}/r.fa", "-q", "{dir}/a.fa"}
		s.fastas = []string{"r.fa", "a.fa"}
	case "topranking":
		nqr := 2
		if r.Bool() {
			nqr = 1
		}
		s.files["r.fa"], s.files["q.fa"], s.files["t.fa"] = refFa, renderFasta(names[:nqr], seqs[:nqr], lay), aln
		s.args = []string{"updown", "topranking", "-r", "{dir}/r.fa", "-q", "{dir}/q.fa", "-t", "{dir}/t.fa", "--size-total", "4"}
		s.fastas = []string{"r.fa", "q.fa", "t.fa"}
	case "variants":
		g := gene{name: "g0", strand: 1, codonStart: 1, segs: [][2]int{{1, 6}}, gbForm: "range", gffNamed: true, gffID: true, gffType: "CDS"}
		gb, _ := renderGenbank([]gene{g}, ref)
		s.files["ann.gb"] = gb
		s.files["m.fa"] = renderFasta(append([]string{"ref"}, names...), append([]string{ref}, seqs...), lay)
		s.args = []string{"variants", "--msa", "{dir}/m.fa", "-r", "ref", "-a", "{dir}/ann.gb", "-t", "2"}
		s.fastas = []string{"m.fa"}
	case "toma", "topa", "samvariants":
		var recs []samRec
		for i := range names {
			recs = append(recs, samRec{name: names[i], flag: 0, pos: 1, cigar: fmt.Sprintf("%dM", w), seq: seqs[i]})
		}
		s.files["a.sam"] = samText("ref", w, recs, true)
		s.files["r.fa"] = refFa
		switch cmd {
		case "toma":
			s.args = []string{"sam", "toMultiAlign", "-s", "{dir}/a.sam", "-t", "2"}
		case "topa":
			s.args = []string{"sam", "toPairAlign", "-s", "{dir}/a.sam", "-r", "{dir}/r.fa", "-o", "{dir}/out", "-t", "2"}
			s.fastas = []string{"r.fa"}
		default:
			g := gene{name: "g0", strand: 1, codonStart: 1, segs: [][2]int{{1, 6}}, gbForm: "range", gffNamed: true, gffID: true, gffType: "CDS"}
			gb, _ := renderGenbank([]gene{g}, ref)
			s.files["ann.gb"] = gb
			s.args = []string{"sam", "variants", "-s", "{dir}/a.sam", "-r", "{dir}/r.fa", "-a", "{dir}/ann.gb", "-t", "2"}
			s.fastas = []string{"r.fa"}
		}
	}
	// valid extra options: the same refusal must come through every option path of the command line layer
	opt := func(chance int, extra ...string) {
		if r.Chance(1, chance) {
			s.args = append(s.args, extra...)
		}
	}
	switch cmd {
	case "snps":
		opt(3, "--hard-gaps")
		opt(3, "--aggregate", "--threshold", r.PickStr([]string{"0", "0.2", "0.5"}))
	case "closest", "closest-n":
		opt(2, "-m", r.PickStr([]string{"snp", "raw", "tn93"}))
		opt(3, "-d", r.PickStr([]string{"0", "0.3", "1", "5"}))
		opt(3, "--table")
	case "topranking":
		opt(3, "--table")
		opt(3, "--no-fill")
		opt(3, "--dist-all", "3")
		opt(4, "--threshold-pair", "0.5")
	case "variants", "samvariants":
		opt(3, "--aggregate")
		opt(3, "--append-snps")
		opt(4, "--start", "2", "--end", fmt.Sprint(w-1))
	case "toma":
		opt(3, "--pad")
		opt(3, "--wrap", "7")
	case "topa":
		opt(3, "--skip-insertions")
		opt(3, "--wrap", "7")
		opt(4, "--omit-reference")
	}
	return s
}

// corruptFasta applies one corruption to the record at position where (first/middle/last)
// badSymbol: a symbol no FASTA reader accepts - an ASCII one, or a byte above 0x7f whose low seven bits are an accepted
// symbol (a table indexed by a masked byte reads them as A, g, - and t), alone or as the two bytes of one UTF-8 character
func badSymbol(r *RNG) string {
	return r.PickStr([]string{"X", "J", "Z", "*", "1", "\xc1", "\xe7", "\xad", "\xf4", "\xc3\xad"})
}

func corruptFasta(r *RNG, txt, kind, where string) string {
	lines := strings.Split(strings.TrimSuffix(txt, "\n"), "\n")
	var seqIdx []int
	for i, l := range lines {
		if !strings.HasPrefix(l, ">") {
			seqIdx = append(seqIdx, i)
		}
	}
	if len(seqIdx) == 0 {
		return txt
	}
	at := seqIdx[0]
	switch where {
	case "middle":
		at = seqIdx[len(seqIdx)/2]
	case "last":
		at = seqIdx[len(seqIdx)-1]
	}
	switch kind {
	case "short-row":
		lines[at] = lines[at][:len(lines[at])-1]
	case "long-row":
		lines[at] = lines[at] + "A"
	case "bad-symbol":
		p := r.Intn(len(lines[at]))
		lines[at] = lines[at][:p] + badSymbol(r) + lines[at][p+1:]
	case "record-without-sequence":
		// a header that is followed directly by the next header (or by the end of the file): a record of width 0 in front
		// of the record at `where`, or after the last one
		if where == "last" {
			lines = append(lines, ">no_sequence")
		} else if at > 0 {
			lines = append(lines[:at-1:at-1], append([]string{">no_sequence"}, lines[at-1:]...)...)
		}
	case "header-without-id":
		// the header line of that record carries no ID: a bare '>' or '>' followed by white space only
		if at > 0 && strings.HasPrefix(lines[at-1], ">") {
			lines[at-1] = r.PickStr([]string{">", "> ", ">\t", ">  "})
		}
	}
	return strings.Join(lines, "\n") + "\n"
}

var c18Cmds = []string{"snps", "closest", "closest-n", "list", "topranking", "variants", "toma", "topa", "samvariants"}

// caseIndex: the running number at the end of a case ID ("C18-<seed>-<k>"), -1 if there is none
func caseIndex(id string) int {
	i := strings.LastIndex(id, "-")
	if i < 0 {
		return -1
	}
	n := 0
	for _, ch := range id[i+1:] {
		if ch < '0' || ch > '9' {
			return -1
		}
		n = n*10 + int(ch-'0')
	}
	return n
}

// c18Combination: the k-th element of commands x kinds x where x which
func c18Combination(k int) ([4]string, bool) {
	for _, cmd := range c18Cmds {
		seen := map[string]bool{}
		for _, kind := range c18Kinds(cmd) {
			if seen[kind] {
				continue
			}
			seen[kind] = true
			for _, where := range []string{"first", "middle", "last"} {
				nwhich := 3
				if kind == "window" {
					nwhich = 8 // every shape of bad window, at each position
				}
				for which := 0; which < nwhich; which++ {
					if k == 0 {
						return [4]string{cmd, kind, where, fmt.Sprint(which)}, true
					}
					k--
				}
			}
		}
	}
	return [4]string{}, false
}

func c18Gen(r *RNG, id string) *Case {
	c := NewCase("EXIT", id)
	cmds := c18Cmds
	cmd := r.PickStr(cmds)
	c.Set("cmd", cmd).Set("expect", "refuse")
	c.SetInt("setupseed", r.Intn(1<<30))
	kinds := c18Kinds(cmd)
	c.Set("kind", r.PickStr(kinds))
	return c18Rest(r, id, c, cmd)
}

func c18Kinds(cmd string) []string {
	kinds := []string{"short-row", "long-row", "bad-symbol", "header-without-id", "record-without-sequence", "missing-file", "empty-file", "width-mismatch", "two-record-reference", "late-short-row", "late-bad-symbol"}
	switch cmd {
	case "toma", "topa", "samvariants":
		kinds = []string{"empty-sam", "missing-file", "empty-file"}
		if cmd == "toma" {
			kinds = append(kinds, "headerless-sam", "window")
		}
		if cmd == "topa" {
			kinds = append(kinds, "window", "two-record-reference", "bad-symbol", "header-without-id", "record-without-sequence")
		}
		if cmd == "samvariants" {
			kinds = append(kinds, "bad-suffix", "two-record-reference", "bad-symbol", "header-without-id", "record-without-sequence")
		}
	case "topranking":
		kinds = append(kinds, "empty-csv", "bad-csv-header", "no-option", "csv-bad-amb", "csv-bad-snp", "csv-bad-count", "csv-short-row")
	case "variants":
		kinds = []string{"short-row", "long-row", "bad-symbol", "header-without-id", "record-without-sequence", "missing-file", "empty-file", "bad-suffix", "width-mismatch"}
	case "closest", "closest-n":
		kinds = []string{"short-row", "long-row", "bad-symbol", "header-without-id", "record-without-sequence", "missing-file", "empty-file", "width-mismatch", "late-short-row", "late-bad-symbol", "late-short-row", "late-bad-symbol"}
	}
	return kinds
}

func c18Rest(r *RNG, id string, c *Case, cmd string) *Case {
	c.Set("where", r.PickStr([]string{"first", "middle", "last"}))
	c.SetInt("which", r.Intn(8))
	c.SetInt("wstart", 0).SetInt("wend", 0)
	if r.Chance(1, 12) { // the unmodified input must be accepted (guards against a check that always says "refuse")
		c.Set("kind", "none").Set("expect", "accept")
	}
	// the first cases of a run walk through the whole product the property quantifies over - every command x every
	// corruption it can suffer x first / middle / last record x each of its input files (which = 0, 1, 2) - so that no
	// combination depends on the draw; the random cases after them vary everything else (set-ups, options, symbols)
	if k := caseIndex(id); k >= 0 {
		if cmb, ok := c18Combination(k); ok {
			c.Set("cmd", cmb[0]).Set("kind", cmb[1]).Set("where", cmb[2]).Set("which", cmb[3]).Set("expect", "refuse")
			cmd = cmb[0]
			c.Tag("systematic")
		}
	}
	c.Tag(cmd)
	c.Tag(c.Get("kind"))
	c.NonTrv = true
	return c
}

func execExitC18(c *Case, dir string) {
	r := NewRNG(uint64(atoi(c.Get("setupseed"))))
	s := validSetup(r, c.Get("cmd"))
	kind := c.Get("kind")
	args := append([]string{}, s.args...)
	var target string
	if len(s.fastas) > 0 {
		target = s.fastas[atoi(c.Get("which"))%len(s.fastas)]
	}
	anyFile := func() string {
		var names []string
		for n := range s.files {
			// only files the command line refers to; an empty annotation is not among the listed conditions
			used := false
			for _, a := range s.args {
				if a == "{dir}/"+n {
					used = true
				}
			}
			if used && !strings.HasPrefix(n, "ann.") {
				names = append(names, n)
			}
		}
		// deterministic order
		for i := range names {
			for j := i + 1; j < len(names); j++ {
				if names[j] < names[i] {
					names[i], names[j] = names[j], names[i]
				}
			}
		}
		return names[atoi(c.Get("which"))%len(names)]
	}
	switch kind {
	case "none":
	case "short-row", "long-row", "bad-symbol", "header-without-id", "record-without-sequence":
		s.files[target] = corruptFasta(r, s.files[target], kind, c.Get("where"))
		c.Set("text", strings.ToValidUTF8(s.files[target], "?")).Set("file", target) // the line protocol carries text: bytes that are not UTF-8 are shown as ?
	case "late-short-row", "late-bad-symbol":
		// the defect sits in the last of many records, far beyond what any reader has looked ahead to when the command
		// could already know its answer (e.g. every query of `closest` has found an identical, complete target)
		f := s.fastas[len(s.fastas)-1]
		lines := strings.Split(strings.TrimSuffix(s.files[f], "\n"), "\n")
		tmpl := lines[len(lines)-1]
		var b strings.Builder
		b.WriteString(strings.Join(lines, "\n") + "\n")
		nLate := r.Range(40, 90)
		for k := 0; k < nLate; k++ {
			q := mutateSeq(r, tmpl, symACGT, 1, 8, false)
			if k == nLate-1 {
				if kind == "late-short-row" {
					q = q[:len(q)-1]
				} else {
					q = q[:len(q)/2] + badSymbol(r) + q[len(q)/2+1:]
				}
			}
			fmt.Fprintf(&b, ">late%d\n%s\n", k, q)
		}
		s.files[f] = b.String()
		c.Set("file", f).SetInt("late", nLate)
	case "missing-file":
		f := anyFile()
		delete(s.files, f)
		c.Set("file", f)
	case "empty-file":
		f := anyFile()
		s.files[f] = ""
		c.Set("file", f)
	case "empty-sam":
		s.files["a.sam"] = ""
	case "headerless-sam":
		var keep []string
		for _, l := range strings.Split(s.files["a.sam"], "\n") {
			if !strings.HasPrefix(l, "@") {
				keep = append(keep, l)
			}
		}
		s.files["a.sam"] = strings.Join(keep, "\n")
	case "width-mismatch":
		// make one whole FASTA input consistently one column narrower or wider than the others
		var lines []string
		grow := atoi(c.Get("which"))%2 == 0
		for _, l := range strings.Split(strings.TrimSuffix(s.files[target], "\n"), "\n") {
			if !strings.HasPrefix(l, ">") {
				if grow {
					l = l + "A"
				} else if len(l) > 1 {
					l = l[:len(l)-1]
				}
			}
			lines = append(lines, l)
		}
		if c.Get("cmd") == "variants" { // m.fa holds reference and queries: change only the queries
			orig := strings.Split(strings.TrimSuffix(s.files[target], "\n"), "\n")
			copy(lines[:2], orig[:2])
			if atoi(c.Get("which"))/2%2 == 0 {
				// the reference comes from the annotation (no --reference): the alignment is a well-formed file whose every
				// row is one column wider or narrower than the annotated genome
				lines = lines[2:]
				var kept []string
				for i := 0; i < len(args); i++ {
					if args[i] == "-r" {
						i++
						continue
					}
					kept = append(kept, args[i])
				}
				args = kept
				c.Tag("reference-from-annotation")
			}
		}
		s.files[target] = strings.Join(lines, "\n") + "\n"
		c.Set("file", target)
	case "two-record-reference":
		s.files["r.fa"] = s.files["r.fa"] + s.files["r.fa"]
	case "empty-csv":
		f := []string{"q", "t"}[atoi(c.Get("which"))%2]
		s.files[f+".csv"] = ""
		for i, a := range args {
			if a == "{dir}/"+f+".fa" {
				args[i] = "{dir}/" + f + ".csv"
			}
		}
	case "bad-csv-header":
		f := []string{"q", "t"}[atoi(c.Get("which"))%2]
		s.files[f+".csv"] = "name,snps,ambs\nx,A1T,\n"
		for i, a := range args {
			if a == "{dir}/"+f+".fa" {
				args[i] = "{dir}/" + f + ".csv"
			}
		}
	case "csv-bad-amb", "csv-bad-snp", "csv-bad-count", "csv-short-row":
		// a CSV that is not `updown list` output: one data row (first / middle / last) is malformed
		f := []string{"q", "t"}[atoi(c.Get("which"))%2]
		fa := s.files[f+".fa"]
		fc := NewCase("X", "x")
		fc.Set("ref", strings.Split(strings.TrimSpace(s.files["r.fa"]), "\n")[1])
		csvTxt, _ := udList(fc, fa)
		rows := strings.Split(strings.TrimSuffix(csvTxt, "\n"), "\n")
		at := 1
		switch c.Get("where") {
		case "middle":
			at = 1 + (len(rows)-1)/2
		case "last":
			at = len(rows) - 1
		}
		cols := strings.Split(rows[at], ",")
		if len(cols) == 5 {
			switch kind {
			case "csv-bad-amb":
				cols[2] = []string{"2-4-9", "1-x", "3|", "a"}[atoi(c.Get("which"))/2%4]
				if cols[1] == "" || atoi(c.Get("which"))%3 == 0 {
					cols[1] = "A1T|C2G" // with and without SNPs on the same row
				}
			case "csv-bad-snp":
				cols[1] = "AxT"
			case "csv-bad-count":
				cols[4] = "many"
			case "csv-short-row":
				cols = cols[:4]
			}
			rows[at] = strings.Join(cols, ",")
			if r.Chance(1, 3) {
				// scale: a valid row of more than 64 KiB (some ten thousand SNPs) right before the malformed one: a reader
				// that gives up on long lines must say so, not end the reading as if the file were finished
				var sn []string
				n := r.Range(9500, 12000)
				for p := 1; p <= n; p++ {
					sn = append(sn, fmt.Sprintf("A%dC", p))
				}
				long := fmt.Sprintf("longrow,%s,,%d,0", strings.Join(sn, "|"), n)
				rows = append(rows[:at:at], append([]string{long}, rows[at:]...)...)
				c.Tag("row-over-64KiB-before-the-malformed-row")
			}
		}
		s.files[f+".csv"] = strings.Join(rows, "\n") + "\n"
		for i, a := range args {
			if a == "{dir}/"+f+".fa" {
				args[i] = "{dir}/" + f + ".csv"
			}
		}
	case "no-option":
		var na []string
		for i := 0; i < len(args); i++ {
			if args[i] == "--size-total" || args[i] == "--dist-all" { // every size/dist option goes (with its value)
				i++
				continue
			}
			na = append(na, args[i])
		}
		args = na
	case "window":
		L := s.reflen
		var st, en int
		switch atoi(c.Get("which")) % 8 {
		case 0:
			st, en = 0, L
		case 1:
			st, en = 1, L+1
		case 2:
			st, en = L+1, -1
		case 3:
			st, en = 5, 4
		case 4:
			st, en = -1, 0
		case 5:
			st, en = -1, -7 // an end below 1 that is not the "unset" value, no start
			if c.Get("cmd") == "toma" {
				args = append(args, "--pad")
			}
		case 6:
			st, en = -3, -1 // a start below 1 that is not the "unset" value, no end
		default:
			st, en = 2, 0
		}
		if st != -1 {
			args = append(args, "--start", fmt.Sprint(st))
		}
		if en != -1 {
			args = append(args, "--end", fmt.Sprint(en))
		}
		c.SetInt("wstart", st).SetInt("wend", en).SetInt("reflen", L)
	case "bad-suffix":
		s.files["ann.txt"] = s.files["ann.gb"]
		for i, a := range args {
			if a == "{dir}/ann.gb" {
				args[i] = "{dir}/ann.txt"
			}
		}
	}
	for n, content := range s.files {
		os.WriteFile(filepath.Join(dir, n), []byte(content), 0644)
	}
	// half of the runs write to a file instead of the standard output (a refusal must not depend on where the output goes)
	if r.Bool() {
		switch c.Get("cmd") {
		case "snps", "closest", "closest-n", "list", "topranking", "variants", "samvariants":
			args = append(args, "-o", "{dir}/out.csv")
			c.Tag("output-to-file")
		case "toma":
			args = append(args, "--fasta-out", "{dir}/out.fa")
			c.Tag("output-to-file")
		}
	}
	for i := range args {
		args[i] = strings.ReplaceAll(args[i], "{dir}", dir)
	}
	_, _, code, to := runCLI(10*time.Second, "", args...)
	c.Set("go", fmt.Sprintf("exit=%d;timeout=%d", code, b2i(to)))
}

func init() {
	gens["C18"] = c18Gen
	execs["C18"] = func(r *RNG, c *Case) { execs[c.Prop](r, c) }
}
