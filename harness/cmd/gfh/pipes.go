package main

// pipes.go: go/ast extractor of the SHAPE of every concurrent pipeline driver in pkg/ - which channels a function makes
// (and whether buffered), which goroutines it launches on which channels, and the staged `select` loops in which the driver
// waits: per arm, the channel received from, whether the arm returns the received error, and which channels it closes.
// The result is Gen.pipes; Lean decides (Props/Sched) that every driver is an instance of the pipeline whose every
// schedule is covered by the theorems of Lemmas/SchedProofs.

import (
	"fmt"
	"go/ast"
	"go/parser"
	"go/printer"
	"go/token"
	"path/filepath"
	"sort"
	"strings"
)

type pipeLaunch struct {
	kind   string // go | worker | waiter | other
	inLoop bool
	callee string
	wg     string
	chans  []string
}

type pipeArm struct {
	ch      string
	retErr  bool // the arm's body returns the value received from the channel
	closes  []string
	counts  bool // n--
	returns bool // the arm returns (anything)
}

type pipeFact struct {
	fn       string
	chans    [][2]string // name, "0" unbuffered / "n" buffered
	launches []pipeLaunch
	stages   [][]pipeArm
	tail     string
}

func identName(e ast.Expr) string {
	if id, ok := e.(*ast.Ident); ok {
		return id.Name
	}
	return ""
}

func calleeName(e ast.Expr) string {
	switch f := e.(type) {
	case *ast.Ident:
		return f.Name
	case *ast.SelectorExpr:
		return identName(f.X) + "." + f.Sel.Name
	}
	return "?"
}

func chanArgs(call *ast.CallExpr, chans map[string]bool) []string {
	var out []string
	for _, a := range call.Args {
		if n := identName(a); n != "" && chans[n] {
			out = append(out, n)
		}
	}
	return out
}

// selector call X.M() with X an identifier
func methodCall(s ast.Stmt) (string, string, *ast.CallExpr) {
	es, ok := s.(*ast.ExprStmt)
	if !ok {
		return "", "", nil
	}
	call, ok := es.X.(*ast.CallExpr)
	if !ok {
		return "", "", nil
	}
	if sel, ok := call.Fun.(*ast.SelectorExpr); ok {
		return identName(sel.X), sel.Sel.Name, call
	}
	return "", "", call
}

func classifyGo(g *ast.GoStmt, chans map[string]bool, inLoop bool) pipeLaunch {
	l := pipeLaunch{kind: "other", inLoop: inLoop}
	if fl, ok := g.Call.Fun.(*ast.FuncLit); ok {
		body := fl.Body.List
		if len(body) == 2 {
			// { f(args); wg.Done() }
			if es, ok := body[0].(*ast.ExprStmt); ok {
				if call, ok := es.X.(*ast.CallExpr); ok {
					if x, m, _ := methodCall(body[1]); m == "Done" {
						l.kind, l.callee, l.wg, l.chans = "worker", calleeName(call.Fun), x, chanArgs(call, chans)
						return l
					}
				}
			}
			// { wg.Wait(); c <- true }
			if x, m, _ := methodCall(body[0]); m == "Wait" {
				if snd, ok := body[1].(*ast.SendStmt); ok {
					l.kind, l.wg, l.chans = "waiter", x, []string{identName(snd.Chan)}
					return l
				}
			}
		}
		// anything else: list the channels it mentions
		seen := map[string]bool{}
		ast.Inspect(fl.Body, func(n ast.Node) bool {
			if id, ok := n.(*ast.Ident); ok && chans[id.Name] && !seen[id.Name] {
				seen[id.Name] = true
				l.chans = append(l.chans, id.Name)
			}
			return true
		})
		return l
	}
	l.kind, l.callee, l.chans = "go", calleeName(g.Call.Fun), chanArgs(g.Call, chans)
	return l
}

func armsOf(sel *ast.SelectStmt) []pipeArm {
	var arms []pipeArm
	for _, c := range sel.Body.List {
		cc, ok := c.(*ast.CommClause)
		if !ok {
			continue
		}
		a := pipeArm{ch: "default"}
		recvVar := ""
		switch s := cc.Comm.(type) {
		case *ast.AssignStmt:
			if u, ok := s.Rhs[0].(*ast.UnaryExpr); ok && u.Op == token.ARROW {
				a.ch = identName(u.X)
			}
			recvVar = identName(s.Lhs[0])
		case *ast.ExprStmt:
			if u, ok := s.X.(*ast.UnaryExpr); ok && u.Op == token.ARROW {
				a.ch = identName(u.X)
			}
		case *ast.SendStmt:
			a.ch = "send:" + identName(s.Chan)
		}
		for _, st := range cc.Body {
			switch s := st.(type) {
			case *ast.ReturnStmt:
				a.returns = true
				if len(s.Results) == 1 && recvVar != "" && identName(s.Results[0]) == recvVar {
					a.retErr = true
				}
			case *ast.IncDecStmt:
				if s.Tok == token.DEC {
					a.counts = true
				}
			case *ast.ExprStmt:
				if call, ok := s.X.(*ast.CallExpr); ok && identName(call.Fun) == "close" && len(call.Args) == 1 {
					a.closes = append(a.closes, identName(call.Args[0]))
				}
			}
		}
		arms = append(arms, a)
	}
	return arms
}

func pipeOfFunc(pkg string, fd *ast.FuncDecl) (pipeFact, bool) {
	p := pipeFact{fn: pkg + "." + fd.Name.Name, tail: "other"}
	chans := map[string]bool{}
	var walk func(stmts []ast.Stmt, inLoop bool)
	walk = func(stmts []ast.Stmt, inLoop bool) {
		for _, st := range stmts {
			switch s := st.(type) {
			case *ast.AssignStmt:
				if len(s.Lhs) == 1 && len(s.Rhs) == 1 {
					if call, ok := s.Rhs[0].(*ast.CallExpr); ok && identName(call.Fun) == "make" && len(call.Args) >= 1 {
						if _, ok := call.Args[0].(*ast.ChanType); ok {
							n := identName(s.Lhs[0])
							chans[n] = true
							capk := "0"
							if len(call.Args) > 1 {
								capk = "n"
							}
							p.chans = append(p.chans, [2]string{n, capk})
						}
					}
				}
			case *ast.GoStmt:
				p.launches = append(p.launches, classifyGo(s, chans, inLoop))
			case *ast.SelectStmt:
				p.stages = append(p.stages, armsOf(s))
			case *ast.ForStmt:
				walk(s.Body.List, true)
			case *ast.RangeStmt:
				walk(s.Body.List, true)
			case *ast.IfStmt:
				walk(s.Body.List, inLoop)
				if eb, ok := s.Else.(*ast.BlockStmt); ok {
					walk(eb.List, inLoop)
				}
			case *ast.SwitchStmt:
				for _, c := range s.Body.List {
					if cc, ok := c.(*ast.CaseClause); ok {
						walk(cc.Body, inLoop)
					}
				}
			case *ast.BlockStmt:
				walk(s.List, inLoop)
			}
		}
	}
	walk(fd.Body.List, false)
	if n := len(fd.Body.List); n > 0 {
		if r, ok := fd.Body.List[n-1].(*ast.ReturnStmt); ok && len(r.Results) == 1 && identName(r.Results[0]) == "nil" {
			p.tail = "return nil"
		}
	}
	return p, len(p.stages) > 0 && len(p.launches) > 0
}

func leanStrList(xs []string) string {
	q := make([]string, len(xs))
	for i, x := range xs {
		q[i] = fmt.Sprintf("%q", x)
	}
	return "[" + strings.Join(q, ", ") + "]"
}

func dumpPipes(root string) string {
	files, _ := filepath.Glob(filepath.Join(root, "pkg", "*", "*.go"))
	sort.Strings(files)
	var pipes []pipeFact
	for _, f := range files {
		base := filepath.Base(f)
		if strings.HasSuffix(base, "_test.go") || strings.HasPrefix(base, "verif_") {
			continue
		}
		fset := token.NewFileSet()
		af, err := parser.ParseFile(fset, f, nil, 0)
		if err != nil {
			continue
		}
		for _, d := range af.Decls {
			fd, ok := d.(*ast.FuncDecl)
			if !ok || fd.Body == nil {
				continue
			}
			if p, ok := pipeOfFunc(filepath.Base(filepath.Dir(f)), fd); ok {
				pipes = append(pipes, p)
			}
		}
	}
	var b strings.Builder
	b.WriteString("-- every function of pkg/ that launches goroutines and waits in `select`: channels made (name, \"0\" unbuffered or \"n\" buffered),\n")
	b.WriteString("-- launches (kind, in a loop, callee, wait group, channel arguments), select stages in source order\n")
	b.WriteString("-- (per arm: channel, returns the received error, channels closed, counts down, returns at all), last statement\n")
	b.WriteString("def pipes : List (String × List (String × String) × List (String × Bool × String × String × List String) × List (List (String × Bool × List String × Bool × Bool)) × String) := [")
	for i, p := range pipes {
		if i > 0 {
			b.WriteString(",")
		}
		fmt.Fprintf(&b, "\n  (%q,\n    [", p.fn)
		for j, c := range p.chans {
			if j > 0 {
				b.WriteString(", ")
			}
			fmt.Fprintf(&b, "(%q, %q)", c[0], c[1])
		}
		b.WriteString("],\n    [")
		for j, l := range p.launches {
			if j > 0 {
				b.WriteString(",\n     ")
			}
			fmt.Fprintf(&b, "(%q, %v, %q, %q, %s)", l.kind, l.inLoop, l.callee, l.wg, leanStrList(l.chans))
		}
		b.WriteString("],\n    [")
		for j, st := range p.stages {
			if j > 0 {
				b.WriteString(",\n     ")
			}
			b.WriteString("[")
			for k, a := range st {
				if k > 0 {
					b.WriteString(", ")
				}
				fmt.Fprintf(&b, "(%q, %v, %s, %v, %v)", a.ch, a.retErr, leanStrList(a.closes), a.counts, a.returns)
			}
			b.WriteString("]")
		}
		fmt.Fprintf(&b, "],\n    %q)", p.tail)
	}
	b.WriteString("]\n")
	return b.String()
}

// fan-out functions (closest.splitInput, splitInputN, updown.splitInput): one goroutine that ranges over its input
// channel and hands every record to one channel per query. Facts: the channels ranged over at the top level of the
// function (outside any goroutine literal), the goroutine literals, the plain `go f(...)` launches (callee, in a loop),
// and the element channels made (buffered or not).
func dumpFanouts(root string) string {
	files, _ := filepath.Glob(filepath.Join(root, "pkg", "*", "*.go"))
	sort.Strings(files)
	var b strings.Builder
	b.WriteString("-- the fan-out stages: (function, channels ranged over outside goroutine literals, number of goroutine literals,\n")
	b.WriteString("-- plain go launches (callee, in a loop), per-query channels made (\"0\" unbuffered / \"n\" buffered))\n")
	b.WriteString("def fanouts : List (String × List String × Nat × List (String × Bool) × List String) := [")
	first := true
	for _, f := range files {
		base := filepath.Base(f)
		if strings.HasSuffix(base, "_test.go") || strings.HasPrefix(base, "verif_") {
			continue
		}
		fset := token.NewFileSet()
		af, err := parser.ParseFile(fset, f, nil, 0)
		if err != nil {
			continue
		}
		for _, d := range af.Decls {
			fd, ok := d.(*ast.FuncDecl)
			if !ok || fd.Body == nil || !strings.HasPrefix(fd.Name.Name, "splitInput") {
				continue
			}
			var ranged []string
			var launches [][2]string
			var made []string
			lits := 0
			var walk func(n ast.Node, inLoop bool)
			walk = func(n ast.Node, inLoop bool) {
				ast.Inspect(n, func(m ast.Node) bool {
					switch s := m.(type) {
					case *ast.GoStmt:
						if _, ok := s.Call.Fun.(*ast.FuncLit); ok {
							lits++
							return false // what a goroutine literal ranges over is not the function's own loop
						}
						launches = append(launches, [2]string{calleeName(s.Call.Fun), fmt.Sprint(inLoop)})
						return false
					case *ast.RangeStmt:
						if n := identName(s.X); n != "" {
							if tv, ok := s.X.(*ast.Ident); ok && tv.Obj != nil {
								if fld, ok := tv.Obj.Decl.(*ast.Field); ok {
									if _, ok := fld.Type.(*ast.ChanType); ok {
										ranged = append(ranged, n)
									}
								}
							}
						}
						walk(s.Body, true)
						return false
					case *ast.ForStmt:
						walk(s.Body, true)
						return false
					case *ast.AssignStmt:
						if len(s.Rhs) == 1 {
							if call, ok := s.Rhs[0].(*ast.CallExpr); ok && identName(call.Fun) == "make" && len(call.Args) >= 1 {
								if _, ok := call.Args[0].(*ast.ChanType); ok {
									k := "0"
									if len(call.Args) > 1 {
										k = "n"
									}
									made = append(made, k)
								}
							}
						}
					}
					return true
				})
			}
			walk(fd.Body, false)
			if !first {
				b.WriteString(",")
			}
			first = false
			var ls []string
			for _, l := range launches {
				ls = append(ls, fmt.Sprintf("(%q, %s)", l[0], l[1]))
			}
			fmt.Fprintf(&b, "\n  (%q, %s, %d, [%s], %s)", filepath.Base(filepath.Dir(f))+"."+fd.Name.Name, leanStrList(ranged), lits, strings.Join(ls, ", "), leanStrList(made))
		}
	}
	b.WriteString("]\n")
	return b.String()
}

// pool sizes: for every function of pkg/ that calls X.Add(n) on a wait group - the expression n as written, and whether the
// function first makes a `threads` parameter usable (`if threads < 1 { threads = ... }`). The every-schedule theorems
// need at least one worker per pool (`zero_workers_lose_record`, `zero_workers_deadlock`).
func dumpPoolSizes(root string) string {
	files, _ := filepath.Glob(filepath.Join(root, "pkg", "*", "*.go"))
	sort.Strings(files)
	var b strings.Builder
	b.WriteString("-- wait-group sizes: (function, the arguments of every X.Add(...) as written, has `if threads < 1 { threads = ... }`)\n")
	b.WriteString("def poolSizes : List (String × List String × Bool) := [")
	first := true
	for _, f := range files {
		base := filepath.Base(f)
		if strings.HasSuffix(base, "_test.go") || strings.HasPrefix(base, "verif_") {
			continue
		}
		fset := token.NewFileSet()
		af, err := parser.ParseFile(fset, f, nil, 0)
		if err != nil {
			continue
		}
		for _, d := range af.Decls {
			fd, ok := d.(*ast.FuncDecl)
			if !ok || fd.Body == nil {
				continue
			}
			var adds []string
			guarded := false
			ast.Inspect(fd.Body, func(n ast.Node) bool {
				switch s := n.(type) {
				case *ast.CallExpr:
					if sel, ok := s.Fun.(*ast.SelectorExpr); ok && sel.Sel.Name == "Add" && len(s.Args) == 1 && strings.HasPrefix(strings.ToLower(identName(sel.X)), "wg") {
						var sb strings.Builder
						printer.Fprint(&sb, fset, s.Args[0])
						adds = append(adds, sb.String())
					}
				case *ast.IfStmt:
					if be, ok := s.Cond.(*ast.BinaryExpr); ok && be.Op == token.LSS && identName(be.X) == "threads" {
						if lit, ok := be.Y.(*ast.BasicLit); ok && lit.Value == "1" && len(s.Body.List) == 1 {
							if as, ok := s.Body.List[0].(*ast.AssignStmt); ok && len(as.Lhs) == 1 && identName(as.Lhs[0]) == "threads" {
								guarded = true
							}
						}
					}
				}
				return true
			})
			if len(adds) == 0 {
				continue
			}
			if !first {
				b.WriteString(",")
			}
			first = false
			fmt.Fprintf(&b, "\n  (%q, %s, %v)", filepath.Base(filepath.Dir(f))+"."+fd.Name.Name, leanStrList(adds), guarded)
		}
	}
	b.WriteString("]\n")
	return b.String()
}
