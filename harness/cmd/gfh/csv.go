package main

import (
	"bytes"
	"encoding/hex"
	"fmt"
	"strings"
	"time"

	"github.com/virus-evolution/gofasta/pkg/updown"
)

// Stream C09csv: the CSV text layer between `updown list` and `updown topranking`.
//   kind=list : an alignment -> the real updown.List -> its CSV text -> the real readers (list and channel form);
//               the Lean side renders the same rows itself (bytes must match) and states what must be read back
//   kind=raw  : a CSV text derived from such a file by quoting / structural mutations, or hand-made -> the real
//               readers; the Lean model of encoding/csv + the row parser must give the same outcome

func init() {
	gens["C09csv"] = csvGen
	execs["CSV"] = execCsv
	execs["C09csv"] = execCsv
}

func renderUDLs(ls []updown.VerifUDL) string {
	rows := make([]string, len(ls))
	for i, l := range ls {
		sn := make([]string, len(l.Snps))
		for j, s := range l.Snps {
			sn[j] = hex.EncodeToString([]byte(s))
		}
		ps := make([]string, len(l.SnpPos))
		for j, p := range l.SnpPos {
			ps[j] = fmt.Sprint(p)
		}
		as := make([]string, len(l.Ambs))
		for j, a := range l.Ambs {
			as[j] = fmt.Sprint(a)
		}
		rows[i] = hex.EncodeToString([]byte(l.ID)) + ";" + strings.Join(sn, "|") + ";" + strings.Join(ps, "|") + ";" +
			strings.Join(as, "|") + ";" + fmt.Sprint(l.AmbCount)
	}
	return "ok:" + strings.Join(rows, "/")
}

func csvOutcome(text string, viaChan bool) string {
	res := safeRun(10*time.Second, func() (string, error) {
		var ls []updown.VerifUDL
		var err error
		if viaChan {
			ls, err = updown.VerifReadCSVChan(strings.NewReader(text))
		} else {
			ls, err = updown.VerifReadCSVList(strings.NewReader(text))
		}
		if err != nil {
			return "", err
		}
		return renderUDLs(ls), nil
	})
	switch {
	case res.status == "ok":
		return res.out
	case strings.HasPrefix(res.status, "err:"):
		return "error"
	case strings.HasPrefix(res.status, "panic:"):
		return "panic"
	}
	return res.status
}

func csvGen(r *RNG, id string) *Case {
	c := NewCase("CSV", id)
	w := r.Range(1, 60)
	ref := randSeq(r, w, symACGT, false)
	n := r.Range(1, 8)
	names := randNamesCSV(r, n, "", true)
	for i := range names { // this stream compares BYTES with a model whose strings are lists of code points: ASCII names only
		names[i] = strings.Map(func(c rune) rune {
			if c > 126 {
				return 'u'
			}
			return c
		}, names[i])
	}
	if r.Chance(1, 3) { // every name special
		for i := range names {
			names[i] += r.PickStr([]string{"\"", "%2C", "\"\"", "%2C\"", "\"x\"", "%2C%2C"})
		}
	}
	var seqs []string
	for i := 0; i < n; i++ {
		seqs = append(seqs, tractSeq(r, ref))
	}
	c.Set("ref", ref).Set("names", strings.Join(names, ",")).Set("seqs", strings.Join(seqs, ","))
	kind := "list"
	if r.Chance(1, 2) {
		kind = "raw"
		c.SetInt("mut", r.Intn(1<<30))
	}
	c.Set("kind", kind)
	c.NonTrv = true
	return c
}

// mutateCSV: structural and quoting corruptions of a valid file
func mutateCSV(r *RNG, txt string) (string, string) {
	lines := strings.Split(strings.TrimSuffix(txt, "\n"), "\n")
	at := r.Intn(len(lines))
	pick := r.Intn(16)
	tag := ""
	switch pick {
	case 0:
		tag = "crlf"
		return strings.ReplaceAll(txt, "\n", "\r\n"), tag
	case 1:
		tag = "no-final-newline"
		return strings.TrimSuffix(txt, "\n"), tag
	case 2:
		tag = "blank-lines"
		lines = append(lines[:at], append([]string{"", ""}, lines[at:]...)...)
	case 3:
		tag = "bare-quote"
		lines[at] = strings.Replace(lines[at], ",", "\",", 1)
	case 4:
		tag = "unclosed-quote"
		lines[at] = "\"" + lines[at]
	case 5:
		tag = "quoted-fields"
		f := strings.Split(lines[at], ",")
		for i := range f {
			if !strings.Contains(f[i], "\"") {
				f[i] = "\"" + f[i] + "\""
			}
		}
		lines[at] = strings.Join(f, ",")
	case 6:
		tag = "extra-field"
		lines[at] += ",x"
	case 7:
		tag = "missing-field"
		if i := strings.LastIndex(lines[at], ","); i >= 0 {
			lines[at] = lines[at][:i]
		}
	case 8:
		tag = "short-snp"
		f := strings.Split(lines[at], ",")
		if len(f) == 5 && at > 0 {
			f[1] = r.PickStr([]string{"A", "A1T|", "|A1T", "A1T||C2G", "AT"})
			lines[at] = strings.Join(f, ",")
		}
	case 9:
		tag = "bad-number"
		f := strings.Split(lines[at], ",")
		if len(f) == 5 && at > 0 {
			f[r.PickInt([]int{1, 2, 4})] = r.PickStr([]string{"A+1T", "A-1T", "A1xT", "3-", "-3", "2-4-6", "1|", "+5", "-0", "99999999999999999999", "9223372036854775807", "9223372036854775808", "-9223372036854775808", " 5", "5 ", "0x10", "1_0", "٣"})
			lines[at] = strings.Join(f, ",")
		}
	case 10:
		tag = "quote-after-quote"
		lines[at] = strings.Replace(lines[at], ",", "\"\"x,", 1)
		lines[at] = "\"" + lines[at]
	case 11:
		tag = "header-changed"
		lines[0] = r.PickStr([]string{"query,SNPs,ambiguities,SNPcount", "Query,SNPs,ambiguities,SNPcount,ambcount", "\"query\",SNPs,ambiguities,SNPcount,ambcount", "query,SNPs,ambiguities,SNPcount,ambcount,"})
	case 12:
		tag = "lone-cr"
		lines[at] = strings.Replace(lines[at], ",", "\r,", 1)
	case 13:
		tag = "trailing-cr-eof"
		return strings.TrimSuffix(txt, "\n") + "\r", tag
	case 14:
		tag = "multiline-quoted"
		lines[at] = "\"a\nb\"" + lines[at]
	default:
		tag = "empty"
		return r.PickStr([]string{"", "\n", "\r\n", "\n\n"}), tag
	}
	return strings.Join(lines, "\n") + "\n", tag
}

func execCsv(r *RNG, c *Case) {
	names := splitNames(c.Get("names"))
	seqs := strings.Split(c.Get("seqs"), ",")
	refTxt := renderFasta([]string{"reference"}, []string{c.Get("ref")}, layout{})
	alnTxt := renderFasta(names, seqs, layout{})
	var out bytes.Buffer
	if err := updown.List(strings.NewReader(refTxt), strings.NewReader(alnTxt), &out); err != nil {
		c.Set("hex", "").Set("go", "!list-error:"+firstLine(err.Error()))
		return
	}
	txt := out.String()
	if c.Get("kind") == "raw" {
		var tag string
		txt, tag = mutateCSV(NewRNG(uint64(atoi(c.Get("mut")))), txt)
		c.Tag("csv-" + tag)
	}
	c.Set("hex", hex.EncodeToString([]byte(txt)))
	a := csvOutcome(txt, false)
	if a != "panic" { // the channel form runs the same statements in a goroutine of its own: a panic there would kill the harness
		if b := csvOutcome(txt, true); a != b {
			c.Set("go", "!readers-differ:"+a+" <> "+b)
			return
		}
	}
	c.Set("go", a)
}
