package main

import (
	"bytes"
	"fmt"
	"os"
	"path/filepath"
	"strings"
	"time"

	"github.com/virus-evolution/gofasta/pkg/snps"
)

func init() {
	gens["C03"] = func(r *RNG, id string) *Case { return c03Gen(r, id, false) }
	execs["C03"] = execC03
	shrinkers["C03"] = shrinkAlignment
}

// genAlignment: reference + rows over the 17-symbol alphabet
func genAlignment(r *RNG, maxW, maxN int) (ref string, names, seqs []string) {
	w := r.Range(1, maxW)
	if r.Chance(1, 4) {
		w = r.Range(1, 12)
	}
	n := r.Range(1, maxN)
	if r.Chance(1, 3) {
		ref = randSeq(r, w, sym17, true)
	} else {
		ref = randSeq(r, w, symACGT, r.Bool())
	}
	names = randNames(r, n, "")
	for i := 0; i < n; i++ {
		switch r.Intn(3) {
		case 0:
			seqs = append(seqs, randSeq(r, w, sym17, true))
		case 1:
			seqs = append(seqs, mutateSeq(r, ref, sym17, 1, 6, true))
		default:
			seqs = append(seqs, mutateSeq(r, ref, symACGT, 1, 10, false))
		}
	}
	return
}

var forceWideGenome bool
var forceDenseWide bool

func c03Gen(r *RNG, id string, agg bool) *Case {
	c := NewCase("C03", id)
	maxW := 300
	if agg {
		maxW = 40
	}
	ref, names, seqs := genAlignment(r, maxW, 30)
	if n := manyRecords(r, c, 25); n > 0 {
		ref, names, seqs = genAlignment(r, 24, 1)
		names = randNames(r, n, "")
		for len(seqs) < n {
			seqs = append(seqs, mutateSeq(r, ref, sym17, 1, 4, true))
		}
	}
	if !agg && c.Get("jit") == "" && r.Chance(1, 25) {
		// rows of several hundred SNPs each, arriving out of order (jitter): whatever a writer does with a row's slice
		// after it has parked the row must not matter
		w := r.Range(400, 700)
		ref = randSeq(r, w, symACGT, false)
		n := r.Range(30, 60)
		names = randNames(r, n, "")
		seqs = nil
		for i := 0; i < n; i++ {
			seqs = append(seqs, mutateSeq(r, ref, symACGT, r.PickInt([]int{3, 9, 9}), 10, false))
		}
		c.SetInt("jit", 1+r.Intn(1000000))
		c.Tag("wide-rows-jitter")
	}
	if !agg && r.Chance(1, 150) {
		// one unwrapped line per sequence, longer than bufio.Scanner's default 64 KiB token
		w := 66000 + r.Intn(9000)
		ref = randSeq(r, w, symACGT, false)
		names = []string{"long1", "long2"}
		seqs = []string{mutateSeq(r, ref, symACGT, 1, 3000, false), mutateSeq(r, ref, "ACGTN-R", 1, 2500, true)}
		c.Tag("line-longer-than-64KiB")
	}
	if forceWideGenome || r.Chance(1, 120) {
		// a genome of more than 100 000 columns with a handful of SNPs on either side of column 100 000: positions of five
		// and of six digits in one table (a key that orders positions as text, or is padded to a fixed number of digits,
		// puts 100000 before 20000)
		w := 100000 + r.Intn(20000)
		ref = randSeq(r, w, symACGT, false)
		names = []string{"wide1", "wide2", "wide3"}
		seqs = nil
		for i := 0; i < 3; i++ {
			b := []byte(ref)
			for k := 0; k < 4; k++ {
				p := r.Range(2, 9)*10000 + r.Intn(10000) // 20000 .. 99999: starts with a digit above 1
				if k%2 == 1 {
					p = 100000 + r.Intn(w-100000)
				}
				b[p-1] = r.Pick(strings.ReplaceAll(symACGT, string(ref[p-1]), ""))
			}
			seqs = append(seqs, string(b))
		}
		c.Tag("positions-of-five-and-six-digits")
	}
	if forceDenseWide || (!agg && atScale(r, 24)) || (agg && atScale(r, 50)) {
		// scale: a few thousand columns, rows that differ from the reference at every column or at every second one (rows
		// of tens of kilobytes, thousands of distinct SNPs in the aggregate) between ordinary short rows - whatever a
		// writer batches, pre-allocates or caches by size must not matter
		w := r.PickInt([]int{2500, 3000, 4200, 5000, 6100})
		ref = randSeq(r, w, symACGT, false)
		other := func(step, phase int) string {
			b := []byte(ref)
			for i := phase; i < w; i += step {
				b[i] = r.Pick(strings.ReplaceAll(symACGT, string(ref[i]), ""))
			}
			return string(b)
		}
		all := other(1, 0)
		seqs = []string{mutateSeq(r, ref, symACGT, 1, 5, false), other(1, 0), mutateSeq(r, ref, symACGT, 1, 3, false), all, other(2, r.Intn(2)), all, mutateSeq(r, ref, "ACGTN-", 1, 8, true)}
		if r.Bool() {
			seqs = append(seqs, all, other(3, 0))
		}
		names = randNames(r, len(seqs), "")
		c.Tag("dense-wide-rows")
	}
	hard := r.Bool()
	c.SetBool("hard", hard).Set("ref", ref).Set("names", strings.Join(names, ",")).Set("seqs", strings.Join(seqs, ","))
	c.SetBool("agg", agg)
	thrN, thrD := 0, 1
	if agg {
		thrN, thrD = genThreshold(r, len(seqs))
	}
	c.SetInt("thrn", thrN).SetInt("thrd", thrD)
	maybeCLI(r, c, 6)
	for _, s := range append([]string{ref}, seqs...) {
		if hasAmbig(s) {
			c.NonTrv = true
		}
	}
	return c
}

// execC03 runs the real snps.SNPs on the case (rendered under a random layout) and stores the result
func execC03(r *RNG, c *Case) {
	names := strings.Split(c.Get("names"), ",")
	seqs := strings.Split(c.Get("seqs"), ",")
	refTxt := renderFasta([]string{"ref desc"}, []string{c.Get("ref")}, randLayout(r))
	alnTxt := renderFasta(withDescriptions(r, names), seqs, randLayout(r))
	thr := decThr(atoi(c.Get("thrn")), atoi(c.Get("thrd")))
	if isCLI(c) {
		c.Set("go", goField(snpsCLI(c, refTxt, alnTxt, c.Get("agg") == "1")))
		return
	}
	res := safeRun(20*time.Second, func() (string, error) {
		var out bytes.Buffer
		err := snps.SNPs(strings.NewReader(refTxt), strings.NewReader(alnTxt), c.Get("hard") == "1", c.Get("agg") == "1", thr, &out)
		return out.String(), err
	})
	c.Set("go", goField(res))
}

// shrinkAlignment: drop a row, halve the width, or drop one column (fields ref/names/seqs)
func shrinkAlignment(c *Case) []*Case {
	names := strings.Split(c.Get("names"), ",")
	seqs := strings.Split(c.Get("seqs"), ",")
	ref := c.Get("ref")
	var out []*Case
	for i := range seqs {
		if len(seqs) <= 1 {
			break
		}
		n := cloneCase(c)
		n.Set("names", strings.Join(append(append([]string{}, names[:i]...), names[i+1:]...), ","))
		n.Set("seqs", strings.Join(append(append([]string{}, seqs[:i]...), seqs[i+1:]...), ","))
		out = append(out, n)
	}
	cut := func(lo, hi int) *Case {
		n := cloneCase(c)
		n.Set("ref", ref[:lo]+ref[hi:])
		ns := make([]string, len(seqs))
		for i, s := range seqs {
			if hi > len(s) {
				return nil
			}
			ns[i] = s[:lo] + s[hi:]
		}
		n.Set("seqs", strings.Join(ns, ","))
		return n
	}
	w := len(ref)
	if w > 1 {
		for _, span := range [][2]int{{w / 2, w}, {0, w / 2}} {
			if n := cut(span[0], span[1]); n != nil && span[1] > span[0] {
				out = append(out, n)
			}
		}
		for i := 0; i < w && w <= 40; i++ {
			if n := cut(i, i+1); n != nil {
				out = append(out, n)
			}
		}
	}
	return out
}

// runSnps runs snps.SNPs on a C03-shaped case, per sequence or aggregated
func runSnps(c *Case, agg bool) result {
	names := strings.Split(c.Get("names"), ",")
	seqs := strings.Split(c.Get("seqs"), ",")
	lr := NewRNG(idSeed(c.ID))
	refTxt := renderFasta([]string{"ref desc"}, []string{c.Get("ref")}, randLayout(lr))
	alnTxt := renderFasta(names, seqs, randLayout(lr))
	thr := decThr(atoi(c.Get("thrn")), max1(atoi(c.Get("thrd"))))
	if isCLI(c) {
		return snpsCLI(c, refTxt, alnTxt, agg)
	}
	return safeRun(20*time.Second, func() (string, error) {
		var out bytes.Buffer
		err := snps.SNPs(strings.NewReader(refTxt), strings.NewReader(alnTxt), c.Get("hard") == "1", agg, thr, &out)
		return out.String(), err
	})
}

// runSnpsSlowPipe: `gofasta snps --aggregate` with its standard output on a pipe that is read late and slowly
func runSnpsSlowPipe(c *Case) result {
	if opts.gobin == "" {
		return runSnps(c, true)
	}
	cliCounter++
	dir := filepath.Join(opts.tmp, fmt.Sprintf("cli-%d-%d", os.Getpid(), cliCounter))
	os.MkdirAll(dir, 0755)
	defer os.RemoveAll(dir)
	os.WriteFile(filepath.Join(dir, "r.fa"), []byte(renderFasta([]string{"ref"}, []string{c.Get("ref")}, layout{})), 0644)
	os.WriteFile(filepath.Join(dir, "a.fa"), []byte(renderFasta(strings.Split(c.Get("names"), ","), strings.Split(c.Get("seqs"), ","), layout{})), 0644)
	args := []string{"snps", "-r", filepath.Join(dir, "r.fa"), "-q", filepath.Join(dir, "a.fa"), "--aggregate"}
	if c.Get("hard") == "1" {
		args = append(args, "--hard-gaps")
	}
	o, code, to := runCLISlow(60*time.Second, 150*time.Millisecond, args...)
	if to {
		return result{status: "timeout"}
	}
	if code != 0 {
		return result{status: "err:exit " + fmt.Sprint(code)}
	}
	return result{out: o, status: "ok"}
}

// snpsCLI: `gofasta snps -r r.fa -q a.fa [--hard-gaps] [--aggregate --threshold x]`
func snpsCLI(c *Case, refTxt, alnTxt string, agg bool) result {
	args := []string{"snps", "-r", "{dir}/r.fa", "-q", "{dir}/a.fa"}
	if c.Get("hard") == "1" {
		args = append(args, "--hard-gaps")
	}
	if agg {
		args = append(args, "--aggregate", "--threshold", decStr(atoi(c.Get("thrn")), max1(atoi(c.Get("thrd")))))
	}
	return viaCLI(map[string]string{"r.fa": refTxt, "a.fa": alnTxt}, "", args, nil)
}
