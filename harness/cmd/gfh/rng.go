package main

// splitmix64: every random choice of a run derives from one state seeded by VERIF_SEED.
type RNG struct{ s uint64 }

func NewRNG(seed uint64) *RNG { return &RNG{s: seed*0x9e3779b97f4a7c15 + 0x1234567} }

func (r *RNG) U64() uint64 {
	r.s += 0x9e3779b97f4a7c15
	z := r.s
	z = (z ^ (z >> 30)) * 0xbf58476d1ce4e5b9
	z = (z ^ (z >> 27)) * 0x94d049bb133111eb
	return z ^ (z >> 31)
}

// Intn returns a value in [0,n)
func (r *RNG) Intn(n int) int {
	if n <= 0 {
		return 0
	}
	return int(r.U64() % uint64(n))
}

// Range returns a value in [lo,hi]
func (r *RNG) Range(lo, hi int) int {
	if hi <= lo {
		return lo
	}
	return lo + r.Intn(hi-lo+1)
}

func (r *RNG) Bool() bool { return r.U64()&1 == 1 }

// Chance returns true with probability num/den
func (r *RNG) Chance(num, den int) bool { return r.Intn(den) < num }

func (r *RNG) Pick(s string) byte { return s[r.Intn(len(s))] }

func (r *RNG) PickStr(ss []string) string { return ss[r.Intn(len(ss))] }

// Fork derives an independent stream (so case i does not depend on how many draws case i-1 made)
func (r *RNG) Fork(i uint64) *RNG { return NewRNG(r.s ^ (i+1)*0xd1342543de82ef95) }

func (r *RNG) PickInt(xs []int) int { return xs[r.Intn(len(xs))] }
