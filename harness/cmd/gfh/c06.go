package main

import (
	"bytes"
	"fmt"
	"math"
	"strconv"
	"strings"
	"time"

	"github.com/virus-evolution/gofasta/pkg/closest"
)

func init() {
	gens["C06"] = func(r *RNG, id string) *Case { return c06Gen(r, id, "C06") }
	execs["C06"] = execC06
	gens["C07"] = func(r *RNG, id string) *Case { return c06Gen(r, id, "C07") }
	execs["C07"] = execC06
	shrinkers["C06"] = shrinkClosest
	shrinkers["C07"] = shrinkClosest
}

// iupacContaining returns an ambiguity code whose base set contains base b
func iupacContaining(r *RNG, b byte) byte {
	m := map[byte]string{'A': "RWMDHVN", 'C': "YSMBHVN", 'G': "RSKBDVN", 'T': "YWKBDHN"}
	if s, ok := m[b]; ok {
		return r.Pick(s)
	}
	return 'N'
}

func runClosest(c *Case, mode string, k int, maxd float64) result {
	qn, qs := strings.Split(c.Get("qnames"), ","), strings.Split(c.Get("qseqs"), ",")
	tn, ts := strings.Split(c.Get("tnames"), ","), strings.Split(c.Get("tseqs"), ",")
	lr := NewRNG(idSeed(c.ID))
	qTxt := renderFasta(qn, qs, randLayout(lr))
	tTxt := renderFasta(tn, ts, randLayout(lr))
	threads := atoi(c.Get("threads"))
	if isCLI(c) && (mode == "plain" || k > 0 || maxd != -1) {
		// the measure is documented as case-insensitive ("raw", "snp" or "tn93")
		meas := c.Get("measure")
		switch idSeed(c.ID) % 3 {
		case 1:
			meas = strings.ToUpper(meas)
		case 2:
			meas = strings.ToUpper(meas[:1]) + meas[1:]
		}
		args := []string{"closest", "--query", "{dir}/q.fa", "--target", "{dir}/t.fa", "-m", meas, "-t", fmt.Sprint(threads)}
		if mode != "plain" {
			if k > 0 {
				args = append(args, "-n", fmt.Sprint(k))
			}
			if maxd != -1 {
				args = append(args, "-d", strconv.FormatFloat(maxd, 'f', -1, 64))
			}
			if mode == "table" {
				args = append(args, "--table")
			}
		}
		return viaCLI(map[string]string{"q.fa": qTxt, "t.fa": tTxt}, "", args, nil)
	}
	return safeRun(30*time.Second, func() (string, error) {
		var out bytes.Buffer
		var err error
		if mode == "plain" {
			err = closest.Closest(strings.NewReader(qTxt), strings.NewReader(tTxt), c.Get("measure"), &out, threads)
		} else {
			err = closest.ClosestN(k, maxd, strings.NewReader(qTxt), strings.NewReader(tTxt), c.Get("measure"), &out, mode == "table", threads)
		}
		return out.String(), err
	})
}

func c06Gen(r *RNG, id string, prop string) *Case {
	c := NewCase(prop, id)
	w := r.Range(4, 60)
	nq := r.Range(1, 6)
	nt := r.Range(1, 40)
	if r.Chance(1, 4) {
		nt = r.Range(1, 6)
	}
	if prop == "C06" && r.Chance(1, 25) {
		// many more targets than any batch or channel holds, many queries (a worker per query), stragglers
		w, nq, nt = r.Range(10, 24), r.Range(10, 30), r.Range(150, 300)
		c.SetInt("jit", 1+r.Intn(1000000))
		c.Tag("many-targets-jitter")
	}
	wide := prop == "C06" && c.Get("jit") == "" && r.Chance(1, 50)
	if wide {
		// an alignment wider than a genome: raw distances d/L and d/(L-1) differ by less than the nine printed decimals
		// (1/50000 - 1/49999 ~ 4e-10), so "nearest" must be decided on the distances, not on what is printed
		w, nq, nt = r.Range(50000, 70000), 1, r.Range(2, 4)
		c.Tag("wide-near-tie")
	}
	base := randSeq(r, w, symACGT, false)
	skewed := prop == "C07" && c.Get("jit") == "" && atScale(r, 60)
	if skewed {
		// scale: more than 65 535 columns, more than 65 535 of them one base in every target (a count kept in 16 bits
		// wraps), the other three bases present: tn93's frequencies come from these counts
		w, nq, nt = r.Range(68000, 72000), r.Range(1, 2), r.Range(2, 3)
		major := r.Pick(symACGT)
		b := make([]byte, w)
		for j := range b {
			b[j] = major
			if r.Chance(1, 60) {
				b[j] = r.Pick(symACGT)
			}
		}
		base = string(b)
		c.Tag("one-base-more-than-65535-times")
	}
	var qs, ts []string
	if wide {
		// the query is unresolved over a tract: a target resolved there is more complete without being compared there.
		// Targets 0 and 1 are the pair that matters: the same number of differences, target 1 resolved over the tract
		// (more complete) but with one more N elsewhere (one compared column fewer: strictly further, by ~3e-10)
		qb := []byte(base)
		t0 := r.Intn(w - 300)
		tl := r.Range(20, 200)
		for j := t0; j < t0+tl; j++ {
			qb[j] = 'N'
		}
		qs = append(qs, string(qb))
		free := func() int { // a column outside the tract
			for {
				if j := r.Intn(w); j < t0 || j >= t0+tl {
					return j
				}
			}
		}
		d0, m0 := r.PickInt([]int{1, 1, 2}), r.Intn(3)
		for i := 0; i < nt; i++ {
			b := []byte(base)
			tractN, d, m := r.Bool(), r.PickInt([]int{1, 1, 1, 2}), r.Intn(4)
			if i == 0 {
				tractN, d, m = true, d0, m0
			} else if i == 1 {
				tractN, d, m = false, d0, m0+1
			}
			if tractN {
				copy(b[t0:t0+tl], qb[t0:t0+tl])
			}
			used := map[int]bool{}
			for ; d > 0; d-- {
				j := free()
				for used[j] {
					j = free()
				}
				used[j] = true
				b[j] = r.Pick(strings.ReplaceAll(symACGT, string(base[j]), ""))
			}
			for ; m > 0; m-- {
				j := free()
				for used[j] {
					j = free()
				}
				used[j] = true
				b[j] = 'N'
			}
			ts = append(ts, string(b))
		}
		for i := len(ts) - 1; i > 0; i-- { // file order at random
			j := r.Intn(i + 1)
			ts[i], ts[j] = ts[j], ts[i]
		}
		nq, nt = 0, 0 // skip the ordinary loops
	}
	for i := 0; i < nq; i++ {
		switch r.Intn(4) {
		case 0:
			qs = append(qs, mutateSeq(r, base, sym17, 1, 8, true))
		default:
			qs = append(qs, mutateSeq(r, base, symACGT, 1, 10, false))
		}
	}
	for i := 0; i < nt; i++ {
		k := r.Intn(10)
		switch {
		case k < 4 || len(ts) == 0:
			if prop == "C07" && r.Chance(1, 3) {
				ts = append(ts, randSeq(r, w, sym17, true)) // every symbol pair
			} else {
				ts = append(ts, mutateSeq(r, base, symACGT, 1, 8, false))
			}
		case k < 6: // exact duplicate: tie on everything but file order
			ts = append(ts, ts[r.Intn(len(ts))])
			c.Tag("dup")
		case k < 8: // same distance to query 0, lower completeness
			src := []byte(ts[r.Intn(len(ts))])
			for j := range src {
				if strings.EqualFold(string(src[j]), string(qs[0][j])) && r.Chance(1, 4) {
					src[j] = iupacContaining(r, src[j])
				}
			}
			ts = append(ts, string(src))
			c.Tag("equidist")
		case k == 8: // undefined raw / tn93 distance: no jointly resolved site
			ts = append(ts, strings.Repeat(string(r.Pick("N-?")), w))
			c.Tag("undefined")
		default:
			ts = append(ts, mutateSeq(r, base, symAmb, 1, 2, true))
		}
	}
	if wide {
		nq, nt = len(qs), len(ts)
	} else if r.Chance(1, 6) { // the order-sensitive case: an all-N target first
		ts[0] = strings.Repeat("N", w)
		c.Tag("undefined")
		c.Tag("undefined-first")
	}
	measure := r.PickStr([]string{"raw", "snp", "tn93"})
	if wide {
		measure = r.PickStr([]string{"raw", "raw", "snp"})
	}
	if skewed {
		measure = "tn93"
		// few differences: eq. 7 stays defined although three of the four frequencies are small
		few := func() string {
			b := []byte(base)
			for k := r.Range(3, 12); k > 0; k-- {
				j := r.Intn(w)
				b[j] = r.Pick(strings.ReplaceAll(symACGT, string(b[j]), ""))
			}
			return string(b)
		}
		for i := range qs {
			qs[i] = few()
		}
		for i := range ts {
			ts[i] = few()
		}
	}
	mode := r.PickStr([]string{"plain", "n", "n", "table"})
	c.Set("measure", measure)
	qn := randNames(r, nq, "Q")
	if prop == "C06" && nq > 1 && r.Chance(1, 6) { // the same sample sequenced twice: two query records of one name, different sequences
		qn[r.Intn(nq-1)+1] = qn[0]
		c.Tag("duplicate-query-id")
	}
	c.Set("qnames", strings.Join(qn, ",")).Set("qseqs", strings.Join(qs, ","))
	tnm := randNames(r, nt, "T")
	if r.Chance(1, 6) { // a target filed under the name of a query (an older version of the same sample): a name is not an identity
		tnm[r.Intn(nt)] = qn[0]
		c.Tag("target-named-like-query")
	}
	c.Set("tnames", strings.Join(tnm, ",")).Set("tseqs", strings.Join(ts, ","))
	c.SetInt("threads", r.PickInt([]int{0, 1, 2, 4, 16}))
	k, dn, dd := 0, 0, 0
	if prop == "C07" {
		mode, k = "table", nt
	} else if mode != "plain" {
		switch r.Intn(6) {
		case 0:
			k = 1
		case 1:
			k = nt
		case 2:
			k = nt + 3
		case 3:
			k = nt - 1
		default:
			k = r.Range(1, nt)
		}
		if k < 1 {
			k = 1
		}
		if r.Chance(2, 5) {
			dn, dd = pickMaxDist(r, c, measure, nt)
			if dd != 0 && r.Chance(1, 3) {
				k = 0 // -d alone
			}
		}
	}
	c.Set("mode", mode).SetInt("k", k).SetInt("dn", dn).SetInt("dd", dd)
	if prop == "C07" && measure != "tn93" && len(qn) > 1 && r.Chance(1, 6) {
		// two query records of one name (the ID is only the first token of the header): every row still belongs to the
		// record at its place in the file (rows are compared as sorted whole lines, so not for the rounded tn93 values)
		qn[r.Intn(len(qn)-1)+1] = qn[0]
		c.Set("qnames", strings.Join(qn, ","))
		c.Tag("duplicate-query-id")
	}
	if measure == "tn93" && tn93NearTie(c, nt) {
		// two different targets whose tn93 distances agree to nine decimals: their order depends on the last
		// bits of math.Log, which no model can decide - use the exact raw measure for this case instead
		c.Set("measure", "raw")
		c.Tag("tn93-near-tie-avoided")
		if dd != 0 {
			c.SetInt("dn", 0).SetInt("dd", 0)
			if k == 0 {
				c.SetInt("k", nt)
			}
		}
	}
	c.NonTrv = len(c.Tags) > 0
	maybeCLI(r, c, 6)
	return c
}

// tn93NearTie: some query sees two targets with different sequences at the same printed tn93 distance
func tn93NearTie(c *Case, nt int) bool {
	res := runClosest(c, "table", nt, -1.0)
	if res.status != "ok" {
		return false
	}
	seqOf := map[string]string{}
	tn, ts := strings.Split(c.Get("tnames"), ","), strings.Split(c.Get("tseqs"), ",")
	for i := range tn {
		seqOf[tn[i]] = strings.ToUpper(ts[i])
	}
	seen := map[string]string{} // query|distance -> sequence
	for _, l := range strings.Split(res.out, "\n")[1:] {
		f := strings.Split(l, ",")
		if len(f) != 3 || f[2] == "NaN" || f[2] == "+Inf" || f[2] == "0.000000000" {
			continue // undefined, infinite and exactly-zero distances are decided identically by any implementation
		}
		key := f[0] + "|" + f[2]
		if prev, ok := seen[key]; ok && prev != seqOf[f[1]] {
			return true
		}
		seen[key] = seqOf[f[1]]
	}
	return false
}

// pickMaxDist chooses a -d value: for raw/snp preferably exactly an occurring distance; for tn93 at
// least 1e-6 away from every occurring distance (the last ulp of log would decide otherwise).
func pickMaxDist(r *RNG, c *Case, measure string, nt int) (int, int) {
	res := runClosest(c, "table", nt, -1.0)
	var occ []float64
	if res.status == "ok" {
		for _, l := range strings.Split(res.out, "\n")[1:] {
			f := strings.Split(l, ",")
			if len(f) == 3 {
				if v, err := strconv.ParseFloat(f[2], 64); err == nil && !math.IsNaN(v) && !math.IsInf(v, 0) {
					occ = append(occ, v)
				}
			}
		}
	}
	switch measure {
	case "snp":
		if len(occ) > 0 && r.Chance(2, 3) {
			return int(occ[r.Intn(len(occ))]), 1
		}
		return r.Range(0, 8), 1
	case "raw":
		// an occurring n/d is hit exactly only when it has <= 3 decimals; otherwise the nearest 3-decimal value
		if len(occ) > 0 && r.Chance(2, 3) {
			v := occ[r.Intn(len(occ))]
			return int(math.Round(v * 1000)), 1000
		}
		return r.PickInt([]int{0, 50, 100, 125, 200, 250, 500, 1000}), 1000
	default:
		for try := 0; try < 20; try++ {
			dn := r.Range(0, 3000)
			d := float64(dn) / 1000
			ok := true
			for _, v := range occ {
				if math.Abs(v-d) < 1e-6 {
					ok = false
				}
			}
			if ok {
				return dn, 1000
			}
		}
		return 0, 0
	}
}

func execC06(r *RNG, c *Case) {
	maxd := -1.0
	if atoi(c.Get("dd")) != 0 {
		maxd = float64(atoi(c.Get("dn"))) / float64(atoi(c.Get("dd")))
	}
	res := runClosest(c, c.Get("mode"), atoi(c.Get("k")), maxd)
	c.Set("go", goField(res))
}

func dropIdx(ss []string, i int) []string {
	return append(append([]string{}, ss[:i]...), ss[i+1:]...)
}

// shrinkClosest: drop a query, drop a target, drop a column
func shrinkClosest(c *Case) []*Case {
	qn, qs := strings.Split(c.Get("qnames"), ","), strings.Split(c.Get("qseqs"), ",")
	tn, ts := strings.Split(c.Get("tnames"), ","), strings.Split(c.Get("tseqs"), ",")
	var out []*Case
	for i := range qs {
		if len(qs) > 1 {
			n := cloneCase(c)
			n.Set("qnames", strings.Join(dropIdx(qn, i), ",")).Set("qseqs", strings.Join(dropIdx(qs, i), ","))
			out = append(out, n)
		}
	}
	for i := range ts {
		if len(ts) > 1 {
			n := cloneCase(c)
			n.Set("tnames", strings.Join(dropIdx(tn, i), ",")).Set("tseqs", strings.Join(dropIdx(ts, i), ","))
			if c.Prop == "C07" {
				n.SetInt("k", len(ts)-1)
			}
			out = append(out, n)
		}
	}
	w := len(qs[0])
	for i := 0; i < w && w > 1; i++ {
		n := cloneCase(c)
		cut := func(ss []string) string {
			o := make([]string, len(ss))
			for j, s := range ss {
				o[j] = s[:i] + s[i+1:]
			}
			return strings.Join(o, ",")
		}
		n.Set("qseqs", cut(qs)).Set("tseqs", cut(ts))
		out = append(out, n)
	}
	return out
}

var _ = fmt.Sprint
