package main

import (
	"bufio"
	"fmt"
	"os"
	"sort"
	"strings"
)

// A Case is one line of the protocol: prop, id, ordered key=value fields. Values never contain
// tab or newline (they are escaped); the Go result is carried in the field "go".
type Case struct {
	Prop   string
	ID     string
	Keys   []string
	Vals   map[string]string
	NonTrv bool // non-trivial by the property's stated rule
	Tags   []string
}

func NewCase(prop, id string) *Case {
	return &Case{Prop: prop, ID: id, Vals: map[string]string{}}
}

func (c *Case) Set(k, v string) *Case {
	if _, ok := c.Vals[k]; !ok {
		c.Keys = append(c.Keys, k)
	}
	c.Vals[k] = v
	return c
}
func (c *Case) SetInt(k string, v int) *Case { return c.Set(k, fmt.Sprint(v)) }
func (c *Case) SetBool(k string, v bool) *Case {
	if v {
		return c.Set(k, "1")
	}
	return c.Set(k, "0")
}
func (c *Case) Get(k string) string { return c.Vals[k] }
func (c *Case) Tag(t string)        { c.Tags = append(c.Tags, t) }

func esc(s string) string {
	s = strings.ReplaceAll(s, "\\", "\\\\")
	s = strings.ReplaceAll(s, "\n", "\\n")
	s = strings.ReplaceAll(s, "\t", "\\t")
	s = strings.ReplaceAll(s, "\r", "\\r")
	return s
}

func unesc(s string) string {
	var b strings.Builder
	for i := 0; i < len(s); i++ {
		if s[i] == '\\' && i+1 < len(s) {
			i++
			switch s[i] {
			case 'n':
				b.WriteByte('\n')
			case 't':
				b.WriteByte('\t')
			case 'r':
				b.WriteByte('\r')
			default:
				b.WriteByte(s[i])
			}
		} else {
			b.WriteByte(s[i])
		}
	}
	return b.String()
}

func (c *Case) Line() string {
	parts := []string{c.Prop, c.ID}
	for _, k := range c.Keys {
		parts = append(parts, k+"="+esc(c.Vals[k]))
	}
	nt := "0"
	if c.NonTrv {
		nt = "1"
	}
	parts = append(parts, "nt="+nt)
	if len(c.Tags) > 0 {
		t := append([]string{}, c.Tags...)
		sort.Strings(t)
		parts = append(parts, "tags="+strings.Join(t, ","))
	}
	return strings.Join(parts, "\t")
}

func ParseLine(line string) *Case {
	f := strings.Split(strings.TrimRight(line, "\n"), "\t")
	if len(f) < 2 {
		return nil
	}
	c := NewCase(f[0], f[1])
	for _, kv := range f[2:] {
		i := strings.IndexByte(kv, '=')
		if i < 0 {
			continue
		}
		k, v := kv[:i], unesc(kv[i+1:])
		switch k {
		case "nt":
			c.NonTrv = v == "1"
		case "tags":
			if v != "" {
				c.Tags = strings.Split(v, ",")
			}
		default:
			c.Set(k, v)
		}
	}
	return c
}

type Sink struct {
	w *bufio.Writer
	f *os.File
	n int
}

func NewSink(path string) *Sink {
	flags := os.O_CREATE | os.O_WRONLY | os.O_TRUNC
	if opts.from > 0 {
		flags = os.O_CREATE | os.O_WRONLY | os.O_APPEND
	}
	f, err := os.OpenFile(path, flags, 0644)
	if err != nil {
		fmt.Fprintln(os.Stderr, "cannot create", path, err)
		os.Exit(3)
	}
	return &Sink{w: bufio.NewWriterSize(f, 1<<20), f: f}
}
func (s *Sink) Emit(c *Case) {
	if lastFailure != "" { // what the implementation said when a run of this case failed (for the replay file; not compared)
		c.Set("errnote", strings.ToValidUTF8(strings.NewReplacer("\t", " ", "\n", " ").Replace(lastFailure), "?"))
		lastFailure = ""
	}
	s.w.WriteString(c.Line())
	s.w.WriteByte('\n')
	s.n++
}
func (s *Sink) Close() { s.w.Flush(); s.f.Close() }
