package main

import (
	"bufio"
	"flag"
	"fmt"
	"hash/fnv"
	"os"
	"os/exec"
	"strconv"
	"strings"
)

type runOpts struct {
	seed   uint64
	n      int
	tier   string
	out    string
	corpus string
	gobin  string // path to the gofasta CLI binary built from /repo
	tmp    string
	from   int
}

var opts runOpts

// a stream generates cases (without the Go result) ...
var gens = map[string]func(r *RNG, id string) *Case{}

// ... an exec runs the real implementation on a case and stores the result in field "go" ...
var execs = map[string]func(r *RNG, c *Case){}

// ... custom streams drive everything themselves ...
var streams = map[string]func(o *runOpts, s *Sink){}

// ... and a shrinker proposes smaller variants of a failing case.
var shrinkers = map[string]func(c *Case) []*Case{}

func idSeed(id string) uint64 {
	h := fnv.New64a()
	h.Write([]byte(id))
	return h.Sum64()
}

func readCases(path string) []*Case {
	f, err := os.Open(path)
	if err != nil {
		return nil
	}
	defer f.Close()
	var out []*Case
	sc := bufio.NewScanner(f)
	sc.Buffer(make([]byte, 0, 1<<20), 1<<28)
	for sc.Scan() {
		if strings.HasPrefix(sc.Text(), "#") || strings.TrimSpace(sc.Text()) == "" {
			continue
		}
		if c := ParseLine(sc.Text()); c != nil {
			out = append(out, c)
		}
	}
	return out
}

func commonFlags(fs *flag.FlagSet) {
	fs.Uint64Var(&opts.seed, "seed", 1, "")
	fs.IntVar(&opts.n, "n", 100, "")
	fs.StringVar(&opts.tier, "tier", "quick", "")
	fs.StringVar(&opts.out, "out", "cases.tsv", "")
	fs.StringVar(&opts.corpus, "corpus", "", "")
	fs.StringVar(&opts.gobin, "gobin", "", "")
	fs.StringVar(&opts.tmp, "tmp", os.TempDir(), "")
	fs.IntVar(&opts.from, "from", 0, "")
}

func main() {
	if len(os.Args) < 2 {
		fmt.Fprintln(os.Stderr, "usage: gfh dump|facts|run <stream> ...|replay <prop> in out|shrink <prop> in out gfdrv")
		os.Exit(2)
	}
	switch os.Args[1] {
	case "dump":
		part := "tables"
		if len(os.Args) > 2 {
			part = os.Args[2]
		}
		fmt.Print(dumpPart(part))
	case "facts":
		root := "/repo"
		if len(os.Args) > 2 {
			root = os.Args[2]
		}
		fmt.Print(dumpFacts(root))
	case "cols": // gfh cols <package> [root]
		root := "/repo"
		if len(os.Args) > 3 {
			root = os.Args[3]
		}
		fmt.Print(dumpCols(root, os.Args[2]))
	case "run":
		fs := flag.NewFlagSet("run", flag.ExitOnError)
		commonFlags(fs)
		stream := os.Args[2]
		fs.Parse(os.Args[3:])
		s := NewSink(opts.out)
		if f, ok := streams[stream]; ok {
			f(&opts, s)
		} else if g, ok := gens[stream]; ok {
			ex := execs[stream]
			// corpus first: hand-written edge cases and minimised past failures
			if opts.corpus != "" {
				for _, c := range readCases(opts.corpus + "/" + stream + ".tsv") {
					c.Tag("corpus")
					runExec(ex, NewRNG(idSeed(c.ID)), c)
					s.Emit(c)
				}
			}
			root := NewRNG(opts.seed)
			for i := opts.from; i < opts.n; i++ {
				id := fmt.Sprintf("%s-%d-%d", stream, opts.seed, i)
				c := g(root.Fork(uint64(i)), id)
				// a panic in a goroutine of the code under test kills this process: leave the case behind
				c.SetInt("index", i)
				os.WriteFile(opts.out+".pending", []byte(c.Line()+"\n"), 0644)
				runExec(ex, NewRNG(idSeed(id)), c)
				s.Emit(c)
				s.w.Flush()
			}
			os.Remove(opts.out + ".pending")
		} else {
			fmt.Fprintln(os.Stderr, "unknown stream", stream)
			os.Exit(2)
		}
		s.Close()
		fmt.Fprintln(os.Stderr, "cases:", s.n)
	case "replay":
		fs := flag.NewFlagSet("replay", flag.ExitOnError)
		commonFlags(fs)
		in, out := os.Args[3], os.Args[4]
		fs.Parse(os.Args[5:])
		s := NewSink(out)
		for _, c := range readCases(in) {
			ex, ok := execs[c.Prop]
			if !ok {
				ex, ok = execs[os.Args[2]]
			}
			if !ok {
				fmt.Fprintln(os.Stderr, "no exec for", c.Prop)
				os.Exit(2)
			}
			runExec(ex, NewRNG(idSeed(c.ID)), c)
			s.Emit(c)
		}
		s.Close()
	case "shrink":
		fs := flag.NewFlagSet("shrink", flag.ExitOnError)
		commonFlags(fs)
		in, out, drv := os.Args[3], os.Args[4], os.Args[5]
		fs.Parse(os.Args[6:])
		cs := readCases(in)
		if len(cs) == 0 {
			os.Exit(1)
		}
		best := shrinkLoop(cs[0], drv)
		s := NewSink(out)
		s.Emit(best)
		s.Close()
	default:
		fmt.Fprintln(os.Stderr, "unknown command", os.Args[1])
		os.Exit(2)
	}
}

// stillFails re-runs Go on the candidate and asks the Lean driver for its verdict
func stillFails(c *Case, drv string) bool {
	ex, ok := execs[c.Prop]
	if !ok {
		return false
	}
	runExec(ex, NewRNG(idSeed(c.ID)), c)
	cmd := exec.Command(drv)
	cmd.Stdin = strings.NewReader(c.Line() + "\n")
	out, err := cmd.Output()
	if err != nil {
		return false
	}
	return strings.Contains(string(out), "spec-fail")
}

func shrinkLoop(c *Case, drv string) *Case {
	sh, ok := shrinkers[c.Prop]
	if !ok {
		return c
	}
	best := c
	for round := 0; round < 200; round++ {
		progressed := false
		for _, cand := range sh(best) {
			if stillFails(cand, drv) {
				best = cand
				progressed = true
				break
			}
		}
		if !progressed {
			break
		}
	}
	return best
}

func atoi(s string) int { v, _ := strconv.Atoi(s); return v }

func cloneCase(c *Case) *Case {
	n := NewCase(c.Prop, c.ID)
	for _, k := range c.Keys {
		n.Set(k, c.Vals[k])
	}
	n.NonTrv = c.NonTrv
	n.Tags = append([]string{}, c.Tags...)
	return n
}
