package main

import (
	"strings"
	"time"

	"github.com/virus-evolution/gofasta/pkg/alphabet"
	"github.com/virus-evolution/gofasta/pkg/encoding"
	"github.com/virus-evolution/gofasta/pkg/fastaio"
)

func init() {
	gens["C17"] = c17Gen
	execs["C17"] = execC17
}

const iupac15 = "ACGTRYSWKMBDHVN"

func c17Gen(r *RNG, id string) *Case {
	c := NewCase("C17", id)
	kinds := []string{"translate", "translate", "translate", "comp", "revcomp", "enccomp", "encrevcomp", "encdec"}
	k := r.PickStr(kinds)
	c.Set("kind", k)
	switch k {
	case "translate":
		n := 3 * r.Range(0, 40)
		if r.Chance(1, 10) {
			n += r.Range(1, 2)
		}
		var seq string
		switch r.Intn(4) {
		case 0:
			seq = randSeq(r, n, symACGT, false)
		case 1: // mostly unambiguous with a sprinkling of codes: most ambiguity codons stay translatable
			seq = mutateSeq(r, randSeq(r, n, symACGT, false), iupac15, 1, 8, false)
		case 2:
			seq = randSeq(r, n, iupac15, false)
		default:
			seq = mutateSeq(r, randSeq(r, n, symACGT, false), "-?nacgtRYN", 1, 10, false)
		}
		c.Set("seq", seq).SetBool("strict", r.Bool())
		c.NonTrv = hasAmbig(seq)
	case "encdec":
		// encode / decode round trip of a record under either gap mode (hard gaps: '-' has its own code)
		seq := randSeq(r, r.Range(0, 60), sym17+"--", true)
		c.Set("seq", seq).SetBool("hard", r.Bool())
		c.NonTrv = true
	default:
		seq := randSeq(r, r.Range(0, 60), sym17, true)
		c.Set("seq", seq)
		c.NonTrv = hasAmbig(seq)
	}
	if k != "translate" && atScale(r, 50) {
		// scale: a record of thousands of symbols, one in four beyond 64 Ki (one more than a power of two, and well past
		// it): whatever is done in blocks, through a fixed buffer or with a narrow index must not show
		n := r.PickInt([]int{1025, 4097, 8193, 16385, 32769, r.Range(1000, 40000)})
		if r.Chance(1, 4) {
			n = r.PickInt([]int{65537, 70000, 131073, 200001})
		}
		alpha := sym17
		if k == "encdec" {
			alpha = sym17 + "--"
		}
		seq := randSeq(r, n, alpha, true)
		c.Set("seq", seq)
		c.NonTrv = true
		c.Tag("long-record")
	}
	if k == "translate" && atScale(r, 60) {
		n := 3 * r.PickInt([]int{342, 1366, 4097, r.Range(500, 3000)})
		c.Set("seq", mutateSeq(r, randSeq(r, n, symACGT, false), iupac15, 1, 50, false))
		c.NonTrv = true
		c.Tag("long-record")
	}
	return c
}

func execC17(r *RNG, c *Case) {
	seq := c.Get("seq")
	res := safeRun(10*time.Second, func() (string, error) {
		switch c.Get("kind") {
		case "translate":
			return alphabet.Translate(seq, c.Get("strict") == "1")
		case "comp":
			a := alphabet.Complement(seq)
			snap := strings.Clone(a)
			b := fastaio.FastaRecord{Seq: seq}.Complement().Seq
			if a != b {
				return a + "|" + b, nil
			}
			// a result is a value: later calls on other sequences (of the same and of other lengths) must not change it
			rev := []byte(seq)
			for i, j := 0, len(rev)-1; i < j; i, j = i+1, j-1 {
				rev[i], rev[j] = rev[j], rev[i]
			}
			later := []string{alphabet.Complement(string(rev)), alphabet.Complement(strings.Repeat("N", len(seq))), alphabet.Complement(seq + "ACGT"), alphabet.Complement("A")}
			if a != snap {
				return snap + "|changed-by-a-later-call|" + a, nil
			}
			if len(seq) > 0 && later[3] != "T" {
				return snap + "|later-result|" + later[3], nil
			}
			return a, nil
		case "revcomp":
			a := alphabet.ReverseComplement(seq)
			b := fastaio.FastaRecord{Seq: seq}.ReverseComplement().Seq
			if a != b {
				return a + "|" + b, nil
			}
			return a, nil
		case "encdec":
			ea := encoding.MakeEncodingArray()
			if c.Get("hard") == "1" {
				ea = encoding.MakeEncodingArrayHardGaps()
			}
			e := make([]byte, len(seq))
			for i := 0; i < len(seq); i++ {
				e[i] = ea[seq[i]]
			}
			return fastaio.EncodedFastaRecord{Seq: e}.Decode().Seq, nil
		case "enccomp", "encrevcomp":
			// the result is kept while further records are complemented (a batch of records, a consumer that lags): it
			// must still be what it was
			rec := fastaio.FastaRecord{Seq: seq}.Encode()
			var res fastaio.EncodedFastaRecord
			if c.Get("kind") == "enccomp" {
				res = rec.Complement()
			} else {
				res = rec.ReverseComplement()
			}
			snap := append([]byte{}, res.Seq...)
			other := fastaio.FastaRecord{Seq: strings.Repeat("N", len(seq))}.Encode()
			o1 := other.Complement()
			o2 := fastaio.FastaRecord{Seq: seq + "ACGT"}.Encode().ReverseComplement()
			_, _ = o1, o2
			if string(res.Seq) != string(snap) {
				return string(fastaio.EncodedFastaRecord{Seq: snap}.Decode().Seq) + "|changed-by-a-later-call|" + res.Decode().Seq, nil
			}
			return res.Decode().Seq, nil
		}
		return "", nil
	})
	c.Set("go", goField(res))
}
