package main

import (
	"bytes"
	"fmt"
	"strings"
	"time"

	"github.com/virus-evolution/gofasta/pkg/updown"
)

func init() {
	gens["C08"] = c08Gen
	execs["C08"] = execC08
	gens["C09"] = func(r *RNG, id string) *Case {
		c := c08GenOpt(r, id, true)
		for c.Get("sizetotal") == "0" && c.Get("sizeup") == "0" && c.Get("sizedown") == "0" && c.Get("sizeside") == "0" && c.Get("sizesame") == "0" &&
			c.Get("distall") == "0" && c.Get("distup") == "0" && c.Get("distdown") == "0" && c.Get("distside") == "0" && c.Get("distpush") == "0" {
			c.SetInt("sizetotal", r.Range(1, 20))
		}
		// the reference itself may carry gaps or N (`updown list` warns, but takes it): both routes must read it alike
		if r.Chance(1, 5) {
			ref := []byte(c.Get("ref"))
			for k := 0; k < r.Range(1, 3); k++ {
				ref[r.Intn(len(ref))] = r.Pick("--NNRYKMSWBDHV") // gaps, N, and partial ambiguity codes (some bases excluded)
			}
			c.Set("ref", string(ref))
			c.Tag("reference-with-gaps")
		}
		if atScale(r, 25) {
			// a target whose `updown list` row is longer than 64 KiB (the default bufio.Scanner token), or than a few KiB
			// (any block a writer might batch rows in): every site differs; half of the time the second query is such a
			// row as well, behind a short one
			w := r.PickInt([]int{r.Range(900, 1500), r.Range(2000, 3000), r.Range(11000, 14000)})
			ref := randSeq(r, w, symACGT, false)
			var qs, ts []string
			for i := 0; i < 2; i++ {
				qs = append(qs, mutateSeq(r, ref, symACGT, 1, 400, false))
			}
			if r.Bool() {
				b := []byte(ref)
				for j := range b {
					b[j] = r.Pick(strings.ReplaceAll(symACGT, string(b[j]), ""))
				}
				qs[1] = string(b)
				c.Tag("long-query-row-behind-a-short-one")
			}
			nt := r.Range(3, 6)
			for i := 0; i < nt; i++ {
				if i == nt/2 {
					b := []byte(ref)
					for j := range b {
						b[j] = r.Pick(strings.ReplaceAll(symACGT, string(b[j]), ""))
					}
					ts = append(ts, string(b))
					continue
				}
				ts = append(ts, mutateSeq(r, ref, symACGT, 1, 400, false))
			}
			c.Set("ref", ref).Set("qnames", "Qa,Qb").Set("qseqs", strings.Join(qs, ","))
			c.Set("tnames", strings.Join(randNames(r, nt, "T"), ",")).Set("tseqs", strings.Join(ts, ","))
			c.Set("ignore", "").Set("via", "")
			c.Tag("row-over-64k")
		}
		// several queries matter here
		n := relOf(c, "fourway", "eq4")
		return n
	}
	execs["C09"] = func(r *RNG, c *Case) { execs[c.Prop](r, c) }
	shrinkers["C08"] = shrinkClosest
}

// seqFromPool: reference with a subset of the pool's SNPs applied and some ambiguity
func seqFromPool(r *RNG, ref string, pool [][2]int, take int, amb int) string {
	b := []byte(ref)
	for k := 0; k < take && len(pool) > 0; k++ {
		s := pool[r.Intn(len(pool))]
		b[s[0]] = byte(s[1])
	}
	switch amb {
	case 1: // a single ambiguous site
		b[r.Intn(len(b))] = r.Pick(symAmb)
	case 2: // a tract
		st := r.Intn(len(b))
		for i := st; i < st+r.Range(1, len(b)/2+1) && i < len(b); i++ {
			b[i] = r.Pick("N-?nRY")
		}
	case 3: // sprinkled
		for i := range b {
			if r.Chance(1, 6) {
				b[i] = r.Pick(symAmb)
			}
		}
	}
	return string(b)
}

func c08Gen(r *RNG, id string) *Case { return c08GenOpt(r, id, false) }

func c08GenOpt(r *RNG, id string, allowComma bool) *Case {
	c := NewCase("C08", id)
	w := r.Range(6, 60)
	ref := randSeq(r, w, symACGT, false)
	// a small SNP pool incl. two different alternative bases at some sites (multiple hits)
	var pool [][2]int
	for k := 0; k < r.Range(2, 10); k++ {
		p := r.Intn(w)
		alt := r.Pick(symACGT)
		if alt == ref[p] {
			continue
		}
		pool = append(pool, [2]int{p, int(alt)})
		if r.Chance(1, 3) {
			alt2 := r.Pick(symACGT)
			if alt2 != ref[p] && alt2 != alt {
				pool = append(pool, [2]int{p, int(alt2)})
			}
		}
	}
	nq := r.Range(1, 5)
	nt := r.Range(1, 30)
	if m := manyRecords(r, c, 25); m > 0 {
		nt = m
	}
	var qs, ts []string
	for i := 0; i < nq; i++ {
		qs = append(qs, seqFromPool(r, ref, pool, r.Range(0, 4), r.PickInt([]int{0, 0, 0, 1, 2})))
	}
	for i := 0; i < nt; i++ {
		if len(ts) > 0 && r.Chance(1, 6) {
			ts = append(ts, ts[r.Intn(len(ts))]) // duplicate: tie on (distance, ambiguity)
			continue
		}
		if r.Chance(1, 8) {
			ts = append(ts, qs[r.Intn(len(qs))]) // identical to a query
			continue
		}
		ts = append(ts, seqFromPool(r, ref, pool, r.Range(0, 5), r.PickInt([]int{0, 0, 0, 1, 2, 3})))
	}
	// a pair exactly AT the pairwise ambiguity threshold: the query differs from the reference at D sites and the target is
	// uncalled at exactly num/den of them, with a threshold written as that decimal (0.7, 0.9, 0.35, 0.02 ... whose nearest
	// float32 lies below the decimal, and 0.6, 0.3, 0.2 whose nearest float32 lies above): "greater than" must say no
	thrOverride := -1
	if w >= 10 && r.Chance(1, 5) {
		ratios := [][3]int{{7, 10, 70}, {9, 10, 90}, {3, 5, 60}, {3, 10, 30}, {1, 5, 20}, {2, 5, 40}, {1, 10, 10}}
		if w >= 20 {
			ratios = append(ratios, [3]int{7, 20, 35}, [3]int{1, 20, 5}, [3]int{3, 20, 15})
		}
		if w >= 50 {
			ratios = append(ratios, [3]int{1, 50, 2})
		}
		rt := ratios[r.Intn(len(ratios))]
		perm := make([]int, w)
		for i := range perm {
			perm[i] = i
		}
		for i := w - 1; i > 0; i-- {
			j := r.Intn(i + 1)
			perm[i], perm[j] = perm[j], perm[i]
		}
		q := []byte(ref)
		t := []byte(ref)
		for k := 0; k < rt[1]; k++ {
			p := perm[k]
			q[p] = r.Pick(strings.ReplaceAll(symACGT, string(ref[p]), ""))
			if k < rt[0] {
				t[p] = 'N'
			}
		}
		qs[0] = string(q)
		ts = append(ts, string(t))
		nt++
		thrOverride = rt[2]
		c.Tag("pair-exactly-at-threshold")
	}
	c.Set("ref", ref)
	c.Set("qnames", strings.Join(randNamesCSV(r, nq, "Q", allowComma), ",")).Set("qseqs", strings.Join(qs, ","))
	tn := randNamesCSV(r, nt, "T", allowComma)
	dupTarget := ""
	if !allowComma && len(tn) > 2 && r.Chance(1, 6) { // the same sample twice in the target file (different sequences)
		i := r.Intn(len(tn) - 1)
		j := i + 1 + r.Intn(len(tn)-1-i)
		tn[j] = tn[i]
		dupTarget = tn[i]
		c.Tag("duplicate-target-id")
	}
	c.Set("tnames", strings.Join(tn, ",")).Set("tseqs", strings.Join(ts, ","))
	// option sets
	o := map[string]int{"sizetotal": 0, "sizeup": 0, "sizedown": 0, "sizeside": 0, "sizesame": 0, "distall": 0, "distup": 0, "distdown": 0, "distside": 0, "distpush": 0}
	switch r.Intn(10) {
	case 8: // --size-total together with --size-*: the total overrides them (a warning, not an error)
		o["sizetotal"] = r.Range(1, 12)
		o["sizeup"], o["sizeside"] = r.Range(0, 3), r.Range(1, 3)
	case 9: // --dist-all together with --dist-*: dist-all overrides them
		o["distall"] = r.Range(1, 4)
		o["distup"], o["distdown"] = r.Range(1, 4), r.Range(0, 2)
		o["sizetotal"] = r.PickInt([]int{0, 0, 6})
	case 0:
		o["sizetotal"] = r.Range(1, 12)
	case 1:
		o["sizeup"], o["sizedown"], o["sizeside"], o["sizesame"] = r.Range(0, 3), r.Range(0, 3), r.Range(0, 3), r.Range(0, 3)
	case 2:
		o["sizetotal"] = r.Range(1, 12)
		o["distall"] = r.Range(1, 4)
	case 3:
		o["distall"] = r.Range(1, 5)
	case 4:
		o["distup"], o["distdown"], o["distside"] = r.Range(0, 4), r.Range(0, 4), r.Range(0, 4)
	case 5:
		o["distpush"] = r.Range(1, 3)
	case 6:
		o["sizeup"], o["sizedown"] = r.PickInt([]int{-1, 1, 2}), r.Range(0, 2)
		o["distup"] = r.Range(0, 3)
	default: // nothing at all: must be refused
		if r.Chance(1, 4) {
			c.Tag("no-option")
		} else {
			o["sizetotal"] = r.Range(1, 20)
		}
	}
	for k, v := range o {
		_ = k
		_ = v
	}
	for _, k := range []string{"sizetotal", "sizeup", "sizedown", "sizeside", "sizesame", "distall", "distup", "distdown", "distside", "distpush"} {
		c.SetInt(k, o[k])
	}
	c.SetBool("nofill", r.Chance(1, 3))
	thr := r.PickInt([]int{10, 10, 0, 25, 50, 100, 70, 35})
	if thrOverride >= 0 {
		thr = thrOverride
	}
	c.SetInt("thrn", thr).SetInt("thrd", 100)
	c.SetInt("threshtarg", r.PickInt([]int{10000, 10000, 0, 2, 5}))
	var ign []string
	for k := 0; k < r.PickInt([]int{0, 0, 1, 3}); k++ {
		ign = append(ign, tn[r.Intn(len(tn))])
	}
	if dupTarget != "" && r.Bool() { // and that sample is to be ignored: every record of that name
		ign = append(ign, dupTarget)
	}
	c.Set("ignore", strings.Join(ign, ","))
	c.SetBool("table", r.Chance(1, 3))
	c.NonTrv = true
	if !allowComma && r.Chance(1, 4) {
		c.Set("fmt", r.PickStr([]string{"qcsv", "qcsv", "tcsv", "bothcsv"}))
		c.Tag("via-csv")
	}
	maybeCLI(r, c, 6)
	return c
}

func runTopRanking(c *Case, qtype, ttype string, qTxt, tTxt string) result {
	refTxt := renderFasta([]string{"reference"}, []string{c.Get("ref")}, layout{})
	var ign []string
	if c.Get("ignore") != "" {
		ign = splitNames(c.Get("ignore"))
	}
	g := func(k string) int { return atoi(c.Get(k)) }
	thr := float32(g("thrn")) / float32(max1(g("thrd")))
	if isCLI(c) {
		ext := map[string]string{"fasta": ".fasta", "csv": ".csv"}
		files := map[string]string{"r.fa": refTxt, "q" + ext[qtype]: qTxt, "t" + ext[ttype]: tTxt}
		args := []string{"updown", "topranking", "-r", "{dir}/r.fa", "-q", "{dir}/q" + ext[qtype], "-t", "{dir}/t" + ext[ttype]}
		for _, k := range []string{"sizetotal", "sizeup", "sizedown", "sizeside", "sizesame", "distall", "distup", "distdown", "distside", "distpush"} {
			if g(k) != 0 {
				flag := map[string]string{"sizetotal": "--size-total", "sizeup": "--size-up", "sizedown": "--size-down", "sizeside": "--size-side", "sizesame": "--size-same",
					"distall": "--dist-all", "distup": "--dist-up", "distdown": "--dist-down", "distside": "--dist-side", "distpush": "--dist-push"}[k]
				args = append(args, flag, fmt.Sprint(g(k)))
			}
		}
		args = append(args, "--threshold-pair", decStr(g("thrn"), max1(g("thrd"))), "--threshold-target", fmt.Sprint(g("threshtarg")))
		if c.Get("nofill") == "1" {
			args = append(args, "--no-fill")
		}
		if c.Get("table") == "1" {
			args = append(args, "--table")
		}
		if len(ign) > 0 {
			// one ID per line; the last line with or without its line end, LF or CRLF
			eol := []string{"\n", "\r\n"}[len(c.ID)%2]
			txt := strings.Join(ign, eol)
			if len(ign)%2 == 0 {
				txt += eol
			}
			files["ignore.txt"] = txt
			args = append(args, "--ignore", "{dir}/ignore.txt")
		}
		return viaCLI(files, "", args, nil)
	}
	return safeRun(30*time.Second, func() (string, error) {
		var out bytes.Buffer
		err := updown.TopRanking(strings.NewReader(qTxt), strings.NewReader(tTxt), strings.NewReader(refTxt), &out, c.Get("table") == "1",
			qtype, ttype, ign, g("sizetotal"), g("sizeup"), g("sizedown"), g("sizeside"), g("sizesame"),
			g("distall"), g("distup"), g("distdown"), g("distside"), thr, g("threshtarg"), c.Get("nofill") == "1", g("distpush"))
		return out.String(), err
	})
}

func trInputs(c *Case) (qFa, tFa string) {
	qFa = renderFasta(splitNames(c.Get("qnames")), strings.Split(c.Get("qseqs"), ","), layout{width: 50})
	tFa = renderFasta(splitNames(c.Get("tnames")), strings.Split(c.Get("tseqs"), ","), layout{width: 50})
	return
}

func execC08(r *RNG, c *Case) {
	q, t := trInputs(c)
	// the property speaks about the alignments; the command may be handed them as FASTA or as the CSV `updown list`
	// derives from them: 1 case in 4 goes through CSV on the query side, the target side, or both (field `fmt`, set
	// from the case ID so that old case lines replay as they were)
	qt, tt := "fasta", "fasta"
	switch c.Get("fmt") {
	case "qcsv", "bothcsv":
		if csv, err := udList(c, q); err == nil {
			q, qt = csv, "csv"
		}
	}
	switch c.Get("fmt") {
	case "tcsv", "bothcsv":
		if csv, err := udList(c, t); err == nil {
			t, tt = csv, "csv"
		}
	}
	c.Set("go", goField(runTopRanking(c, qt, tt, q, t)))
}

// udList runs the real `updown list`
func udList(c *Case, fa string) (string, error) {
	var out bytes.Buffer
	refTxt := renderFasta([]string{"reference"}, []string{c.Get("ref")}, layout{})
	err := updown.List(strings.NewReader(refTxt), strings.NewReader(fa), &out)
	return out.String(), err
}

func execFourWay(c *Case) {
	q, t := trInputs(c)
	qCsv, e1 := udList(c, q)
	tCsv, e2 := udList(c, t)
	if e1 != nil || e2 != nil {
		c.Set("goa", "!error").Set("gob", "!error").Set("goc", "!error").Set("god", fmt.Sprint(e1, e2))
		return
	}
	c.Set("goa", goField(runTopRanking(c, "fasta", "fasta", q, t)))
	c.Set("gob", goField(runTopRanking(c, "fasta", "csv", q, tCsv)))
	c.Set("goc", goField(runTopRanking(c, "csv", "fasta", qCsv, t)))
	c.Set("god", goField(runTopRanking(c, "csv", "csv", qCsv, tCsv)))
}
