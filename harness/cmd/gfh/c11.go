package main

import (
	"bytes"
	"fmt"
	"os"
	"path/filepath"
	"strings"
	"time"

	"github.com/virus-evolution/gofasta/pkg/sam"
	"github.com/virus-evolution/gofasta/pkg/variants"
)

// samVarGen: a SAM file (non-conflicting records) + an annotation of the same reference
// genBadFrame: set by the C11 stream only (other streams build on valid set-ups)
var genBadFrame bool

func samVarGen(r *RNG, id string, maxIns int, window bool) *Case {
	c := NewCase("SAMVAR", id)
	sc := genSam(r, true, maxIns)
	L := len(sc.ref)
	// an insertion before reference base 1 (reported as ins:0:n): prefix one record that starts at POS 1
	leading := false
	if maxIns > 0 {
		for i := range sc.recs {
			rc := &sc.recs[i]
			if rc.pos == 1 && rc.flag&(4|256|2048) == 0 && rc.seq != "*" && len(rc.cigar) > 0 && r.Chance(1, 2) {
				j := 0
				for j < len(rc.cigar) && rc.cigar[j] >= '0' && rc.cigar[j] <= '9' {
					j++
				}
				if j < len(rc.cigar) && (rc.cigar[j] == 'M' || rc.cigar[j] == '=' || rc.cigar[j] == 'X' || rc.cigar[j] == 'D') {
					rc.cigar = "2I" + rc.cigar
					rc.seq = randSeq(r, 2, symACGT, false) + rc.seq
					leading = true
					sc.tags["insertion-before-base-1"] = true
				}
				break
			}
		}
	}
	// an insertion after the last reference base (reported as ins:L:n; the reference row of the pair then ends in gaps):
	// one more query, aligned to the last ten bases, whose CIGAR ends in I
	if maxIns > 0 && L >= 12 && r.Chance(1, 4) {
		k := r.Range(1, 3)
		tail := mutateSeq(r, strings.ToUpper(sc.ref[L-10:]), symACGT, 1, 2, false)
		sc.recs = append(sc.recs, samRec{name: "tail_ins", flag: 0, pos: L - 9, cigar: fmt.Sprintf("10M%dI", k), seq: tail + randSeq(r, k, symACGT, false)})
		sc.tags["insertion-after-the-last-base"] = true
	}
	// a read that is the reference itself (no mismatch, no indel), somewhere after the first read: its row is empty
	if len(sc.recs) > 0 && r.Chance(1, 4) {
		same := samRec{name: "same_as_ref", flag: 0, pos: 1, cigar: fmt.Sprintf("%dM", L), seq: strings.ToUpper(sc.ref)}
		// between two query blocks (never inside one, skipped records included), or after the last record
		skipped := func(x samRec) bool { return x.flag&(4|256) != 0 }
		cands := []int{len(sc.recs)}
		for i := 1; i < len(sc.recs); i++ {
			if !skipped(sc.recs[i]) && !skipped(sc.recs[i-1]) && sc.recs[i].name != sc.recs[i-1].name {
				later := false
				for _, y := range sc.recs[i:] {
					if y.name == sc.recs[i-1].name {
						later = true
					}
				}
				if !later {
					cands = append(cands, i)
				}
			}
		}
		at := cands[r.Intn(len(cands))]
		sc.recs = append(sc.recs[:at:at], append([]samRec{same}, sc.recs[at:]...)...)
		sc.tags["read-identical-to-reference"] = true
	}
	// drop records that align no base: toPairAlign/variants treat them like any other, keep a few
	sc.fill(c)
	var genes []gene
	for i := 0; i < r.Range(0, 4); i++ {
		if g, ok := randGene(r, L, i, true); ok {
			genes = append(genes, g)
		}
	}
	if genBadFrame && len(genes) > 0 && r.Chance(1, 20) {
		// an annotation that parses but whose first coding feature cannot be turned into a region: its coding length is not
		// a multiple of three. Both commands must refuse it (a list of indels only is not an answer)
		last := &genes[0].segs[len(genes[0].segs)-1]
		if last[1]-last[0] >= 3 {
			last[1]--
			c.Tag("cds-length-not-a-multiple-of-three")
			c.Set("badframe", "1")
		}
	}
	if r.Bool() {
		txt, proto := renderGenbank(genes, sc.ref)
		c.Set("annfmt", "gb").Set("feats", proto).Set("rows", "").Set("anntext", txt)
	} else {
		var rows []gffRow
		for _, g := range genes {
			rows = append(rows, gffRowsOf(g)...)
		}
		annSeq := sc.ref
		if r.Chance(1, 3) {
			// the sequence carried in the ##FASTA section differs from the --reference file (same length): whichever the
			// command is documented to use - the file when one is given - both routes must use the same one
			annSeq = mutateSeq(r, sc.ref, symACGT, 1, 6, false)
			c.Tag("gff-fasta-differs-from-reference-file")
		}
		txt, proto := renderGFF(rows, annSeq, true, r.Bool(), sc.rname)
		c.Set("annfmt", "gff").Set("feats", "").Set("rows", proto).Set("anntext", txt)
		c.Set("origin", annSeq)
	}
	if c.Get("origin") == "" {
		c.Set("origin", sc.ref)
	}
	c.SetBool("reffromfile", r.Chance(2, 3))
	c.SetBool("append", r.Bool())
	start, end := -1, -1
	if window && r.Chance(2, 3) {
		start, end = randWindow(r, L)
		c.Tag("window")
	}
	if leading && r.Chance(1, 2) { // a window bounded on the right only keeps position 0
		start, end = -1, r.Range(1, L)
		c.Tag("window")
	}
	c.SetInt("start", start).SetInt("end", end).SetBool("agg", false).SetInt("thrn", 0).SetInt("thrd", 1)
	c.SetInt("threads", r.PickInt([]int{1, 2, 4}))
	c.Set("refmode", "msa").Set("refname", sc.rname).Set("names", "").Set("seqs", "")
	if strings.Contains(c.Get("recs"), "I") {
		c.Tag("insertions")
	}
	c.NonTrv = true
	maybeCLI(r, c, 3)
	return c
}

func runSamVariants(c *Case, agg bool) result {
	txt, _ := caseSam(c)
	refTxt := renderFasta([]string{c.Get("rname")}, []string{c.Get("ref")}, layout{width: 60})
	thr := decThr(atoi(c.Get("thrn")), max1(atoi(c.Get("thrd"))))
	if isCLI(c) {
		suffix := c.Get("annfmt")
		args := []string{"sam", "variants", "-s", "{dir}/a.sam", "-a", "{dir}/ann." + suffix, "-t", c.Get("threads")}
		files := map[string]string{"a.sam": txt, "ann." + suffix: c.Get("anntext")}
		if c.Get("reffromfile") == "1" {
			args = append(args, "-r", "{dir}/r.fa")
			files["r.fa"] = refTxt
		}
		if atoi(c.Get("start")) != -1 {
			args = append(args, "--start", c.Get("start"))
		}
		if atoi(c.Get("end")) != -1 {
			args = append(args, "--end", c.Get("end"))
		}
		if agg {
			args = append(args, "--aggregate", "--threshold", decStr(atoi(c.Get("thrn")), max1(atoi(c.Get("thrd")))))
		}
		if c.Get("append") == "1" {
			args = append(args, "--append-snps")
		}
		return viaCLI(files, "", args, nil)
	}
	return safeRun(30*time.Second, func() (string, error) {
		var out bytes.Buffer
		err := sam.Variants(textReader(c.ID, txt), strings.NewReader(refTxt), c.Get("reffromfile") == "1", strings.NewReader(c.Get("anntext")),
			c.Get("annfmt"), &out, atoi(c.Get("start")), atoi(c.Get("end")), agg, thr, c.Get("append") == "1", atoi(c.Get("threads")))
		return out.String(), err
	})
}

func execSamVar(r *RNG, c *Case) {
	c.Set("go", goField(runSamVariants(c, c.Get("agg") == "1")))
}

// variantsOnFasta runs variants.Variants on an MSA text whose reference record is named refID
func variantsOnFasta(c *Case, msaTxt string, refID string) result {
	// two cases in three use 2 or 4 workers under the scheduling jitter: the reference record travels through the workers
	// like any other and may reach the writer after the records behind it (a two-record pair file included)
	thr := []int{1, 2, 4}[idSeed(c.ID)%3]
	run := func() result {
		return safeRun(30*time.Second, func() (string, error) {
			var out bytes.Buffer
			err := variants.Variants(bytes.NewReader([]byte(msaTxt)), false, refID, strings.NewReader(c.Get("anntext")), c.Get("annfmt"), &out,
				atoi(c.Get("start")), atoi(c.Get("end")), false, 0, c.Get("append") == "1", thr)
			return out.String(), err
		})
	}
	if j := c.Get("jit"); thr > 1 && (j == "" || j == "0") {
		var res result
		variantsRuns++
		withJitter(idSeed(c.ID)+uint64(variantsRuns), 400, func() { res = run() })
		return res
	}
	return run()
}

var variantsRuns int

// the FASTA route: toPairAlign's files (or toMultiAlign --pad rows + reference) through variants
func runFastaRoute(c *Case, kind string) result {
	txt, recs := caseSam(c)
	refTxt := renderFasta([]string{c.Get("rname")}, []string{c.Get("ref")}, layout{width: 60})
	switch kind {
	case "samvar-topa":
		tmpCounter++
		dir := filepath.Join(opts.tmp, fmt.Sprintf("c11-%d-%d", os.Getpid(), tmpCounter))
		defer os.RemoveAll(dir)
		res := safeRun(30*time.Second, func() (string, error) {
			return "", sam.ToPairAlign(strings.NewReader(txt), strings.NewReader(refTxt), dir, -1, -1, -1, false, false, 2)
		})
		if res.status != "ok" {
			return res
		}
		rows := []string{"query,mutations"}
		// one case in three takes the pairs from the binary's `-o stdout` instead (4 threads, straggler jitter): the
		// stream holds reference and query record alternately, in input order
		var fromStdout map[string]string
		if idSeed(c.ID)%3 == 0 && opts.gobin != "" {
			os.MkdirAll(dir, 0755)
			os.WriteFile(filepath.Join(dir, "a.sam"), []byte(txt), 0644)
			os.WriteFile(filepath.Join(dir, "r.fa"), []byte(refTxt), 0644)
			os.Setenv("VERIF_JITTER_SEED", fmt.Sprint(idSeed(c.ID)%100000))
			o, se, code, to := runCLI(60*time.Second, "", "sam", "toPairAlign", "-s", filepath.Join(dir, "a.sam"), "-r", filepath.Join(dir, "r.fa"), "-o", "stdout", "-t", "4")
			os.Unsetenv("VERIF_JITTER_SEED")
			if to {
				return result{status: "timeout"}
			}
			if code != 0 {
				return result{status: "err:" + firstLine(se)}
			}
			fromStdout = map[string]string{}
			recsTxt := strings.Split(strings.TrimPrefix(o, ">"), "\n>")
			for i := 0; i+1 < len(recsTxt); i += 2 {
				qn := strings.SplitN(recsTxt[i+1], "\n", 2)[0]
				fromStdout[qn] = ">" + recsTxt[i] + "\n>" + strings.TrimSuffix(recsTxt[i+1], "\n") + "\n"
			}
		}
		for _, n := range blockNames(recs) {
			b, err := os.ReadFile(filepath.Join(dir, n+".fasta"))
			if fromStdout != nil {
				pair, ok := fromStdout[n]
				if !ok {
					return result{status: "err:toPairAlign -o stdout wrote no pair for " + n}
				}
				b, err = []byte(pair), nil
			}
			if err != nil {
				return result{status: "err:" + err.Error()}
			}
			v := variantsOnFasta(c, string(b), c.Get("rname"))
			if v.status != "ok" {
				return v
			}
			lines := strings.Split(strings.TrimSuffix(v.out, "\n"), "\n")
			rows = append(rows, lines[1:]...)
		}
		return result{out: strings.Join(rows, "\n") + "\n", status: "ok"}
	default: // samvar-toma: reference + the --pad rows in one alignment
		// a query that reaches from the first to the last reference base has the same row without --pad (what lies between
		// its first and last aligned base is 'N' there too): such rows are taken from a run without --pad
		run := func(pad bool) result {
			return safeRun(30*time.Second, func() (string, error) {
				var out bytes.Buffer
				err := sam.ToMultiAlign(strings.NewReader(txt), &out, -1, -1, -1, pad, 2)
				return out.String(), err
			})
		}
		res := run(true)
		if res.status != "ok" {
			return res
		}
		if covers := queriesCoveringBothEnds(recs, len(c.Get("ref"))); len(covers) > 0 {
			plain := run(false)
			if plain.status != "ok" {
				return plain
			}
			pr, qr := strings.Split(strings.TrimPrefix(res.out, ">"), "\n>"), strings.Split(strings.TrimPrefix(plain.out, ">"), "\n>")
			if len(pr) == len(qr) {
				for k := range pr {
					if covers[strings.SplitN(pr[k], "\n", 2)[0]] {
						pr[k] = strings.TrimSuffix(qr[k], "\n")
						if k == len(pr)-1 {
							pr[k] += "\n"
						}
					}
				}
				res.out = ">" + strings.Join(pr, "\n>")
				c.Tag("toma-rows-without-pad")
			}
		}
		msa := ">" + c.Get("rname") + "\n" + strings.ToUpper(c.Get("ref")) + "\n" + res.out
		return variantsOnFasta(c, msa, c.Get("rname"))
	}
}

// queriesCoveringBothEnds: the query names (occurring in one block only) that have a record aligning a base to reference
// position 1 and one aligning a base to the last position
func queriesCoveringBothEnds(recs []samRec, L int) map[string]bool {
	first := map[string]bool{}
	last := map[string]bool{}
	var names []string
	for _, rec := range recs {
		if rec.flag&(4|256) != 0 {
			continue
		}
		if _, ok := first[rec.name]; !ok {
			names = append(names, rec.name)
			first[rec.name], last[rec.name] = false, false
		}
		ops := parseCigarOps(rec.cigar)
		p := rec.pos // 1-based position of the next reference base
		for _, o := range ops {
			switch {
			case strings.IndexByte("M=X", o.op) >= 0:
				if p == 1 {
					first[rec.name] = true
				}
				if p+o.n-1 == L {
					last[rec.name] = true
				}
				p += o.n
			case o.op == 'D' || o.op == 'N':
				p += o.n
			}
		}
	}
	out := map[string]bool{}
	blocks := map[string]int{}
	for _, n := range blockNames(recs) {
		blocks[n]++
	}
	for _, n := range names {
		if first[n] && last[n] && blocks[n] == 1 {
			out[n] = true
		}
	}
	return out
}

func init() {
	execs["SAMVAR"] = execSamVar
	gens["C11"] = func(r *RNG, id string) *Case {
		genBadFrame = true
		defer func() { genBadFrame = false }()
		switch r.Intn(3) {
		case 0:
			return samVarGen(r, id, r.PickInt([]int{0, 2, 5}), r.Chance(1, 3))
		case 1:
			genSamAtBufferBoundary = r.Chance(1, 15)
			c := samVarGen(r, id, r.PickInt([]int{0, 2, 5}), r.Chance(1, 3))
			genSamAtBufferBoundary = false
			c.SetBool("reffromfile", true)
			if c.Get("badframe") == "1" { // both commands refuse: "the same" includes "both refuse"
				return relOf(c, "samvar-topa", "same")
			}
			return relOf(c, "samvar-topa", "eq")
		default:
			c := samVarGen(r, id, 0, r.Chance(1, 3))
			c.SetBool("reffromfile", true)
			if c.Get("badframe") == "1" {
				return relOf(c, "samvar-toma", "same")
			}
			return relOf(c, "samvar-toma", "eq")
		}
	}
	execs["C11"] = func(r *RNG, c *Case) { execs[c.Prop](r, c) }
	// C15 (sam variants part): windows of `sam variants` - start alone, end alone (an insertion before the first reference
	// base stays, at position 0), both - per query and aggregated
	gens["C15sv"] = func(r *RNG, id string) *Case {
		c := samVarGen(r, id, r.PickInt([]int{2, 2, 5, 0}), true)
		if r.Chance(1, 4) {
			c.SetBool("agg", true)
			thrN, thrD := genThreshold(r, 4)
			c.SetInt("thrn", thrN).SetInt("thrd", thrD)
		}
		return c
	}
	execs["C15sv"] = func(r *RNG, c *Case) { execs[c.Prop](r, c) }
}
