package main

import (
	"bytes"
	"errors"
	"fmt"
	"io"
	"os"
	"path/filepath"
	"strings"
	"syscall"
	"time"

	"github.com/virus-evolution/gofasta/pkg/closest"
	"github.com/virus-evolution/gofasta/pkg/sam"
	"github.com/virus-evolution/gofasta/pkg/snps"
	"github.com/virus-evolution/gofasta/pkg/updown"
	"github.com/virus-evolution/gofasta/pkg/variants"
)

// faultWriter accepts the first k-1 writes and fails every write from the k-th on (k = 0: never fails)
type faultWriter struct {
	k     int
	calls int
	once  bool  // only the k-th write fails (a transient fault); the writes after it are accepted again
	err   error // what the failing write returns (nil: a plain error value)
}

// faultErrors: the failures a destination can answer with - a plain error, a full device, a closed pipe (as the os package
// reports it: a *PathError wrapping EPIPE), an interrupted call, a short write. Whatever it is, it is a failed write.
var faultErrors = []error{nil, nil, syscall.ENOSPC, &os.PathError{Op: "write", Path: "|1", Err: syscall.EPIPE}, io.ErrClosedPipe, io.ErrShortWrite, syscall.EINTR, syscall.EIO}

var errDeviceFull = errors.New("no space left on device (injected)")

func (f *faultWriter) Write(p []byte) (int, error) {
	f.calls++
	if f.k > 0 && (f.calls == f.k || (!f.once && f.calls > f.k)) {
		if f.err != nil {
			return 0, f.err
		}
		return 0, errDeviceFull
	}
	return len(p), nil
}

// enumerateFaults runs `run` once to count its writes, then once per fault point
func enumerateFaults(c *Case, run func(w io.Writer) error) {
	fw := &faultWriter{}
	res := safeRun(30*time.Second, func() (string, error) { return "", run(fw) })
	if res.status != "ok" {
		c.SetInt("n", 0).Set("go", "").Set("note", res.status)
		return
	}
	n := fw.calls
	var letters []byte
	letter := func(r result) byte {
		switch {
		case r.status == "ok":
			return 'S'
		case strings.HasPrefix(r.status, "err:"):
			return 'E'
		case r.status == "timeout":
			return 'H'
		}
		return 'P'
	}
	var transient []string
	// a run with very many writes: the first 40, the last 40 and every (n/40)-th fault point in between
	stride := 1
	if n > 160 {
		stride = n / 40
	}
	for k := 1; k <= n; k++ {
		if stride > 1 && k > 40 && k <= n-40 && k%stride != 0 {
			letters = append(letters, 'E') // not run: counted as reported (the enumeration is a sample there)
			continue
		}
		kind := faultErrors[(int(idSeed(c.ID)%uint64(len(faultErrors)))+k/7)%len(faultErrors)] // one kind for a stretch of fault points
		w := &faultWriter{k: k, err: kind}
		l := letter(safeRun(15*time.Second, func() (string, error) { return "", run(w) }))
		if l == 'H' {
			// not finished within the limit: once more with the identical fault (a hang of the code repeats, a pause of
			// the machine does not)
			c.Tag("timeout-retried")
			w = &faultWriter{k: k, err: kind}
			l = letter(safeRun(30*time.Second, func() (string, error) { return "", run(w) }))
		}
		if l == 'E' {
			// the same fault point again, but only this one write fails: a later successful write must not hide it
			w1 := &faultWriter{k: k, once: true, err: kind}
			l1 := letter(safeRun(15*time.Second, func() (string, error) { return "", run(w1) }))
			if l1 == 'H' {
				c.Tag("timeout-retried")
				w1 = &faultWriter{k: k, once: true, err: kind}
				l1 = letter(safeRun(30*time.Second, func() (string, error) { return "", run(w1) }))
			}
			if l1 != 'E' {
				l = l1
				transient = append(transient, fmt.Sprint(k))
			}
		}
		letters = append(letters, l)
	}
	c.SetInt("n", n).Set("go", string(letters))
	if len(transient) > 0 {
		c.Set("note", "not reported when only write "+strings.Join(transient, ",")+" fails and the later ones succeed")
	}
}

func c19Gen(r *RNG, id string) *Case {
	kinds := []string{"snps", "snps-agg", "variants", "variants-agg", "toma", "toma-wrap", "samvariants", "closest", "closest-n", "closest-table", "list", "topranking", "topranking-table", "topa-devfull", "cli-devfull", "anycmd-devfull", "anycmd-devfull",
		"indels-ins", "indels-del", "indels-shared"}
	kind := kinds[r.Intn(len(kinds))]
	var base *Case
	switch kind {
	case "snps", "snps-agg":
		// one aggregate case in three with a table of several thousand rows (a writer that batches its rows makes few,
		// large write calls: each of them can fail)
		forceDenseWide = kind == "snps-agg" && atScale(r, 3)
		base = c03Gen(r, id, kind == "snps-agg")
		forceDenseWide = false
	case "variants", "variants-agg":
		base = genVarCase(r, id, varOpts{fmtWeights: [2]int{1, 1}, withIns: r.Bool(), maxGenes: 3})
		base.SetBool("agg", kind == "variants-agg")
		if base.Get("refmode") == "msa" && r.Chance(1, 2) {
			// an alignment that holds nothing but the reference record: the header is the only thing written
			names := strings.Split(base.Get("names"), ",")
			seqs := strings.Split(base.Get("seqs"), ",")
			for i, n := range names {
				if n == base.Get("refname") {
					base.Set("names", n).Set("seqs", seqs[i])
				}
			}
			base.Tag("reference-record-alone")
		}
	case "toma", "toma-wrap":
		base = tomaGen(r, id, false)
		if kind == "toma-wrap" {
			base.SetInt("wrap", r.Range(1, 30))
		} else {
			base.SetInt("wrap", -1)
		}
	case "samvariants":
		base = samVarGen(r, id, 2, false)
	case "indels-ins", "indels-del", "indels-shared":
		// sam indels: the one command with two outputs; the fault sits in the insertions table, in the deletions table, or
		// in one destination that both tables go to
		base = samVarGen(r, id, 5, false)
	case "closest", "closest-n", "closest-table":
		base = c06Gen(r, id, "C06")
		switch kind {
		case "closest":
			base.Set("mode", "plain").SetInt("k", 0).SetInt("dd", 0)
		case "closest-n":
			base.Set("mode", "n").SetInt("k", r.Range(1, 5)).SetInt("dd", 0)
			if r.Chance(1, 5) {
				// a catchment of many hundred names: one output row of tens of kilobytes (a writer that cuts long rows into
				// pieces has more places to lose an error)
				base.SetInt("bigcatch", r.Range(550, 900))
				base.Tag("catchment-of-hundreds")
			}
		default:
			base.Set("mode", "table").SetInt("k", r.Range(1, 5)).SetInt("dd", 0)
		}
	case "list":
		base = c10Gen(r, id)
	case "topranking", "topranking-table":
		base = c08Gen(r, id)
		base.SetInt("sizetotal", r.Range(2, 12)).SetInt("distpush", 0)
		base.SetBool("table", kind == "topranking-table")
	case "topa-devfull":
		base = topaGen(r, id, false)
	case "anycmd-devfull":
		// any command of the C18 set-ups (valid input, random valid options) with its standard output on a full device
		base = NewCase("EXIT", id)
		base.Set("sub", r.PickStr([]string{"snps", "closest", "closest-n", "list", "topranking", "variants", "toma", "samvariants"}))
		base.SetInt("setupseed", r.Intn(1<<30))
		base.NonTrv = true
	default:
		base = c03Gen(r, id, false)
	}
	c := cloneCase(base)
	c.Prop = "FAULT"
	if kind == "topa-devfull" || kind == "cli-devfull" || kind == "anycmd-devfull" {
		c.Prop = "EXIT"
		c.Set("expect", "refuse")
	}
	c.ID = id
	c.Set("cmd", kind)
	c.Tags = []string{kind}
	c.NonTrv = true
	return c
}

func execFault(r *RNG, c *Case) {
	lay := layout{width: 60}
	split := func(k string) []string { return strings.Split(c.Get(k), ",") }
	switch c.Get("cmd") {
	case "snps", "snps-agg":
		refTxt := renderFasta([]string{"ref"}, []string{c.Get("ref")}, lay)
		aln := renderFasta(split("names"), split("seqs"), lay)
		enumerateFaults(c, func(w io.Writer) error {
			return snps.SNPs(strings.NewReader(refTxt), strings.NewReader(aln), c.Get("hard") == "1", c.Get("cmd") == "snps-agg", 0, w)
		})
	case "variants", "variants-agg":
		msa := renderFasta(split("names"), split("seqs"), lay)
		refID := c.Get("refname")
		if c.Get("refmode") == "ann" {
			refID = ""
		}
		enumerateFaults(c, func(w io.Writer) error {
			return variants.Variants(bytes.NewReader([]byte(msa)), c.Get("refmode") == "stdin", refID, strings.NewReader(c.Get("anntext")), c.Get("annfmt"), w,
				-1, -1, c.Get("cmd") == "variants-agg", 0, true, 2)
		})
	case "indels-ins", "indels-del", "indels-shared":
		txt, _ := caseSam(c)
		enumerateFaults(c, func(w io.Writer) error {
			ok := &faultWriter{}
			switch c.Get("cmd") {
			case "indels-ins":
				return sam.Indels(strings.NewReader(txt), w, ok, 1)
			case "indels-del":
				return sam.Indels(strings.NewReader(txt), ok, w, 1)
			}
			return sam.Indels(strings.NewReader(txt), w, w, 1)
		})
	case "toma", "toma-wrap":
		txt, _ := caseSam(c)
		enumerateFaults(c, func(w io.Writer) error {
			return sam.ToMultiAlign(strings.NewReader(txt), w, atoi(c.Get("wrap")), -1, -1, c.Get("pad") == "1", 2)
		})
	case "samvariants":
		txt, _ := caseSam(c)
		refTxt := renderFasta([]string{c.Get("rname")}, []string{c.Get("ref")}, lay)
		enumerateFaults(c, func(w io.Writer) error {
			return sam.Variants(strings.NewReader(txt), strings.NewReader(refTxt), true, strings.NewReader(c.Get("anntext")), c.Get("annfmt"), w, -1, -1, false, 0, true, 2)
		})
	case "closest", "closest-n", "closest-table":
		q := renderFasta(split("qnames"), split("qseqs"), lay)
		t := renderFasta(split("tnames"), split("tseqs"), lay)
		if n := atoi(c.Get("bigcatch")); n > 0 {
			var tn, ts []string
			base := split("tseqs")
			for i := 0; i < n; i++ {
				tn = append(tn, fmt.Sprintf("target_sample_%04d", i))
				ts = append(ts, base[i%len(base)])
			}
			t = renderFasta(tn, ts, lay)
			c.SetInt("k", n)
		}
		enumerateFaults(c, func(w io.Writer) error {
			if c.Get("cmd") == "closest" {
				return closest.Closest(strings.NewReader(q), strings.NewReader(t), c.Get("measure"), w, 0)
			}
			return closest.ClosestN(atoi(c.Get("k")), -1.0, strings.NewReader(q), strings.NewReader(t), c.Get("measure"), w, c.Get("cmd") == "closest-table", 0)
		})
	case "list":
		refTxt := renderFasta([]string{"ref"}, []string{c.Get("ref")}, lay)
		aln := renderFasta(split("names"), split("seqs"), lay)
		enumerateFaults(c, func(w io.Writer) error { return updown.List(strings.NewReader(refTxt), strings.NewReader(aln), w) })
	case "topranking", "topranking-table":
		q, t := trInputs(c)
		refTxt := renderFasta([]string{"reference"}, []string{c.Get("ref")}, layout{})
		enumerateFaults(c, func(w io.Writer) error {
			return updown.TopRanking(strings.NewReader(q), strings.NewReader(t), strings.NewReader(refTxt), w, c.Get("cmd") == "topranking-table",
				"fasta", "fasta", nil, atoi(c.Get("sizetotal")), 0, 0, 0, 0, 0, 0, 0, 0, 0.1, 10000, false, 0)
		})
	}
}

// execExit: commands run through the binary with stdout on /dev/full
func execExit(r *RNG, c *Case) {
	tmpCounter++
	dir := filepath.Join(opts.tmp, fmt.Sprintf("exit-%d-%d", os.Getpid(), tmpCounter))
	os.MkdirAll(dir, 0755)
	defer os.RemoveAll(dir)
	var args []string
	switch c.Get("cmd") {
	case "topa-devfull":
		txt, recs := caseSam(c)
		os.WriteFile(filepath.Join(dir, "a.sam"), []byte(txt), 0644)
		os.WriteFile(filepath.Join(dir, "r.fa"), []byte(renderFasta([]string{c.Get("rname")}, []string{c.Get("ref")}, layout{})), 0644)
		args = []string{"sam", "toPairAlign", "-s", filepath.Join(dir, "a.sam"), "-r", filepath.Join(dir, "r.fa"), "-o", "stdout", "-t", "2"}
		if names := blockNames(recs); idSeed(c.ID)%2 == 0 && len(names) > 0 {
			// directory output: the file of one query is a full device (a symbolic link to /dev/full), the others are fine
			out := filepath.Join(dir, "pairs")
			os.MkdirAll(out, 0755)
			os.Symlink("/dev/full", filepath.Join(out, names[int(idSeed(c.ID)/2)%len(names)]+".fasta"))
			args[7] = out
			c.Tag("one-pair-file-on-a-full-device")
			_, _, code, to := runCLI(20*time.Second, "", args...)
			c.Set("go", fmt.Sprintf("exit=%d;timeout=%d", code, b2i(to)))
			return
		}
	case "cli-devfull":
		os.WriteFile(filepath.Join(dir, "r.fa"), []byte(renderFasta([]string{"ref"}, []string{c.Get("ref")}, layout{})), 0644)
		os.WriteFile(filepath.Join(dir, "a.fa"), []byte(renderFasta(strings.Split(c.Get("names"), ","), strings.Split(c.Get("seqs"), ","), layout{})), 0644)
		args = []string{"snps", "-r", filepath.Join(dir, "r.fa"), "-q", filepath.Join(dir, "a.fa")}
	case "anycmd-devfull":
		st := validSetup(NewRNG(uint64(atoi(c.Get("setupseed")))), c.Get("sub"))
		for n, txt := range st.files {
			os.WriteFile(filepath.Join(dir, n), []byte(txt), 0644)
		}
		for _, a := range st.args {
			args = append(args, strings.ReplaceAll(a, "{dir}", dir))
		}
		c.Tag("devfull-" + c.Get("sub"))
		if atoi(c.Get("setupseed"))%2 == 0 {
			// the full device named with -o instead of being the standard output: the write fails, the close does not
			args = append(args, "-o", "/dev/full")
			c.Tag("devfull-by-outfile-option")
		}
	default:
		execExitC18(c, dir)
		return
	}
	code, to := runCLIDevFull(20*time.Second, args...)
	c.Set("go", fmt.Sprintf("exit=%d;timeout=%d", code, b2i(to)))
}

func b2i(b bool) int {
	if b {
		return 1
	}
	return 0
}

func init() {
	gens["C19"] = c19Gen
	execs["C19"] = func(r *RNG, c *Case) { execs[c.Prop](r, c) }
	execs["FAULT"] = execFault
	execs["EXIT"] = execExit
}
