package main

import (
	"math"
	"math/big"
	"strings"
)

// float32Midpoint: the exact decimal expansion of the midpoint between the float32 with the given bits (finite,
// non-negative) and the next one up (2^128 stands in for the one after the largest)
func float32Midpoint(bits uint32) string {
	f := float64(math.Float32frombits(bits))
	var g float64
	if bits == 0x7f7fffff {
		g = math.Ldexp(1, 128)
	} else {
		g = float64(math.Float32frombits(bits + 1))
	}
	a := new(big.Rat).SetFloat64(f)
	b := new(big.Rat).SetFloat64(g)
	m := new(big.Rat).Add(a, b)
	m.Quo(m, big.NewRat(2, 1))
	s := m.FloatString(200)
	if strings.Contains(s, ".") {
		s = strings.TrimRight(s, "0")
		s = strings.TrimSuffix(s, ".")
	}
	return s
}
