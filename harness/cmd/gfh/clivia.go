package main

import (
	"fmt"
	"os"
	"path/filepath"
	"strconv"
	"strings"
	"time"
)

// The command-line route. Most streams call the package entry points in-process; one case in `one` is instead written
// to files and run through the gofasta binary with the equivalent command line, and its standard output (or the files
// it writes) is judged by the same model and specification. This ties the command-line layer (cmd/*.go: flag
// defaults, which entry point gets which argument, how an error reaches the exit status) into every property.

func maybeCLI(r *RNG, c *Case, one int) {
	if opts.gobin == "" {
		return
	}
	if r.Chance(1, one) {
		c.Set("via", "cli")
		c.Tag("via-cli")
	}
}

func isCLI(c *Case) bool { return c.Get("via") == "cli" && opts.gobin != "" }

func decStr(num, den int) string {
	return strconv.FormatFloat(float64(num)/float64(den), 'f', -1, 64)
}

var cliCounter int

// viaCLI writes the files into a fresh directory, replaces {dir} in the arguments and runs the binary; the result is
// its standard output, or what `collect` gathers from the directory afterwards; a non-zero exit is an error.
// Every other run that has no collector sends the output to a file with -o instead of standard output; the file
// exists beforehand and is longer than anything the command will write (a re-run into the same path).
func viaCLI(files map[string]string, stdin string, args []string, collect func(dir string) (string, error)) result {
	cliCounter++
	dir := filepath.Join(opts.tmp, fmt.Sprintf("cli-%d-%d", os.Getpid(), cliCounter))
	os.MkdirAll(dir, 0755)
	defer os.RemoveAll(dir)
	for n, txt := range files {
		os.WriteFile(filepath.Join(dir, n), []byte(txt), 0644)
	}
	toFile := collect == nil && cliCounter%2 == 0
	if toFile {
		os.WriteFile(filepath.Join(dir, "out.txt"), []byte(strings.Repeat("stale line from an earlier run\n", 2000)), 0644)
		args = append(append([]string{}, args...), "-o", "{dir}/out.txt")
	}
	args = spellSwitches(args, cliCounter)
	a := make([]string, len(args))
	for i, x := range args {
		a[i] = strings.ReplaceAll(x, "{dir}", dir)
	}
	out, errTxt, code, to := runCLI(30*time.Second, stdin, a...)
	switch {
	case to:
		return result{status: "timeout"}
	case code != 0:
		if strings.Contains(errTxt, "panic:") || strings.Contains(errTxt, "goroutine ") {
			return result{status: "panic:" + firstLine(errTxt)}
		}
		return result{status: "err:exit " + fmt.Sprint(code) + " " + firstLine(errTxt)}
	}
	if toFile {
		b, err := os.ReadFile(filepath.Join(dir, "out.txt"))
		if err != nil {
			return result{status: "err:" + err.Error()}
		}
		if out != "" {
			return result{status: "err:wrote to standard output although -o was given"}
		}
		return result{out: string(b), status: "ok"}
	}
	if collect != nil {
		o, err := collect(dir)
		if err == errUseStdout {
			return result{out: out, status: "ok"}
		}
		if err != nil {
			return result{status: "err:" + err.Error()}
		}
		return result{out: o, status: "ok"}
	}
	return result{out: out, status: "ok"}
}

var errUseStdout = fmt.Errorf("use standard output")

// viaCLINoFile: standard output only (for commands whose -o has another meaning)
func viaCLINoFile(files map[string]string, args []string) result {
	return viaCLI(files, "", args, func(string) (string, error) { return "", errUseStdout })
}

// the on/off options of each command
var cliSwitches = map[string][]string{
	"snps":         {"--hard-gaps", "--aggregate"},
	"variants":     {"--aggregate", "--append-snps"},
	"toMultiAlign": {"--pad"},
	"toPairAlign":  {"--omit-reference", "--skip-insertions"},
	"closest":      {"--table"},
	"topranking":   {"--table", "--no-fill"},
}

// spellSwitches: a switch can be given bare (`--pad`), with its value (`--pad=true`), or switched off explicitly
// (`--pad=false`, what a templated script writes); one call in three uses the explicit forms
func spellSwitches(args []string, n int) []string {
	if n%3 != 0 {
		return args
	}
	var sw []string
	for _, a := range args {
		if s, ok := cliSwitches[a]; ok {
			sw = s
		}
	}
	if sw == nil {
		return args
	}
	out := append([]string{}, args...)
	given := map[string]bool{}
	for i, a := range out {
		for _, s := range sw {
			if a == s {
				given[s] = true
				out[i] = s + "=true"
			}
		}
	}
	for _, s := range sw {
		if !given[s] {
			out = append(out, s+"=false")
		}
	}
	return out
}
