package main

// cols.go: a small translator (go/ast -> Lean) for the per-column code of the comparison loops: the conditions under which
// a column is reported or counted. For the three distance functions of pkg/closest the whole loop body (if / else-if chains
// that only increment counters) becomes a Lean function from the two column codes to the increments; for the loops that
// collect mutations the path condition of every `x = append(x, ...)` inside its innermost loop becomes a Lean Boolean
// function. Props/Cols proves each generated function equal to the model's test for all byte pairs, and the model's loops
// equal to folds of the generated steps. Anything the translator does not understand is emitted as the Lean identifier
// `untranslatable`, which does not exist: the generated file then fails to compile and the obligation is reported.

import (
	"fmt"
	"go/ast"
	"go/parser"
	"go/printer"
	"go/token"
	"path/filepath"
	"strings"
)

type colSpec struct {
	file, fn string
	vars     [][2]string // Go source text -> Lean variable, in parameter order
	counters []string    // counter mode: local int counters, in output order
	appendTo string      // append mode: the slice variable
	ints     bool        // append mode over Int-valued variables
	skips    bool        // skip mode: the translatable conditions of every `if c { ...; continue }` (no else) of the function
}

var colSpecs = []colSpec{
	{"pkg/closest/closest.go", "rawDistance", [][2]string{{"query.Seq[i]", "q"}, {"tNuc", "t"}}, []string{"n", "d"}, "", false, false},
	{"pkg/closest/closest.go", "snpDistance", [][2]string{{"query.Seq[i]", "q"}, {"tNuc", "t"}}, []string{"n"}, "", false, false},
	{"pkg/closest/closest.go", "tn93Distance", [][2]string{{"query.Seq[i]", "q"}, {"tNuc", "t"}}, []string{"count_P1", "count_P2", "count_d", "count_L"}, "", false, false},
	{"pkg/closest/closest.go", "findClosest", [][2]string{{"query.Seq[i]", "q"}, {"tNuc", "t"}}, nil, "snps", false, false},
	{"pkg/snps/snps.go", "getSNPs", [][2]string{{"refSeq[i]", "r"}, {"nuc", "q"}}, nil, "SNPs", false, false},
	{"pkg/updown/input.go", "getLines", [][2]string{{"refSeq[i]", "r"}, {"que_nuc", "q"}}, nil, "snps", false, false},
	{"pkg/variants/pairwise.go", "getNucsPair", [][2]string{{"ref[alignPos]", "r"}, {"query[alignPos]", "q"}}, nil, "variants", false, false},
	{"pkg/variants/pairwise.go", "getAAsPair", [][2]string{{"ref[alignmentPos]", "r"}, {"query[alignmentPos]", "q"}}, nil, "codonSNPs", false, false},
	{"pkg/variants/variants.go", "WriteVariants", [][2]string{{"start", "start"}, {"end", "stop"}, {"v.Position", "pos"}}, nil, "sa", true, false},
	{"pkg/sam/sam.go", "groupSamRecords", [][2]string{{"rec.Flags", "f"}}, nil, "", false, true},
	{"pkg/sam/indels.go", "getSamRecords", [][2]string{{"rec.Flags", "f"}}, nil, "", false, true},
	{"pkg/variants/variants.go", "AggregateWriteVariants", [][2]string{{"start", "start"}, {"end", "stop"}, {"v.Position", "pos"}}, nil, "", true, true},
}

type colTr struct {
	fset *token.FileSet
	vars map[string]string
	ints bool // conditions are over Int (options that may be -1), not over column codes
}

func (t *colTr) src(e ast.Expr) string {
	var b strings.Builder
	printer.Fprint(&b, t.fset, e)
	return b.String()
}

// natural-number valued expression
func (t *colTr) nat(e ast.Expr) string {
	if v, ok := t.vars[t.src(e)]; ok {
		return v
	}
	switch x := e.(type) {
	case *ast.ParenExpr:
		return t.nat(x.X)
	case *ast.BasicLit:
		if x.Kind == token.INT {
			return x.Value
		}
	case *ast.BinaryExpr:
		switch x.Op {
		case token.AND:
			return "(" + t.nat(x.X) + " &&& " + t.nat(x.Y) + ")"
		case token.OR:
			return "(" + t.nat(x.X) + " ||| " + t.nat(x.Y) + ")"
		case token.SHR:
			return "(" + t.nat(x.X) + " >>> " + t.nat(x.Y) + ")"
		case token.ADD:
			return "(" + t.nat(x.X) + " + " + t.nat(x.Y) + ")"
		}
	}
	return "untranslatable"
}

// Boolean valued expression
func (t *colTr) boolean(e ast.Expr) string {
	switch x := e.(type) {
	case *ast.ParenExpr:
		return t.boolean(x.X)
	case *ast.UnaryExpr:
		if x.Op == token.NOT {
			return "(!" + t.boolean(x.X) + ")"
		}
	case *ast.BinaryExpr:
		switch x.Op {
		case token.LAND:
			return "(" + t.boolean(x.X) + " && " + t.boolean(x.Y) + ")"
		case token.LOR:
			return "(" + t.boolean(x.X) + " || " + t.boolean(x.Y) + ")"
		case token.EQL:
			return "(" + t.nat(x.X) + " == " + t.nat(x.Y) + ")"
		case token.NEQ:
			return "(" + t.nat(x.X) + " != " + t.nat(x.Y) + ")"
		case token.LSS:
			return "(decide (" + t.nat(x.X) + " < " + t.nat(x.Y) + "))"
		case token.LEQ:
			return "(decide (" + t.nat(x.X) + " ≤ " + t.nat(x.Y) + "))"
		case token.GTR:
			return "(decide (" + t.nat(x.X) + " > " + t.nat(x.Y) + "))"
		case token.GEQ:
			return "(decide (" + t.nat(x.X) + " ≥ " + t.nat(x.Y) + "))"
		}
	}
	return "untranslatable"
}

func endsInJump(b *ast.BlockStmt) bool {
	if len(b.List) == 0 {
		return false
	}
	switch s := b.List[len(b.List)-1].(type) {
	case *ast.BranchStmt:
		return s.Tok == token.CONTINUE || s.Tok == token.BREAK
	case *ast.ReturnStmt:
		return true
	}
	return false
}

// path conditions (relative to the innermost enclosing loop) of every `target = append(target, ...)`
func (t *colTr) appendConds(stmts []ast.Stmt, path []string, target string, out *[]string) {
	for _, st := range stmts {
		switch s := st.(type) {
		case *ast.AssignStmt:
			if len(s.Lhs) == 1 && len(s.Rhs) == 1 && identName(s.Lhs[0]) == target {
				if call, ok := s.Rhs[0].(*ast.CallExpr); ok && identName(call.Fun) == "append" && len(call.Args) > 0 && identName(call.Args[0]) == target {
					c := "true"
					if len(path) > 0 {
						c = "(" + strings.Join(path, " && ") + ")"
					}
					*out = append(*out, c)
				}
			}
		case *ast.IfStmt:
			c := t.boolean(s.Cond)
			if t.ints {
				c = t.intBool(s.Cond)
			}
			t.appendConds(s.Body.List, append(append([]string{}, path...), c), target, out)
			neg := "(!" + c + ")"
			switch e := s.Else.(type) {
			case *ast.BlockStmt:
				t.appendConds(e.List, append(append([]string{}, path...), neg), target, out)
			case *ast.IfStmt:
				t.appendConds([]ast.Stmt{e}, append(append([]string{}, path...), neg), target, out)
			case nil:
				if endsInJump(s.Body) && t.src(s.Cond) != "err != nil" { // an error exit is not a column condition
					path = append(append([]string{}, path...), neg)
				}
			}
		case *ast.ForStmt:
			t.appendConds(s.Body.List, nil, target, out)
		case *ast.RangeStmt:
			t.appendConds(s.Body.List, nil, target, out)
		case *ast.BlockStmt:
			t.appendConds(s.List, path, target, out)
		case *ast.SwitchStmt:
			for _, c := range s.Body.List {
				if cc, ok := c.(*ast.CaseClause); ok {
					t.appendConds(cc.Body, []string{"untranslatable"}, target, out)
				}
			}
		}
	}
}

// counter mode: a statement list that only increments counters under if / else-if chains -> a Lean expression that
// maps the tuple of counters to the tuple after the statements
func (t *colTr) counterStmts(stmts []ast.Stmt, counters []string, indent string) string {
	tuple := "(" + strings.Join(counters, ", ") + ")"
	var b strings.Builder
	for _, st := range stmts {
		switch s := st.(type) {
		case *ast.IncDecStmt:
			n := identName(s.X)
			if !containsStr(counters, n) || s.Tok != token.INC {
				return "untranslatable"
			}
			fmt.Fprintf(&b, "%slet %s := %s + 1\n", indent, n, n)
		case *ast.AssignStmt:
			n := identName(s.Lhs[0])
			if len(s.Lhs) != 1 || !containsStr(counters, n) || s.Tok != token.ADD_ASSIGN {
				return "untranslatable"
			}
			fmt.Fprintf(&b, "%slet %s := %s + %s\n", indent, n, n, t.nat(s.Rhs[0]))
		case *ast.IfStmt:
			fmt.Fprintf(&b, "%slet %s := %s\n", indent, tuple, t.counterIf(s, counters, indent+"  "))
		default:
			return "untranslatable"
		}
	}
	b.WriteString(indent + tuple)
	return b.String()
}

func (t *colTr) counterIf(s *ast.IfStmt, counters []string, indent string) string {
	tuple := "(" + strings.Join(counters, ", ") + ")"
	els := tuple
	switch e := s.Else.(type) {
	case *ast.BlockStmt:
		els = "(\n" + t.counterStmts(e.List, counters, indent+"  ") + ")"
	case *ast.IfStmt:
		els = "(" + t.counterIf(e, counters, indent+"  ") + ")"
	}
	return "if " + t.boolean(s.Cond) + " then (\n" + t.counterStmts(s.Body.List, counters, indent+"  ") + ")\n" + indent + "else " + els
}

func containsStr(xs []string, x string) bool {
	for _, y := range xs {
		if x == y {
			return true
		}
	}
	return false
}

// the innermost range/for loops of a function body, in source order
func innermostLoops(n ast.Node, out *[]*ast.BlockStmt) {
	ast.Inspect(n, func(m ast.Node) bool {
		var body *ast.BlockStmt
		switch s := m.(type) {
		case *ast.RangeStmt:
			body = s.Body
		case *ast.ForStmt:
			body = s.Body
		default:
			return true
		}
		inner := false
		ast.Inspect(body, func(k ast.Node) bool {
			switch k.(type) {
			case *ast.RangeStmt, *ast.ForStmt:
				inner = true
			}
			return !inner
		})
		if !inner {
			*out = append(*out, body)
			return false
		}
		return true
	})
}

// dumpCols prints the translated code of one package (closest | snps | updown | variants | sam): one generated file per
// package, so that a rewrite the translator cannot follow only touches the obligations that rely on that package
func dumpCols(root string, group string) string {
	var b strings.Builder
	b.WriteString("-- GENERATED by `gfh cols " + group + "` (go/ast translator cols.go) from the working tree: do not edit.\n")
	b.WriteString("-- the per-column code of the comparison loops of pkg/" + group + ", as Lean functions\n")
	b.WriteString("namespace Gofasta.Gen.Cols\n\n")
	for _, sp := range colSpecs {
		if filepath.Base(filepath.Dir(sp.file)) != group {
			continue
		}
		fset := token.NewFileSet()
		af, err := parser.ParseFile(fset, filepath.Join(root, sp.file), nil, 0)
		name := strings.TrimSuffix(filepath.Base(sp.file), ".go") + "_" + sp.fn
		var argNames []string
		for _, v := range sp.vars {
			argNames = append(argNames, v[1])
		}
		args := strings.Join(argNames, " ")
		typ := "Nat"
		if sp.ints {
			typ = "Int"
		}
		var fd *ast.FuncDecl
		if err == nil {
			for _, d := range af.Decls {
				if f, ok := d.(*ast.FuncDecl); ok && f.Name.Name == sp.fn && f.Body != nil {
					fd = f
				}
			}
		}
		if fd == nil {
			fmt.Fprintf(&b, "-- %s.%s: not found\n\n", sp.file, sp.fn)
			continue // the theorem naming it fails
		}
		t := &colTr{fset: fset, vars: map[string]string{}, ints: sp.ints}
		for _, v := range sp.vars {
			t.vars[v[0]] = v[1]
		}
		if sp.skips {
			var conds []string
			ast.Inspect(fd.Body, func(n ast.Node) bool {
				if is, ok := n.(*ast.IfStmt); ok && is.Else == nil && endsInJump(is.Body) {
					if br, ok := is.Body.List[len(is.Body.List)-1].(*ast.BranchStmt); ok && br.Tok == token.CONTINUE {
						c := t.boolean(is.Cond)
						if sp.ints {
							c = t.intBool(is.Cond)
						}
						if !strings.Contains(c, "untranslatable") && !strings.Contains(c, "refID") && !strings.Contains(c, "nil") {
							conds = append(conds, c)
						}
					}
				}
				return true
			})
			fmt.Fprintf(&b, "/-- %s, %s: the conditions on %s under which a record is skipped (`continue`) -/\n", sp.file, sp.fn, sp.vars[0][0])
			fmt.Fprintf(&b, "def %s (%s : %s) : List Bool := [%s]\n\n", name, args, typ, strings.Join(conds, ", "))
			continue
		}
		if sp.appendTo != "" {
			var conds []string
			t.appendConds(fd.Body.List, nil, sp.appendTo, &conds)
			fmt.Fprintf(&b, "/-- %s, %s: the condition (inside its innermost loop) of every `%s = append(%s, ...)` -/\n", sp.file, sp.fn, sp.appendTo, sp.appendTo)
			fmt.Fprintf(&b, "def %s (%s : %s) : List Bool := [%s]\n\n", name, args, typ, strings.Join(conds, ", "))
			continue
		}
		// counter mode: the innermost loop whose body mentions the first counter
		var loops []*ast.BlockStmt
		innermostLoops(fd.Body, &loops)
		var body *ast.BlockStmt
		for _, l := range loops {
			uses := false
			ast.Inspect(l, func(k ast.Node) bool {
				if id, ok := k.(*ast.Ident); ok && id.Name == sp.counters[0] {
					uses = true
				}
				return true
			})
			if uses && body == nil {
				body = l
			}
		}
		fmt.Fprintf(&b, "/-- %s, %s: what one column adds to the counters %s -/\n", sp.file, sp.fn, strings.Join(sp.counters, ", "))
		if body == nil {
			fmt.Fprintf(&b, "def %s (%s : Nat) : List Nat := untranslatable\n\n", name, args)
			continue
		}
		fmt.Fprintf(&b, "def %s (%s : Nat) : List Nat :=\n", name, args)
		for _, c := range sp.counters {
			fmt.Fprintf(&b, "  let %s := 0\n", c)
		}
		fmt.Fprintf(&b, "  let (%s) := (\n%s)\n  [%s]\n\n", strings.Join(sp.counters, ", "), t.counterStmts(body.List, sp.counters, "    "), strings.Join(sp.counters, ", "))
	}
	b.WriteString("end Gofasta.Gen.Cols\n")
	if group == "sam" {
		b.WriteString(dumpIntFuncs(root))
	}
	return b.String()
}

// ---- integer functions: parameters and locals are Int (or Bool), statements are assignments, if/else and returns; a return
// whose last value is not nil (an error) becomes `none`, the other returns become `some (values...)` ----

type intFuncSpec struct{ file, fn string }

var intFuncSpecs = []intFuncSpec{{"pkg/sam/toma.go", "checkArgs"}}

func (t *colTr) intExpr(e ast.Expr) string {
	if v, ok := t.vars[t.src(e)]; ok {
		return v
	}
	switch x := e.(type) {
	case *ast.ParenExpr:
		return t.intExpr(x.X)
	case *ast.Ident:
		if x.Name == "true" || x.Name == "false" {
			return x.Name
		}
		return x.Name
	case *ast.BasicLit:
		if x.Kind == token.INT {
			return x.Value
		}
	case *ast.UnaryExpr:
		if x.Op == token.SUB {
			return "(-" + t.intExpr(x.X) + ")"
		}
		if x.Op == token.NOT {
			return "(!" + t.intBool(x.X) + ")"
		}
	case *ast.BinaryExpr:
		switch x.Op {
		case token.ADD:
			return "(" + t.intExpr(x.X) + " + " + t.intExpr(x.Y) + ")"
		case token.SUB:
			return "(" + t.intExpr(x.X) + " - " + t.intExpr(x.Y) + ")"
		case token.MUL:
			return "(" + t.intExpr(x.X) + " * " + t.intExpr(x.Y) + ")"
		}
	}
	return "untranslatable"
}

func (t *colTr) intBool(e ast.Expr) string {
	switch x := e.(type) {
	case *ast.ParenExpr:
		return t.intBool(x.X)
	case *ast.Ident:
		return x.Name
	case *ast.UnaryExpr:
		if x.Op == token.NOT {
			return "(!" + t.intBool(x.X) + ")"
		}
	case *ast.BinaryExpr:
		switch x.Op {
		case token.LAND:
			return "(" + t.intBool(x.X) + " && " + t.intBool(x.Y) + ")"
		case token.LOR:
			return "(" + t.intBool(x.X) + " || " + t.intBool(x.Y) + ")"
		case token.EQL:
			return "(decide (" + t.intExpr(x.X) + " = " + t.intExpr(x.Y) + "))"
		case token.NEQ:
			return "(decide (" + t.intExpr(x.X) + " ≠ " + t.intExpr(x.Y) + "))"
		case token.LSS:
			return "(decide (" + t.intExpr(x.X) + " < " + t.intExpr(x.Y) + "))"
		case token.LEQ:
			return "(decide (" + t.intExpr(x.X) + " ≤ " + t.intExpr(x.Y) + "))"
		case token.GTR:
			return "(decide (" + t.intExpr(x.X) + " > " + t.intExpr(x.Y) + "))"
		case token.GEQ:
			return "(decide (" + t.intExpr(x.X) + " ≥ " + t.intExpr(x.Y) + "))"
		}
	}
	return "untranslatable"
}

// statements -> a Lean expression of type Option (...) given the continuation text for "fall through"
func (t *colTr) intStmts(stmts []ast.Stmt, vars []string, indent string, fall string) string {
	tuple := "(" + strings.Join(vars, ", ") + ")"
	if len(stmts) == 0 {
		return indent + fall
	}
	st, rest := stmts[0], stmts[1:]
	switch s := st.(type) {
	case *ast.AssignStmt:
		if len(s.Lhs) == 1 && len(s.Rhs) == 1 && containsStr(vars, identName(s.Lhs[0])) {
			return fmt.Sprintf("%slet %s := %s\n%s", indent, identName(s.Lhs[0]), t.intExpr(s.Rhs[0]), t.intStmts(rest, vars, indent, fall))
		}
	case *ast.ReturnStmt:
		n := len(s.Results)
		if n > 0 && identName(s.Results[n-1]) == "nil" {
			var vs []string
			for _, r := range s.Results[:n-1] {
				vs = append(vs, t.intExpr(r))
			}
			return indent + "some (" + strings.Join(vs, ", ") + ")"
		}
		return indent + "none"
	case *ast.IfStmt:
		// does either branch return? then the rest of the block is the continuation of the branches that do not
		returns := func(b *ast.BlockStmt) bool { return b != nil && len(b.List) > 0 && isReturn(b.List[len(b.List)-1]) }
		var elseB *ast.BlockStmt
		if eb, ok := s.Else.(*ast.BlockStmt); ok {
			elseB = eb
		} else if s.Else != nil {
			return indent + "untranslatable"
		}
		if returns(s.Body) || returns(elseB) {
			restTxt := t.intStmts(rest, vars, indent+"  ", fall)
			thenTxt := t.intStmts(s.Body.List, vars, indent+"  ", strings.TrimSpace(restTxt))
			elseTxt := restTxt
			if elseB != nil {
				elseTxt = t.intStmts(elseB.List, vars, indent+"  ", strings.TrimSpace(restTxt))
			}
			return fmt.Sprintf("%sif %s then (\n%s)\n%selse (\n%s)", indent, t.intBool(s.Cond), thenTxt, indent, elseTxt)
		}
		thenTxt := t.intStmts(s.Body.List, vars, indent+"    ", tuple)
		elseTxt := indent + "    " + tuple
		if elseB != nil {
			elseTxt = t.intStmts(elseB.List, vars, indent+"    ", tuple)
		}
		return fmt.Sprintf("%slet %s := if %s then (\n%s)\n%s  else (\n%s)\n%s", indent, tuple, t.intBool(s.Cond), thenTxt, indent, elseTxt, t.intStmts(rest, vars, indent, fall))
	}
	return indent + "untranslatable"
}

func isReturn(s ast.Stmt) bool {
	_, ok := s.(*ast.ReturnStmt)
	return ok
}

func dumpIntFuncs(root string) string {
	var b strings.Builder
	b.WriteString("\nnamespace Gofasta.Gen.Cols\n\n")
	for _, sp := range intFuncSpecs {
		fset := token.NewFileSet()
		matches, _ := filepath.Glob(filepath.Join(root, filepath.Dir(sp.file), "*.go"))
		var fd *ast.FuncDecl
		for _, f := range matches {
			if strings.HasSuffix(f, "_test.go") {
				continue
			}
			af, err := parser.ParseFile(fset, f, nil, 0)
			if err != nil {
				continue
			}
			for _, d := range af.Decls {
				if x, ok := d.(*ast.FuncDecl); ok && x.Name.Name == sp.fn && x.Recv == nil && x.Body != nil {
					fd = x
				}
			}
		}
		name := filepath.Base(filepath.Dir(sp.file)) + "_" + sp.fn
		if fd == nil {
			fmt.Fprintf(&b, "-- %s %s: not found\n", sp.file, sp.fn)
			continue
		}
		t := &colTr{fset: fset, vars: map[string]string{}}
		var params, vars []string
		for _, fl := range fd.Type.Params.List {
			for _, n := range fl.Names {
				params = append(params, n.Name)
				vars = append(vars, n.Name)
			}
		}
		// locals introduced by := at the top level
		body := fd.Body.List
		var pre strings.Builder
		for len(body) > 0 {
			as, ok := body[0].(*ast.AssignStmt)
			if !ok || as.Tok != token.DEFINE || len(as.Lhs) != 1 {
				break
			}
			fmt.Fprintf(&pre, "  let %s := %s\n", identName(as.Lhs[0]), t.intExpr(as.Rhs[0]))
			vars = append(vars, identName(as.Lhs[0]))
			body = body[1:]
		}
		fmt.Fprintf(&b, "/-- %s, %s: translated statement by statement (an error return is `none`) -/\n", sp.file, sp.fn)
		fmt.Fprintf(&b, "def %s (%s : Int) :=\n%s%s\n\n", name, strings.Join(params, " "), pre.String(), t.intStmts(body, vars, "  ", "untranslatable"))
	}
	b.WriteString("end Gofasta.Gen.Cols\n")
	return b.String()
}
