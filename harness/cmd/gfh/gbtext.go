package main

import (
	"encoding/hex"
	"errors"
	"fmt"
	"sort"
	"strconv"
	"strings"
	"time"
	"unicode/utf8"

	"github.com/virus-evolution/gofasta/pkg/genbank"
)

// Stream C14gb: the GenBank flat-file reader (genbank.ReadGenBank) and the location layer (Location.GetPositions,
// IsReverse) on texts.
//   kind=clean   : a record rendered from structured features inside the class for which reading back what was
//                  written is expected (fields gbrows / feats / origin carry the structured rows)
//   kind=thm     : a record in the class and layout of the Lean theorem gb_roundtrip (single-line quoted values, fixed header)
//   kind=quirk   : a legal record using something real flat files have and the reader mishandles (tagged)
//   kind=corrupt : a clean record after one or two structural corruptions
//   kind=tiny    : a few lines drawn from a pool of fragments
//   kind=loc     : one feature whose location string is a mutation of a valid one
//   kind=uniblock: an ORIGIN made of a block of consecutive code points (unicode.IsLetter on all of Unicode)
// The text travels hex-encoded in field `text`. The exec runs the real reader and writes a canonical dump of
// everything it returned into field `go` (see gbDump).

func init() {
	gens["C14gb"] = gbGen
	execs["C14gb"] = execGb
	execs["GBTXT"] = execGb
	shrinkers["GBTXT"] = shrinkGb
}

// ---------------------------------------------------------------------------------------------
// canonical dump

// runsOf: the positions as maximal runs of steps +1 or -1 ("a:b", or "a" for a run of one), greedy from the left
func runsOf(p []int) string {
	var parts []string
	for i := 0; i < len(p); {
		j := i
		if i+1 < len(p) && p[i+1] == p[i]+1 {
			for j+1 < len(p) && p[j+1] == p[j]+1 {
				j++
			}
		} else if i+1 < len(p) && p[i+1] == p[i]-1 {
			for j+1 < len(p) && p[j+1] == p[j]-1 {
				j++
			}
		}
		if j == i {
			parts = append(parts, fmt.Sprint(p[i]))
		} else {
			parts = append(parts, fmt.Sprintf("%d:%d", p[i], p[j]))
		}
		i = j + 1
	}
	return strings.Join(parts, ",")
}

// gbSkipLoc: a digit run of 7 to 19 digits could make GetPositions allocate for minutes; such locations are not
// handed to it (the Lean driver applies the same rule and prints S as well)
func gbSkipLoc(s string) bool {
	run := 0
	for i := 0; i <= len(s); i++ {
		if i < len(s) && s[i] >= '0' && s[i] <= '9' {
			run++
			continue
		}
		if run >= 7 && run <= 19 {
			return true
		}
		run = 0
	}
	return false
}

func gbErrClass(err error) string {
	var ne *strconv.NumError
	if errors.As(err, &ne) {
		kind := "syn"
		if ne.Err == strconv.ErrRange {
			kind = "rng"
		}
		return "E" + kind + "~" + hex.EncodeToString([]byte(ne.Num))
	}
	return "Eloc"
}

func gbPositions(l genbank.Location) (out string) {
	if gbSkipLoc(l.Representation) {
		return "S"
	}
	defer func() {
		if p := recover(); p != nil {
			out = "X"
		}
	}()
	p, err := l.GetPositions()
	if err != nil {
		return gbErrClass(err)
	}
	return "P" + runsOf(p)
}

func gbReverse(l genbank.Location) (out string) {
	if gbSkipLoc(l.Representation) {
		return "S"
	}
	defer func() {
		if p := recover(); p != nil {
			out = "X"
		}
	}()
	rev, err := l.IsReverse()
	if err != nil {
		return "E"
	}
	if rev {
		return "T"
	}
	return "F"
}

// gbDump: ok|O:<hex of ORIGIN, or - when nil>|F:<number of features, or - when nil> then one part per feature
//
//	|<hex Feature>;<hex Location.Representation>;<Info: - when nil, else hexkey=hexvalue,... sorted by key>;<positions>;<reverse>
func gbDump(g genbank.Genbank) string {
	var b strings.Builder
	b.WriteString("ok|O:")
	if g.ORIGIN == nil {
		b.WriteString("-")
	} else {
		b.WriteString(hex.EncodeToString(g.ORIGIN))
	}
	b.WriteString("|F:")
	if g.FEATURES == nil {
		b.WriteString("-")
	} else {
		fmt.Fprint(&b, len(g.FEATURES))
	}
	for _, f := range g.FEATURES {
		b.WriteString("|" + hex.EncodeToString([]byte(f.Feature)) + ";" + hex.EncodeToString([]byte(f.Location.Representation)) + ";")
		if f.Info == nil {
			b.WriteString("-")
		} else {
			keys := make([]string, 0, len(f.Info))
			for k := range f.Info {
				keys = append(keys, k)
			}
			sort.Strings(keys)
			for i, k := range keys {
				if i > 0 {
					b.WriteString(",")
				}
				b.WriteString(hex.EncodeToString([]byte(k)) + "=" + hex.EncodeToString([]byte(f.Info[k])))
			}
		}
		b.WriteString(";" + gbPositions(f.Location) + ";" + gbReverse(f.Location))
	}
	return b.String()
}

func execGb(r *RNG, c *Case) {
	raw, err := hex.DecodeString(c.Get("text"))
	if err != nil {
		c.Set("go", "!bad-case")
		return
	}
	text := string(raw)
	res := safeRun(20*time.Second, func() (string, error) {
		g, err := genbank.ReadGenBank(strings.NewReader(text))
		if err != nil {
			return "", err
		}
		return gbDump(g), nil
	})
	out := goField(res)
	c.Set("go", out)
	c.Tag(gbOutcomeTag(out))
}

// gbOutcomeTag: the outcome class of a case, for the distribution report
func gbOutcomeTag(out string) string {
	if strings.HasPrefix(out, "!") {
		return "o-" + out[1:]
	}
	parts := strings.Split(out, "|")
	if len(parts) < 3 {
		return "o-odd"
	}
	if parts[2] == "F:-" {
		return "o-ok-nofeatures"
	}
	cls := map[string]int{}
	for _, f := range parts[3:] {
		x := strings.Split(f, ";")
		if len(x) != 5 {
			return "o-odd"
		}
		switch {
		case strings.HasPrefix(x[3], "P") && x[4] == "X":
			cls["emptypos"]++
		case strings.HasPrefix(x[3], "P"):
			cls["pos"]++
		case x[3] == "X":
			cls["locpanic"]++
		case x[3] == "Eloc":
			cls["locerr"]++
		case strings.HasPrefix(x[3], "Esyn"):
			cls["numsyn"]++
		case strings.HasPrefix(x[3], "Erng"):
			cls["numrng"]++
		case x[3] == "S":
			cls["skipped"]++
		}
	}
	for _, k := range []string{"locpanic", "emptypos", "numrng", "numsyn", "locerr", "skipped"} {
		if cls[k] > 0 {
			return "o-ok-" + k
		}
	}
	return "o-ok-allpos"
}

// ---------------------------------------------------------------------------------------------
// structured records and their rendering

type gbQual struct {
	k, v        string
	quoted      bool
	chunks      []string // the value as split over lines (concatenation = v); nil = one line
	bare        bool     // no "=value" at all (/pseudo)
	wrapInProto bool     // the protocol row carries the pieces (kind=thm)
}

type gbFeat struct {
	key    string
	form   string   // range | join | comp | compjoin | joincomp ; "" = loc is free text
	segs   [][2]int // in the order written
	loc    string
	quals  []gbQual
	strand bool // the protocol row asks for the strand (IsReverse) to be checked as well
}

type gbOpts struct {
	crlf, noFinalEOL bool
	headers          []string // extra header sections between LOCUS and FEATURES
	afterFeatures    []string // lines between the feature table and ORIGIN (CONTIG, BASE COUNT)
	upper            bool     // ORIGIN in upper case
	mixCase          bool
	trailBlanks      bool
	noOrigin, noEnd  bool
	keyCol           int // spaces before the feature key (5)
	locCol           int // column of the location (21)
}

func gbLocStr(form string, segs [][2]int) string {
	seg := func(s [2]int) string { return fmt.Sprintf("%d..%d", s[0], s[1]) }
	var parts []string
	for _, s := range segs {
		if form == "joincomp" {
			parts = append(parts, "complement("+seg(s)+")")
		} else {
			parts = append(parts, seg(s))
		}
	}
	switch form {
	case "range":
		return parts[0]
	case "comp":
		return "complement(" + parts[0] + ")"
	case "join", "joincomp":
		return "join(" + strings.Join(parts, ",") + ")"
	default:
		return "complement(join(" + strings.Join(parts, ",") + "))"
	}
}

func gbSegsProto(segs [][2]int) string {
	var parts []string
	for _, s := range segs {
		parts = append(parts, fmt.Sprintf("%d-%d", s[0], s[1]))
	}
	return strings.Join(parts, "+")
}

func renderGbRecord(fs []gbFeat, origin string, o gbOpts) string {
	var b strings.Builder
	fmt.Fprintf(&b, "LOCUS       TESTGENOME %d bp ss-RNA     linear   VRL 01-JAN-2020\n", len(origin))
	for _, h := range o.headers {
		b.WriteString(h + "\n")
	}
	b.WriteString("FEATURES             Location/Qualifiers\n")
	for _, f := range fs {
		pad := o.locCol - o.keyCol - len(f.key)
		if pad < 1 {
			pad = 1
		}
		b.WriteString(strings.Repeat(" ", o.keyCol) + f.key + strings.Repeat(" ", pad) + f.loc + "\n")
		ind := strings.Repeat(" ", o.locCol)
		for _, q := range f.quals {
			if q.bare {
				b.WriteString(ind + "/" + q.k + "\n")
				continue
			}
			ch := q.chunks
			if ch == nil {
				ch = []string{q.v}
			}
			qt := ""
			if q.quoted {
				qt = "\""
			}
			for i, c := range ch {
				line := ind
				if i == 0 {
					line += "/" + q.k + "=" + qt
				}
				line += c
				if i == len(ch)-1 {
					line += qt
				}
				b.WriteString(line + "\n")
			}
		}
	}
	for _, h := range o.afterFeatures {
		b.WriteString(h + "\n")
	}
	if !o.noOrigin {
		b.WriteString("ORIGIN      \n")
		for i := 0; i < len(origin); i += 60 {
			fmt.Fprintf(&b, "%9d", i+1)
			for j := i; j < i+60 && j < len(origin); j += 10 {
				e := j + 10
				if e > len(origin) {
					e = len(origin)
				}
				b.WriteString(" " + origin[j:e])
			}
			if o.trailBlanks {
				b.WriteString("   ")
			}
			b.WriteString("\n")
		}
	}
	if !o.noEnd {
		b.WriteString("//\n")
	}
	out := b.String()
	if o.crlf {
		out = strings.ReplaceAll(out, "\n", "\r\n")
	}
	if o.noFinalEOL {
		out = strings.TrimSuffix(strings.TrimSuffix(out, "\n"), "\r")
	}
	return out
}

// protocol rows: every feature, in file order: hexkey~form~segs~hexk=hexv,...~hexlocation~checkstrand ; features joined by ';'
func gbRowsProto(fs []gbFeat) string {
	var rows []string
	for _, f := range fs {
		var qs []string
		for _, q := range f.quals {
			val := hex.EncodeToString([]byte(q.v))
			if q.chunks != nil && q.wrapInProto { // the pieces of a wrapped value, for the Lean rendering
				var hs []string
				for _, c := range q.chunks {
					hs = append(hs, hex.EncodeToString([]byte(c)))
				}
				val = strings.Join(hs, ".")
			}
			qs = append(qs, hex.EncodeToString([]byte(q.k))+"="+val)
		}
		loc := strings.Join(strings.Fields(f.loc), "") // continuation lines joined
		rows = append(rows, strings.Join([]string{hex.EncodeToString([]byte(f.key)), f.form, gbSegsProto(f.segs), strings.Join(qs, ","), hex.EncodeToString([]byte(loc)), map[bool]string{false: "0", true: "1"}[f.strand]}, "~"))
	}
	return strings.Join(rows, ";")
}

// the rows renderGenbank emits (name~form~segs~codon_start~translation) for the CDS features that carry the three
// qualifiers variants.CDSRegion2fromGenbank reads
func gbFeatsProto(fs []gbFeat) string {
	var rows []string
	for _, f := range fs {
		if f.key != "CDS" {
			continue
		}
		m := map[string]string{}
		for _, q := range f.quals {
			m[q.k] = q.v
		}
		if m["gene"] == "" || m["codon_start"] == "" || m["translation"] == "" {
			continue
		}
		rows = append(rows, strings.Join([]string{m["gene"], f.form, gbSegsProto(f.segs), m["codon_start"], m["translation"]}, "~"))
	}
	return strings.Join(rows, ";")
}

// ---------------------------------------------------------------------------------------------
// generation

const gbValueChars = "abcdefghijklmnopqrstuvwxyzABCDEFGHIJKLMNOPQRSTUVWXYZ0123456789 -_.,;:'()/[]+*%#@!?<>|~^&$"

func gbRandValue(r *RNG, n int) string {
	b := make([]byte, n)
	for i := range b {
		if r.Chance(1, 6) {
			b[i] = ' '
		} else {
			b[i] = r.Pick(gbValueChars)
		}
	}
	return string(b)
}

// split v at random points; in clean mode a chunk never starts or ends with a blank at a line break and is never empty
func gbChunks(r *RNG, v string, maxw int, clean bool) []string {
	if len(v) < 2 {
		return nil
	}
	var out []string
	for len(v) > 0 {
		w := r.Range(1, maxw)
		if w >= len(v) {
			out = append(out, v)
			break
		}
		if clean {
			for w < len(v) && (v[w-1] == ' ' || v[w] == ' ') {
				w++
			}
			if w >= len(v) {
				out = append(out, v)
				break
			}
		}
		out = append(out, v[:w])
		v = v[w:]
	}
	if len(out) < 2 {
		return nil
	}
	return out
}

func gbRandLoc(r *RNG, L int) (string, [][2]int) {
	form := r.PickStr([]string{"range", "range", "join", "comp", "compjoin", "joincomp"})
	n := 1
	if form == "join" || form == "compjoin" || form == "joincomp" {
		n = r.Range(1, 5)
		if r.Chance(1, 30) {
			n = r.Range(6, 40)
		}
	}
	var segs [][2]int
	for i := 0; i < n; i++ {
		a := r.Range(1, L)
		b := r.Range(a, gbMin(L, a+r.Range(0, 40)))
		if r.Chance(1, 12) {
			b = a // a one-base segment
		}
		segs = append(segs, [2]int{a, b})
	}
	if r.Chance(3, 4) { // mostly in genomic order (descending for the complement-of-each form)
		sort.Slice(segs, func(i, j int) bool { return segs[i][0] < segs[j][0] })
		if form == "joincomp" {
			for i, j := 0, len(segs)-1; i < j; i, j = i+1, j-1 {
				segs[i], segs[j] = segs[j], segs[i]
			}
		}
	}
	return form, segs
}

var gbKeys = []string{"gene", "CDS", "mat_peptide", "source", "5'UTR", "3'UTR", "misc_feature", "stem_loop", "sig_peptide", "ncRNA", "-", "regulatory"}
var gbQualKeys = []string{"note", "product", "db_xref", "protein_id", "locus_tag", "function", "organism", "mol_type", "standard_name", "inference", "EC_number", "experiment"}

func gbRandFeat(r *RNG, L int, idx int, genome string) gbFeat {
	f := gbFeat{key: r.PickStr(gbKeys)}
	f.form, f.segs = gbRandLoc(r, L)
	f.loc = gbLocStr(f.form, f.segs)
	used := map[string]bool{}
	add := func(q gbQual) {
		if used[q.k] {
			return
		}
		used[q.k] = true
		f.quals = append(f.quals, q)
	}
	if f.key == "CDS" || f.key == "gene" || r.Chance(1, 3) {
		add(gbQual{k: "gene", v: fmt.Sprintf("g%d", idx), quoted: true})
	}
	if f.key == "CDS" {
		add(gbQual{k: "codon_start", v: fmt.Sprint(r.Range(1, 3))})
		if r.Chance(1, 3) {
			add(gbQual{k: "transl_table", v: "11"})
		}
		tr := randSeq(r, r.Range(1, 150), "ACDEFGHIKLMNPQRSTVWY", false)
		q := gbQual{k: "translation", v: tr, quoted: true}
		// a real flat file fills columns 22..79: 58 characters of qualifier text, 14 of them taken by /translation="
		if len(tr) > 44 {
			q.chunks = []string{tr[:44]}
			for rest := tr[44:]; len(rest) > 0; {
				w := gbMin(58, len(rest))
				q.chunks = append(q.chunks, rest[:w])
				rest = rest[w:]
			}
		} else if r.Bool() {
			q.chunks = gbChunks(r, tr, 12, true)
		}
		add(q)
	}
	for n := r.Range(0, 3); n > 0; n-- {
		k := r.PickStr(gbQualKeys)
		v := gbRandValue(r, r.Range(1, 40))
		q := gbQual{k: k, v: v, quoted: true}
		if r.Chance(1, 5) { // a number or word without quotes
			q.quoted = false
			q.v = strings.Trim(strings.ReplaceAll(v, " ", ""), " ")
			if q.v == "" {
				q.v = "7"
			}
		} else if r.Chance(1, 2) {
			q.chunks = gbChunks(r, v, 14, true)
		}
		add(q)
	}
	if len(f.quals) == 0 {
		add(gbQual{k: "note", v: "x" + gbRandValue(r, r.Range(0, 6)), quoted: true})
	}
	// qualifiers in any order
	for i := len(f.quals) - 1; i > 0; i-- {
		j := r.Intn(i + 1)
		f.quals[i], f.quals[j] = f.quals[j], f.quals[i]
	}
	return f
}

var gbHeaderPool = [][]string{
	{"DEFINITION  Severe acute respiratory syndrome coronavirus 2 isolate Wuhan-Hu-1,", "            complete genome."},
	{"ACCESSION   MN908947"},
	{"VERSION     MN908947.3"},
	{"KEYWORDS    ."},
	{"SOURCE      synthetic construct", "  ORGANISM  synthetic construct", "            other sequences; artificial sequences."},
	{"REFERENCE   1  (bases 1 to 100)", "  AUTHORS   Wu,F., Zhao,S. and Yu,B.", "  TITLE     A new coronavirus associated with human respiratory disease", "  JOURNAL   Nature 579 (7798), 265-269 (2020)", "   PUBMED   32015508"},
	{"COMMENT     On Jan 17, 2020 this sequence version replaced MN908947.2.", "            ##Assembly-Data-START##", "            Assembly Method       :: Megahit v. V1.1.3", "            ##Assembly-Data-END##"},
	{"DBLINK      BioProject: PRJNA485481"},
}

func gbRandOpts(r *RNG) gbOpts {
	o := gbOpts{keyCol: 5, locCol: 21}
	o.crlf = r.Chance(1, 6)
	o.noFinalEOL = r.Chance(1, 6)
	for _, h := range gbHeaderPool {
		if r.Chance(1, 3) {
			o.headers = append(o.headers, h...)
		}
	}
	if r.Chance(1, 8) {
		o.afterFeatures = []string{r.PickStr([]string{"BASE COUNT       28 a     22 c     25 g     25 t", "CONTIG      join(AB000001.1:1..100)"})}
	}
	o.upper = r.Chance(1, 6)
	o.mixCase = r.Chance(1, 8)
	o.trailBlanks = r.Chance(1, 6)
	return o
}

func gbRandOrigin(r *RNG, o gbOpts) string {
	L := r.Range(30, 400)
	if r.Chance(1, 10) {
		L = r.PickInt([]int{1, 9, 10, 11, 59, 60, 61, 120})
	}
	if atScale(r, 40) {
		// scale: a genome whose record is larger than 64 KiB (any buffer a reader starts with is refilled more than once
		// while the ORIGIN lines go by)
		L = r.Range(52000, 120000)
	}
	alpha := "acgt"
	if r.Chance(1, 5) {
		alpha = "acgtnrykmswbdhv"
	}
	s := randSeq(r, L, alpha, false)
	if o.upper {
		s = strings.ToUpper(s)
	} else if o.mixCase {
		b := []byte(s)
		for i := range b {
			if r.Chance(1, 3) {
				b[i] -= 32
			}
		}
		s = string(b)
	}
	return s
}

func gbCleanRecord(r *RNG) ([]gbFeat, string, gbOpts) {
	o := gbRandOpts(r)
	origin := gbRandOrigin(r, o)
	var fs []gbFeat
	for i, n := 0, r.Range(1, 6); i < n; i++ {
		fs = append(fs, gbRandFeat(r, gbMax(len(origin), 10), i, origin))
	}
	if r.Chance(1, 4) {
		fs = append([]gbFeat{{key: "source", form: "range", segs: [][2]int{{1, len(origin)}}, loc: fmt.Sprintf("1..%d", len(origin)),
			quals: []gbQual{{k: "organism", v: "synthetic construct", quoted: true}, {k: "mol_type", v: "genomic RNA", quoted: true}}}}, fs...)
	}
	return fs, origin, o
}

func gbGen(r *RNG, id string) *Case {
	c := NewCase("GBTXT", id)
	c.NonTrv = true
	pick := r.Intn(100)
	switch {
	case pick < 30:
		fs, origin, o := gbCleanRecord(r)
		c.Set("kind", "clean").Set("gbrows", gbRowsProto(fs)).Set("feats", gbFeatsProto(fs)).Set("origin", origin)
		c.Set("text", hex.EncodeToString([]byte(renderGbRecord(fs, origin, o))))
		if o.crlf {
			c.Tag("gb-crlf")
		}
		if o.noFinalEOL {
			c.Tag("gb-no-final-newline")
		}
	case pick < 36:
		// exactly the class and the layout of the Lean theorem gb_roundtrip (Lemmas/GbRoundTrip.lean): the driver renders the
		// structured rows with the Lean `render` and insists on the same bytes
		fs, origin := gbThmRecord(r)
		c.Set("kind", "thm").Set("gbrows", gbRowsProto(fs)).Set("feats", gbFeatsProto(fs)).Set("origin", origin)
		c.Set("text", hex.EncodeToString([]byte(gbThmRender(fs, origin))))
	case pick < 42:
		txt, tag, rows, origin := gbQuirk(r)
		c.Set("kind", "quirk").Set("gbrows", rows).Set("feats", "").Set("origin", origin)
		c.Set("text", hex.EncodeToString([]byte(txt)))
		c.Tag("gb-legal-" + tag)
	case pick < 72:
		fs, origin, o := gbCleanRecord(r)
		txt := renderGbRecord(fs, origin, o)
		tags := map[string]bool{}
		for n := r.PickInt([]int{1, 1, 1, 2}); n > 0; n-- {
			var tag string
			txt, tag = gbCorrupt(r, txt, fs, origin)
			tags[tag] = true
		}
		for t := range tags {
			c.Tag("gb-bad-" + t)
		}
		c.Set("kind", "corrupt").Set("text", hex.EncodeToString([]byte(txt)))
	case pick < 80:
		c.Set("kind", "tiny").Set("text", hex.EncodeToString([]byte(gbTiny(r))))
	case pick < 84:
		c.Set("kind", "bytes").Set("text", hex.EncodeToString([]byte(gbBytes(r))))
	case pick < 97:
		c.Set("kind", "loc").Set("text", hex.EncodeToString([]byte(gbLocText(r))))
	default:
		blk := r.Intn(0x110000 / 2048)
		if r.Chance(1, 2) {
			blk = r.Intn(0x3400 / 2048) // where most of the small ranges are
		}
		c.Set("kind", "uniblock").SetInt("block", blk).Set("text", hex.EncodeToString([]byte(gbUniBlock(blk))))
	}
	return c
}

func gbThmRecord(r *RNG) ([]gbFeat, string) {
	origin := gbRandOrigin(r, gbOpts{mixCase: r.Chance(1, 4), upper: r.Chance(1, 6)})
	if r.Chance(1, 12) {
		origin = ""
	}
	var fs []gbFeat
	for i, n := 0, r.Range(1, 6); i < n; i++ {
		f := gbFeat{key: r.PickStr(append([]string{"a_feature_key_longer_than_the_column", "misc_difference_", "x"}, gbKeys...))}
		f.form, f.segs = gbRandLoc(r, gbMax(len(origin), 10))
		if r.Chance(1, 10) {
			f.segs[0] = [2]int{r.PickInt([]int{0, 9223372036854775807, 5}), r.PickInt([]int{0, 3})} // any numbers within int64, also start > end
		}
		f.loc = gbLocStr(f.form, f.segs)
		used := map[string]bool{}
		for k, n := 0, r.Range(1, 4); k < n; k++ {
			key := r.PickStr(append([]string{"gene", "codon_start", "translation", "a\"b", "/x", "k"}, gbQualKeys...))
			if used[key] {
				continue
			}
			used[key] = true
			q := gbQual{k: key, v: gbRandValue(r, r.Range(1, 30)), quoted: true}
			if r.Chance(1, 3) { // a value without blanks wrapped over several lines, as /translation is
				q.v = randSeq(r, r.Range(2, 200), "ACDEFGHIKLMNPQRSTVWY*-.,;:'()/[]", false)
				q.wrapInProto = true
				if len(q.v) > 44 && r.Bool() {
					q.chunks = []string{q.v[:44]}
					for rest := q.v[44:]; len(rest) > 0; {
						w := gbMin(58, len(rest))
						q.chunks = append(q.chunks, rest[:w])
						rest = rest[w:]
					}
				} else {
					q.chunks = gbChunks(r, q.v, 25, true)
				}
			}
			f.quals = append(f.quals, q)
		}
		fs = append(fs, f)
	}
	return fs, origin
}

func gbThmRender(fs []gbFeat, origin string) string {
	var b strings.Builder
	b.WriteString("LOCUS       GB\nFEATURES             Location/Qualifiers\n")
	for _, f := range fs {
		pad := 16 - len(f.key)
		if pad < 1 {
			pad = 1
		}
		b.WriteString("     " + f.key + strings.Repeat(" ", pad) + f.loc + "\n")
		for _, q := range f.quals {
			ch := q.chunks
			if ch == nil {
				ch = []string{q.v}
			}
			for i, c := range ch {
				line := strings.Repeat(" ", 21)
				if i == 0 {
					line += "/" + q.k + "=\""
				}
				line += c
				if i == len(ch)-1 {
					line += "\""
				}
				b.WriteString(line + "\n")
			}
		}
	}
	b.WriteString("ORIGIN      \n")
	for i := 0; i < len(origin); i += 60 {
		fmt.Fprintf(&b, "%9d", i+1)
		for j := i; j < i+60 && j < len(origin); j += 10 {
			b.WriteString(" " + origin[j:gbMin(j+10, len(origin))])
		}
		b.WriteString("\n")
	}
	b.WriteString("//\n")
	return b.String()
}

func gbUniBlock(blk int) string {
	var b strings.Builder
	b.WriteString("ORIGIN\n")
	for i := 0; i < 2048; i++ {
		cp := rune(blk*2048 + i)
		if cp >= 0xD800 && cp <= 0xDFFF {
			// a surrogate cannot be encoded: write the three bytes a careless encoder would produce (invalid UTF-8)
			b.Write([]byte{0xE0 | byte(cp>>12), 0x80 | byte(cp>>6)&0x3F, 0x80 | byte(cp)&0x3F})
		} else {
			var buf [4]byte
			n := utf8.EncodeRune(buf[:], cp)
			b.Write(buf[:n])
		}
		if i%64 == 63 {
			b.WriteString("\n ")
		}
	}
	b.WriteString("\n//\n")
	return b.String()
}

// ---------------------------------------------------------------------------------------------
// legal records the reader is known or suspected to mishandle

func gbQuirk(r *RNG) (text, tag, rows, origin string) {
	fs, origin, o := gbCleanRecord(r)
	at := r.Intn(len(fs))
	f := &fs[at]
	switch r.Intn(16) {
	case 14:
		tag = "join-across-the-origin-of-a-circular-genome"
		f.form, f.segs, f.strand = "join", [][2]int{{len(origin) - 3, len(origin)}, {1, 5}}, true
		f.loc = gbLocStr(f.form, f.segs)
	case 13:
		tag = "one-base-complement"
		f.form, f.segs, f.strand = "comp", [][2]int{{7, 7}}, true
		f.loc = "complement(7..7)"
	case 0:
		tag = "feature-without-qualifiers"
		f.quals = nil
	case 1:
		tag = "equals-sign-in-value"
		f.quals = append(f.quals, gbQual{k: "note", v: "ratio a=b " + gbRandValue(r, 5) + "=", quoted: true})
		gbDedup(f)
	case 2:
		tag = "doubled-quote-in-value"
		// the flat file writes a quote inside a value as two quotes: the value is  say "hi" now
		f.quals = []gbQual{{k: "note", v: "say \"hi\" now", quoted: true, chunks: []string{"say \"\"hi\"\" now"}}}
	case 3:
		tag = "value-wrapped-at-a-blank"
		// the line break of a wrapped free-text value stands for the blank between two words
		f.quals = []gbQual{{k: "note", v: "first line second line third", quoted: true, chunks: []string{"first line", "second line", "third"}}}
		text = renderGbRecord(fs, origin, o)
		text = strings.Replace(text, "first linesecond linethird", "first line\n"+strings.Repeat(" ", 21)+"second line\n"+strings.Repeat(" ", 21)+"third", 1)
	case 4:
		tag = "location-wrapped-over-lines"
		f.form, f.segs = "join", [][2]int{{1, 5}, {7, 9}, {12, 20}, {22, 24}}
		f.loc = "join(1..5,7..9,\n" + strings.Repeat(" ", 21) + "12..20,22..24)"
	case 5:
		tag = "partial-location"
		f.form, f.segs = "range", [][2]int{{1, 9}}
		f.loc = r.PickStr([]string{"<1..9", "1..>9", "<1..>9", "join(<1..5,7..9)", "complement(<1..9)", "join(1..5,7..>9)"})
		if strings.HasPrefix(f.loc, "join") {
			f.form, f.segs = "join", [][2]int{{1, 5}, {7, 9}}
		} else if strings.HasPrefix(f.loc, "comp") {
			f.form = "comp"
		}
	case 6:
		tag = "single-position"
		f.form, f.segs = "range", [][2]int{{7, 7}}
		f.loc = "7"
	case 7:
		tag = "join-of-mixed-strands"
		f.form, f.segs = "", nil
		f.loc = r.PickStr([]string{"join(complement(1..5),7..9)", "join(1..5,complement(7..9))", "join(12..14,complement(join(3..5,7..9)))"})
	case 8:
		tag = "repeated-qualifier"
		f.quals = append(f.quals, gbQual{k: "db_xref", v: "taxon:1", quoted: true}, gbQual{k: "db_xref", v: "GeneID:2", quoted: true})
	case 9:
		tag = "valueless-qualifier"
		f.quals = append(f.quals, gbQual{k: "pseudo", bare: true})
		if r.Bool() {
			fs[len(fs)-1].quals = append(fs[len(fs)-1].quals, gbQual{k: "pseudo", bare: true})
			gbDedup(&fs[len(fs)-1])
		}
		gbDedup(f)
	case 10:
		tag = "site-between-bases"
		f.form, f.segs = "", nil
		f.loc = r.PickStr([]string{"5^6", "order(1..5,7..9)", "J00194.1:1..9", "join(1..5,J00194.1:7..9)", "1.5..9", "(1.5)..9"})
	case 11:
		tag = "empty-value"
		f.quals = append(f.quals, gbQual{k: "note", v: "", quoted: true})
		gbDedup(f)
	case 12:
		tag = "blank-line-in-feature-table"
		text = renderGbRecord(fs, origin, o)
		text = strings.Replace(text, "\n     ", "\n"+r.PickStr([]string{" ", "     ", "\t"})+"\n     ", 1)
	default:
		tag = "feature-key-16-characters"
		// the key column is 16 wide: a key that fills it leaves one blank before the location; longer keys do not exist
		f.key = "misc_difference_"
	}
	if text == "" {
		text = renderGbRecord(fs, origin, o)
	}
	return text, tag, gbRowsProto(fs), origin
}

func gbDedup(f *gbFeat) {
	seen := map[string]int{}
	var out []gbQual
	for _, q := range f.quals {
		if i, ok := seen[q.k]; ok {
			out[i] = q
			continue
		}
		seen[q.k] = len(out)
		out = append(out, q)
	}
	f.quals = out
}

// ---------------------------------------------------------------------------------------------
// corruptions of a clean record

func gbCorrupt(r *RNG, txt string, fs []gbFeat, origin string) (string, string) {
	eol := "\n"
	if strings.Contains(txt, "\r\n") {
		eol = "\r\n"
	}
	lines := strings.Split(txt, eol)
	find := func(pred func(string) bool) []int {
		var ix []int
		for i, l := range lines {
			if pred(l) {
				ix = append(ix, i)
			}
		}
		return ix
	}
	pickLine := func(pred func(string) bool) int {
		ix := find(pred)
		if len(ix) == 0 {
			return -1
		}
		return ix[r.Intn(len(ix))]
	}
	isFeat := func(l string) bool {
		return strings.HasPrefix(l, "     ") && len(l) > 5 && l[5] != ' ' && len(strings.Fields(l)) == 2
	}
	isQual := func(l string) bool {
		return strings.HasPrefix(strings.TrimSpace(l), "/") && strings.HasPrefix(l, "          ")
	}
	isSeq := func(l string) bool {
		f := strings.Fields(l)
		return len(f) >= 2 && len(f[0]) > 0 && f[0][0] >= '0' && f[0][0] <= '9' && strings.HasPrefix(l, " ")
	}
	join := func() string { return strings.Join(lines, eol) }
	del := func(i int) { lines = append(lines[:i], lines[i+1:]...) }
	ins := func(i int, l ...string) { lines = append(lines[:i], append(append([]string{}, l...), lines[i:]...)...) }
	setLoc := func(i int, f func(string) string) {
		l := lines[i]
		j := strings.LastIndex(l, " ")
		lines[i] = l[:j+1] + f(l[j+1:])
	}
	switch r.Intn(40) {
	case 0:
		if i := pickLine(func(l string) bool { return strings.HasPrefix(l, "FEATURES") }); i >= 0 {
			del(i)
		}
		return join(), "no-FEATURES-line"
	case 1:
		if i := pickLine(func(l string) bool { return strings.HasPrefix(l, "ORIGIN") }); i >= 0 {
			del(i)
		}
		return join(), "no-ORIGIN-line"
	case 2:
		if i := pickLine(func(l string) bool { return l == "//" }); i >= 0 {
			del(i)
		}
		return join(), "no-terminator"
	case 3:
		if i := pickLine(isFeat); i >= 0 {
			f := strings.Fields(lines[i])
			lines[i] = strings.Repeat(" ", r.PickInt([]int{0, 0, 1, 3, 4, 6, 21})) + f[0] + strings.Repeat(" ", r.Range(1, 12)) + f[1]
		}
		return join(), "key-at-wrong-column"
	case 4:
		if i := pickLine(isFeat); i >= 0 {
			setLoc(i, func(s string) string {
				switch r.Intn(5) {
				case 0:
					return strings.Replace(s, ")", "", 1)
				case 1:
					return s + ")"
				case 2:
					return "(" + s
				case 3:
					return strings.Replace(s, "(", "((", 1)
				}
				return strings.Replace(s, "(", "", 1)
			})
		}
		return join(), "unbalanced-parentheses"
	case 5:
		if i := pickLine(isFeat); i >= 0 {
			setLoc(i, func(s string) string {
				return r.PickStr([]string{"join(1..5,7..9", "join(", "join()", "join(1..5,", "complement(", "complement()", "complement(join(1..5,7..9)", "join(complement(1..5)", "join(complement(1..5),complement(7..9"})
			})
		}
		return join(), "join-not-closed"
	case 6:
		if i := pickLine(isFeat); i >= 0 {
			setLoc(i, func(s string) string {
				b := []byte(s)
				var dig []int
				for k := range b {
					if b[k] >= '0' && b[k] <= '9' {
						dig = append(dig, k)
					}
				}
				if len(dig) == 0 {
					return "x..y"
				}
				k := dig[r.Intn(len(dig))]
				b[k] = r.Pick("xO-+._ ,e")
				return string(b)
			})
		}
		return join(), "non-numeric-position"
	case 7:
		if i := pickLine(isFeat); i >= 0 {
			setLoc(i, func(s string) string {
				return r.PickStr([]string{"9..1", "join(9..1,5..2)", "complement(9..1)", "complement(join(9..1))", "join(complement(9..1))", "join(1..3,9..5)", "0..0", "5..5", "0..3"})
			})
		}
		return join(), "start-after-end"
	case 8:
		if i := pickLine(isFeat); i >= 0 {
			lines[i] = strings.TrimRight(lines[i][:strings.LastIndex(lines[i], " ")], " ")
			if r.Bool() {
				lines[i] += "   "
			}
		}
		return join(), "empty-location"
	case 9:
		if i := pickLine(func(l string) bool { return isQual(l) && strings.HasSuffix(l, "\"") }); i >= 0 {
			lines[i] = strings.TrimSuffix(lines[i], "\"")
		}
		return join(), "quote-never-closed"
	case 10:
		if i := pickLine(func(l string) bool { return strings.HasPrefix(l, "FEATURES") }); i >= 0 {
			q := []string{strings.Repeat(" ", 21) + "/gene=\"early\""}
			if r.Bool() {
				q = append(q, strings.Repeat(" ", 21)+"/note=\"second\"")
			}
			ins(i+1, q...)
		}
		return join(), "qualifier-before-any-feature"
	case 11:
		if i := pickLine(isSeq); i >= 0 {
			b := []byte(lines[i])
			k := r.Range(10, len(b)-1)
			rep := r.PickStr([]string{"x", "*", "-", "7", "é", "\xe9", "ß", "µ", "√", "Ω", "Z", "\x00", "文", "\xf0\x9f\x98\x80", "٣", "ª"})
			lines[i] = string(b[:k]) + rep + string(b[k+1:])
		}
		return join(), "origin-foreign-symbol"
	case 12:
		if i := pickLine(isSeq); i >= 0 {
			f := strings.Fields(lines[i])
			switch r.Intn(3) {
			case 0:
				lines[i] = strings.Join(f[1:], " ")
			case 1:
				lines[i] = strings.Join(f[1:], "")
			default:
				lines[i] = "        " + strings.Join(f[1:], " ")
			}
		}
		return join(), "origin-without-number"
	case 13:
		fs2, origin2, o2 := gbCleanRecord(r)
		switch r.Intn(4) {
		case 0:
			o2.noOrigin = true
		case 1:
			fs2 = fs2[:0]
		case 2:
			o2.noEnd = true
		}
		second := renderGbRecord(fs2, origin2, o2)
		if eol == "\r\n" && !strings.Contains(second, "\r\n") {
			second = strings.ReplaceAll(second, "\n", "\r\n")
		}
		if !strings.HasSuffix(txt, "\n") {
			txt += eol
		}
		return txt + second, "two-records"
	case 14:
		return r.PickStr([]string{"", "\n", "\r\n", "\n\n\n", " ", "//", "//\n", "\r"}), "empty-file"
	case 15:
		b := []byte(txt)
		for n := r.Range(1, 3); n > 0 && len(b) > 0; n-- {
			k := r.Intn(len(b))
			if r.Bool() {
				b[k] = 0
			} else {
				b = append(b[:k], append([]byte{0}, b[k:]...)...)
			}
		}
		return string(b), "NUL-bytes"
	case 16:
		n := r.PickInt([]int{65535, 65536, 70000, 1<<20 - 2, 1<<20 - 1, 1 << 20, 1<<20 + 1, 1100000})
		i := r.Intn(len(lines))
		if r.Chance(1, 3) {
			if j := pickLine(isQual); j >= 0 {
				i = j
			}
		}
		pad := n - len(lines[i])
		if eol == "\r\n" && r.Bool() {
			pad-- // the \r counts
		}
		if pad > 0 {
			lines[i] += strings.Repeat(r.PickStr([]string{"a", " ", "acgt ", "x"}), pad)[:pad]
		}
		return join(), fmt.Sprintf("long-line-%d", n)
	case 17:
		if i := pickLine(func(l string) bool { return isFeat(l) || isQual(l) }); i >= 0 {
			ins(i, r.PickStr([]string{" ", "     ", "\t", strings.Repeat(" ", 21), " \t "}))
		}
		return join(), "blank-line-in-features"
	case 18:
		i := r.Intn(len(lines))
		ins(i, "", "")
		return join(), "empty-lines"
	case 19:
		b := []byte(txt)
		k := r.Intn(len(b) + 1)
		rep := r.PickStr([]string{"\xc2\xa0", "\xe2\x80\xa8", "\xc2\x85", "\xe3\x80\x80", "\xff", "\xc2", "\xe2\x80", "\xa0", "\xef\xbf\xbd", "\xed\xa0\x80", "\xc0\xaf", "\xf4\x90\x80\x80", "é", "\xe1\x9a\x80"})
		if r.Bool() { // in place of a blank
			var sp []int
			for j := range b {
				if b[j] == ' ' {
					sp = append(sp, j)
				}
			}
			if len(sp) > 0 {
				k = sp[r.Intn(len(sp))]
				return string(b[:k]) + rep + string(b[k+1:]), "non-ascii-bytes"
			}
		}
		return string(b[:k]) + rep + string(b[k:]), "non-ascii-bytes"
	case 20:
		if r.Bool() {
			return strings.ReplaceAll(txt, "     ", "\t"), "tabs"
		}
		if i := pickLine(func(l string) bool { return isFeat(l) || isQual(l) }); i >= 0 {
			lines[i] = strings.Replace(lines[i], " ", "\t", r.Range(1, 3))
		}
		return join(), "tabs"
	case 21:
		if i := pickLine(func(l string) bool { return isFeat(l) && strings.Contains(l, ",") }); i >= 0 {
			lines[i] = strings.Replace(lines[i], ",", ", ", 1)
		}
		return join(), "blank-inside-location"
	case 22:
		if i := pickLine(func(l string) bool { return strings.HasPrefix(l, "ORIGIN") }); i >= 0 {
			extra := []string{"FEATURES             Location/Qualifiers"}
			if r.Bool() {
				extra = append(extra, "     gene            2..4", strings.Repeat(" ", 21)+"/gene=\"late\"")
			}
			if r.Bool() {
				ins(i, extra...)
			} else {
				lines = append(lines, extra...)
			}
		}
		return join(), "second-FEATURES-section"
	case 23:
		i := r.Intn(len(lines))
		switch r.Intn(3) {
		case 0:
			lines[i] += "\r"
		case 1:
			k := r.Intn(len(lines[i]) + 1)
			lines[i] = lines[i][:k] + "\r" + lines[i][k:]
		default:
			lines[i] = "\r" + lines[i]
		}
		return join(), "stray-CR"
	case 24:
		if i := pickLine(isFeat); i >= 0 {
			lines[i] += r.PickStr([]string{" extra", "  /x", " 1..2"})
		}
		return join(), "feature-line-with-three-fields"
	case 25:
		if i := pickLine(isQual); i >= 0 {
			lines[i] = strings.Repeat(" ", 21) + r.PickStr([]string{"/=\"x\"", "/", "/=", "//", "/\"q\"=1", "/a=b=c", "/k=\"a\"b\"c\"", "/ k = v", "/k\"=v", "/=\"open"})
		}
		return join(), "odd-qualifier"
	case 26:
		pre := r.PickStr([]string{"     gene            1..3", "some text", strings.Repeat(" ", 21) + "/note=\"before\"", "  1 acgt", "\xef\xbb\xbf", "; comment", "#!genbank"})
		if pre == "\xef\xbb\xbf" {
			return pre + txt, "BOM"
		}
		return pre + eol + txt, "text-before-LOCUS"
	case 27:
		if r.Bool() {
			return strings.Replace(txt, "FEATURES", r.PickStr([]string{"features", "Features", "FEATURE", "FEATURESX", " FEATURES", "FEATURES\t"}), 1), "header-word-changed"
		}
		return strings.Replace(txt, "ORIGIN", r.PickStr([]string{"origin", "Origin", "ORIGINS", " ORIGIN", "ORIGIN1"}), 1), "header-word-changed"
	case 28:
		if i := pickLine(isFeat); i >= 0 {
			setLoc(i, func(s string) string {
				return r.PickStr([]string{"1..99999999999999999999", "99999999999999999999..5", "join(1..2,3..99999999999999999999x)", "join(1..2,3..9x999999999999999999999)",
					"-3..5", "+3..+5", "complement(-5..-3)", "join(-2..2)", "1..-1", "complement(184467440737095516150..3)", "00000000000000000000007..9", "1..2..3", "1...5", "1....5", "..5", "5..", "..",
					"complement(1..5,7..9)", "join(1..5..7)", "join(5)", "join(x)", "complement(5)", "complement(x..5)", "complement(5..x)", "join(1..2,,3..4)", "join(1..2,)", "join(,1..2)"})
			})
		}
		return join(), "odd-numbers"
	case 29:
		k := r.Intn(len(txt) + 1)
		return txt[:k], "truncated"
	case 30:
		i := r.Intn(len(lines))
		switch r.Intn(3) {
		case 0:
			del(i)
		case 1:
			ins(i, lines[i])
		default:
			j := r.Intn(len(lines))
			lines[i], lines[j] = lines[j], lines[i]
		}
		return join(), "line-dropped-doubled-or-swapped"
	case 31:
		b := []byte(txt)
		if len(b) > 0 {
			k := r.Intn(len(b))
			b[k] = byte(r.Intn(256))
		}
		return string(b), "random-byte"
	case 32:
		if i := pickLine(isFeat); i >= 0 {
			setLoc(i, func(s string) string {
				return r.PickStr([]string{"abc", "j", "joi", "join", "comp", "xyz1", "complement", "joinx(1..3)", "compx(1..3)", "jo(in(1..2))", "join((1..2))", "complement((1..2))", "((", "))", "()", "(())", "a(b(c))",
					"join(complement(1..5),7..9)", "complement(complement(1..5))", "join(join(1..5,7..9))", "join(join(1..5),join(7..9))", "complement(join(1..5),join(7..9))",
					"complement(join(complement(1..5)))", "join(complement(join(1..5,7..9)),complement(join(11..12)))", "x(join(1..5))", "join(x(1..5))", "join(1..5)),(", ")join(1..5)(", "join(1..5)x", "complement(1..5)))", "(1..5)", "((1..5))",
					"1..5)", "1..5,7..9", "1..5(", "12", "1", "1.5", "<1..5", "1..>5"})
			})
		}
		return join(), "odd-location-shape"
	case 33:
		if i := pickLine(isQual); i >= 0 {
			lines[i] = lines[i][21:]
			if r.Bool() {
				lines[i] = "  " + lines[i]
			}
		}
		return join(), "qualifier-at-wrong-column"
	case 34:
		if i := pickLine(isQual); i >= 0 {
			ins(i+1, r.PickStr([]string{strings.Repeat(" ", 21) + "two words", strings.Repeat(" ", 21) + "oneword", strings.Repeat(" ", 21) + "\"", strings.Repeat(" ", 21) + "a \"b\" c", "     x               y"}))
		}
		return join(), "stray-text-line"
	case 35:
		if i := pickLine(isSeq); i >= 0 {
			lines[i] = strings.ToUpper(strings.TrimLeft(lines[i], " 0123456789"))
		}
		return join(), "origin-line-starts-upper-case"
	case 36:
		// the last line is a feature or qualifier line (file cut inside the table)
		if i := pickLine(func(l string) bool { return strings.HasPrefix(l, "ORIGIN") }); i >= 0 {
			lines = lines[:i]
			if r.Bool() && len(lines) > 2 {
				lines = lines[:len(lines)-r.Range(0, 2)]
			}
		}
		return strings.Join(lines, eol) + r.PickStr([]string{"", eol}), "ends-inside-feature-table"
	case 37:
		if i := pickLine(func(l string) bool { return strings.HasPrefix(l, "FEATURES") }); i >= 0 {
			j := i + 1
			for j < len(lines) && !strings.HasPrefix(lines[j], "ORIGIN") && lines[j] != "//" {
				j++
			}
			lines = append(lines[:i+1], lines[j:]...)
		}
		return join(), "empty-feature-table"
	case 38:
		if i := pickLine(isQual); i >= 0 {
			lines[i] = strings.Replace(lines[i], "=", r.PickStr([]string{" = ", "", "==", ":"}), 1)
		}
		return join(), "qualifier-separator-changed"
	default:
		if i := pickLine(isFeat); i >= 0 {
			f := strings.Fields(lines[i])
			lines[i] = "     " + r.PickStr([]string{"/gene", "Cds", "9", "\"", "CDS/", "=", "é"}) + strings.Repeat(" ", 12) + f[1]
		}
		return join(), "odd-feature-key"
	}
}

// ---------------------------------------------------------------------------------------------
// tiny texts and location mutations

var gbTinyPool = []string{
	"LOCUS       X 10 bp", "DEFINITION  d.", "FEATURES             Location/Qualifiers", "FEATURES", "ORIGIN", "ORIGIN      ", "//", "",
	"     gene            1..5", "     CDS             join(1..5,7..9)", "     CDS             complement(3..8)", "     x y", "     x y z", "     x",
	"                     /gene=\"g\"", "                     /codon_start=1", "                     /note=\"open", "                     closed\"", "                     /pseudo",
	"                     /translation=\"MK", "                     LV\"", "   ", "\t", "        1 acgtacgtac gt", "acgt", "ACGT", "        1 ACGT", "1", " /", "/", "                     /=", "\"",
	"                     word", "                     two words", "                     /note=\"x\xe2\x80\xa8", "     gene\xc2\xa01..5", "     gene 1..5\xe3\x80\x80", "\xe2\x80\xa9/k=v\xc2\x85",
	"     gene            complement(2..4)", "     CDS             join(complement(4..6),complement(1..2))", "                     /gene=\"h\"", "                     /note=\"a b\"", "                     /note=\"a", "                     b c", "     mat_peptide     3..9", "     gene            ", "X", "Z 1..2", "  a b", "     a\xc2\xa0b c", "\xc2\xa0", " \xe2\x80\xa8 ", " é è", " \xff \xfe",
}

// gbBytes: lines over an alphabet of bytes that matter to the UTF-8 decoder, to unicode.IsSpace / IsLetter and to the
// reader (blank, slash, quote, equals sign), inside a feature table and inside an ORIGIN
func gbBytes(r *RNG) string {
	alpha := []string{"\xc2", "\xa0", "\x85", "\xe2", "\x80", "\xa8", "\xa9", "\xaf", "\x9f", "\xe1", "\x9a", "\xe3", "\xe0", "\xed", "\xf0", "\x90", "\xf4", "\x8f", "\xbf", "\xff", "\xc0", "\xc3", "\xa9",
		"\xc2\xa0", "\xe2\x80\xa8", "\xe2\x80\x8a", "\xe2\x80\x8b", "\xe1\x9a\x80", "\xe3\x80\x80", "\xe2\x81\x9f", "\xc2\x85", "\xef\xbf\xbd", "\xf0\x9f\x98\x80", "\xf0\x90\x80\x80", "\xed\x9f\xbf", "\xed\xa0\x80", "\xe0\xa0\x80", "\xe0\x9f\xbf", "\xf4\x8f\xbf\xbf", "\xf4\x90\x80\x80",
		" ", " ", " ", "  ", "\t", "\v", "\f", "\r", "\x00", "/", "/", "\"", "=", "a", "b", "Z", "1", "..", "(", ")", ","}
	line := func() string {
		var b strings.Builder
		for n := r.Range(1, 8); n > 0; n-- {
			b.WriteString(r.PickStr(alpha))
		}
		return b.String()
	}
	var b strings.Builder
	if r.Chance(1, 6) {
		b.WriteString(line() + "\n")
	}
	b.WriteString("FEATURES             Location/Qualifiers\n")
	if r.Chance(2, 3) {
		b.WriteString("     CDS             1..5\n")
	}
	for n := r.Range(1, 4); n > 0; n-- {
		switch r.Intn(4) {
		case 0:
			b.WriteString("                     /note=\"" + line() + "\n")
		case 1:
			b.WriteString("                     /" + line() + "\n")
		case 2:
			b.WriteString("     " + line() + "\n")
		default:
			b.WriteString(line() + "\n")
		}
	}
	b.WriteString("ORIGIN\n")
	for n := r.Range(0, 3); n > 0; n-- {
		b.WriteString(" " + line() + "\n")
	}
	return b.String()
}

func gbTiny(r *RNG) string {
	var b strings.Builder
	n := r.Range(0, 9)
	eol := r.PickStr([]string{"\n", "\n", "\n", "\r\n"})
	if r.Chance(2, 3) {
		b.WriteString("FEATURES             Location/Qualifiers" + eol)
	}
	for i := 0; i < n; i++ {
		b.WriteString(r.PickStr(gbTinyPool))
		if i < n-1 || r.Chance(4, 5) {
			b.WriteString(eol)
		}
	}
	return b.String()
}

const gbLocAlphabet = "()()..,,0123456789joincomplement<>-+^x: "

func gbLocText(r *RNG) string {
	form, segs := gbRandLoc(r, 300)
	s := gbLocStr(form, segs)
	if r.Chance(1, 4) { // deeper nesting than the five shapes
		inner := gbLocStr(gbRandLocForm(r), segs)
		switch r.Intn(4) {
		case 0:
			s = "complement(" + inner + ")"
		case 1:
			s = "join(" + inner + "," + s + ")"
		case 2:
			s = "join(complement(" + inner + "),complement(" + s + "))"
		default:
			s = "join(" + s + ",complement(" + inner + "))"
		}
	}
	b := []byte(s)
	for n := r.PickInt([]int{0, 1, 1, 1, 2, 3}); n > 0 && len(b) > 0; n-- {
		k := r.Intn(len(b))
		switch r.Intn(4) {
		case 0:
			b = append(b[:k], b[k+1:]...)
		case 1:
			b = append(b[:k], append([]byte{r.Pick(gbLocAlphabet)}, b[k:]...)...)
		case 2:
			b[k] = r.Pick(gbLocAlphabet)
		default: // cut a slice out
			j := gbMin(len(b), k+r.Range(1, 6))
			b = append(b[:k], b[j:]...)
		}
	}
	loc := string(b)
	q := "                     /gene=\"g\"\n"
	if r.Chance(1, 4) {
		q = ""
	}
	return "FEATURES             Location/Qualifiers\n     CDS             " + loc + "\n" + q + "ORIGIN\n        1 acgt\n//\n"
}

func gbRandLocForm(r *RNG) string {
	return r.PickStr([]string{"range", "join", "comp", "compjoin", "joincomp"})
}

// ---------------------------------------------------------------------------------------------
// shrinking: drop lines, then bytes

func shrinkGb(c *Case) []*Case {
	raw, err := hex.DecodeString(c.Get("text"))
	if err != nil {
		return nil
	}
	var out []*Case
	mk := func(t []byte) {
		n := cloneCase(c)
		n.Set("text", hex.EncodeToString(t)).Set("kind", "raw").Set("gbrows", "").Set("feats", "")
		out = append(out, n)
	}
	lines := strings.SplitAfter(string(raw), "\n")
	for i := range lines {
		mk([]byte(strings.Join(append(append([]string{}, lines[:i]...), lines[i+1:]...), "")))
	}
	if len(raw) <= 400 {
		for i := range raw {
			mk(append(append([]byte{}, raw[:i]...), raw[i+1:]...))
		}
	}
	return out
}

func gbMin(a, b int) int {
	if a < b {
		return a
	}
	return b
}

func gbMax(a, b int) int {
	if a > b {
		return a
	}
	return b
}
