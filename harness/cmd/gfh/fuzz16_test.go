package main

import (
	"strings"
	"testing"
)

// FuzzReaders is the coverage-guided half of stream C16fuzz: Go's native fuzzer mutates byte streams, guided by the
// coverage of the five FASTA readers; the target itself only insists on totality (no panic, no hang). Every input the
// fuzzer keeps (new coverage) is afterwards replayed as a C16 case against the Lean model and specification.
func FuzzReaders(f *testing.F) {
	for _, s := range []string{
		">a\nACGT\n>b\nACGT\n",
		">a desc\r\nAC\r\nGT\r\n>b\r\nACGT",
		">a\nAC-N\n\n>b x\nRYKM\n",
		"ACGT\n>a\nACGT\n",
		">\nACGT\n",
		">a\nACGT\n>b\nACG\n",
		">a\nAXGT\n",
		"",
		"\n\n",
		">a\n>b\nAC\n",
	} {
		f.Add([]byte(s), false)
		f.Add([]byte(s), true)
	}
	f.Fuzz(func(t *testing.T, data []byte, hard bool) {
		if len(data) > 4096 {
			return
		}
		text := string(data)
		for i, res := range []result{
			runPlainReader(text),
			runEncReader(text, hard, false),
			runEncReader(text, hard, true),
			runListReader(text, hard),
			runFindReference(text, "a"),
		} {
			if strings.HasPrefix(res.status, "panic") || res.status == "timeout" {
				t.Fatalf("reader %d: %s", i, res.status)
			}
		}
	})
}
