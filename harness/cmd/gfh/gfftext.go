package main

import (
	"fmt"
	"sort"
	"strconv"
	"strings"
	"time"

	"github.com/virus-evolution/gofasta/pkg/gff"
)

// Stream C14gff (property GFFTXT): the GFF3 text reader gff.ReadGFF.
//   kind=valid   : a text written from structured rows (field `rows`, all nine columns, raw tags and values) in one
//                  of many layouts; dialect=core uses only constructs the reader accepts, dialect=gff3 adds one
//                  construct that GFF3 allows and the reader rejects or mangles (tag gff3-<what>)
//   kind=corrupt : a valid text after one structural corruption (tag bad-<what>), or a hand-made pathological text
// The exec runs the real reader in-process and stores a canonical dump of everything it returned in "go"; the Lean
// model of the reader must produce the same dump (format: see lean/Gofasta/Driver/GffText.lean).
// Texts and all dumped strings are "hex-rle" encoded: two hex digits per byte, a run of n >= 16 equal bytes as
// hh{n}, the empty string as "-": a line of more than 1 MiB stays a short case line.

func init() {
	gens["C14gff"] = gffTextGen
	gens["C14gffok"] = func(r *RNG, id string) *Case { return gffValidCase(r, id) }
	gens["C14gffbad"] = func(r *RNG, id string) *Case { return gffCorruptCase(r, id) }
	for _, k := range []string{"GFFTXT", "C14gff", "C14gffok", "C14gffbad"} {
		execs[k] = execGffText
	}
}

// ---------------------------------------------------------------------------------------------
// hex-rle

func rleEnc(s string) string {
	if s == "" {
		return "-"
	}
	var b strings.Builder
	const hexd = "0123456789abcdef"
	for i := 0; i < len(s); {
		j := i
		for j < len(s) && s[j] == s[i] {
			j++
		}
		n := j - i
		if n >= 16 {
			b.WriteByte(hexd[s[i]>>4])
			b.WriteByte(hexd[s[i]&15])
			b.WriteString("{" + strconv.Itoa(n) + "}")
		} else {
			for k := 0; k < n; k++ {
				b.WriteByte(hexd[s[i]>>4])
				b.WriteByte(hexd[s[i]&15])
			}
		}
		i = j
	}
	return b.String()
}

func hexNib(c byte) byte {
	switch {
	case c >= '0' && c <= '9':
		return c - '0'
	case c >= 'a' && c <= 'f':
		return c - 'a' + 10
	case c >= 'A' && c <= 'F':
		return c - 'A' + 10
	}
	return 0
}

func rleDec(s string) string {
	var b strings.Builder
	for i := 0; i < len(s); {
		if s[i] == '-' {
			i++
			continue
		}
		if i+1 >= len(s) {
			break
		}
		c := hexNib(s[i])<<4 | hexNib(s[i+1])
		i += 2
		if i < len(s) && s[i] == '{' {
			j := strings.IndexByte(s[i:], '}')
			if j < 0 {
				break
			}
			n, _ := strconv.Atoi(s[i+1 : i+j])
			for k := 0; k < n; k++ {
				b.WriteByte(c)
			}
			i += j + 1
		} else {
			b.WriteByte(c)
		}
	}
	return b.String()
}

// ---------------------------------------------------------------------------------------------
// the canonical dump of a gff.GFF

func gffDump(g gff.GFF) string {
	var out []string
	out = append(out, "ok", "V "+rleEnc(g.GFF_version))
	for _, h := range g.HeaderLines {
		out = append(out, "H "+rleEnc(h))
	}
	for _, h := range g.CommentLines {
		out = append(out, "C "+rleEnc(h))
	}
	var rk []string
	for k := range g.SequenceRegions {
		rk = append(rk, k)
	}
	sort.Strings(rk)
	for _, k := range rk {
		sr := g.SequenceRegions[k]
		out = append(out, fmt.Sprintf("R %s %s %d %d", rleEnc(k), rleEnc(sr.Seqid), sr.Start, sr.End))
	}
	for _, f := range g.Features {
		var ks []string
		for k := range f.Attributes {
			ks = append(ks, k)
		}
		sort.Strings(ks)
		as := make([]string, len(ks))
		for i, k := range ks {
			vs := make([]string, len(f.Attributes[k]))
			for j, v := range f.Attributes[k] {
				vs[j] = rleEnc(v)
			}
			as[i] = rleEnc(k) + "=" + strings.Join(vs, ",")
		}
		attrs := strings.Join(as, ";")
		if len(ks) == 0 {
			attrs = "-"
		}
		out = append(out, fmt.Sprintf("F %s %s %s %d %d %s %s %d %s", rleEnc(f.Seqid), rleEnc(f.Source), rleEnc(f.Type),
			f.Start, f.End, rleEnc(f.Score), rleEnc(f.Strand), f.Phase, attrs))
	}
	var ik []string
	for k := range g.IDmap {
		ik = append(ik, k)
	}
	sort.Strings(ik)
	for _, k := range ik {
		is := make([]string, len(g.IDmap[k]))
		for j, v := range g.IDmap[k] {
			is[j] = strconv.Itoa(v)
		}
		out = append(out, "I "+rleEnc(k)+" "+strings.Join(is, ","))
	}
	var fk []string
	for k := range g.FASTA {
		fk = append(fk, k)
	}
	sort.Strings(fk)
	for _, k := range fk {
		fr := g.FASTA[k]
		out = append(out, fmt.Sprintf("A %s %s %s %s %d", rleEnc(k), rleEnc(fr.ID), rleEnc(fr.Description), rleEnc(fr.Seq), fr.Idx))
	}
	return strings.Join(out, "\n")
}

func gffErrKind(msg string) string {
	switch {
	case msg == "Error parsing gff version":
		return "version"
	case strings.HasPrefix(msg, "Error parsing gff sequence-region"):
		return "seqreg"
	case strings.HasPrefix(msg, "strconv.Atoi"):
		return "atoi"
	case strings.HasPrefix(msg, "GFF parsing error: wrong number of fields"):
		return "nfields"
	case strings.HasPrefix(msg, "Error parsing gff SeqID"):
		return "seqid"
	case strings.HasPrefix(msg, "Error parsing gff strand"):
		return "strand"
	case strings.HasPrefix(msg, "Error parsing gff phase"):
		return "phase"
	case strings.HasPrefix(msg, "Error parsing gff attributes"):
		return "attributes"
	case strings.HasPrefix(msg, "badly formatted fasta file: header line without"):
		return "fasta-noid"
	case strings.HasPrefix(msg, "badly formatted fasta file"):
		return "fasta-format"
	case strings.HasPrefix(msg, "different length sequences"):
		return "fasta-difflen"
	case strings.HasPrefix(msg, "invalid nucleotide"):
		return "fasta-invalid"
	case strings.HasPrefix(msg, "empty fasta file"):
		return "fasta-empty"
	case strings.Contains(msg, "token too long"):
		return "toolong"
	}
	return "other(" + firstLine(msg) + ")"
}

func gffOutcome(text string) string {
	res := safeRun(20*time.Second, func() (string, error) {
		g, err := gff.ReadGFF(strings.NewReader(text))
		if err != nil {
			return "!error:" + gffErrKind(err.Error()), nil
		}
		return gffDump(g), nil
	})
	return goField(res)
}

func execGffText(r *RNG, c *Case) {
	c.Set("go", gffOutcome(rleDec(c.Get("text"))))
}

// ---------------------------------------------------------------------------------------------
// structured rows

type gAttr struct {
	k  string
	vs []string
}

type gRow struct {
	seqid, source, typ   string
	start, end           int
	score, strand, phase string
	attrs                []gAttr
}

// the GFF3 escaping rule for tags and values of column nine (the Lean side has the same rule: GffText.escAttr)
func gffEsc(s string) string {
	var b strings.Builder
	for i := 0; i < len(s); i++ {
		c := s[i]
		if c < 32 || c == 127 || c == '%' || c == ';' || c == '=' || c == '&' || c == ',' {
			fmt.Fprintf(&b, "%%%02X", c)
		} else {
			b.WriteByte(c)
		}
	}
	return b.String()
}

func (a gAttr) render() string {
	vs := make([]string, len(a.vs))
	for i, v := range a.vs {
		vs[i] = gffEsc(v)
	}
	return gffEsc(a.k) + "=" + strings.Join(vs, ",")
}

func (r gRow) attrText() string {
	as := make([]string, len(r.attrs))
	for i, a := range r.attrs {
		as[i] = a.render()
	}
	return strings.Join(as, ";")
}

func (r gRow) cols() []string {
	return []string{r.seqid, r.source, r.typ, strconv.Itoa(r.start), strconv.Itoa(r.end), r.score, r.strand, r.phase, r.attrText()}
}

func (r gRow) line() string { return strings.Join(r.cols(), "\t") }

func (r gRow) proto() string {
	as := make([]string, len(r.attrs))
	for i, a := range r.attrs {
		vs := make([]string, len(a.vs))
		for j, v := range a.vs {
			vs[j] = rleEnc(v)
		}
		as[i] = rleEnc(a.k) + "=" + strings.Join(vs, ",")
	}
	return strings.Join([]string{rleEnc(r.seqid), rleEnc(r.source), rleEnc(r.typ), strconv.Itoa(r.start), strconv.Itoa(r.end),
		rleEnc(r.score), rleEnc(r.strand), r.phase, strings.Join(as, "&")}, "~")
}

func rowsProto(rows []gRow) string {
	ps := make([]string, len(rows))
	for i, r := range rows {
		ps[i] = r.proto()
	}
	return strings.Join(ps, ";")
}

// seqids the reader's pattern lets through: 0-9 . : * $ ! + and 0x3F..0x7C
var gffSeqids = []string{"MN908947.3", "NC_045512.2", "chr1", "scaffold|12", "a:b", "x^y*z$", "id@lab!+_?", "[contig]", "back\\slash",
	"{brace", "`tick`", "CHR_X", "2", "contig.00017"}
var gffSources = []string{"verif", "RefSeq", "Genbank", ".", "my annotator v1.2", "ena|embl", "protéine-db"}
var gffTypes = []string{"CDS", "CDS", "CDS", "gene", "mRNA", "exon", "region", "mature_protein_region_of_CDS", "five_prime_UTR",
	"stem_loop", "SO:0000316", "cds"}
var gffScores = []string{".", ".", "0.5", "1e-10", "100", "-3.2"}
var gffPlainVals = []string{"S", "ORF1ab", "surface glycoprotein", "nsp3", "YP_009724390.1", "GeneID:43740568", "Genbank:YP_009724390.1",
	"leader protein", "3'-to-5' exonuclease", "protéine de spicule", "a b  c", "x/y|z", "\"quoted\"", "1", "true", "ÄÖ", "(+)ssRNA", "taxon:2697049"}
var gffSpecialVals = []string{"a;b", "k=v", "x,y", "100%", "R&D", "semi;colon=eq,comma%pct&amp", "tab\there", ";", "=", ",", "%", "%3B", "a%2Cb", "line\nbreak"}
var gffTags = []string{"Name", "gene", "product", "Note", "Dbxref", "Alias", "protein_id", "locus_tag", "codon_start", "Is_circular",
	"gbkey", "transl_table", "Ontology_term", "Derives_from", "Target", "Gap", "myTag", "x"}

func genRows(r *RNG, seqid string, special bool) []gRow {
	n := r.Range(1, 8)
	if r.Chance(1, 12) {
		n = r.Range(9, 30)
	}
	rows := make([]gRow, n)
	genes := 0
	for i := range rows {
		row := gRow{seqid: seqid, source: r.PickStr(gffSources), typ: r.PickStr(gffTypes), score: r.PickStr(gffScores)}
		row.start = r.Range(1, 29000)
		row.end = row.start + r.Range(0, 900)
		row.strand = r.PickStr([]string{"+", "+", "+", "-", "-", ".", "?"})
		if row.typ == "CDS" {
			row.phase = strconv.Itoa(r.Intn(3))
		} else if r.Chance(1, 6) {
			row.phase = strconv.Itoa(r.Intn(3))
		} else {
			row.phase = "."
		}
		val := func() string {
			if special && r.Chance(1, 2) {
				return r.PickStr(gffSpecialVals)
			}
			return r.PickStr(gffPlainVals)
		}
		var attrs []gAttr
		if r.Chance(3, 4) {
			idv := fmt.Sprintf("%s-%d", strings.ToLower(row.typ), i)
			if i > 0 && r.Chance(1, 5) { // a multi-line feature: the ID of an earlier row again
				for _, a := range rows[r.Intn(i)].attrs {
					if a.k == "ID" {
						idv = a.vs[0]
					}
				}
			}
			attrs = append(attrs, gAttr{"ID", []string{idv}})
		}
		if r.Chance(1, 2) {
			ps := []string{fmt.Sprintf("gene%d", genes)}
			if r.Chance(1, 4) {
				ps = append(ps, fmt.Sprintf("gene%d", genes+1), "rna-"+val())
			}
			attrs = append(attrs, gAttr{"Parent", ps})
		}
		if row.typ == "gene" {
			genes++
		}
		if r.Chance(2, 3) {
			vs := []string{val()}
			if r.Chance(1, 5) {
				vs = append(vs, val())
			}
			attrs = append(attrs, gAttr{"Name", vs})
		}
		tags := append([]string{}, gffTags[1:]...)
		for k := r.Intn(5); k > 0 && len(tags) > 0; k-- {
			j := r.Intn(len(tags))
			t := tags[j]
			tags = append(tags[:j], tags[j+1:]...)
			vs := []string{val()}
			for r.Chance(1, 4) {
				vs = append(vs, val())
			}
			if special && r.Chance(1, 6) {
				t = r.PickStr([]string{"my;tag", "a=b", "t,u", "pct%"})
			}
			attrs = append(attrs, gAttr{t, vs})
		}
		if len(attrs) == 0 {
			attrs = append(attrs, gAttr{"Name", []string{val()}})
		}
		if r.Chance(1, 2) { // attributes in any order
			for j := len(attrs) - 1; j > 0; j-- {
				k := r.Intn(j + 1)
				attrs[j], attrs[k] = attrs[k], attrs[j]
			}
		}
		row.attrs = attrs
		rows[i] = row
	}
	return rows
}

// ---------------------------------------------------------------------------------------------
// writing a text from rows

type faRec struct {
	header string // after '>'
	seq    string
	width  int
}

type gffDoc struct {
	version  string   // the version line (with ##)
	pre      []string // directive and comment lines before the first feature
	rows     []string // feature lines
	between  map[int][]string
	fasta    []faRec
	hasFasta bool
	faBlank  bool // blank lines inside the FASTA section
	crlf     bool
	noEOL    bool
}

func (d *gffDoc) lines() []string {
	var ls []string
	if d.version != "" {
		ls = append(ls, d.version)
	}
	ls = append(ls, d.pre...)
	for i, r := range d.rows {
		ls = append(ls, d.between[i]...)
		ls = append(ls, r)
	}
	ls = append(ls, d.between[len(d.rows)]...)
	if d.hasFasta {
		ls = append(ls, "##FASTA")
		for _, f := range d.fasta {
			ls = append(ls, ">"+f.header)
			s := f.seq
			if f.width <= 0 {
				ls = append(ls, s)
			} else {
				for len(s) > 0 {
					w := f.width
					if w > len(s) {
						w = len(s)
					}
					ls = append(ls, s[:w])
					s = s[w:]
				}
			}
			if d.faBlank {
				ls = append(ls, "")
			}
		}
	}
	return ls
}

func joinLines(ls []string, crlf, noEOL bool) string {
	eol := "\n"
	if crlf {
		eol = "\r\n"
	}
	t := strings.Join(ls, eol)
	if len(ls) > 0 && !noEOL {
		t += eol
	}
	return t
}

func (d *gffDoc) text() string { return joinLines(d.lines(), d.crlf, d.noEOL) }

var gffVersions = []string{"3", "3", "3", "3.1.26", "3.2.1"}

func gffValidCase(r *RNG, id string) *Case {
	c := NewCase("GFFTXT", id)
	c.Set("kind", "valid")
	dialect := "core"
	quirk := ""
	if r.Chance(1, 6) {
		dialect = "gff3"
		quirk = r.PickStr([]string{"escape", "escape", "escape", "blank-line", "trailing-semicolon", "no-attributes", "seqid-hyphen", "seqid-escape",
			"duplicate-tag", "fasta-contigs", "long-line", "bare-fasta"})
		c.Tag("gff3-" + quirk)
	}
	c.Set("dialect", dialect)
	seqid := r.PickStr(gffSeqids)
	switch quirk {
	case "seqid-hyphen":
		seqid = r.PickStr([]string{"hCoV-19/Wuhan/1", "chr-1", "NC-045512", "a~b", "seq/1", "contig(1)"})
	case "seqid-escape":
		seqid = r.PickStr([]string{"chr%201", "a%3Eb", "%3Econtig"})
	}
	rows := genRows(r, seqid, quirk == "escape")
	if quirk == "duplicate-tag" {
		i := r.Intn(len(rows))
		rows[i].attrs = append(rows[i].attrs, gAttr{rows[i].attrs[0].k, []string{"second"}})
	}
	ver := r.PickStr(gffVersions)
	d := &gffDoc{version: "##gff-version " + ver, between: map[int][]string{}}
	for _, row := range rows {
		d.rows = append(d.rows, row.line())
	}
	canon := r.Chance(1, 4) && quirk != "fasta-contigs" && quirk != "bare-fasta"
	genomeLen := r.Range(20, 400)
	if !canon {
		if r.Chance(1, 5) {
			d.version = r.PickStr([]string{"##gff-version\t" + ver, "##gff-version   " + ver + " ", "##gff-version " + ver + "\t", "##gff-version " + ver,
				"##gff-version　" + ver + " ", "##gff-versionX " + ver, "##gff-version \u0085" + ver})
		}
		for k := r.Intn(4); k > 0; k-- {
			d.pre = append(d.pre, r.PickStr([]string{
				fmt.Sprintf("##sequence-region %s 1 %d", seqid, genomeLen), "##species https://www.ncbi.nlm.nih.gov/Taxonomy/Browser/wwwtax.cgi?id=2697049",
				"##feature-ontology so.obo", "#!genome-build ASM985889v3", "# a comment", "#no space", "#   padded  \t", "#", "##", "# nbsp ",
				fmt.Sprintf("##sequence-region   other\t5   %d trailing words", genomeLen+7), "###", "##gff-version 2", "#\u2003\u3000wide\u3000\u2009", "#\t\x0b\x0c x \x85"}))
		}
		if r.Chance(1, 6) { // a directive or a comment before the version line
			d.pre = append([]string{d.version}, d.pre...)
			d.version = r.PickStr([]string{"# produced by hand", "##date 2026-09-28"})
		}
		for k := r.Intn(3); k > 0; k-- {
			at := r.Intn(len(rows) + 1)
			extra := []string{"###", "# between features", "#", "#comment\twith\ttabs", "##sequence-region early 1 10"}
			if at > 0 { // after the first feature line nothing of a directive is looked at any more
				extra = append(extra, "##sequence-region late 1 10", "##gff-version 9 9 9", "##sequence-region broken", "##gff-version")
			}
			d.between[at] = append(d.between[at], r.PickStr(extra))
		}
		d.crlf = r.Chance(1, 5)
		d.noEOL = r.Chance(1, 5)
		if r.Chance(1, 2) || quirk == "fasta-contigs" {
			d.hasFasta = true
			nrec := 1
			if r.Chance(1, 3) {
				nrec = r.Range(2, 4)
			}
			if quirk == "fasta-contigs" {
				nrec = r.Range(2, 3)
			}
			for k := 0; k < nrec; k++ {
				name := seqid
				if k > 0 {
					name = fmt.Sprintf("%s.%d", seqid, k)
				}
				hdr := name
				if r.Chance(1, 3) {
					hdr = name + r.PickStr([]string{" Severe acute respiratory syndrome coronavirus 2", "\tdesc", "  two  spaces ", " x"})
				}
				l := genomeLen
				if quirk == "fasta-contigs" && k > 0 {
					l = genomeLen + r.Range(1, 50)
				}
				alpha := symACGT
				if r.Chance(1, 4) {
					alpha = sym17
				}
				d.fasta = append(d.fasta, faRec{header: hdr, seq: randSeq(r, l, alpha, r.Chance(1, 4)), width: r.PickInt([]int{0, 60, 70, 7, 1000})})
			}
			d.faBlank = r.Chance(1, 6)
		}
	}
	switch quirk {
	case "blank-line":
		at := r.Intn(len(rows) + 1)
		d.between[at] = append(d.between[at], "")
	case "trailing-semicolon":
		i := r.Intn(len(rows))
		d.rows[i] += ";"
	case "no-attributes":
		i := r.Intn(len(rows))
		cols := rows[i].cols()
		cols[8] = "."
		d.rows[i] = strings.Join(cols, "\t")
	case "long-line":
		i := r.Intn(len(rows))
		rows[i].attrs = append(rows[i].attrs, gAttr{"Note", []string{strings.Repeat("A", r.PickInt([]int{65536, 70000, 1 << 20, 1<<20 + 5000}))}})
		d.rows[i] = rows[i].line()
	case "bare-fasta":
		d.hasFasta = false
		d.between[len(rows)] = append(d.between[len(rows)], ">"+seqid, randSeq(r, genomeLen, symACGT, false))
	}
	if canon && quirk != "" && quirk != "escape" && quirk != "duplicate-tag" && quirk != "long-line" && quirk != "seqid-hyphen" && quirk != "seqid-escape" {
		canon = false
	}
	txt := d.text()
	c.Set("text", rleEnc(txt))
	c.Set("rows", rowsProto(rows)).Set("ver", rleEnc(ver))
	if canon {
		c.Set("canon", "1")
		c.Tag("layout-canonical")
	}
	if d.hasFasta && quirk != "fasta-contigs" {
		fs := make([]string, len(d.fasta))
		for i, f := range d.fasta {
			fs[i] = rleEnc(strings.Fields(f.header)[0]) + "~" + rleEnc(f.header) + "~" + rleEnc(f.seq)
		}
		c.Set("fa", strings.Join(fs, ";"))
		c.Tag("with-fasta")
	}
	if d.crlf {
		c.Tag("crlf")
	}
	if d.noEOL {
		c.Tag("no-final-newline")
	}
	c.NonTrv = true
	return c
}

// ---------------------------------------------------------------------------------------------
// corrupted texts

// a plain valid document to corrupt: lines, the index of the first feature line, the number of feature lines
func gffBaseDoc(r *RNG) (*gffDoc, []gRow) {
	seqid := r.PickStr(gffSeqids)
	rows := genRows(r, seqid, false)
	if len(rows) > 6 {
		rows = rows[:6]
	}
	d := &gffDoc{version: "##gff-version 3", between: map[int][]string{}}
	for _, row := range rows {
		d.rows = append(d.rows, row.line())
	}
	L := r.Range(10, 120)
	if r.Chance(1, 2) {
		d.pre = append(d.pre, fmt.Sprintf("##sequence-region %s 1 %d", seqid, L))
	}
	if r.Chance(1, 3) {
		d.pre = append(d.pre, "# a comment")
	}
	if r.Chance(1, 2) {
		d.hasFasta = true
		d.fasta = []faRec{{header: seqid, seq: randSeq(r, L, symACGT, false), width: r.PickInt([]int{0, 30, 60})}}
		if r.Chance(1, 3) {
			d.fasta = append(d.fasta, faRec{header: seqid + "_2 second", seq: randSeq(r, L, sym17, true), width: 50})
		}
	}
	d.crlf = r.Chance(1, 8)
	d.noEOL = r.Chance(1, 8)
	return d, rows
}

var gffBadNumbers = []string{"abc", "", "1.5", "1e3", "0x10", "1_000", " 5", "5 ", "٣", "-5", "+5", "-0", "007", "9223372036854775807", "9223372036854775808",
	"-9223372036854775808", "-9223372036854775809", "99999999999999999999", "99999999999999999999x", "1\x00", "--1", "+", "-", "1,000", "."}

var gffOddBytes = []string{"\t", ";", "=", ",", "%", "#", ">", "\r", "\n", "\x00", "\x80", "\xc2", "\xa0", "\xc2\xa0", " ", "-", "\xe2\x80\x83", "\xff", "~", "é"}

func setCol(line string, col int, v string) string {
	f := strings.Split(line, "\t")
	if col < len(f) {
		f[col] = v
	}
	return strings.Join(f, "\t")
}

func gffCorruptCase(r *RNG, id string) *Case {
	c := NewCase("GFFTXT", id)
	c.Set("kind", "corrupt")
	d, rows := gffBaseDoc(r)
	at := r.Intn(len(d.rows))
	row := rows[at]
	tag := ""
	txt := ""
	raw := false // txt already final
	kinds := []string{"eight-columns", "ten-columns", "bad-start", "bad-end", "start-gt-end", "bad-strand", "bad-phase", "odd-phase", "bad-escape", "attr-no-eq",
		"attr-empty", "attr-two-eq", "attr-dot", "attr-empty-key", "duplicate-id", "duplicate-tag", "no-version", "version-fields", "odd-version", "version-late",
		"region-short", "region-nan", "region-odd", "directive-late", "tab-in-attr", "empty-file", "only-header", "nul-byte", "non-ascii-seqid", "seqid-chars",
		"long-line", "long-line-edge", "unicode-space", "fasta-no-header", "fasta-no-id", "fasta-difflen", "fasta-invalid", "fasta-empty", "fasta-odd",
		"fasta-first", "hash-seqid", "space-line", "blank-line", "byte-noise", "byte-noise", "line-shuffle", "cr-odd", "spaces-for-tabs", "empty-columns", "trailing-space", "unicode-space", "seqid-chars", "odd-phase", "cr-odd"}
	kind := kinds[r.Intn(len(kinds))]
	tag = kind
	switch kind {
	case "eight-columns":
		f := strings.Split(d.rows[at], "\t")
		k := r.Intn(len(f))
		f = append(f[:k], f[k+1:]...)
		d.rows[at] = strings.Join(f, "\t")
	case "ten-columns":
		d.rows[at] += "\t" + r.PickStr([]string{"", "x", "extra=1"})
	case "bad-start":
		d.rows[at] = setCol(d.rows[at], 3, r.PickStr(gffBadNumbers))
	case "bad-end":
		d.rows[at] = setCol(d.rows[at], 4, r.PickStr(gffBadNumbers))
		if r.Chance(1, 3) { // both wrong: the start decides
			d.rows[at] = setCol(d.rows[at], 3, r.PickStr(gffBadNumbers))
		}
	case "start-gt-end":
		d.rows[at] = setCol(setCol(d.rows[at], 3, "500"), 4, r.PickStr([]string{"499", "1", "0", "-7"}))
	case "bad-strand":
		d.rows[at] = setCol(d.rows[at], 6, r.PickStr([]string{"++", "", "plus", "1", "+ ", " +", "±", "+-", "\x00", ".."}))
		if r.Chance(1, 4) {
			d.rows[at] = setCol(d.rows[at], 7, "9")
		}
	case "bad-phase":
		d.rows[at] = setCol(d.rows[at], 7, r.PickStr([]string{"3", "-1", "x", "", "..", "0.0", "1 ", "99999999999999999999", "٢"}))
		if r.Chance(1, 2) {
			d.rows[at] = setCol(d.rows[at], 2, "CDS")
		}
	case "odd-phase":
		d.rows[at] = setCol(d.rows[at], 7, r.PickStr([]string{"+1", "02", "-0", "+0", "0000000000000000000000002", "."}))
		d.rows[at] = setCol(d.rows[at], 2, r.PickStr([]string{"CDS", "gene", "cds", "CDS ", "CDSX"}))
	case "bad-escape":
		d.rows[at] = setCol(d.rows[at], r.PickInt([]int{0, 1, 2, 5, 8}), r.PickStr([]string{"a%ZZb", "%", "x%2", "%%"})+r.PickStr([]string{"", "=v"}))
	case "attr-no-eq":
		d.rows[at] = setCol(d.rows[at], 8, row.attrText()+";"+r.PickStr([]string{"flag", "novalue", " "}))
	case "attr-empty":
		d.rows[at] = setCol(d.rows[at], 8, r.PickStr([]string{row.attrText() + ";", ";" + row.attrText(), "ID=a;;Name=b", ""}))
	case "attr-two-eq":
		d.rows[at] = setCol(d.rows[at], 8, r.PickStr([]string{"Note=a=b", "ID=x;Note=k=v;Name=n", "==", "a=b="}))
	case "attr-dot":
		d.rows[at] = setCol(d.rows[at], 8, ".")
	case "attr-empty-key":
		d.rows[at] = setCol(d.rows[at], 8, r.PickStr([]string{"=v", "=", "ID=;Name=", "=a;=b", "ID=,", "ID=,,x", " ID = x "}))
	case "duplicate-id":
		for i := range d.rows {
			d.rows[i] = setCol(d.rows[i], 8, "ID=same;Name="+strconv.Itoa(i))
		}
		if r.Chance(1, 2) {
			d.rows[at] = setCol(d.rows[at], 8, "ID=other,same;Name=x")
		}
	case "duplicate-tag":
		d.rows[at] = setCol(d.rows[at], 8, r.PickStr([]string{"Name=a;Name=b", "ID=x;Name=a;ID=y", "ID=x;ID=x", "a=1;b=2;a=3;b=4;a=5"}))
	case "no-version":
		d.version = ""
		if r.Chance(1, 3) {
			d.pre = nil
		}
	case "version-fields":
		d.version = r.PickStr([]string{"##gff-version", "##gff-version 3 extra", "##gff-version3", "##gff-version ", "##gff-version ", "##gff-version 3 4",
			"## gff-version 3", "##GFF-version 3", "#gff-version 3", "##gff-version\x003", "##gff-version \xa03", "##gff-version \xc23"})
	case "odd-version":
		d.version = r.PickStr([]string{"##gff-version 2", "##gff-version three", "##gff-versionfoo 3", "##gff-version-3 x", "##gff-version \x00", "##gff-version \xff\xfe"})
		if r.Chance(1, 2) {
			d.pre = append(d.pre, "##gff-version 3")
		}
	case "version-late":
		d.between[r.Range(1, len(d.rows))] = []string{d.version}
		d.version = ""
	case "region-short":
		d.pre = append(d.pre, r.PickStr([]string{"##sequence-region", "##sequence-region x", "##sequence-region x 1", "##sequence-regionx 1 2", "##sequence-region x 1 2"}))
	case "region-nan":
		d.pre = append(d.pre, "##sequence-region x "+r.PickStr(gffBadNumbers)+" "+r.PickStr(gffBadNumbers))
	case "region-odd":
		d.pre = append(d.pre, r.PickStr([]string{"##sequence-region x 1 2 3 4", "##sequence-region\tx\t10\t2", "##sequence-region x -5 +7", "##sequence-regions x 1 2",
			"##sequence-region \xff 1 2", "##sequence-region a b 1 2"}))
		if r.Chance(1, 2) {
			d.pre = append(d.pre, "##sequence-region x 100 200")
		}
		if r.Chance(1, 3) {
			d.pre = append([]string{"##sequence-region bad"}, d.pre...)
			d.version = r.PickStr([]string{"", d.version})
		}
	case "directive-late":
		d.between[r.Range(1, len(d.rows))] = []string{r.PickStr([]string{"##sequence-region late 1 5", "##sequence-region broken", "##gff-version", "# late comment", "##FASTAX"})}
	case "tab-in-attr":
		d.rows[at] = setCol(d.rows[at], 8, "Note=a\tb")
	case "empty-file":
		raw = true
		txt = r.PickStr([]string{"", "\n", "\r\n", "\n\n", "\r", " ", "#", "##", "##FASTA", "##FASTA\n", "\x00"})
	case "only-header":
		raw = true
		txt = r.PickStr([]string{"##gff-version 3\n", "##gff-version 3", "# only a comment\n", "##sequence-region x 1 2\n", "##gff-version 3\n##sequence-region x\n",
			"##gff-version\n#c\n##FASTA\n>a\nACGT\n", "#c1\n# c2 \n##h1\n##h2\n"})
	case "nul-byte":
		d.rows[at] = setCol(d.rows[at], r.Intn(9), "a\x00b"+r.PickStr([]string{"", "=c"}))
	case "non-ascii-seqid":
		d.rows[at] = setCol(d.rows[at], 0, r.PickStr([]string{"chré", "\xff", "a\x80", "\xc2", "日本", "a b", "\xef\xbf\xbd"}))
	case "seqid-chars":
		b := byte(r.Range(1, 255))
		if r.Chance(1, 2) { // around the edges of the accepted ranges
			b = byte(r.PickInt([]int{32, 33, 34, 35, 36, 37, 41, 42, 43, 44, 45, 46, 47, 48, 57, 58, 59, 60, 61, 62, 63, 64, 91, 92, 93, 94, 95, 96, 122, 123, 124, 125, 126, 127, 128, 255}))
		}
		if b == '\t' || b == '\n' {
			b = ' '
		}
		d.rows[at] = setCol(d.rows[at], 0, r.PickStr([]string{"", "a"})+string([]byte{b})+r.PickStr([]string{"", "z"}))
		if r.Chance(1, 8) {
			d.rows[at] = setCol(d.rows[at], 0, "")
		}
	case "long-line", "long-line-edge":
		n := r.PickInt([]int{65536, 65537, 70000, 131072, 1 << 20, 1<<20 + 1, 1100000})
		where := r.PickStr([]string{"feature", "comment", "header", "fasta", "first", "comment-late", "source"})
		ls := d.lines()
		fill := func(prefix, suffix string, total int, ch string) string {
			k := total - len(prefix) - len(suffix)
			if k < 0 {
				k = 0
			}
			return prefix + strings.Repeat(ch, k) + suffix
		}
		if kind == "long-line-edge" { // the raw line (with its CR, if any) has a length at the old or the new token limit
			n = r.PickInt([]int{65535, 65536, 1<<20 - 2, 1<<20 - 1, 1 << 20}) // around the old limit (now harmless) and the new one
			if d.crlf {
				n -= r.Intn(2)
			}
		}
		var long string
		pos := 0
		switch where {
		case "feature":
			long = fill(setCol(d.rows[at], 8, "ID=long;Note="), "", n, "A")
			pos = indexOf(ls, d.rows[at])
			ls[pos] = long
		case "source":
			f := strings.Split(d.rows[at], "\t")
			long = fill(f[0]+"\t", "\t"+strings.Join(f[2:], "\t"), n, "s")
			pos = indexOf(ls, d.rows[at])
			ls[pos] = long
		case "comment":
			long = fill("# ", r.PickStr([]string{"", " ", "x"}), n, r.PickStr([]string{"c", " "}))
			ls = append(ls[:1], append([]string{long}, ls[1:]...)...)
		case "comment-late":
			long = fill("#", "", n, "z")
			pos = indexOf(ls, d.rows[len(d.rows)-1])
			ls = append(ls[:pos], append([]string{long}, ls[pos:]...)...)
		case "header":
			long = fill("##note ", "", n, "h")
			ls = append(ls[:1], append([]string{long}, ls[1:]...)...)
		case "first":
			long = fill("##gff-version 3 ", "", n, " ")
			ls[0] = long
		case "fasta":
			if n >= 1<<20-2 && n < 1<<20 {
				// a line just below the token limit is valid: as a sequence line it would be decoded base by base with a
				// string concatenation per base (EncodedFastaRecord.Decode is quadratic: three minutes for a MiB) - the
				// properties say nothing about speed, so the long line is a header line here (ID + description)
				if !d.hasFasta {
					ls = append(ls, "##FASTA", fill(">"+row.seqid+" ", "", n, "d"), "ACGT")
				} else {
					ls = append(ls, fill(">extra ", "", n, "d"), "ACGT")
				}
			} else {
				if !d.hasFasta {
					ls = append(ls, "##FASTA", ">"+row.seqid)
				}
				ls = append(ls, fill("", "", n, "A"))
			}
			if r.Chance(1, 2) {
				ls = append(ls, ">tail", "ACGT")
			}
		}
		raw = true
		txt = joinLines(ls, d.crlf, d.noEOL)
		c.Tag("long-in-" + where)
	case "unicode-space":
		sp := r.PickStr([]string{" ", "\u0085", "\u00a0", "\u1680", "\u2000", "\u2003", "\u200a", "\u2028", "\u2029", "\u202f", "\u205f", "\u3000",
			"\u200b", "\u180e", "\ufeff", "\u2007", "\x0b", "\x0c", "\x1c", "\x1f",
			"\xe2\x80", "\xe2\x80\x80\x80", "\xc2", "\xa0", "\xe3\x80", "\xe2\x81\x9f", "\xe2\x80\xab", "\xc0\xa0", "\xe0\x80\xa0", "\xe1\x9a", "\xe1\x9a\x81"})
		switch r.Intn(4) {
		case 0:
			d.version = "##gff-version" + sp + "3" + r.PickStr([]string{"", sp, sp + "4"})
		case 1:
			d.pre = append(d.pre, "##sequence-region"+sp+"x"+sp+"1"+sp+"2")
		case 2:
			d.pre = append(d.pre, "#"+sp+r.PickStr([]string{"", " ", "x"})+"comment"+sp+r.PickStr([]string{"", " ", sp, "\xe2"}))
		default:
			if d.hasFasta {
				d.fasta[0].header = r.PickStr([]string{"", sp}) + "id" + sp + "rest"
			} else {
				d.pre = append(d.pre, "#"+sp+sp)
			}
		}
	case "fasta-no-header":
		d.hasFasta = true
		d.fasta = nil
		d.between[len(d.rows)] = nil
		raw = true
		txt = joinLines(append(d.lines(), r.PickStr([]string{"ACGT", " >a", "a>", "\x00"}), ">a", "ACGT"), d.crlf, d.noEOL)
	case "fasta-no-id":
		d.hasFasta = true
		d.fasta = []faRec{{header: r.PickStr([]string{"", " ", "\t", " ", " 　 "}), seq: "ACGT"}}
		if r.Chance(1, 2) {
			d.fasta = append([]faRec{{header: "ok", seq: "ACGT"}}, d.fasta...)
		}
	case "fasta-difflen":
		d.hasFasta = true
		d.fasta = []faRec{{header: "a", seq: "ACGTACGT", width: 3}, {header: "b", seq: "ACGT"}}
		if r.Chance(1, 2) {
			d.fasta = append(d.fasta, faRec{header: "c", seq: "ACGTACGT"})
		}
		if r.Chance(1, 3) {
			d.fasta = append(d.fasta, faRec{header: "", seq: "ACGTACGT"})
		}
	case "fasta-invalid":
		d.hasFasta = true
		d.fasta = []faRec{{header: "a", seq: "ACGT" + r.PickStr([]string{"X", "*", " ", "1", "\x00", ".", "é", "\xff", "E", "acgtn-?", "U", "u"}) + "ACGT"}}
	case "fasta-empty":
		raw = true
		txt = joinLines(append(d.lines0(), "##FASTA"), d.crlf, d.noEOL) + r.PickStr([]string{"", "\n", "\n\n\n", "\r\n", "\r\n\r\n", "\r"})
	case "fasta-odd":
		d.hasFasta = true
		d.fasta = r.PickFa([][]faRec{
			{{header: "a", seq: "ACGT"}, {header: "a again", seq: "TTTT"}},
			{{header: "a", seq: "ACGT"}, {header: "empty", seq: ""}},
			{{header: "empty", seq: ""}, {header: "a", seq: "ACGT"}},
			{{header: "empty", seq: ""}},
			{{header: "a", seq: ""}, {header: "b", seq: ""}, {header: "c", seq: "AC"}, {header: "d", seq: "GT"}},
			{{header: "a\r", seq: "ACGT\r"}, {header: "b", seq: "AC\rGT"}},
			{{header: "a", seq: "ACGT"}, {header: "#b", seq: "##FASTA"}},
			{{header: ">a", seq: "ACGT"}, {header: "b >c", seq: "AC>T"}},
			{{header: "a", seq: "acgtRYKM"}, {header: "b", seq: "nnnn-?Nn"}},
		})
		if r.Chance(1, 3) {
			d.faBlank = true
		}
	case "fasta-first":
		raw = true
		ls := append([]string{"##FASTA" + r.PickStr([]string{"", "X", " x", "\t"}), ">a", "ACGT"}, d.lines()...)
		if r.Chance(1, 2) {
			ls = append([]string{"# no version at all"}, ls...)
		}
		txt = joinLines(ls, d.crlf, d.noEOL)
	case "hash-seqid":
		d.rows[at] = setCol(d.rows[at], 0, r.PickStr([]string{"#chr1", "##chr1", "##FASTA", ">chr1"}))
	case "space-line":
		d.between[r.Intn(len(d.rows)+1)] = []string{r.PickStr([]string{" ", "\t", "  \t ", " ", "\x00"})}
	case "blank-line":
		p := r.Intn(len(d.rows) + 1)
		d.between[p] = []string{""}
		if r.Chance(1, 3) {
			d.version = ""
		}
		if r.Chance(1, 3) { // before everything
			raw = true
			txt = joinLines(append([]string{""}, d.lines()...), d.crlf, d.noEOL)
		}
	case "byte-noise":
		b := []byte(d.text())
		for k := r.Range(1, 3); k > 0 && len(b) > 0; k-- {
			p := r.Intn(len(b))
			o := r.PickStr(gffOddBytes)
			switch r.Intn(3) {
			case 0:
				b = append(b[:p], append([]byte(o), b[p:]...)...)
			case 1:
				b = append(b[:p], append([]byte(o), b[p+1:]...)...)
			default:
				b = append(b[:p], b[p+1:]...)
			}
		}
		raw = true
		txt = string(b)
	case "line-shuffle":
		ls := d.lines()
		p, q := r.Intn(len(ls)), r.Intn(len(ls))
		switch r.Intn(4) {
		case 0:
			ls[p], ls[q] = ls[q], ls[p]
		case 1:
			ls = append(ls[:p], ls[p+1:]...)
		case 2:
			ls = append(ls[:p], append([]string{ls[q]}, ls[p:]...)...)
		default:
			if p+1 < len(ls) {
				ls[p] += ls[p+1]
				ls = append(ls[:p+1], ls[p+2:]...)
			}
		}
		raw = true
		txt = joinLines(ls, d.crlf, d.noEOL)
	case "cr-odd":
		raw = true
		t := joinLines(d.lines(), false, d.noEOL)
		switch r.Intn(5) {
		case 0:
			t = strings.ReplaceAll(t, "\n", "\r\r\n")
		case 1:
			t = strings.ReplaceAll(t, "\n", "\r")
		case 2:
			t = strings.Replace(t, "\t", "\r\t", 1)
		case 3:
			t = strings.TrimSuffix(t, "\n") + "\r"
		default:
			t = strings.Replace(t, "\n", "\n\r", 1+r.Intn(3))
		}
		txt = t
	case "spaces-for-tabs":
		d.rows[at] = strings.Replace(d.rows[at], "\t", " ", r.PickInt([]int{1, 8, -1}))
	case "trailing-space":
		d.rows[at] += r.PickStr([]string{" ", "\t", "  ", "\u00a0", ";", " ;"})
	case "empty-columns":
		d.rows[at] = setCol(d.rows[at], r.Intn(9), "")
		if r.Chance(1, 4) {
			d.rows[at] = strings.Repeat("\t", 8)
		}
	}
	if !raw {
		txt = d.text()
	}
	c.Tag("bad-" + tag)
	c.Set("text", rleEnc(txt))
	c.NonTrv = true
	return c
}

// lines without the FASTA section
func (d *gffDoc) lines0() []string {
	h := d.hasFasta
	d.hasFasta = false
	ls := d.lines()
	d.hasFasta = h
	return ls
}

func (r *RNG) PickFa(x [][]faRec) []faRec { return x[r.Intn(len(x))] }

func indexOf(ls []string, s string) int {
	for i, l := range ls {
		if l == s {
			return i
		}
	}
	return 0
}

func gffTextGen(r *RNG, id string) *Case {
	if r.Chance(9, 20) {
		return gffCorruptCase(r, id)
	}
	return gffValidCase(r, id)
}
