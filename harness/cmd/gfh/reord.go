package main

import (
	"bytes"
	"fmt"
	"strings"
	"time"

	"github.com/virus-evolution/gofasta/pkg/fastaio"
	"github.com/virus-evolution/gofasta/pkg/variants"
)

// REORD: drive the exported order-restoring writers with an arbitrary arrival permutation
func reordGen(r *RNG, id string) *Case {
	c := NewCase("REORD", id)
	n := r.Range(1, 200)
	perm := make([]int, n)
	for i := range perm {
		perm[i] = i
	}
	switch r.Intn(6) {
	case 0: // reversed
		for i, j := 0, n-1; i < j; i, j = i+1, j-1 {
			perm[i], perm[j] = perm[j], perm[i]
		}
	case 1: // record 0 arrives last (a straggler overtaken by everything)
		perm = append(perm[1:], 0)
	case 2: // a rotation by a large offset
		k := r.Range(0, n-1)
		perm = append(perm[k:], perm[:k]...)
	case 3: // uniform shuffle
		for i := n - 1; i > 0; i-- {
			j := r.Intn(i + 1)
			perm[i], perm[j] = perm[j], perm[i]
		}
	case 4: // local disorder
		for i := 0; i+1 < n; i += 2 {
			if r.Bool() {
				perm[i], perm[i+1] = perm[i+1], perm[i]
			}
		}
	default: // several stragglers
		for k := 0; k < 3 && n > 1; k++ {
			i := r.Intn(n - 1)
			j := r.Range(i+1, n-1)
			v := perm[i]
			copy(perm[i:j], perm[i+1:j+1])
			perm[j] = v
		}
	}
	var ps []string
	for _, p := range perm {
		ps = append(ps, fmt.Sprint(p))
	}
	c.SetInt("n", n).Set("perm", strings.Join(ps, ","))
	c.SetInt("wrap", r.PickInt([]int{-1, -1, 3, 10}))
	c.Set("writer", "fasta").SetInt("refidx", -1).SetInt("first", 0)
	if r.Chance(1, 2) {
		// variants.WriteVariants: the record named like the reference is skipped wherever it sits and whenever it arrives
		// (often near the end, so that it can be the last arrival with later records already waiting); with first = 1 the
		// reference was taken off the front by the reader and the indices start at 1
		c.Set("writer", "variants")
		if r.Chance(3, 4) {
			at := r.Intn(n)
			if r.Bool() && n > 1 {
				at = n - 1 - r.Intn(min(n, 3))
			}
			c.SetInt("refidx", at)
			c.Tag("reference-record-inside")
			if r.Chance(2, 3) { // the reference's worker is the slowest: everything else is already waiting when it arrives
				var q []int
				for _, p := range perm {
					if p != at {
						q = append(q, p)
					}
				}
				perm = append(q, at)
				ps = ps[:0]
				for _, p := range perm {
					ps = append(ps, fmt.Sprint(p))
				}
				c.Set("perm", strings.Join(ps, ","))
			}
			if perm[n-1] == at && at != n-1 {
				c.Tag("reference-arrives-last")
			}
		} else {
			c.SetInt("first", 1)
		}
		c.Tag("WriteVariants")
	}
	c.SetInt("seqlen", r.Range(1, 25))
	c.NonTrv = true
	return c
}

func execReord(r *RNG, c *Case) {
	var perm []int
	for _, p := range strings.Split(c.Get("perm"), ",") {
		perm = append(perm, atoi(p))
	}
	wrap := atoi(c.Get("wrap"))
	sl := atoi(c.Get("seqlen"))
	if c.Get("writer") == "variants" {
		first, refidx := atoi(c.Get("first")), atoi(c.Get("refidx"))
		res := safeRun(20*time.Second, func() (string, error) {
			ch := make(chan variants.AnnoStructs)
			cdone := make(chan bool)
			cerr := make(chan error)
			var out bytes.Buffer
			go variants.WriteVariants(&out, -1, -1, first == 1, false, "theRef", ch, cdone, cerr)
			go func() {
				for _, i := range perm {
					name := fmt.Sprintf("r%d", i)
					if i == refidx {
						name = "theRef"
					}
					ch <- variants.AnnoStructs{Queryname: name, Idx: i + first}
				}
				close(ch)
			}()
			select {
			case <-cdone:
				return out.String(), nil
			case err := <-cerr:
				return out.String(), err
			}
		})
		c.Set("go", goField(res))
		return
	}
	res := safeRun(20*time.Second, func() (string, error) {
		ch := make(chan fastaio.FastaRecord)
		cdone := make(chan bool)
		cerr := make(chan error)
		var out bytes.Buffer
		if wrap > 0 {
			go fastaio.WriteWrapAlignment(ch, &out, wrap, cdone, cerr)
		} else {
			go fastaio.WriteAlignment(ch, &out, cdone, cerr)
		}
		go func() {
			for _, i := range perm {
				ch <- fastaio.FastaRecord{ID: fmt.Sprintf("r%d", i), Seq: strings.Repeat(string("ACGT"[i%4]), sl), Idx: i}
			}
			close(ch)
		}()
		select {
		case <-cdone:
			return out.String(), nil
		case err := <-cerr:
			return out.String(), err
		}
	})
	c.Set("go", goField(res))
}

func init() {
	gens["REORD"] = reordGen
	execs["REORD"] = execReord
}
