package main

import (
	"bytes"
	"fmt"
	"strings"
	"time"

	"github.com/virus-evolution/gofasta/pkg/fastaio"
)

// REORD: drive the exported order-restoring writers with an arbitrary arrival permutation
func reordGen(r *RNG, id string) *Case {
	c := NewCase("REORD", id)
	n := r.Range(1, 200)
	perm := make([]int, n)
	for i := range perm {
		perm[i] = i
	}
	switch r.Intn(6) {
	case 0: // reversed
		for i, j := 0, n-1; i < j; i, j = i+1, j-1 {
			perm[i], perm[j] = perm[j], perm[i]
		}
	case 1: // record 0 arrives last (a straggler overtaken by everything)
		perm = append(perm[1:], 0)
	case 2: // a rotation by a large offset
		k := r.Range(0, n-1)
		perm = append(perm[k:], perm[:k]...)
	case 3: // uniform shuffle
		for i := n - 1; i > 0; i-- {
			j := r.Intn(i + 1)
			perm[i], perm[j] = perm[j], perm[i]
		}
	case 4: // local disorder
		for i := 0; i+1 < n; i += 2 {
			if r.Bool() {
				perm[i], perm[i+1] = perm[i+1], perm[i]
			}
		}
	default: // several stragglers
		for k := 0; k < 3 && n > 1; k++ {
			i := r.Intn(n - 1)
			j := r.Range(i+1, n-1)
			v := perm[i]
			copy(perm[i:j], perm[i+1:j+1])
			perm[j] = v
		}
	}
	var ps []string
	for _, p := range perm {
		ps = append(ps, fmt.Sprint(p))
	}
	c.SetInt("n", n).Set("perm", strings.Join(ps, ","))
	c.SetInt("wrap", r.PickInt([]int{-1, -1, 3, 10}))
	c.SetInt("seqlen", r.Range(1, 25))
	c.NonTrv = true
	return c
}

func execReord(r *RNG, c *Case) {
	var perm []int
	for _, p := range strings.Split(c.Get("perm"), ",") {
		perm = append(perm, atoi(p))
	}
	wrap := atoi(c.Get("wrap"))
	sl := atoi(c.Get("seqlen"))
	res := safeRun(20*time.Second, func() (string, error) {
		ch := make(chan fastaio.FastaRecord)
		cdone := make(chan bool)
		cerr := make(chan error)
		var out bytes.Buffer
		if wrap > 0 {
			go fastaio.WriteWrapAlignment(ch, &out, wrap, cdone, cerr)
		} else {
			go fastaio.WriteAlignment(ch, &out, cdone, cerr)
		}
		go func() {
			for _, i := range perm {
				ch <- fastaio.FastaRecord{ID: fmt.Sprintf("r%d", i), Seq: strings.Repeat(string("ACGT"[i%4]), sl), Idx: i}
			}
			close(ch)
		}()
		select {
		case <-cdone:
			return out.String(), nil
		case err := <-cerr:
			return out.String(), err
		}
	})
	c.Set("go", goField(res))
}

func init() {
	gens["REORD"] = reordGen
	execs["REORD"] = execReord
}
