package main

import (
	"bytes"
	"fmt"
	"os"
	"path/filepath"
	"runtime"
	"strings"
	"time"

	"github.com/virus-evolution/gofasta/pkg/closest"
	"github.com/virus-evolution/gofasta/pkg/sam"
	"github.com/virus-evolution/gofasta/pkg/snps"
	"github.com/virus-evolution/gofasta/pkg/updown"
	"github.com/virus-evolution/gofasta/pkg/verifhook"
)

// bigAlignment: enough records that workers overtake each other
func bigAlignment(r *RNG, n, w int) (ref string, names, seqs []string) {
	ref = randSeq(r, w, symACGT, false)
	for i := 0; i < n; i++ {
		names = append(names, fmt.Sprintf("s%03d", i))
		seqs = append(seqs, mutateSeq(r, ref, sym17, 1, 7, false))
	}
	return
}

func c12Gen(r *RNG, id string) *Case {
	if r.Chance(1, 4) { // the exported order-restoring writers under an adversarial arrival order
		return reordGen(r, id)
	}
	kinds := []string{"snps", "snps-agg", "variants", "variants-agg", "variants-gff-shared", "toma", "topa-dir", "topa-dir", "topa-dir", "topa-stdout", "samvariants", "samvariants-agg", "samvariants-twins", "samvariants-twins", "samvariants-twins", "topa-stdout", "topa-stdout",
		"closest", "closest-n", "list", "topranking", "topranking-push", "topranking-push", "topranking-push", "topranking-csv", "topranking-ignore"}
	kind := kinds[r.Intn(len(kinds))]
	c := NewCase("REL", id)
	c.Set("rel", "allsame").Set("relkind", "c12").Set("cmd", kind)
	c.SetInt("dataseed", r.Intn(1<<30))
	c.Tag(kind)
	c.NonTrv = true
	return c
}

type runCfg struct {
	threads    int
	gomaxprocs int
	jitter     uint64
}

func c12Configs(id string, n int) []runCfg {
	r := NewRNG(idSeed(id) + 99)
	var out []runCfg
	for i := 0; i < n; i++ {
		out = append(out, runCfg{threads: r.PickInt([]int{1, 2, 4, 8, 16, 3, 0, -1}), gomaxprocs: r.PickInt([]int{1, 2, 4, 16}), jitter: r.U64()})
	}
	return out
}

func execC12(c *Case) {
	r := NewRNG(uint64(atoi(c.Get("dataseed"))))
	kind := c.Get("cmd")
	nruns := 5
	if opts.tier == "thorough" {
		nruns = 12
	}
	var run func(cfg runCfg) result
	lay := layout{width: 70}
	switch kind {
	case "snps", "snps-agg":
		ref, names, seqs := bigAlignment(r, r.Range(40, 250), r.Range(10, 40))
		refTxt, aln := renderFasta([]string{"ref"}, []string{ref}, lay), renderFasta(names, seqs, lay)
		run = func(cfg runCfg) result {
			if opts.gobin != "" && cfg.jitter%2 == 0 {
				args := []string{"snps", "-r", "{dir}/r.fa", "-q", "{dir}/a.fa"}
				if kind == "snps-agg" {
					args = append(args, "--aggregate")
				}
				return viaBinary(cfg, map[string]string{"r.fa": refTxt, "a.fa": aln}, args)
			}
			return safeRun(60*time.Second, func() (string, error) {
				var out bytes.Buffer
				err := snps.SNPs(strings.NewReader(refTxt), strings.NewReader(aln), false, kind == "snps-agg", 0, &out)
				return out.String(), err
			})
		}
	case "list":
		ref, names, seqs := bigAlignment(r, r.Range(40, 250), r.Range(10, 40))
		refTxt, aln := renderFasta([]string{"ref"}, []string{ref}, lay), renderFasta(names, seqs, lay)
		run = func(cfg runCfg) result {
			if opts.gobin != "" && cfg.jitter%2 == 0 {
				return viaBinary(cfg, map[string]string{"r.fa": refTxt, "a.fa": aln}, []string{"updown", "list", "-r", "{dir}/r.fa", "-q", "{dir}/a.fa"})
			}
			return safeRun(60*time.Second, func() (string, error) {
				var out bytes.Buffer
				err := updown.List(strings.NewReader(refTxt), strings.NewReader(aln), &out)
				return out.String(), err
			})
		}
	case "variants", "variants-agg", "variants-gff-shared":
		vc := genVarCase(r, "x", varOpts{fmtWeights: [2]int{1, 1}, withIns: true, gapRich: true, gffShapes: true, allowPhase: true, maxGenes: 5})
		if kind == "variants-gff-shared" {
			// several named GFF features starting at the same position (order must not depend on map iteration)
			L := len(vc.Get("origin"))
			var rows []gffRow
			for k := 0; k < 4; k++ {
				ln := 6 + 3*k
				if 3+ln-1 <= L {
					rows = append(rows, gffRow{typ: "CDS", start: 3, end: 3 + ln - 1, strand: "+", phase: "0", id: fmt.Sprintf("id%d", k), name: fmt.Sprintf("n%d", k)})
				}
			}
			txt, _ := renderGFF(rows, vc.Get("origin"), true, false, vc.Get("refname"))
			vc.Set("annfmt", "gff").Set("anntext", txt)
		}
		// many copies of the queries so that workers interleave
		names := strings.Split(vc.Get("names"), ",")
		seqs := strings.Split(vc.Get("seqs"), ",")
		base := len(names)
		for k := 0; k < 120; k++ {
			i := r.Intn(base)
			if names[i] == vc.Get("refname") {
				continue
			}
			names = append(names, fmt.Sprintf("%s_c%d", names[i], k))
			seqs = append(seqs, seqs[i])
		}
		run = func(cfg runCfg) result {
			vc.SetInt("threads", cfg.threads)
			return runVariants(vc, seqs, names, vc.Get("anntext"), vc.Get("annfmt"), kind == "variants-agg", false)
		}
	case "samvariants-twins":
		// reads whose insertions have the same length, lie in the same coding feature and sit at different places: the
		// offsets at the feature's two ends agree, the columns inside do not - whatever is kept between pairs and keyed
		// by the former depends on which read a worker meets first
		L := 3 * r.Range(14, 24)
		ref := randSeq(r, L, symACGT, false)
		g := gene{name: "g0", strand: 1, codonStart: 1, segs: [][2]int{{1, L}}, gbForm: "range", gffNamed: true, gffID: true, gffType: "CDS"}
		annTxt, annFmt := "", "gb"
		if r.Bool() {
			annTxt, _ = renderGenbank([]gene{g}, ref)
		} else {
			annFmt = "gff"
			annTxt, _ = renderGFF(gffRowsOf(g), ref, true, true, "refx")
		}
		sites := []int{r.Range(3, L/3), r.Range(L/3+1, 2*L/3), r.Range(2*L/3+1, L-3)}
		var all []samRec
		for k := 0; k < 45; k++ {
			at := sites[k%3]
			q := []byte(ref)
			for _, p := range []int{r.Intn(L), r.Intn(L)} {
				q[p] = r.Pick(symACGT)
			}
			seq := string(q[:at]) + "ACG" + string(q[at:])
			all = append(all, samRec{name: fmt.Sprintf("tw%02d", k), flag: 0, pos: 1, cigar: fmt.Sprintf("%dM3I%dM", at, L-at), seq: seq})
		}
		txt := samText("refx", L, all, true)
		refTxt := renderFasta([]string{"refx"}, []string{ref}, lay)
		run = func(cfg runCfg) result {
			if opts.gobin == "" {
				return safeRun(60*time.Second, func() (string, error) {
					var out bytes.Buffer
					err := sam.Variants(strings.NewReader(txt), strings.NewReader(refTxt), true, strings.NewReader(annTxt), annFmt, &out, -1, -1, false, 0, true, cfg.threads)
					return out.String(), err
				})
			}
			// every run in a process of its own (the binary): state kept in package-level variables does not carry over
			tmpCounter++
			dir := filepath.Join(opts.tmp, fmt.Sprintf("c12-%d-%d", os.Getpid(), tmpCounter))
			os.MkdirAll(dir, 0755)
			defer os.RemoveAll(dir)
			os.WriteFile(filepath.Join(dir, "a.sam"), []byte(txt), 0644)
			os.WriteFile(filepath.Join(dir, "r.fa"), []byte(refTxt), 0644)
			os.WriteFile(filepath.Join(dir, "ann."+annFmt), []byte(annTxt), 0644)
			os.Setenv("VERIF_JITTER_SEED", fmt.Sprint(cfg.jitter%100000))
			os.Setenv("GOMAXPROCS", fmt.Sprint(cfg.gomaxprocs))
			defer os.Unsetenv("VERIF_JITTER_SEED")
			defer os.Unsetenv("GOMAXPROCS")
			o, se, code, to := runCLI(60*time.Second, "", "sam", "variants", "-s", filepath.Join(dir, "a.sam"), "-r", filepath.Join(dir, "r.fa"), "-a", filepath.Join(dir, "ann."+annFmt), "--append-snps", "-t", fmt.Sprint(cfg.threads))
			if to {
				return result{status: "timeout"}
			}
			if code != 0 {
				return result{status: "err:" + firstLine(se)}
			}
			return result{out: o, status: "ok"}
		}
	case "toma", "topa-dir", "topa-stdout", "samvariants", "samvariants-agg":
		sv := samVarGen(r, "x", 3, false)
		txt0, recs := caseSam(sv)
		_ = txt0
		// replicate the queries under new names
		var all []samRec
		copies := 40
		if kind == "topa-stdout" {
			// well over what a pipe holds (64 KiB): a writer that is still flushing when the command returns loses the tail
			copies = 1 + 200000/(2*(atoi(sv.Get("reflen"))+12)*len(blockNames(recs))+1)
			if copies > 999 {
				copies = 999
			}
		}
		for k := 0; k < copies; k++ {
			for _, rec := range recs {
				rr := rec
				rr.name = fmt.Sprintf("%s_%03d", rec.name, k)
				all = append(all, rr)
			}
		}
		// for toPairAlign: reads whose reference rows are equally wide but gapped at different places, interleaved, and a
		// window bound between the two insertion sites - whatever a worker keeps between pairs then depends on the
		// order in which pairs reach it
		ws, we := -1, -1
		if L := atoi(sv.Get("reflen")); (kind == "topa-dir" || kind == "topa-stdout") && L >= 12 && r.Bool() {
			refU := strings.ToUpper(sv.Get("ref"))
			a, b := r.Range(1, L/2-1), r.Range(L/2+1, L-1)
			for k := 0; k < 30; k++ {
				at := []int{a, b}[k%2]
				all = append(all, samRec{name: fmt.Sprintf("tw%02d", k), flag: 0, pos: 1, cigar: fmt.Sprintf("%dM2I%dM", at, L-at), seq: refU[:at] + "GG" + refU[at:]})
			}
			mid := r.Range(a+1, b)
			if r.Bool() {
				ws = mid
			} else {
				we = mid
			}
		}
		if L := atoi(sv.Get("reflen")); (kind == "topa-dir" || kind == "toma") && L >= 12 && r.Bool() {
			// a query whose records are not contiguous (a coordinate-sorted file): two blocks of one name with one block of
			// another query between them, several times over. Whatever is written per block (two FASTA records, the same
			// file twice) must come out the same on every run
			refU := strings.ToUpper(sv.Get("ref"))
			h := L / 2
			for k := 0; k < 12; k++ {
				dn, dn2 := fmt.Sprintf("split%02d", k), fmt.Sprintf("split%02d", k)
				if k%2 == 1 && kind == "topa-dir" {
					// two different names that map to one file name ('/' is written as '_')
					dn, dn2 = fmt.Sprintf("sp%02d/x", k), fmt.Sprintf("sp%02d_x", k)
				}
				all = append(all,
					samRec{name: dn, flag: 0, pos: 1, cigar: fmt.Sprintf("%dM", h), seq: refU[:h]},
					samRec{name: fmt.Sprintf("between%02d", k), flag: 0, pos: 1, cigar: fmt.Sprintf("%dM", L), seq: refU},
					samRec{name: dn2, flag: 2048, pos: h + 1, cigar: fmt.Sprintf("%dM", L-h), seq: strings.Repeat("T", L-h)})
			}
			c.Tag("query-records-not-contiguous")
		}
		txt := samText(sv.Get("rname"), atoi(sv.Get("reflen")), all, true)
		refTxt := renderFasta([]string{sv.Get("rname")}, []string{sv.Get("ref")}, lay)
		switch kind {
		case "toma":
			run = func(cfg runCfg) result {
				if opts.gobin != "" && cfg.jitter%2 == 0 {
					return viaBinary(cfg, map[string]string{"a.sam": txt}, []string{"sam", "toMultiAlign", "-s", "{dir}/a.sam", "-t", fmt.Sprint(cfg.threads)})
				}
				return safeRun(60*time.Second, func() (string, error) {
					var out bytes.Buffer
					err := sam.ToMultiAlign(strings.NewReader(txt), &out, -1, -1, -1, false, cfg.threads)
					return out.String(), err
				})
			}
		case "topa-dir":
			run = func(cfg runCfg) result {
				tmpCounter++
				dir := filepath.Join(opts.tmp, fmt.Sprintf("c12-%d-%d", os.Getpid(), tmpCounter))
				defer os.RemoveAll(dir)
				return safeRun(60*time.Second, func() (string, error) {
					err := sam.ToPairAlign(strings.NewReader(txt), strings.NewReader(refTxt), dir, -1, ws, we, false, false, cfg.threads)
					if err != nil {
						return "", err
					}
					var b strings.Builder
					for _, n := range blockNames(all) {
						d, _ := os.ReadFile(filepath.Join(dir, n+".fasta"))
						b.Write(d)
					}
					return b.String(), nil
				})
			}
		case "topa-stdout":
			run = func(cfg runCfg) result {
				tmpCounter++
				dir := filepath.Join(opts.tmp, fmt.Sprintf("c12-%d-%d", os.Getpid(), tmpCounter))
				os.MkdirAll(dir, 0755)
				defer os.RemoveAll(dir)
				os.WriteFile(filepath.Join(dir, "a.sam"), []byte(txt), 0644)
				os.WriteFile(filepath.Join(dir, "r.fa"), []byte(refTxt), 0644)
				os.Setenv("VERIF_JITTER_SEED", fmt.Sprint(cfg.jitter%100000))
				os.Setenv("GOMAXPROCS", fmt.Sprint(cfg.gomaxprocs))
				defer os.Unsetenv("VERIF_JITTER_SEED")
				defer os.Unsetenv("GOMAXPROCS")
				args := []string{"sam", "toPairAlign", "-s", filepath.Join(dir, "a.sam"), "-r", filepath.Join(dir, "r.fa"), "-o", "stdout", "-t", fmt.Sprint(cfg.threads)}
				if ws > 0 {
					args = append(args, "--start", fmt.Sprint(ws))
				}
				if we > 0 {
					args = append(args, "--end", fmt.Sprint(we))
				}
				if cfg.jitter%3 == 0 { // a consumer that starts reading late and reads slowly
					o, code, to := runCLISlow(60*time.Second, 150*time.Millisecond, args...)
					if to {
						return result{status: "timeout"}
					}
					if code != 0 {
						return result{status: "err:exit " + fmt.Sprint(code)}
					}
					return result{out: o, status: "ok"}
				}
				o, se, code, to := runCLI(60*time.Second, "", args...)
				if to {
					return result{status: "timeout"}
				}
				if code != 0 {
					return result{status: "err:" + firstLine(se)}
				}
				return result{out: o, status: "ok"}
			}
		default:
			run = func(cfg runCfg) result {
				return safeRun(60*time.Second, func() (string, error) {
					var out bytes.Buffer
					err := sam.Variants(strings.NewReader(txt), strings.NewReader(refTxt), true, strings.NewReader(sv.Get("anntext")), sv.Get("annfmt"), &out,
						-1, -1, kind == "samvariants-agg", 0, true, cfg.threads)
					return out.String(), err
				})
			}
		}
	case "closest", "closest-n":
		cc := c06Gen(r, "x", "C06")
		q := renderFasta(splitNames(cc.Get("qnames")), strings.Split(cc.Get("qseqs"), ","), lay)
		t := renderFasta(splitNames(cc.Get("tnames")), strings.Split(cc.Get("tseqs"), ","), lay)
		if atScale(r, 3) {
			// scale: sequences of 33 000 - 70 000 columns on one line each (whatever a reader does piecewise or in
			// parallel for long lines), targets at the same distance from the query that differ in completeness by a
			// single N, the less complete one first in the file: the tie-break reads the completeness score
			w := r.PickInt([]int{33000, 40000, 66000, 70000})
			base := randSeq(r, w, symACGT, false)
			mut := func(src string, k int, sym string) string {
				b := []byte(src)
				for ; k > 0; k-- {
					j := r.Intn(w)
					b[j] = r.Pick(strings.ReplaceAll(sym, string(b[j]), ""))
				}
				return string(b)
			}
			qs := []string{mut(base, 3, symACGT), mut(base, 2, symACGT)}
			var tn, ts []string
			for i := 0; i < 3; i++ {
				full := mut(base, r.Range(1, 3), symACGT)
				tn = append(tn, fmt.Sprintf("t%d_oneN", i), fmt.Sprintf("t%d_complete", i))
				ts = append(ts, mut(full, 1, "N"), full)
			}
			one := layout{width: 0}
			q = renderFasta([]string{"qa", "qb"}, qs, one)
			t = renderFasta(tn, ts, one)
			cc.Set("measure", r.PickStr([]string{"snp", "raw", "tn93"}))
			c.Tag("closest-lines-of-tens-of-thousands-of-columns")
		}
		run = func(cfg runCfg) result {
			return safeRun(60*time.Second, func() (string, error) {
				var out bytes.Buffer
				var err error
				if kind == "closest" {
					err = closest.Closest(strings.NewReader(q), strings.NewReader(t), cc.Get("measure"), &out, cfg.threads)
				} else {
					err = closest.ClosestN(3, -1.0, strings.NewReader(q), strings.NewReader(t), cc.Get("measure"), &out, true, cfg.threads)
				}
				return out.String(), err
			})
		}
	default: // topranking, topranking-push, topranking-csv
		tc := c08Gen(r, "x")
		tc.SetInt("sizetotal", 8).SetInt("sizeup", 0).SetInt("sizedown", 0).SetInt("sizeside", 0).SetInt("sizesame", 0)
		tc.SetInt("distall", 0).SetInt("distup", 0).SetInt("distdown", 0).SetInt("distside", 0).SetInt("distpush", 0)
		if kind == "topranking-push" {
			tc.SetInt("sizetotal", 0).SetInt("distpush", 2)
			if r.Chance(2, 3) {
				// a query equal to the reference and 30-44 descendants, one or two SNPs away, many of them tied on
				// (distance, ambiguity): more candidates in one bin than any small-slice special case of a sort, two
				// distances in the push map (whatever walks that map must not decide the order)
				ref := tc.Get("ref")
				w := len(ref)
				var tn, ts []string
				for i, n := 0, r.Range(30, 44); i < n; i++ {
					b := []byte(ref)
					for k := 1 + i%2; k > 0; k-- {
						j := r.Intn(w)
						b[j] = r.Pick(strings.ReplaceAll(symACGT, string(ref[j]), ""))
					}
					tn = append(tn, fmt.Sprintf("D%02d", i))
					ts = append(ts, string(b))
				}
				tc.Set("qnames", "Qroot").Set("qseqs", ref).Set("tnames", strings.Join(tn, ",")).Set("tseqs", strings.Join(ts, ","))
				c.Tag("push-bin-of-dozens-of-tied-descendants")
			}
		}
		tc.Set("via", "")
		if kind == "topranking-ignore" {
			// several queries (one goroutine each) sharing one long, unsorted --ignore list
			qn, qs := splitNames(tc.Get("qnames")), strings.Split(tc.Get("qseqs"), ",")
			for len(qn) < 6 {
				qn = append(qn, fmt.Sprintf("Qx%d", len(qn)))
				qs = append(qs, qs[len(qs)%len(qs)])
			}
			tc.Set("qnames", strings.Join(qn, ",")).Set("qseqs", strings.Join(qs, ","))
			tn := splitNames(tc.Get("tnames"))
			var ign []string
			for k := 0; k < 400; k++ {
				if k%3 == 0 {
					ign = append(ign, tn[r.Intn(len(tn))])
				} else {
					ign = append(ign, fmt.Sprintf("absent_%d", r.Intn(100000)))
				}
			}
			tc.Set("ignore", strings.Join(ign, ","))
		}
		q, t := trInputs(tc)
		qt, tt := "fasta", "fasta"
		if kind == "topranking-csv" {
			q, _ = udList(tc, q)
			t, _ = udList(tc, t)
			qt, tt = "csv", "csv"
		}
		run = func(cfg runCfg) result { return runTopRanking(tc, qt, tt, q, t) }
	}
	outs := map[string]int{}
	var first result
	prevProcs := runtime.GOMAXPROCS(0)
	inv0 := uint64(0)
	for i, cfg := range c12Configs(c.ID, nruns) {
		runtime.GOMAXPROCS(cfg.gomaxprocs)
		verifhook.SetSeed(cfg.jitter, 400)
		res := run(cfg)
		if res.status == "timeout" {
			// a run that did not finish within its limit is repeated once with the same configuration: a hang that
			// belongs to the code shows again (same input, same jitter seed, same thread counts), a pause of the machine
			// (other checks, a snapshot of the sandbox) does not. The first attempt is kept in the evidence as a tag.
			c.Tag("timeout-retried")
			res = run(cfg)
		}
		verifhook.Disable()
		if i == 0 {
			first = res
		}
		outs[goField(res)]++
	}
	runtime.GOMAXPROCS(prevProcs)
	_, _, inv := verifhook.Stats()
	if inv > inv0 {
		c.Tag("jitter-inverted-an-order")
	}
	c.Set("goa", goField(first)).SetInt("ndistinct", len(outs)).SetInt("runs", nruns)
	// keep a second, different output if there is one (for the replay file)
	c.Set("gob", goField(first))
	for o := range outs {
		if o != goField(first) {
			c.Set("gob", o)
		}
	}
}

// viaBinary runs one configuration in a process of its own (package-level state of the program does not carry over
// from run to run as it does in-process), with the configuration's threads, GOMAXPROCS and jitter seed
func viaBinary(cfg runCfg, files map[string]string, args []string) result {
	tmpCounter++
	dir := filepath.Join(opts.tmp, fmt.Sprintf("c12-%d-%d", os.Getpid(), tmpCounter))
	os.MkdirAll(dir, 0755)
	defer os.RemoveAll(dir)
	for n, t := range files {
		os.WriteFile(filepath.Join(dir, n), []byte(t), 0644)
	}
	a := make([]string, len(args))
	for i, x := range args {
		a[i] = strings.ReplaceAll(x, "{dir}", dir)
	}
	os.Setenv("VERIF_JITTER_SEED", fmt.Sprint(cfg.jitter%100000))
	os.Setenv("GOMAXPROCS", fmt.Sprint(cfg.gomaxprocs))
	defer os.Unsetenv("VERIF_JITTER_SEED")
	defer os.Unsetenv("GOMAXPROCS")
	o, se, code, to := runCLI(60*time.Second, "", a...)
	if to {
		return result{status: "timeout"}
	}
	if code != 0 {
		return result{status: "err:" + firstLine(se)}
	}
	return result{out: o, status: "ok"}
}

func init() {
	gens["C12"] = c12Gen
	execs["C12"] = func(r *RNG, c *Case) { execs[c.Prop](r, c) }
}
