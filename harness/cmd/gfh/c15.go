package main

import (
	"bytes"
	"fmt"
	"os"
	"path/filepath"
	"strings"
	"time"

	"github.com/virus-evolution/gofasta/pkg/sam"
)

// unwrapFasta joins the sequence lines of every record
func unwrapFasta(s string) string {
	var b strings.Builder
	first := true
	for _, l := range strings.Split(strings.TrimSuffix(s, "\n"), "\n") {
		if strings.HasPrefix(l, ">") {
			if !first {
				b.WriteString("\n")
			}
			b.WriteString(l + "\n")
			first = false
		} else {
			b.WriteString(l)
		}
	}
	b.WriteString("\n")
	return b.String()
}

func execRelSam(c *Case) (a, b result) {
	txt, _ := caseSam(c)
	switch c.Get("relkind") {
	case "legacy":
		tmpCounter++
		f := filepath.Join(opts.tmp, fmt.Sprintf("c15-%d-%d.sam", os.Getpid(), tmpCounter))
		os.WriteFile(f, []byte(txt), 0644)
		defer os.Remove(f)
		s, e := atoi(c.Get("start")), atoi(c.Get("end"))
		argsNew := []string{"sam", "toMultiAlign", "-s", f, "-t", c.Get("threads")}
		argsOld := []string{"sam", "toMultiAlign", "-s", f, "-t", c.Get("threads")}
		if idSeed(c.ID)%2 == 0 { // the old coordinates count with and without the old --trim switch
			argsOld = append(argsOld, "--trim")
		}
		if s != -1 {
			argsNew = append(argsNew, "--start", fmt.Sprint(s))
			argsOld = append(argsOld, "--trimstart", fmt.Sprint(s-1))
		}
		if e != -1 {
			argsNew = append(argsNew, "--end", fmt.Sprint(e))
			argsOld = append(argsOld, "--trimend", fmt.Sprint(e))
		}
		if c.Get("pad") == "1" {
			argsNew = append(argsNew, "--pad")
			argsOld = append(argsOld, "--pad")
		}
		run := func(args []string) result {
			o, se, code, to := runCLI(20*time.Second, "", args...)
			if to {
				return result{status: "timeout"}
			}
			if code != 0 {
				return result{status: "err:exit " + fmt.Sprint(code) + " " + firstLine(se)}
			}
			return result{out: o, status: "ok"}
		}
		return run(argsNew), run(argsOld)
	case "unwrap-toma":
		run := func(w int) result {
			return safeRun(30*time.Second, func() (string, error) {
				var out bytes.Buffer
				err := sam.ToMultiAlign(textReader(c.ID, txt), &out, w, atoi(c.Get("start")), atoi(c.Get("end")), c.Get("pad") == "1", atoi(c.Get("threads")))
				return out.String(), err
			})
		}
		a = run(-1)
		b = run(atoi(c.Get("wrapw")))
		if b.status == "ok" {
			b.out = unwrapFasta(b.out)
		}
		return a, b
	}
	return
}

func init() {
	gens["C15toma"] = func(r *RNG, id string) *Case {
		c := tomaGen(r, id, true)
		switch r.Intn(4) {
		case 0:
			c.SetInt("wrap", -1)
			return relOf(c, "legacy", "eq")
		case 1:
			c.SetInt("wrap", -1).SetInt("wrapw", r.Range(1, atoi(c.Get("reflen"))+2))
			return relOf(c, "unwrap-toma", "eq")
		}
		return c
	}
	execs["C15toma"] = func(r *RNG, c *Case) { execs[c.Prop](r, c) }
	gens["C15topa"] = func(r *RNG, id string) *Case { return topaGen(r, id, true) }
	execs["C15topa"] = execTopa
}
