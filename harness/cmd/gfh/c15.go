package main

import (
	"bytes"
	"fmt"
	"os"
	"path/filepath"
	"strings"
	"time"

	"github.com/virus-evolution/gofasta/pkg/sam"
)

// unwrapFasta joins the sequence lines of every record
func unwrapFasta(s string) string {
	var b strings.Builder
	first := true
	for _, l := range strings.Split(strings.TrimSuffix(s, "\n"), "\n") {
		if strings.HasPrefix(l, ">") {
			if !first {
				b.WriteString("\n")
			}
			b.WriteString(l + "\n")
			first = false
		} else {
			b.WriteString(l)
		}
	}
	b.WriteString("\n")
	return b.String()
}

func execRelSam(c *Case) (a, b result) {
	txt, _ := caseSam(c)
	switch c.Get("relkind") {
	case "legacy":
		tmpCounter++
		f := filepath.Join(opts.tmp, fmt.Sprintf("c15-%d-%d.sam", os.Getpid(), tmpCounter))
		os.WriteFile(f, []byte(txt), 0644)
		defer os.Remove(f)
		s, e := atoi(c.Get("start")), atoi(c.Get("end"))
		argsNew := []string{"sam", "toMultiAlign", "-s", f, "-t", c.Get("threads")}
		argsOld := []string{"sam", "toMultiAlign", "-s", f, "-t", c.Get("threads")}
		if idSeed(c.ID)%2 == 0 { // the old coordinates count with and without the old --trim switch
			argsOld = append(argsOld, "--trim")
		}
		if s != -1 {
			argsNew = append(argsNew, "--start", fmt.Sprint(s))
			argsOld = append(argsOld, "--trimstart", fmt.Sprint(s-1))
		}
		if e != -1 {
			argsNew = append(argsNew, "--end", fmt.Sprint(e))
			argsOld = append(argsOld, "--trimend", fmt.Sprint(e))
		}
		if c.Get("pad") == "1" {
			argsNew = append(argsNew, "--pad")
			argsOld = append(argsOld, "--pad")
		}
		run := func(args []string) result {
			o, se, code, to := runCLI(20*time.Second, "", args...)
			if to {
				return result{status: "timeout"}
			}
			if code != 0 {
				return result{status: "err:exit " + fmt.Sprint(code) + " " + firstLine(se)}
			}
			return result{out: o, status: "ok"}
		}
		return run(argsNew), run(argsOld)
	case "window-slice-topa":
		// a pair wider than 65 536 columns: the windowed pair must be the cut of the whole pair at the columns of the
		// window's first and last reference base (both computed from the real program's own unwindowed output)
		_, recs := caseSam(c)
		refTxt := renderFasta([]string{c.Get("rname")}, []string{c.Get("ref")}, layout{width: 0})
		run := func(start, end int) (map[string][2]string, result) {
			tmpCounter++
			dir := filepath.Join(opts.tmp, fmt.Sprintf("c15w-%d-%d", os.Getpid(), tmpCounter))
			defer os.RemoveAll(dir)
			pairs := map[string][2]string{}
			res := safeRun(60*time.Second, func() (string, error) {
				err := sam.ToPairAlign(textReader(c.ID, txt), strings.NewReader(refTxt), dir, -1, start, end, false, false, atoi(c.Get("threads")))
				if err != nil {
					return "", err
				}
				for _, n := range blockNames(recs) {
					b, err := os.ReadFile(filepath.Join(dir, n+".fasta"))
					if err != nil {
						return "", err
					}
					l := strings.Split(string(b), "\n")
					if len(l) < 4 {
						return "", fmt.Errorf("pair file of %s has %d lines", n, len(l))
					}
					pairs[n] = [2]string{l[1], l[3]}
				}
				return "", nil
			})
			return pairs, res
		}
		render := func(pairs map[string][2]string) string {
			var sb strings.Builder
			for _, n := range blockNames(recs) {
				sb.WriteString(n + "\n" + pairs[n][0] + "\n" + pairs[n][1] + "\n")
			}
			return sb.String()
		}
		st, en := atoi(c.Get("start")), atoi(c.Get("end"))
		win, ra := run(st, en)
		whole, rb := run(-1, -1)
		if ra.status != "ok" || rb.status != "ok" {
			return ra, rb
		}
		cut := map[string][2]string{}
		for n, pr := range whole {
			if st == -1 {
				st = 1
			}
			if en == -1 {
				en = atoi(c.Get("reflen"))
			}
			from, to, seen := -1, -1, 0
			for i := 0; i < len(pr[0]); i++ {
				if pr[0][i] != '-' {
					seen++
					if seen == st {
						from = i
					}
					if seen == en {
						to = i + 1
					}
				}
			}
			if from < 0 || to < 0 {
				return ra, result{status: "err:window outside the unwindowed pair"}
			}
			cut[n] = [2]string{pr[0][from:to], pr[1][from:to]}
		}
		ra.out, rb.out = render(win), render(cut)
		return ra, rb
	case "unwrap-toma":
		run := func(w int) result {
			return safeRun(30*time.Second, func() (string, error) {
				var out bytes.Buffer
				err := sam.ToMultiAlign(textReader(c.ID, txt), &out, w, atoi(c.Get("start")), atoi(c.Get("end")), c.Get("pad") == "1", atoi(c.Get("threads")))
				return out.String(), err
			})
		}
		a = run(-1)
		b = run(atoi(c.Get("wrapw")))
		if b.status == "ok" {
			b.out = unwrapFasta(b.out)
		}
		return a, b
	}
	return
}

func init() {
	gens["C15toma"] = func(r *RNG, id string) *Case {
		c := tomaGen(r, id, true)
		switch r.Intn(4) {
		case 0:
			c.SetInt("wrap", -1)
			return relOf(c, "legacy", "eq")
		case 1:
			c.SetInt("wrap", -1).SetInt("wrapw", r.Range(1, atoi(c.Get("reflen"))+2))
			return relOf(c, "unwrap-toma", "eq")
		}
		return c
	}
	execs["C15toma"] = func(r *RNG, c *Case) { execs[c.Prop](r, c) }
	gens["C15topa"] = func(r *RNG, id string) *Case {
		if atScale(r, 100) {
			// scale: a genome of 66 000 - 72 000 bases, two reads over all of it with a few small insertions and deletions,
			// a window that lies beyond (or straddles) column 65 536
			c := NewCase("TOPA", id)
			L := r.Range(66500, 72000)
			ref := randSeq(r, L, symACGT, false)
			sc := samCase{ref: ref, rname: "ref" + fmt.Sprint(r.Intn(9)), tags: map[string]bool{"pair-wider-than-65536-columns": true}}
			for qi := 0; qi < 2; qi++ {
				tmpl := mutateSeq(r, ref, symACGT, 1, 3000, false)
				a := r.Range(100, 30000)
				b := r.Range(100, 30000)
				k, d := r.Range(1, 9), r.Range(1, 9)
				rest := L - a - b - d
				sc.recs = append(sc.recs, samRec{name: fmt.Sprintf("q%d", qi), flag: 0, pos: 1, cigar: fmt.Sprintf("%dM%dI%dM%dD%dM", a, k, b, d, rest),
					seq: tmpl[:a] + randSeq(r, k, symACGT, false) + tmpl[a:a+b] + tmpl[a+b+d:]})
			}
			sc.fill(c)
			st := r.PickInt([]int{r.Range(65000, 65536), r.Range(65537, L-200), 65536, 65537})
			en := r.PickInt([]int{-1, st + r.Range(0, 150), L})
			c.SetInt("start", st).SetInt("end", en).SetInt("threads", r.PickInt([]int{1, 2, 4}))
			return relOf(c, "window-slice-topa", "eq")
		}
		return topaGen(r, id, true)
	}
	execs["C15topa"] = func(r *RNG, c *Case) { execs[c.Prop](r, c) }
}
