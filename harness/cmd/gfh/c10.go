package main

import (
	"bytes"
	"strings"
	"time"

	"github.com/virus-evolution/gofasta/pkg/updown"
)

func init() {
	gens["C10"] = c10Gen
	execs["C10"] = execC10
	shrinkers["C10"] = shrinkAlignment
}

// tractSeq: a copy of base with SNPs and ambiguity tracts placed at the ends, of length 1,
// separated by a single base, or everywhere
func tractSeq(r *RNG, base string) string {
	b := []byte(mutateSeq(r, base, symACGT, 1, 10, false))
	w := len(b)
	put := func(lo, hi int) {
		for i := lo; i <= hi && i < w; i++ {
			if i >= 0 {
				b[i] = r.Pick(symAmb)
				if r.Chance(1, 4) && b[i] >= 'A' && b[i] <= 'Z' {
					b[i] += 32
				}
			}
		}
	}
	switch r.Intn(7) {
	case 0: // at the start
		put(0, r.Range(0, w/3))
	case 1: // at the end
		put(w-1-r.Range(0, w/3), w-1)
	case 2: // length-1 tracts
		for k := 0; k < 3; k++ {
			p := r.Intn(w)
			put(p, p)
		}
	case 3: // two tracts separated by exactly one base
		p := r.Intn(w)
		put(p-r.Range(1, 3), p-1)
		put(p+1, p+r.Range(1, 3))
	case 4: // everything ambiguous
		put(0, w-1)
	case 5: // several random tracts
		for k := 0; k < r.Range(1, 5); k++ {
			p := r.Intn(w)
			put(p, p+r.Range(0, 6))
		}
	}
	return string(b)
}

func c10Gen(r *RNG, id string) *Case {
	c := NewCase("C10", id)
	w := r.Range(1, 200)
	if r.Chance(1, 4) {
		w = r.Range(1, 10)
	}
	ref := randSeq(r, w, symACGT, r.Bool())
	if r.Chance(1, 8) {
		ref = mutateSeq(r, ref, symAmb, 1, 6, true)
		c.Tag("ambiguous-reference")
	}
	n := r.Range(1, 20)
	if m := manyRecords(r, c, 25); m > 0 {
		n = m
		if len(ref) > 24 {
			ref = ref[:24]
		}
	}
	longRow := false
	if c.Get("jit") == "" && r.Chance(1, 40) {
		// a row of several kB (hundreds of SNPs): longer than any block or token buffer a writer might use
		ref = randSeq(r, r.Range(1500, 3000), symACGT, false)
		n = r.Range(2, 4)
		longRow = true
		c.Tag("long-row")
	}
	bigRef := false
	if !longRow && c.Get("jit") == "" && r.Chance(1, 50) {
		// a reference of several thousand columns laid out so that its second line is not in the first 4096 bytes a
		// scanner reads together with the first line (two long lines, a short line then a long one, a long description)
		ref = randSeq(r, r.Range(5000, 9000), symACGT, false)
		if r.Chance(1, 3) {
			ref = mutateSeq(r, ref, symAmb, 1, 12, true)
		}
		n = r.Range(2, 3)
		bigRef = true
		c.Set("reflay", r.PickStr([]string{"half", "short-first", "long-header", "w2500"}))
		c.Tag("reference-beyond-one-scanner-window")
	}
	blockAligned := 0
	if !longRow && !bigRef && c.Get("jit") == "" && r.Chance(1, 16) {
		// scale: several hundred to a few thousand columns, rows equal to the reference except for tracts and single
		// symbols that begin or end exactly at multiples of a power of two (a reader or comparer that works in blocks
		// must carry its state across the blocks it skips)
		ref = randSeq(r, r.PickInt([]int{520, 700, 1100, 2100, 4200}), symACGT, false)
		n = r.Range(3, 7)
		blockAligned = r.PickInt([]int{32, 64, 128, 256, 256, 512, 1024})
		for blockAligned*2 > len(ref) {
			blockAligned /= 2
		}
		c.Tag("block-aligned-tracts")
	}
	var seqs []string
	for i := 0; i < n; i++ {
		if blockAligned > 0 {
			seqs = append(seqs, blockAlignedRow(r, strings.ToUpper(ref), blockAligned))
			continue
		}
		if bigRef {
			seqs = append(seqs, mutateSeq(r, strings.ToUpper(ref), symACGT, 1, 12, false))
			continue
		}
		if longRow && i == n/2 {
			seqs = append(seqs, mutateSeq(r, strings.ToUpper(ref), symACGT, 9, 10, false))
			continue
		}
		seqs = append(seqs, tractSeq(r, strings.ToUpper(ref)))
	}
	c.Set("ref", ref).Set("names", strings.Join(randNamesCSV(r, n, "", true), ",")).Set("seqs", strings.Join(seqs, ","))
	maybeCLI(r, c, 6)
	for _, s := range seqs {
		if hasAmbig(s) {
			c.NonTrv = true
		}
	}
	return c
}

func execC10(r *RNG, c *Case) {
	names := splitNames(c.Get("names"))
	seqs := strings.Split(c.Get("seqs"), ",")
	refTxt := renderFasta([]string{"reference"}, []string{c.Get("ref")}, randLayout(r))
	if lay := c.Get("reflay"); lay != "" {
		ref := c.Get("ref")
		cut := func(w int) string {
			var b strings.Builder
			for i := 0; i < len(ref); i += w {
				e := i + w
				if e > len(ref) {
					e = len(ref)
				}
				b.WriteString(ref[i:e] + "\n")
			}
			return b.String()
		}
		switch lay {
		case "half":
			refTxt = ">reference\n" + cut((len(ref)+1)/2)
		case "short-first":
			refTxt = ">reference\n" + ref[:10] + "\n" + ref[10:] + "\n"
		case "long-header":
			refTxt = ">reference " + strings.Repeat("isolate description ", 200) + "\n" + cut(70)
		default:
			refTxt = ">reference\n" + cut(2500)
		}
	}
	alnTxt := renderFasta(withDescriptions(r, names), seqs, randLayout(r))
	if isCLI(c) {
		c.Set("go", goField(viaCLI(map[string]string{"r.fa": refTxt, "a.fa": alnTxt}, "", []string{"updown", "list", "-r", "{dir}/r.fa", "-q", "{dir}/a.fa"}, nil)))
		return
	}
	res := safeRun(20*time.Second, func() (string, error) {
		var out bytes.Buffer
		err := updown.List(strings.NewReader(refTxt), strings.NewReader(alnTxt), &out)
		return out.String(), err
	})
	c.Set("go", goField(res))
}

// blockAlignedRow: ref with 2-6 features placed at multiples of B (1-based column m = k*B): a tract ending exactly at m, a tract
// beginning at m+1, a single ambiguous symbol or a substitution at m or m+1
func blockAlignedRow(r *RNG, ref string, B int) string {
	b := []byte(ref)
	w := len(b)
	set := func(from, to int, sym byte) { // 1-based, inclusive
		for p := from; p <= to; p++ {
			if p >= 1 && p <= w {
				b[p-1] = sym
			}
		}
	}
	for k := r.Range(2, 6); k > 0; k-- {
		m := r.Range(1, w/B) * B
		sym := r.Pick("NN-?RY")
		L := r.PickInt([]int{1, 2, B / 2, B, B, 2 * B})
		switch r.Intn(6) {
		case 0, 1:
			set(m-L+1, m, sym)
		case 2:
			set(m+1, m+L, sym)
		case 3:
			set(m+1, m+1, sym)
		case 4:
			set(m, m, sym)
		default:
			p := m + r.Intn(2)
			if p <= w {
				b[p-1] = r.Pick(strings.ReplaceAll(symACGT, string(ref[p-1]), ""))
			}
		}
	}
	return string(b)
}
