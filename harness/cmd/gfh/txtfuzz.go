package main

import (
	"encoding/hex"
	"fmt"
	"os"
	"os/exec"
	"path/filepath"
	"sort"
	"strconv"
	"strings"
)

// Streams C01samfuzz / C14gfffuzz / C14gbfuzz (thorough tier): `go test -fuzz` on the real text reader for o.n seconds
// in the per-run copy of this module; every input the fuzzer kept (new coverage of the reader) becomes a case of the
// text-layer stream: the real reader is run on it once more and the Lean model must give the same canonical dump.
func init() {
	streams["C01samfuzz"] = func(o *runOpts, s *Sink) {
		txtFuzzStream(o, s, "FuzzSamText", "C01samfuzz", func(id, text string) *Case {
			c := NewCase("SAMTXT", id)
			c.Set("kind", "fuzz").Set("text", hex.EncodeToString([]byte(text)))
			execSamText(nil, c)
			return c
		})
	}
	streams["C14gfffuzz"] = func(o *runOpts, s *Sink) {
		txtFuzzStream(o, s, "FuzzGffText", "C14gfffuzz", func(id, text string) *Case {
			c := NewCase("GFFTXT", id)
			c.Set("kind", "fuzz").Set("text", rleEnc(text))
			execGffText(nil, c)
			return c
		})
	}
	streams["C14gbfuzz"] = func(o *runOpts, s *Sink) {
		txtFuzzStream(o, s, "FuzzGbText", "C14gbfuzz", func(id, text string) *Case {
			c := NewCase("GBTXT", id)
			c.Set("kind", "fuzz").Set("text", hex.EncodeToString([]byte(text)))
			execGb(nil, c)
			return c
		})
	}
}

// parseFuzzBytes reads Go's corpus file format ("go test fuzz v1", one Go literal per line) for a single []byte argument
func parseFuzzBytes(path string) (string, bool) {
	b, err := os.ReadFile(path)
	if err != nil {
		return "", false
	}
	lines := strings.Split(strings.TrimSpace(string(b)), "\n")
	if len(lines) < 2 || !strings.HasPrefix(lines[0], "go test fuzz v1") {
		return "", false
	}
	l := strings.TrimSpace(lines[1])
	if !strings.HasPrefix(l, "[]byte(") || !strings.HasSuffix(l, ")") {
		return "", false
	}
	s, err := strconv.Unquote(l[len("[]byte(") : len(l)-1])
	if err != nil {
		return "", false
	}
	return s, true
}

func txtFuzzStream(o *runOpts, s *Sink, target, stream string, mk func(id, text string) *Case) {
	hdir := filepath.Join(o.tmp, "harness")
	if _, err := os.Stat(filepath.Join(hdir, "go.mod")); err != nil {
		fmt.Fprintln(os.Stderr, stream+": no harness sources under", hdir)
		os.Exit(2)
	}
	cache := filepath.Join(o.tmp, fmt.Sprintf("fuzzcache-%s-%d", stream, o.seed))
	os.MkdirAll(cache, 0755)
	secs := o.n
	if secs <= 0 {
		secs = 10
	}
	cmd := exec.Command("go", "test", "-tags", "verif", "-run", "^$", "-fuzz", "^"+target+"$", "-fuzztime", fmt.Sprintf("%ds", secs), "./cmd/gfh")
	cmd.Dir = hdir
	cmd.Env = append(os.Environ(), "GOCACHE="+cache)
	out, err := cmd.CombinedOutput()
	tail := string(out)
	if len(tail) > 600 {
		tail = tail[len(tail)-600:]
	}
	fmt.Fprintln(os.Stderr, "go test -fuzz:", strings.ReplaceAll(tail, "\n", " | "))
	var files []string
	for _, d := range []string{filepath.Join(cache, "fuzz"), filepath.Join(hdir, "cmd", "gfh", "testdata", "fuzz", target)} {
		filepath.Walk(d, func(p string, info os.FileInfo, e error) error {
			if e == nil && !info.IsDir() && strings.Contains(p, target) {
				files = append(files, p)
			}
			return nil
		})
	}
	sort.Strings(files)
	if err != nil && len(files) == 0 {
		fmt.Fprintln(os.Stderr, stream+": go test failed and left no corpus:", err)
		os.Exit(2)
	}
	k := 0
	for _, f := range files {
		text, ok := parseFuzzBytes(f)
		if !ok || len(text) > 8192 {
			continue
		}
		if stream == "C14gbfuzz" && longDigitRun(text, 6) {
			// a location such as 1..9999999 makes both sides build a list of that many positions (the Go side and the
			// driver skip 8-19 digits themselves; 6 and 7 digits would still cost gigabytes in the driver)
			continue
		}
		c := mk(fmt.Sprintf("%s-%d-%d", stream, o.seed, k), text)
		c.Tag("go-fuzz-corpus")
		c.NonTrv = true
		s.Emit(c)
		k++
	}
}

func longDigitRun(s string, n int) bool {
	run := 0
	for i := 0; i < len(s); i++ {
		if s[i] >= '0' && s[i] <= '9' {
			run++
			if run >= n {
				return true
			}
		} else {
			run = 0
		}
	}
	return false
}
