package main

import (
	"encoding/hex"
	"fmt"
	"io"
	"regexp"
	"strings"
	"time"

	biogosam "github.com/biogo/hts/sam"
)

// Stream C01sam (prop SAMTXT): SAM texts -> the real reader of github.com/biogo/hts/sam, driven exactly as
// pkg/sam/sam.go groupSamRecords drives it (NewReader, Header, Read until io.EOF or the first error) -> a canonical
// dump of everything it returned. The Lean model of the reader (Gofasta/Model/SamText.lean) must print the same dump.
//   C01sam  : valid texts (55%) and corrupted ones (45%)
//   C01samv : valid texts only          C01samx : corrupted texts only
// kind=plain: the text is samText(rname, reflen, recs) of samgen.go, byte for byte (fields ref, rname, reflen, recs).
// Case fields: text (hex of the bytes), kind, and for texts written from structured rows whose reading must give
// the rows back: recs (name~flag~POS~CIGAR~SEQ;...), rnames (RNAME per row), refs (name~length;... of the @SQ lines).
//
// Dump format (field `go`), one line per feature, fields separated by one space, hx(b) = lower-case hex or "-" if empty:
//   !error:<class>[@<line>] | !panic          NewReader failed (class: see samHeaderErrClass)
//   HD <hx Version> <SortOrder int> <GroupOrder int> <tags>
//   SQ <ID()> <hx Name()> <Len()> <tags>      one per Header.Refs() right after NewReader (tags: all of Tags() after SN, LN)
//   RG <hx Name()> / PG <hx UID()> / CO <hx comment>
//   R <hx Name> <Flags> <ref> <Pos> <MapQ> <cigar> <materef> <MatePos> <TempLen> <Seq.Length> <hx Seq.Expand()> <hx Qual> <aux>
//        ref = * | <hx name>:<ID()>:<Len()>      cigar = * | <type int>:<len>,...      aux = - | <hex of the Aux bytes>,...
//   E eof | E error:<class> | E panic          how the Read loop ended
//   ZQ <ID()> <hx Name()> <Len()>              Header.Refs() after the loop
//   tags = - | <hx tag>:<hx value>,...

func init() {
	gens["C01sam"] = func(r *RNG, id string) *Case { return samTextGen(r, id, 0) }
	gens["C01samv"] = func(r *RNG, id string) *Case { return samTextGen(r, id, 1) }
	gens["C01samx"] = func(r *RNG, id string) *Case { return samTextGen(r, id, 2) }
	for _, k := range []string{"SAMTXT", "C01sam", "C01samv", "C01samx"} {
		execs[k] = execSamText
	}
}

func hx(b []byte) string {
	if len(b) == 0 {
		return "-"
	}
	return hex.EncodeToString(b)
}

var reLine = regexp.MustCompile(`: line (\d+): `)

// class of an error of NewReader: the message text up to the line number
func samHeaderErrClass(err error) string {
	msg := err.Error()
	cls := "other"
	switch {
	case err == io.EOF:
		return "eof"
	case err == io.ErrUnexpectedEOF:
		return "unexpected-eof"
	case strings.HasPrefix(msg, "sam: malformed header line"):
		cls = "bad-header"
	case strings.HasPrefix(msg, "sam: duplicate field"):
		cls = "dup-tag"
	case strings.HasPrefix(msg, "sam: duplicate reference name"):
		cls = "dup-ref"
	case strings.HasPrefix(msg, "sam: reference length out of range"):
		cls = "bad-len"
	case strings.HasPrefix(msg, "sam: duplicate read group name"):
		cls = "dup-rg"
	case strings.HasPrefix(msg, "sam: duplicate program name"):
		cls = "dup-pg"
	case strings.HasPrefix(msg, "encoding/hex:"):
		cls = "hex"
	case strings.HasPrefix(msg, "strconv.Atoi:"):
		cls = "atoi"
	}
	if m := reLine.FindStringSubmatch(msg); m != nil {
		cls += "@" + m[1]
	}
	return cls
}

var samRecErrs = []struct{ prefix, class string }{
	{"sam: missing SAM fields", "fields"},
	{"sam: failed to parse flags", "flags"},
	{"sam: failed to assign reference", "ref"},
	{"sam: failed to parse position", "pos"},
	{"sam: failed to parse map quality", "mapq"},
	{"sam: failed to parse cigar string", "cigar"},
	{"sam: failed to assign mate reference", "materef"},
	{"sam: failed to parse mate position", "matepos"},
	{"sam: failed to parse template length", "tlen"},
	{"sam: sequence/CIGAR length mismatch", "seqcigar"},
	{"sam: sequence/quality length mismatch", "qual"},
	{"sam: invalid aux tag field", "aux"},
}

func samRecErrClass(err error) string {
	msg := err.Error()
	for _, e := range samRecErrs {
		if strings.HasPrefix(msg, e.prefix) {
			return e.class
		}
	}
	return "other:" + firstLine(msg)
}

func tagList(kv [][2]string) string {
	if len(kv) == 0 {
		return "-"
	}
	out := make([]string, len(kv))
	for i, p := range kv {
		out[i] = hx([]byte(p[0])) + ":" + hx([]byte(p[1]))
	}
	return strings.Join(out, ",")
}

func refDump(r *biogosam.Reference) string {
	if r == nil {
		return "*"
	}
	return fmt.Sprintf("%s:%d:%d", hx([]byte(r.Name())), r.ID(), r.Len())
}

// catch runs f and reports whether it panicked
func catch(f func()) (panicked bool) {
	defer func() {
		if p := recover(); p != nil {
			panicked = true
		}
	}()
	f()
	return false
}

// dumpSam: what groupSamRecords does with the reader, every result written down
func dumpSam(text string) string {
	var s *biogosam.Reader
	var err error
	if catch(func() { s, err = biogosam.NewReader(strings.NewReader(text)) }) {
		return "!panic"
	}
	if err != nil {
		return "!error:" + samHeaderErrClass(err)
	}
	var b strings.Builder
	h := s.Header()
	var htags [][2]string
	h.Tags(func(t biogosam.Tag, v string) {
		if ts := t.String(); ts != "VN" && ts != "SO" && ts != "GO" {
			htags = append(htags, [2]string{ts, v})
		}
	})
	fmt.Fprintf(&b, "HD %s %d %d %s\n", hx([]byte(h.Version)), int(h.SortOrder), int(h.GroupOrder), tagList(htags))
	for _, ref := range h.Refs() {
		var tags [][2]string
		n := 0
		ref.Tags(func(t biogosam.Tag, v string) {
			if n >= 2 {
				tags = append(tags, [2]string{t.String(), v})
			}
			n++
		})
		fmt.Fprintf(&b, "SQ %d %s %d %s\n", ref.ID(), hx([]byte(ref.Name())), ref.Len(), tagList(tags))
	}
	for _, rg := range h.RGs() {
		fmt.Fprintf(&b, "RG %s\n", hx([]byte(rg.Name())))
	}
	for _, p := range h.Progs() {
		fmt.Fprintf(&b, "PG %s\n", hx([]byte(p.UID())))
	}
	for _, co := range h.Comments {
		fmt.Fprintf(&b, "CO %s\n", hx([]byte(co)))
	}
	for {
		var rec *biogosam.Record
		if catch(func() { rec, err = s.Read() }) {
			b.WriteString("E panic\n")
			break
		}
		if err == io.EOF {
			b.WriteString("E eof\n")
			break
		}
		if err != nil {
			b.WriteString("E error:" + samRecErrClass(err) + "\n")
			break
		}
		cig := "*"
		if len(rec.Cigar) > 0 {
			ops := make([]string, len(rec.Cigar))
			for i, co := range rec.Cigar {
				ops[i] = fmt.Sprintf("%d:%d", int(co.Type()), co.Len())
			}
			cig = strings.Join(ops, ",")
		}
		aux := "-"
		if len(rec.AuxFields) > 0 {
			as := make([]string, len(rec.AuxFields))
			for i, a := range rec.AuxFields {
				as[i] = hx([]byte(a))
			}
			aux = strings.Join(as, ",")
		}
		fmt.Fprintf(&b, "R %s %d %s %d %d %s %s %d %d %d %s %s %s\n", hx([]byte(rec.Name)), int(rec.Flags), refDump(rec.Ref),
			rec.Pos, int(rec.MapQ), cig, refDump(rec.MateRef), rec.MatePos, rec.TempLen, rec.Seq.Length, hx(rec.Seq.Expand()),
			hx(rec.Qual), aux)
	}
	for _, ref := range s.Header().Refs() {
		fmt.Fprintf(&b, "ZQ %d %s %d\n", ref.ID(), hx([]byte(ref.Name())), ref.Len())
	}
	return strings.TrimSuffix(b.String(), "\n")
}

func execSamText(r *RNG, c *Case) {
	raw, err := hex.DecodeString(c.Get("text"))
	if err != nil {
		c.Set("go", "!bad-case")
		return
	}
	res := safeRun(30*time.Second, func() (string, error) { return dumpSam(string(raw)), nil })
	if res.status != "ok" {
		c.Set("go", "!"+statusClass(res.status))
		return
	}
	c.Set("go", res.out)
}

// ---------------------------------------------------------------- generation

// a SAM text in pieces: header lines, records as field lists, line ends
type samDoc struct {
	header  []string
	recs    [][]string
	eol     string
	finalNL bool
	// the rows the text was written from; plain = reading the text must give them back
	rows   []samRec
	rnames []string
	refs   [][2]string
	plain  bool
}

func (d *samDoc) text() string {
	var lines []string
	lines = append(lines, d.header...)
	for _, f := range d.recs {
		lines = append(lines, strings.Join(f, "\t"))
	}
	t := strings.Join(lines, d.eol)
	if d.finalNL && len(lines) > 0 {
		t += d.eol
	}
	return t
}

const seqPlain = "ACGT"
const seqIupac = "ACGTRYSWKMBDHVN="

var samRefNames = []string{"ref1", "MN908947.3", "chr1", "NC_045512.2", "a|b", "x:1-200", "hCoV-19/Wuhan/WH04/2020", "1", "r=1"}

func randQual(r *RNG, n int) string {
	b := make([]byte, n)
	for i := range b {
		b[i] = byte(r.Range(33, 126))
	}
	return string(b)
}

var validTags = []func(r *RNG) string{
	func(r *RNG) string { return fmt.Sprintf("NM:i:%d", r.Intn(40)) },
	func(r *RNG) string {
		return "XI:i:" + r.PickStr([]string{"-1", "-128", "-129", "-32768", "-32769", "-2147483648", "255", "256", "65535", "65536", "4294967295", "+7", "0", "-0"})
	},
	func(r *RNG) string {
		return "MD:Z:" + r.PickStr([]string{"10A5^AC6", "0", "151", "3^T0A1", "a b:c", "*"})
	},
	func(r *RNG) string { return "XS:A:" + string(byte(r.Range(33, 126))) },
	func(r *RNG) string {
		return "XF:f:" + r.PickStr([]string{"1.5", "-0.25", "3", "1e-3", "-2.5E+10", "0", "-0", ".5", "5.", "1e10", "3.4028235e38", "1e-45", "7e-46", "1.17549435e-38",
			"inf", "-Inf", "+infinity", "NaN", "0x1p-2", "0X1.8P3", "-0x.8p1", "1_0.5", "0.1", "16777217", "0.30000001192092896", "1e-50", "123456789012345678901234567890",
			"3.4028235677973366e38", "1.00000017881393432617187500", "1.00000017881393421514957253748434595763683319091796875"})
	},
	func(r *RNG) string {
		return "ZB:B:" + r.PickStr([]string{"c,1,2,-3", "C,0,255", "s,-32768,32767", "S,65535", "i,-2147483648,5", "I,4294967295,0x10", "f,1.5,-2e3,0", "c,-128,127,0x7f,0b11,0o7,07",
			"C,1_0", "i,+5", "f,inf,nan"})
	},
	func(r *RNG) string { return "ZH:H:" + r.PickStr([]string{"1AE3", "00", "ff", "DEADbeef", "0a0B"}) },
	func(r *RNG) string { return "RG:Z:grp1" },
	func(r *RNG) string { return fmt.Sprintf("AS:i:%d", r.Intn(70000)) },
}

// genValidDoc: a SAM text with the variety real files have
func genValidDoc(r *RNG) *samDoc {
	d := &samDoc{eol: "\n", finalNL: true, plain: true}
	sc := genSam(r, false, 3)
	L := len(sc.ref)
	// references: the one of the rows plus up to two others
	names := append([]string{}, samRefNames...)
	main := sc.rname
	if r.Chance(1, 2) {
		main = r.PickStr(names)
	}
	d.refs = [][2]string{{main, fmt.Sprint(L)}}
	for k := r.Intn(3); k > 0; k-- {
		n := fmt.Sprintf("other%d", k)
		e := [2]string{n, fmt.Sprint(r.PickInt([]int{1, 50, 29903, 2147483647, r.Range(1, 100000)}))}
		if r.Bool() {
			d.refs = append(d.refs, e)
		} else {
			d.refs = append([][2]string{e}, d.refs...)
		}
	}
	// header lines
	var hd, sq, rest []string
	if !r.Chance(1, 10) {
		l := "@HD\tVN:" + r.PickStr([]string{"1.6", "1.0", "1.5", "x"})
		if r.Chance(2, 3) {
			l += "\tSO:" + r.PickStr([]string{"unsorted", "coordinate", "queryname", "unknown", "weird"})
		}
		if r.Chance(1, 4) {
			l += "\tGO:" + r.PickStr([]string{"none", "query", "reference", "zzz"})
		}
		if r.Chance(1, 5) {
			l += "\tSS:coordinate:natural"
		}
		hd = append(hd, l)
	}
	for _, e := range d.refs {
		l := "@SQ\tSN:" + e[0] + "\tLN:" + e[1]
		if r.Chance(1, 4) {
			l = "@SQ\tLN:" + e[1] + "\tSN:" + e[0]
		}
		if r.Chance(1, 6) {
			l += "\tM5:" + r.PickStr([]string{"d41d8cd98f00b204e9800998ecf8427e", "D41D8CD98F00B204E9800998ECF8427E"})
		}
		if r.Chance(1, 6) {
			l += "\tAS:asm1"
		}
		if r.Chance(1, 6) {
			l += "\tSP:Severe acute respiratory syndrome coronavirus 2"
		}
		if r.Chance(1, 6) {
			l += "\tTP:linear\tAN:alt1,alt2"
		}
		sq = append(sq, l)
	}
	if r.Chance(1, 3) {
		rest = append(rest, "@RG\tID:grp1\tSM:sample\tPL:ILLUMINA"+r.PickStr([]string{"", "\tPI:300", "\tPI:-5", "\tLB:lib\tPU:unit"}))
		if r.Chance(1, 3) {
			rest = append(rest, "@RG\tID:grp2")
		}
	}
	if r.Chance(2, 3) {
		rest = append(rest, "@PG\tID:minimap2\tPN:minimap2\tVN:2.17-r941\tCL:minimap2 -a -x asm5 ref.fa in.fa")
		if r.Chance(1, 3) {
			rest = append(rest, "@PG\tID:samtools\tPN:samtools\tPP:minimap2\tVN:1.10")
		}
	}
	if r.Chance(1, 4) {
		rest = append(rest, "@CO\t"+r.PickStr([]string{"a comment", "", "with\ttabs\tinside", "@SQ looks like a header"}))
	}
	d.header = append(append(hd, sq...), rest...)
	if r.Chance(1, 5) { // any order
		for i := len(d.header) - 1; i > 0; i-- {
			j := r.Intn(i + 1)
			d.header[i], d.header[j] = d.header[j], d.header[i]
		}
		// the order of the @SQ lines is the order of the references
		var rs [][2]string
		for _, l := range d.header {
			if strings.HasPrefix(l, "@SQ") {
				for _, e := range d.refs {
					if strings.Contains(l, "SN:"+e[0]+"\t") || strings.HasSuffix(l, "SN:"+e[0]) {
						rs = append(rs, e)
					}
				}
			}
		}
		d.refs = rs
	}
	noHeader := r.Chance(1, 8)
	if noHeader {
		d.header = nil
		d.refs = nil
	}
	// rows: the aligned ones of genSam and a few others
	rows := append([]samRec{}, sc.recs...)
	for k := r.Intn(3); k > 0; k-- { // unmapped reads
		seq := randSeq(r, r.Range(1, 30), seqPlain, false)
		if r.Chance(1, 4) {
			seq = "*"
		}
		at := r.Intn(len(rows) + 1)
		rows = append(rows[:at], append([]samRec{{name: fmt.Sprintf("un%d", k), flag: r.PickInt([]int{4, 4 + 1 + 8 + 64, 4 + 512}), pos: 0, cigar: "*", seq: seq}}, rows[at:]...)...)
	}
	if r.Chance(1, 4) { // multi-digit lengths, every operator
		n1, n2 := r.Range(100, 1500), r.Range(10, 300)
		cig := fmt.Sprintf("%dH%dS%dM%dI%dM%dD%d=%dN%dX%dP%dM%dS%dH", r.Range(1, 99), 12, n1, 11, n2, 105, 20, 1000, 13, 2, 10, 15, 7)
		seq := randSeq(r, 12+n1+11+n2+20+13+10+15, seqPlain, false)
		rows = append(rows, samRec{name: "long", flag: r.PickInt([]int{0, 16, 2048, 99, 147, 83, 163, 1024, 2064}), pos: r.Range(1, L), cigar: cig, seq: seq})
	}
	for i := range rows {
		if rows[i].flag == 0 && r.Chance(1, 6) {
			rows[i].flag = r.PickInt([]int{99, 147, 83, 163, 1, 1024, 512, 65, 129, 65535})
		}
		if r.Chance(1, 10) && rows[i].seq != "*" { // IUPAC codes and '=' in SEQ
			rows[i].seq = mutateSeq(r, rows[i].seq, seqIupac, 1, 4, false)
		}
		if r.Chance(1, 12) {
			rows[i].name = r.PickStr([]string{"read/1", "r 1", "@odd", "x,y", "Ünï", "q|1|2", "*"})
			if i == 0 {
				rows[i].name = "first" // a first byte '@' would make the line a header line
			}
		}
	}
	d.rows = rows
	// the lines
	grp := false
	for _, l := range d.header {
		if strings.HasPrefix(l, "@RG\tID:grp1") {
			grp = true
		}
	}
	_ = grp
	for _, row := range rows {
		rname := main
		if noHeader && r.Chance(1, 3) {
			rname = r.PickStr([]string{"other1", "zz"})
		}
		pos := fmt.Sprint(row.pos)
		if row.flag&4 != 0 {
			rname = "*"
			if r.Chance(1, 3) && !noHeader { // an unmapped read placed at its mate's position
				rname = main
				pos = fmt.Sprint(r.Range(1, L))
			}
		}
		mapq := "60"
		if r.Chance(1, 3) {
			mapq = fmt.Sprint(r.PickInt([]int{0, 1, 255, r.Intn(256)}))
		}
		rnext, pnext, tlen := "*", "0", "0"
		if r.Chance(1, 4) {
			rnext = r.PickStr([]string{"=", rname, "*"})
			if len(d.refs) > 1 && r.Bool() {
				rnext = d.refs[r.Intn(len(d.refs))][0]
			}
			pnext = fmt.Sprint(r.Range(0, L))
			tlen = fmt.Sprint(r.Range(-500, 500))
		}
		qual := "*"
		if r.Chance(1, 3) && row.seq != "*" {
			qual = randQual(r, len(row.seq))
		}
		seq := row.seq
		f := []string{row.name, fmt.Sprint(row.flag), rname, pos, mapq, row.cigar, rnext, pnext, tlen, seq, qual}
		if r.Chance(1, 3) {
			for k := r.Range(1, 4); k > 0; k-- {
				f = append(f, validTags[r.Intn(len(validTags))](r))
			}
		}
		d.recs = append(d.recs, f)
		if pos != fmt.Sprint(row.pos) {
			d.rows[len(d.recs)-1].pos = atoi(pos)
		}
		d.rnames = append(d.rnames, rname)
	}
	// layout variety that changes what is read back: the rows are not promised then
	switch r.Intn(16) {
	case 0, 1:
		d.eol = "\r\n"
	case 2:
		d.finalNL = false
		d.plain = false // the unterminated last line is not returned
	case 3:
		d.plain = false // SEQ in lower case / with '.' : Expand gives upper case / N
		for _, f := range d.recs {
			if r.Bool() {
				f[9] = strings.ToLower(f[9])
			} else {
				f[9] = strings.Replace(f[9], "A", ".", 2)
			}
		}
	case 4:
		if r.Bool() { // flags written in another base
			d.plain = false
			for _, f := range d.recs {
				f[1] = fmt.Sprintf(r.PickStr([]string{"0x%x", "0X%X", "0%o", "0b%b", "0o%o"}), atoi(f[1]))
			}
		}
	case 5:
		d.plain = false // a blank line (as some writers leave at the end)
		if r.Bool() || len(d.recs) == 0 {
			d.recs = append(d.recs, []string{""})
		} else {
			at := r.Intn(len(d.recs))
			d.recs = append(d.recs[:at], append([][]string{{""}}, d.recs[at:]...)...)
		}
	}
	if noHeader {
		d.plain = d.plain && false
	}
	return d
}

var badFlags = []string{"x", "-1", "65536", "65535", "0x10", "0b101", "0o17", "017", "08", "1_0", "_1", "1__0", "0x", "+4", " 4", "4 ", "99999999999999999999", "0X1F", "0x1_f", "1_", "0_7", "0x_1", "", "0", "00", "1e2", "４"}
var badInts = []string{"abc", "-5", "+7", "1.5", "", "9223372036854775807", "9223372036854775808", "-9223372036854775808", "-9223372036854775809", "1_0", "0x10", " 1", "1 ", "٣", "-", "+", "000000000000000000012", "-0", "0", "2147483648", "99999999999999999999999"}
var badMapqs = []string{"256", "-1", "x", "255", "0x1", "1_0", "+1", "", "007", "1e1", "300000000000000000000"}
var badCigars = []string{"5Z", "5m", "0M", "M", "99999999999999M", "9999999999999M", "268435455M", "268435456M", "536870910M5", "268435455M7", "10M5", "5", "55", "0", "*M", "1M*", "", "3M2B3M", "3M5B3M",
	"-5M", "5 M", " 5M", "5M ", "**", "MM", "1M1", "3=2X", "00005M", "1H", "5S", "2P", "5M\x00", "5M5", "１M"}
var badTags = []string{"NM:i", "NM:i:", "NM:i:x", "NMi:3", "NM;i:3", "NM:i;3", "XS:A:ab", "XS:A:", "XF:f:", "XF:f:1.5.2", "XF:f:1e", "XF:f:1e400", "XF:f:3.5e38", "XF:f:3.4028236e38",
	"XF:f:3.4028235677973367e38", "XF:f:-1e39", "XF:f:0x1p128", "XF:f:0x1.fffffep127", "XF:f:0x1.ffffffp127", "XF:f:0x1", "XF:f:1e+", "XF:f:e5", "XF:f:.", "XF:f:+", "XF:f:1__0", "XF:f:_1", "XF:f:1_",
	"XF:f:infinit", "XF:f:+nan", "XF:f:1e99999", "XF:f:1e-99999", "XF:f:0e99999", "XF:f:1,5", "XF:f:1f",
	"ZB:B:c", "ZB:B:c,", "ZB:B:c,128", "ZB:B:c,-129", "ZB:B:C,-1", "ZB:B:C,256", "ZB:B:q,1", "ZB:B:c;1", "ZB:B:s,32768", "ZB:B:S,65536", "ZB:B:i,2147483648", "ZB:B:I,4294967296", "ZB:B:f,x", "ZB:B:c,1,,2",
	"ZB:B:", "ZB:B:,1", "ZB:B:c,1_", "ZB:B:c,0x", "ZB:B:c,08",
	"ZH:H:1A3", "ZH:H:GG", "ZH:H:1G", "ZH:H:", "XX:i:4294967296", "XX:i:-2147483649", "XX:i:9223372036854775808", "X:i:1", "XY:Q:1", "NM:i:3:4", "MD:Z:", "", "x", "NM:i:3 ", " NM:i:3", "NM:i: 3", "XY:a:b"}

// corruptDoc applies one structural corruption to a valid text; returns the text and a tag
func corruptDoc(r *RNG, d *samDoc) (string, string) {
	d.plain = false
	var kept [][]string
	for _, f := range d.recs { // the blank-line variety of valid texts would hide the corruption behind its panic
		if len(f) > 1 {
			kept = append(kept, f)
		}
	}
	d.recs = kept
	pickRec := func() []string {
		if len(d.recs) == 0 {
			d.recs = append(d.recs, []string{"q", "0", "*", "0", "0", "*", "*", "0", "0", "*", "*"})
		}
		return d.recs[r.Intn(len(d.recs))]
	}
	pickMapped := func() []string {
		for try := 0; try < 20; try++ {
			f := pickRec()
			if len(f) >= 11 && f[5] != "*" && f[9] != "*" {
				return f
			}
		}
		f := pickRec()
		for len(f) < 11 {
			f = append(f, "*")
		}
		return f
	}
	setRec := func(f []string, i int, v string) {
		if len(f) > i {
			f[i] = v
		}
	}
	hdrAt := func(prefix string) int {
		var idx []int
		for i, l := range d.header {
			if strings.HasPrefix(l, prefix) {
				idx = append(idx, i)
			}
		}
		if len(idx) == 0 {
			return -1
		}
		return idx[r.Intn(len(idx))]
	}
	sqLine := func() int {
		i := hdrAt("@SQ")
		if i < 0 {
			d.header = append(d.header, "@SQ\tSN:added\tLN:100")
			i = len(d.header) - 1
		}
		return i
	}
	insertHeader := func(at int, l string) {
		if at > len(d.header) {
			at = len(d.header)
		}
		d.header = append(d.header[:at], append([]string{l}, d.header[at:]...)...)
	}
	switch k := r.Intn(42); k {
	case 40, 41:
		f := pickRec()
		for len(f) < 11 {
			f = append(f, "*")
		}
		t := randNumTag(r)
		for i, g := range d.recs {
			if &g[0] == &f[0] {
				d.recs[i] = append(f, t)
			}
		}
		return d.text(), "number-tag"
	case 0:
		f := pickRec()
		n := r.Range(0, 10)
		for i, g := range d.recs {
			if &g[0] == &f[0] {
				d.recs[i] = g[:min(n, len(g))]
				if len(d.recs[i]) == 0 {
					d.recs[i] = []string{""}
				}
			}
		}
		return d.text(), "too-few-fields"
	case 1:
		f := pickRec()
		setRec(f, r.Intn(11), "")
		return d.text(), "empty-field"
	case 2:
		setRec(pickRec(), 1, r.PickStr(badFlags))
		return d.text(), "flag-text"
	case 3:
		setRec(pickRec(), r.PickInt([]int{3, 3, 7, 8}), r.PickStr(badInts))
		return d.text(), "int-text"
	case 4:
		setRec(pickRec(), 4, r.PickStr(badMapqs))
		return d.text(), "mapq-text"
	case 5:
		f := pickMapped()
		setRec(f, 3, r.PickStr([]string{"-1", "-100", "0", "1000000", "2147483647", "2147483648", "4294967296"}))
		return d.text(), "pos-out-of-reference"
	case 6, 7:
		f := pickRec()
		c := r.PickStr(badCigars)
		setRec(f, 5, c)
		if r.Bool() {
			setRec(f, 9, "*")
			setRec(f, 10, "*")
		}
		return d.text(), "cigar-text"
	case 8:
		f := pickMapped()
		switch r.Intn(4) {
		case 0:
			f[9] += "A"
		case 1:
			f[9] = f[9][:len(f[9])-1]
		case 2:
			f[5] = "1M" + f[5]
		default:
			f[9] = ""
		}
		if f[10] != "*" {
			f[10] = "*"
		}
		return d.text(), "cigar-seq-length"
	case 9:
		f := pickMapped()
		f[5] = r.PickStr([]string{"3M2H3M", "3M2S3M", "2H3S3M", "3M3S2H", "2S2H4M", "1H1H6M", "2H2S2M2S2H", "1S1S6M", "2S4M1H1S1M", "8M1H1S", "1S7M", "1S1H7M", "1H1S1H6M"})
		f[9] = randSeq(r, 8, seqPlain, false)
		f[10] = "*"
		return d.text(), "clip-placement"
	case 10:
		f := pickRec()
		setRec(f, r.PickInt([]int{2, 6}), r.PickStr([]string{"nosuchref", "REF1", "", " ", "=", "**"}))
		return d.text(), "unknown-reference"
	case 11:
		f := pickRec()
		setRec(f, 2, "*")
		setRec(f, 6, r.PickStr([]string{"=", "*"}))
		return d.text(), "star-reference"
	case 12, 13:
		i := sqLine()
		l := d.header[i]
		name := "dup"
		for _, p := range strings.Split(l, "\t") {
			if strings.HasPrefix(p, "SN:") {
				name = p[3:]
			}
		}
		var l2 string
		switch r.Intn(8) {
		case 0:
			l2 = l
		case 1:
			l2 = "@SQ\tSN:" + name + "\tLN:77"
		case 2:
			l2 = "@SQ\tSN:" + name
		case 3:
			l2 = "@SQ\tSN:" + name + "\tXX:extra"
		case 4:
			l2 = "@SQ\tSN:" + name + "\tLN:77\tAS:zz"
			insertHeader(i+1, l2)
		case 5:
			l2 = strings.Replace(l, "\tLN:", "\tAS:q\tLN:", 1)
		case 6:
			l2 = l + "\tXY:1"
			insertHeader(i+1, l)
		default:
			l2 = "@SQ\tLN:5\tSN:" + name + "\tSP:x"
			insertHeader(i+1, "@SQ\tSN:"+name+"\tLN:5")
		}
		at := i + 1
		if r.Bool() {
			at = len(d.header)
		}
		insertHeader(at, l2)
		return d.text(), "duplicate-sq"
	case 14, 15:
		i := sqLine()
		d.header[i] = "@SQ\t" + r.PickStr([]string{"SN:x", "LN:5", "SN:x\tLN:0", "SN:x\tLN:abc", "SN:x\tLN:2147483647", "SN:x\tLN:2147483648", "SN:x\tLN:-5", "SN:x\tLN:+5", "SN:x\tLN:", "SN:a\tSN:b\tLN:5",
			"SN:x\tLN:5\tLN:6", "SN:\tLN:5", "SN:*\tLN:5", "SN:x\tLN:5\tM5:abc", "SN:x\tLN:5\tM5:zz", "SN:x\tLN:5\tM5:d41d8cd98f00b204e9800998ecf842", "SN:x\tLN:5\tM5:d41d8cd98f00b204e9800998ecf8427e00",
			"SN:x\tLN:5\tM5:d41d8cd98f00b204e9800998ecf8427e0", "SN:x\tLN:5\tM5:", "SN:x\tLN:5\tM5:d41d8cd98f00b204e9800998ecf8427g", "SN:x\tLN:5\tM5:d41d8cd98f00b204e9800998ecf8427e0g", "SN:x\tLN:1_0", "SN:x\tLN:9999999999999999999999",
			"SN=x\tLN:5", "SN\tLN:5", "S\tLN:5", "SN:x\t\tLN:5", "SN:x\tLN:5\t", "SN:x LN:5", "XX:1\tYY:2", "SN:x\tLN:5\tXX:1\tXX:2", "SN:x\tLN:05", "SN:x\tLN:5\tAS:\tSP:"})
		return d.text(), "sq-fields"
	case 16, 17:
		f := pickRec()
		t := r.PickStr(badTags)
		for len(f) < 11 {
			f = append(f, "*")
		}
		for i, g := range d.recs {
			if &g[0] == &f[0] {
				if r.Bool() {
					d.recs[i] = append(f, t)
				} else {
					d.recs[i] = append(append(append([]string{}, f[:11]...), t), f[11:]...)
				}
			}
		}
		return d.text(), "tag-text"
	case 18:
		f := pickMapped()
		f[10] = r.PickStr([]string{randQual(r, len(f[9])+1), randQual(r, max(0, len(f[9])-1)), "", "**", "I"})
		return d.text(), "qual-length"
	case 19:
		f := pickRec()
		for i, g := range d.recs {
			if &g[0] == &f[0] {
				d.recs[i] = append(g, strings.Split(r.PickStr([]string{"", "~", "~~"}), "~")...)
			}
		}
		return d.text(), "tab-at-line-end"
	case 20:
		if len(d.header) > 0 {
			i := r.Intn(len(d.header))
			d.header[i] += r.PickStr([]string{"\t", "\t\t", " ", "\tX", "\tXX", "\tXX:"})
		}
		return d.text(), "header-line-end"
	case 21:
		return r.PickStr([]string{"", "\n", "\r\n", "\n\n", "@", "@\n", "@HD", "@HD\n", "@HD\tVN:1.6", "@HD\tVN:1.6\n", "@CO\n", "@CO\tx\n", "@CO x\n", "@XX\tab:c\n", "@HD\tVN\n", "@HD\tSO:unsorted\n",
			"@HD\tVN:1.6\tVN:1.6\n", "@HD\tVN:1.6\tSO:unsorted\tSO:coordinate\n", "@HD\tVN:1.6\tSO:unknown\tSO:coordinate\n", "@HD\tVN:1.6\tGO:zz\tGO:query\n", "@HD\tVN:\n", "@HD\tVN:1\n@HD\tVN:2\n", "@HD\tVN:1\n@HD\tXX:2\n",
			"@SQ\tSN:x\n", "@hd\tVN:1.6\n", "@HDX\tVN:1.6\n", "@H\n", "@HD\r\n", "@\r\n", "\t", "x", "*", "@HD\tVN:1.6\n\n", "@HD\tVN:1.6\n\n@SQ\tSN:a\tLN:5\n", "@HD\tVN:1.6\r\n@SQ\tSN:a\tLN:5\r\n",
			"@HD\tVN:1.6\n@", "@HD\tVN:1.6\n@SQ\tSN:a\tLN:5", "@HD\tVN:1.6\nq\t0\t*\t0\t0\t*\t*\t0\t0\t*\t*", "\xef\xbb\xbf@HD\tVN:1.6\n", "@CO\t\n", "@CO\t\t\n", "@RG\tID:a\n@RG\tID:a\n", "@RG\tSM:a\n", "@RG\tID:a\tID:b\n",
			"@RG\tID:a\tPI:x\n", "@RG\tID:a\tPI:2147483648\n", "@RG\tID:a\tPI:-2147483648\n", "@PG\tID:a\n@PG\tID:a\n", "@PG\tPN:a\n", "@PG\tID:a\tPN:x\tPN:y\n", "@PG\n", "@RG\n", "@SQ\n", "@PG\tID\n", "@RG\tI\n"}), "tiny-file"
	case 22:
		d.recs = nil
		if r.Bool() {
			d.finalNL = false
		}
		return d.text(), "only-header"
	case 23:
		t := []byte(d.text())
		if len(t) > 0 {
			for k := r.Range(1, 3); k > 0; k-- {
				t[r.Intn(len(t))] = byte(r.PickInt([]int{0, 0, 0x80, 0xff, 0x1f, 0x7f}))
			}
		}
		return string(t), "nul-and-high-bytes"
	case 24:
		f := pickMapped()
		n := r.PickInt([]int{4090, 4096, 5000, 65536, 70000})
		f[5] = fmt.Sprintf("%dM", n)
		f[9] = randSeq(r, n, seqPlain, false)
		f[10] = "*"
		if r.Chance(1, 4) {
			f[10] = randQual(r, n)
		}
		if r.Chance(1, 4) {
			f[9] = f[9][1:]
		}
		return d.text(), "very-long-line"
	case 25:
		if len(d.header) > 0 && len(d.recs) > 0 {
			at := r.Intn(len(d.recs)) + 1
			if at > len(d.recs) {
				at = len(d.recs)
			}
			d.recs = append(d.recs[:at], append([][]string{{d.header[r.Intn(len(d.header))]}}, d.recs[at:]...)...)
		}
		return d.text(), "header-line-among-records"
	case 26:
		t := d.text()
		if len(t) > 0 {
			t = t[:r.Intn(len(t))]
		}
		return t, "truncated"
	case 27:
		t := []byte(d.text())
		if len(t) > 0 {
			at := r.Intn(len(t))
			switch r.Intn(4) {
			case 0:
				t = append(t[:at], t[at+1:]...)
			case 1:
				t = append(t[:at], append([]byte{'\t'}, t[at:]...)...)
			case 2:
				t = append(t[:at], append([]byte{'\n'}, t[at:]...)...)
			default:
				t = append(t[:at], append([]byte{'\r'}, t[at:]...)...)
			}
		}
		return string(t), "one-byte-edit"
	case 28:
		i := hdrAt("@HD")
		l := "@HD\t" + r.PickStr([]string{"SO:unsorted", "VN:1.6\tVN:1.6", "VN:", "VN", "V", "", "VN:1.6\tSO", "VN:1.6\t", "VN=1.6", "VN:1.6\tSO:unsorted\tSO:coordinate", "VN:1.6\tSO:bad\tSO:coordinate",
			"VN:1.6\tGO:query\tGO:none", "VN:1.6\tGO:bad\tGO:none", "XX:1\tVN:1.6", "VN:1.6 SO:unsorted"})
		if i >= 0 && r.Bool() {
			d.header[i] = l
		} else {
			insertHeader(r.Intn(len(d.header)+1), l)
		}
		return d.text(), "hd-fields"
	case 29:
		l := r.PickStr([]string{"@RG\tID:grp1", "@RG\tSM:x", "@RG\tID:g\tID:h", "@RG\tID:g\tPI:x", "@RG\tID:g\tPI:2147483648", "@RG\tID:g\tPI:-2147483649", "@RG\tID:g\tPI:", "@RG", "@RG\t", "@RG\tID", "@RG\tID:",
			"@RG\tID:g\tSM:a\tSM:b", "@PG\tID:minimap2", "@PG\tPN:x", "@PG\tID:p\tID:q", "@PG", "@PG\tID:p\tCL:a\tCL:b", "@PG\tID:", "@CO", "@CO ", "@CO\t", "@COx\ty", "@co\tx", "@XY\tzz:1", "@", "@S", "@SQ", "@ RG\tID:x"})
		insertHeader(r.Intn(len(d.header)+1), l)
		if r.Chance(1, 3) {
			insertHeader(r.Intn(len(d.header)+1), l)
		}
		return d.text(), "rg-pg-co-fields"
	case 30:
		d.eol = r.PickStr([]string{"\r", "\n\r", "\r\r\n", "\n\n"})
		return d.text(), "line-ends"
	case 31:
		f := pickRec()
		f[0] = r.PickStr([]string{"@read", "", strings.Repeat("n", 300), "a\x00b", "name with spaces", "\r"})
		if r.Bool() && len(d.recs) > 0 {
			d.recs[0][0] = "@first"
		}
		if r.Bool() {
			d.header = nil
		}
		return d.text(), "odd-names"
	case 32:
		t := d.text()
		return strings.Replace(t, "\t", " ", r.PickInt([]int{1, 3, -1})), "spaces-for-tabs"
	case 33:
		d.header = nil
		f := pickRec()
		setRec(f, 2, r.PickStr([]string{"", "newref", "*", "="}))
		setRec(f, 6, r.PickStr([]string{"", "newref", "mate2", "*", "="}))
		return d.text(), "no-header-references"
	case 34:
		f := pickRec()
		setRec(f, 9, r.PickStr([]string{"", "*", "**", "ACGU", "acgtn", "A.C-G", "0123", "=", "A C", "\x00", "nnnn"}))
		setRec(f, 10, "*")
		if r.Bool() {
			setRec(f, 5, "*")
		}
		return d.text(), "seq-text"
	case 35:
		// a text that stops inside the header
		d.recs = nil
		d.finalNL = false
		if len(d.header) == 0 {
			d.header = []string{"@HD\tVN:1.6"}
		}
		return d.text(), "header-without-final-newline"
	case 36:
		f := pickRec()
		setRec(f, 5, r.PickStr([]string{"9999999999999M", "1000000000M", "268435456M3I", "536870911D", "0M0I0D"}))
		setRec(f, 9, "*")
		setRec(f, 10, "*")
		return d.text(), "huge-cigar-length"
	case 37:
		if len(d.header) > 0 {
			insertHeader(r.Intn(len(d.header)+1), r.PickStr([]string{"", "\r", " ", "#comment", "q1\t0\t*\t0\t0\t*\t*\t0\t0\t*\t*"}))
		}
		return d.text(), "non-header-line-in-header"
	case 38:
		f := pickMapped()
		f[5] = r.PickStr([]string{"4M2B4M", "2B8M", "8M2B", "1M5B7M", "4M4B2I2M"})
		f[9] = randSeq(r, 8, seqPlain, false)
		f[10] = "*"
		return d.text(), "back-operator"
	default:
		f := pickRec()
		setRec(f, 1, r.PickStr([]string{"0x4", "0X100", "04", "0b100", "0o4", "0x800", "4_0", "0_4", "65535", "0xffff", "0x10000"}))
		return d.text(), "flag-other-base"
	}
}

// randNumTag: an optional field whose value is a number written in one of the ways strconv accepts or just not:
// float32 rounding boundaries (the exact midpoint of two neighbouring float32 values and its neighbours), hex
// floats, base prefixes and underscores, integer range ends
func randNumTag(r *RNG) string {
	digits := func(n int) string {
		b := make([]byte, n)
		for i := range b {
			b[i] = byte('0' + r.Intn(10))
		}
		return string(b)
	}
	us := func(s string) string { // underscores sprinkled in
		if !r.Chance(1, 6) || len(s) < 2 {
			return s
		}
		at := r.Intn(len(s) + 1)
		return s[:at] + "_" + s[at:]
	}
	switch r.Intn(7) {
	case 0: // decimal float by grammar
		s := r.PickStr([]string{"", "", "-", "+"})
		s += r.PickStr([]string{digits(r.Range(1, 12)), digits(r.Range(1, 45)), "0", "00", ""})
		if r.Chance(2, 3) {
			s += "." + r.PickStr([]string{digits(r.Range(1, 12)), digits(r.Range(1, 60)), "", "000" + digits(3)})
		}
		if r.Chance(1, 2) {
			s += r.PickStr([]string{"e", "E"}) + r.PickStr([]string{"", "-", "+"}) + r.PickStr([]string{digits(1), digits(2), "38", "39", "-45", "45", "46", digits(r.Range(1, 6))})
		}
		return "XF:f:" + us(s)
	case 1, 2: // around the midpoint of two neighbouring float32 values
		bits := uint32(r.U64())
		switch r.Intn(4) {
		case 0:
			bits &= 0x007fffff // subnormal
		case 1:
			bits = 0x7f7fffff - uint32(r.Intn(3)) // the largest
		case 2:
			bits = (bits & 0x007fffff) | uint32(r.Range(100, 160))<<23
		default:
			bits &= 0x7fffffff
			if bits >= 0x7f800000 {
				bits = 0x3f800000
			}
		}
		s := float32Midpoint(bits)
		switch r.Intn(5) {
		case 0:
		case 1:
			s += "1"
		case 2:
			s += "0000000000000000000000001"
		case 3: // just below: decrement the last non-zero digit
			b := []byte(s)
			for i := len(b) - 1; i >= 0; i-- {
				if b[i] >= '1' && b[i] <= '9' {
					b[i]--
					s = string(b[:i+1]) + "9999999999"
					break
				}
			}
		default:
			s = s[:max(1, len(s)-r.Range(1, 5))]
		}
		if r.Chance(1, 4) {
			s = "-" + s
		}
		if r.Chance(1, 5) {
			return "ZB:B:f," + s + ",1.5"
		}
		return "XF:f:" + s
	case 3: // hex float
		hexd := func(n int) string {
			b := make([]byte, n)
			for i := range b {
				b[i] = "0123456789abcdefABCDEF"[r.Intn(22)]
			}
			return string(b)
		}
		s := r.PickStr([]string{"", "-", "+"}) + r.PickStr([]string{"0x", "0X"}) + r.PickStr([]string{hexd(r.Range(1, 8)), hexd(r.Range(1, 20)), "1", "0", ""})
		if r.Chance(1, 2) {
			s += "." + r.PickStr([]string{hexd(r.Range(1, 8)), hexd(r.Range(6, 20)), "", "ffffff", "fffffe", "ffffff8", "ffffff7fffffffffff"})
		}
		if !r.Chance(1, 8) {
			s += r.PickStr([]string{"p", "P"}) + r.PickStr([]string{"", "-", "+"}) + r.PickStr([]string{digits(1), digits(2), "127", "128", "-126", "-127", "-149", "-150", "-151", "104", digits(4)})
		}
		return "XF:f:" + us(s)
	case 4: // integer tag, decimal only (Atoi)
		s := r.PickStr([]string{"", "", "-", "+"}) + r.PickStr([]string{digits(r.Range(1, 5)), digits(r.Range(8, 11)), digits(r.Range(17, 21)), "2147483647", "2147483648", "4294967295", "4294967296", "128", "32768"})
		return "XI:i:" + us(s)
	case 5: // array elements with base prefixes
		typ := r.PickStr([]string{"c", "C", "s", "S", "i", "I"})
		var el []string
		for k := r.Range(1, 4); k > 0; k-- {
			e := r.PickStr([]string{"", "", "-", "+"}) + r.PickStr([]string{"", "", "0x", "0X", "0b", "0o", "0", "0B", "0O"})
			e += r.PickStr([]string{digits(r.Range(1, 3)), digits(r.Range(1, 6)), "7f", "80", "ff", "100", "7fff", "8000", "ffff", "7fffffff", "80000000", "ffffffff", "100000000", "1010", "777", "128", "127", "255", "256"})
			el = append(el, us(e))
		}
		return "ZB:B:" + typ + "," + strings.Join(el, ",")
	default: // flags-like: not a tag but kept here for the numbers
		return "XF:f:" + r.PickStr([]string{"1e38", "3.4e38", "3.5e38", "340282346638528859811704183484516925440", "340282356779733661637539395458142568447", "340282356779733661637539395458142568448",
			"340282356779733661637539395458142568449", "0.000000000000000000000000000000000000000000001", "1.401298464324817e-45", "7.006492321624085e-46", "7.0064923216240853546186479164495806564013097093825788587853e-46",
			"7.0064923216240853546186479164495806564013097093825788587854e-46", "1.1754942e-38", "1.1754943e-38", "1.17549428e-38", "16777216", "16777217", "16777218", "16777219", "9007199791611905", "1e23", "8.5e-9"})
	}
}

func max(a, b int) int {
	if a > b {
		return a
	}
	return b
}

// mode 0 = both, 1 = valid only, 2 = corrupted only
func samTextGen(r *RNG, id string, mode int) *Case {
	c := NewCase("SAMTXT", id)
	if mode != 2 && r.Chance(1, 7) {
		// exactly what the other SAM streams feed the program: samText of genSam's rows (the Lean side renders the same
		// bytes with the function of the round-trip theorem and checks the theorem's premises on the rows)
		sc := genSam(r, r.Bool(), 3)
		sc.fill(c)
		c.Set("kind", "plain")
		c.Set("text", hex.EncodeToString([]byte(samText(sc.rname, len(sc.ref), sc.recs, true))))
		c.Tag("sam-plain")
		c.NonTrv = true
		return c
	}
	d := genValidDoc(r)
	corrupt := mode == 2 || (mode == 0 && r.Intn(100) < 45)
	var txt string
	if corrupt {
		var tag string
		txt, tag = corruptDoc(r, d)
		c.Set("kind", "corrupt")
		c.Tag("sam-" + tag)
	} else {
		txt = d.text()
		c.Set("kind", "valid")
		if d.eol != "\n" {
			c.Tag("sam-crlf")
		}
		if len(d.header) == 0 {
			c.Tag("sam-no-header")
		}
	}
	c.Set("text", hex.EncodeToString([]byte(txt)))
	if d.plain && !corrupt {
		var ps, rs []string
		for _, row := range d.rows {
			ps = append(ps, row.proto())
		}
		for _, e := range d.refs {
			rs = append(rs, e[0]+"~"+e[1])
		}
		c.Set("recs", strings.Join(ps, ";")).Set("rnames", strings.Join(d.rnames, ";")).Set("refs", strings.Join(rs, ";"))
		c.Tag("sam-rows")
	}
	c.NonTrv = true
	return c
}
